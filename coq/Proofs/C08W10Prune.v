(* C08 wave 10 - link of the pointer-level prune_taxa / retain_taxa (Model/HeapOps.v, the program the
   generated Tree_prune_taxa / Tree_retain_taxa are proved to refine in Proofs/C03GenPrune.v) to
   C08's functional transcription (Model/C08Model.v prune_taxa) and hence, through
   C08Prune.prune_taxa_spec, to the structural specification `restrict`.

   Route: a step-by-step simulation.  One removal of a childless live node on the heap is
   C03Spec.spec_prune on the abstraction (from C03Thms.prune_subtree_refines_l with both flags off)
   = C08's upd_below rm_f; the post-order loop of phase 1 and the inner loop of the leaf passes are
   instances of one conditional-removal fold (fold_sim); the while loop is simulated up to fuel
   (loop_sim); the tail is C03Ops.tail_wf against C08's finish (finish_spec_tail, the argument of
   C08Link generalised). *)
From Coq Require Import ZArith List Bool Lia Permutation.
From DV Require Import Model.PyPrims Model.Tree Model.Heap Model.C03Spec.
From DV Require Model.HeapOps.
From DV Require Proofs.C03Base Proofs.C03Abs Proofs.C03Local Proofs.C03Prims Proofs.C03Ops Proofs.C03Hist
     Proofs.C03Thms Proofs.C03SpecLinks Proofs.C03PruneLoops Proofs.C03PruneSpec Proofs.C03More Proofs.C03Order.
From DV Require Import Model.C08Model Model.C08Spec2
     Proofs.C08Base Proofs.C08InPlace Proofs.C08Prune Proofs.C08Final Proofs.C08More Proofs.C08Child Proofs.C08Link Proofs.C08Thms.
Import ListNotations.
Open Scope Z_scope.

Import C03Base C03Local C03Prims C03PruneSpec.

(* ---- one removal ---- *)

Lemma rfp_spec e h t n : WFt h t -> In n (ids t) -> n <> seed h ->
  exists h', HeapOps.remove_from_parent e n h = HOk h' /\ abs h' = Some (spec_prune n t).
Proof.
  intros W Hn Ds.
  destruct (C03Thms.prune_subtree_refines_l false false h t n (C03Hist.WFt_WF h t W) (C03Abs.abs_WFt h t W) Hn Ds)
    as [h' [E [_ [A _]]]].
  exists h'. split; [|exact A].
  unfold HeapOps.prune_subtree in E. unfold HeapOps.remove_from_parent.
  destruct (parent h n) as [p|]; [|discriminate E].
  destruct (Heap.remove_child_plain p n h) as [h1|e1 h1|]; simpl in E; try discriminate E.
  unfold HeapOps.ub_tail_su in E. exact E.
Qed.

Lemma aupd_len k v m c : alookup k m = Some c -> length (aupd k v m) = length m.
Proof.
  induction m as [|[a b] r IH]; simpl; [discriminate|]. destruct (Z.eqb k a); simpl; [reflexivity|].
  intro H. rewrite (IH H). reflexivity.
Qed.

Lemma upd_cell_len i f h : has h i = true -> length (cells (upd_cell i f h)) = length (cells h).
Proof.
  unfold has, upd_cell. simpl cells. destruct (alookup i (cells h)) as [c|] eqn:E; [|discriminate].
  intros _. exact (aupd_len i _ _ c E).
Qed.

Lemma kids_has h p : kids h p <> [] -> has h p = true.
Proof.
  unfold kids, get, has. destruct (alookup p (cells h)); [reflexivity|]. simpl. intro H. exfalso. apply H. reflexivity.
Qed.

Lemma rfp_fuel e nd h h' : has h nd = true -> HeapOps.remove_from_parent e nd h = HOk h' -> fuel_of h' = fuel_of h.
Proof.
  intros Hn E. unfold HeapOps.remove_from_parent in E. destruct (parent h nd) as [p|]; [|discriminate E].
  unfold Heap.remove_child_plain in E. destruct (Heap.memz nd (kids h p)) eqn:M; [|discriminate E].
  inversion E; subst h'. unfold fuel_of. f_equal. cbv zeta. unfold set_kids, set_parent.
  etransitivity; [apply upd_cell_len|apply upd_cell_len; exact Hn].
  rewrite has_upd_cell. apply orb_true_iff. right. apply kids_has. intro K. rewrite K in M. discriminate M.
Qed.

Lemma rm1 e h t nd : WFt h t -> In nd (ids t) -> kids h nd = [] -> nd <> seed h ->
  exists h', HeapOps.remove_from_parent e nd h = HOk h' /\ WFt h' (spec_prune nd t) /\
    Permutation (ids t) (nd :: ids (spec_prune nd t)) /\ pres h h' /\ tx_same h h' /\ childless_kept h h' /\
    fuel_of h' = fuel_of h.
Proof.
  intros W Hn Kn Dn.
  destruct (C03PruneLoops.remove_childless h t nd e W Hn Kn Dn) as [h' [t' [E [W' [Pm [P K]]]]]].
  destruct (rfp_spec e h t nd W Hn Dn) as [h2 [E2 A2]].
  rewrite E in E2. inversion E2; subst h2.
  rewrite (C03Abs.abs_WFt h' t' W') in A2. inversion A2; subst t'.
  exists h'. split; [exact E|split; [exact W'|split; [exact Pm|split; [exact P|split; [|split; [exact K|]]]]]].
  - exact (taxon_remove_from_parent e nd h h' E).
  - apply (rfp_fuel e nd h h'); [|exact E]. destruct W as [[R _] _]. exact (rep_has h None t nd R Hn).
Qed.

(* ---- the model side of one step ---- *)

Definition mcf (mc : tree -> bool) (n : tree) : list tree := if mc n then [] else [n].

Definition gstep (mc : tree -> bool) (xe : xerr) (s : ires tree) (id : Z) : ires tree :=
  match s with
  | IOk t => if Z.eqb (t_id t) id then (if mc t then IErr xe t else IOk t)
             else IOk (upd_below (mcf mc) id t)
  | x => x
  end.

Lemma upd_below_passes f ci : C03SpecLinks.passes ci (upd_below f ci).
Proof.
  intros i x l e lft s rgt Nl Nr _ Ds. unfold upd_below. simpl t_kids. simpl set_kids.
  f_equal. rewrite updF_app. change (s :: rgt) with ([s] ++ rgt). rewrite updF_app.
  rewrite (updF_notin f ci lft) by exact Nl. rewrite (updF_notin f ci rgt) by exact Nr.
  f_equal. f_equal. unfold updF. simpl. rewrite app_nil_r.
  destruct s as [j y m g ks]. simpl t_id in Ds. simpl. apply Z.eqb_neq in Ds. rewrite Ds. reflexivity.
Qed.

Lemma upd_below_mcf mc c p x l e lft s rgt :
  NoDup (ids (plug c (T p x l e (lft ++ s :: rgt)))) ->
  upd_below (mcf mc) (t_id s) (plug c (T p x l e (lft ++ s :: rgt))) =
  if mc s then spec_prune (t_id s) (plug c (T p x l e (lft ++ s :: rgt)))
  else plug c (T p x l e (lft ++ s :: rgt)).
Proof.
  intro N. pose proof N as N0. apply nodup_plug in N0. destruct N0 as [N1 _].
  pose proof (focus_facts _ _ _ _ _ _ _ N1) as FF.
  rewrite (C03SpecLinks.lift_ctx (t_id s) _ (upd_below_passes (mcf mc) (t_id s))).
  - assert (E : upd_below (mcf mc) (t_id s) (T p x l e (lft ++ s :: rgt)) = T p x l e (lft ++ mcf mc s ++ rgt)).
    { unfold upd_below. simpl t_kids. simpl set_kids. f_equal.
      rewrite updF_app. change (s :: rgt) with ([s] ++ rgt). rewrite updF_app.
      rewrite (updF_notin _ _ lft) by exact (fn_tc_lft _ _ _ _ FF _ (ids_root s)).
      rewrite (updF_notin _ _ rgt) by exact (fn_tc_rgt _ _ _ _ FF _ (ids_root s)).
      unfold updF. simpl. rewrite app_nil_r, upd_at_root. reflexivity. }
    rewrite E. unfold mcf. destruct (mc s).
    + rewrite (C03SpecLinks.spec_prune_plug c p x l e lft s rgt N). reflexivity.
    + reflexivity.
  - exact N.
  - rewrite ids_focus. right. apply in_app_iff. right. apply in_app_iff. left. apply ids_root.
  - simpl. intro E. apply (fn_p_tc _ _ _ _ FF). rewrite E. apply ids_root.
Qed.

Lemma fold_gstep_err mc xe L x t : fold_left (gstep mc xe) L (IErr x t) = IErr x t.
Proof. induction L as [|a r IH]; [reflexivity|exact IH]. Qed.

(* ---- the conditional-removal fold: heap program vs. transcription ---- *)

Section FoldSim.
  Variables (cond : heap -> Z -> bool) (mc : tree -> bool) (e : err) (xe : xerr) (ok : heap -> Z -> Prop).
  Hypothesis Hag : forall h nd s, kids h nd = map t_id (t_kids s) -> taxon h nd = t_taxon s -> cond h nd = mc s.
  Hypothesis Hok1 : forall h nd, ok h nd -> cond h nd = true -> kids h nd = [].
  Hypothesis Hok2 : forall h h' nd, ok h nd -> childless_kept h h' -> ok h' nd.

  Definition hstep (nd : Z) (h : heap) : hres :=
    if cond h nd then HeapOps.remove_from_parent e nd h else HOk h.

  Definition fsim (h : heap) (t : tree) (r : hres) (m : ires tree) : Prop :=
    (exists h' t', r = HOk h' /\ m = IOk t' /\ WFt h' t' /\ pres h h' /\ tx_same h h' /\ childless_kept h h' /\
                   (forall j, In j (ids t') -> In j (ids t)) /\ fuel_of h' = fuel_of h) \/
    (exists e' h' x t', r = HErr e' h' /\ m = IErr x t').

  Lemma fold_sim : forall L h t, WFt h t -> NoDup L -> (forall nd, In nd L -> In nd (ids t) /\ ok h nd) ->
    fsim h t (hfold hstep L h) (fold_left (gstep mc xe) L (IOk t)).
  Proof.
    induction L as [|nd r IH]; intros h t W N H.
    - left. exists h, t. simpl. split; [reflexivity|split; [reflexivity|split; [exact W|split; [apply pres_refl|]]]].
      split; [intro j; reflexivity|split; [intros j K; exact K|split; [intros j K; exact K|reflexivity]]].
    - apply NoDup_cons_iff in N. destruct N as [Nn Nr].
      destruct (H nd (or_introl eq_refl)) as [Hn On].
      destruct (find_ctx t nd Hn) as [c [s [Et Es]]].
      pose proof W as [W0 S]. pose proof W0 as [R0 [ND _]].
      assert (Ec : cond h nd = mc s).
      { apply Hag.
        - rewrite <- Es. apply (C03Hist.kids_of_focus h c s). rewrite <- Et. exact W0.
        - rewrite Et in R0. apply rep_plug in R0. destruct R0 as [_ R0]. rewrite <- Es.
          apply (C03Local.rep_taxon h _ s R0). }
      simpl hfold. simpl fold_left. unfold hstep at 1. rewrite Ec.
      destruct c as [|c' p x l e0 lft rgt].
      + simpl plug in Et. subst s. rewrite Es, Z.eqb_refl.
        destruct (mc t) eqn:M.
        * right. rewrite fold_gstep_err. rewrite <- Es, S, (C03PruneLoops.remove_root h t e W). simpl.
          exists e, h, xe, t. split; reflexivity.
        * simpl hbind. apply IH; [exact W|exact Nr|]. intros j Hj. apply H. right. exact Hj.
      + simpl plug in Et.
        assert (Dn : nd <> seed h).
        { intro X. pose proof (C03Local.rep_parent h None _ R0) as P0. rewrite S, <- X in P0.
          assert (R1 : rep h None (plug (CNode c' p x l e0 lft rgt) s)) by (simpl plug; rewrite <- Et; exact R0).
          apply rep_plug in R1. destruct R1 as [_ R1]. simpl cpar in R1.
          pose proof (C03Local.rep_parent h _ s R1) as Ps. rewrite Es, P0 in Ps. discriminate Ps. }
        assert (Dt : Z.eqb (t_id t) nd = false). { apply Z.eqb_neq. rewrite S. intro X. apply Dn. symmetry. exact X. }
        rewrite Dt. rewrite <- Es. rewrite Et at 2. rewrite upd_below_mcf by (rewrite <- Et; exact ND).
        rewrite <- Et, Es.
        destruct (mc s) eqn:M.
        * pose proof (Hok1 h nd On Ec) as Kn.
          destruct (rm1 e h t nd W Hn Kn Dn) as [h1 [E1 [W1 [Pm [P1 [T1 [K1 FU1]]]]]]].
          rewrite E1. simpl hbind.
          assert (I1 : forall j, In j (ids (spec_prune nd t)) -> In j (ids t)).
          { intros j Hj. apply (Permutation_in _ (Permutation_sym Pm)). right. exact Hj. }
          destruct (IH h1 (spec_prune nd t) W1 Nr) as [[h' [t' [A [B [C [D [F [G [I FU]]]]]]]]]|[e' [h' [x' [t' [A B]]]]]].
          -- intros j Hj. destruct (H j (or_intror Hj)) as [Hi Oj]. split; [|exact (Hok2 h h1 j Oj K1)].
             apply (Permutation_in _ Pm) in Hi. destruct Hi as [Hi|Hi]; [|exact Hi].
             exfalso. apply Nn. rewrite Hi. exact Hj.
          -- left. exists h', t'. split; [exact A|split; [exact B|split; [exact C|]]].
             split; [eapply pres_trans; eauto|]. split; [intro j; rewrite F; apply T1|].
             split; [intros j Kj; apply G, K1, Kj|]. split; [intros j Hj; apply I1, I, Hj|]. rewrite FU. exact FU1.
          -- right. exists e', h', x', t'. split; assumption.
        * simpl hbind. apply IH; [exact W|exact Nr|]. intros j Hj. apply H. right. exact Hj.
  Qed.
End FoldSim.

Lemma hstep_true e : hstep (fun _ _ => true) e = HeapOps.remove_from_parent e.
Proof. reflexivity. Qed.
Lemma gstep_true xe : gstep (fun _ => true) xe = rm_step xe.
Proof. reflexivity. Qed.
Lemma gstep_p1 lf intn taxa : gstep (p1_cond lf intn taxa) EAttr = p1_step lf intn taxa.
Proof. reflexivity. Qed.

(* ---- the while loop of the leaf passes, up to fuel ---- *)

Definition badh (h : heap) (nd : Z) : bool := match taxon h nd with None => true | Some _ => false end.

Lemma leaf_taxon h t s : WFt h t -> In s (leaves t) -> taxon h (t_id s) = t_taxon s.
Proof.
  intros [[R _] _] Hs. destruct (C03PruneLoops.leaves_ctx t s Hs) as [c [Et _]].
  rewrite Et in R. apply rep_plug in R. destruct R as [_ R]. exact (C03Local.rep_taxon h _ s R).
Qed.

Lemma rm_eq h t : WFt h t ->
  filter (badh h) (Heap.leaf_ids t) = map t_id (filter (app_np no_taxon) (leaves t)).
Proof.
  intro W. unfold Heap.leaf_ids.
  assert (H : forall s, In s (leaves t) -> taxon h (t_id s) = t_taxon s) by (intros s; apply leaf_taxon; exact W).
  induction (leaves t) as [|s r IH]; [reflexivity|]. simpl.
  unfold badh at 1. rewrite (H s (or_introl eq_refl)). unfold app_np at 1, no_taxon at 1.
  rewrite IH by (intros s' Hs'; apply H; right; exact Hs').
  destruct (t_taxon s); reflexivity.
Qed.

Definition lsim (h : heap) (r : hres) (m : ires (list Z * tree)) : Prop :=
  r = HFuel \/ m = IFuel \/
  (exists h' a t', r = HOk h' /\ m = IOk (a, t') /\ WFt h' t' /\ pres h h') \/
  (exists e' h' x t', r = HErr e' h' /\ m = IErr x t').

Lemma lsim_pres h h1 r m : pres h h1 -> lsim h1 r m -> lsim h r m.
Proof.
  intros P [A|[A|[[h' [a [t' [A [B [C D]]]]]]|A]]]; [left; exact A|right; left; exact A| |right; right; right; exact A].
  right; right; left. exists h', a, t'. split; [exact A|split; [exact B|split; [exact C|eapply pres_trans; eauto]]].
Qed.

Lemma loop_sim rec : forall g f h t acc, WFt h t ->
  lsim h (HeapOps.leaf_prune_loop g badh AttrErr rec h) (lf_loop no_taxon EAttr rec f t acc).
Proof.
  induction g as [|g IH]; intros f h t acc W; [left; reflexivity|].
  destruct f as [|f]; [right; left; reflexivity|].
  simpl HeapOps.leaf_prune_loop. simpl lf_loop. rewrite (C03Ops.with_sub_seed h t _ W). cbv zeta beta.
  rewrite (rm_eq h t W).
  assert (Erm : map t_id (filter (app_np no_taxon) (leaves t)) = filter (badh h) (Heap.leaf_ids t)) by (symmetry; apply rm_eq, W).
  set (rm := map t_id (filter (app_np no_taxon) (leaves t))) in *.
  assert (Nrm : NoDup rm).
  { rewrite Erm. apply NoDup_filter. apply (proj2 (C03PruneLoops.leaf_ids_sub t)). destruct W as [[_ [N _]] _]. exact N. }
  assert (Hrm : forall nd, In nd rm -> In nd (ids t) /\ kids h nd = []).
  { intros nd Hn. rewrite Erm in Hn. apply filter_In in Hn. apply (C03PruneLoops.leaf_live h t nd W). tauto. }
  pose proof (fold_sim (fun _ _ => true) (fun _ => true) AttrErr EAttr (fun h nd => kids h nd = [])
                (fun _ _ _ _ _ => eq_refl) (fun _ _ K _ => K) (fun _ _ _ K C => C _ K) rm h t W Nrm Hrm) as FS.
  rewrite hstep_true, gstep_true in FS.
  destruct FS as [[h1 [t1 [A [B [W1 [P1 _]]]]]]|[e' [h' [x' [t' [A B]]]]]]; rewrite A, B; simpl hbind.
  - destruct rm as [|r0 rr].
    + right; right; left. exists h1, (acc ++ []), t1. simpl. auto.
    + destruct rec; simpl.
      * apply (lsim_pres h h1); [exact P1|]. apply IH. exact W1.
      * right; right; left. exists h1, (acc ++ r0 :: rr), t1. auto.
  - right; right; right. exists e', h', x', t'. auto.
Qed.

(* ---- the tail: C08's finish computes C03's spec_tail ---- *)

Lemma finish_spec_tail ub su ret t rooted : NoDup (ids t) ->
  exists r', finish ub su ret t rooted = (ret, C03Ops.spec_tail ub su (negb (rooted_true rooted)) t, r').
Proof.
  intro N1. unfold finish, C03Ops.spec_tail.
  assert (N2 : NoDup (ids (if su then fst (su_run t) else t))).
  { destruct su; [|exact N1]. rewrite (spec_su_run _ N1).
    pose proof (C08Prune.su_restrict_gen (fun _ _ => true) (fun _ _ => true) (fun _ _ => true) t) as S.
    assert (K : restrictG false (fun _ _ => true) (fun _ _ => true) (fun _ _ => true) t = Some t).
    { clear. induction t as [i x l e ks IH] using tree_ind'. destruct ks as [|k r]; [reflexivity|].
      rewrite restrictG_node.
      assert (E : omap_list (restrictG false (fun _ _ => true) (fun _ _ => true) (fun _ _ => true)) (k :: r) = k :: r).
      { rewrite omap_olist. rewrite (flat_map_ext_in _ (fun a => [a])); [apply flat_map_singleton|].
        intros a Ha. rewrite Forall_forall in IH. rewrite (IH a Ha). reflexivity. }
      rewrite E. destruct r; reflexivity. }
    rewrite K in S. cbn [olist] in S. rewrite flat_map_single, spec_su_suL in S.
    destruct (restrictG true (fun _ _ => true) (fun _ _ => true) (fun _ _ => true) t) as [r|] eqn:Er; [|discriminate S].
    cbn [olist] in S. inversion S as [S']. rewrite S'. exact (C08Dist.NoDup_restrict true _ _ _ _ _ N1 Er). }
  destruct ub.
  - destruct (encode_effect su rooted (if su then fst (su_run t) else t)) as [t3 r3] eqn:EE.
    exists r3. f_equal. f_equal.
    pose proof (spec_encode_effect su rooted _ N2) as SE. rewrite EE in SE. simpl fst in SE. rewrite SE.
    destruct su; [rewrite (spec_su_run _ N1)|]; reflexivity.
  - exists rooted. destruct su; [rewrite (spec_su_run _ N1)|]; reflexivity.
Qed.

(* ---- prune_taxa: the heap program reaches the transcription's tree ---- *)

Definition cond1 (taxa : list Z) (ol : bool) (h : heap) (nd : Z) : bool :=
  ((false && is_internal h nd) || (ol && negb (is_internal h nd))) &&
  match taxon h nd with Some x => Heap.memz x taxa | None => false end.

Lemma cond1_agrees taxa ol h nd s :
  kids h nd = map t_id (t_kids s) -> taxon h nd = t_taxon s -> cond1 taxa ol h nd = p1_cond ol false taxa s.
Proof.
  intros K X. unfold cond1, p1_cond, is_internal, is_leaf. rewrite K, X.
  destruct (t_kids s); simpl; destruct (t_taxon s); reflexivity.
Qed.

Lemma cond1_childless taxa ol h nd : cond1 taxa ol h nd = true -> kids h nd = [].
Proof.
  unfold cond1, is_internal. simpl. intro C. apply andb_true_iff in C. destruct C as [C _].
  apply andb_true_iff in C. destruct C as [_ C]. destruct (kids h nd); [reflexivity|discriminate].
Qed.

(* the first loop leaves the number of heap cells (HeapOps.v's loop bound) unchanged *)
Lemma phase1_fuel taxa ol e h t h1 :
  WFt h t -> hfold (hstep (cond1 taxa ol) e) (Heap.post_ids t) h = HOk h1 -> fuel_of h1 = fuel_of h.
Proof.
  intros W E.
  destruct (fold_sim (cond1 taxa ol) (p1_cond ol false taxa) e EAttr (fun _ _ => True)
              (cond1_agrees taxa ol) (fun h nd _ => cond1_childless taxa ol h nd) (fun _ _ _ _ _ => I)
              (Heap.post_ids t) h t W) as [[h' [t' [A [_ [_ [_ [_ [_ [_ FU]]]]]]]]]|[e' [h' [x' [t' [A _]]]]]].
  - apply (proj2 (C03PruneLoops.post_ids_sub t)). destruct W as [[_ [N _]] _]. exact N.
  - intros nd Hn. split; [apply (DV.Proofs.C03Order.post_ids_in t nd Hn)|exact I].
  - rewrite E in A. inversion A; subst h'. exact FU.
  - rewrite E in A. discriminate A.
Qed.

Theorem heap_prune_taxa_link taxa ub su ol h t t' r' :
  WF h -> abs h = Some t ->
  C08Model.prune_taxa taxa ub su ol false (t, rooted h) = IOk ([], t', r') ->
  exists h', HeapOps.prune_taxa taxa ub su ol false h = HOk h' /\ WF h' /\ abs h' = Some t'.
Proof.
  intros W0 A M. pose proof (C03Hist.WF_abs_t h t W0 A) as W.
  pose proof (C03More.prune_taxa_finishes taxa ub su ol false h W0) as Fin.
  unfold HeapOps.prune_taxa in *. rewrite (C03Ops.with_sub_seed h t _ W) in *. cbv beta in *.
  pose proof (fold_sim (cond1 taxa ol) (p1_cond ol false taxa) AttrErr EAttr (fun _ _ => True)
                (cond1_agrees taxa ol) (fun h nd _ => cond1_childless taxa ol h nd) (fun _ _ _ _ _ => I)
                (Heap.post_ids t) h t W) as FS.
  rewrite gstep_p1 in FS.
  unfold C08Model.prune_taxa, prune_phase1 in M.
  change (C08Model.post_ids t) with (Heap.post_ids t) in M.
  change (hfold (fun nd h0 => if ((false && is_internal h0 nd) || (ol && negb (is_internal h0 nd))) &&
                                 match taxon h0 nd with Some x => Heap.memz x taxa | None => false end
                              then HeapOps.remove_from_parent AttrErr nd h0 else HOk h0) (Heap.post_ids t) h)
    with (hfold (hstep (cond1 taxa ol) AttrErr) (Heap.post_ids t) h) in *.
  destruct FS as [[h1 [t1 [E1 [B1 [W1 [P1 _]]]]]]|[e' [h' [x' [t1 [E1 B1]]]]]].
  - apply (proj2 (C03PruneLoops.post_ids_sub t)). destruct W as [[_ [N _]] _]. exact N.
  - intros nd Hn. split; [apply (DV.Proofs.C03Order.post_ids_in t nd Hn)|exact I].
  - rewrite E1 in *. rewrite B1 in M. simpl hbind in *.
    unfold HeapOps.prune_leaves_without_taxa in *. unfold C08Model.prune_leaves_without_taxa in M.
    pose proof (loop_sim true (fuel_of h1) (S (size t1)) h1 t1 [] W1) as LS.
    change (fun (h : heap) (nd : Z) => match taxon h nd with None => true | Some _ => false end) with badh in *.
    destruct LS as [L|[L|[[h2 [a [t2 [L1 [L2 [W2 P2]]]]]]|[e2 [h2 [x2 [t2 [L1 L2]]]]]]]].
    + rewrite L in Fin. simpl in Fin. destruct Fin as [[? [X _]]|[? [? [X _]]]]; discriminate X.
    + rewrite L in M. discriminate M.
    + rewrite L1. rewrite L2 in M. simpl hbind.
      assert (N2 : NoDup (ids t2)). { destruct W2 as [[_ [N _]] _]. exact N. }
      destruct (finish_spec_tail ub su a t2 (rooted h) N2) as [r2 F]. rewrite F in M. inversion M; subst t' r'.
      destruct (C03Ops.tail_wf ub su h2 t2 W2) as [h' [E' [W' _]]]. simpl hbind in E'.
      exists h'. split; [exact E'|split; [exact (C03Hist.WFt_WF _ _ W')|]].
      rewrite (C03Abs.abs_WFt _ _ W'). f_equal. f_equal. rewrite not_rooted_eq.
      destruct P1 as [_ [R1 _]]. destruct P2 as [_ [R2 _]]. rewrite R2, R1. reflexivity.
    + rewrite L2 in M. discriminate M.
  - rewrite B1 in M. discriminate M.
Qed.

(* the transcription raises -> the heap program raises (and leaves a well-formed heap behind) *)
Theorem heap_prune_taxa_link_err taxa ub su ol h t x tx :
  WF h -> abs h = Some t ->
  C08Model.prune_taxa taxa ub su ol false (t, rooted h) = IErr x tx ->
  exists e h', HeapOps.prune_taxa taxa ub su ol false h = HErr e h' /\ In e [AttrErr; ValueErr] /\ WF h'.
Proof.
  intros W0 A M. pose proof (C03Hist.WF_abs_t h t W0 A) as W.
  pose proof (C03More.prune_taxa_finishes taxa ub su ol false h W0) as Fin.
  assert (Fe : forall e h', HeapOps.prune_taxa taxa ub su ol false h = HErr e h' ->
               exists e h', HeapOps.prune_taxa taxa ub su ol false h = HErr e h' /\ In e [AttrErr; ValueErr] /\ WF h').
  { intros e h' X. destruct Fin as [[? [Y _]]|[e1 [h1 [Y [I1 W1]]]]]; [rewrite X in Y; discriminate Y|].
    exists e1, h1. split; [exact Y|split; assumption]. }
  unfold HeapOps.prune_taxa in *. rewrite (C03Ops.with_sub_seed h t _ W) in *. cbv beta in *.
  pose proof (fold_sim (cond1 taxa ol) (p1_cond ol false taxa) AttrErr EAttr (fun _ _ => True)
                (cond1_agrees taxa ol) (fun h nd _ => cond1_childless taxa ol h nd) (fun _ _ _ _ _ => I)
                (Heap.post_ids t) h t W) as FS.
  rewrite gstep_p1 in FS.
  unfold C08Model.prune_taxa, prune_phase1 in M.
  change (C08Model.post_ids t) with (Heap.post_ids t) in M.
  change (hfold (fun nd h0 => if ((false && is_internal h0 nd) || (ol && negb (is_internal h0 nd))) &&
                                 match taxon h0 nd with Some x => Heap.memz x taxa | None => false end
                              then HeapOps.remove_from_parent AttrErr nd h0 else HOk h0) (Heap.post_ids t) h)
    with (hfold (hstep (cond1 taxa ol) AttrErr) (Heap.post_ids t) h) in *.
  destruct FS as [[h1 [t1 [E1 [B1 [W1 [P1 _]]]]]]|[e' [h' [x' [t1 [E1 B1]]]]]].
  - apply (proj2 (C03PruneLoops.post_ids_sub t)). destruct W as [[_ [N _]] _]. exact N.
  - intros nd Hn. split; [apply (DV.Proofs.C03Order.post_ids_in t nd Hn)|exact I].
  - rewrite E1 in *. rewrite B1 in M. simpl hbind in *.
    unfold HeapOps.prune_leaves_without_taxa in *. unfold C08Model.prune_leaves_without_taxa in M.
    pose proof (loop_sim true (fuel_of h1) (S (size t1)) h1 t1 [] W1) as LS.
    change (fun (h : heap) (nd : Z) => match taxon h nd with None => true | Some _ => false end) with badh in *.
    destruct LS as [L|[L|[[h2 [a [t2 [L1 [L2 [W2 P2]]]]]]|[e2 [h2 [x2 [t2 [L1 L2]]]]]]]].
    + rewrite L in Fin. simpl in Fin. destruct Fin as [[? [X _]]|[? [? [X _]]]]; discriminate X.
    + rewrite L in M. discriminate M.
    + rewrite L2 in M. destruct (finish ub su a t2 (rooted h)) as [[? ?] ?]. discriminate M.
    + rewrite L1 in *. simpl hbind in *. apply (Fe e2 h2). reflexivity.
  - rewrite E1 in *. simpl hbind in *. apply (Fe e' h'). reflexivity.
Qed.

(* ---- composed with C08Prune.prune_taxa_spec: the heap program computes `restrict` ---- *)

Theorem heap_prune_taxa_restrict_gen taxa ub su ol h t :
  WF h -> abs h = Some t -> leaf_taxa_only t = true ->
  match restrict su (p1_keep ol taxa) t with
  | Some r => exists h', HeapOps.prune_taxa taxa ub su ol false h = HOk h' /\ WF h' /\
                         abs h' = Some (fst (with_update ub su (rooted h) r))
  | None => exists e h', HeapOps.prune_taxa taxa ub su ol false h = HErr e h' /\ In e [AttrErr; ValueErr] /\ WF h'
  end.
Proof.
  intros W0 A Hd. pose proof (C03Hist.WF_abs_t h t W0 A) as W.
  assert (N : NoDup (ids t)). { destruct W as [[_ [N _]] _]. exact N. }
  pose proof (prune_taxa_spec taxa ub su ol false t (rooted h) N Hd) as S.
  destruct (restrict su (p1_keep ol taxa) t) as [r|].
  - exact (heap_prune_taxa_link taxa ub su ol h t _ _ W0 A S).
  - exact (heap_prune_taxa_link_err taxa ub su ol h t _ _ W0 A S).
Qed.

Theorem heap_prune_taxa_is_restrict_l taxa ub su h t r :
  WF h -> abs h = Some t -> leaf_taxa_only t = true ->
  restrict su (drop_taxa taxa) t = Some r ->
  exists h', HeapOps.prune_taxa taxa ub su true false h = HOk h' /\ WF h' /\
             abs h' = Some (fst (with_update ub su (rooted h) r)).
Proof.
  intros W0 A Hd R. pose proof (heap_prune_taxa_restrict_gen taxa ub su true h t W0 A Hd) as G.
  change (p1_keep true taxa) with (drop_taxa taxa) in G. rewrite R in G. exact G.
Qed.

Theorem heap_prune_taxa_empties_l taxa ub su h t :
  WF h -> abs h = Some t -> leaf_taxa_only t = true ->
  restrict su (drop_taxa taxa) t = None ->
  exists e h', HeapOps.prune_taxa taxa ub su true false h = HErr e h' /\ In e [AttrErr; ValueErr] /\ WF h'.
Proof.
  intros W0 A Hd R. pose proof (heap_prune_taxa_restrict_gen taxa ub su true h t W0 A Hd) as G.
  change (p1_keep true taxa) with (drop_taxa taxa) in G. rewrite R in G. exact G.
Qed.

(* retain_taxa: the complement within the namespace; when every leaf taxon is a member of the
   namespace this is the restriction to the retained taxa *)
Theorem heap_retain_taxa_is_restrict_l ns keep ub su h t r :
  WF h -> abs h = Some t -> leaf_taxa_only t = true ->
  (forall n a, In n (leaves t) -> t_taxon n = Some a -> memz a ns = true) ->
  restrict su (keep_taxa keep) t = Some r ->
  exists h', HeapOps.retain_taxa ns keep ub su h = HOk h' /\ WF h' /\
             abs h' = Some (fst (with_update ub su (rooted h) r)).
Proof.
  intros W0 A Hd Hns R. unfold HeapOps.retain_taxa.
  apply (heap_prune_taxa_is_restrict_l _ ub su h t r W0 A Hd).
  rewrite <- R. apply restrict_ext_leaf_taxa; [exact Hd|]. intros n a Hn Ea. unfold drop_taxa, keep_taxa.
  change Heap.memz with memz. rewrite memz_filter, (Hns n a Hn Ea). simpl andb. apply negb_involutive.
Qed.

(* the hypotheses are satisfiable, and a unifurcation left by the removal is suppressed:
   ((A,B)X,C)R rooted, prune {A} with suppress_unifurcations=True *)
Definition w10_tree : tree :=
  T 0 None None None [T 1 None None (Some 2048) [T 2 (Some 0) None (Some 1024) []; T 3 (Some 1) None (Some 1024) []];
                      T 4 (Some 2) None (Some 1024) []].
Definition w10_heap : heap := of_tree w10_tree (Some true).

Example w10_hyps :
  WF w10_heap /\ abs w10_heap = Some w10_tree /\ leaf_taxa_only w10_tree = true /\
  restrict true (drop_taxa [0]) w10_tree =
    Some (T 0 None None None [T 3 (Some 1) None (Some 3072) []; T 4 (Some 2) None (Some 1024) []]).
Proof.
  split; [|split; [vm_compute; reflexivity|split; vm_compute; reflexivity]].
  apply C03Abs.of_tree_WF. vm_compute. repeat constructor; simpl; intuition discriminate.
Qed.
