(* C14: the Q-criterion for strictly resolved four-point matrices on at most five nodes *)
From Coq Require Import ZArith QArith Qabs List Bool Lia Lqa.
From DV Require Import Model.PyPrims Model.Tree Model.C14Model Model.C14Spec Model.C14Spec2
     Proofs.C14Dict Proofs.C14Clu Proofs.C14Upgma Proofs.C14Nj.
Import ListNotations.
Open Scope Z_scope.

(* a pair whose distance differences to all other nodes agree is a cherry *)
Lemma cherry_of_quartets others j0 j1 k1 :
  In k1 others ->
  (forall k, In k others -> (jd j0 k + jd j1 k1 == jd j0 k1 + jd j1 k)%Q) ->
  exists a0 a1 mv, is_cherry others j0 j1 a0 a1 mv.
Proof.
  intros H1 H. set (c := (jd j0 k1 - jd j1 k1)%Q).
  exists ((jd j0 j1 + c) / 2)%Q, ((jd j0 j1 - c) / 2)%Q, (fun k => jd j0 k - (jd j0 j1 + c) / 2)%Q.
  split; [field|]. intros k Hk. split; [ring|]. pose proof (H k Hk) as E. unfold c.
  assert (E2 : (jd j1 k == jd j0 k + jd j1 k1 - jd j0 k1)%Q) by lra. rewrite E2. field.
Qed.

(* row sums split into the joined pair and the others *)
Section Sums.
Variables (pool : list jnode) (j0 j1 : jnode).
Hypothesis W : jwf pool.
Hypothesis Hab : In (j0, j1) (pairs_of pool).
Let others := remove_id j_id (j_id j1) (remove_id j_id (j_id j0) pool).

Lemma sums_facts :
  In j0 pool /\ In j1 pool /\ j_id j0 <> j_id j1 /\
  (forall k, In k others <-> In k pool /\ j_id k <> j_id j0 /\ j_id k <> j_id j1) /\
  NoDup (map j_id others) /\
  (j_xsub j0 == jd j0 j1 + qsum (map (jd j0) others))%Q /\
  (j_xsub j1 == jd j1 j0 + qsum (map (jd j1) others))%Q /\
  (forall k, In k others ->
     (j_xsub k == jd k j0 + jd k j1 + qsum (map (jd k) (filter (jne (j_id k)) others)))%Q).
Proof.
  destruct W as [N [D [Sy Xs]]]. destruct (pairs_of_In _ _ _ Hab) as [H0 H1].
  pose proof (pairs_of_distinct j_id _ _ _ N Hab) as Nd.
  assert (N0 : NoDup (map j_id (remove_id j_id (j_id j0) pool))) by (apply remove_id_NoDup; exact N).
  assert (No : NoDup (map j_id others)) by (apply remove_id_NoDup; exact N0).
  assert (Io : forall k, In k others <-> In k pool /\ j_id k <> j_id j0 /\ j_id k <> j_id j1).
  { intro k. unfold others. rewrite (remove_id_In j_id _ _ _ N0), (remove_id_In j_id _ _ _ N). tauto. }
  assert (Eo : others = filter (jne (j_id j1)) (filter (jne (j_id j0)) pool)).
  { unfold others. rewrite (remove_id_filter j_id _ _ N0), (remove_id_filter j_id _ _ N). reflexivity. }
  split; [exact H0|]. split; [exact H1|]. split; [exact Nd|]. split; [exact Io|]. split; [exact No|].
  split; [|split].
  - rewrite (Xs j0 H0). unfold jothers. fold (jne (j_id j0)).
    rewrite (qsum_filter_split j_id (jd j0) (jne (j_id j0)) pool j1 N H1).
    2:{ unfold jne. apply negb_true_iff. apply Z.eqb_neq. congruence. }
    fold (jne (j_id j1)). rewrite filter_comm, <- Eo. reflexivity.
  - rewrite (Xs j1 H1). unfold jothers. fold (jne (j_id j1)).
    rewrite (qsum_filter_split j_id (jd j1) (jne (j_id j1)) pool j0 N H0).
    2:{ unfold jne. apply negb_true_iff. apply Z.eqb_neq. congruence. }
    fold (jne (j_id j0)). rewrite <- Eo. reflexivity.
  - intros k Hk. apply Io in Hk. destruct Hk as [Hp [K0 K1]]. rewrite (Xs k Hp). unfold jothers. fold (jne (j_id k)).
    rewrite (qsum_filter_split j_id (jd k) (jne (j_id k)) pool j0 N H0).
    2:{ unfold jne. apply negb_true_iff. apply Z.eqb_neq. congruence. }
    fold (jne (j_id j0)).
    rewrite (qsum_filter_split j_id (jd k) (jne (j_id k)) (filter (jne (j_id j0)) pool) j1).
    + fold (jne (j_id j1)). rewrite <- Eo. ring.
    + unfold jne. rewrite <- (remove_id_filter j_id _ _ N). exact N0.
    + apply filter_In. split; [exact H1|]. unfold jne. apply negb_true_iff. apply Z.eqb_neq. congruence.
    + unfold jne. apply negb_true_iff. apply Z.eqb_neq. congruence.
Qed.
End Sums.

Lemma qvalue_sym pool n u v : jwf pool -> In u pool -> In v pool -> j_id u <> j_id v ->
  (qvalue n u v == qvalue n v u)%Q.
Proof.
  intros [_ [_ [Sy _]]] Hu Hv Huv. unfold qvalue. rewrite (Sy u v Hu Hv Huv). ring.
Qed.

Lemma min_all pool n j0 j1 : jwf pool -> In (j0, j1) (pairs_of pool) ->
  (forall a b, In (a, b) (pairs_of pool) -> (qvalue n j0 j1 <= qvalue n a b)%Q) ->
  forall u v, In u pool -> In v pool -> j_id u <> j_id v -> (qvalue n j0 j1 <= qvalue n u v)%Q.
Proof.
  intros W Hab Min u v Hu Hv Huv. destruct (pairs_of_cover j_id pool u v Hu Hv Huv) as [H|H].
  - apply Min. exact H.
  - rewrite (qvalue_sym pool n u v W Hu Hv Huv). apply Min. exact H.
Qed.

Lemma filter_jne_self k rest : (forall v, In v rest -> j_id v <> j_id k) ->
  filter (jne (j_id k)) (k :: rest) = rest.
Proof.
  intro H. simpl. unfold jne at 1. rewrite Z.eqb_refl. simpl. apply filter_all.
  intros z Hz. unfold jne. apply negb_true_iff. apply Z.eqb_neq. apply H. exact Hz.
Qed.

Lemma jne_true a b : j_id b <> j_id a -> jne (j_id a) b = true.
Proof. intro H. unfold jne. apply negb_true_iff. apply Z.eqb_neq. exact H. Qed.

Lemma jne_false a : jne (j_id a) a = false.
Proof. unfold jne. rewrite Z.eqb_refl. reflexivity. Qed.

Lemma cherry4 pool j0 j1 :
  jwf pool -> length pool = 4%nat -> four_point_strict pool -> In (j0, j1) (pairs_of pool) ->
  (forall a b, In (a, b) (pairs_of pool) -> (qvalue 4 j0 j1 <= qvalue 4 a b)%Q) ->
  exists a0 a1 mv, is_cherry (remove_id j_id (j_id j1) (remove_id j_id (j_id j0) pool)) j0 j1 a0 a1 mv.
Proof.
  intros W L FP Hab Min.
  destruct (sums_facts pool j0 j1 W Hab) as [H0 [H1 [Nd [Io [No [X0 [X1 Xk]]]]]]].
  pose proof (min_all pool 4 j0 j1 W Hab Min) as MinS.
  destruct W as [N [D [Sy Xs]]].
  pose proof (others_length j_id pool j0 j1 N H0 H1 Nd) as Lo.
  set (others := remove_id j_id (j_id j1) (remove_id j_id (j_id j0) pool)) in *.
  destruct others as [|k [|l [|m r]]] eqn:Eo; simpl in Lo; try lia.
  assert (Ik : In k [k; l]) by (left; reflexivity). assert (Il : In l [k; l]) by (right; left; reflexivity).
  destruct (proj1 (Io k) Ik) as [Hk [K0 K1]]. destruct (proj1 (Io l) Il) as [Hl [L0 L1]].
  assert (Nkl : j_id k <> j_id l) by (simpl in No; inversion No as [|? ? Hn _]; intro E; apply Hn; left; symmetry; exact E).
  apply (cherry_of_quartets [k; l] j0 j1 k Ik). intros k' [<-|[<-|[]]]; [ring|].
  pose proof (Xk k Ik) as XK. pose proof (Xk l Il) as XL.
  rewrite filter_jne_self in XK by (intros v [<-|[]]; congruence).
  simpl filter in XL. rewrite (jne_true l k), jne_false in XL by congruence.
  simpl in X0, X1, XK, XL.
  pose proof (FP j0 j1 k l H0 H1 Hk Hl Nd (not_eq_sym K0) (not_eq_sym L0) (not_eq_sym K1) (not_eq_sym L1) Nkl) as F.
  pose proof (MinS j0 k H0 Hk (not_eq_sym K0)) as M1. pose proof (MinS j0 l H0 Hl (not_eq_sym L0)) as M2.
  pose proof (MinS j1 k H1 Hk (not_eq_sym K1)) as M3. pose proof (MinS j1 l H1 Hl (not_eq_sym L1)) as M4.
  pose proof (MinS k l Hk Hl Nkl) as M5.
  unfold qvalue in M1, M2, M3, M4, M5. change (inject_Z (4 - 2)) with 2%Q in *.
  pose proof (Sy j1 j0 H1 H0 (not_eq_sym Nd)) as S10. pose proof (Sy k j0 Hk H0 K0) as Sk0. pose proof (Sy k j1 Hk H1 K1) as Sk1.
  pose proof (Sy l j0 Hl H0 L0) as Sl0. pose proof (Sy l j1 Hl H1 L1) as Sl1. pose proof (Sy l k Hl Hk (not_eq_sym Nkl)) as Slk.
  unfold fp3 in F. destruct F as [[A B]|[[A B]|[A B]]]; lra.
Qed.

Lemma cherry5 pool j0 j1 :
  jwf pool -> length pool = 5%nat -> four_point_strict pool -> In (j0, j1) (pairs_of pool) ->
  (forall a b, In (a, b) (pairs_of pool) -> (qvalue 5 j0 j1 <= qvalue 5 a b)%Q) ->
  exists a0 a1 mv, is_cherry (remove_id j_id (j_id j1) (remove_id j_id (j_id j0) pool)) j0 j1 a0 a1 mv.
Proof.
  intros W L FP Hab Min.
  destruct (sums_facts pool j0 j1 W Hab) as [H0 [H1 [Nd [Io [No [X0 [X1 Xk]]]]]]].
  pose proof (min_all pool 5 j0 j1 W Hab Min) as MinS.
  destruct W as [N [D [Sy Xs]]].
  pose proof (others_length j_id pool j0 j1 N H0 H1 Nd) as Lo.
  set (others := remove_id j_id (j_id j1) (remove_id j_id (j_id j0) pool)) in *.
  destruct others as [|k [|l [|m [|z r]]]] eqn:Eo; simpl in Lo; try lia.
  assert (Ik : In k [k; l; m]) by (left; reflexivity). assert (Il : In l [k; l; m]) by (right; left; reflexivity).
  assert (Im : In m [k; l; m]) by (right; right; left; reflexivity).
  destruct (proj1 (Io k) Ik) as [Hk [K0 K1]]. destruct (proj1 (Io l) Il) as [Hl [L0 L1]].
  destruct (proj1 (Io m) Im) as [Hm [M0 M1]].
  simpl in No. inversion No as [|? ? Hn1 No1]; subst. inversion No1 as [|? ? Hn2 _]; subst.
  assert (Nkl : j_id k <> j_id l) by (intro E; apply Hn1; left; symmetry; exact E).
  assert (Nkm : j_id k <> j_id m) by (intro E; apply Hn1; right; left; symmetry; exact E).
  assert (Nlm : j_id l <> j_id m) by (intro E; apply Hn2; left; symmetry; exact E).
  pose proof (Xk k Ik) as XK. pose proof (Xk l Il) as XL. pose proof (Xk m Im) as XM.
  rewrite filter_jne_self in XK by (intros v [<-|[<-|[]]]; congruence).
  simpl filter in XL, XM. rewrite (jne_true l k), jne_false, (jne_true l m) in XL by congruence.
  rewrite (jne_true m k), (jne_true m l), jne_false in XM by congruence.
  simpl in X0, X1, XK, XL, XM.
  pose proof (FP j0 j1 k l H0 H1 Hk Hl Nd (not_eq_sym K0) (not_eq_sym L0) (not_eq_sym K1) (not_eq_sym L1) Nkl) as F1.
  pose proof (FP j0 j1 k m H0 H1 Hk Hm Nd (not_eq_sym K0) (not_eq_sym M0) (not_eq_sym K1) (not_eq_sym M1) Nkm) as F2.
  pose proof (FP j0 j1 l m H0 H1 Hl Hm Nd (not_eq_sym L0) (not_eq_sym M0) (not_eq_sym L1) (not_eq_sym M1) Nlm) as F3.
  pose proof (FP j0 k l m H0 Hk Hl Hm (not_eq_sym K0) (not_eq_sym L0) (not_eq_sym M0) Nkl Nkm Nlm) as F4.
  pose proof (FP j1 k l m H1 Hk Hl Hm (not_eq_sym K1) (not_eq_sym L1) (not_eq_sym M1) Nkl Nkm Nlm) as F5.
  pose proof (MinS j0 k H0 Hk (not_eq_sym K0)) as Q1. pose proof (MinS j0 l H0 Hl (not_eq_sym L0)) as Q2.
  pose proof (MinS j0 m H0 Hm (not_eq_sym M0)) as Q3.
  pose proof (MinS j1 k H1 Hk (not_eq_sym K1)) as Q4. pose proof (MinS j1 l H1 Hl (not_eq_sym L1)) as Q5.
  pose proof (MinS j1 m H1 Hm (not_eq_sym M1)) as Q6.
  pose proof (MinS k l Hk Hl Nkl) as Q7. pose proof (MinS k m Hk Hm Nkm) as Q8. pose proof (MinS l m Hl Hm Nlm) as Q9.
  unfold qvalue in Q1, Q2, Q3, Q4, Q5, Q6, Q7, Q8, Q9. change (inject_Z (5 - 2)) with 3%Q in *.
  pose proof (Sy j1 j0 H1 H0 (not_eq_sym Nd)) as S10.
  pose proof (Sy k j0 Hk H0 K0) as Sk0. pose proof (Sy k j1 Hk H1 K1) as Sk1.
  pose proof (Sy l j0 Hl H0 L0) as Sl0. pose proof (Sy l j1 Hl H1 L1) as Sl1. pose proof (Sy l k Hl Hk (not_eq_sym Nkl)) as Slk.
  pose proof (Sy m j0 Hm H0 M0) as Sm0. pose proof (Sy m j1 Hm H1 M1) as Sm1.
  pose proof (Sy m k Hm Hk (not_eq_sym Nkm)) as Smk. pose proof (Sy m l Hm Hl (not_eq_sym Nlm)) as Sml.
  assert (G : (jd j0 k + jd j1 l == jd j0 l + jd j1 k)%Q /\ (jd j0 k + jd j1 m == jd j0 m + jd j1 k)%Q).
  { unfold fp3 in F1, F2, F3, F4, F5.
    destruct F1 as [[A1 B1]|[[A1 B1]|[A1 B1]]]; destruct F2 as [[A2 B2]|[[A2 B2]|[A2 B2]]];
    destruct F3 as [[A3 B3]|[[A3 B3]|[A3 B3]]]; destruct F4 as [[A4 B4]|[[A4 B4]|[A4 B4]]];
    destruct F5 as [[A5 B5]|[[A5 B5]|[A5 B5]]]; split; lra. }
  destruct G as [G1 G2].
  apply (cherry_of_quartets [k; l; m] j0 j1 k Ik). intros k' [<-|[<-|[<-|[]]]]; [ring | lra | lra].
Qed.

(* ---------- the class of pools: at most five nodes, strictly resolved four-point distances ---------- *)
Definition P5 (pool : list jnode) : Prop := (length pool <= 5)%nat /\ four_point_strict pool.

Lemma P5_cherry : qcrit_cherry P5.
Proof.
  intros pool j0 j1 [L5 FP] W L3 Hab Min.
  destruct (Nat.eq_dec (length pool) 3) as [E3|N3]; [apply three_cherry; assumption|].
  destruct (Nat.eq_dec (length pool) 4) as [E4|N4].
  - apply cherry4; try assumption. rewrite E4 in Min. exact Min.
  - assert (E5 : length pool = 5%nat) by lia. apply cherry5; try assumption. rewrite E5 in Min. exact Min.
Qed.

Lemma fp3_shift a b c s : fp3 a b c -> fp3 (a - s) (b - s) (c - s).
Proof. unfold fp3. intros [[A B]|[[A B]|[A B]]]; [left | right; left | right; right]; split; lra. Qed.

Lemma fp3_eq a b c a' b' c' : (a == a')%Q -> (b == b')%Q -> (c == c')%Q -> fp3 a' b' c' -> fp3 a b c.
Proof. unfold fp3. intros Ea Eb Ec [[A B]|[[A B]|[A B]]]; [left | right; left | right; right]; split; lra. Qed.

Lemma P5_closed : qcrit_closed P5.
Proof.
  intros pool next pool' [L5 FP] W L3 Nn E.
  destruct (nj_step_sound_l pool (Z.of_nat (length pool)) next W eq_refl) as
      [j0 [j1 [rest [newn [l0 [l1 [E' [Hab [Min [Ht [_ [_ [Hids [Htrees [Hothers [W' Hcherry]]]]]]]]]]]]]]]]; [lia | exact Nn|].
  rewrite E in E'. inversion E'. subst pool'. clear E'.
  destruct (P5_cherry pool j0 j1 (conj L5 FP) W L3 Hab Min) as [a0 [a1 [mv C]]].
  destruct (Hcherry a0 a1 mv C) as [Cm _]. destruct C as [C01 Ck].
  destruct W as [N [D [Sy Xs]]]. destruct (pairs_of_In _ _ _ Hab) as [H0 H1].
  pose proof (pairs_of_distinct j_id _ _ _ N Hab) as Nd.
  pose proof (others_length j_id pool j0 j1 N H0 H1 Nd) as Lo.
  set (others := remove_id j_id (j_id j1) (remove_id j_id (j_id j0) pool)) in *.
  assert (N0 : NoDup (map j_id (remove_id j_id (j_id j0) pool))) by (apply remove_id_NoDup; exact N).
  assert (No : NoDup (map j_id others)) by (apply remove_id_NoDup; exact N0).
  assert (Io : forall k, In k others <-> In k pool /\ j_id k <> j_id j0 /\ j_id k <> j_id j1).
  { intro k. unfold others. rewrite (remove_id_In j_id _ _ _ N0), (remove_id_In j_id _ _ _ N). tauto. }
  assert (Hnew : j_id newn = next) by (unfold j_id; rewrite Ht; reflexivity).
  assert (Lr : length rest = length others) by (rewrite <- (map_length j_id rest), Hids, map_length; reflexivity).
  split; [rewrite app_length; simpl; lia|].
  (* view of the new pool in the old one *)
  set (R := fun (u uo : jnode) => (In u rest /\ In uo others /\ j_id u = j_id uo) \/ (u = newn /\ uo = j0)).
  set (sh := fun u : jnode => if Z.eqb (j_id u) next then a0 else 0%Q).
  assert (RX : forall u, In u (rest ++ [newn]) -> exists uo, R u uo).
  { intros u Hu. apply in_app_iff in Hu. destruct Hu as [Hu|[<-|[]]]; [|exists j0; right; auto].
    destruct (map2_in j_id j_tree rest others Hids Htrees u Hu) as [k [Hk [Ek _]]]. exists k. left. auto. }
  assert (Rpool : forall u uo, R u uo -> In uo pool).
  { intros u uo [[_ [H _]]|[_ ->]]; [apply Io in H; tauto | exact H0]. }
  assert (Rnext : forall u uo, R u uo -> In u rest -> j_id u <> next).
  { intros u uo _ Hu Eq. apply Nn. rewrite <- Eq. destruct (map2_in j_id j_tree rest others Hids Htrees u Hu) as [k [Hk [Ek _]]].
    rewrite Ek. apply in_map. apply Io in Hk. tauto. }
  assert (Rid : forall u v uo vo, R u uo -> R v vo -> j_id u <> j_id v -> j_id uo <> j_id vo).
  { intros u v uo vo [[Hu [Huo Eu]]|[-> ->]] [[Hv [Hvo Ev]]|[-> ->]] Hn; try congruence.
    - apply Io in Huo. tauto.
    - apply Io in Hvo. intro X. symmetry in X. tauto. }
  assert (Rjd : forall u v uo vo, R u uo -> R v vo -> j_id u <> j_id v ->
                (jd u v == jd uo vo - (sh u + sh v))%Q).
  { intros u v uo vo Ru Rv Hn. destruct Ru as [[Hu [Huo Eu]]|[-> ->]]; destruct Rv as [[Hv [Hvo Ev]]|[-> ->]].
    - unfold sh. assert (Z.eqb (j_id u) next = false) as -> by (apply Z.eqb_neq; eapply Rnext; [left|]; eauto).
      assert (Z.eqb (j_id v) next = false) as -> by (apply Z.eqb_neq; eapply Rnext; [left|]; eauto).
      destruct (Hothers uo Huo) as [u2 [Hu2 [Eu2 [Hsame _]]]].
      assert (u2 = u) by (apply (same_id_eq j_id rest); auto; [rewrite Hids; exact No | congruence]). subst u2.
      rewrite (Hsame vo v Hvo Hv Ev) by congruence. ring.
    - unfold sh. assert (Z.eqb (j_id u) next = false) as -> by (apply Z.eqb_neq; eapply Rnext; [left|]; eauto).
      rewrite Hnew, Z.eqb_refl. rewrite (Cm uo u Huo Hu Eu). destruct (Ck uo Huo) as [C0 _].
      pose proof Huo as Huo2. apply Io in Huo2. destruct Huo2 as [Hp [K0 K1]].
      rewrite (Sy uo j0 Hp H0 K0), C0. ring.
    - unfold sh. assert (Z.eqb (j_id v) next = false) as -> by (apply Z.eqb_neq; eapply Rnext; [left|]; eauto).
      rewrite Hnew, Z.eqb_refl.
      destruct (Hothers vo Hvo) as [v2 [Hv2 [Ev2 [_ [_ Hsw]]]]].
      assert (v2 = v) by (apply (same_id_eq j_id rest); auto; [rewrite Hids; exact No | congruence]). subst v2.
      rewrite Hsw, (Cm vo v Hvo Hv Ev). destruct (Ck vo Hvo) as [C0 _]. rewrite C0. ring.
    - congruence. }
  intros i j k l Hi Hj Hk Hl Nij Nik Nil Njk Njl Nkl.
  destruct (RX i Hi) as [io Ri]. destruct (RX j Hj) as [jo Rj]. destruct (RX k Hk) as [ko Rk]. destruct (RX l Hl) as [lo Rl].
  pose proof (FP io jo ko lo (Rpool _ _ Ri) (Rpool _ _ Rj) (Rpool _ _ Rk) (Rpool _ _ Rl)
                (Rid _ _ _ _ Ri Rj Nij) (Rid _ _ _ _ Ri Rk Nik) (Rid _ _ _ _ Ri Rl Nil)
                (Rid _ _ _ _ Rj Rk Njk) (Rid _ _ _ _ Rj Rl Njl) (Rid _ _ _ _ Rk Rl Nkl)) as F.
  apply (fp3_shift _ _ _ (sh i + sh j + sh k + sh l)%Q) in F.
  eapply fp3_eq; [| | |exact F].
  - rewrite (Rjd i j io jo Ri Rj Nij), (Rjd k l ko lo Rk Rl Nkl). ring.
  - rewrite (Rjd i k io ko Ri Rk Nik), (Rjd j l jo lo Rj Rl Njl). ring.
  - rewrite (Rjd i l io lo Ri Rl Nil), (Rjd j k jo ko Rj Rk Njk). ring.
Qed.

(* ---------- NJ on at most five taxa ---------- *)
Lemma nj_init_P5 M order pool :
  NoDup order -> (length order <= 5)%nat -> mcomplete M order -> mfour_point_strict M order ->
  nj_init M order = Ok pool -> P5 pool.
Proof.
  intros N L5 Hc FP Ei. destruct (ids_facts order) as [F [S0 [Nf [Li Fr]]]].
  set (ids := combine (map Z.of_nat (seq 0 (length order))) order) in *.
  assert (Ns : NoDup (map snd ids)) by (rewrite S0; exact N).
  assert (Hc' : mcomplete M (map snd ids)) by (rewrite S0; exact Hc).
  rewrite (nj_init_eval M ids Ns Hc' order eq_refl) in Ei. inversion Ei. subst pool. clear Ei.
  split; [rewrite map_length, Li; exact L5|].
  intros i j k l Hi Hj Hk Hl Nij Nik Nil Njk Njl Nkl.
  apply in_map_iff in Hi. destruct Hi as [ia [<- Hia]]. apply in_map_iff in Hj. destruct Hj as [jb [<- Hjb]].
  apply in_map_iff in Hk. destruct Hk as [kc [<- Hkc]]. apply in_map_iff in Hl. destruct Hl as [ld [<- Hld]].
  change (fst ia <> fst jb) in Nij. change (fst ia <> fst kc) in Nik. change (fst ia <> fst ld) in Nil.
  change (fst jb <> fst kc) in Njk. change (fst jb <> fst ld) in Njl. change (fst kc <> fst ld) in Nkl.
  rewrite !(nmk_jd M ids Nf) by assumption.
  assert (In_o : forall p, In p ids -> In (snd p) order) by (intros p Hp; rewrite <- S0; apply in_map; exact Hp).
  apply FP; auto; apply (ids_snd_neq ids Ns); assumption.
Qed.

Lemma nj_recovers_small_l M order :
  NoDup order -> order <> [] -> (length order <= 5)%nat ->
  mcomplete M order -> msymmetric M order -> mfour_point_strict M order ->
  exists T, nj_tree M order = Ok T /\
    forall a b, In a order -> In b order -> a <> b -> exists q, qdist T a b = Some q /\ (q == mval M a b)%Q.
Proof.
  intros N Ne L5 Hc Hs FP.
  apply (nj_realizes_additive_l M order P5 N Ne Hc Hs P5_cherry P5_closed).
  intros pool Ei. eapply nj_init_P5; eassumption.
Qed.
