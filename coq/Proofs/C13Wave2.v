(* C13 (second wave): route-level statements: NEXUS reads only append; DataSet.get without a
   namespace argument vs the single-namespace routes. *)
From Coq Require Import ZArith List Bool Lia.
From Coq Require String. Import String.StringSyntax.
From DV Require Import Model.PyPrims Model.C13Model Proofs.C13Lists Proofs.C13Lockstep Proofs.C13Suffix
  Proofs.C13Blocks Proofs.C13Namespace Proofs.C13Grows Proofs.C13Single Proofs.C13Examples.
Import ListNotations.
Open Scope Z_scope.

Section W2.
Variable T : Type.
Variables lower upper : str -> str.
Variable parse_tree : mapper -> tz -> res (option T * mapper * tz).
Variable set_label : T -> option str -> T.
Variable add_comments : T -> list str -> T.
Variable vl : bool.
Variable vs : bool.

Hypothesis H_grows : forall m z ot m' z',
  parse_tree m z = Ok (ot, m', z') -> exists r, m_ns m' = m_ns m ++ r.

Notation NR := (nexus_read T lower upper parse_tree set_label add_comments vl vs).

(* every NEXUS read, under every configuration: no namespace object disappears, every one only
   gets longer (taxa keep their position = identity) *)
Lemma W_nexus_reads_only_append : forall (c : cfg) (ns0 : list str) (d : doc) s,
  NR c ns0 d = Ok s ->
  (length (k_nss (r_k (nexus_init T c ns0 d))) <= length (k_nss (r_k s)))%nat
  /\ forall i, exists r, nth i (k_nss (r_k s)) [] = nth i (k_nss (r_k (nexus_init T c ns0 d))) [] ++ r.
Proof.
  intros c ns0 d s H. unfold nexus_read in H.
  apply (r_stream_grows T lower upper parse_tree set_label add_comments vl vs (c_ns c) (c_tlfac c) false H_grows) in H.
  exact H.
Qed.

Lemma W_treelist_read_appends : forall va ns0 d ts ns1,
  treelist_read T lower upper parse_tree set_label add_comments va vl vs Nexus ns0 d = Ok (ts, ns1) ->
  exists r, ns1 = ns0 ++ r.
Proof.
  intros va ns0 d ts ns1 H. unfold treelist_read in H.
  destruct (NR (cfg_list va) ns0 d) as [s|e|] eqn:E; cbn [bind] in H; try discriminate.
  inversion H; subst. destruct (W_nexus_reads_only_append _ _ _ _ E) as [_ P].
  specialize (P O). unfold rs_ns0. exact P.
Qed.

Lemma W_yield_appends : forall ns0 d out ns1,
  yield_from_files T lower upper parse_tree set_label add_comments vl Nexus ns0 d = (out, Ok ns1) ->
  exists r, ns1 = ns0 ++ r.
Proof.
  intros ns0 d out ns1 H. unfold yield_from_files in H.
  destruct (y_items_from_stream T lower upper parse_tree set_label add_comments vl (c_ns cfg_yield) false
              (doc_fuel d) (core_init (c_ns cfg_yield) ns0 d) (regs_init (c_ns cfg_yield))) as [o r] eqn:E.
  destruct r as [[k' g']|e|]; cbn [bind] in H; inversion H; subst.
  apply (y_items_grows T lower upper parse_tree set_label add_comments vl (c_ns cfg_yield) false H_grows) in E.
  destruct E as [_ P]. exact (P O).
Qed.

(* DataSet.get without a namespace argument: if its run ends with at most one namespace object,
   the attached run (DataSet.get(taxon_namespace=fresh)) is identical: same tree lists, same
   namespace content *)
Lemma W_dataset_single_namespace : forall (d : doc) s,
  NR cfg_dataset [] d = Ok s -> (length (k_nss (r_k s)) <= 1)%nat ->
  exists s', NR cfg_yield [] d = Ok s'
             /\ rs_blocks T s' = rs_blocks T s
             /\ rs_ns0 T s' = nth O (k_nss (r_k s)) []
             /\ dataset_get T lower upper parse_tree set_label add_comments vl vs Nexus false d = Ok (rs_blocks T s)
             /\ dataset_get T lower upper parse_tree set_label add_comments vl vs Nexus true d = Ok (rs_blocks T s).
Proof.
  intros d s H SM.
  pose proof (r_stream_AB T lower upper parse_tree set_label add_comments vl vs (FacFixed false) TLNew false H_grows
                (doc_fuel d) (mkCore (doc_tz d) None []) (mkRegs [] []) [] [] s (mkRegs [None] [])) as R.
  unfold nexus_read, nexus_init, cfg_dataset, cfg_yield, core_init, regs_init, has_ns0 in *. cbn [c_ns c_tlfac c_attached c_fac] in *.
  specialize (R H SM (Forall_nil _)).
  change (lift (mkCore (doc_tz d) None [])) with (mkCore (doc_tz d) None [[]]) in R.
  exists (lift_rs T s (mkRegs [None] [])). split; [exact R|].
  split; [reflexivity|]. split.
  - unfold rs_ns0, lift_rs. cbn [r_k]. change (nth 0 (k_nss (lift (r_k s))) []) with (ns_taxa_at (lift (r_k s)) 0).
    rewrite lift_taxa0. reflexivity.
  - unfold dataset_get, read_blocks, nexus_read, nexus_init, cfg_dataset, cfg_yield, core_init, regs_init, has_ns0.
    cbn [c_ns c_tlfac c_attached c_fac]. rewrite H, R. split; reflexivity.
Qed.

End W2.

(* ---- the multi-namespace case: a counter-example on the faithful model ---- *)
Definition d_two_taxa_numbers : doc := ([(w (q "#NEXUS")); (w (q "BEGIN")); (w (q "TAXA")); (w (q ";")); (w (q "TITLE")); (w (q "T1")); (w (q ";")); (w (q "DIMENSIONS")); (w (q "NTAX")); (w (q "=")); (w (q "2")); (w (q ";")); (w (q "TAXLABELS")); (w (q "a")); (w (q "b")); (w (q ";")); (w (q "END")); (w (q ";")); (w (q "BEGIN")); (w (q "TAXA")); (w (q ";")); (w (q "TITLE")); (w (q "T2")); (w (q ";")); (w (q "DIMENSIONS")); (w (q "NTAX")); (w (q "=")); (w (q "2")); (w (q ";")); (w (q "TAXLABELS")); (w (q "c")); (w (q "d")); (w (q ";")); (w (q "END")); (w (q ";")); (w (q "BEGIN")); (w (q "TREES")); (w (q ";")); (w (q "LINK")); (w (q "TAXA")); (w (q "=")); (w (q "T2")); (w (q ";")); (w (q "TREE")); (w (q "y")); (w (q "=")); (w (q "(")); (w (q "1")); (w (q ",")); (w (q "2")); (w (q ")")); (w (q ";")); (w (q "END")); (w (q ";"))], (EndEof [])).
Definition d_one_taxa : doc := ([(w (q "#NEXUS")); (w (q "BEGIN")); (w (q "TAXA")); (w (q ";")); (w (q "TITLE")); (w (q "T1")); (w (q ";")); (w (q "DIMENSIONS")); (w (q "NTAX")); (w (q "=")); (w (q "3")); (w (q ";")); (w (q "TAXLABELS")); (w (q "a")); (w (q "b")); (w (q "c")); (w (q ";")); (w (q "END")); (w (q ";")); (w (q "BEGIN")); (w (q "TREES")); (w (q ";")); (w (q "LINK")); (w (q "TAXA")); (w (q "=")); (w (q "T1")); (w (q ";")); (w (q "TREE")); (w (q "x")); (w (q "=")); (w (q "(")); (w (q "a")); (w (q ",")); (w (q "(")); (w (q "b")); (w (q ",")); (w (q "c")); (w (q ")")); (w (q ")")); (w (q ";")); (w (q "END")); (w (q ";")); (w (q "BEGIN")); (w (q "TREES")); (w (q ";")); (w (q "TRANSLATE")); (w (q "1")); (w (q "a")); (w (q ",")); (w (q "2")); (w (q "b")); (w (q ";")); (w (q "TREE")); (w (q "y")); (w (q "=")); (w (q "(")); (w (q "1")); (w (q ",")); (w (q "2")); (w (q ",")); (w (q "d")); (w (q ")")); (w (q ";")); (w (q "END")); (w (q ";"))], (EndEof [])).

Notation LO := (lower_with []).
Notation UP := (upper_with []).
Notation PT := (sk_parse_tree (lower_with [])).

Definition first_taxon (t : sktree) : option nat :=
  match filter (fun i => match i with ITaxon _ => true | _ => false end) (sk_items t) with
  | ITaxon i :: _ => Some i | _ => None end.

(* Two TAXA blocks T1 = {a, b}, T2 = {c, d}; a TREES block LINKed to T2 whose tree names its taxa
   by NUMBER: (1,2).  DataSet.get resolves the numbers in T2's own namespace (c, d); every route
   that reads into one namespace resolves them in the merged namespace (a, b). *)
Lemma dataset_multi_namespace_refuted_l :
  exists (d : doc) sA sB tA tB,
    nexus_read sktree LO UP PT sk_set_label sk_add_comments false false cfg_dataset [] d = Ok sA
    /\ nexus_read sktree LO UP PT sk_set_label sk_add_comments false false cfg_yield [] d = Ok sB
    /\ rs_blocks sktree sA = [[tA]] /\ rs_blocks sktree sB = [[tB]]
    /\ sk_items tA = sk_items tB                       (* the same taxon POSITIONS ... *)
    /\ first_taxon tA = Some O
    /\ k_nss (r_k sA) = [[q "a"; q "b"]; [q "c"; q "d"]]  (* ... in the linked namespace: c *)
    /\ k_nss (r_k sB) = [[q "a"; q "b"; q "c"; q "d"]]    (* ... in the merged namespace: a *)
    /\ treelist_get sktree LO UP PT sk_set_label sk_add_comments true false false Nexus d
       = Ok ([tB], [q "a"; q "b"; q "c"; q "d"]).
Proof.
  exists d_two_taxa_numbers.
  destruct (nexus_read sktree LO UP PT sk_set_label sk_add_comments false false cfg_dataset [] d_two_taxa_numbers) as [sA|e|] eqn:EA;
    [|vm_compute in EA; discriminate..].
  destruct (nexus_read sktree LO UP PT sk_set_label sk_add_comments false false cfg_yield [] d_two_taxa_numbers) as [sB|e|] eqn:EB;
    [|vm_compute in EB; discriminate..].
  vm_compute in EA. vm_compute in EB. inversion EA; subst. inversion EB; subst. clear EA EB.
  do 4 eexists. split; [reflexivity|]. split; [reflexivity|].
  split; [vm_compute; reflexivity|]. split; [vm_compute; reflexivity|].
  vm_compute. repeat split.
Qed.

(* non-vacuity of the single-namespace theorem: one TAXA block, two TREES blocks, a tree that adds a taxon *)
Example ex_single_namespace :
  match nexus_read sktree LO UP PT sk_set_label sk_add_comments false false cfg_dataset [] d_one_taxa with
  | Ok s => (length (k_nss (r_k s)) <=? 1)%nat = true /\ map (@length sktree) (rs_blocks sktree s) = [1; 1]%nat
            /\ nth O (k_nss (r_k s)) [] = [q "a"; q "b"; q "c"; q "d"]
  | _ => False
  end.
Proof. vm_compute. auto. Qed.

Definition d_sets : doc := ([(w (q "#NEXUS")); (w (q "BEGIN")); (w (q "TAXA")); (w (q ";")); (w (q "DIMENSIONS")); (w (q "NTAX")); (w (q "=")); (w (q "2")); (w (q ";")); (w (q "TAXLABELS")); (w (q "a")); (w (q "b")); (w (q ";")); (w (q "END")); (w (q ";")); (w (q "BEGIN")); (w (q "SETS")); (w (q ";")); (w (q "CHARSET")); (w (q "both")); (w (q "=")); (w (q "begin")); (w (q "trees")); (w (q ";")); (w (q "CHARSET")); (w (q "again")); (w (q "=")); (w (q "tree")); (w (q "begin")); (w (q ";")); (w (q "END")); (w (q ";")); (w (q "BEGIN")); (w (q "TREES")); (w (q ";")); (w (q "TREE")); (w (q "t")); (w (q "=")); (w (q "(")); (w (q "a")); (w (q ",")); (w (q "b")); (w (q ")")); (w (q ";")); (w (q "END")); (w (q ";"))], (EndEof [])).

(* A SETS block whose set names are the words begin / trees / tree (legal NEXUS identifiers): with
   characters excluded the reader as found leaves the block unconsumed, scans it for BEGIN, takes
   "begin trees" for a TREES block and fails on "tree begin ;"; the iterator skips the block.  In
   the repaired form (the reader skips the block too) both read the one tree. *)
Lemma sets_block_refuted_l :
  exists d : doc,
    (exists ns, snd (yield_from_files sktree LO UP PT sk_set_label sk_add_comments false Nexus [] d) = Ok ns)
    /\ length (fst (yield_from_files sktree LO UP PT sk_set_label sk_add_comments false Nexus [] d)) = 1%nat
    /\ treelist_get sktree LO UP PT sk_set_label sk_add_comments true false false Nexus d = Err ParseErr
    /\ (exists t ns, treelist_get sktree LO UP PT sk_set_label sk_add_comments true false true Nexus d = Ok ([t], ns)).
Proof.
  exists d_sets. split; [eexists; vm_compute; reflexivity|]. split; [vm_compute; reflexivity|].
  split; [vm_compute; reflexivity|]. do 2 eexists. vm_compute. reflexivity.
Qed.
