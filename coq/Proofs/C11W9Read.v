(* C11, wave 9: the read route and namespaces WITHOUT duplicate labels: there the readers' look-up (last matching
   member) and require_taxon (first matching member) agree, a read keeps the namespace free of duplicates, and every
   tree under such a namespace whose node taxa are members - in particular every tree the read makes - is resolved.
   So the read route departs from the import routes only in namespaces that hold several members with one label
   (made by taxon_import_strategy="add", new_taxon with an existing label, ...): the listed finding. *)
From Coq Require Import List Bool Arith ZArith Lia.
From DV Require Import Model.PyPrims Model.C11Model Model.C11W7Model Model.C11W8Model
  Proofs.C11Base Proofs.C11Inv Proofs.C11Ops Proofs.C11Step Proofs.C11Unify
  Proofs.C11W9First Proofs.C11W9Step Proofs.C11W9Wf Proofs.C11W9Hist Proofs.C11Final Proofs.C11W8Examples Proofs.C11W9Examples.
Import ListNotations.
Open Scope nat_scope.

Lemma find_rev_uniq : forall A (p : A -> bool) L,
  (forall y z, In y L -> In z L -> p y = true -> p z = true -> y = z) -> find p (rev L) = find p L.
Proof.
  intros A p L. induction L as [|a r IH]; intro U; [reflexivity|]. cbn [rev]. rewrite find_app.
  rewrite IH by (intros y z Hy Hz; apply U; right; assumption). cbn [find].
  destruct (p a) eqn:Pa.
  - destruct (find p r) as [z|] eqn:E; [|reflexivity]. apply find_some in E. destruct E as [Iz Pz].
    rewrite (U a z (or_introl eq_refl) (or_intror Iz) Pa Pz). reflexivity.
  - destruct (find p r); reflexivity.
Qed.

Section WithLower.
Variable lower : lbl -> lbl.

(* no two members of namespace n carry labels that are equal under its case rule *)
Definition uniq (st : state) (n : oid) : Prop :=
  forall y z, In y (members st n) -> In z (members st n) ->
    key lower (ns_cs st n) (label st y) = key lower (ns_cs st n) (label st z) -> y = z.

Lemma matches_key : forall st cs l y, matches lower st cs l y = true -> key lower cs l = key lower cs (label st y).
Proof. intros st cs l y H. unfold matches in H. apply Nat.eqb_eq in H. exact H. Qed.

Lemma last_first_uniq : forall st n l, uniq st n ->
  last_match lower st n (ns_cs st n) l = first_match lower st n (ns_cs st n) l.
Proof.
  intros st n l U. unfold last_match, first_match. apply find_rev_uniq. intros y z Hy Hz Py Pz. apply U; try assumption.
  apply matches_key in Py. apply matches_key in Pz. congruence.
Qed.

Lemma uniq_member_first : forall st n y, uniq st n -> In y (members st n) ->
  first_match lower st n (ns_cs st n) (label st y) = Some y.
Proof.
  intros st n y U Hy. unfold first_match. destruct (find (matches lower st (ns_cs st n) (label st y)) (members st n)) as [z|] eqn:E.
  - apply find_some in E. destruct E as [Iz Pz]. apply matches_key in Pz. rewrite (U y z Hy Iz Pz). reflexivity.
  - pose proof (find_none _ _ E y Hy) as K. unfold matches in K. rewrite Nat.eqb_refl in K. discriminate.
Qed.

Lemma uniq_same : forall a b n, s_lab b = s_lab a -> s_mem b = s_mem a -> s_cs b = s_cs a -> uniq a n -> uniq b n.
Proof. intros a b n E1 E2 E3 U. unfold uniq, members, ns_cs, label in *. rewrite E1, E2, E3. exact U. Qed.

Lemma wf_ns_same : forall a b n, s_lab b = s_lab a -> s_mem b = s_mem a -> wf_ns n a -> wf_ns n b.
Proof. intros a b n E1 E2 U. unfold wf_ns, members in *. rewrite E1, E2. exact U. Qed.

Lemma uniq_new_taxon : forall st n l st' x,
  new_taxon st n l = (st', x) -> uniq st n -> wf_ns n st -> first_match lower st n (ns_cs st n) l = None ->
  uniq st' n /\ wf_ns n st'.
Proof.
  intros st n l st' x Q U W E. destruct (new_taxon_ext _ _ _ _ _ Q) as [X [Ex [EL EM]]].
  assert (Ecs : ns_cs st' n = ns_cs st n) by apply X.
  assert (Lx : label st' x = l) by (unfold label; rewrite EL, Ex, app_nth2 by lia; rewrite Nat.sub_diag; reflexivity).
  assert (Lo : forall y, In y (members st n) -> label st' y = label st y) by (intros y Hy; apply (label_ext n st st' y X (W y Hy))).
  assert (No : forall y, In y (members st n) -> key lower (ns_cs st n) l <> key lower (ns_cs st n) (label st y)).
  { intros y Hy K. pose proof (find_none _ _ E y Hy) as F. unfold matches in F. rewrite K, Nat.eqb_refl in F. discriminate. }
  split.
  - intros y z Hy Hz K. rewrite Ecs in K. rewrite EM in Hy, Hz. apply in_app_or in Hy. apply in_app_or in Hz.
    destruct Hy as [Hy|[Hy|[]]]; destruct Hz as [Hz|[Hz|[]]].
    + rewrite (Lo y Hy), (Lo z Hz) in K. apply U; assumption.
    + subst z. rewrite (Lo y Hy), Lx in K. exfalso. apply (No y Hy). symmetry. exact K.
    + subst y. rewrite (Lo z Hz), Lx in K. exfalso. apply (No z Hz). exact K.
    + congruence.
  - intros y Hy. rewrite EM in Hy. rewrite EL, app_length. cbn [length]. apply in_app_or in Hy.
    destruct Hy as [Hy|[Hy|[]]]; [specialize (W y Hy); lia | subst; lia].
Qed.

Lemma uniq_read_refs : forall n labels st seen st' refs ok,
  read_refs lower st n (ns_cs st n) labels seen = (st', refs, ok) -> uniq st n -> wf_ns n st ->
  uniq st' n /\ wf_ns n st' /\ ns_cs st' n = ns_cs st n /\ s_lists st' = s_lists st /\ s_trees st' = s_trees st.
Proof.
  intros n labels. induction labels as [|l r IH]; intros st seen st' refs ok H U W; cbn [read_refs] in H.
  - injection H as <- _ _. repeat (split; [assumption || reflexivity|]). reflexivity.
  - rewrite (last_first_uniq st n l U) in H. destruct (first_match lower st n (ns_cs st n) l) as [t|] eqn:E.
    + destruct (memb t seen).
      * injection H as <- _ _. repeat (split; [assumption || reflexivity|]). reflexivity.
      * eapply IH; eassumption.
    + destruct (new_taxon st n l) as [s1 t] eqn:Q. destruct (uniq_new_taxon _ _ _ _ _ Q U W E) as [U1 W1].
      destruct (new_taxon_ext _ _ _ _ _ Q) as [X _]. assert (Ecs : ns_cs s1 n = ns_cs st n) by apply X.
      assert (EL : s_lists s1 = s_lists st /\ s_trees s1 = s_trees st).
      { unfold new_taxon, alloc_taxon in Q. injection Q as <- _. split; reflexivity. }
      destruct (memb t seen).
      * injection H as <- _ _. split; [exact U1|]. split; [exact W1|]. split; [exact Ecs|]. exact EL.
      * rewrite <- Ecs in H. destruct (IH _ _ _ _ _ H U1 W1) as [U2 [W2 [E2 [L2 T2]]]].
        split; [exact U2|]. split; [exact W2|]. split; [congruence|]. destruct EL. split; congruence.
Qed.

Lemma uniq_read_trees : forall n trees st l,
  l_ns (getlist st l) = n -> uniq st n -> wf_ns n st ->
  uniq (fst (read_trees lower st l (ns_cs st n) trees)) n /\ wf_ns n (fst (read_trees lower st l (ns_cs st n) trees)).
Proof.
  intros n trees. induction trees as [|labels r IH]; intros st l En U W; cbn [read_trees]; [split; assumption|].
  rewrite En. unfold alloc_tree. cbv beta iota zeta.
  set (s1 := mkSt (s_lab st) (s_mem st) (s_cs st) (s_nns st) (s_trees st ++ [mkTree n []]) (s_lists st) (s_mats st) (s_dss st)).
  set (s2 := list_push s1 l (length (s_trees st))).
  assert (U2 : uniq s2 n) by (eapply uniq_same; [| | |exact U]; reflexivity).
  assert (W2 : wf_ns n s2) by (eapply wf_ns_same; [| |exact W]; reflexivity).
  assert (C2 : ns_cs s2 n = ns_cs st n) by reflexivity.
  rewrite <- C2.
  destruct (read_refs lower s2 n (ns_cs s2 n) labels []) as [[s3 refs] ok] eqn:R.
  destruct (uniq_read_refs _ _ _ _ _ _ _ R U2 W2) as [U3 [W3 [C3 [L3 T3]]]].
  set (s4 := set_tree s3 (length (s_trees st)) (mkTree n refs)).
  assert (U4 : uniq s4 n) by (eapply uniq_same; [| | |exact U3]; reflexivity).
  assert (W4 : wf_ns n s4) by (eapply wf_ns_same; [| |exact W3]; reflexivity).
  destruct ok; cbn [fst]; [|split; assumption].
  assert (C4 : ns_cs s4 n = ns_cs s2 n) by exact C3. rewrite <- C4. apply IH; [|exact U4 | exact W4].
  unfold s4, getlist. cbn [set_tree s_lists]. rewrite L3. fold (getlist s2 l). unfold s2. rewrite l_ns_list_push.
  unfold getlist, s1. cbn [s_lists]. exact En.
Qed.

(* TreeList.read into a namespace without duplicate labels keeps it so *)
Theorem read_keeps_uniq_l : forall st l sc cskw nsarg trees,
  wf_ns (l_ns (getlist st l)) st -> uniq st (l_ns (getlist st l)) ->
  uniq (fst (step lower st (ReadList l sc cskw nsarg trees))) (l_ns (getlist st l)).
Proof.
  intros st l sc cskw nsarg trees W U. cbn [step]. destruct (valid_list st l && valid_nsopt st nsarg); [|exact U]. cbv zeta.
  destruct (match nsarg with Some a => Nat.eqb a (l_ns (getlist st l)) | None => true end); [|exact U].
  destruct (Bool.eqb cskw (ns_cs st (l_ns (getlist st l)))) eqn:E; [|exact U]. apply Bool.eqb_prop in E. subst cskw.
  pose proof (uniq_read_trees (l_ns (getlist st l)) trees st l eq_refl U W) as [K _].
  destruct (read_trees lower st l (ns_cs st (l_ns (getlist st l))) trees) as [s1 ok]. exact K.
Qed.

(* under a namespace without duplicate labels every tree whose node taxa are members is resolved *)
Theorem uniq_closed_canon_l : forall st tr,
  tr < length (s_trees st) -> t_ns (gettree st tr) < s_nns st -> uniq st (t_ns (gettree st tr)) ->
  (forall y, In y (t_refs (gettree st tr)) -> In y (members st (t_ns (gettree st tr)))) -> canon lower st tr.
Proof.
  intros st tr V Vn U M. split; [exact V|]. split; [exact Vn|]. intros y Hy. apply uniq_member_first; [exact U | apply M, Hy].
Qed.

(* together: in a closed state, after TreeList.read into a namespace without duplicate labels EVERY tree under that
   namespace - in particular the trees the read has made - is resolved *)
Theorem read_without_duplicates_resolved_l : forall st l sc cskw nsarg trees tr,
  Closed st -> mem_wf st -> uniq st (l_ns (getlist st l)) -> l_ns (getlist st l) < s_nns st ->
  let st' := fst (step lower st (ReadList l sc cskw nsarg trees)) in
  tr < length (s_trees st') -> t_ns (gettree st' tr) = l_ns (getlist st l) -> canon lower st' tr.
Proof.
  intros st l sc cskw nsarg trees tr C Mw U Vn st' V En.
  pose proof (read_keeps_uniq_l st l sc cskw nsarg trees (Mw _) U) as U'. fold st' in U'.
  pose proof (step_ReadList lower st l sc cskw nsarg trees C) as C'. fold st' in C'.
  assert (N : s_nns st <= s_nns st').
  { pose proof (G_step lower st (ReadList l sc cskw nsarg trees) eq_refl) as [_ [_ [A _]]]. exact A. }
  apply uniq_closed_canon_l; [exact V | rewrite En; lia | rewrite En; exact U'|].
  apply Closed_NoX in C'. apply (closed_tree_ok _ _ _ tr C').
Qed.

End WithLower.

(* ---- uniq as a boolean, and the example ---- *)
Definition uniqb (lower : lbl -> lbl) (st : state) (n : oid) : bool :=
  nodupb (map (fun y => key lower (ns_cs st n) (label st y)) (members st n)).

Lemma NoDup_map_eq : forall (f : nat -> nat) L y z, NoDup (map f L) -> In y L -> In z L -> f y = f z -> y = z.
Proof.
  intros f L. induction L as [|a r IH]; intros y z N Hy Hz E; [destruct Hy|]. cbn [map] in N. inversion N as [|? ? Na Nr]. subst.
  destruct Hy as [Hy|Hy]; destruct Hz as [Hz|Hz].
  - congruence.
  - subst a. exfalso. apply Na. rewrite E. apply in_map. exact Hz.
  - subst a. exfalso. apply Na. rewrite <- E. apply in_map. exact Hy.
  - apply IH; assumption.
Qed.

Lemma uniqb_sound : forall lower st n, uniqb lower st n = true -> uniq lower st n.
Proof.
  intros lower st n H y z Hy Hz K. unfold uniqb in H. apply nodupb_sound in H.
  apply (NoDup_map_eq (fun y => key lower (ns_cs st n) (label st y)) (members st n) y z H Hy Hz K).
Qed.

(* history 0 after step 26: namespace 3 = a C B (case-insensitive) has no duplicate labels, namespace 0 = A B a C A a has;
   list 3 is under namespace 3; reading the trees (a, B) and (C, b) into it makes trees 6 and 7 with the members
   6 8 and 7 8 *)
Lemma w9_read_example_l :
  let st := x_st w9_xb in
  let o := ReadList 3 Newick false None [[3; 1]; [2; 4]] in
  closedb st = true /\ taxa_wfb w9_xb = true /\ uniqb w8_lower st 3 = true /\ uniqb w8_lower st 0 = false
  /\ l_ns (getlist st 3) = 3 /\ s_nns st = 4 /\ length (s_trees st) = 6
  /\ snd (step w8_lower st o) = OUnit
  /\ map (fun t => (t_ns (gettree (fst (step w8_lower st o)) t), t_refs (gettree (fst (step w8_lower st o)) t))) [6; 7]
     = [(3, [6; 8]); (3, [7; 8])].
Proof. vm_compute. repeat split. Qed.
