(* C08 - the ORDER of the node list returned by filter_leaf_nodes / prune_leaves_without_taxa. *)
From Coq Require Import ZArith List Bool Lia Arith.
From DV Require Import Model.PyPrims Model.Tree Model.C08Model Model.C08Spec2
     Proofs.C08Base Proofs.C08InPlace Proofs.C08Prune Proofs.C08Final.
Import ListNotations.
Open Scope Z_scope.

Lemma rnd_T bad i x l e ks :
  rnd bad (T i x l e ks) =
  if bad i x && forallb (fun k => Nat.ltb 0 (rnd bad k)) ks then S (list_max (map (rnd bad) ks)) else O.
Proof. reflexivity. Qed.

Lemma postorder_T i x l e ks : postorder (T i x l e ks) = flat_map postorder ks ++ [T i x l e ks].
Proof. reflexivity. Qed.

Lemma filter_flat_map {A B} (q : B -> bool) (f : A -> list B) l :
  filter q (flat_map f l) = flat_map (fun a => filter q (f a)) l.
Proof. induction l as [|a r IH]; [reflexivity|]. simpl. rewrite filter_app, IH. reflexivity. Qed.

Lemma level_T bad k i x l e ks :
  level bad k (T i x l e ks) =
  flat_map (level bad k) ks ++ (if Nat.eqb (rnd bad (T i x l e ks)) k then [i] else []).
Proof.
  unfold level. rewrite postorder_T, filter_app, map_app, filter_flat_map, map_flat_map.
  f_equal. cbn [filter]. destruct (Nat.eqb (rnd bad (T i x l e ks)) k); reflexivity.
Qed.

(* pass 1 = the rejected leaves *)
Lemma list_max_zero l : list_max l = O -> forall a, In a l -> a = O.
Proof.
  induction l as [|b r IH]; intros H a Ha; [destruct Ha|]. simpl in H.
  destruct Ha as [<-|Ha]; [lia | apply IH; [lia | exact Ha]].
Qed.

Lemma rnd_one_iff bad n : rnd bad n = 1%nat <-> badleaf bad n = true.
Proof.
  destruct n as [i x l e ks]. rewrite rnd_T. unfold badleaf, app_np. simpl is_leaf. simpl t_id. simpl t_taxon. split.
  - destruct (bad i x); simpl andb; [|discriminate].
    destruct (forallb (fun k => Nat.ltb 0 (rnd bad k)) ks) eqn:F; [|discriminate].
    intro H. inversion H as [M]. destruct ks as [|k r]; [reflexivity|]. exfalso.
    simpl in F. apply andb_true_iff in F. destruct F as [F _]. apply Nat.ltb_lt in F.
    pose proof (list_max_zero _ M (rnd bad k) (or_introl eq_refl)). lia.
  - intro H. apply andb_true_iff in H. destruct H as [H1 H2]. destruct ks; [|discriminate H1]. rewrite H2. reflexivity.
Qed.

Lemma filter_leaf_postorder : forall t, filter is_leaf (postorder t) = leaves t.
Proof.
  induction t as [i x l e ks IH] using tree_ind'. rewrite postorder_T, filter_app.
  destruct ks as [|k r]; [reflexivity|]. rewrite leaves_T_cons. simpl filter at 2. rewrite app_nil_r.
  rewrite filter_flat_map. apply flat_map_ext_in. rewrite Forall_forall in IH. exact IH.
Qed.

Lemma filter_filter {A} (p q : A -> bool) l : filter p (filter q l) = filter (fun a => q a && p a) l.
Proof. induction l as [|a r IH]; [reflexivity|]. simpl. destruct (q a); simpl; [destruct (p a)|]; rewrite IH; reflexivity. Qed.

Lemma level_one bad t : level bad 1 t = rem_of bad t.
Proof.
  unfold level, rem_of. rewrite <- filter_leaf_postorder, filter_filter. f_equal.
  apply filter_ext. intro n. fold (badleaf bad n).
  destruct (badleaf bad n) eqn:B.
  - apply rnd_one_iff in B. rewrite B. reflexivity.
  - destruct (Nat.eqb_spec (rnd bad n) 1) as [E|_]; [|reflexivity]. apply rnd_one_iff in E. rewrite E in B. discriminate B.
Qed.

(* one pass lowers every remaining node's pass number by one *)
Definition pos (bad : npred) (k : tree) : bool := Nat.ltb 0 (rnd bad k).

Lemma pos_of bad n : pos bad n = Nat.ltb 0 (rnd bad n).
Proof. reflexivity. Qed.

Lemma pass_kids bad : forall ks,
  Forall (fun n => badleaf bad n = false ->
            forall i x l e ks0, n = T i x l e ks0 ->
            rnd bad (T i x l e (flat_map (rmQ (badleaf bad)) ks0)) = pred (rnd bad n)) ks ->
  forallb (pos bad) (flat_map (rmQ (badleaf bad)) ks) = forallb (pos bad) ks /\
  (forallb (pos bad) ks = true ->
   list_max (map (rnd bad) (flat_map (rmQ (badleaf bad)) ks)) = pred (list_max (map (rnd bad) ks))).
Proof.
  induction ks as [|k r IH]; intro H; [split; reflexivity|].
  inversion H as [|? ? Hk Hr]; subst. destruct (IH Hr) as [I1 I2]. clear IH.
  simpl flat_map. destruct k as [i x l e ks0]. rewrite rmQ_T.
  destruct (badleaf bad (T i x l e ks0)) eqn:B.
  - pose proof (proj2 (rnd_one_iff bad _) B) as R1. cbn [app]. split.
    + cbn [forallb]. rewrite (pos_of bad (T i x l e ks0)), R1. cbn [Nat.ltb Nat.leb andb]. exact I1.
    + cbn [forallb]. intro F. apply andb_true_iff in F. destruct F as [_ F]. rewrite (I2 F).
      cbn [map list_max fold_right]. rewrite R1. unfold list_max. lia.
  - specialize (Hk eq_refl i x l e ks0 eq_refl).
    assert (N1 : rnd bad (T i x l e ks0) <> 1%nat) by (intro E; apply rnd_one_iff in E; rewrite E in B; discriminate B).
    cbn [app]. split.
    + cbn [forallb]. rewrite I1. f_equal. rewrite !pos_of, Hk.
      destruct (rnd bad (T i x l e ks0)) as [|[|m]]; try reflexivity. contradiction.
    + cbn [forallb]. intro F. apply andb_true_iff in F. destruct F as [F1 F].
      cbn [map]. rewrite Hk. change (list_max (?a :: ?r)) with (Nat.max a (list_max r)). rewrite (I2 F).
      rewrite pos_of in F1. apply Nat.ltb_lt in F1. lia.
Qed.

Lemma rnd_pass bad : forall n, badleaf bad n = false ->
  forall i x l e ks, n = T i x l e ks ->
  rnd bad (T i x l e (flat_map (rmQ (badleaf bad)) ks)) = pred (rnd bad n).
Proof.
  induction n as [i0 x0 l0 e0 ks0 IH] using tree_ind'. intros B i x l e ks E. inversion E; subst. clear E.
  destruct (pass_kids bad ks IH) as [P1 P2]. rewrite !rnd_T. fold (pos bad). rewrite P1.
  destruct (bad i x) eqn:Bx; simpl andb; [|reflexivity].
  destruct (forallb (pos bad) ks) eqn:F; [|reflexivity]. rewrite (P2 eq_refl).
  (* ks is not empty (the node is rejected but not a leaf) and all its children go: max >= 1 *)
  destruct ks as [|k r].
  - unfold badleaf, app_np in B. simpl in B. rewrite Bx in B. discriminate B.
  - simpl in F. apply andb_true_iff in F. destruct F as [F1 _]. unfold pos in F1. apply Nat.ltb_lt in F1.
    simpl map. simpl list_max. lia.
Qed.

Lemma level_pass bad (k : nat) : (1 <= k)%nat -> forall n,
  flat_map (level bad k) (rmQ (badleaf bad) n) = level bad (S k) n.
Proof.
  intro Hk. induction n as [i x l e ks IH] using tree_ind'. rewrite rmQ_T.
  destruct (badleaf bad (T i x l e ks)) eqn:B.
  - simpl flat_map. pose proof (proj2 (rnd_one_iff bad _) B) as R1.
    unfold badleaf in B. apply andb_true_iff in B. destruct B as [Bl _]. destruct ks; [|discriminate Bl].
    rewrite level_T, R1. cbn [flat_map app].
    destruct (Nat.eqb_spec 1 (S k)) as [E|_]; [lia | reflexivity].
  - rewrite flat_map_single, !level_T, flat_map_flat_map.
    rewrite (rnd_pass bad _ B i x l e ks eq_refl).
    f_equal.
    + apply flat_map_ext_in. rewrite Forall_forall in IH. exact IH.
    + assert (N1 : rnd bad (T i x l e ks) <> 1%nat) by (intro E; apply rnd_one_iff in E; rewrite E in B; discriminate B).
      revert N1. generalize (rnd bad (T i x l e ks)). intros r N1.
      destruct (Nat.eqb_spec (pred r) k) as [E1|E1]; destruct (Nat.eqb_spec r (S k)) as [E2|E2];
        try reflexivity; exfalso; destruct r as [|[|r']]; cbn [Init.Nat.pred] in E1; subst; try (clear IH B; lia); try congruence.
Qed.

(* nothing to remove: every pass number is 0 *)
Lemma rnd_pos_badleaf bad : forall n, (0 < rnd bad n)%nat -> exists m, In m (leaves n) /\ app_np bad m = true.
Proof.
  induction n as [i x l e ks IH] using tree_ind'. rewrite rnd_T. intro H.
  destruct (bad i x) eqn:Bx; cbn [andb] in H; cbv iota in H; [|lia].
  destruct (forallb (fun k => Nat.ltb 0 (rnd bad k)) ks) eqn:F; cbv iota in H; [|lia].
  destruct ks as [|k r].
  - exists (T i x l e []). split; [left; reflexivity | exact Bx].
  - simpl in F. apply andb_true_iff in F. destruct F as [F1 _]. apply Nat.ltb_lt in F1.
    inversion IH as [|? ? Pk _]; subst. destruct (Pk F1) as [m [Hm Bm]]. exists m. split; [|exact Bm].
    rewrite leaves_T_cons. simpl. apply in_or_app. left. exact Hm.
Qed.

Lemma postorder_in_preorder : forall t n, In n (postorder t) -> In n (preorder t).
Proof.
  induction t as [i x l e ks IH] using tree_ind'. intros n H. rewrite postorder_T in H. apply in_app_or in H.
  rewrite preorder_T. destruct H as [H|[<-|[]]]; [right | left; reflexivity].
  apply in_flat_map in H. destruct H as [k [Hk H]]. apply in_flat_map. exists k. split; [exact Hk|].
  rewrite Forall_forall in IH. exact (IH k Hk n H).
Qed.

Lemma level_nil_no_bad bad t (k : nat) : (1 <= k)%nat -> filter (app_np bad) (leaves t) = [] -> level bad k t = [].
Proof.
  intros Hk Hf. unfold level.
  assert (G : forall n, In n (postorder t) -> Nat.eqb (rnd bad n) k = false).
  { intros n Hn. destruct (Nat.eqb_spec (rnd bad n) k) as [E|_]; [|reflexivity]. exfalso.
    destruct (rnd_pos_badleaf bad n) as [m [Hm Bm]]; [lia|].
    apply postorder_in_preorder in Hn. apply leaves_in_preorder in Hm. destruct Hm as [Hm Hl].
    assert (Hin : In m (filter (app_np bad) (leaves t))).
    { apply filter_In. split; [|exact Bm]. apply preorder_leaf_in_leaves; [|exact Hl]. exact (preorder_trans t n m Hn Hm). }
    rewrite Hf in Hin. destruct Hin. }
  induction (postorder t) as [|a r IH]; [reflexivity|]. simpl. rewrite (G a (or_introl eq_refl)).
  apply IH. intros n Hn. apply G. right. exact Hn.
Qed.

Lemma flat_map_all_nil {A B} (f : A -> list B) l : (forall a, In a l -> f a = []) -> flat_map f l = [].
Proof. induction l as [|a r IH]; intro H; [reflexivity|]. simpl. rewrite (H a (or_introl eq_refl)). apply IH. intros b Hb. apply H. right. exact Hb. Qed.

Theorem lf_loop_order bad e : forall fuel t acc ret t', NoDup (ids t) ->
  lf_loop bad e true fuel t acc = IOk (ret, t') ->
  forall N, (size t <= N)%nat -> ret = acc ++ flat_map (fun k => level bad k t) (seq 1 N).
Proof.
  induction fuel as [|fu IH]; intros t acc ret t' Hnd H N HN; [discriminate H|].
  rewrite lf_loop_S, (pass_eq bad e t Hnd) in H.
  destruct (badleaf bad t) eqn:Hb; [discriminate H|].
  destruct (is_nil (rem_of bad t)) eqn:Hn; simpl orb in H; cbv iota in H.
  - inversion H; subst ret t'. clear H. apply is_nil_true in Hn. rewrite Hn.
    assert (Hf : filter (app_np bad) (leaves t) = []).
    { unfold rem_of in Hn. destruct (filter (app_np bad) (leaves t)); [reflexivity | discriminate Hn]. }
    f_equal. symmetry. apply flat_map_all_nil. intros k Hk. apply in_seq in Hk. apply level_nil_no_bad; [lia | exact Hf].
  - set (t1 := set_kids t (flat_map (rmQ (badleaf bad)) (t_kids t))) in *.
    assert (Hlt : (size t1 < size t)%nat).
    { unfold t1. rewrite size_set_kids, (size_as_kids t). apply -> Nat.succ_lt_mono. apply sizes_rmQ_lt.
      destruct (filter (app_np bad) (leaves t)) as [|m r] eqn:Ef; [unfold rem_of in Hn; rewrite Ef in Hn; discriminate Hn|].
      assert (Hm : In m (filter (app_np bad) (leaves t))) by (rewrite Ef; left; reflexivity).
      apply filter_In in Hm. destruct Hm as [Hm Hbm]. apply leaves_in_preorder in Hm. destruct Hm as [Hm Hl].
      exists m. split.
      - destruct t as [i x l e0 ks]. rewrite preorder_T in Hm. destruct Hm as [<-|Hm]; [|exact Hm].
        unfold badleaf in Hb. rewrite Hl, Hbm in Hb. discriminate Hb.
      - unfold badleaf. rewrite Hl, Hbm. reflexivity. }
    destruct N as [|N']; [pose proof (size_pos t); lia|].
    rewrite (IH t1 (acc ++ rem_of bad t) ret t' (NoDup_pass bad t Hnd) H N' ltac:(lia)).
    rewrite <- app_assoc. f_equal. cbn [seq flat_map]. rewrite level_one. f_equal.
    rewrite <- (seq_shift N' 1), (flat_map_concat_map _ (map S (seq 1 N'))), map_map, <- flat_map_concat_map.
    apply flat_map_ext_in. intros k Hk. apply in_seq in Hk.
    assert (R : rmQ (badleaf bad) t = [t1]).
    { destruct t as [i x l e0 ks]. rewrite rmQ_T, Hb. reflexivity. }
    rewrite <- (level_pass bad k ltac:(lia) t), R, flat_map_single. reflexivity.
Qed.

Theorem filter_removed_order ok upd_bip sup t rooted ret t' r' : NoDup (ids t) ->
  filter_leaf_nodes ok true upd_bip sup (t, rooted) = IOk (ret, t', r') ->
  ret = removal_order (fun i _ => negb (memz i ok)) t.
Proof.
  intros Hnd H. unfold filter_leaf_nodes in H.
  destruct (lf_loop (fun i _ => negb (memz i ok)) ESeedDel true (S (size t)) t []) as [[rem t0]| |] eqn:L; try discriminate H.
  rewrite finish_eq in H. inversion H; subst ret. clear H.
  exact (lf_loop_order _ _ _ _ _ _ _ Hnd L (size t) (le_n _)).
Qed.

Theorem plwt_removed_order upd_bip sup t rooted ret t' r' : NoDup (ids t) ->
  prune_leaves_without_taxa true upd_bip sup (t, rooted) = IOk (ret, t', r') ->
  ret = removal_order no_taxon t.
Proof.
  intros Hnd H. unfold prune_leaves_without_taxa in H.
  destruct (lf_loop no_taxon EAttr true (S (size t)) t []) as [[rem t0]| |] eqn:L; try discriminate H.
  rewrite finish_eq in H. inversion H; subst ret. clear H.
  exact (lf_loop_order _ _ _ _ _ _ _ Hnd L (size t) (le_n _)).
Qed.

(* non-vacuity on ((A:1,B:2):3,C:4):5 : keep only C - pass 1 removes A, B (leaf order), pass 2 the cherry *)
Example ex_removal_order :
  removal_order (fun i _ => negb (memz i [4])) (T 0 None None (Some 5120)
    [T 1 None None (Some 3072) [T 2 (Some 0) None (Some 1024) []; T 3 (Some 1) None (Some 2048) []];
     T 4 (Some 2) None (Some 4096) []]) = [2; 3; 1].
Proof. vm_compute. reflexivity. Qed.
