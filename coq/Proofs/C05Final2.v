(* C05: second wave, final forms *)
From Coq Require Import ZArith QArith List Bool Lia Permutation.
From DV Require Import Model.PyPrims Gen.BitFns Gen.Consts Model.C05Model Model.C05Spec
     Proofs.C05Lists Proofs.C05Freq Proofs.C05Consensus Proofs.C05Trees Proofs.C05Array
     Proofs.C05Bits Proofs.C05Laminar.
Import ListNotations.
Open Scope Z_scope.

Theorem consensus_tree_clades_full :
  forall (all : Z) (idxs bits : list Z) (rooted : bool) (ss : list Z),
  bits = map (Z.pow 2) idxs -> NoDup idxs -> (forall i, In i idxs -> 0 <= i) ->
  (2 <= length idxs)%nat -> all = fold_left Z.lor bits 0 ->
  (forall c, In c (ct_clades (fsb_tree all bits rooted ss)) <->
             c = all \/ In c (greedy all [] (fsb_prepare all rooted ss))) /\
  Permutation (ct_leaves (fsb_tree all bits rooted ss)) bits /\
  ct_mask (fsb_tree all bits rooted ss) = all.
Proof.
  intros all idxs bits rooted ss H1 H2 H3 H4 H5.
  assert (NS : namespace_ok all idxs bits) by (repeat split; assumption).
  split; [apply (consensus_tree_clades_l all idxs bits NS)|].
  destruct (consensus_tree_wf_l all idxs bits NS rooted ss) as [_ [M L]]. tauto.
Qed.

(* the tree rebuilt by restore_tree(i): its internal clades are `all` and exactly the
   (non-leaf) clades of the i-th tree added *)
Theorem mcc_tree_clades_l :
  forall (fw : bool) (c : config) (ts : list tree_in) (a : ta) (all : Z) (idxs bits : list Z)
         (i : nat) (t : tree_in),
  bits = map (Z.pow 2) idxs -> NoDup idxs -> (forall j, In j idxs -> 0 <= j) ->
  (2 <= length idxs)%nat -> all = fold_left Z.lor bits 0 ->
  ta_add_trees fw c (ta_empty None) ts = Ok a ->
  nth_error ts i = Some t ->
  tree_compatible all (truthy (ta_rooting a)) t = true ->
  forall m, In m (ct_clades (fsb_tree all bits (truthy (ta_rooting a)) (nth i (ta_splits a) []))) <->
            m = all \/ (In m (fsb_prepare all (truthy (ta_rooting a)) (splits_of t)) /\ is_single m = false).
Proof.
  intros fw c ts a all idxs bits i t H1 H2 H3 H4 H5 E N TC m.
  assert (NS : namespace_ok all idxs bits) by (repeat split; assumption).
  rewrite (consensus_tree_clades_l all idxs bits NS).
  pose proof (mcc_topology_l fw c ts a all i t E N TC m) as R. unfold ta_restore in R.
  rewrite R. reflexivity.
Qed.

(* the boolean check evaluated on every correspondence case implies the namespace hypotheses *)
Lemma nodupb_nodup l : nodupb l = true -> NoDup l.
Proof.
  induction l as [|x r IH]; simpl; intro H; [constructor|].
  apply andb_true_iff in H. destruct H as [H1 H2]. apply negb_true_iff in H1.
  constructor; [now apply zmem_false | now apply IH].
Qed.

Lemma nodup_map_inj_in {A B} (f : A -> B) l :
  (forall x y, In x l -> In y l -> f x = f y -> x = y) -> NoDup l -> NoDup (map f l).
Proof.
  induction l as [|a r IH]; intros Inj ND; simpl; [constructor|].
  inversion ND as [|? ? Na Nr]. subst. constructor.
  - intro I. apply in_map_iff in I. destruct I as [y [E Iy]].
    assert (y = a) by (apply Inj; [now right | now left | assumption]). subst. contradiction.
  - apply IH; [|assumption]. intros x y Ix Iy. apply Inj; now right.
Qed.

Theorem ns_okb_sound all bits :
  ns_okb all bits = true -> namespace_ok all (map Z.log2 bits) bits.
Proof.
  unfold ns_okb. rewrite !andb_true_iff. intros [[[F ND] L] E].
  rewrite forallb_forall in F.
  assert (P2 : forall b, In b bits -> b = 2 ^ Z.log2 b).
  { intros b Ib. specialize (F b Ib). apply andb_true_iff in F. destruct F as [Pb Sb].
    apply Z.ltb_lt in Pb. destruct (single_pow2 b Pb Sb) as [j [Hj Ej]].
    rewrite Ej at 2. now rewrite Z.log2_pow2. }
  repeat split.
  - rewrite map_map. rewrite <- (map_id bits) at 1. apply map_ext_in. exact P2.
  - apply nodup_map_inj_in; [|now apply nodupb_nodup].
    intros x y Ix Iy Exy. rewrite (P2 x Ix), (P2 y Iy), Exy. reflexivity.
  - intros i Ii. apply in_map_iff in Ii. destruct Ii as [b [Eb _]]. subst. apply Z.log2_nonneg.
  - rewrite map_length. apply Z.leb_le in L. lia.
  - apply Z.eqb_eq in E. now symmetry.
Qed.

Theorem consensus_tree_clades_checked all bits rooted ss :
  ns_okb all bits = true ->
  forall c, In c (ct_clades (fsb_tree all bits rooted ss)) <->
            c = all \/ In c (greedy all [] (fsb_prepare all rooted ss)).
Proof. intro H. apply (consensus_tree_clades_l all _ bits (ns_okb_sound all bits H)). Qed.
