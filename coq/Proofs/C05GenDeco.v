(* C05, wave 6: the generated SplitDistributionSummarizer.configure / _decorate / decoration view of
   summarize_splits_on_tree (Gen/SplitDistDeco.v) equal the hand model Model/C05Model4.v *)
From Coq Require Import ZArith QArith Qabs Qreduction List Bool Lia String.
From DV Require Import Model.PyPrims Gen.BitFns Gen.Consts Model.C05Model Model.C05Spec Model.C05Model2
     Model.C05GenPrims Model.C05GenPrims2 Model.C05GenPrims4 Model.C05Model4 Gen.SplitDist Gen.SplitDistDeco
     Proofs.C05Lists Proofs.C05Freq Proofs.C05Trees Proofs.C05GenStats Proofs.C05GenDist Proofs.C05GenDist4
     Proofs.C05GenScores Proofs.C05GenSumm.
Import ListNotations.
Open Scope Z_scope.

(* ---------------------------------------------------------------- configure *)
Theorem gen_configure_eq kw : gen_configure kw = configure kw.
Proof.
  unfold gen_configure, configure, py_kwpop, dflt.
  f_equal; try (vm_compute; reflexivity).
Qed.

(* ---------------------------------------------------------------- _decorate *)
Theorem gen_decorate_eq o t f v sa sn : gen_decorate o t f v sa sn = decorate o t f v sa sn.
Proof.
  unfold gen_decorate, decorate, py_bind.
  destruct (py_getattr_str o (py_format1 "{}_attr_name" f)) as [a| |]; cbn [bind]; try reflexivity.
  destruct (py_getattr_str o (py_format1 "{}_annotation_name" f)) as [n| |]; cbn [bind]; try reflexivity.
  destruct sa, sn; cbn [andb]; try reflexivity.
  destruct (py_getattr_truth o (py_format1 "is_{}_annotation_dynamic" f)) as [d| |]; cbn [bind]; try reflexivity.
  destruct d; reflexivity.
Qed.

(* ---------------------------------------------------------------- loops *)
Lemma forM_mapM {A B} (f : A -> res B) (l : list A) : forall acc,
  py_forM l (fun n acc => bind (f n) (fun n' => Ok (py_append acc n'))) acc
  = bind (mapM f l) (fun l' => Ok (acc ++ l')).
Proof.
  induction l as [|x r IH]; intro acc; simpl.
  - now rewrite app_nil_r.
  - destruct (f x) as [y| |]; cbn [bind]; try reflexivity.
    rewrite IH. destruct (mapM f r) as [ys| |]; cbn [bind]; try reflexivity.
    unfold py_append. now rewrite <- app_assoc.
Qed.

Lemma forM_ext {A S} (l : list A) (f g : A -> S -> res S) :
  (forall x s, f x s = g x s) -> forall s, py_forM l f s = py_forM l g s.
Proof.
  intro H. induction l as [|x r IH]; intro s; simpl; [reflexivity|].
  rewrite H. destruct (g x s); try reflexivity. apply IH.
Qed.

Lemma gs_get_field sm f nd : py_gs_get (gs_of sm) f nd = summary_field sm f nd.
Proof.
  unfold py_gs_get, summary_field, gs_of. cbn [gs_mean gs_median gs_var gs_range].
  repeat (match goal with |- context [String.eqb f ?k] => destruct (String.eqb f k); [reflexivity|] end).
  destruct (String.eqb f "var"); [destruct (s_var sm); reflexivity | reflexivity].
Qed.

Lemma odict_has_gs tbl s : py_odict_has (Some (gs_table tbl)) s = match aget s tbl with Some _ => true | None => false end.
Proof.
  unfold py_odict_has, py_dict_has, gs_table. rewrite (aget_map_val gs_of). destruct (aget s tbl); reflexivity.
Qed.

Lemma summ_get_gs tbl s f nd sm : aget s tbl = Some sm ->
  py_summ_get (Some (gs_table tbl)) s f nd = Ok (summary_field sm f nd).
Proof.
  intro E. unfold py_summ_get, gs_table. rewrite (aget_map_val gs_of), E. cbn [option_map]. now rewrite gs_get_field.
Qed.

(* the age_* / length_* loops of the generated code: a loop over (fieldname, stats_fieldname) pairs whose
   body decorates one component (node object / edge object) of the node *)
Section FieldLoop.
  Variables (o : dopts) (tbl : list (Z * summary)) (s : Z) (sa sn : bool).
  Variables (proj : dnode -> deco) (setp : dnode -> deco -> dnode).
  Hypothesis proj_set : forall n t, proj (setp n t) = t.
  Hypothesis set_set : forall n t t', setp (setp n t) t' = setp n t'.
  Hypothesis set_proj : forall n, setp n (proj n) = n.
  Hypothesis split_set : forall n t, dn_split (setp n t) = dn_split n.
  Variable body : string * string -> dnode -> res dnode.
  Hypothesis Hbody : forall fn st node, dn_split node = s ->
    body (fn, st) node = bind (decorate o (proj node) fn (field_value tbl (d_no_data_values o) s st) sa sn)
                              (fun t => Ok (setp node t)).

  Lemma forM_fields : forall fs node, dn_split node = s ->
    py_forM fs body node = bind (decorate_fields o tbl s sa sn fs (proj node)) (fun t => Ok (setp node t)).
  Proof.
    induction fs as [|[fn st] r IH]; intros node Hs.
    - simpl. now rewrite set_proj.
    - cbn [py_forM decorate_fields]. rewrite (Hbody fn st node Hs).
      destruct (decorate o (proj node) fn _ sa sn) as [t'| |]; cbn [bind]; try reflexivity.
      rewrite IH by (rewrite split_set; exact Hs). rewrite proj_set.
      destruct (decorate_fields o tbl s sa sn r t') as [t2| |]; cbn [bind]; try reflexivity.
      now rewrite set_set.
  Qed.
End FieldLoop.

Lemma truth_gs_nonempty tbl : py_truth_odict (Some (gs_table tbl)) = nonempty tbl.
Proof. destruct tbl; reflexivity. Qed.

Lemma label_fn_eq o sup :
  (if negb (py_is_none (d_support_label_compose_fn o))
   then (fun freq => py_label_compose (match d_support_label_compose_fn o with Some f => f | None => tt end) freq)
   else (fun freq => py_label_format freq (d_support_label_decimals o))) sup = label_of o sup.
Proof. unfold label_of. destruct (d_support_label_compose_fn o); reflexivity. Qed.

(* ---------------------------------------------------------------- the decoration view *)
Theorem gen_decoration_view_eq c o x t b :
  NoDup (keys (counts (x_sd x))) -> NoDup (keys (elens (x_sd x))) -> NoDup (keys (nages (x_sd x))) ->
  x_counted_for_summ x <> total (x_sd x) ->
  match snd (deco_tree (x_sd x) o t) with
  | Ok outs => exists x', gen_decoration_view c o x t b = Ok (x', outs) /\
                          x_sd x' = fst (deco_tree (x_sd x) o t)
  | Err e => gen_decoration_view c o x t b = Err e
  | OutOfFuel => False
  end.
Proof.
  intros ND1 ND2 ND3 NE.
  unfold gen_decoration_view.
  rewrite (get_age_fresh c x ND3 NE).
  set (x1 := sa__split_node_age_summaries x _).
  assert (S1 : x_sd x1 = x_sd x) by (destruct x as [[t0 w r cn el ag fr cf] ls as_ cs]; reflexivity).
  assert (C1 : x_counted_for_summ x1 = x_counted_for_summ x) by (destruct x as [[t0 w r cn el ag fr cf] ls as_ cs]; reflexivity).
  rewrite (get_len_fresh c x1) by (rewrite ?S1, ?C1; assumption).
  set (x2 := sa__split_edge_length_summaries x1 _).
  assert (S2 : x_sd x2 = x_sd x) by (rewrite <- S1; destruct x1 as [[t0 w r cn el ag fr cf] ls as_ cs]; reflexivity).
  rewrite S1.
  assert (ND1' : NoDup (keys (counts (x_sd x2)))) by (rewrite S2; assumption).
  pose proof (gen_get_sd c x2 ND1') as Esd.
  destruct (gen_get_split_frequencies_eq c x2 ND1') as [_ E2].
  destruct (gen_get_split_frequencies c x2) as [x3 r3]. cbn [fst snd] in *. subst r3. rewrite S2 in *.
  unfold deco_tree.
  destruct (get_freqs (x_sd x)) as [d' ftbl]. cbn [fst snd] in *.
  set (lsum := calc_summaries (elens (x_sd x))). set (asum := calc_summaries (nages (x_sd x))).
  cbv zeta.
  erewrite (forM_ext (py_dtree_nodes t) _
              (fun n acc => bind (deco_node o ftbl lsum asum n) (fun n' => Ok (py_append acc n')))).
  - rewrite forM_mapM. unfold py_dtree_nodes.
    destruct (mapM (deco_node o ftbl lsum asum) t) as [outs| |] eqn:EM; cbn [py_bind bind app].
    + eexists. split; [reflexivity | exact Esd].
    + reflexivity.
    + (* mapM never runs out of fuel *)
      exfalso. clear - EM. revert EM. generalize t. clear t. intro t.
      assert (G : forall n, deco_node o ftbl lsum asum n <> OutOfFuel).
      { intro n. unfold deco_node.
        assert (D : forall t0 f v sa sn, decorate o t0 f v sa sn <> OutOfFuel).
        { intros. unfold decorate, py_getattr_str, py_getattr_truth.
          destruct (sget _ (d_dyn o)) as [[?|?]|]; cbn [bind]; try discriminate.
          destruct (sget _ (d_dyn o)) as [[?|?]|]; cbn [bind]; try discriminate.
          destruct (sa && sn); [|discriminate].
          destruct (sget _ (d_dyn o)) as [[?|?]|]; cbn [bind]; discriminate. }
        assert (DF : forall tbl s sa sn fs t0, decorate_fields o tbl s sa sn fs t0 <> OutOfFuel).
        { intros tbl s sa sn fs. induction fs as [|[fn st] r IH]; intro t0; simpl; [discriminate|].
          destruct (decorate o t0 fn _ sa sn) as [t1| |] eqn:E; cbn [bind]; [apply IH | discriminate | now apply D in E]. }
        destruct (decorate o (dn_node n) "support" _ _ _) as [nd| |] eqn:E1; cbn [bind]; [| discriminate | now apply D in E1].
        assert (LB : forall sup, label_of o sup <> OutOfFuel).
        { intro sup. unfold label_of, py_label_format, py_format_fixed. destruct (d_support_label_compose_fn o); [discriminate|].
          destruct (d_support_label_decimals o <? 0); discriminate. }
        destruct (truthy (d_set_support_as_node_label o)).
        - destruct (label_of o _) as [l| |] eqn:E2; cbn [bind]; [| discriminate | now apply LB in E2].
          destruct (_ && nonempty asum).
          + destruct (decorate_fields o asum _ _ _ _ nd) as [nd'| |] eqn:E3; cbn [bind]; [| discriminate | now apply DF in E3].
            destruct (_ && nonempty lsum).
            * destruct (decorate_fields o lsum _ _ _ _ (dn_edge n)) as [ed'| |] eqn:E4; cbn [bind]; [discriminate | discriminate | now apply DF in E4].
            * discriminate.
          + cbn [bind]. destruct (_ && nonempty lsum).
            * destruct (decorate_fields o lsum _ _ _ _ (dn_edge n)) as [ed'| |] eqn:E4; cbn [bind]; [discriminate | discriminate | now apply DF in E4].
            * discriminate.
        - cbn [bind]. destruct (_ && nonempty asum).
          + destruct (decorate_fields o asum _ _ _ _ nd) as [nd'| |] eqn:E3; cbn [bind]; [| discriminate | now apply DF in E3].
            destruct (_ && nonempty lsum).
            * destruct (decorate_fields o lsum _ _ _ _ (dn_edge n)) as [ed'| |] eqn:E4; cbn [bind]; [discriminate | discriminate | now apply DF in E4].
            * discriminate.
          + cbn [bind]. destruct (_ && nonempty lsum).
            * destruct (decorate_fields o lsum _ _ _ _ (dn_edge n)) as [ed'| |] eqn:E4; cbn [bind]; [discriminate | discriminate | now apply DF in E4].
            * discriminate. }
      induction t as [|n r IH]; simpl; [discriminate|].
      destruct (deco_node o ftbl lsum asum n) as [y| |] eqn:E; cbn [bind]; [| discriminate | now apply G in E].
      destruct (mapM (deco_node o ftbl lsum asum) r) as [ys| |]; cbn [bind]; [discriminate | discriminate |].
      intros _. now apply IH.
  - (* one node *)
    intros n acc. unfold deco_node. cbv zeta.
    change (py_dn_split n) with (dn_split n).
    pose proof (support_gen ftbl (d_sopts o) (dn_split n)) as SG. cbn [d_sopts o_percent] in SG.
    replace (if d_support_as_percentages o
             then Ok (py_fmul (py_odict_get (Some ftbl) (dn_split n) (0 # 1)%Q) (py_Z2Q 100))
             else Ok (py_odict_get (Some ftbl) (dn_split n) (0 # 1)%Q))
      with (@Ok Q (support_of ftbl (d_sopts o) (dn_split n))).
    2: { rewrite <- SG. destruct (d_support_as_percentages o); reflexivity. }
    cbn [py_bind bind]. rewrite gen_decorate_eq.
    set (sup := support_of ftbl (d_sopts o) (dn_split n)).
    destruct (decorate o (dn_node n) "support" (DFloat sup) _ _) as [nd| |]; cbn [py_bind bind]; try reflexivity.
    change (py_truth_obool (d_set_support_as_node_label o)) with (truthy (d_set_support_as_node_label o)).
    rewrite !truth_gs_nonempty.
    (* the label *)
    assert (BODY : forall tbl (proj : dnode -> deco) (setp : dnode -> deco -> dnode) sa sn fn st node,
      nonempty tbl = true -> dn_split node = dn_split n ->
      (let no_data_value := py_sdict_get (d_no_data_values o) st (DFloat (0 # 1)%Q) in
       py_bind (if orb (negb (nonempty tbl)) (negb (py_odict_has (Some (gs_table tbl)) (dn_split n)))
                then let value := no_data_value in Ok value
                else py_bind (py_summ_get (Some (gs_table tbl)) (dn_split n) st no_data_value) (fun sv =>
                     let value := sv in Ok value)) (fun value =>
       py_bind (gen_decorate o (proj node) fn value sa sn) (fun dt =>
       let node := setp node dt in Ok node)))
      = bind (decorate o (proj node) fn (field_value tbl (d_no_data_values o) (dn_split n) st) sa sn)
             (fun t => Ok (setp node t))).
    { intros tbl proj setp sa sn fn st node NA Hs. cbv zeta. rewrite NA, odict_has_gs. unfold field_value.
      destruct (aget (dn_split n) tbl) as [sm|] eqn:E; cbn [negb orb].
      - rewrite (summ_get_gs tbl _ st _ sm E). cbn [py_bind bind]. rewrite gen_decorate_eq. reflexivity.
      - cbn [py_bind bind]. rewrite gen_decorate_eq. reflexivity. }
    rewrite label_fn_eq.
    assert (REST : forall n1, dn_split n1 = dn_split n ->
      py_bind (if (d_add_node_age_summaries_as_node_attributes o || d_add_node_age_summaries_as_node_annotations o) && nonempty asum
               then py_bind (py_forM (py_zip (d_node_age_summaries_fieldnames o) (d_summary_stats_fieldnames o))
                      (fun '(fieldname, stats_fieldname) node =>
                         let no_data_value := py_sdict_get (d_no_data_values o) stats_fieldname (DFloat (0 # 1)%Q) in
                         py_bind (if orb (negb (nonempty asum)) (negb (py_odict_has (Some (gs_table asum)) (dn_split n)))
                                  then let value := no_data_value in Ok value
                                  else py_bind (py_summ_get (Some (gs_table asum)) (dn_split n) stats_fieldname no_data_value) (fun sv6 =>
                                       let value := sv6 in Ok value)) (fun value =>
                         py_bind (gen_decorate o (dn_node node) fieldname value (d_add_node_age_summaries_as_node_attributes o)
                                               (d_add_node_age_summaries_as_node_annotations o)) (fun dt7 =>
                         let node := py_dn_set_node node dt7 in Ok node))) n1) (fun node => Ok node)
               else Ok n1) (fun node =>
      py_bind (if (d_add_edge_length_summaries_as_edge_attributes o || d_add_edge_length_summaries_as_edge_annotations o) && nonempty lsum
               then py_bind (py_forM (py_zip (d_edge_length_summaries_fieldnames o) (d_summary_stats_fieldnames o))
                      (fun '(fieldname, stats_fieldname) node =>
                         let no_data_value := py_sdict_get (d_no_data_values o) stats_fieldname (DFloat (0 # 1)%Q) in
                         py_bind (if orb (negb (nonempty lsum)) (negb (py_odict_has (Some (gs_table lsum)) (dn_split n)))
                                  then let value := no_data_value in Ok value
                                  else py_bind (py_summ_get (Some (gs_table lsum)) (dn_split n) stats_fieldname no_data_value) (fun sv8 =>
                                       let value := sv8 in Ok value)) (fun value =>
                         py_bind (gen_decorate o (dn_edge node) fieldname value (d_add_edge_length_summaries_as_edge_attributes o)
                                               (d_add_edge_length_summaries_as_edge_annotations o)) (fun dt9 =>
                         let node := py_dn_set_edge node dt9 in Ok node))) node) (fun node => Ok node)
               else Ok node) (fun node => Ok (py_append acc node)))
      = bind (if (d_add_node_age_summaries_as_node_attributes o || d_add_node_age_summaries_as_node_annotations o) && nonempty asum
              then decorate_fields o asum (dn_split n) (d_add_node_age_summaries_as_node_attributes o)
                                   (d_add_node_age_summaries_as_node_annotations o)
                                   (zip (d_node_age_summaries_fieldnames o) (d_summary_stats_fieldnames o)) (dn_node n1)
              else Ok (dn_node n1)) (fun nd' =>
        bind (if (d_add_edge_length_summaries_as_edge_attributes o || d_add_edge_length_summaries_as_edge_annotations o) && nonempty lsum
              then decorate_fields o lsum (dn_split n) (d_add_edge_length_summaries_as_edge_attributes o)
                                   (d_add_edge_length_summaries_as_edge_annotations o)
                                   (zip (d_edge_length_summaries_fieldnames o) (d_summary_stats_fieldnames o)) (dn_edge n1)
              else Ok (dn_edge n1)) (fun ed' =>
        Ok (py_append acc (mkDn (dn_split n) nd' ed' (dn_label n1)))))).
    { intros n1 Hs1.
      assert (P1 : forall m t, dn_node (py_dn_set_node m t) = t) by reflexivity.
      assert (P2 : forall m t t', py_dn_set_node (py_dn_set_node m t) t' = py_dn_set_node m t') by reflexivity.
      assert (P3 : forall m, py_dn_set_node m (dn_node m) = m) by (intros []; reflexivity).
      assert (P4 : forall m t, dn_split (py_dn_set_node m t) = dn_split m) by reflexivity.
      assert (Q1 : forall m t, dn_edge (py_dn_set_edge m t) = t) by reflexivity.
      assert (Q2 : forall m t t', py_dn_set_edge (py_dn_set_edge m t) t' = py_dn_set_edge m t') by reflexivity.
      assert (Q3 : forall m, py_dn_set_edge m (dn_edge m) = m) by (intros []; reflexivity).
      assert (Q4 : forall m t, dn_split (py_dn_set_edge m t) = dn_split m) by reflexivity.
      destruct (nonempty asum) eqn:NA.
      - rewrite !andb_true_r. destruct (d_add_node_age_summaries_as_node_attributes o || d_add_node_age_summaries_as_node_annotations o).
        + erewrite (forM_fields o asum (dn_split n) _ _ dn_node py_dn_set_node P1 P2 P3 P4);
            [| intros fn st node Hs; match goal with |- context [gen_decorate o _ fn _ ?a ?b] => pose proof (BODY asum dn_node py_dn_set_node a b fn st node NA Hs) as B end; rewrite NA in B; exact B | exact Hs1].
          unfold py_zip, py_bind at 1 2.
          destruct (decorate_fields o asum (dn_split n) _ _ _ (dn_node n1)) as [nd'| |]; cbn [bind]; try reflexivity.
          destruct (nonempty lsum) eqn:NL.
          * rewrite !andb_true_r. destruct (d_add_edge_length_summaries_as_edge_attributes o || d_add_edge_length_summaries_as_edge_annotations o).
            -- erewrite (forM_fields o lsum (dn_split n) _ _ dn_edge py_dn_set_edge Q1 Q2 Q3 Q4);
            [| intros fn st node Hs; match goal with |- context [gen_decorate o _ fn _ ?a ?b] => pose proof (BODY lsum dn_edge py_dn_set_edge a b fn st node NL Hs) as B end; rewrite NL in B; exact B | exact Hs1].
               unfold py_zip, py_bind. cbn [dn_edge py_dn_set_node].
               destruct (decorate_fields o lsum (dn_split n) _ _ _ (dn_edge n1)) as [ed'| |]; cbn [bind]; try reflexivity.
               destruct n1; cbn in Hs1 |- *; rewrite Hs1; reflexivity.
            -- cbn [py_bind bind]. destruct n1; cbn in Hs1 |- *; rewrite Hs1; reflexivity.
          * rewrite !andb_false_r. cbn [py_bind bind]. destruct n1; cbn in Hs1 |- *; rewrite Hs1; reflexivity.
        + cbn [py_bind bind].
          destruct (nonempty lsum) eqn:NL.
          * rewrite !andb_true_r. destruct (d_add_edge_length_summaries_as_edge_attributes o || d_add_edge_length_summaries_as_edge_annotations o).
            -- erewrite (forM_fields o lsum (dn_split n) _ _ dn_edge py_dn_set_edge Q1 Q2 Q3 Q4);
            [| intros fn st node Hs; match goal with |- context [gen_decorate o _ fn _ ?a ?b] => pose proof (BODY lsum dn_edge py_dn_set_edge a b fn st node NL Hs) as B end; rewrite NL in B; exact B | exact Hs1].
               unfold py_zip, py_bind.
               destruct (decorate_fields o lsum (dn_split n) _ _ _ (dn_edge n1)) as [ed'| |]; cbn [bind]; try reflexivity.
               destruct n1; cbn in Hs1 |- *; rewrite Hs1; reflexivity.
            -- cbn [py_bind bind]. destruct n1; cbn in Hs1 |- *; rewrite Hs1; reflexivity.
          * rewrite !andb_false_r. cbn [py_bind bind]. destruct n1; cbn in Hs1 |- *; rewrite Hs1; reflexivity.
      - rewrite !andb_false_r. cbn [py_bind bind].
        destruct (nonempty lsum) eqn:NL.
        + rewrite !andb_true_r. destruct (d_add_edge_length_summaries_as_edge_attributes o || d_add_edge_length_summaries_as_edge_annotations o).
          * erewrite (forM_fields o lsum (dn_split n) _ _ dn_edge py_dn_set_edge Q1 Q2 Q3 Q4);
            [| intros fn st node Hs; match goal with |- context [gen_decorate o _ fn _ ?a ?b] => pose proof (BODY lsum dn_edge py_dn_set_edge a b fn st node NL Hs) as B end; rewrite NL in B; exact B | exact Hs1].
            unfold py_zip, py_bind.
            destruct (decorate_fields o lsum (dn_split n) _ _ _ (dn_edge n1)) as [ed'| |]; cbn [bind]; try reflexivity.
            destruct n1; cbn in Hs1 |- *; rewrite Hs1; reflexivity.
          * cbn [py_bind bind]. destruct n1; cbn in Hs1 |- *; rewrite Hs1; reflexivity.
        + rewrite !andb_false_r. cbn [py_bind bind]. destruct n1; cbn in Hs1 |- *; rewrite Hs1; reflexivity. }
    destruct (truthy (d_set_support_as_node_label o)).
    + destruct (label_of o sup) as [l| |]; [| reflexivity | reflexivity].
      etransitivity; [exact (REST (py_dn_set_label (py_dn_set_node n nd) l) eq_refl)|].
      cbn [bind dn_node dn_edge dn_label py_dn_set_label py_dn_set_node].
      destruct (if (_ || _) && nonempty asum then _ else _) as [nd'| |]; cbn [bind]; try reflexivity.
      destruct (if (_ || _) && nonempty lsum then _ else _) as [ed'| |]; cbn [bind]; reflexivity.
    + etransitivity; [exact (REST (py_dn_set_node n nd) eq_refl)|].
      cbn [bind dn_node dn_edge dn_label py_dn_set_label py_dn_set_node].
      destruct (if (_ || _) && nonempty asum then _ else _) as [nd'| |]; cbn [bind]; try reflexivity.
      destruct (if (_ || _) && nonempty lsum then _ else _) as [ed'| |]; cbn [bind]; reflexivity.
Qed.
