(* C08, second wave - Node.remove_child in both modes. *)
From Coq Require Import ZArith List Bool Lia Arith.
From DV Require Import Model.PyPrims Model.Tree Model.C08Model Model.C08Spec2
     Proofs.C08Base Proofs.C08InPlace Proofs.C08Prune Proofs.C08Spec Proofs.C08Dist Proofs.C08Final Proofs.C08More.
Import ListNotations.
Open Scope Z_scope.

Lemma first_some_in {A} (l : list (option A)) a : first_some l = Some a -> In (Some a) l.
Proof. induction l as [|[b|] r IH]; simpl; intro H; [discriminate | inversion H; left; reflexivity | right; exact (IH H)]. Qed.

Lemma find_some a : forall t p, find a t = Some p -> In p (preorder t) /\ t_id p = a.
Proof.
  induction t as [i x l e ks IH] using tree_ind'. intros p H. simpl in H.
  destruct (Z.eqb_spec i a) as [E|_].
  - inversion H; subst. split; [left; reflexivity | reflexivity].
  - apply first_some_in in H. apply in_map_iff in H. destruct H as [k [Hf Hk]].
    rewrite Forall_forall in IH. destruct (IH k Hk p Hf) as [H1 H2]. split; [|exact H2].
    rewrite preorder_T. right. apply in_flat_map. exists k. split; assumption.
Qed.

(* the removal written at the parent = the removal written at the child *)
Definition at_parent (id : Z) (n : tree) : list tree := [set_kids n (updF rm_f id (t_kids n))].

Lemma local_rm (p c : tree) : In c (t_kids p) ->
  forall t, NoDup (ids t) -> In p (preorder t) ->
  upd (at_parent (t_id c)) (t_id p) t = upd rm_f (t_id c) t.
Proof.
  intro Hc. induction t as [i x l e ks IH] using tree_ind'. intros Hnd Hp.
  destruct (NoDup_ids_kids _ _ _ _ _ Hnd) as [Hk Hi].
  assert (Hcp : In (t_id c) (ids p)) by (apply (ids_sub_node p c); [exact (c_in_p c p Hc) | apply t_id_in_ids]).
  rewrite preorder_T in Hp. destruct Hp as [Ep|Hp].
  - subst p. simpl t_id. simpl upd. rewrite Z.eqb_refl.
    destruct (Z.eqb_spec i (t_id c)) as [E|_].
    + exfalso. apply Hi. rewrite E. simpl in Hc. unfold idsF. apply in_flat_map. exists c. split; [exact Hc | apply t_id_in_ids].
    + reflexivity.
  - apply in_flat_map in Hp. destruct Hp as [k0 [Hk0 Hp]].
    assert (Hpk : In (t_id p) (ids k0)) by (apply preorder_in_ids; exact Hp).
    assert (Hck : In (t_id c) (ids k0)) by (apply (ids_sub_node k0 p); assumption).
    simpl upd.
    destruct (Z.eqb_spec i (t_id p)) as [E|_]; [exfalso; apply Hi; rewrite E; unfold idsF; apply in_flat_map; exists k0; split; assumption|].
    destruct (Z.eqb_spec i (t_id c)) as [E|_]; [exfalso; apply Hi; rewrite E; unfold idsF; apply in_flat_map; exists k0; split; assumption|].
    f_equal. f_equal. apply flat_map_ext_in. intros k Hkk.
    destruct (Z.eqb_spec (t_id k) (t_id k0)) as [E|E].
    + assert (k = k0) by (apply (eq_dec_by_id ks); assumption). subst k.
      rewrite Forall_forall in IH. apply (IH k0 Hk0); [exact (NoDup_idsF_kid _ _ Hk Hk0) | exact Hp].
    + assert (Hne : k <> k0) by (intro Ek; subst k; apply E; reflexivity).
      rewrite !upd_notin; [reflexivity | |].
      * intro H. apply Hne. exact (kid_unique (t_id c) ks k k0 Hk Hkk Hk0 H Hck).
      * intro H. apply Hne. exact (kid_unique (t_id p) ks k k0 Hk Hkk Hk0 H Hpk).
Qed.

Lemma existsb_child (p c : tree) : In c (t_kids p) -> existsb (fun k => Z.eqb (t_id k) (t_id c)) (t_kids p) = true.
Proof. intro H. apply existsb_exists. exists c. split; [exact H | apply Z.eqb_refl]. Qed.

Lemma child_not_root t p c : NoDup (ids t) -> In p (preorder t) -> In c (t_kids p) -> t_id t <> t_id c.
Proof.
  intros Hnd Hp Hc E. destruct t as [i x l e ks]. simpl in E. destruct (NoDup_ids_kids _ _ _ _ _ Hnd) as [_ Hi]. apply Hi.
  rewrite E. rewrite preorder_T in Hp. destruct Hp as [<-|Hp].
  - simpl in Hc. unfold idsF. apply in_flat_map. exists c. split; [exact Hc | apply t_id_in_ids].
  - apply in_flat_map in Hp. destruct Hp as [k0 [Hk0 Hp]]. unfold idsF. apply in_flat_map. exists k0.
    split; [exact Hk0|]. apply (ids_sub_node k0 p); [exact Hp|].
    apply (ids_sub_node p c); [exact (c_in_p c p Hc) | apply t_id_in_ids].
Qed.

(* the plain removal, as one tree *)
Definition plain_removed (id : Z) (t : tree) : tree := upd_below rm_f id t.

Lemma plain_is_restrictG id t : NoDup (ids t) -> t_id t <> id ->
  restrictG false (not_id id) (not_id id) np_true t = Some (plain_removed id t).
Proof.
  intros Hnd Hne. pose proof (rm1_restrict id t) as R0.
  destruct t as [i x l e ks]. rewrite rmQ_T, in_set1 in R0. simpl t_id in Hne.
  destruct (Z.eqb_spec i id) as [E|_]; [contradiction|].
  destruct (restrictG false (not_id id) (not_id id) np_true (T i x l e ks)) as [r0|]; [|discriminate R0].
  cbn [olist] in R0. inversion R0. unfold plain_removed, upd_below, updF. simpl t_kids. simpl set_kids. f_equal. f_equal.
  pose proof (rm_fold [id] ks) as RF. unfold foldF in RF. simpl in RF. symmetry. exact RF.
Qed.

Theorem remove_child_plain par (p c : tree) t rooted :
  NoDup (ids t) -> find par t = Some p -> In c (t_kids p) ->
  remove_child par (t_id c) false (t, rooted) = IOk ([t_id c], plain_removed (t_id c) t, rooted) /\
  restrictG false (not_id (t_id c)) (not_id (t_id c)) np_true t = Some (plain_removed (t_id c) t).
Proof.
  intros Hnd Hf Hc. destruct (find_some par t p Hf) as [Hp Epar].
  split; [|apply plain_is_restrictG; [exact Hnd | exact (child_not_root t p c Hnd Hp Hc)]].
  unfold remove_child. rewrite Hf, (existsb_child p c Hc). simpl negb. cbv iota.
  f_equal. f_equal. f_equal. unfold plain_removed, upd_below, updF.
  destruct (Z.eqb_spec (t_id t) par) as [E|Hne]; [reflexivity|].
  f_equal. apply flat_map_ext_in. intros k Hk.
  (* p lies below the seed: in exactly one child *)
  destruct t as [i x l e ks]. simpl in Hk, Hne. destruct (NoDup_ids_kids _ _ _ _ _ Hnd) as [Hks Hi].
  rewrite preorder_T in Hp. destruct Hp as [Ep|Hp]; [subst p; simpl in Epar; contradiction|].
  apply in_flat_map in Hp. destruct Hp as [k0 [Hk0 Hp]].
  assert (Hpk : In par (ids k0)) by (rewrite <- Epar; apply preorder_in_ids; exact Hp).
  assert (Hck : In (t_id c) (ids k0)).
  { apply (ids_sub_node k0 p); [exact Hp|]. apply (ids_sub_node p c); [exact (c_in_p c p Hc) | apply t_id_in_ids]. }
  destruct (Z.eqb_spec (t_id k) (t_id k0)) as [E|E].
  - assert (k = k0) by (apply (eq_dec_by_id ks); assumption). subst k. rewrite <- Epar.
    exact (local_rm p c Hc k0 (NoDup_idsF_kid _ _ Hks Hk0) Hp).
  - assert (Hne' : k <> k0) by (intro Ek; subst k; apply E; reflexivity).
    rewrite !upd_notin; [reflexivity | |].
    + intro H. apply Hne'. exact (kid_unique (t_id c) ks k k0 Hks Hk Hk0 H Hck).
    + intro H. apply Hne'. exact (kid_unique par ks k k0 Hks Hk Hk0 H Hpk).
Qed.

(* errors: the node is not in the tree / not a child of `par`: ValueError, nothing changed *)
Theorem remove_child_errors par id suppress t rooted :
  (find par t = None \/ exists p, find par t = Some p /\ existsb (fun k => Z.eqb (t_id k) id) (t_kids p) = false) ->
  remove_child par id suppress (t, rooted) = IErr EValue t.
Proof.
  intros [H|[p [H1 H2]]]; unfold remove_child; [rewrite H; reflexivity | rewrite H1, H2; reflexivity].
Qed.

(* suppressing mode = plain removal, then the local repair at the node that lost the child *)
Lemma upd_at_root f t : upd f (t_id t) t = f t.
Proof. destruct t as [i x l e ks]. simpl. rewrite Z.eqb_refl. reflexivity. Qed.

Lemma upd_T f id i x l e ks :
  upd f id (T i x l e ks) = if Z.eqb i id then f (T i x l e ks) else [T i x l e (flat_map (upd f id) ks)].
Proof. reflexivity. Qed.

Lemma upd_compose (g : tree -> list tree) (F : tree -> tree) a :
  (forall n, t_id (F n) = t_id n) ->
  forall t, upd (fun n => g (F n)) a t = updF g a (upd (fun n => [F n]) a t).
Proof.
  intro HF. induction t as [i x l e ks IH] using tree_ind'. rewrite !upd_T.
  destruct (Z.eqb_spec i a) as [E|Hne].
  - unfold updF. rewrite flat_map_single. subst a.
    pose proof (HF (T i x l e ks)) as Hid. simpl t_id in Hid. rewrite <- Hid at 2. rewrite upd_at_root. reflexivity.
  - unfold updF. rewrite flat_map_single, upd_T. destruct (Z.eqb_spec i a); [contradiction|].
    f_equal. f_equal. rewrite flat_map_flat_map. apply flat_map_ext_in. rewrite Forall_forall in IH. exact IH.
Qed.

Lemma rc_suppress_split id n : rc_suppress_f id n = splice_try (set_kids n (updF rm_f id (t_kids n))).
Proof.
  unfold rc_suppress_f, splice_try, updF. rewrite t_kids_set_kids, t_len_set_kids.
  destruct (flat_map (upd rm_f id) (t_kids n)) as [|c [|c2 r]]; reflexivity.
Qed.

Theorem remove_child_suppress par (p c : tree) t rooted :
  NoDup (ids t) -> find par t = Some p -> In c (t_kids p) ->
  remove_child par (t_id c) true (t, rooted) =
  IOk ([t_id c],
       (if Z.eqb (t_id t) par then root_absorb_try (plain_removed (t_id c) t)
        else upd_below splice_try par (plain_removed (t_id c) t)),
       rooted).
Proof.
  intros Hnd Hf Hc. destruct (find_some par t p Hf) as [Hp Epar].
  destruct (remove_child_plain par p c t rooted Hnd Hf Hc) as [Pl _].
  unfold remove_child in *. rewrite Hf, (existsb_child p c Hc) in *. simpl negb in *. cbv iota in *.
  destruct (Z.eqb_spec (t_id t) par) as [E|Hne].
  - unfold root_absorb_try, plain_removed, upd_below, updF. rewrite t_kids_set_kids.
    destruct (flat_map (upd rm_f (t_id c)) (t_kids t)) as [|a [|b [|b2 r]]]; try reflexivity.
    destruct (negb (is_leaf a)); [rewrite set_kids_set_kids; reflexivity|]. destruct (negb (is_leaf b)); [rewrite set_kids_set_kids; reflexivity | reflexivity].
  - f_equal. f_equal. f_equal. injection Pl as Pl'. rewrite <- Pl'. clear Pl'.
    unfold upd_below, updF. rewrite t_kids_set_kids, set_kids_set_kids. f_equal.
    rewrite flat_map_flat_map. apply flat_map_ext_in. intros k _.
    change (upd (rc_suppress_f (t_id c)) par k = updF splice_try par (upd (fun n => [set_kids n (flat_map (upd rm_f (t_id c)) (t_kids n))]) par k)).
    rewrite <- (upd_compose splice_try (fun n => set_kids n (flat_map (upd rm_f (t_id c)) (t_kids n))) par).
    + clear. induction k as [i x l e ks IH] using tree_ind'. rewrite !upd_T. destruct (Z.eqb i par).
      * apply rc_suppress_split.
      * f_equal. f_equal. apply flat_map_ext_in. rewrite Forall_forall in IH. exact IH.
    + intro n. apply t_id_set_kids.
Qed.
