(* C18 - translator tie: fast_birth_death_tree GENERATED from the Python source (Gen/Sim.v) refines
   the model (fbd_loop / fbd_run) through the loop invariant fbd_inv; the attribute stores
   birth_rate / death_rate of the generated code are never read (ghost state) *)
From Coq Require Import QArith ZArith Lqa List Bool Arith Lia Permutation.
From DV Require Import Model.C18Model Model.C18Prims Proofs.C18Lists Proofs.C18Tree Proofs.C18Monad
  Proofs.C18BD Proofs.C18FBD Proofs.C18GenCoal Proofs.C18GenBD Proofs.C18GenPB Proofs.C18GenTaxa
  Proofs.C18GenPrune Proofs.C18GenPruneEq Proofs.C18GenCC Proofs.C18Final Gen.Sim.
From DV Require Model.PyPrims.
Import ListNotations.
Open Scope nat_scope.

(* ---------------- reading and writing edge lengths ---------------- *)

Lemma len_of_unfold : forall x i l tx ks,
  len_of x (B i l tx ks) = if i =? x then Some l else first_val (len_of x) ks.
Proof. reflexivity. Qed.

Lemma len_of_notin : forall x t, ~ In x (ids t) -> len_of x t = None.
Proof.
  intros x. induction t as [i l tx ks IH] using btree_ind2. intros H. rewrite len_of_unfold.
  destruct (i =? x) eqn:E; [apply Nat.eqb_eq in E; exfalso; apply H; simpl; auto|].
  apply first_val_none. rewrite Forall_forall in IH. intros k Hk. apply IH; [exact Hk|].
  intro Hc. apply H. simpl. right. apply in_flat_map. eauto.
Qed.

(* nd.edge.length = f(nd.edge.length) *)
Lemma set_len_read : forall x g t, NoDup (ids t) ->
  set_len x (fun _ => g (b_len t x)) t = set_len x g t.
Proof.
  intros x g. induction t as [i l tx ks IH] using btree_ind2. intros Hn.
  destruct (in_dec Nat.eq_dec x (ids (B i l tx ks))) as [Hx|Hx]; [|rewrite !set_len_notin by exact Hx; reflexivity].
  unfold b_len. rewrite len_of_unfold. cbn [set_len].
  destruct (i =? x) eqn:E; [reflexivity|].
  apply Nat.eqb_neq in E. simpl in Hx. destruct Hx as [Hx|Hx]; [congruence|].
  destruct (NoDup_kids _ _ _ _ Hn) as [Hi Hnk].
  destruct (kids_split x ks Hnk Hx) as (l1 & k & l2 & -> & Hk & Ha & Hb).
  rewrite first_val_split by (intros k' Hk'; apply len_of_notin; apply Ha; exact Hk').
  f_equal. rewrite !map_app. cbn [map].
  assert (Hid : forall h l0, (forall k', In k' l0 -> ~ In x (ids k')) -> map (set_len x h) l0 = l0).
  { intros h l0 H0. rewrite <- (map_id l0) at 2. apply map_ext_in. intros k' Hk'. apply set_len_notin. apply H0. exact Hk'. }
  rewrite !(Hid _ l1 Ha), !(Hid _ l2 Hb). f_equal. f_equal.
  rewrite Forall_forall in IH. specialize (IH k (in_elt k l1 l2) (NoDup_kid _ k Hnk (in_elt k l1 l2))).
  unfold b_len in IH.
  destruct (len_of x k) as [q|] eqn:Eq; [exact IH|].
  (* x occurs in k: len_of finds it *)
  exfalso. clear - Hk Eq. revert Hk Eq. induction k as [j lj txj kj IHk] using btree_ind2. intros Hk Eq.
  rewrite len_of_unfold in Eq. destruct (j =? x) eqn:Ej; [discriminate|]. apply Nat.eqb_neq in Ej.
  simpl in Hk. destruct Hk as [Hk|Hk]; [congruence|]. apply in_flat_map in Hk. destruct Hk as (k' & Hk' & Hx').
  rewrite Forall_forall in IHk. apply in_split in Hk'. destruct Hk' as (m1 & m2 & ->).
  clear Ej. induction m1 as [|a m1 IHm]; cbn [app first_val fold_right] in Eq.
  - unfold first_val in Eq. cbn [fold_right] in Eq. destruct (len_of x k') eqn:E'; [discriminate|].
    apply (IHk k' (or_introl eq_refl) Hx' E').
  - unfold first_val in Eq. cbn [fold_right] in Eq. destruct (len_of x a); [discriminate|].
    apply IHm; [|exact Eq]. intros y Hy. apply IHk. right. exact Hy.
Qed.

Lemma set_len_set_kids_comm : forall x g K t, set_len x g (set_kids x K t) = set_kids x K (set_len x g t).
Proof.
  intros x g K. induction t as [i l tx ks IH] using btree_ind2. cbn [set_len set_kids].
  destruct (i =? x) eqn:E; cbn [set_len set_kids]; rewrite E; [reflexivity|].
  f_equal. rewrite !map_map. apply map_ext_Forall. exact IH.
Qed.

Lemma len_of_set_kids : forall x K t, len_of x (set_kids x K t) = len_of x t.
Proof.
  intros x K. induction t as [i l tx ks IH] using btree_ind2. cbn [set_kids].
  destruct (i =? x) eqn:E; rewrite !len_of_unfold, E; [reflexivity|].
  unfold first_val. induction ks as [|k r IHr]; [reflexivity|]. inversion IH; subst. cbn [map fold_right].
  rewrite H1, IHr by assumption. reflexivity.
Qed.

Lemma set_len_in_new_kids : forall c g nd K t, ~ In c (ids t) ->
  set_len c g (set_kids nd K t) = set_kids nd (map (set_len c g) K) t.
Proof.
  intros c g nd K. induction t as [i l tx ks IH] using btree_ind2. intros H.
  assert (Hic : i =? c = false) by (apply Nat.eqb_neq; intro; subst; apply H; simpl; auto).
  cbn [set_kids]. destruct (i =? nd) eqn:E; cbn [set_len]; rewrite Hic; [reflexivity|].
  f_equal. rewrite map_map. apply map_ext_Forall. rewrite Forall_forall in *. intros k Hk. apply IH; [exact Hk|].
  intro Hc. apply H. simpl. right. apply in_flat_map. eauto.
Qed.

(* c1 = nd.new_child(); c2 = nd.new_child(); c1.edge.length = T; c2.edge.length = T;
   nd.edge.length = T - nd.edge.length *)
Lemma gen_fast_birth_tree : forall t nd c1 c2 T, NoDup (ids t) -> In nd (leaf_ids t) ->
  ~ In c1 (ids t) -> ~ In c2 (ids t) -> c1 <> c2 ->
  let t4 := b_set_len (b_set_len (add_kid nd (bleaf c2 0) (add_kid nd (bleaf c1 0) t)) c1 T) c2 T in
  b_set_len t4 nd (T - b_len t4 nd)%Q =
  set_len nd (fun l => (T - l)%Q) (set_kids nd [bleaf c1 T; bleaf c2 T] t).
Proof.
  intros t nd c1 c2 T Hn Hnd H1 H2 H12. cbv zeta. unfold b_set_len.
  rewrite (add_kid_leaf nd _ t Hn Hnd), add_kid_set_kids. cbn [app].
  rewrite (set_len_in_new_kids c1 _ nd _ t H1). cbn [map]. rewrite (set_len_in_new_kids c2 _ nd _ t H2). cbn [map].
  unfold bleaf. cbn [set_len]. rewrite !Nat.eqb_refl.
  rewrite (proj2 (Nat.eqb_neq c2 c1)) by congruence. cbn [map set_len]. rewrite !Nat.eqb_refl.
  rewrite (proj2 (Nat.eqb_neq c1 c2)) by congruence. cbn [map].
  set (K := [B c1 T None []; B c2 T None []]).
  unfold b_len. rewrite len_of_set_kids. fold (b_len t nd).
  rewrite set_len_set_kids_comm. rewrite (set_len_read nd (fun l => (T - l)%Q) t Hn).
  rewrite <- set_len_set_kids_comm. reflexivity.
Qed.

(* for nd in extant_tips: nd.edge.length = total_time - nd.edge.length *)
Lemma fold_set_len_generic : forall (f : btree -> nat -> btree) g,
  (forall t x, NoDup (ids t) -> f t x = set_len x g t) ->
  forall L t, NoDup (ids t) -> NoDup L ->
  fold_left f L t = relabel (fun i l tx => ((if memb i L then g l else l), tx)) t.
Proof.
  intros f g Hf. induction L as [|x L IH]; intros t Hn HL; cbn [fold_left].
  - cbn [memb]. rewrite relabel_id. reflexivity.
  - inversion HL as [|? ? Hx HL']; subst. rewrite (Hf t x Hn).
    rewrite (set_len_relabel x _ t Hn).
    rewrite IH; [|rewrite relabel_ids; exact Hn|exact HL'].
    rewrite relabel_relabel. apply relabel_ext. intros i l tx _. cbn [fst snd memb].
    destruct (i =? x) eqn:E.
    + apply Nat.eqb_eq in E. subst i. rewrite (proj2 (memb_false x L) Hx). reflexivity.
    + reflexivity.
Qed.

Lemma gen_close_fold : forall T L t, NoDup (ids t) -> NoDup L ->
  fold_left (gen_fast_birth_death_tree_loop_fold1 T) L t = close_set L T t.
Proof.
  intros T L t Hn HL. rewrite close_set_relabel.
  apply (fold_set_len_generic _ (fun l => (T - l)%Q)); [|exact Hn|exact HL].
  intros t0 x Hn0. unfold gen_fast_birth_death_tree_loop_fold1. cbv beta zeta. unfold b_set_len.
  apply (set_len_read x (fun l => (T - l)%Q) t0 Hn0).
Qed.

(* ---------------- one pass of the event loop ---------------- *)

(* the carried tuple of the generated loop; br / dr = the birth_rate / death_rate attribute stores *)
Definition ftup (st : fst_) (br dr : list (nat * Q)) :=
  (f_tr st, f_time st, f_next st, f_ext st, br, dr, f_dead st).

Definition fP (b d : Q) (N : nat) : bdp := mkBdp b d 0 0 N.

Lemma bnd_if_raise {A B} (c : bool) e (m : M A) (k : A -> M B) r :
  bnd (if c then raise e else m) k r = if c then PyErr e else bnd m k r.
Proof. destruct c; reflexivity. Qed.

Theorem gen_fbd_pass : forall b d N st br dr r, fbd_inv N st ->
  if N <=? length (f_ext st)
  then gen_fast_birth_death_tree_loop_while3 b d N [0] [] [0%Q] (ftup st br dr) r =
       Done (CBreak (R := Empty_set) (ftup (fclosed st) br dr)) r
  else follows (fbd_body (fP b d N) st r)
               (gen_fast_birth_death_tree_loop_while3 b d N [0] [] [0%Q] (ftup st br dr) r)
               (fun st' r' => exists br' dr',
                  gen_fast_birth_death_tree_loop_while3 b d N [0] [] [0%Q] (ftup st br dr) r =
                  Done (CNext (R := Empty_set) (ftup st' br' dr')) r').
Proof.
  intros b d N st br dr r I.
  remember (gen_fast_birth_death_tree_loop_while3 b d N [0] [] [0%Q] (ftup st br dr) r) as Y eqn:EY.
  unfold gen_fast_birth_death_tree_loop_while3, ftup in EY. cbv beta iota in EY.
  destruct (N <=? length (f_ext st)) eqn:EN.
  - cbv zeta in EY. rewrite gen_close_fold in EY by (apply (finv_nodup _ _ I) || eapply fext_NoDup; eauto).
    exact EY.
  - cbv zeta in EY. unfold fbd_body. cbv zeta. change (p_b (fP b d N)) with b. change (p_d (fP b d N)) with d.
    unfold py_expovariate, expovariate in EY. rewrite bnd_if_raise in EY.
    destruct (Qeq_bool (inject_Z (Z.of_nat (length (f_ext st))) * (b + d)) 0) eqn:Ez; [exact EY|].
    rewrite bnd_unf in EY. rewrite bnd_unf.
    destruct (d_exp (inject_Z (Z.of_nat (length (f_ext st))) * (b + d)) r) as [w r1| | | |]; cbn [follows]; try exact EY.
    replace (Z.to_nat (Z.of_nat (length (f_ext st)) - 1)) with (length (f_ext st) - 1) in EY by lia.
    rewrite bnd_unf in EY. rewrite bnd_unf.
    destruct (d_randint 0 (length (f_ext st) - 1) r1) as [i r2| | | |]; cbn [follows]; try exact EY.
    rewrite bnd_unf in EY. rewrite bnd_unf.
    destruct (d_unit r2) as [u r3| | | |]; cbn [follows]; try exact EY.
    unfold py_index in EY.
    destruct (nth_error (f_ext st) i) as [nd|] eqn:En; [|exact EY].
    rewrite bnd_unf in EY. unfold ret at 1 in EY.
    assert (Hi : i <? length (f_ext st) = true).
    { apply Nat.ltb_lt. apply nth_error_Some. congruence. }
    assert (Hnd : In nd (f_ext st)) by (eapply nth_error_In; eauto).
    destruct (Qltb u (b / (b + d))) eqn:Eu.
    + (* birth *)
      unfold py_new_child in EY. cbv beta iota zeta in EY. unfold py_list_set in EY. rewrite Hi in EY.
      unfold bnd, ret in EY. cbn [follows]. unfold ret. do 2 eexists. rewrite EY. unfold ftup.
      cbn [f_tr f_time f_next f_ext f_dead].
      assert (Hfresh : forall c, f_next st <= c -> ~ In c (ids (f_tr st))).
      { intros c Hc Hin. apply (finv_fresh _ _ I) in Hin. lia. }
      rewrite (gen_fast_birth_tree (f_tr st) nd (f_next st) (S (f_next st)) (f_time st + w)%Q (finv_nodup _ _ I)).
      * reflexivity.
      * apply (finv_leaves _ _ I). left. exact Hnd.
      * apply Hfresh. lia.
      * apply Hfresh. lia.
      * lia.
    + (* death *)
      unfold py_list_del in EY. rewrite Hi in EY. unfold bnd at 1 in EY. unfold ret at 1 in EY.
      destruct (remove_nth i (f_ext st)) as [|e1 er].
      * cbn [length Nat.ltb Nat.leb] in EY. cbn [py_forM] in EY.
        unfold gen_fast_birth_death_tree_loop_forM2 in EY. cbv beta iota zeta in EY.
        unfold py_index in EY. cbn [nth_error] in EY. unfold bnd, ret in EY.
        cbn [follows]. unfold ret. do 2 eexists. rewrite EY. reflexivity.
      * cbn [length Nat.ltb Nat.leb] in EY. unfold ret in EY.
        cbn [follows]. unfold ret. do 2 eexists. rewrite EY. reflexivity.
Qed.

(* ---------------- the whole event loop ---------------- *)

Theorem gen_fbd_loop : forall f b d N st br dr r, 1 <= N -> fbd_inv N st -> left_ r < f ->
  follows (fbd_loop f (fP b d N) st r)
          (py_while (S f) (gen_fast_birth_death_tree_loop_while3 b d N [0] [] [0%Q]) (ftup st br dr) r)
          (fun st' r' => exists br' dr',
             py_while (S f) (gen_fast_birth_death_tree_loop_while3 b d N [0] [] [0%Q]) (ftup st br dr) r =
             Done (CNext (R := Empty_set) (ftup st' br' dr')) r').
Proof.
  induction f as [|f IH]; intros b d N st br dr r HN I Hl; [lia|].
  rewrite py_while_S. rewrite bnd_unf. pose proof (gen_fbd_pass b d N st br dr r I) as Hp.
  cbn [fbd_loop]. change (p_n (fP b d N)) with N.
  destruct (N <=? length (f_ext st)) eqn:EN.
  - rewrite Hp. cbn [follows]. exists br, dr. reflexivity.
  - rewrite bnd_unf.
    destruct (fbd_body (fP b d N) st r) as [st' r'| | | |] eqn:Eb; cbn [follows] in *; try (rewrite Hp; reflexivity).
    destruct Hp as (br' & dr' & Hp). rewrite Hp.
    apply Nat.leb_gt in EN.
    destruct (fbd_body_shape _ _ _ _ _ Eb) as (T & i & nd & Hn & Hnx & Hlt).
    apply IH; [exact HN| |lia].
    eapply fbd_next_inv; eauto.
Qed.

Definition fbd_loop_result (st : fst_) (br dr : list (nat * Q)) :=
  (f_tr st, f_ext st, f_dead st, br, dr, f_next st, f_time st).

Theorem gen_fast_birth_death_tree_loop_refines : forall b d N ns r, 1 <= N ->
  follows (fbd_loop (S (length (fst r))) (fP b d N) fbd_init r)
          (gen_fast_birth_death_tree_loop b d N ns r)
          (fun st' r' => exists br dr,
             gen_fast_birth_death_tree_loop b d N ns r = Done (fbd_loop_result st' br dr) r').
Proof.
  intros b d N ns r HN. unfold gen_fast_birth_death_tree_loop. cbv zeta.
  change (b_set_len py_tree_new (b_id py_tree_new) 0%Q) with (bleaf 0 0%Q).
  change (b_id (bleaf 0 0%Q)) with 0.
  cbn [fold_left]. unfold gen_fast_birth_death_tree_loop_fold4. cbv beta zeta.
  change (b_len (bleaf 0 0) 0) with 0%Q. cbn [app].
  unfold py_while_script. rewrite bnd_unf.
  pose proof (gen_fbd_loop (S (length (fst r))) b d N fbd_init (b_set_rate [] 0 b) (b_set_rate [] 0 d) r HN
                (fbd_init_inv N HN)) as L.
  unfold ftup, fbd_init in L. cbn [f_tr f_time f_next f_ext f_dead] in L. fold fbd_init in L.
  specialize (L ltac:(unfold left_; lia)).
  destruct (fbd_loop (S (length (fst r))) (fP b d N) fbd_init r) as [st' r'| | | |]; cbn [follows] in *;
    try (rewrite L; reflexivity).
  destruct L as (br' & dr' & L). rewrite L. exists br', dr'. reflexivity.
Qed.

(* ---------------- pruning and taxon assignment: the same statements as in birth_death_tree ---------------- *)

Lemma gen_fast_prune_same : forall t dead, gen_fast_birth_death_tree_prune t dead = gen_birth_death_tree_prune t dead.
Proof. reflexivity. Qed.

Lemma gen_fast_taxa_same : forall t ns, gen_fast_birth_death_tree_taxa t ns = gen_birth_death_tree_taxa t ns.
Proof. reflexivity. Qed.

(* the three translated parts of fast_birth_death_tree in source order *)
Definition gen_fast_birth_death_tree_whole (b d : Q) (N : nat) (ns : list lab) : M (btree * list lab) :=
  bnd (gen_fast_birth_death_tree_loop b d N ns)
      (fun s => let '(tr, _, dead, _, _, _, _) := s in
                bnd (gen_fast_birth_death_tree_prune tr dead) (fun t1 => gen_fast_birth_death_tree_taxa t1 ns)).

Theorem gen_fast_birth_death_tree_whole_eq : forall cs b d N ns r, 1 <= N ->
  gen_fast_birth_death_tree_whole b d N ns r = fbd_run true cs (fP b d N) ns r.
Proof.
  intros cs b d N ns r HN. unfold gen_fast_birth_death_tree_whole, fbd_run. rewrite !bnd_unf.
  pose proof (gen_fast_birth_death_tree_loop_refines b d N ns r HN) as L.
  destruct (fbd_loop (S (length (fst r))) (fP b d N) fbd_init r) as [st' r1| | | |] eqn:El; cbn [follows] in L;
    try (rewrite L; reflexivity).
  destruct L as (br & dr & L). rewrite L. unfold fbd_loop_result. cbv beta iota.
  destruct (fbd_loop_inv _ (fP b d N) _ _ _ _ HN (fbd_init_inv N HN) El) as (st0 & I0 & L0 & ->).
  pose proof (fclosed_bd_inv N st0 I0) as IB.
  pose proof (inv_nodup _ _ IB) as Hn. pose proof (inv_leaves _ _ IB) as Hlv. cbn [s_tr s_ext s_dead] in Hn, Hlv.
  assert (Ed : f_dead (fclosed st0) = f_dead st0) by reflexivity.
  rewrite gen_fast_prune_same. rewrite !bnd_unf. rewrite gen_birth_death_tree_prune_eq.
  2:{ exact Hn. }
  2:{ intros x Hx. apply Hlv. right. rewrite Ed in Hx. exact Hx. }
  destruct (prune_all (f_dead (fclosed st0)) [] (f_tr (fclosed st0)) r1) as [t1 r2| | | |] eqn:Ep; try reflexivity.
  destruct (prune_all_spec _ _ _ _ _ _ Ep Hn) as (_ & N1 & _).
  { intros x Hx. apply leaf_not_inner; [exact Hn|]. apply Hlv. right. rewrite Ed in Hx. exact Hx. }
  { intros p []. }
  rewrite gen_fast_taxa_same. apply gen_birth_death_tree_taxa_eq. exact N1.
Qed.

(* hence the specification of fast_birth_death_tree holds of the translated code *)
Theorem gen_fbd_result_spec : forall (cs : bool) b d N (ns : list lab) (script : list draw)
                                     (t : btree) (ns' : list lab) (r : rs),
  1 <= N ->
  gen_fast_birth_death_tree_whole b d N ns (script, []) = Done (t, ns') r ->
  length (leaf_ids t) = N /\
  (forall s, In s (subtrees t) -> length (b_kids s) = 0 \/ length (b_kids s) = 2) /\
  NoDup (ids t) /\
  (exists D, forall x q, In (x, q) (depths t) -> q == D)%Q /\
  (forall x, In x (leaf_taxa t) -> exists i, x = Some i /\ i < length ns') /\
  NoDup (leaf_taxa t) /\
  (exists extra, ns' = ns ++ extra).
Proof.
  intros cs b d N ns script t ns' r HN H.
  rewrite (gen_fast_birth_death_tree_whole_eq cs) in H by exact HN.
  exact (fbd_result_spec_full cs (fP b d N) ns script t ns' r HN H).
Qed.
