(* C04: generic lemmas about the insertion-ordered dictionaries, duplicate-free lists and sums used
   by Model/C04Model.v *)
From Coq Require Import ZArith List Bool Lia Permutation.
From DV Require Import Model.PyPrims Model.Tree Model.C04Model.
Import ListNotations.
Open Scope Z_scope.

(* ------------------------------------------------------------------------------------------ *)
(* membership *)

Lemma memz_In x l : memz x l = true <-> In x l.
Proof.
  unfold memz. rewrite existsb_exists. split.
  - intros [y [Hy E]]. apply Z.eqb_eq in E. subst. exact Hy.
  - intro H. exists x. split; [exact H | apply Z.eqb_refl].
Qed.

Lemma memz_false x l : memz x l = false <-> ~ In x l.
Proof.
  rewrite <- memz_In. destruct (memz x l); split; intro H; try reflexivity; try discriminate.
  exfalso. apply H. reflexivity.
Qed.

Lemma dedup_In x l : In x (dedup l) <-> In x l.
Proof.
  induction l as [|y r IH]; simpl; [tauto|].
  destruct (memz y r) eqn:E.
  - rewrite IH. apply memz_In in E. split; [tauto|]. intros [->|H]; tauto.
  - simpl. rewrite IH. tauto.
Qed.

Lemma dedup_NoDup l : NoDup (dedup l).
Proof.
  induction l as [|y r IH]; simpl; [constructor|].
  destruct (memz y r) eqn:E; [exact IH|].
  constructor; [|exact IH]. rewrite dedup_In. apply memz_false. exact E.
Qed.

Lemma dedup_id l : NoDup l -> dedup l = l.
Proof.
  induction 1 as [|x r Hx Hr IH]; simpl; [reflexivity|].
  apply memz_false in Hx. rewrite Hx, IH. reflexivity.
Qed.

(* ------------------------------------------------------------------------------------------ *)
(* cardinalities of duplicate-free lists *)

Lemma filter_ext_In' {A} (f g : A -> bool) l :
  (forall x, In x l -> f x = g x) -> filter f l = filter g l.
Proof.
  induction l as [|x r IH]; simpl; intro H; [reflexivity|].
  rewrite (H x (or_introl eq_refl)), IH; [reflexivity|]. intros y Hy. apply H. right. exact Hy.
Qed.

Lemma NoDup_filter {A} (f : A -> bool) l : NoDup l -> NoDup (filter f l).
Proof.
  induction 1 as [|x r Hx Hr IH]; simpl; [constructor|].
  destruct (f x); [|exact IH]. constructor; [|exact IH]. rewrite filter_In. tauto.
Qed.

(* two duplicate-free enumerations of the same set have the same length *)
Lemma NoDup_same_length {A} (l1 l2 : list A) :
  NoDup l1 -> NoDup l2 -> (forall x, In x l1 <-> In x l2) -> length l1 = length l2.
Proof.
  intros H1 H2 H. apply Nat.le_antisymm; apply NoDup_incl_length; try assumption;
    intros x Hx; apply H; exact Hx.
Qed.

(* len(set(a) - set(b)) for any duplicate-free enumerations A, B of the two sets *)
Lemma diff_count_spec a b A B :
  NoDup A -> (forall x, In x A <-> In x a) -> (forall x, In x B <-> In x b) ->
  diff_count a b = Z.of_nat (length (filter (fun x => negb (memz x B)) A)).
Proof.
  intros HA Ha Hb. unfold diff_count. f_equal.
  apply NoDup_same_length.
  - apply NoDup_filter, dedup_NoDup.
  - apply NoDup_filter, HA.
  - intro x. rewrite !filter_In, dedup_In, Ha.
    assert (E : memz x b = memz x B).
    { destruct (memz x b) eqn:E1, (memz x B) eqn:E2; try reflexivity.
      - apply memz_In in E1. apply memz_false in E2. exfalso. apply E2, Hb, E1.
      - apply memz_In in E2. apply memz_false in E1. exfalso. apply E1, Hb, E2. }
    rewrite E. tauto.
Qed.

(* ------------------------------------------------------------------------------------------ *)
(* sums over lists *)

Definition zsum (l : list Z) : Z := fold_right Z.add 0 l.

Lemma zsum_app a b : zsum (a ++ b) = zsum a + zsum b.
Proof. induction a as [|x r IH]; simpl; [reflexivity|]. unfold zsum in *. simpl. rewrite IH. lia. Qed.

Lemma zsum_perm a b : Permutation a b -> zsum a = zsum b.
Proof. induction 1; unfold zsum in *; simpl; lia. Qed.

Lemma zsum_map_ext {A} (f g : A -> Z) l :
  (forall x, In x l -> f x = g x) -> zsum (map f l) = zsum (map g l).
Proof.
  induction l as [|x r IH]; simpl; intro H; [reflexivity|]. unfold zsum in *. simpl.
  rewrite (H x (or_introl eq_refl)), IH; [reflexivity|]. intros y Hy. apply H. right. exact Hy.
Qed.

Lemma zsum_map_zero {A} (f : A -> Z) l : (forall x, In x l -> f x = 0) -> zsum (map f l) = 0.
Proof.
  induction l as [|x r IH]; simpl; intro H; [reflexivity|]. unfold zsum in *. simpl.
  rewrite (H x (or_introl eq_refl)), IH; [reflexivity|]. intros y Hy. apply H. right. exact Hy.
Qed.

Lemma zsum_map_add {A} (f g : A -> Z) l :
  zsum (map (fun x => f x + g x) l) = zsum (map f l) + zsum (map g l).
Proof. induction l as [|x r IH]; unfold zsum in *; simpl; lia. Qed.

Lemma zsum_map_le {A} (f g : A -> Z) l :
  (forall x, In x l -> f x <= g x) -> zsum (map f l) <= zsum (map g l).
Proof.
  induction l as [|x r IH]; simpl; intro H; [lia|]. unfold zsum in *. simpl.
  specialize (H x (or_introl eq_refl)) as H0.
  assert (H1 : forall y, In y r -> f y <= g y) by (intros y Hy; apply H; right; exact Hy).
  specialize (IH H1). lia.
Qed.

Lemma zsum_map_nonneg {A} (f : A -> Z) l : (forall x, 0 <= f x) -> 0 <= zsum (map f l).
Proof. intro H. induction l as [|x r IH]; unfold zsum in *; simpl; [lia|]. specialize (H x). lia. Qed.

Lemma zsum_filter_split {A} (f : A -> Z) (p : A -> bool) l :
  zsum (map f l) = zsum (map f (filter p l)) + zsum (map f (filter (fun x => negb (p x)) l)).
Proof.
  induction l as [|x r IH]; simpl; [reflexivity|]. unfold zsum in *.
  destruct (p x); simpl; lia.
Qed.

(* a sum over a duplicate-free U of a function vanishing outside the duplicate-free K (K within U)
   is the sum over K *)
Lemma zsum_support (f : Z -> Z) (K U : list Z) :
  NoDup K -> NoDup U -> incl K U -> (forall x, In x U -> ~ In x K -> f x = 0) ->
  zsum (map f U) = zsum (map f K).
Proof.
  intros HK HU Hin H0.
  rewrite (zsum_filter_split f (fun x => memz x K) U).
  rewrite (zsum_map_zero f (filter (fun x => negb (memz x K)) U)).
  - rewrite Z.add_0_r. apply zsum_perm, Permutation_map, NoDup_Permutation.
    + apply NoDup_filter, HU.
    + exact HK.
    + intro x. rewrite filter_In, memz_In. split; [tauto|]. intro Hx. split; [apply Hin, Hx | exact Hx].
  - intros x Hx. apply filter_In in Hx. destruct Hx as [Hx Hm]. apply H0; [exact Hx|].
    apply memz_false. destruct (memz x K); [discriminate | reflexivity].
Qed.

(* ------------------------------------------------------------------------------------------ *)
(* dictionaries *)

Definition keys {V} (l : list (Z * V)) : list Z := map fst l.
Definition mapv {V W} (f : V -> W) (l : list (Z * V)) : list (Z * W) := map (fun kv => (fst kv, f (snd kv))) l.

Lemma keys_mapv {V W} (f : V -> W) l : keys (mapv f l) = keys l.
Proof. unfold keys, mapv. rewrite map_map. reflexivity. Qed.

Lemma zlookup_app {V} k (l1 l2 : list (Z * V)) :
  zlookup k (l1 ++ l2) = match zlookup k l1 with Some v => Some v | None => zlookup k l2 end.
Proof.
  induction l1 as [|[k' v] r IH]; simpl; [reflexivity|]. destruct (Z.eqb k k'); [reflexivity | exact IH].
Qed.

Lemma zlookup_In {V} k (l : list (Z * V)) v : zlookup k l = Some v -> In (k, v) l.
Proof.
  induction l as [|[k' v'] r IH]; simpl; [discriminate|].
  destruct (Z.eqb k k') eqn:E.
  - intro H. inversion H; subst. apply Z.eqb_eq in E. subst. left. reflexivity.
  - intro H. right. apply IH, H.
Qed.

Lemma zlookup_None {V} k (l : list (Z * V)) : zlookup k l = None <-> ~ In k (keys l).
Proof.
  induction l as [|[k' v'] r IH]; simpl; [tauto|].
  destruct (Z.eqb k k') eqn:E.
  - apply Z.eqb_eq in E. subst. split; [discriminate|]. intro H. exfalso. apply H. left. reflexivity.
  - apply Z.eqb_neq in E. rewrite IH. split; intro H; [intros [H1|H1]; [congruence|tauto] | tauto].
Qed.

Lemma zlookup_Some_key {V} k (l : list (Z * V)) v : zlookup k l = Some v -> In k (keys l).
Proof. intro H. apply zlookup_In in H. unfold keys. apply in_map_iff. exists (k, v). split; [reflexivity | exact H]. Qed.

Lemma zlookup_nodup {V} k v (l : list (Z * V)) : NoDup (keys l) -> In (k, v) l -> zlookup k l = Some v.
Proof.
  induction l as [|[k' v'] r IH]; simpl; intros Hn Hin; [contradiction|].
  inversion Hn as [|? ? Hk Hr]; subst.
  destruct Hin as [E|Hin].
  - inversion E; subst. rewrite Z.eqb_refl. reflexivity.
  - destruct (Z.eqb k k') eqn:E.
    + apply Z.eqb_eq in E. subst. exfalso. apply Hk. unfold keys. apply in_map_iff. exists (k', v). split; [reflexivity|exact Hin].
    + apply IH; assumption.
Qed.

Lemma zlookup_mapv {V W} (f : V -> W) k l : zlookup k (mapv f l) = option_map f (zlookup k l).
Proof.
  induction l as [|[k' v'] r IH]; simpl; [reflexivity|]. destruct (Z.eqb k k'); [reflexivity | exact IH].
Qed.

Lemma keys_dict_set {V} k (v : V) l :
  keys (dict_set k v l) = if memz k (keys l) then keys l else keys l ++ [k].
Proof.
  induction l as [|[k' v'] r IH]; simpl; [reflexivity|].
  destruct (Z.eqb k k') eqn:E; simpl; [reflexivity|].
  rewrite IH. unfold memz. destruct (existsb (Z.eqb k) (keys r)); reflexivity.
Qed.

Lemma NoDup_snoc {A} (l : list A) x : NoDup l -> ~ In x l -> NoDup (l ++ [x]).
Proof.
  induction l as [|y r IH]; simpl; intros H Hx.
  - constructor; [intros []|constructor].
  - inversion H as [|? ? Hy Hr]; subst. constructor.
    + rewrite in_app_iff. simpl. intros [H1|[H1|[]]]; [tauto|]. subst. apply Hx. left. reflexivity.
    + apply IH; [exact Hr|]. intro H1. apply Hx. right. exact H1.
Qed.

Lemma dict_set_nodup {V} k (v : V) l : NoDup (keys l) -> NoDup (keys (dict_set k v l)).
Proof.
  intro H. rewrite keys_dict_set. destruct (memz k (keys l)) eqn:E; [exact H|].
  apply NoDup_snoc; [exact H|]. apply memz_false. exact E.
Qed.

Lemma zlookup_dict_set {V} k (v : V) l k' :
  zlookup k' (dict_set k v l) = if Z.eqb k' k then Some v else zlookup k' l.
Proof.
  induction l as [|[k0 v0] r IH]; simpl.
  - destruct (Z.eqb k' k); reflexivity.
  - destruct (Z.eqb k k0) eqn:E; simpl.
    + apply Z.eqb_eq in E. subst. destruct (Z.eqb k' k0); reflexivity.
    + rewrite IH. destruct (Z.eqb k' k0) eqn:E2; [|reflexivity].
      apply Z.eqb_eq in E2. subst. rewrite Z.eqb_sym, E. reflexivity.
Qed.

Lemma dict_set_mapv {V W} (f : V -> W) k v l : dict_set k (f v) (mapv f l) = mapv f (dict_set k v l).
Proof.
  induction l as [|[k0 v0] r IH]; simpl; [reflexivity|].
  destruct (Z.eqb k k0); simpl; [reflexivity|]. rewrite IH. reflexivity.
Qed.

Lemma fold_dict_nodup {V} (l d : list (Z * V)) :
  NoDup (keys d) -> NoDup (keys (fold_left (fun d kv => dict_set (fst kv) (snd kv) d) l d)).
Proof.
  revert d. induction l as [|[k v] r IH]; simpl; intros d H; [exact H|]. apply IH, dict_set_nodup, H.
Qed.

Lemma dict_of_nodup {V} (l : list (Z * V)) : NoDup (keys (dict_of l)).
Proof. apply fold_dict_nodup. constructor. Qed.

Lemma fold_dict_mapv {V W} (f : V -> W) l d :
  fold_left (fun d kv => dict_set (fst kv) (snd kv) d) (mapv f l) (mapv f d)
  = mapv f (fold_left (fun d kv => dict_set (fst kv) (snd kv) d) l d).
Proof.
  revert d. induction l as [|[k v] r IH]; simpl; intro d; [reflexivity|].
  rewrite dict_set_mapv. apply IH.
Qed.

Lemma dict_of_mapv {V W} (f : V -> W) l : dict_of (mapv f l) = mapv f (dict_of l).
Proof. unfold dict_of. apply (fold_dict_mapv f l []). Qed.

Lemma dict_set_fresh {V} k (v : V) l : ~ In k (keys l) -> dict_set k v l = l ++ [(k, v)].
Proof.
  induction l as [|[k0 v0] r IH]; simpl; intro H; [reflexivity|].
  destruct (Z.eqb k k0) eqn:E.
  - apply Z.eqb_eq in E. subst. exfalso. apply H. left. reflexivity.
  - rewrite IH; [reflexivity|]. intro H1. apply H. right. exact H1.
Qed.

Lemma fold_dict_id {V} (l d : list (Z * V)) :
  NoDup (keys d ++ keys l) -> fold_left (fun d kv => dict_set (fst kv) (snd kv) d) l d = d ++ l.
Proof.
  revert d. induction l as [|[k v] r IH]; simpl; intros d H; [rewrite app_nil_r; reflexivity|].
  rewrite dict_set_fresh.
  - rewrite IH.
    + rewrite <- app_assoc. reflexivity.
    + unfold keys in *. rewrite map_app. simpl. rewrite <- app_assoc. exact H.
  - apply NoDup_remove_2 in H. intro H1. apply H. apply in_or_app. left. exact H1.
Qed.

(* a duplicate-free list of bindings is its own dictionary *)
Lemma dict_of_id {V} (l : list (Z * V)) : NoDup (keys l) -> dict_of l = l.
Proof. intro H. unfold dict_of. rewrite fold_dict_id; [reflexivity | exact H]. Qed.

Lemma fold_dict_keys {V} (l d : list (Z * V)) k :
  In k (keys (fold_left (fun d kv => dict_set (fst kv) (snd kv) d) l d)) <-> In k (keys d) \/ In k (keys l).
Proof.
  revert d. induction l as [|[k0 v0] r IH]; simpl; intro d; [tauto|].
  rewrite IH, keys_dict_set. destruct (memz k0 (keys d)) eqn:E.
  - apply memz_In in E. split; [tauto|]. intros [H|[H|H]]; try tauto. subst. tauto.
  - rewrite in_app_iff. simpl. tauto.
Qed.

Lemma dict_of_keys {V} (l : list (Z * V)) k : In k (keys (dict_of l)) <-> In k (keys l).
Proof. unfold dict_of. rewrite fold_dict_keys. simpl. tauto. Qed.

(* dict_remove / dict_pop *)
Lemma zlookup_dict_remove {V} k (l : list (Z * V)) k' :
  NoDup (keys l) -> zlookup k' (dict_remove k l) = if Z.eqb k' k then None else zlookup k' l.
Proof.
  induction l as [|[k0 v0] r IH]; simpl; intro H.
  - destruct (Z.eqb k' k); reflexivity.
  - inversion H as [|? ? Hk Hr]; subst. destruct (Z.eqb k k0) eqn:E.
    + apply Z.eqb_eq in E. subst. destruct (Z.eqb k' k0) eqn:E2; [|reflexivity].
      apply Z.eqb_eq in E2. subst. apply zlookup_None. exact Hk.
    + simpl. rewrite IH by exact Hr. destruct (Z.eqb k' k0) eqn:E2; [|reflexivity].
      apply Z.eqb_eq in E2. subst. rewrite Z.eqb_sym, E. reflexivity.
Qed.

Lemma keys_dict_remove_In {V} k (l : list (Z * V)) k' :
  In k' (keys (dict_remove k l)) -> In k' (keys l).
Proof.
  induction l as [|[k0 v0] r IH]; simpl; [tauto|].
  destruct (Z.eqb k k0); simpl; [tauto|]. intros [H|H]; [tauto|]. right. apply IH, H.
Qed.

Lemma dict_remove_In {V} k (l : list (Z * V)) x : In x (dict_remove k l) -> In x l.
Proof.
  induction l as [|[k0 v0] r IH]; simpl; [tauto|].
  destruct (Z.eqb k k0); simpl; [tauto|]. intros [H|H]; [tauto|]. right. apply IH, H.
Qed.

Lemma dict_remove_nodup {V} k (l : list (Z * V)) : NoDup (keys l) -> NoDup (keys (dict_remove k l)).
Proof.
  induction l as [|[k0 v0] r IH]; simpl; intro H; [constructor|].
  inversion H as [|? ? Hk Hr]; subst. destruct (Z.eqb k k0); [exact Hr|].
  simpl. constructor; [|apply IH, Hr]. intro H1. apply Hk. eapply keys_dict_remove_In, H1.
Qed.

Lemma keys_dict_remove {V} k (l : list (Z * V)) k' :
  NoDup (keys l) -> (In k' (keys (dict_remove k l)) <-> In k' (keys l) /\ k' <> k).
Proof.
  intro H. split.
  - intro H1. split; [eapply keys_dict_remove_In, H1|]. intro E. subst.
    destruct (zlookup k (dict_remove k l)) eqn:E1.
    + rewrite zlookup_dict_remove, Z.eqb_refl in E1 by exact H. discriminate.
    + apply zlookup_None in E1. tauto.
  - intros [H1 H2]. destruct (zlookup k' (dict_remove k l)) eqn:E1.
    + eapply zlookup_Some_key, E1.
    + rewrite zlookup_dict_remove in E1 by exact H. apply Z.eqb_neq in H2. rewrite H2 in E1.
      apply zlookup_None in E1. tauto.
Qed.

Lemma dict_remove_mapv {V W} (f : V -> W) k l : dict_remove k (mapv f l) = mapv f (dict_remove k l).
Proof.
  induction l as [|[k0 v0] r IH]; simpl; [reflexivity|].
  destruct (Z.eqb k k0); simpl; [reflexivity|]. rewrite IH. reflexivity.
Qed.

Lemma dict_pop_mapv {V W} (f : V -> W) k l :
  dict_pop k (mapv f l) = option_map (fun x => (f (fst x), mapv f (snd x))) (dict_pop k l).
Proof.
  unfold dict_pop. rewrite zlookup_mapv. destruct (zlookup k l); simpl; [|reflexivity].
  rewrite dict_remove_mapv. reflexivity.
Qed.
