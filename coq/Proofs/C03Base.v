(* C03 proofs, base layer: finite-map lemmas for Model/Heap.v, the representation predicate
   `rep` (heap cells = rose tree), frame rule, one-hole contexts, the invariant WF. *)
From Coq Require Import ZArith List Bool Lia Permutation.
From DV Require Import Model.PyPrims Model.Tree Model.Heap.
Import ListNotations.
Open Scope Z_scope.

(* ---------- association list ---------- *)

Lemma alookup_aupd k v m k' :
  alookup k' (aupd k v m) = if Z.eqb k' k then Some v else alookup k' m.
Proof.
  induction m as [|[a b] r IH]; simpl.
  - destruct (Z.eqb k' k); reflexivity.
  - destruct (Z.eqb k a) eqn:E1; simpl.
    + apply Z.eqb_eq in E1. subst a. destruct (Z.eqb k' k); reflexivity.
    + destruct (Z.eqb k' a) eqn:E2.
      * apply Z.eqb_eq in E2. subst a.
        rewrite Z.eqb_sym in E1. rewrite E1. reflexivity.
      * exact IH.
Qed.

Lemma aupd_length_le k v m : (length m <= length (aupd k v m))%nat.
Proof.
  induction m as [|[a b] r IH]; simpl; [lia|]. destruct (Z.eqb k a); simpl; lia.
Qed.

Lemma alookup_in k m c : alookup k m = Some c -> In k (map fst m).
Proof.
  induction m as [|[a b] r IH]; simpl; [discriminate|].
  destruct (Z.eqb k a) eqn:E; intro H.
  - left. apply Z.eqb_eq in E. auto.
  - right. auto.
Qed.

(* ---------- get / set ---------- *)

Lemma get_upd_cell i f h j :
  get (upd_cell i f h) j = if Z.eqb j i then f (get h i) else get h j.
Proof.
  unfold get, upd_cell; simpl. rewrite alookup_aupd. destruct (Z.eqb j i); reflexivity.
Qed.

Lemma has_upd_cell i f h j : has (upd_cell i f h) j = Z.eqb j i || has h j.
Proof.
  unfold has, upd_cell; simpl. rewrite alookup_aupd. destruct (Z.eqb j i); reflexivity.
Qed.

Lemma get_alloc x l e h j :
  get (alloc x l e h) j = if Z.eqb j (next h) then mkCell None [] e x l else get h j.
Proof.
  unfold get, alloc; simpl. rewrite alookup_aupd. destruct (Z.eqb j (next h)); reflexivity.
Qed.

Lemma has_alloc x l e h j : has (alloc x l e h) j = Z.eqb j (next h) || has h j.
Proof.
  unfold has, alloc; simpl. rewrite alookup_aupd. destruct (Z.eqb j (next h)); reflexivity.
Qed.

Lemma get_set_parent i v h j :
  get (set_parent i v h) j =
  if Z.eqb j i then mkCell v (kids h i) (elen h i) (taxon h i) (label h i) else get h j.
Proof. unfold set_parent. rewrite get_upd_cell. reflexivity. Qed.

Lemma get_set_kids i v h j :
  get (set_kids i v h) j =
  if Z.eqb j i then mkCell (parent h i) v (elen h i) (taxon h i) (label h i) else get h j.
Proof. unfold set_kids. rewrite get_upd_cell. reflexivity. Qed.

Lemma get_set_elen i v h j :
  get (set_elen i v h) j =
  if Z.eqb j i then mkCell (parent h i) (kids h i) v (taxon h i) (label h i) else get h j.
Proof. unfold set_elen. rewrite get_upd_cell. reflexivity. Qed.

Lemma get_set_taxon i v h j :
  get (set_taxon i v h) j =
  if Z.eqb j i then mkCell (parent h i) (kids h i) (elen h i) v (label h i) else get h j.
Proof. unfold set_taxon. rewrite get_upd_cell. reflexivity. Qed.

Lemma get_set_seed i h j : get (set_seed i h) j = get h j.
Proof. reflexivity. Qed.
Lemma get_set_rooted r h j : get (set_rooted r h) j = get h j.
Proof. reflexivity. Qed.

Lemma has_set_parent i v h j : has (set_parent i v h) j = Z.eqb j i || has h j.
Proof. apply has_upd_cell. Qed.
Lemma has_set_kids i v h j : has (set_kids i v h) j = Z.eqb j i || has h j.
Proof. apply has_upd_cell. Qed.
Lemma has_set_elen i v h j : has (set_elen i v h) j = Z.eqb j i || has h j.
Proof. apply has_upd_cell. Qed.
Lemma has_set_taxon i v h j : has (set_taxon i v h) j = Z.eqb j i || has h j.
Proof. apply has_upd_cell. Qed.
Lemma has_set_seed i h j : has (set_seed i h) j = has h j.
Proof. reflexivity. Qed.
Lemma has_set_rooted r h j : has (set_rooted r h) j = has h j.
Proof. reflexivity. Qed.

(* a cell record is its five projections *)
Lemma cell_eta c : c = mkCell (c_parent c) (c_kids c) (c_elen c) (c_taxon c) (c_label c).
Proof. destruct c; reflexivity. Qed.

Lemma get_eta h i : get h i = mkCell (parent h i) (kids h i) (elen h i) (taxon h i) (label h i).
Proof. apply cell_eta. Qed.

(* `h' ~ h off S`: every cell outside S is untouched and no cell disappears *)
Definition same_off (S : list Z) (h h' : heap) : Prop :=
  forall j, ~ In j S -> get h' j = get h j.
Definition grows (h h' : heap) : Prop :=
  (forall j, has h j = true -> has h' j = true) /\ next h <= next h'.

Lemma same_off_refl S h : same_off S h h.
Proof. intros j _. reflexivity. Qed.
Lemma grows_refl h : grows h h.
Proof. split; [auto|lia]. Qed.
Lemma grows_trans a b c : grows a b -> grows b c -> grows a c.
Proof. intros [A1 A2] [B1 B2]. split; [auto|lia]. Qed.
Lemma same_off_trans S a b c : same_off S a b -> same_off S b c -> same_off S a c.
Proof. intros A B j Hj. rewrite (B j Hj). apply A, Hj. Qed.
Lemma same_off_weaken S S' a b : (forall j, In j S -> In j S') -> same_off S a b -> same_off S' a b.
Proof. intros I A j Hj. apply A. intro. apply Hj. auto. Qed.

Lemma grows_upd_cell i f h : grows h (upd_cell i f h).
Proof. split; [|simpl; lia]. intros j H. rewrite has_upd_cell, H. apply orb_true_r. Qed.
Lemma same_off_upd_cell i f h : same_off [i] h (upd_cell i f h).
Proof.
  intros j Hj. rewrite get_upd_cell. destruct (Z.eqb j i) eqn:E; [|reflexivity].
  apply Z.eqb_eq in E. subst. exfalso. apply Hj. left. reflexivity.
Qed.

(* ---------- lists ---------- *)

Lemma memz_In x l : memz x l = true <-> In x l.
Proof.
  unfold memz. rewrite existsb_exists. split.
  - intros [y [Hy E]]. apply Z.eqb_eq in E. subst. exact Hy.
  - intro H. exists x. split; [exact H|apply Z.eqb_refl].
Qed.

Lemma memz_false x l : memz x l = false <-> ~ In x l.
Proof.
  split; intro H.
  - intro HI. apply memz_In in HI. congruence.
  - destruct (memz x l) eqn:E; [|reflexivity]. exfalso. apply H. apply memz_In. exact E.
Qed.

Lemma NoDup_app_iff {A} (a b : list A) :
  NoDup (a ++ b) <-> NoDup a /\ NoDup b /\ (forall x, In x a -> In x b -> False).
Proof.
  induction a as [|x r IH]; simpl.
  - split; [intro H; repeat split; [constructor|exact H|intros ? []]|intros [_ [H _]]; exact H].
  - rewrite !NoDup_cons_iff, IH, in_app_iff. split.
    + intros [N [Na [Nb D]]]. repeat split; auto.
      intros y [->|Hy] Hb; [apply N; auto|eapply D; eauto].
    + intros [[N Na] [Nb D]]. repeat split; auto.
      * intros [H|H]; [auto|eapply D; eauto].
      * intros y Hy Hb. eapply D; eauto.
Qed.

Lemma index_of_app_notin x a b :
  ~ In x a -> index_of x (a ++ x :: b) = Some (length a).
Proof.
  induction a as [|y r IH]; simpl; intro N.
  - rewrite Z.eqb_refl. reflexivity.
  - destruct (Z.eqb x y) eqn:E.
    + apply Z.eqb_eq in E. subst. exfalso. apply N. left. reflexivity.
    + rewrite IH; [reflexivity|]. intro. apply N. right. assumption.
Qed.

Lemma index_of_notin x l : ~ In x l -> index_of x l = None.
Proof.
  induction l as [|y r IH]; simpl; intro N; [reflexivity|].
  destruct (Z.eqb x y) eqn:E.
  - apply Z.eqb_eq in E. subst. exfalso. apply N. left. reflexivity.
  - rewrite IH; [reflexivity|]. intro. apply N. right. assumption.
Qed.

Lemma remove_first_app_notin x a b :
  ~ In x a -> remove_first x (a ++ x :: b) = a ++ b.
Proof.
  induction a as [|y r IH]; simpl; intro N.
  - rewrite Z.eqb_refl. reflexivity.
  - destruct (Z.eqb x y) eqn:E.
    + apply Z.eqb_eq in E. subst. exfalso. apply N. left. reflexivity.
    + rewrite IH; [reflexivity|]. intro. apply N. right. assumption.
Qed.

Lemma remove_first_notin x l : ~ In x l -> remove_first x l = l.
Proof.
  induction l as [|y r IH]; simpl; intro N; [reflexivity|].
  destruct (Z.eqb x y) eqn:E.
  - apply Z.eqb_eq in E. subst. exfalso. apply N. left. reflexivity.
  - rewrite IH; [reflexivity|]. intro. apply N. right. assumption.
Qed.

Lemma replace_first_app_notin x y a b :
  ~ In x a -> replace_first x y (a ++ x :: b) = a ++ y :: b.
Proof.
  induction a as [|z r IH]; simpl; intro N.
  - rewrite Z.eqb_refl. reflexivity.
  - destruct (Z.eqb x z) eqn:E.
    + apply Z.eqb_eq in E. subst. exfalso. apply N. left. reflexivity.
    + rewrite IH; [reflexivity|]. intro. apply N. right. assumption.
Qed.

Lemma insert_at_length (x : Z) (a b : list Z) :
  insert_at (length a) x (a ++ b) = a ++ x :: b.
Proof.
  unfold insert_at. rewrite firstn_app, skipn_app, Nat.sub_diag, firstn_all, skipn_all. simpl.
  rewrite app_nil_r. reflexivity.
Qed.

Lemma insert_at_beyond (n : nat) (x : Z) (l : list Z) :
  (length l <= n)%nat -> insert_at n x l = l ++ [x].
Proof.
  intro H. unfold insert_at. rewrite firstn_all2 by exact H. rewrite skipn_all2 by exact H. reflexivity.
Qed.

(* ---------- ids of a tree ---------- *)

Lemma ids_eq i x l e ks : ids (T i x l e ks) = i :: flat_map ids ks.
Proof.
  unfold ids. simpl. f_equal. induction ks as [|k r IH]; simpl; [reflexivity|].
  rewrite map_app, IH. reflexivity.
Qed.

Lemma ids_root t : In (t_id t) (ids t).
Proof. destruct t. rewrite ids_eq. left. reflexivity. Qed.

Lemma flat_ids_in (ks : list tree) k j : In k ks -> In j (ids k) -> In j (flat_map ids ks).
Proof. intros Hk Hj. apply in_flat_map. exists k. split; assumption. Qed.

Lemma map_id_in_flat (ks : list tree) j : In j (map t_id ks) -> In j (flat_map ids ks).
Proof.
  intro H. apply in_map_iff in H. destruct H as [k [E Hk]]. subst.
  eapply flat_ids_in; [exact Hk|apply ids_root].
Qed.

Lemma length_ids t : length (ids t) = size t.
Proof.
  induction t as [i x l e ks IH] using tree_ind'. rewrite ids_eq, size_eq. simpl. f_equal.
  induction IH as [|k r Hk Hr IHr]; simpl; [reflexivity|].
  rewrite app_length, Hk, IHr. reflexivity.
Qed.

(* ---------- rep ---------- *)

Fixpoint rep (h : heap) (par : option Z) (t : tree) : Prop :=
  match t with
  | T i x l e ks =>
    has h i = true /\ get h i = mkCell par (map t_id ks) e x l /\
    (fix go (ks : list tree) : Prop :=
       match ks with
       | [] => True
       | k :: r => rep h (Some i) k /\ go r
       end) ks
  end.

Lemma rep_eq h par i x l e ks :
  rep h par (T i x l e ks) <->
  has h i = true /\ get h i = mkCell par (map t_id ks) e x l /\ Forall (rep h (Some i)) ks.
Proof.
  assert (G : forall ks0,
    (fix go (ks : list tree) : Prop :=
       match ks with
       | [] => True
       | k :: r => rep h (Some i) k /\ go r
       end) ks0 <-> Forall (rep h (Some i)) ks0).
  { induction ks0 as [|k r IH].
    - split; intro; [constructor|exact I].
    - rewrite Forall_cons_iff, <- IH. reflexivity. }
  simpl. rewrite G. reflexivity.
Qed.

Global Opaque rep.

Lemma rep_frame h h' par t :
  (forall j, In j (ids t) -> get h' j = get h j) ->
  (forall j, In j (ids t) -> has h j = true -> has h' j = true) ->
  rep h par t -> rep h' par t.
Proof.
  revert par. induction t as [i x l e ks IH] using tree_ind'. intros par G Hs R.
  apply rep_eq in R. destruct R as [A [B C]]. apply rep_eq. repeat split.
  - apply Hs; [apply (ids_root (T i x l e ks))|exact A].
  - rewrite G; [exact B|apply (ids_root (T i x l e ks))].
  - rewrite Forall_forall in *. intros k Hk. apply IH; auto.
    + intros j Hj. apply G. rewrite ids_eq. right. eapply flat_ids_in; eauto.
    + intros j Hj. apply Hs. rewrite ids_eq. right. eapply flat_ids_in; eauto.
Qed.

Lemma rep_frame_off S h h' par t :
  same_off S h h' -> grows h h' -> (forall j, In j (ids t) -> ~ In j S) ->
  rep h par t -> rep h' par t.
Proof.
  intros A [G _] D. apply rep_frame.
  - intros j Hj. apply A. apply D. exact Hj.
  - intros j _. apply G.
Qed.

Lemma Forall_rep_frame_off S h h' par ks :
  same_off S h h' -> grows h h' -> (forall j, In j (flat_map ids ks) -> ~ In j S) ->
  Forall (rep h par) ks -> Forall (rep h' par) ks.
Proof.
  intros A G D F. rewrite Forall_forall in *. intros k Hk.
  eapply rep_frame_off; eauto. intros j Hj. apply D. eapply flat_ids_in; eauto.
Qed.

(* the root cell may be rewritten freely as long as the child list is kept *)
Lemma rep_root h h' par par' i x l e x' l' e' ks :
  rep h par (T i x l e ks) ->
  get h' i = mkCell par' (map t_id ks) e' x' l' ->
  has h' i = true ->
  (forall j, In j (flat_map ids ks) -> get h' j = get h j) ->
  (forall j, has h j = true -> has h' j = true) ->
  rep h' par' (T i x' l' e' ks).
Proof.
  intros R G Hh Fr Gr. apply rep_eq in R. destruct R as [_ [_ C]]. apply rep_eq. repeat split; auto.
  rewrite Forall_forall in *. intros k Hk. apply rep_frame with (h := h); auto.
  intros j Hj. apply Fr. eapply flat_ids_in; eauto.
Qed.

Lemma rep_has h par t j : rep h par t -> In j (ids t) -> has h j = true.
Proof.
  revert par. induction t as [i x l e ks IH] using tree_ind'. intros par R Hj.
  apply rep_eq in R. destruct R as [A [B C]]. rewrite ids_eq in Hj. destruct Hj as [->|Hj]; [exact A|].
  apply in_flat_map in Hj. destruct Hj as [k [Hk Hj]]. rewrite Forall_forall in *. eapply IH; eauto.
Qed.

Lemma rep_root_cell h par t :
  rep h par t ->
  get h (t_id t) = mkCell par (map t_id (t_kids t)) (t_len t) (t_taxon t) (t_label t).
Proof. destruct t. intro R. apply rep_eq in R. simpl. tauto. Qed.

(* ---------- one-hole contexts ---------- *)

(* innermost frame first: CNode c i .. lft rgt = the hole is a child of node i (between the
   subtrees lft and rgt) and c is the context of node i *)
Inductive ctx : Type :=
| CTop
| CNode (c : ctx) (i : Z) (x l e : option Z) (lft rgt : list tree).

Fixpoint plug (c : ctx) (s : tree) : tree :=
  match c with
  | CTop => s
  | CNode c' i x l e lft rgt => plug c' (T i x l e (lft ++ s :: rgt))
  end.

(* parent pointer the hole's root must carry *)
Definition cpar (c : ctx) (par : option Z) : option Z :=
  match c with CTop => par | CNode _ i _ _ _ _ _ => Some i end.

Fixpoint cids (c : ctx) : list Z :=
  match c with
  | CTop => []
  | CNode c' i _ _ _ lft rgt => i :: flat_map ids lft ++ flat_map ids rgt ++ cids c'
  end.

Fixpoint repc (h : heap) (par : option Z) (c : ctx) (hid : Z) : Prop :=
  match c with
  | CTop => True
  | CNode c' i x l e lft rgt =>
    has h i = true /\
    get h i = mkCell (cpar c' par) (map t_id lft ++ hid :: map t_id rgt) e x l /\
    Forall (rep h (Some i)) lft /\ Forall (rep h (Some i)) rgt /\
    repc h par c' i
  end.

Fixpoint croot (c : ctx) (d : Z) : Z :=
  match c with CTop => d | CNode c' i _ _ _ _ _ => croot c' i end.

Lemma plug_id c s : t_id (plug c s) = croot c (t_id s).
Proof.
  revert s. induction c as [|c' IH i x l e lft rgt]; intro s; simpl; [reflexivity|]. rewrite IH. reflexivity.
Qed.

Lemma rep_plug h par c s :
  rep h par (plug c s) <-> repc h par c (t_id s) /\ rep h (cpar c par) s.
Proof.
  revert s. induction c as [|c' IH i x l e lft rgt]; intro s; simpl.
  - tauto.
  - rewrite IH. simpl. rewrite rep_eq, map_app, Forall_app. simpl. rewrite Forall_cons_iff. tauto.
Qed.

Lemma ids_plug c s : Permutation (ids (plug c s)) (ids s ++ cids c).
Proof.
  revert s. induction c as [|c' IH i x l e lft rgt]; intro s; simpl.
  - rewrite app_nil_r. reflexivity.
  - rewrite IH, ids_eq, flat_map_app. simpl.
    rewrite <- !app_assoc. simpl.
    apply Permutation_cons_app. apply Permutation_app_swap_app.
Qed.

Lemma repc_frame_off S h h' par c hid :
  same_off S h h' -> grows h h' -> (forall j, In j (cids c) -> ~ In j S) ->
  repc h par c hid -> repc h' par c hid.
Proof.
  intros A G. revert hid. induction c as [|c' IH i x l e lft rgt]; intros hid D R; simpl in *; [exact I|].
  destruct R as [R1 [R2 [R3 [R4 R5]]]]. repeat split.
  - apply G. exact R1.
  - rewrite A; [exact R2|]. apply D. left. reflexivity.
  - eapply Forall_rep_frame_off; eauto. intros j Hj. apply D. right. apply in_app_iff. left. exact Hj.
  - eapply Forall_rep_frame_off; eauto. intros j Hj. apply D. right. rewrite !in_app_iff. right. left. exact Hj.
  - apply IH; auto. intros j Hj. apply D. right. rewrite !in_app_iff. right. right. exact Hj.
Qed.

(* composing contexts: `cin c fr..` puts one more frame at the OUTER end *)
Fixpoint cout (c : ctx) (i : Z) (x l e : option Z) (lft rgt : list tree) : ctx :=
  match c with
  | CTop => CNode CTop i x l e lft rgt
  | CNode c' j y m f a b => CNode (cout c' i x l e lft rgt) j y m f a b
  end.

Lemma plug_cout c i x l e lft rgt s :
  plug (cout c i x l e lft rgt) s = T i x l e (lft ++ plug c s :: rgt).
Proof.
  revert s. induction c as [|c' IH j y m f a b]; intro s; simpl; [reflexivity|]. apply IH.
Qed.

Lemma find_ctx t p : In p (ids t) -> exists c s, t = plug c s /\ t_id s = p.
Proof.
  induction t as [i x l e ks IH] using tree_ind'. rewrite ids_eq. intros [E|H].
  - subst. exists CTop, (T p x l e ks). split; reflexivity.
  - apply in_flat_map in H. destruct H as [k [Hk Hp]].
    rewrite Forall_forall in IH. destruct (IH k Hk Hp) as [c [s [E1 E2]]].
    apply in_split in Hk. destruct Hk as [lft [rgt E]]. subst ks.
    exists (cout c i x l e lft rgt), s. split; [|exact E2].
    rewrite plug_cout. rewrite <- E1. reflexivity.
Qed.

(* ---------- the invariant ---------- *)

(* h holds a well-formed arborescence: the cells reachable from the seed spell out a rose tree t
   (every node's parent pointer is the node that lists it, child lists are the children in
   order), no node occurs twice (no sharing, no cycle, NoDup child lists), the seed has no parent,
   and all ids are below the allocation counter. *)
Definition Wr (h : heap) (t : tree) : Prop :=
  rep h None t /\ NoDup (ids t) /\ (forall i, In i (ids t) -> i < next h).

Definition WFt (h : heap) (t : tree) : Prop := Wr h t /\ t_id t = seed h.

Definition WF (h : heap) : Prop := exists t, WFt h t.
