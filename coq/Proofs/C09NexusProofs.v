(* C09: NEXUS CHARACTERS/DATA block, token level: what the reader does on what the writer wrote *)
From Coq Require Import ZArith List Bool Lia.
From DV Require Import Model.PyPrims Model.C09AlphaTypes Model.C09Alphabets Model.C09Model Model.C09Spec
  Model.C09Nexus Proofs.C09Text Proofs.C09Fasta.
Import ListNotations.
Open Scope Z_scope.
Arguments state_of_symbol : simpl never.
Arguments plain_symbol_char : simpl never.
Arguments is_space : simpl never.

(* ---- the sequence text of a row is one token ---- *)

Lemma plain_not_captured : forall c, plain_symbol_char c = true -> captured c = false.
Proof.
  intros c H. unfold captured. apply not_true_iff_false. intro X. apply existsb_exists in X.
  destruct X as [x [Hx E]]. apply Z.eqb_eq in E. subst x.
  apply (plain_not c c H); [|reflexivity]. simpl in Hx. simpl. tauto.
Qed.

Lemma seq_tokens_aux_plain : forall a t cur, symtext a t -> rev cur ++ t <> [] ->
  seq_tokens_aux cur t = [rev cur ++ t].
Proof.
  intros a t. induction t as [|c t IH]; intros cur H N; simpl.
  - rewrite List.app_nil_r in *. destruct cur; [contradiction | reflexivity].
  - rewrite (plain_not_captured c (proj1 (H c (or_introl eq_refl)))).
    rewrite IH; [simpl; rewrite <- app_assoc; reflexivity | exact (symtext_cons_inv _ _ _ H) |].
    simpl. rewrite <- app_assoc. simpl. destruct (rev cur); discriminate.
Qed.

Lemma seq_tokens_plain : forall a t, symtext a t -> t <> [] -> seq_tokens t = [t].
Proof. intros a t H N. unfold seq_tokens. rewrite (seq_tokens_aux_plain a t [] H); [reflexivity | exact N]. Qed.

(* ---- a token of plain symbols ---- *)

Definition plain_token (a : alphabet) (t : tok) : Prop := symtext a t /\ t <> [].

Lemma plain_token_tests : forall a t, plain_token a t ->
  is_eol t = false /\ text_eqb t t_lbrace = false /\ text_eqb t t_lpar = false /\ text_eqb t t_semi = false.
Proof.
  intros a t [H N]. destruct t as [|c r]; [contradiction|].
  destruct (H c (or_introl eq_refl)) as [P _].
  assert (S : is_space c = false) by (apply plain_not_space; exact P).
  assert (forall x, In x [10; 13] -> c <> x).
  { intros x Hx E. subst x. destruct Hx as [Hx|[Hx|[]]]; subst; discriminate. }
  assert (forall x, In x [123; 40; 59] -> c <> x).
  { intros x Hx. apply (plain_not c x P). simpl in *. tauto. }
  unfold is_eol, text_eqb, t_lbrace, t_lpar, t_semi. simpl.
  repeat split.
  - apply orb_false_iff. split; apply andb_false_iff; left; apply Z.eqb_neq; apply H0; simpl; tauto.
  - apply andb_false_iff; left; apply Z.eqb_neq; apply H1; simpl; tauto.
  - apply andb_false_iff; left; apply Z.eqb_neq; apply H1; simpl; tauto.
  - apply andb_false_iff; left; apply Z.eqb_neq; apply H1; simpl; tauto.
Qed.

Definition default_match (st : nx_state) : Prop := x_match st = [t_dot; t_dot].

Lemma read_chars_plain : forall st a nchar first t acc, default_match st -> symtext a t ->
  len acc + len t <= nchar ->
  read_chars st a nchar 0 first acc t = Ok (acc ++ st_of a t).
Proof.
  intros st a nchar first t. induction t as [|c t IH]; intros acc M H L; simpl.
  - rewrite List.app_nil_r. reflexivity.
  - destruct (H c (or_introl eq_refl)) as [P [i E]].
    assert (T : text_mem [c] (x_match st) = false).
    { rewrite M. unfold t_dot, text_mem, text_eqb. simpl.
      assert (c <> 46) by (apply (plain_not c 46 P); simpl; tauto).
      apply Z.eqb_neq in H0. rewrite H0. reflexivity. }
    rewrite T. rewrite E. cbn [bind].
    assert (K : (len acc =? nchar) = false).
    { apply Z.eqb_neq. unfold len in *. simpl in L. lia. }
    rewrite ?Z.add_0_l. rewrite K. rewrite IH.
    + rewrite <- app_assoc. simpl. unfold st_of. simpl. rewrite ?E. reflexivity.
    + exact M.
    + exact (symtext_cons_inv _ _ _ H).
    + rewrite len_app. unfold len in *. simpl in *. lia.
Qed.

(* reading one written row of nchar plain symbols, non-interleaved *)
Lemma read_states_row : forall st a nchar first t rest,
  default_match st -> x_interleave st = false -> plain_token a t -> len t = nchar -> 1 <= nchar ->
  read_states st a nchar 0 first None [] (t :: rest) = Ok (RsDone (st_of a t) a rest).
Proof.
  intros st a nchar first t rest M I PT L N.
  destruct (plain_token_tests a t PT) as [E1 [E2 [E3 E4]]].
  cbn [read_states]. change (len (@nil Z)) with 0. rewrite ?Z.add_0_l.
  replace (nchar <=? 0) with false by (symmetry; apply Z.leb_gt; lia).
  rewrite E1, E2, E3, E4.
  rewrite (read_chars_plain st a nchar first t [] M (proj1 PT)) by (unfold len in *; simpl; lia).
  cbn [app].
  destruct rest as [|r0 rest'].
  - cbn [read_states].
    rewrite ?Z.add_0_l. replace (nchar <=? len (st_of a t)) with true; [reflexivity|].
    symmetry. apply Z.leb_le. unfold st_of, len in *. rewrite map_length. lia.
  - cbn [read_states].
    rewrite ?Z.add_0_l. replace (nchar <=? len (st_of a t)) with true; [reflexivity|].
    symmetry. apply Z.leb_le. unfold st_of, len in *. rewrite map_length. lia.
Qed.

(* ---- taxa ---- *)

Section Reader.
Variable lower : text -> text.

Definition keyf (cs : bool) (l : text) : text := if cs then l else lower l.

Lemma taxon_match_key : forall cs x y, taxon_match lower cs x y = text_eqb (keyf cs x) (keyf cs y).
Proof. intros. unfold taxon_match, keyf. destruct cs; reflexivity. Qed.

Lemma find_taxon_none : forall cs l ns i, ~ In (keyf cs l) (map (keyf cs) ns) -> find_taxon lower cs l ns i = None.
Proof.
  intros cs l ns. induction ns as [|x ns IH]; intros i H; simpl; [reflexivity|].
  rewrite taxon_match_key. simpl in H.
  assert (E : text_eqb (keyf cs l) (keyf cs x) = false) by (apply text_eqb_neq; intro X; apply H; left; symmetry; exact X).
  rewrite E. apply IH. intro X. apply H. right. exact X.
Qed.

Lemma find_taxon_app : forall cs l pre post i, ~ In (keyf cs l) (map (keyf cs) pre) ->
  find_taxon lower cs l (pre ++ l :: post) i = Some (i + length pre)%nat.
Proof.
  intros cs l pre. induction pre as [|x pre IH]; intros post i H; simpl.
  - rewrite taxon_match_key. rewrite text_eqb_refl. f_equal. lia.
  - rewrite taxon_match_key. simpl in H.
    assert (E : text_eqb (keyf cs l) (keyf cs x) = false) by (apply text_eqb_neq; intro X; apply H; left; symmetry; exact X).
    rewrite E. rewrite IH by (intro X; apply H; right; exact X). f_equal. lia.
Qed.

(* ---- rows ---- *)

Definition numbered (done : matrix) : nrows := combine (seq 0 (length done)) (map snd done).

Lemma row_get_numbered_none : forall (done : matrix) k i, (length done + k <= i)%nat ->
  row_get i (combine (seq k (length done)) (map snd done)) = None.
Proof.
  induction done as [|r done IH]; intros k i H; simpl; [reflexivity|].
  destruct (Nat.eqb_spec i k); [simpl in H; lia|]. apply IH. simpl in H. lia.
Qed.

Lemma row_extend_numbered : forall (done : matrix) k i x, (length done + k <= i)%nat ->
  row_extend i x (combine (seq k (length done)) (map snd done))
  = combine (seq k (length done)) (map snd done) ++ [(i, x)].
Proof.
  induction done as [|r done IH]; intros k i x H; simpl; [reflexivity|].
  destruct (Nat.eqb_spec i k); [simpl in H; lia|]. rewrite IH by (simpl in H; lia). reflexivity.
Qed.

Lemma row_extend_last : forall (rows : nrows) i x y, row_get i rows = None ->
  row_extend i y (rows ++ [(i, x)]) = rows ++ [(i, x ++ y)].
Proof.
  induction rows as [|[j v] rows IH]; intros i x y H; simpl.
  - rewrite Nat.eqb_refl. reflexivity.
  - simpl in H. destruct (Nat.eqb i j); [discriminate|]. rewrite IH by exact H. reflexivity.
Qed.

Lemma row_get_last : forall (rows : nrows) i x, row_get i rows = None -> row_get i (rows ++ [(i, x)]) = Some x.
Proof.
  induction rows as [|[j v] rows IH]; intros i x H; simpl.
  - rewrite Nat.eqb_refl. reflexivity.
  - simpl in H. destruct (Nat.eqb i j); [discriminate|]. apply IH. exact H.
Qed.

Lemma combine_app_eq : forall (A B : Type) (l1 l1' : list A) (l2 l2' : list B), length l1 = length l2 ->
  combine (l1 ++ l1') (l2 ++ l2') = combine l1 l2 ++ combine l1' l2'.
Proof.
  induction l1 as [|x l1 IH]; intros l1' l2 l2' H; destruct l2 as [|y l2]; simpl in *; try discriminate; [reflexivity|].
  rewrite IH by lia. reflexivity.
Qed.

Lemma numbered_snoc : forall (done : matrix) r, numbered (done ++ [r]) = numbered done ++ [(length done, snd r)].
Proof.
  intros. unfold numbered. rewrite app_length. simpl. rewrite seq_app. rewrite map_app. simpl.
  rewrite combine_app_eq; [reflexivity|]. rewrite seq_length, map_length. reflexivity.
Qed.

Lemma set_ns_id : forall st, set_ns st (x_ns st) = st.
Proof. destruct st; reflexivity. Qed.

Lemma matrix_loop_skip_eol : forall fuel st a nchar rows first toks, x_cap st = false ->
  matrix_loop lower fuel st a nchar rows first (EOL :: toks) = matrix_loop lower fuel st a nchar rows first toks.
Proof. intros. destruct fuel; [reflexivity|]. cbn [matrix_loop]. rewrite H. reflexivity. Qed.

Definition label_token_ok (l : tok) : bool := negb (is_eol l) && negb (text_eqb l t_semi).

Definition nrow_ok (a : alphabet) (nchar : Z) (r : text * list Z) : Prop :=
  label_token_ok (fst r) = true /\ forallb (cell_ok a) (snd r) = true /\ len (snd r) = nchar.

Lemma matrix_loop_rows : forall a nchar (simple : bool) todo done st fuel first rest,
  default_match st -> x_interleave st = false -> x_cap st = false ->
  1 <= nchar ->
  (length todo < fuel)%nat ->
  x_ns st = map fst done ++ (if simple then [] else map fst todo) ->
  (simple = true -> exists n, x_ntax st = Some n /\ len done + len todo <= n) ->
  (forall r, In r todo -> nrow_ok a nchar r) ->
  NoDup (map (keyf (x_cs st)) (map fst (done ++ todo))) ->
  matrix_loop lower fuel st a nchar (numbered done) first
              (concat (map (row_tokens a) todo) ++ t_semi :: rest)
  = Ok (set_ns st (map fst (done ++ todo)), a, numbered (done ++ todo), rest).
Proof.
  intros a nchar simple todo. induction todo as [|[l s] todo IH];
    intros done st fuel first rest M I Cp N F Hns Hnt Hok Hnd.
  - destruct fuel as [|f]; [simpl in F; lia|].
    cbn [map concat app matrix_loop]. rewrite Cp. cbn [next_tok negb andb].
    change (is_eol t_semi) with false. cbv iota. rewrite text_eqb_refl.
    rewrite List.app_nil_r.
    assert (E : map fst done = x_ns st) by (rewrite Hns; destruct simple; simpl; rewrite ?List.app_nil_r; reflexivity).
    rewrite E. rewrite set_ns_id. reflexivity.
  - destruct fuel as [|f]; [simpl in F; lia|].
    destruct (Hok (l, s) (or_introl eq_refl)) as [Hl [Hc Hs]]. cbn [fst snd] in *.
    unfold label_token_ok in Hl. apply andb_true_iff in Hl. destruct Hl as [Hl1 Hl2].
    apply negb_true_iff in Hl1. apply negb_true_iff in Hl2.
    destruct (symbols_as_string_ok a s Hc) as [T [ST LT]].
    assert (Sne : s <> []) by (intro X; subst s; unfold len in Hs; simpl in Hs; lia).
    assert (Tne : symbols_as_string a s <> []) by (intro X; rewrite X in LT; destruct s; [contradiction | discriminate]).
    cbn [map concat]. unfold row_tokens at 1. cbn [fst snd].
    rewrite (seq_tokens_plain a _ T Tne).
    cbn [app]. cbn [matrix_loop]. rewrite Cp. cbn [next_tok negb andb]. rewrite Hl1. rewrite Hl2.
    (* the taxon *)
    assert (Hnew : ~ In (keyf (x_cs st) l) (map (keyf (x_cs st)) (map fst done))).
    { rewrite !map_app in Hnd. simpl in Hnd. apply NoDup_remove_2 in Hnd.
      intro X. apply Hnd. apply in_or_app. left. exact X. }
    assert (GT : exists st1, get_taxon lower st l = Ok (st1, length done)
                 /\ x_ns st1 = map fst (done ++ [(l, s)]) ++ (if simple then [] else map fst todo)
                 /\ x_match st1 = x_match st /\ x_interleave st1 = x_interleave st /\ x_cap st1 = x_cap st
                 /\ x_cs st1 = x_cs st /\ x_ntax st1 = x_ntax st
                 /\ forall v, set_ns st1 v = set_ns st v).
    { destruct simple.
      - exists (set_ns st (x_ns st ++ [l])).
        rewrite List.app_nil_r in Hns.
        destruct (Hnt eq_refl) as [n [En Ln]].
        split.
        + unfold get_taxon. rewrite Hns. rewrite (find_taxon_none _ _ _ _ Hnew). rewrite En.
          replace ((n =? 0) || (len (map fst done) <? n)) with true.
          2:{ symmetry. apply orb_true_iff. right. apply Z.ltb_lt. unfold len in *. rewrite map_length. simpl in Ln. lia. }
          rewrite map_length. reflexivity.
        + cbn. rewrite Hns. rewrite map_app. simpl. rewrite List.app_nil_r. repeat split; reflexivity.
      - exists st. split.
        + unfold get_taxon. rewrite Hns. cbn [map]. rewrite (find_taxon_app _ _ _ _ _ Hnew). rewrite map_length. reflexivity.
        + rewrite Hns. rewrite map_app. simpl. rewrite <- app_assoc. repeat split; reflexivity. }
    destruct GT as [st1 [G [Ns1 [M1 [I1 [C1 [Cs1 [Nt1 Set1]]]]]]]].
    rewrite G. cbn [bind].
    assert (RE : row_extend (length done) [] (numbered done) = numbered done ++ [(length done, [])]) by (unfold numbered; apply row_extend_numbered; lia).
    rewrite RE.
    assert (RG : row_get (length done) (numbered done) = None) by (unfold numbered; apply row_get_numbered_none; lia).
    rewrite (row_get_last _ _ _ RG). change (len (@nil Z)) with 0.
    rewrite I1, I. cbv iota.
    rewrite (read_states_row st1 a nchar _ (symbols_as_string a s) _).
    + cbn [bind]. rewrite ST. rewrite I1, I. cbv iota. cbn [negb andb].
      replace (0 + len s <? nchar) with false by (symmetry; apply Z.ltb_ge; lia).
      rewrite (row_extend_last _ _ _ _ RG). cbn [app].
      rewrite matrix_loop_skip_eol by (rewrite C1; exact Cp).
      rewrite andb_false_r. pose proof (numbered_snoc done (l, s)) as NS. cbn [snd] in NS. rewrite <- NS.
      rewrite (IH (done ++ [(l, s)]) st1 f).
      * rewrite Set1. rewrite <- !app_assoc. reflexivity.
      * unfold default_match. rewrite M1. exact M.
      * rewrite I1. exact I.
      * rewrite C1. exact Cp.
      * exact N.
      * simpl in F. lia.
      * exact Ns1.
      * intro Sm. destruct (Hnt Sm) as [n [En Ln]]. exists n. split; [rewrite Nt1; exact En|].
        rewrite len_app. unfold len in *. simpl in *. lia.
      * intros r Hr. apply Hok. right. exact Hr.
      * rewrite Cs1. rewrite <- app_assoc. exact Hnd.
    + unfold default_match. rewrite M1. exact M.
    + rewrite I1. exact I.
    + split; assumption.
    + unfold len in *. rewrite LT. exact Hs.
    + exact N.
Qed.

End Reader.

(* ---- the whole block ---- *)

Lemma all_digits_render : forall n, all_digits (render_nat n) = true.
Proof.
  intro n. unfold all_digits. pose proof (render_nat_nonnil n). pose proof (render_nat_digits n).
  destruct (render_nat n); [contradiction | assumption].
Qed.

Lemma rows_tokens_length : forall a (m : matrix), (length m <= length (concat (map (row_tokens a) m)))%nat.
Proof.
  induction m as [|r m IH]; simpl; [lia|]. rewrite app_length.
  assert (1 <= length (row_tokens a r))%nat by (unfold row_tokens; simpl; lia). lia.
Qed.

Lemma numbered_labels : forall (m : matrix) pre,
  map (fun r : nat * list Z => (nth (fst r) (pre ++ map fst m) [], snd r))
      (combine (seq (length pre) (length m)) (map snd m)) = m.
Proof.
  induction m as [|[l s] m IH]; intro pre; simpl; [reflexivity|].
  rewrite (app_nth2 pre (l :: map fst m) [] (le_n (length pre))). rewrite Nat.sub_diag. simpl. f_equal.
  specialize (IH (pre ++ [l])). rewrite app_length in IH. simpl in IH.
  rewrite Nat.add_1_r in IH. rewrite <- app_assoc in IH. simpl in IH. exact IH.
Qed.

Definition fixed_dtype (dt : dtype) : bool :=
  match dt with DtDna | DtRna | DtNucleotide | DtProtein => true | _ => false end.

Arguments render_nat : simpl never.
Arguments matrix_loop : simpl never.
Arguments alphabet_of_dtype : simpl never.
Arguments row_tokens : simpl never.

