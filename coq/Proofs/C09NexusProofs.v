(* C09: NEXUS CHARACTERS/DATA block, token level: what the reader does on what the writer wrote *)
From Coq Require Import ZArith List Bool Lia.
From DV Require Import Model.PyPrims Model.C09AlphaTypes Model.C09Alphabets Model.C09Model Model.C09Spec
  Model.C09Nexus Proofs.C09Text Proofs.C09Fasta.
Import ListNotations.
Open Scope Z_scope.
Arguments state_of_symbol : simpl never.
Arguments plain_symbol_char : simpl never.
Arguments is_space : simpl never.

(* ---- the sequence text of a row is one token ---- *)

Lemma plain_not_captured : forall c, plain_symbol_char c = true -> captured c = false.
Proof.
  intros c H. unfold captured. apply not_true_iff_false. intro X. apply existsb_exists in X.
  destruct X as [x [Hx E]]. apply Z.eqb_eq in E. subst x.
  apply (plain_not c c H); [|reflexivity]. simpl in Hx. simpl. tauto.
Qed.

Lemma seq_tokens_aux_plain : forall a t cur, symtext a t -> rev cur ++ t <> [] ->
  seq_tokens_aux cur t = [rev cur ++ t].
Proof.
  intros a t. induction t as [|c t IH]; intros cur H N; simpl.
  - rewrite List.app_nil_r in *. destruct cur; [contradiction | reflexivity].
  - rewrite (plain_not_captured c (proj1 (H c (or_introl eq_refl)))).
    rewrite IH; [simpl; rewrite <- app_assoc; reflexivity | exact (symtext_cons_inv _ _ _ H) |].
    simpl. rewrite <- app_assoc. simpl. destruct (rev cur); discriminate.
Qed.

Lemma seq_tokens_plain : forall a t, symtext a t -> t <> [] -> seq_tokens t = [t].
Proof. intros a t H N. unfold seq_tokens. rewrite (seq_tokens_aux_plain a t [] H); [reflexivity | exact N]. Qed.

(* ---- a token of plain symbols ---- *)

Definition plain_token (a : alphabet) (t : tok) : Prop := symtext a t /\ t <> [].

Lemma plain_token_tests : forall a t, plain_token a t ->
  is_eol t = false /\ text_eqb t t_lbrace = false /\ text_eqb t t_lpar = false /\ text_eqb t t_semi = false.
Proof.
  intros a t [H N]. destruct t as [|c r]; [contradiction|].
  destruct (H c (or_introl eq_refl)) as [P _].
  assert (S : is_space c = false) by (apply plain_not_space; exact P).
  assert (forall x, In x [10; 13] -> c <> x).
  { intros x Hx E. subst x. destruct Hx as [Hx|[Hx|[]]]; subst; discriminate. }
  assert (forall x, In x [123; 40; 59] -> c <> x).
  { intros x Hx. apply (plain_not c x P). simpl in *. tauto. }
  unfold is_eol, text_eqb, t_lbrace, t_lpar, t_semi. simpl.
  repeat split.
  - apply orb_false_iff. split; apply andb_false_iff; left; apply Z.eqb_neq; apply H0; simpl; tauto.
  - apply andb_false_iff; left; apply Z.eqb_neq; apply H1; simpl; tauto.
  - apply andb_false_iff; left; apply Z.eqb_neq; apply H1; simpl; tauto.
  - apply andb_false_iff; left; apply Z.eqb_neq; apply H1; simpl; tauto.
Qed.

Definition default_match (st : nx_state) : Prop := x_match st = [t_dot; t_dot].

Lemma read_chars_plain : forall st a nchar first t acc, default_match st -> symtext a t ->
  len acc + len t <= nchar ->
  read_chars st a nchar 0 first acc t = Ok (acc ++ st_of a t).
Proof.
  intros st a nchar first t. induction t as [|c t IH]; intros acc M H L; simpl.
  - rewrite List.app_nil_r. reflexivity.
  - destruct (H c (or_introl eq_refl)) as [P [i E]].
    assert (T : text_mem [c] (x_match st) = false).
    { rewrite M. unfold t_dot, text_mem, text_eqb. simpl.
      assert (c <> 46) by (apply (plain_not c 46 P); simpl; tauto).
      apply Z.eqb_neq in H0. rewrite H0. reflexivity. }
    rewrite T. rewrite E. cbn [bind].
    assert (K : (len acc =? nchar) = false).
    { apply Z.eqb_neq. unfold len in *. simpl in L. lia. }
    rewrite ?Z.add_0_l. rewrite K. rewrite IH.
    + rewrite <- app_assoc. simpl. unfold st_of. simpl. rewrite E. reflexivity.
    + exact M.
    + exact (symtext_cons_inv _ _ _ H).
    + rewrite len_app. unfold len in *. simpl in *. lia.
Qed.

(* reading one written row of nchar plain symbols, non-interleaved *)
Lemma read_states_row : forall st a nchar first t rest,
  default_match st -> x_interleave st = false -> plain_token a t -> len t = nchar -> 1 <= nchar ->
  read_states st a nchar 0 first None [] (t :: rest) = Ok (RsDone (st_of a t) a rest).
Proof.
  intros st a nchar first t rest M I PT L N.
  destruct (plain_token_tests a t PT) as [E1 [E2 [E3 E4]]].
  cbn [read_states]. change (len (@nil Z)) with 0. rewrite ?Z.add_0_l.
  replace (nchar <=? 0) with false by (symmetry; apply Z.leb_gt; lia).
  rewrite E1, E2, E3, E4.
  rewrite (read_chars_plain st a nchar first t [] M (proj1 PT)) by (unfold len in *; simpl; lia).
  cbn [app].
  destruct rest as [|r0 rest'].
  - cbn [read_states].
    rewrite ?Z.add_0_l. replace (nchar <=? len (st_of a t)) with true; [reflexivity|].
    symmetry. apply Z.leb_le. unfold st_of, len in *. rewrite map_length. lia.
  - cbn [read_states].
    rewrite ?Z.add_0_l. replace (nchar <=? len (st_of a t)) with true; [reflexivity|].
    symmetry. apply Z.leb_le. unfold st_of, len in *. rewrite map_length. lia.
Qed.

(* ---- taxa ---- *)

Section Reader.
Variable lower : text -> text.

Definition keyf (cs : bool) (l : text) : text := if cs then l else lower l.

Lemma taxon_match_key : forall cs x y, taxon_match lower cs x y = text_eqb (keyf cs x) (keyf cs y).
Proof. intros. unfold taxon_match, keyf. destruct cs; reflexivity. Qed.

Lemma find_taxon_none : forall cs l ns i, ~ In (keyf cs l) (map (keyf cs) ns) -> find_taxon lower cs l ns i = None.
Proof.
  intros cs l ns. induction ns as [|x ns IH]; intros i H; simpl; [reflexivity|].
  rewrite taxon_match_key. simpl in H.
  assert (E : text_eqb (keyf cs l) (keyf cs x) = false) by (apply text_eqb_neq; intro X; apply H; left; symmetry; exact X).
  rewrite E. apply IH. intro X. apply H. right. exact X.
Qed.

Lemma find_taxon_app : forall cs l pre post i, ~ In (keyf cs l) (map (keyf cs) pre) ->
  find_taxon lower cs l (pre ++ l :: post) i = Some (i + length pre)%nat.
Proof.
  intros cs l pre. induction pre as [|x pre IH]; intros post i H; simpl.
  - rewrite taxon_match_key. rewrite text_eqb_refl. f_equal. lia.
  - rewrite taxon_match_key. simpl in H.
    assert (E : text_eqb (keyf cs l) (keyf cs x) = false) by (apply text_eqb_neq; intro X; apply H; left; symmetry; exact X).
    rewrite E. rewrite IH by (intro X; apply H; right; exact X). f_equal. lia.
Qed.

(* ---- rows ---- *)

Definition numbered (done : matrix) : nrows := combine (seq 0 (length done)) (map snd done).

Lemma row_get_numbered_none : forall done k i, (length done + k <= i)%nat ->
  row_get i (combine (seq k (length done)) (map snd done)) = None.
Proof.
  induction done as [|r done IH]; intros k i H; simpl; [reflexivity|].
  destruct (Nat.eqb_spec i k); [simpl in H; lia|]. apply IH. simpl in H. lia.
Qed.

Lemma row_extend_numbered : forall done k i x, (length done + k <= i)%nat ->
  row_extend i x (combine (seq k (length done)) (map snd done))
  = combine (seq k (length done)) (map snd done) ++ [(i, x)].
Proof.
  induction done as [|r done IH]; intros k i x H; simpl; [reflexivity|].
  destruct (Nat.eqb_spec i k); [simpl in H; lia|]. rewrite IH by (simpl in H; lia). reflexivity.
Qed.

Lemma row_extend_last : forall (rows : nrows) i x y, row_get i rows = None ->
  row_extend i y (rows ++ [(i, x)]) = rows ++ [(i, x ++ y)].
Proof.
  induction rows as [|[j v] rows IH]; intros i x y H; simpl.
  - rewrite Nat.eqb_refl. reflexivity.
  - simpl in H. destruct (Nat.eqb i j); [discriminate|]. rewrite IH by exact H. reflexivity.
Qed.

Lemma row_get_last : forall (rows : nrows) i x, row_get i rows = None -> row_get i (rows ++ [(i, x)]) = Some x.
Proof.
  induction rows as [|[j v] rows IH]; intros i x H; simpl.
  - rewrite Nat.eqb_refl. reflexivity.
  - simpl in H. destruct (Nat.eqb i j); [discriminate|]. apply IH. exact H.
Qed.

Lemma numbered_snoc : forall done r, numbered (done ++ [r]) = numbered done ++ [(length done, snd r)].
Proof.
  intros. unfold numbered. rewrite app_length. simpl. rewrite seq_app. rewrite map_app. simpl.
  rewrite combine_app; [reflexivity|]. rewrite seq_length, map_length. reflexivity.
Qed.

End Reader.
