(* C09: NEXUS CHARACTERS/DATA block, token level: what the reader does on what the writer wrote *)
From Coq Require Import ZArith List Bool Lia.
From DV Require Import Model.PyPrims Model.C09AlphaTypes Model.C09Alphabets Model.C09Model Model.C09Spec
  Model.C09Nexus Model.C09Convert Proofs.C09Text Proofs.C09Fasta.
Import ListNotations.
Open Scope Z_scope.
Arguments state_of_symbol : simpl never.
Arguments plain_symbol_char : simpl never.
Arguments is_space : simpl never.

(* ---- the sequence text of a row is one token ---- *)

Lemma plain_not_captured : forall c, plain_symbol_char c = true -> captured c = false.
Proof.
  intros c H. unfold captured. apply not_true_iff_false. intro X. apply existsb_exists in X.
  destruct X as [x [Hx E]]. apply Z.eqb_eq in E. subst x.
  apply (plain_not c c H); [|reflexivity]. simpl in Hx. simpl. tauto.
Qed.

Lemma seq_tokens_aux_plain : forall a t cur, symtext a t -> rev cur ++ t <> [] ->
  seq_tokens_aux cur t = [rev cur ++ t].
Proof.
  intros a t. induction t as [|c t IH]; intros cur H N; simpl.
  - rewrite List.app_nil_r in *. destruct cur; [contradiction | reflexivity].
  - rewrite (plain_not_captured c (proj1 (H c (or_introl eq_refl)))).
    rewrite IH; [simpl; rewrite <- app_assoc; reflexivity | exact (symtext_cons_inv _ _ _ H) |].
    simpl. rewrite <- app_assoc. simpl. destruct (rev cur); discriminate.
Qed.

Lemma seq_tokens_plain : forall a t, symtext a t -> t <> [] -> seq_tokens t = [t].
Proof. intros a t H N. unfold seq_tokens. rewrite (seq_tokens_aux_plain a t [] H); [reflexivity | exact N]. Qed.

(* ---- a token of plain symbols ---- *)

Definition plain_token (a : alphabet) (t : tok) : Prop := symtext a t /\ t <> [].

Lemma plain_token_tests : forall a t, plain_token a t ->
  is_eol t = false /\ text_eqb t t_lbrace = false /\ text_eqb t t_lpar = false /\ text_eqb t t_semi = false.
Proof.
  intros a t [H N]. destruct t as [|c r]; [contradiction|].
  destruct (H c (or_introl eq_refl)) as [P _].
  assert (S : is_space c = false) by (apply plain_not_space; exact P).
  assert (forall x, In x [10; 13] -> c <> x).
  { intros x Hx E. subst x. destruct Hx as [Hx|[Hx|[]]]; subst; discriminate. }
  assert (forall x, In x [123; 40; 59] -> c <> x).
  { intros x Hx. apply (plain_not c x P). simpl in *. tauto. }
  unfold is_eol, text_eqb, t_lbrace, t_lpar, t_semi. simpl.
  repeat split.
  - apply orb_false_iff. split; apply andb_false_iff; left; apply Z.eqb_neq; apply H0; simpl; tauto.
  - apply andb_false_iff; left; apply Z.eqb_neq; apply H1; simpl; tauto.
  - apply andb_false_iff; left; apply Z.eqb_neq; apply H1; simpl; tauto.
  - apply andb_false_iff; left; apply Z.eqb_neq; apply H1; simpl; tauto.
Qed.

Definition default_match (st : nx_state) : Prop := x_match st = [t_dot; t_dot] \/ x_match st = [t_dot].

Lemma read_chars_plain : forall st a nchar first t acc, default_match st -> symtext a t ->
  len acc + len t <= nchar ->
  read_chars st a nchar 0 first acc t = Ok (acc ++ st_of a t).
Proof.
  intros st a nchar first t. induction t as [|c t IH]; intros acc M H L; simpl.
  - rewrite List.app_nil_r. reflexivity.
  - destruct (H c (or_introl eq_refl)) as [P [i E]].
    assert (T : text_mem [c] (x_match st) = false).
    { assert (c <> 46) by (apply (plain_not c 46 P); simpl; tauto).
      apply Z.eqb_neq in H0.
      destruct M as [M|M]; rewrite M; unfold t_dot, text_mem, text_eqb; simpl; rewrite H0; reflexivity. }
    rewrite T. rewrite E. cbn [bind].
    assert (K : (len acc =? nchar) = false).
    { apply Z.eqb_neq. unfold len in *. simpl in L. lia. }
    rewrite ?Z.add_0_l. rewrite K. rewrite IH.
    + rewrite <- app_assoc. simpl. unfold st_of. simpl. rewrite ?E. reflexivity.
    + exact M.
    + exact (symtext_cons_inv _ _ _ H).
    + rewrite len_app. unfold len in *. simpl in *. lia.
Qed.

(* reading one written row of nchar plain symbols, non-interleaved *)
Lemma read_states_row : forall st a nchar first t rest,
  default_match st -> x_interleave st = false -> plain_token a t -> len t = nchar -> 1 <= nchar ->
  read_states st a nchar 0 first None [] (t :: rest) = Ok (RsDone (st_of a t) a rest).
Proof.
  intros st a nchar first t rest M I PT L N.
  destruct (plain_token_tests a t PT) as [E1 [E2 [E3 E4]]].
  cbn [read_states]. change (len (@nil Z)) with 0. rewrite ?Z.add_0_l.
  replace (nchar <=? 0) with false by (symmetry; apply Z.leb_gt; lia).
  rewrite E1, E2, E3, E4.
  rewrite (read_chars_plain st a nchar first t [] M (proj1 PT)) by (unfold len in *; simpl; lia).
  cbn [app].
  destruct rest as [|r0 rest'].
  - cbn [read_states].
    rewrite ?Z.add_0_l. replace (nchar <=? len (st_of a t)) with true; [reflexivity|].
    symmetry. apply Z.leb_le. unfold st_of, len in *. rewrite map_length. lia.
  - cbn [read_states].
    rewrite ?Z.add_0_l. replace (nchar <=? len (st_of a t)) with true; [reflexivity|].
    symmetry. apply Z.leb_le. unfold st_of, len in *. rewrite map_length. lia.
Qed.

(* ---- taxa ---- *)

Section Reader.
Variable lower : text -> text.

Definition keyf (cs : bool) (l : text) : text := if cs then l else lower l.

Lemma taxon_match_key : forall cs x y, taxon_match lower cs x y = text_eqb (keyf cs x) (keyf cs y).
Proof. intros. unfold taxon_match, keyf. destruct cs; reflexivity. Qed.

Lemma find_taxon_none : forall cs l ns i, ~ In (keyf cs l) (map (keyf cs) ns) -> find_taxon lower cs l ns i = None.
Proof.
  intros cs l ns. induction ns as [|x ns IH]; intros i H; simpl; [reflexivity|].
  rewrite taxon_match_key. simpl in H.
  assert (E : text_eqb (keyf cs l) (keyf cs x) = false) by (apply text_eqb_neq; intro X; apply H; left; symmetry; exact X).
  rewrite E. apply IH. intro X. apply H. right. exact X.
Qed.

Lemma find_taxon_app : forall cs l pre post i, ~ In (keyf cs l) (map (keyf cs) pre) ->
  find_taxon lower cs l (pre ++ l :: post) i = Some (i + length pre)%nat.
Proof.
  intros cs l pre. induction pre as [|x pre IH]; intros post i H; simpl.
  - rewrite taxon_match_key. rewrite text_eqb_refl. f_equal. lia.
  - rewrite taxon_match_key. simpl in H.
    assert (E : text_eqb (keyf cs l) (keyf cs x) = false) by (apply text_eqb_neq; intro X; apply H; left; symmetry; exact X).
    rewrite E. rewrite IH by (intro X; apply H; right; exact X). f_equal. lia.
Qed.

(* ---- rows ---- *)

Definition numbered (done : matrix) : nrows := combine (seq 0 (length done)) (map snd done).

Lemma row_get_numbered_none : forall (done : matrix) k i, (length done + k <= i)%nat ->
  row_get i (combine (seq k (length done)) (map snd done)) = None.
Proof.
  induction done as [|r done IH]; intros k i H; simpl; [reflexivity|].
  destruct (Nat.eqb_spec i k); [simpl in H; lia|]. apply IH. simpl in H. lia.
Qed.

Lemma row_extend_numbered : forall (done : matrix) k i x, (length done + k <= i)%nat ->
  row_extend i x (combine (seq k (length done)) (map snd done))
  = combine (seq k (length done)) (map snd done) ++ [(i, x)].
Proof.
  induction done as [|r done IH]; intros k i x H; simpl; [reflexivity|].
  destruct (Nat.eqb_spec i k); [simpl in H; lia|]. rewrite IH by (simpl in H; lia). reflexivity.
Qed.

Lemma row_extend_last : forall (rows : nrows) i x y, row_get i rows = None ->
  row_extend i y (rows ++ [(i, x)]) = rows ++ [(i, x ++ y)].
Proof.
  induction rows as [|[j v] rows IH]; intros i x y H; simpl.
  - rewrite Nat.eqb_refl. reflexivity.
  - simpl in H. destruct (Nat.eqb i j); [discriminate|]. rewrite IH by exact H. reflexivity.
Qed.

Lemma row_get_last : forall (rows : nrows) i x, row_get i rows = None -> row_get i (rows ++ [(i, x)]) = Some x.
Proof.
  induction rows as [|[j v] rows IH]; intros i x H; simpl.
  - rewrite Nat.eqb_refl. reflexivity.
  - simpl in H. destruct (Nat.eqb i j); [discriminate|]. apply IH. exact H.
Qed.

Lemma combine_app_eq : forall (A B : Type) (l1 l1' : list A) (l2 l2' : list B), length l1 = length l2 ->
  combine (l1 ++ l1') (l2 ++ l2') = combine l1 l2 ++ combine l1' l2'.
Proof.
  induction l1 as [|x l1 IH]; intros l1' l2 l2' H; destruct l2 as [|y l2]; simpl in *; try discriminate; [reflexivity|].
  rewrite IH by lia. reflexivity.
Qed.

Lemma numbered_snoc : forall (done : matrix) r, numbered (done ++ [r]) = numbered done ++ [(length done, snd r)].
Proof.
  intros. unfold numbered. rewrite app_length. simpl. rewrite seq_app. rewrite map_app. simpl.
  rewrite combine_app_eq; [reflexivity|]. rewrite seq_length, map_length. reflexivity.
Qed.

Lemma set_ns_id : forall st, set_ns st (x_ns st) = st.
Proof. destruct st; reflexivity. Qed.

Lemma matrix_loop_skip_eol : forall fuel st a nchar rows first toks, x_cap st = false ->
  matrix_loop lower fuel st a nchar rows first (EOL :: toks) = matrix_loop lower fuel st a nchar rows first toks.
Proof. intros. destruct fuel; [reflexivity|]. cbn [matrix_loop]. rewrite H. reflexivity. Qed.

(* a row written with alphabet a and read with alphabet b *)
Definition reread (a b : alphabet) (r : text * list Z) : text * list Z :=
  (fst r, st_of b (symbols_as_string a (snd r))).

Definition nrow_ok2 (a b : alphabet) (nchar : Z) (r : text * list Z) : Prop :=
  label_token_ok (fst r) = true /\ symtext b (symbols_as_string a (snd r))
  /\ len (symbols_as_string a (snd r)) = nchar.

Lemma map_fst_reread : forall a b (l : matrix), map fst (map (reread a b) l) = map fst l.
Proof. intros. rewrite map_map. apply map_ext. intros [x y]. reflexivity. Qed.

Lemma matrix_loop_rows2 : forall a b nchar (simple : bool) todo done st fuel first rest,
  default_match st -> x_interleave st = false -> x_cap st = false ->
  1 <= nchar ->
  (length todo < fuel)%nat ->
  x_ns st = map fst done ++ (if simple then [] else map fst todo) ->
  (simple = true -> exists n, x_ntax st = Some n /\ len done + len todo <= n) ->
  (forall r, In r todo -> nrow_ok2 a b nchar r) ->
  NoDup (map (keyf (x_cs st)) (map fst (done ++ todo))) ->
  matrix_loop lower fuel st b nchar (numbered done) first
              (concat (map (row_tokens a) todo) ++ t_semi :: rest)
  = Ok (set_ns st (map fst (done ++ todo)), b, numbered (done ++ map (reread a b) todo), rest).
Proof.
  intros a b nchar simple todo. induction todo as [|[l s] todo IH];
    intros done st fuel first rest M I Cp N F Hns Hnt Hok Hnd.
  - destruct fuel as [|f]; [simpl in F; lia|].
    cbn [map concat app matrix_loop]. rewrite Cp. cbn [next_tok negb andb].
    change (is_eol t_semi) with false. cbv iota. rewrite text_eqb_refl. rewrite I. cbv iota.
    rewrite List.app_nil_r.
    assert (E : map fst done = x_ns st) by (rewrite Hns; destruct simple; simpl; rewrite ?List.app_nil_r; reflexivity).
    rewrite E. rewrite set_ns_id. cbn [map]. rewrite ?List.app_nil_r. reflexivity.
  - destruct fuel as [|f]; [simpl in F; lia|].
    destruct (Hok (l, s) (or_introl eq_refl)) as [Hl [T Hs]]. cbn [fst snd] in *.
    unfold label_token_ok in Hl. apply andb_true_iff in Hl. destruct Hl as [Hl1 Hl2].
    apply negb_true_iff in Hl1. apply negb_true_iff in Hl2.
    set (tk := symbols_as_string a s) in *.
    assert (Tne : tk <> []) by (intro X; rewrite X in Hs; unfold len in Hs; simpl in Hs; lia).
    cbn [map concat]. unfold row_tokens at 1. cbn [fst snd]. fold tk.
    rewrite (seq_tokens_plain b _ T Tne).
    cbn [app]. cbn [matrix_loop]. rewrite Cp. cbn [next_tok negb andb]. rewrite Hl1. rewrite Hl2.
    (* the taxon *)
    assert (Hnew : ~ In (keyf (x_cs st) l) (map (keyf (x_cs st)) (map fst done))).
    { rewrite !map_app in Hnd. simpl in Hnd. apply NoDup_remove_2 in Hnd.
      intro X. apply Hnd. apply in_or_app. left. exact X. }
    assert (GT : exists st1, get_taxon lower st l = Ok (st1, length done)
                 /\ x_ns st1 = map fst (done ++ [(l, st_of b tk)]) ++ (if simple then [] else map fst todo)
                 /\ x_match st1 = x_match st /\ x_interleave st1 = x_interleave st /\ x_cap st1 = x_cap st
                 /\ x_cs st1 = x_cs st /\ x_ntax st1 = x_ntax st
                 /\ forall v, set_ns st1 v = set_ns st v).
    { destruct simple.
      - exists (set_ns st (x_ns st ++ [l])).
        rewrite List.app_nil_r in Hns.
        destruct (Hnt eq_refl) as [n [En Ln]].
        split.
        + unfold get_taxon. rewrite Hns. rewrite (find_taxon_none _ _ _ _ Hnew). rewrite En.
          replace ((n =? 0) || (len (map fst done) <? n)) with true.
          2:{ symmetry. apply orb_true_iff. right. apply Z.ltb_lt. unfold len in *. rewrite map_length. simpl in Ln. lia. }
          rewrite map_length. reflexivity.
        + cbn. rewrite Hns. rewrite map_app. simpl. rewrite List.app_nil_r. repeat split; reflexivity.
      - exists st. split.
        + unfold get_taxon. rewrite Hns. cbn [map]. rewrite (find_taxon_app _ _ _ _ _ Hnew). rewrite map_length. reflexivity.
        + rewrite Hns. rewrite map_app. simpl. rewrite <- app_assoc. repeat split; reflexivity. }
    destruct GT as [st1 [G [Ns1 [M1 [I1 [C1 [Cs1 [Nt1 Set1]]]]]]]].
    rewrite G. cbn [bind].
    assert (RE : row_extend (length done) [] (numbered done) = numbered done ++ [(length done, [])]) by (unfold numbered; apply row_extend_numbered; lia).
    rewrite RE.
    assert (RG : row_get (length done) (numbered done) = None) by (unfold numbered; apply row_get_numbered_none; lia).
    rewrite (row_get_last _ _ _ RG). change (len (@nil Z)) with 0.
    rewrite I1, I. cbv iota.
    rewrite (read_states_row st1 b nchar _ tk _).
    + cbn [bind]. rewrite I1, I. cbv iota. cbn [negb andb].
      assert (Lst : len (st_of b tk) = nchar) by (unfold st_of, len in *; rewrite map_length; exact Hs).
      rewrite Lst.
      replace (0 + nchar <? nchar) with false by (symmetry; apply Z.ltb_ge; lia).
      rewrite (row_extend_last _ _ _ _ RG). cbn [app].
      rewrite matrix_loop_skip_eol by (rewrite C1; exact Cp).
      pose proof (numbered_snoc done (l, st_of b tk)) as NS. cbn [snd] in NS. rewrite <- NS.
      rewrite (IH (done ++ [(l, st_of b tk)]) st1 f).
      * rewrite Set1. rewrite andb_false_r.
        replace ((done ++ [(l, st_of b tk)]) ++ todo) with (done ++ (l, st_of b tk) :: todo)
          by (rewrite <- app_assoc; reflexivity).
        replace ((done ++ [(l, st_of b tk)]) ++ map (reread a b) todo)
          with (done ++ reread a b (l, s) :: map (reread a b) todo) by (rewrite <- app_assoc; reflexivity).
        rewrite !map_app. reflexivity.
      * unfold default_match. rewrite M1. exact M.
      * rewrite I1. exact I.
      * rewrite C1. exact Cp.
      * exact N.
      * simpl in F. lia.
      * exact Ns1.
      * intro Sm. destruct (Hnt Sm) as [n [En Ln]]. exists n. split; [rewrite Nt1; exact En|].
        rewrite len_app. unfold len in *. simpl in *. lia.
      * intros r Hr. apply Hok. right. exact Hr.
      * rewrite Cs1. rewrite <- app_assoc. rewrite !map_app in *. cbn [map fst] in *. exact Hnd.
    + unfold default_match. rewrite M1. exact M.
    + rewrite I1. exact I.
    + split; assumption.
    + exact Hs.
    + exact N.
Qed.

Definition nrow_ok (a : alphabet) (nchar : Z) (r : text * list Z) : Prop :=
  label_token_ok (fst r) = true /\ forallb (cell_ok a) (snd r) = true /\ len (snd r) = nchar.

Lemma reread_same : forall a nchar (l : matrix), (forall r, In r l -> nrow_ok a nchar r) -> map (reread a a) l = l.
Proof.
  intros a nchar l H. induction l as [|[x s] l IH]; [reflexivity|]. simpl. f_equal.
  - unfold reread. cbn [fst snd]. destruct (H (x, s) (or_introl eq_refl)) as [_ [Hc _]].
    destruct (symbols_as_string_ok a s Hc) as [_ [ST _]]. cbn [snd] in *. rewrite ST. reflexivity.
  - apply IH. intros r Hr. apply H. right. exact Hr.
Qed.

Lemma matrix_loop_rows : forall a nchar (simple : bool) todo done st fuel first rest,
  default_match st -> x_interleave st = false -> x_cap st = false ->
  1 <= nchar ->
  (length todo < fuel)%nat ->
  x_ns st = map fst done ++ (if simple then [] else map fst todo) ->
  (simple = true -> exists n, x_ntax st = Some n /\ len done + len todo <= n) ->
  (forall r, In r todo -> nrow_ok a nchar r) ->
  NoDup (map (keyf (x_cs st)) (map fst (done ++ todo))) ->
  matrix_loop lower fuel st a nchar (numbered done) first
              (concat (map (row_tokens a) todo) ++ t_semi :: rest)
  = Ok (set_ns st (map fst (done ++ todo)), a, numbered (done ++ todo), rest).
Proof.
  intros a nchar simple todo done st fuel first rest M I Cp N F Hns Hnt Hok Hnd.
  rewrite (matrix_loop_rows2 a a nchar simple todo done st fuel first rest); try assumption.
  - rewrite (reread_same a nchar todo Hok). reflexivity.
  - intros r Hr. destruct (Hok r Hr) as [A [B C0]]. destruct (symbols_as_string_ok a (snd r) B) as [T [_ LT]].
    split; [exact A|]. split; [exact T|]. unfold len in *. rewrite LT. exact C0.
Qed.

End Reader.

(* ---- the whole block ---- *)

Lemma all_digits_render : forall n, all_digits (render_nat n) = true.
Proof.
  intro n. unfold all_digits. pose proof (render_nat_nonnil n). pose proof (render_nat_digits n).
  destruct (render_nat n); [contradiction | assumption].
Qed.

Lemma rows_tokens_length : forall a (m : matrix), (length m <= length (concat (map (row_tokens a) m)))%nat.
Proof.
  induction m as [|r m IH]; simpl; [lia|]. rewrite app_length.
  assert (1 <= length (row_tokens a r))%nat by (unfold row_tokens; simpl; lia). lia.
Qed.

Lemma numbered_labels : forall (m : matrix) pre,
  map (fun r : nat * list Z => (nth (fst r) (pre ++ map fst m) [], snd r))
      (combine (seq (length pre) (length m)) (map snd m)) = m.
Proof.
  induction m as [|[l s] m IH]; intro pre; simpl; [reflexivity|].
  rewrite (app_nth2 pre (l :: map fst m) [] (le_n (length pre))). rewrite Nat.sub_diag. simpl. f_equal.
  specialize (IH (pre ++ [l])). rewrite app_length in IH. simpl in IH.
  rewrite Nat.add_1_r in IH. rewrite <- app_assoc in IH. simpl in IH. exact IH.
Qed.

Arguments render_nat : simpl never.
Arguments matrix_loop : simpl never.
Arguments alphabet_of_dtype : simpl never.
Arguments row_tokens : simpl never.


(* ---- statement by statement, on an explicit state record ---- *)

Arguments is_eol !t.
Arguments all_digits : simpl never.
Arguments parse_nat : simpl never.
Arguments block_loop : simpl never.
Arguments parse_matrix : simpl never.

Lemma digits_not_eol : forall v, all_digits v = true -> is_eol v = false.
Proof.
  intros v H. unfold all_digits in H. destruct v as [|c r]; [discriminate|].
  simpl in H. apply andb_true_iff in H. destruct H as [H _].
  destruct (digit_not_nlcr c H) as [A B]. unfold is_eol, text_eqb. simpl.
  apply Z.eqb_neq in A. apply Z.eqb_neq in B. rewrite A, B. reflexivity.
Qed.

Lemma next_tok_keep : forall t r, is_eol t = false -> next_tok false (t :: r) = Some (t, r).
Proof. intros. simpl. rewrite H. reflexivity. Qed.

Lemma block_loop_eq : forall lower resolve f st done toks,
  block_loop lower resolve (S f) st done toks =
    match next_tok (x_cap st) toks with
    | None => Ok (st, done, [])
    | Some (t0, r) =>
      let t := ucase t0 in
      if text_eqb t kw_END || text_eqb t kw_ENDBLOCK then Ok (st, done, skip_semi (x_cap st) r)
      else if text_eqb t kw_TITLE then
        do x <- parse_title (x_cap st) r ;;
        let (title, r') := x in block_loop lower resolve f (set_title st (Some title)) done r'
      else if text_eqb t kw_LINK then
        do x <- parse_link f (x_cap st) None
                           (match next_tok (x_cap st) r with Some (u, _) => Some (ucase u) | None => None end)
                           (match next_tok (x_cap st) r with Some (_, q) => q | None => [] end) ;;
        let (lk, r') := x in block_loop lower resolve f (set_link st lk) done r'
      else if text_eqb t kw_DIMENSIONS then
        do x <- parse_dimensions f st r ;;
        let (st', r') := x in block_loop lower resolve f st' done r'
      else if text_eqb t kw_FORMAT then
        do x <- req_tok (x_cap st) r ;;
        let (u, r1) := x in
        do y <- parse_format f st (ucase u) r1 ;;
        let (st', r') := y in block_loop lower resolve f st' done r'
      else if text_eqb t kw_MATRIX then
        do x <- parse_matrix lower resolve f st r ;;
        let '(st', br, r') := x in block_loop lower resolve f st' (done ++ [br]) r'
      else if text_eqb t kw_BEGIN then Err ParseErr
      else block_loop lower resolve f st done r
    end.
Proof. reflexivity. Qed.

Section Steps.
Variables (ns : list text) (ntax nchar0 : option Z) (dt0 : dtype) (sy : text) (gap mis : tok)
          (mt : list tok) (il cs : bool) (ti lk : option tok).

Lemma pd_nchar : forall f v n rest,
  all_digits v = true -> parse_nat v = Some n ->
  parse_dimensions (S (S f)) (mkNX ns ntax nchar0 dt0 sy gap mis mt il false cs ti lk)
                   (kw_NCHAR :: t_eq :: v :: t_semi :: rest)
  = Ok (mkNX ns ntax (Some n) dt0 sy gap mis mt il false cs ti lk, rest).
Proof.
  intros. cbn. unfold req_tok at 1. rewrite next_tok_keep by (apply digits_not_eol; assumption).
  cbn. rewrite H, H0. cbn. reflexivity.
Qed.

Lemma pd_ntax_nchar : forall f v1 n1 v2 n2 rest,
  all_digits v1 = true -> parse_nat v1 = Some n1 -> all_digits v2 = true -> parse_nat v2 = Some n2 ->
  parse_dimensions (S (S (S f))) (mkNX ns ntax nchar0 dt0 sy gap mis mt il false cs ti lk)
                   (kw_NTAX :: t_eq :: v1 :: kw_NCHAR :: t_eq :: v2 :: t_semi :: rest)
  = Ok (mkNX ns (Some n1) (Some n2) dt0 sy gap mis mt il false cs ti lk, rest).
Proof.
  intros. cbn. unfold req_tok at 1. rewrite next_tok_keep by (apply digits_not_eol; assumption).
  cbn. rewrite H, H0. cbn. unfold req_tok at 1. rewrite next_tok_keep by (apply digits_not_eol; assumption).
  cbn. rewrite H1, H2. cbn. reflexivity.
Qed.

Definition fmt_tail : list tok := [kw_GAP; t_eq; t_dash; kw_MISSING; t_eq; t_qm; kw_MATCHCHAR; t_eq; t_dot].

Lemma pf_fixed : forall f (kw : tok) (dt : dtype) rest,
  (kw = kw_DNA /\ dt = DtDna) \/ (kw = kw_RNA /\ dt = DtRna) \/ (kw = kw_NUCLEOTIDE /\ dt = DtNucleotide)
  \/ (kw = kw_PROTEIN /\ dt = DtProtein) ->
  parse_format (S (S (S (S (S f))))) (mkNX ns ntax nchar0 dt0 sy gap mis mt il false cs ti lk) kw_DATATYPE
    (t_eq :: kw :: kw_GAP :: t_eq :: t_dash :: kw_MISSING :: t_eq :: t_qm :: kw_MATCHCHAR :: t_eq :: t_dot :: t_semi :: rest)
  = Ok (mkNX ns ntax nchar0 dt sy t_dash t_qm [t_dot; t_dot] il false cs ti lk, rest).
Proof.
  intros f kw dt rest [[A B]|[[A B]|[[A B]|[A B]]]]; subst; cbn; reflexivity.
Qed.

End Steps.

Arguments parse_dimensions : simpl never.
Arguments parse_format : simpl never.

Lemma fixed_dtype_cases : forall dt, fixed_dtype dt = true ->
  exists kw, format_tokens dt [alphabet_of_dtype dt] [] = Ok (kw_DATATYPE :: t_eq :: kw :: fmt_tail)
  /\ ((kw = kw_DNA /\ dt = DtDna) \/ (kw = kw_RNA /\ dt = DtRna) \/ (kw = kw_NUCLEOTIDE /\ dt = DtNucleotide)
      \/ (kw = kw_PROTEIN /\ dt = DtProtein)).
Proof.
  intros dt H. destruct dt; try discriminate; eexists; (split; [reflexivity|]); tauto.
Qed.

Ltac norm_st := cbv beta iota delta [set_ns set_ntax set_nchar set_dtype set_symbols set_gap set_missing set_match
  set_interleave set_cap set_title set_link nx_init x_ns x_ntax x_nchar x_dtype x_symbols x_gap x_missing x_match
  x_interleave x_cap x_cs x_title x_link].

Section Block.
Variable lower : text -> text.

Lemma parse_matrix_fixed : forall fuel ns nt nchar dt sy gap mis il cs ti lk R,
  fixed_dtype dt = true -> nt <> 0 -> nchar <> 0 ->
  parse_matrix lower keep_ns fuel (mkNX ns (Some nt) (Some nchar) dt sy gap mis [t_dot; t_dot] il false cs ti lk) R
  = do x <- matrix_loop lower fuel (mkNX ns (Some nt) (Some nchar) dt sy gap mis [t_dot; t_dot] il false cs ti lk)
                        (alphabet_of_dtype dt) nchar [] None R ;;
    let '(st', a', rows, rest) := x in
    Ok (st', mkBR dt a' (map (fun r => (nth (fst r) (x_ns st') [], snd r)) rows) (x_ns st')
                  (x_title st') (x_link st'), rest).
Proof.
  intros. unfold parse_matrix. cbn [x_ntax x_nchar x_dtype nonzero].
  apply Z.eqb_neq in H0. apply Z.eqb_neq in H1. rewrite H0, H1.
  destruct dt; try discriminate; reflexivity.
Qed.

Theorem nexus_chars_roundtrip_l : forall (dt : dtype) (simple cs : bool) (m : matrix) (nchar : Z),
  fixed_dtype dt = true ->
  m <> [] -> 1 <= nchar ->
  forallb label_token_ok (map fst m) = true ->
  NoDup (map (keyf lower cs) (map fst m)) ->
  cells_ok (alphabet_of_dtype dt) m = true ->
  rectangular nchar m = true ->
  exists toks st',
    write_chars_block dt [alphabet_of_dtype dt] [] (mkNW simple None None) m = Ok toks
    /\ read_chars_block lower keep_ns
         (if simple then nx_init [] None cs else nx_init (map fst m) (Some (len m)) cs) toks
       = Ok (st', [mkBR dt (alphabet_of_dtype dt) m (map fst m) None None], [EOL; EOL; EOL]).
Proof.
  intros dt simple cs m nchar Hdt Hm Hn Hl Hnd Hc Hr.
  set (a := alphabet_of_dtype dt) in *.
  assert (Esites : zmax_list (map (fun r : text * list Z => len (snd r)) m) = Some nchar).
  { apply zmax_list_const; [destruct m; [contradiction | discriminate]|].
    intros x Hx. apply in_map_iff in Hx. destruct Hx as [r [E Hin]]. subst x.
    unfold rectangular in Hr. rewrite forallb_forall in Hr. apply Z.eqb_eq. apply (Hr r Hin). }
  assert (Hrows : forall r, In r m -> nrow_ok a nchar r).
  { intros r Hin. unfold nrow_ok. split; [|split].
    - rewrite forallb_forall in Hl. apply Hl. apply in_map. exact Hin.
    - unfold cells_ok in Hc. rewrite forallb_forall in Hc. apply (Hc r Hin).
    - unfold rectangular in Hr. rewrite forallb_forall in Hr. apply Z.eqb_eq. apply (Hr r Hin). }
  assert (Lm : 1 <= len m) by (destruct m; [contradiction | unfold len; simpl; lia]).
  destruct (fixed_dtype_cases dt Hdt) as [kw [Efmt Hkw]]. fold a in Efmt.
  unfold write_chars_block. rewrite Esites. rewrite Efmt. cbn [bind nw_simple nw_title nw_link].
  eexists. eexists. split; [reflexivity|].
  set (R := concat (map (row_tokens a) m) ++ [t_semi; EOL; kw_END; t_semi; EOL; EOL; EOL]).
  assert (LR : (length m <= length R)%nat).
  { unfold R. rewrite app_length. pose proof (rows_tokens_length a m). lia. }
  assert (NL : map (fun r : nat * list Z => (nth (fst r) (map fst m) [], snd r)) (numbered m) = m)
    by (exact (numbered_labels m [])).
  destruct simple.
  - (* DATA block: NTAX and NCHAR *)
    cbn [app]. unfold read_chars_block. cbn [nx_init x_cap next_tok negb andb].
    cbn.
    rewrite block_loop_eq. cbn. norm_st.
    rewrite pd_ntax_nchar with (n1 := len m) (n2 := nchar) by (try apply all_digits_render; apply parse_render_nat; lia).
    cbn [bind].
    rewrite block_loop_eq. cbn. norm_st.
    rewrite pf_fixed with (kw := kw) (dt := dt) by exact Hkw.
    cbn [bind].
    rewrite block_loop_eq. cbn. norm_st.
    rewrite parse_matrix_fixed by (try assumption; lia).
    rewrite matrix_loop_skip_eol by reflexivity.
    unfold R. fold a.
    match goal with |- context [matrix_loop lower ?fuel ?st _ _ _ _ _] =>
      pose proof (matrix_loop_rows lower a nchar true m [] st fuel None [EOL; kw_END; t_semi; EOL; EOL; EOL]) as ML
    end.
    change (numbered []) with (@nil (nat * list Z)) in ML. cbn [app] in ML.
    rewrite ML; clear ML.
    + cbn [bind]. norm_st.
      rewrite block_loop_eq. cbn. rewrite NL. reflexivity.
    + left; reflexivity.
    + reflexivity.
    + reflexivity.
    + exact Hn.
    + pose proof LR as LR'. unfold R in LR'. lia.
    + reflexivity.
    + intros _. exists (len m). split; [reflexivity | unfold len; simpl; lia].
    + exact Hrows.
    + exact Hnd.
  - (* CHARACTERS block: the namespace and NTAX come from the TAXA block *)
    cbn [app]. unfold read_chars_block. cbn [nx_init x_cap next_tok negb andb].
    cbn.
    rewrite block_loop_eq. cbn. norm_st.
    rewrite pd_nchar with (n := nchar) by (try apply all_digits_render; apply parse_render_nat; lia).
    cbn [bind].
    rewrite block_loop_eq. cbn. norm_st.
    rewrite pf_fixed with (kw := kw) (dt := dt) by exact Hkw.
    cbn [bind].
    rewrite block_loop_eq. cbn. norm_st.
    rewrite parse_matrix_fixed by (try assumption; lia).
    rewrite matrix_loop_skip_eol by reflexivity.
    unfold R. fold a.
    match goal with |- context [matrix_loop lower ?fuel ?st _ _ _ _ _] =>
      pose proof (matrix_loop_rows lower a nchar false m [] st fuel None [EOL; kw_END; t_semi; EOL; EOL; EOL]) as ML
    end.
    change (numbered []) with (@nil (nat * list Z)) in ML. cbn [app] in ML.
    rewrite ML; clear ML.
    + cbn [bind]. norm_st.
      rewrite block_loop_eq. cbn. rewrite NL. reflexivity.
    + left; reflexivity.
    + reflexivity.
    + reflexivity.
    + exact Hn.
    + pose proof LR as LR'. unfold R in LR'. lia.
    + reflexivity.
    + intro X. discriminate.
    + exact Hrows.
    + exact Hnd.
Qed.

End Block.
