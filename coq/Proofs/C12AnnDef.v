(* C12, second wave: the state of the annotation set that `annotations.add` builds for an annotable copy.

   AnnState s y done : y has no `_annotations` when done = [], otherwise y._annotations is an AnnotationSet
   (class AnnotationSet, target y) whose _item_list lists exactly the second components of `done`, in order,
   and whose _item_set holds the same members. *)
From Coq Require Import ZArith List Bool Lia.
From DV Require Import Model.PyPrims Model.C12Model Model.C12Spec2 Proofs.C12Heap Proofs.C12Inv Proofs.C12Copy Proofs.C12Iso Proofs.C12Own.
Import ListNotations.
Open Scope Z_scope.

Lemma bset_append : forall b k v, bget b k = None -> bset b k v = b ++ [(k, v)].
Proof.
  induction b as [|[k0 v0] r IH]; simpl; intros k v H; [reflexivity|].
  destruct (val_eqb k k0); [discriminate|]. rewrite IH by exact H. reflexivity.
Qed.

Lemma ibody_app : forall done i p, ibody i (done ++ [p]) = ibody i done ++ [(pidx (i + Z.of_nat (length done)), R (snd p))].
Proof.
  induction done as [|q r IH]; intros i p; cbn [ibody app].
  - cbn [length]. rewrite Z.add_0_r. reflexivity.
  - rewrite IH. cbn [length]. replace (i + 1 + Z.of_nat (length r)) with (i + Z.of_nat (S (length r))) by lia. reflexivity.
Qed.

Lemma ibody_length : forall done i, length (ibody i done) = length done.
Proof. induction done as [|q r IH]; intros i; simpl; [reflexivity | rewrite IH; reflexivity]. Qed.

Lemma ibody_keys : forall done i k v, In (k, v) (ibody i done) -> exists j, k = pidx j /\ i <= j < i + Z.of_nat (length done).
Proof.
  induction done as [|q r IH]; intros i k v H; simpl in H; [contradiction|].
  destruct H as [H|H].
  - inversion H; subst. exists i. split; [reflexivity|]. cbn [length]. lia.
  - destruct (IH (i + 1) k v H) as [j [E Rj]]. exists j. split; [exact E|]. cbn [length]. lia.
Qed.

Lemma bget_None_notin : forall b k, (forall v, ~ In (k, v) b) -> bget b k = None.
Proof.
  intros b k H. destruct (bget b k) as [v|] eqn:E; [|reflexivity]. exfalso. apply (H v). apply bget_In. exact E.
Qed.

Lemma pidx_inj : forall a b, pidx a = pidx b -> a = b.
Proof. unfold pidx. intros a b H. assert (X : INT_BASE + a = INT_BASE + b) by congruence. lia. Qed.

Lemma ibody_fresh_key : forall done, bget (ibody 0 done) (pidx (Z.of_nat (length done))) = None.
Proof.
  intros done. apply bget_None_notin. intros v I. destruct (ibody_keys _ _ _ _ I) as [j [E Rj]].
  apply pidx_inj in E. lia.
Qed.

Lemma zbody_app : forall done p, zbody (done ++ [p]) = zbody done ++ [(R (snd p), PNone)].
Proof. intros. unfold zbody. rewrite map_app. reflexivity. Qed.

Lemma zbody_fresh_key : forall done a, ~ In a (map snd done) -> bget (zbody done) (R a) = None.
Proof.
  intros done a N. apply bget_None_notin. intros v I. unfold zbody in I. apply in_map_iff in I.
  destruct I as [p [E I]]. inversion E; subst. apply N. apply in_map. exact I.
Qed.

Lemma hget_put_same' : forall s y k v x, hget (sh s) y = Some x ->
  hget (sh (put s y k v)) y = Some (mkObj (ocls x) (okind x) (bset (obody x) k v)).
Proof. intros. apply put_get_same. assumption. Qed.

Lemma annotations_add_state : forall s dst a1 a2 s' done dob,
  hget (sh s) dst = Some dob -> is_annk (okind dob) = true -> AnnState s dst done -> ~ In a2 (map snd done) ->
  annotations_add s dst (R a2) = Ok s' -> AnnState s' dst (done ++ [(a1, a2)]).
Proof.
  intros s dst a1 a2 s' done dob Gd AK AS NI H. unfold annotations_add in H.
  assert (Rd := hget_Some_range _ _ _ Gd).
  destruct done as [|p r].
  - (* first annotation: the set is created *)
    simpl in AS. rewrite AS in H.
    destruct (new_annset_shape s CLS_ANNSET (R dst)) as [SH0 [SH1 [SH2 [SHL SHO]]]].
    destruct (new_annset s CLS_ANNSET (R dst)) as [s1 sy] eqn:NA. cbn [fst snd] in *.
    assert (Esy : sy = hlen (sh s)) by (rewrite new_annset_eq in NA; inversion NA; reflexivity). subst sy.
    set (y := hlen (sh s)) in *.
    set (s2 := put s1 dst NM_ANN (R y)) in *.
    assert (Gd1 : hget (sh s1) dst = Some dob) by (rewrite SHO by (unfold y; lia); exact Gd).
    assert (G2y : hget (sh s2) y = hget (sh s1) y) by (unfold s2; apply put_get_other; unfold y; lia).
    assert (G2l : hget (sh s2) (y + 1) = hget (sh s1) (y + 1)) by (unfold s2; apply put_get_other; unfold y; lia).
    assert (G2z : hget (sh s2) (y + 2) = hget (sh s1) (y + 2)) by (unfold s2; apply put_get_other; unfold y; lia).
    unfold oset_add in H. unfold body_of in H at 1 2. rewrite G2y, SH0 in H. simpl in H.
    unfold body_of in H at 1. rewrite G2z, SH2 in H. simpl in H.
    set (s3 := put s2 (y + 2) (R a2) PNone) in *.
    assert (G3l : hget (sh s3) (y + 1) = Some (mkObj CLS_LIST KList [])).
    { unfold s3. rewrite put_get_other by lia. rewrite G2l. exact SH1. }
    unfold body_of in H at 1. rewrite G3l in H. simpl in H. inversion H; subst s'. clear H.
    simpl. exists y, (y + 1), (y + 2).
    assert (G3z : hget (sh s3) (y + 2) = Some (mkObj CLS_SET KSet [(R a2, PNone)])).
    { unfold s3. rewrite (put_get_same s2 (y + 2) (R a2) PNone _ (eq_trans G2z SH2)). reflexivity. }
    split; [|split; [|split]].
    + unfold body_of. rewrite put_get_other by (unfold y; lia). unfold s3. rewrite put_get_other by (unfold y; lia).
      unfold s2. rewrite (put_get_same s1 dst NM_ANN (R y) _ Gd1). simpl. apply bget_bset_same.
    + rewrite put_get_other by lia. unfold s3. rewrite put_get_other by lia. rewrite G2y. exact SH0.
    + rewrite (put_get_same s3 (y + 1) (pidx 0) (R a2) _ G3l). reflexivity.
    + rewrite put_get_other by lia. exact G3z.
  - (* the set exists *)
    destruct AS as [sy [ly [zy [BA [Gs [Gl Gz]]]]]]. rewrite BA in H.
    assert (Dsl : sy <> ly) by (intro X; subst ly; rewrite Gs in Gl; discriminate).
    assert (Dsz : sy <> zy) by (intro X; subst zy; rewrite Gs in Gz; discriminate).
    assert (Dlz : ly <> zy) by (intro X; subst zy; rewrite Gl in Gz; discriminate).
    assert (Dds : dst <> sy) by (intro X; subst sy; rewrite Gd in Gs; inversion Gs; subst dob; discriminate AK).
    assert (Ddl : dst <> ly) by (intro X; subst ly; rewrite Gd in Gl; inversion Gl; subst dob; discriminate AK).
    assert (Ddz : dst <> zy) by (intro X; subst zy; rewrite Gd in Gz; inversion Gz; subst dob; discriminate AK).
    unfold oset_add in H. unfold body_of in H at 1 2. rewrite Gs in H. simpl in H.
    unfold body_of in H at 1. rewrite Gz in H. cbn [obody] in H.
    rewrite (zbody_fresh_key (p :: r) a2 NI) in H.
    set (s1 := put s zy (R a2) PNone) in *.
    assert (G1l : hget (sh s1) ly = Some (mkObj CLS_LIST KList (ibody 0 (p :: r)))).
    { unfold s1. rewrite put_get_other by exact Dlz. exact Gl. }
    unfold body_of in H at 1. rewrite G1l in H. cbn [obody] in H. inversion H; subst s'. clear H.
    change ((p :: r) ++ [(a1, a2)]) with (p :: (r ++ [(a1, a2)])).
    cbn [AnnState]. exists sy, ly, zy. split; [|split; [|split]].
    + unfold body_of. rewrite put_get_other by exact Ddl. unfold s1. rewrite put_get_other by exact Ddz.
      unfold body_of in BA. exact BA.
    + rewrite put_get_other by exact Dsl. unfold s1. rewrite put_get_other by exact Dsz. exact Gs.
    + rewrite (put_get_same s1 ly _ (R a2) _ G1l). cbn [ocls okind obody].
      rewrite ibody_length. rewrite (bset_append _ _ _ (ibody_fresh_key (p :: r))).
      change (p :: r ++ [(a1, a2)]) with ((p :: r) ++ [(a1, a2)]). rewrite ibody_app. reflexivity.
    + rewrite put_get_other by (intro X; apply Dlz; symmetry; exact X).
      unfold s1. rewrite (put_get_same s zy (R a2) PNone _ Gz). cbn [ocls okind obody].
      rewrite (bset_append _ _ _ (zbody_fresh_key (p :: r) a2 NI)).
      change (p :: r ++ [(a1, a2)]) with ((p :: r) ++ [(a1, a2)]). rewrite zbody_app. reflexivity.
Qed.

Section AnnOK.
Variable h0 : heap.
Variable seeds : list Z.
Notation n0 := (hlen h0).

(* the annotation set of y is one of the objects FrameFrom protects *)
Lemma annstate_frame : forall (EX : Z -> Prop) s s' y done oy, FrameFrom h0 EX s s' -> ~ EX y -> n0 <= y ->
  hget (sh s) y = Some oy -> is_annk (okind oy) = true -> AnnState s y done -> AnnState s' y done.
Proof.
  intros EX s s' y done oy F NX Hy Gy AK AS. destruct (F y oy NX Hy Gy AK) as [[oy' [Gy' [K' B']]] C].
  destruct done as [|p r].
  - simpl in *. unfold body_of in *. rewrite Gy in AS. rewrite Gy'. rewrite B'. exact AS.
  - destruct AS as [sy [ly [zy [BA [Gs [Gl Gz]]]]]]. unfold body_of in BA. rewrite Gy in BA.
    destruct (C sy BA) as [C1 C2]. exists sy, ly, zy.
    split; [unfold body_of; rewrite Gy', B'; exact BA|].
    split; [rewrite C1; exact Gs|]. split.
    + rewrite (C2 _ NM_ILIST ly Gs (or_introl eq_refl) eq_refl). exact Gl.
    + rewrite (C2 _ NM_ISET zy Gs (or_intror eq_refl) eq_refl). exact Gz.
Qed.

(* the annotation set of the copy y of x lists the recorded copies of x's annotations, in order *)
Definition AnnOK (s : st) (x y : Z) : Prop :=
  forall ob, hget h0 x = Some ob -> is_annk (okind ob) = true ->
    exists done, AnnState s y done /\ map fst done = refs_of (ann_items h0 ob) /\ (forall p, In p done -> In p (sc s)).

Lemma annok_persist : forall (EX : Z -> Prop) s s' x y, Inv2 h0 s -> In (x, y) (sc s) -> AnnOK s x y ->
  FrameFrom h0 EX s s' -> ~ EX y -> (forall p, In p (sc s) -> In p (sc s')) -> AnnOK s' x y.
Proof.
  intros EX s s' x y J I A F NX M ob G AK. destruct (A ob G AK) as [done [AS [E D]]].
  destruct (j_scr _ _ J x y I) as [_ Ry].
  destruct (j_sound _ _ J x y I) as [oa [oy [Ga [Gy [_ [K _]]]]]].
  rewrite G in Ga. inversion Ga; subst oa.
  exists done. split; [|split; [exact E | intros p Ip; apply M; apply D; exact Ip]].
  eapply annstate_frame; [exact F | exact NX | lia | exact Gy | rewrite <- K; exact AK | exact AS].
Qed.

(* all recorded pairs allocated since sb, except the open ones *)
Definition AnnAcc (OP : Z -> Prop) (sb s : st) : Prop :=
  forall x y, In (x, y) (sc s) -> hlen (sh sb) <= y -> ~ OP y -> AnnOK s x y.

Lemma annacc_step : forall (OP EX : Z -> Prop) sb s s', Inv2 h0 s -> AnnAcc OP sb s -> FrameFrom h0 EX s s' ->
  (forall y, EX y -> OP y) -> (forall p, In p (sc s) -> In p (sc s')) ->
  (forall x y, In (x, y) (sc s') -> In (x, y) (sc s) \/ (hlen (sh sb) <= y -> ~ OP y -> AnnOK s' x y)) ->
  AnnAcc OP sb s'.
Proof.
  intros OP EX sb s s' J A F W M NEW x y I Hy NO. destruct (NEW x y I) as [Iold|N]; [|apply N; assumption].
  eapply annok_persist; [exact J | exact Iold | apply A; assumption | exact F | | exact M].
  intro X. apply NO. apply W. exact X.
Qed.

End AnnOK.
