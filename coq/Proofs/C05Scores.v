(* C05: per-tree scores of SplitDistribution, frequency_of_bipartition, topology frequencies *)
From Coq Require Import ZArith QArith Qabs Qreduction List Bool Lia Lqa Permutation Setoid.
From DV Require Import Model.PyPrims Gen.BitFns Gen.Consts Model.C05Model Model.C05Spec Model.C05Model2
     Proofs.C05Lists Proofs.C05Freq Proofs.C05Trees.
Import ListNotations.
Open Scope Z_scope.

(* ---------------------------------------------------------------- split_support_iter *)

Lemma counted_table_val c ts s :
  (forall t, In t ts -> NoDup (splits_of t)) ->
  (aget_d s 0%Q (snd (get_freqs (count_trees c sd_empty ts))) == exact_freq c ts s)%Q.
Proof.
  intro ND. rewrite (get_freqs_val c _ ts s (rep_counted c ts) (counted_cache c ts)).
  now apply exact_freq_m_nodup.
Qed.

Theorem split_support_iter_exact_l c ts post ext t :
  (forall t, In t ts -> NoDup (splits_of t)) ->
  Forall2 (fun q n => (q == exact_freq c ts (sn_split n))%Q)
          (snd (split_support_iter (count_trees c sd_empty ts) post ext t))
          (support_nodes post ext t).
Proof.
  intro ND. unfold split_support_iter.
  pose proof (counted_table_val c ts) as V.
  destruct (get_freqs (count_trees c sd_empty ts)) as [d' ftbl]. simpl in *.
  induction (support_nodes post ext t) as [|n r IH]; simpl; constructor; [now apply V | exact IH].
Qed.

Lemma fold_qplus l : forall a, (fold_left qplus l a == a + qsum l)%Q.
Proof.
  induction l as [|x r IH]; intro a; simpl; [ring|]. rewrite IH, qplus_eq. ring.
Qed.

Lemma qsum_forall2 {A} (f : A -> Q) qs ns :
  Forall2 (fun q n => (q == f n)%Q) qs ns -> (qsum qs == qsum (map f ns))%Q.
Proof. induction 1 as [|q n qs ns E F IH]; simpl; [reflexivity | now rewrite E, IH]. Qed.

(* sum_of_split_support_on_tree = sum of the exact frequencies of the visited nodes' splits
   (seed node included; leaves only with include_external_splits) *)
Theorem tree_sum_score_exact_l c ts ext t :
  (forall t, In t ts -> NoDup (splits_of t)) ->
  (snd (sum_of_split_support_on_tree (count_trees c sd_empty ts) ext t)
   == qsum (map (fun n => exact_freq c ts (sn_split n)) (support_nodes false ext t)))%Q.
Proof.
  intro ND. unfold sum_of_split_support_on_tree.
  pose proof (split_support_iter_exact_l c ts false ext t ND) as F.
  destruct (split_support_iter (count_trees c sd_empty ts) false ext t) as [d' l]. simpl in *.
  rewrite fold_qplus, (qsum_forall2 _ _ _ F). ring.
Qed.


Lemma fold_prod_nz l : forall a,
  (fold_left (fun acc f => if Qeq_bool f 0 then acc else qmult acc f) l a == a * qprod_nz l)%Q.
Proof.
  induction l as [|x r IH]; intro a; simpl; [ring|].
  destruct (Qeq_bool x 0); rewrite IH; [reflexivity | rewrite qmult_eq; ring].
Qed.

Lemma qprod_nz_forall2 {A} (f : A -> Q) qs ns :
  Forall2 (fun q n => (q == f n)%Q) qs ns -> (qprod_nz qs == qprod_nz (map f ns))%Q.
Proof.
  induction 1 as [|q n qs ns E F IH]; simpl; [reflexivity|].
  rewrite (Qeq_bool_congr _ _ E). destruct (Qeq_bool (f n) 0); [exact IH | now rewrite E, IH].
Qed.

(* exp(log_product_of_split_support_on_tree) in exact arithmetic: product of the non-zero ones *)
Theorem tree_product_score_exact_l c ts ext t :
  (forall t, In t ts -> NoDup (splits_of t)) ->
  (snd (product_of_split_support_on_tree (count_trees c sd_empty ts) ext t)
   == qprod_nz (map (fun n => exact_freq c ts (sn_split n)) (support_nodes false ext t)))%Q.
Proof.
  intro ND. unfold product_of_split_support_on_tree.
  pose proof (split_support_iter_exact_l c ts false ext t ND) as F.
  destruct (split_support_iter (count_trees c sd_empty ts) false ext t) as [d' l]. simpl in *.
  rewrite fold_prod_nz, (qprod_nz_forall2 _ _ _ F). ring.
Qed.

(* both traversal orders visit the same nodes *)
Lemma post_pre_perm : forall t, Permutation (st_postorder t) (st_preorder t).
Proof.
  induction t as [s l ks IH] using stree_ind'. simpl.
  apply Permutation_sym. apply Permutation_cons_app. rewrite app_nil_r.
  apply Permutation_sym. clear s l. induction IH as [|k r Hk Hr IHr]; simpl; [constructor|].
  now apply Permutation_app.
Qed.

Lemma filter_perm {A} (f : A -> bool) l l' : Permutation l l' -> Permutation (filter f l) (filter f l').
Proof.
  induction 1; simpl.
  - constructor.
  - destruct (f x); [now constructor | assumption].
  - destruct (f x), (f y); try apply perm_swap; try reflexivity.
  - etransitivity; eassumption.
Qed.

Theorem support_nodes_perm_l ext t : Permutation (support_nodes true ext t) (support_nodes false ext t).
Proof. unfold support_nodes. apply filter_perm. apply post_pre_perm. Qed.

(* ---------------------------------------------------------------- frequency_of_bipartition *)


Lemma filter_map_length {A B} (g : A -> B) (p : B -> bool) l :
  length (filter p (map g l)) = length (filter (fun x => p (g x)) l).
Proof. induction l as [|x r IH]; simpl; [reflexivity|]. destruct (p (g x)); simpl; now rewrite IH. Qed.

(* all trees rooted: the fraction of trees whose encoding lists s; all trees unrooted: the
   fraction listing the normalised form of s.  Always unweighted. *)
Theorem frequency_of_bipartition_exact_l all s (unrooted : bool) ts :
  ts <> [] ->
  let key := if unrooted then py_normalize_bitmask s all 1 else s in
  (frequency_of_bipartition all s (map (fob_of (Some unrooted)) ts)
   == inject_Z (Z.of_nat (length (filter (contains_split key) ts))) / inject_Z (Z.of_nat (length ts)))%Q.
Proof.
  intros NE key. unfold frequency_of_bipartition.
  destruct (map (fob_of (Some unrooted)) ts) eqn:E.
  - destruct ts; [congruence | discriminate].
  - rewrite <- E. rewrite qdiv_eq, map_length, filter_map_length.
    assert (X : filter (fun x => fob_found all s (fob_of (Some unrooted) x)) ts = filter (contains_split key) ts).
    { apply filter_ext. intro t. unfold fob_found, fob_of, contains_split, key. simpl. destruct unrooted; reflexivity. }
    rewrite X. reflexivity.
Qed.

(* ---------------------------------------------------------------- split_bitmask_set_frequencies *)

Lemma key_eqb_eq a b : key_eqb a b = true <-> a = b.
Proof. unfold key_eqb. apply list_eqb_eq. intros; apply Z.eqb_eq. Qed.

Lemma key_eqb_refl a : key_eqb a a = true.
Proof. now apply key_eqb_eq. Qed.


Lemma kget_kadd_same k w l : (kget_d k (kadd k w l) == kget_d k l + w)%Q.
Proof.
  unfold kget_d. induction l as [|[k' v] r IH]; simpl.
  - rewrite key_eqb_refl, qplus_eq. reflexivity.
  - destruct (key_eqb k k') eqn:E; simpl; rewrite E; [rewrite qplus_eq; reflexivity | exact IH].
Qed.

Lemma kget_kadd_other k k' w l : k <> k' -> kget k' (kadd k w l) = kget k' l.
Proof.
  intro N. induction l as [|[k2 v] r IH]; simpl.
  - destruct (key_eqb k' k) eqn:E; [apply key_eqb_eq in E; congruence | reflexivity].
  - destruct (key_eqb k k2) eqn:E; simpl.
    + apply key_eqb_eq in E. subst k2.
      destruct (key_eqb k' k) eqn:E2; [apply key_eqb_eq in E2; congruence | reflexivity].
    + destruct (key_eqb k' k2); [reflexivity | exact IH].
Qed.


Lemma set_counts_val sw : forall acc K,
  (kget_d K (fold_left (fun acc sw => kadd (canon_set (fst sw)) (snd sw) acc) sw acc)
   == kget_d K acc + topo_weight K sw)%Q.
Proof.
  induction sw as [|[ss w] r IH]; intros acc K; simpl; [ring|].
  rewrite IH. destruct (key_eqb (canon_set ss) K) eqn:E.
  - apply key_eqb_eq in E. subst K. rewrite kget_kadd_same. ring.
  - assert (N : canon_set ss <> K) by (intro X; apply key_eqb_eq in X; congruence).
    unfold kget_d. rewrite (kget_kadd_other _ _ w acc N). ring.
Qed.

Lemma kget_map_val g K l :
  kget K (map (fun kv : list Z * Q => (fst kv, g (snd kv))) l) = option_map g (kget K l).
Proof.
  induction l as [|[k v] r IH]; simpl; [reflexivity|]. destruct (key_eqb K k); [reflexivity | exact IH].
Qed.

(* the frequency reported for topology K = (weight of the trees with split set K) / normaliser *)
Theorem topology_frequency_exact_l (a : ta) K :
  (kget_d K (split_bitmask_set_frequencies a)
   == topo_weight K (zip (ta_splits a) (ta_weights a)) / normalization_weight (ta_sd a))%Q.
Proof.
  unfold split_bitmask_set_frequencies, kget_d.
  rewrite (kget_map_val (fun v => qdiv v (normalization_weight (ta_sd a)))) .
  pose proof (set_counts_val (zip (ta_splits a) (ta_weights a)) [] K) as V.
  unfold set_counts. unfold kget_d in V. simpl in V.
  destruct (kget K (fold_left (fun acc sw => kadd (canon_set (fst sw)) (snd sw) acc)
                              (zip (ta_splits a) (ta_weights a)) [])) as [v|]; simpl.
  - rewrite qdiv_eq, V. unfold Qdiv. ring.
  - assert (T0 : (topo_weight K (zip (ta_splits a) (ta_weights a)) == 0)%Q) by lra.
    rewrite T0. unfold Qdiv. ring.
Qed.
