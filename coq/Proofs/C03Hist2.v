(* C03 proofs: the invariant over histories of the FULL operation language of Model/HeapOps.v. *)
From Coq Require Import ZArith List Bool Lia Permutation.
From DV Require Import Model.PyPrims Model.Tree Model.Heap Model.HeapOps Model.C03Spec
  Proofs.C03Base Proofs.C03Abs Proofs.C03Local Proofs.C03Prims Proofs.C03Collapse Proofs.C03Suppress
  Proofs.C03Reseed Proofs.C03Order Proofs.C03Ops Proofs.C03Ops2 Proofs.C03Unweighted Proofs.C03PruneLoops
  Proofs.C03SpecLinks Proofs.C03Hist Proofs.C03More Proofs.C03More2 Proofs.C03SetKids Proofs.C03More3
  Proofs.C03RemoveSu Proofs.C03Resolve Proofs.C03Midpoint.
Import ListNotations.
Open Scope Z_scope.

(* arguments of Node.set_child_nodes(p, l): the listed nodes are roots of pairwise disjoint
   represented subtrees (children of p, deeper descendants of p, or detached subtrees) that contain
   neither p nor any node outside p's subtree *)
Definition set_kids_args (h : heap) (p : Z) (l : list Z) : Prop :=
  exists c x lb e ks todo,
    WFt h (plug c (T p x lb e ks)) /\ map t_id todo = l /\
    Forall (fun k => exists par0, rep h par0 k) todo /\ NoDup (flat_map ids todo) /\
    (forall j, In j (flat_map ids todo) -> j <> p /\ ~ In j (cids c)) /\
    (forall j, In j (flat_map ids todo) -> j < next h).

(* to_outgroup_position WITH unifurcation suppression: outside the two classes where the library
   is broken (C03More2.to_outgroup_su_refuted_seed / _unary) *)
Definition outgroup_su_ok (h : heap) (og : Z) : Prop :=
  length (kids h og) <> 1%nat /\ (parent h og = Some (seed h) -> kids h (seed h) <> [og]).

Inductive covered2 (h : heap) : op -> Prop :=
| c2_old o : covered h o -> covered2 h o
| c2_add_child p ci : live h p -> detached h ci -> covered2 h (OAddChild p ci)
| c2_insert_child_detached p n ci : live h p -> detached h ci -> covered2 h (OInsertChild p n ci)
| c2_insert_child_move p n ci : live h p -> In ci (kids h p) -> covered2 h (OInsertChild p n ci)
| c2_remove_child_su p ci : live h p -> In ci (kids h p) -> covered2 h (ORemoveChild p ci true)
| c2_set_child_nodes_own p l : live h p -> (forall ci, In ci l -> In ci (kids h p)) -> covered2 h (OSetChildNodes p l)
| c2_set_child_nodes p l : set_kids_args h p l -> covered2 h (OSetChildNodes p l)
| c2_set_parent_node ci np :
    live h ci -> ci <> seed h ->
    match np with None => True | Some q => live h q /\ ~ In q (subtree_ids h ci) end ->
    covered2 h (OSetParentNode ci np)
| c2_collapse_clade ci : live h ci -> covered2 h (OCollapseClade ci)
| c2_polytomize_root u : covered2 h (OPolytomizeRoot u)
| c2_to_outgroup_su og ub : live h og -> og <> seed h -> outgroup_su_ok h og -> covered2 h (OToOutgroup og ub true)
| c2_midpoint a b ub su cb : covered2 h (ORerootAtMidpoint a b ub su cb)
| c2_resolve limit sc ub : run_op (OResolvePolytomies limit sc ub) h <> HFuel -> covered2 h (OResolvePolytomies limit sc ub)
| c2_prune_nodes nodes plwt ub su : covered2 h (OPruneNodes nodes plwt ub su)
| c2_prune_taxa taxa ub su ol oi : covered2 h (OPruneTaxa taxa ub su ol oi)
| c2_rotate perms : run_op (ORandomlyRotate perms) h <> HFuel -> covered2 h (ORandomlyRotate perms)
| c2_reorient pick perms ub :
    reorient_ok h pick -> run_op (ORandomlyReorient pick perms ub) h <> HFuel ->
    covered2 h (ORandomlyReorient pick perms ub)
| c2_shuffle ii draws : run_op (OShuffleTaxa ii draws) h <> HFuel -> covered2 h (OShuffleTaxa ii draws).

Definition ends_wf (r : hres) : Prop :=
  exists h', WF h' /\ (r = HOk h' \/ exists e, r = HErr e h').

Lemma finishes_ends r errs : finishes r WF errs -> ends_wf r.
Proof.
  intros [[h' [E W]]|[e [h' [E [_ W]]]]]; exists h'; (split; [exact W|]); [left; exact E|right; exists e; exact E].
Qed.

Lemma live_in h t x : WFt h t -> live h x -> In x (ids t).
Proof. intros W [t' [A Hx]]. rewrite (abs_WFt h t W) in A. inversion A; subst. exact Hx. Qed.

Theorem op_wf2_l h o : WF h -> covered2 h o -> ends_wf (run_op o h).
Proof.
  intros W C. destruct C.
  - destruct (op_wf_l h o W H) as [h' [W' [E|[e [E _]]]]]; exists h'; (split; [exact W'|]); [left; exact E|right; exists e; exact E].
  - simpl. destruct (add_child_detached_wf h p ci H H0) as [h' [E W']]. exists h'. split; [exact W'|left; exact E].
  - simpl. eexists. split; [apply (insert_child_detached_wf h p n ci H H0)|left; reflexivity].
  - simpl. destruct W as [t W]. destruct (insert_child_move_wf h t p n ci W (live_in h t p W H) H0) as [t' [W' _]].
    eexists. split; [exists t'; exact W'|left; reflexivity].
  - simpl. destruct W as [t W].
    destruct (remove_child_su_wf h t p ci W (live_in h t p W H) H0) as [h' [t' [c0 [sub [ex [E [W' _]]]]]]].
    exists h'. split; [exists t'; exact W'|left; exact E].
  - simpl. destruct W as [t W]. destruct (live_ctx h t p W H) as [c [s [-> Es]]].
    destruct s as [p' x lb e ks]. simpl in Es. subst p'. pose proof W as [W0 S].
    pose proof (kids_of_focus h c _ W0) as K. simpl in K.
    destruct (set_child_nodes_own h c p x lb e ks l W0) as [h' [ks' [E [W' [_ [_ [[_ [_ P3]] _]]]]]]].
    { intros ci Hc. rewrite <- K. apply H0, Hc. }
    exists h'. split; [|left; exact E]. exists (plug c (T p x lb e ks')). split; [exact W'|].
    rewrite P3, <- S, !plug_id. reflexivity.
  - simpl. destruct H as [c [x [lb [e [ks [todo [Wt [El [F [N [D B]]]]]]]]]]]. subst l. pose proof Wt as [W0 S].
    destruct (set_child_nodes_wf h c p x lb e ks todo W0 F N D B) as [h' [E [W' [[_ [_ P3]] _]]]].
    exists h'. split; [|left; exact E]. exists (plug c (T p x lb e todo)). split; [exact W'|].
    rewrite P3, <- S, !plug_id. reflexivity.
  - simpl. destruct W as [t W]. eexists. split; [|left; reflexivity].
    apply (set_parent_node_wf h t ci np W (live_in h t ci W H) H0).
    destruct np as [q|]; [|exact I]. destruct H1 as [Lq Nq]. split; [apply (live_in h t q W Lq)|exact Nq].
  - simpl. destruct W as [t W]. destruct (live_ctx h t ci W H) as [c [s [-> Es]]]. subst ci.
    pose proof W as [W0 S]. destruct (collapse_clade_wf h c s W0) as [h' [E [W' [_ [_ P3]]]]].
    exists h'. split; [|left; exact E]. exists (plug c (spec_clade s)). split; [exact W'|].
    rewrite P3, <- S, !plug_id. destruct s as [i x l e [|k r]]; reflexivity.
  - simpl. destruct W as [t W]. destruct (polytomize_root_wf u h t W) as [h' [t' [E [W' _]]]].
    exists h'. split; [exists t'; exact W'|left; exact E].
  - simpl. destruct W as [t W]. destruct (live_ctx h t og W H) as [c [s [-> Es]]]. subst og.
    pose proof W as [W0 S]. destruct H1 as [NU OKs].
    destruct c as [|c' p x l e lft rgt]; [exfalso; apply H0; rewrite <- S; reflexivity|].
    simpl plug in *.
    destruct (to_outgroup_su_wf ub h c' p x l e lft s rgt W) as [h' [E [W' _]]].
    + unfold not_unary. rewrite (kids_of_focus h (CNode c' p x l e lft rgt) s W0), map_length in NU. exact NU.
    + destruct c' as [|c2 i y m f a b]; [|left; discriminate]. right. intro E0.
      apply app_eq_nil in E0. destruct E0 as [-> ->]. simpl plug in *. simpl in S.
      destruct (wr_focus h CTop p x l e [s] W0) as [_ [Gp [Fk _]]]. pose proof (Forall_inv Fk) as Rs.
      apply OKs.
      * rewrite <- S. apply (rep_parent h (Some p) s Rs).
      * rewrite <- S. unfold kids. rewrite Gp. reflexivity.
    + exists h'. split; [eapply WFt_WF, W'|left; exact E].
  - simpl. destruct (reroot_at_midpoint_finishes a b ub su cb h W) as [[h' [E W']]|[e [E _]]].
    + exists h'. split; [exact W'|left; exact E].
    + exists h. split; [exact W|right; exists e; exact E].
  - destruct sc as [sc|].
    + destruct (resolve_polytomies_rng_finishes limit sc ub h W) as [F|F]; [contradiction|].
      eapply finishes_ends, F.
    + eapply finishes_ends, (resolve_polytomies_det_finishes limit ub h W).
  - simpl. eapply finishes_ends, (prune_nodes_finishes nodes plwt ub su h W).
  - simpl. eapply finishes_ends, (prune_taxa_finishes taxa ub su ol oi h W).
  - destruct (randomly_rotate_finishes perms h W) as [F|F]; [contradiction|]. eapply finishes_ends, F.
  - destruct (randomly_reorient_finishes pick perms ub h W H) as [F|F]; [contradiction|]. eapply finishes_ends, F.
  - destruct (shuffle_taxa_finishes ii draws h W) as [F|F]; [contradiction|]. eapply finishes_ends, F.
Qed.

Fixpoint valid_hist2 (ops : list op) (h : heap) : Prop :=
  match ops with
  | [] => True
  | o :: r =>
    covered2 h o /\
    forall h', (run_op o h = HOk h' \/ exists e, run_op o h = HErr e h') -> valid_hist2 r h'
  end.

Theorem history_wf2_l ops : forall h,
  WF h -> valid_hist2 ops h -> exists h', run_hist ops h = Some h' /\ WF h'.
Proof.
  induction ops as [|o r IH]; intros h W V; simpl.
  - exists h. split; [reflexivity|exact W].
  - destruct V as [C V]. destruct (op_wf2_l h o W C) as [h1 [W1 [E|[e E]]]].
    + rewrite E. apply IH; [exact W1|]. apply V. left. exact E.
    + rewrite E. apply IH; [exact W1|]. apply V. right. exists e. exact E.
Qed.
