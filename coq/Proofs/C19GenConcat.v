(* C19 translator tie, part 4: concatenate *)
From Coq Require Import ZArith List Bool Lia.
From DV Require Import Model.PyPrims Model.C19Model Model.C19Prims Gen.CharMatrix.
From DV Require Import Proofs.C19Alist Proofs.C19Rows Proofs.C19Cols Proofs.C19GenRows Proofs.C19GenDel.
Import ListNotations.
Open Scope Z_scope.

Section G.
Variable lower : lbl -> lbl.
Variable suffix : lbl -> Z -> lbl.
Variable locus : Z -> lbl.
Variable taxa_of : nsid -> list tid.

(* one iteration of the hand-written loop *)
Definition concat_step (T : list tid) (ns0 : nsid) (nseqs : Z) (cidx : Z) (cm acc : matrix) (pos : Z) : res (matrix * Z) :=
  if negb (Z.eqb (m_ns cm) ns0) then Err ValueErr
  else if negb (Z.eqb (zlen (m_rows cm)) (zlen T)) then Err ValueErr
  else if negb (Z.eqb (zlen (m_rows cm)) nseqs) then Err ValueErr
  else
    match T with
    | [] => Err IndexErr
    | t0 :: _ =>
      match aget t0 (m_rows cm) with
      | None => Err AssertErr
      | Some r0 =>
        if negb (forallb (fun p => Z.eqb (zlen (snd p)) (zlen r0)) (items T (m_rows cm))) then Err ValueErr
        else
          match extend_matrix acc cm with
          | Ok acc1 =>
            let new_label := match m_label cm with None => locus cidx | Some l => l end in
            match free_name lower suffix (free_name_fuel (m_subs acc1)) (m_subs acc1) new_label new_label 2 with
            | Ok cs_label =>
              let w := vector_size (m_rows cm) in
              match new_character_subset lower acc1 cs_label (zrange pos w) with
              | Ok acc2 => Ok (acc2, pos + w)
              | Err e => Err e
              | OutOfFuel => OutOfFuel
              end
            | Err e => Err e
            | OutOfFuel => OutOfFuel
            end
          | Err e => Err e
          | OutOfFuel => OutOfFuel
          end
      end
    end.

Lemma concat_loop_step T ns0 nseqs cm rest cidx acc pos :
  concat_loop lower suffix locus T ns0 nseqs (cm :: rest) cidx acc pos
  = match concat_step T ns0 nseqs cidx cm acc pos with
    | Ok (acc2, pos2) => concat_loop lower suffix locus T ns0 nseqs rest (cidx + 1) acc2 pos2
    | Err e => Err e
    | OutOfFuel => OutOfFuel
    end.
Proof.
  unfold concat_step. cbn [concat_loop].
  destruct (negb (Z.eqb (m_ns cm) ns0)); [reflexivity|].
  destruct (negb (Z.eqb (zlen (m_rows cm)) (zlen T))); [reflexivity|].
  destruct (negb (Z.eqb (zlen (m_rows cm)) nseqs)); [reflexivity|].
  destruct T as [|t0 T']; [reflexivity|].
  destruct (aget t0 (m_rows cm)) as [r0|]; [|reflexivity].
  destruct (negb (forallb (fun p => Z.eqb (zlen (snd p)) (zlen r0)) (items (t0 :: T') (m_rows cm)))); [reflexivity|].
  destruct (extend_matrix acc cm) as [acc1| |]; [|reflexivity|reflexivity]. cbv zeta.
  destruct (free_name lower suffix (free_name_fuel (m_subs acc1)) (m_subs acc1) _ _ 2) as [cs| |]; [|reflexivity|reflexivity].
  destruct (new_character_subset lower acc1 cs (zrange pos (vector_size (m_rows cm)))); reflexivity.
Qed.

(* the check that all sequences have the length of the first *)
Lemma items_check (v1 : Z) : forall (l : list (tid * row)),
  for_each l (fun '(t, s) (tt_ : unit) => if negb (Z.eqb (zlen s) v1) then (tt_, Err ValueErr) else (tt_, Ok tt)) tt
  = (tt, if forallb (fun p => Z.eqb (zlen (snd p)) v1) l then Ok tt else Err ValueErr).
Proof.
  induction l as [|[t s] l IH]; simpl; [reflexivity|].
  destruct (Z.eqb (zlen s) v1); simpl; [exact IH | reflexivity].
Qed.

(* the free-name loop *)
Lemma while_free_name (ss : subsets) (nl : lbl) : forall fuel c i,
  match while_loop fuel (fun '(cs_label, i) => has_key lower cs_label ss)
          (fun '(cs_label, i) => let cs_label := suffix nl i in let i := Z.add i 1 in ((cs_label, i), Ok tt)) (c, i) with
  | ((c', _), Ok _) => free_name lower suffix fuel ss nl c i = Ok c'
  | (_, Err _) => False
  | (_, OutOfFuel) => free_name lower suffix fuel ss nl c i = OutOfFuel
  end.
Proof.
  induction fuel as [|f IH]; intros c i; simpl; [reflexivity|].
  destruct (has_key lower c ss); [apply IH | reflexivity].
Qed.

Definition body_spec (tns : nsid) (nseqs : Z)
           (BODY : Z * matrix -> matrix * Z -> (matrix * Z) * res unit) : Prop :=
  forall cidx cm acc pos, NoDup (keys (m_rows cm)) -> m_ns acc = tns ->
    match concat_step (taxa_of tns) tns nseqs cidx cm acc pos with
    | Ok st => BODY (cidx, cm) (acc, pos) = (st, Ok tt)
    | Err e => snd (BODY (cidx, cm) (acc, pos)) = Err e
    | OutOfFuel => snd (BODY (cidx, cm) (acc, pos)) = OutOfFuel
    end.

Lemma concat_step_ns T ns0 nseqs cidx cm acc pos acc2 pos2 :
  m_ns acc = ns0 -> concat_step T ns0 nseqs cidx cm acc pos = Ok (acc2, pos2) -> m_ns acc2 = ns0.
Proof.
  intros E H. unfold concat_step in H.
  destruct (negb (Z.eqb (m_ns cm) ns0)); [discriminate|].
  destruct (negb (Z.eqb (zlen (m_rows cm)) (zlen T))); [discriminate|].
  destruct (negb (Z.eqb (zlen (m_rows cm)) nseqs)); [discriminate|].
  destruct T as [|t0 T']; [discriminate|].
  destruct (aget t0 (m_rows cm)) as [r0|]; [|discriminate].
  destruct (negb (forallb _ _)); [discriminate|].
  unfold extend_matrix in H. destruct (negb (same_ns acc cm)); [discriminate|]. cbv zeta in H.
  destruct (free_name lower suffix _ _ _ _ 2) as [cs| |]; try discriminate.
  unfold new_character_subset in H. destruct (has_key lower cs _); [discriminate|]. inversion H. exact E.
Qed.

Lemma concat_for_each tns nseqs BODY : body_spec tns nseqs BODY ->
  forall cms cidx acc pos, Forall (fun cm => NoDup (keys (m_rows cm))) cms -> m_ns acc = tns ->
  match concat_loop lower suffix locus (taxa_of tns) tns nseqs cms cidx acc pos with
  | Ok res => exists pos', for_each (py_enumerate_from cidx cms) BODY (acc, pos) = ((res, pos'), Ok tt)
  | Err e => snd (for_each (py_enumerate_from cidx cms) BODY (acc, pos)) = Err e
  | OutOfFuel => snd (for_each (py_enumerate_from cidx cms) BODY (acc, pos)) = OutOfFuel
  end.
Proof.
  intros HB. induction cms as [|cm rest IH]; intros cidx acc pos HF Ens.
  - simpl. exists pos. reflexivity.
  - pose proof (Forall_inv HF) as ND. pose proof (Forall_inv_tail HF) as HF'.
    rewrite concat_loop_step. cbn [py_enumerate_from for_each].
    specialize (HB cidx cm acc pos ND Ens).
    destruct (concat_step (taxa_of tns) tns nseqs cidx cm acc pos) as [[acc2 pos2]|e|] eqn:CS.
    + rewrite HB. apply IH; [exact HF'|]. apply (concat_step_ns _ _ _ _ _ _ _ _ _ Ens CS).
    + destruct (BODY (cidx, cm) (acc, pos)) as [st [u|e'|]]; simpl in HB; try discriminate. inversion HB. reflexivity.
    + destruct (BODY (cidx, cm) (acc, pos)) as [st [u|e'|]]; simpl in HB; try discriminate. reflexivity.
Qed.

Lemma gen_concatenate_eq (cms : list matrix) :
  Forall (fun cm => NoDup (keys (m_rows cm))) cms ->
  gen_concatenate lower suffix locus taxa_of cms = (tt, concatenate lower suffix locus taxa_of cms).
Proof.
  intros HF. unfold gen_concatenate, concatenate. destruct cms as [|c0 rest]; [reflexivity|].
  unfold py_list_index. cbn [Z.ltb Z.compare Z.to_nat nth_error]. cbv zeta.
  unfold py_enumerate, mat_len.
  match goal with |- context [for_each _ ?B _] => set (BODY := B) end.
  assert (HB : body_spec (m_ns c0) (zlen (m_rows c0)) BODY).
  { intros cidx cm acc pos ND Ens. unfold concat_step, BODY. clear BODY.
    unfold mat_len.
    destruct (Z.eqb_spec (m_ns cm) (m_ns c0)) as [E1|E1]; cbn [negb]; [|reflexivity].
    destruct (negb (Z.eqb (zlen (m_rows cm)) (zlen (taxa_of (m_ns c0))))); [reflexivity|].
    destruct (negb (Z.eqb (zlen (m_rows cm)) (zlen (m_rows c0)))); [reflexivity|].
    rewrite E1. unfold mat_getitem_ro, resolve_key.
    destruct (taxa_of (m_ns c0)) as [|t0 T'] eqn:ET; [reflexivity|].
    assert (L : Z.ltb (Z.abs 0) (zlen (t0 :: T')) = true) by (apply Z.ltb_lt; rewrite zlen_cons; pose proof (zlen_nonneg T'); lia).
    rewrite L. cbn [Z.ltb Z.compare Z.to_nat nth_error].
    destruct (aget t0 (m_rows cm)) as [r0|]; [|reflexivity].
    unfold mat_items. rewrite items_check.
    destruct (forallb (fun p => Z.eqb (zlen (snd p)) (zlen r0)) (items (t0 :: T') (m_rows cm))); cbn [negb]; [|reflexivity].
    rewrite (gen_extend_matrix_eq false acc cm ND) by discriminate.
    destruct (extend_matrix acc cm) as [acc1| |]; cbn [as_blk]; [|reflexivity|reflexivity].
    cbv zeta.
    set (nl := match m_label cm with None => locus cidx | Some l => l end).
    replace (match m_label cm with None => locus cidx | Some v_4 => v_4 end) with nl by reflexivity.
    pose proof (while_free_name (m_subs acc1) nl (free_name_fuel (m_subs acc1)) nl 2) as W. cbv zeta in W.
    match goal with |- context [while_loop ?a ?b ?c ?d] => destruct (while_loop a b c d) as [[c' i'] [u|e|]] end.
    - rewrite W. unfold py_range2.
      replace (Z.add pos (vector_size (m_rows cm)) - pos) with (vector_size (m_rows cm)) by lia.
      destruct (new_character_subset lower acc1 c' (zrange pos (vector_size (m_rows cm)))); reflexivity.
    - contradiction.
    - rewrite W. reflexivity. }
  pose proof (concat_for_each (m_ns c0) (zlen (m_rows c0)) BODY HB (c0 :: rest) 0 (mat_new (m_ns c0)) 0 HF eq_refl) as C.
  unfold mat_new in *.
  destruct (concat_loop lower suffix locus (taxa_of (m_ns c0)) (m_ns c0) (zlen (m_rows c0)) (c0 :: rest) 0 (mkM (m_ns c0) None [] []) 0) as [res|e|].
  - destruct C as [pos' C]. rewrite C. reflexivity.
  - destruct (for_each _ BODY _) as [[a p] [u|e'|]]; simpl in C; try discriminate. inversion C. reflexivity.
  - destruct (for_each _ BODY _) as [[a p] [u|e'|]]; simpl in C; try discriminate. reflexivity.
Qed.

End G.
