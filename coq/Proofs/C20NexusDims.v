(* C20: declared-versus-found dimensions of the NEXUS skeleton (Model/C20Nexus2.v).

   nexus_matrix_dims_l   a MATRIX statement that the skeleton accepts leaves a matrix every row of which has
                         exactly the NCHAR in force (repaired form of the interleaved site, fx_ildims = true)
   nexus_dims_consistent_l   in the final state of an accepted document every matrix is rectangular
   The number of rows is NOT tied to NTAX by the reader (the residual finding `rows-fewer`, witness in
   Props/C20.v nexus_dims_consistent_refuted); what the skeleton enforces is the upper bound through the
   capacity of the taxon namespace (get_taxon: TooManyTaxaError). *)
From Coq Require Import String ZArith List Bool Lia.
From DV Require Import Model.PyPrims Model.Tokenizer Model.Newick Gen.ReaderLoops Model.C20Model Model.C20Nexus2.
Import ListNotations.
Close Scope string_scope.
Open Scope list_scope.
Open Scope Z_scope.

(* ---- frames: what a function leaves unchanged ---- *)

(* the payload (everything but the tokenizer part) is unchanged *)
Definition PE (st st' : nstate) : Prop := pay st' = pay st.
(* the rows of the matrices are unchanged *)
Definition RE (st st' : nstate) : Prop := map m_rows (n_mats st') = map m_rows (n_mats st).

Lemma PE_refl st : PE st st. Proof. reflexivity. Qed.
Lemma PE_trans a b c : PE a b -> PE b c -> PE a c. Proof. unfold PE. congruence. Qed.
Lemma PE_mats a b : PE a b -> n_mats b = n_mats a.
Proof. unfold PE, pay. intro H. inversion H. reflexivity. Qed.
Lemma PE_RE a b : PE a b -> RE a b.
Proof. intro H. unfold RE. rewrite (PE_mats _ _ H). reflexivity. Qed.
Lemma RE_refl st : RE st st. Proof. reflexivity. Qed.
Lemma RE_trans a b c : RE a b -> RE b c -> RE a c. Proof. unfold RE. congruence. Qed.

Lemma pay_upd_tok st r c e q : pay (upd_tok st r c e q) = pay st. Proof. reflexivity. Qed.
Lemma pay_upd_modes st c h : pay (upd_modes st c h) = pay st. Proof. reflexivity. Qed.
Lemma pay_upd_pay st p : pay (upd_pay st p) = p. Proof. destruct p. reflexivity. Qed.

Lemma mats_upd_ntax st v : n_mats (upd_ntax st v) = n_mats st. Proof. reflexivity. Qed.
Lemma mats_upd_nchar st v : n_mats (upd_nchar st v) = n_mats st. Proof. reflexivity. Qed.
Lemma mats_upd_tns st v : n_mats (upd_tns st v) = n_mats st. Proof. reflexivity. Qed.
Lemma mats_upd_trees st v : n_mats (upd_trees st v) = n_mats st. Proof. reflexivity. Qed.
Lemma mats_upd_dtype st d s : n_mats (upd_dtype st d s) = n_mats st. Proof. reflexivity. Qed.
Lemma mats_upd_gap st v : n_mats (upd_gap st v) = n_mats st. Proof. reflexivity. Qed.
Lemma mats_upd_missing st v : n_mats (upd_missing st v) = n_mats st. Proof. reflexivity. Qed.
Lemma mats_upd_match st v : n_mats (upd_match st v) = n_mats st. Proof. reflexivity. Qed.
Lemma mats_upd_interleave st v : n_mats (upd_interleave st v) = n_mats st. Proof. reflexivity. Qed.
Lemma mats_upd_mats st v : n_mats (upd_mats st v) = v. Proof. reflexivity. Qed.
Lemma mats_upd_tok st r c e q : n_mats (upd_tok st r c e q) = n_mats st. Proof. reflexivity. Qed.
Lemma mats_upd_modes st c h : n_mats (upd_modes st c h) = n_mats st. Proof. reflexivity. Qed.
Lemma mats_tns_set_labels st i ls : n_mats (tns_set_labels st i ls) = n_mats st.
Proof. unfold tns_set_labels. destruct (nth_error (n_tns st) i) as [[t l]|]; reflexivity. Qed.

#[export] Hint Rewrite pay_upd_tok pay_upd_modes mats_upd_ntax mats_upd_nchar mats_upd_tns mats_upd_trees mats_upd_dtype
  mats_upd_gap mats_upd_missing mats_upd_match mats_upd_interleave mats_upd_mats mats_upd_tok mats_upd_modes
  mats_tns_set_labels : frames.

(* one step of case analysis on a hypothesis  H : <computation> = ROk x *)
Ltac step H :=
  match type of H with
  | nbind ?r _ = ROk _ => let E := fresh "E" in destruct r eqn:E; cbn [nbind] in H; [|discriminate H|discriminate H]
  | RErr _ = ROk _ => discriminate H
  | RFuel = ROk _ => discriminate H
  | ROk _ = ROk _ => inversion H; subst; clear H
  | (if ?c then _ else _) = ROk _ => let C := fresh "C" in destruct c eqn:C
  | (let '(_, _) := ?p in _) = ROk _ => first [ is_var p; destruct p | let D := fresh "D" in destruct p eqn:D ]
  | match ?x with _ => _ end = ROk _ => let D := fresh "D" in destruct x eqn:D
  end.

Ltac steps := repeat match goal with E : _ = ROk _ |- _ => step E end.

Section Dims.
Variable fx : nfix.
Variable upper lower : str -> str.
Variable dval : Z -> option Z.
Variable sym_ok : Z -> Z -> bool.
Variable is_float : str -> bool.
Variable F : nat.

Lemma nadvance_PE st : match nadvance st with GotTok s | GotEnd s => PE st s | _ => True end.
Proof. unfold nadvance. destruct (Tokenizer.next_token (st_cfg st) (n_rest st)); exact I || reflexivity. Qed.

Lemma next_token_PE st p : next_token st = ROk p -> PE st (snd p).
Proof.
  unfold next_token. pose proof (nadvance_PE st) as N. destruct (nadvance st); intro H; inversion H; subst; cbn [snd]; [exact N|].
  unfold set_cur_n. unfold PE in *. rewrite pay_upd_tok. exact N.
Qed.

Lemma require_next_token_PE st p : require_next_token st = ROk p -> PE st (snd p).
Proof.
  unfold require_next_token. pose proof (nadvance_PE st) as N. destruct (nadvance st); intro H; inversion H; subst. exact N.
Qed.

Lemma ucase_PE st r p : (forall q, r = ROk q -> PE st (snd q)) -> ucase upper r = ROk p -> PE st (snd p).
Proof.
  intros Hr H. unfold ucase in H. destruct r as [[t s]| |]; cbn [nbind] in H; try discriminate.
  specialize (Hr _ eq_refl). cbn [snd] in Hr. destruct t; inversion H; subst; cbn [snd]; [|exact Hr].
  unfold set_cur_n, PE in *. rewrite pay_upd_tok. exact Hr.
Qed.

Lemma fetch_PE k tok st p : fetch upper k tok st = ROk p -> PE st (snd p).
Proof.
  destruct k; cbn [fetch]; intro H; try (inversion H; subst; apply PE_refl).
  - exact (next_token_PE _ _ H).
  - exact (require_next_token_PE _ _ H).
  - exact (ucase_PE st _ p (next_token_PE st) H).
  - exact (ucase_PE st _ p (require_next_token_PE st) H).
Qed.

(* hypotheses  E : g .. = ROk x  of the token-level functions -> PE facts *)
Ltac pe_base E :=
  first [ apply fetch_PE in E | apply next_token_PE in E | apply require_next_token_PE in E
        | apply (ucase_PE _ _ _ (next_token_PE _)) in E | apply (ucase_PE _ _ _ (require_next_token_PE _)) in E ].
Ltac pe_with extra := repeat match goal with E : _ = ROk _ |- _ => first [ extra E | pe_base E ] end.
Ltac pe_done := unfold PE in *; cbn [fst snd] in *; autorewrite with frames in *; congruence.
Ltac nope E := fail.

Lemma skip_loop_PE : forall f tok st st', skip_loop f tok st = ROk st' -> PE st st'.
Proof.
  induction f as [|f IH]; intros tok st st' H; [discriminate|]. cbn [skip_loop] in H.
  repeat step H; pe_with ltac:(fun E => apply IH in E); pe_done.
Qed.

Lemma skip_to_semicolon_PE st st' : skip_to_semicolon F st = ROk st' -> PE st st'.
Proof. unfold skip_to_semicolon. intro H. repeat step H. pe_with ltac:(fun E => apply skip_loop_PE in E). pe_done. Qed.

Ltac pe1 E := first [ apply skip_to_semicolon_PE in E | apply skip_loop_PE in E ].

Lemma consume_loop_PE : forall f tok st p, consume_loop upper F f tok st = ROk p -> PE st (snd p).
Proof.
  induction f as [|f IH]; intros tok st p H; [discriminate|]. cbn [consume_loop] in H.
  repeat step H; pe_with ltac:(fun E => first [apply IH in E | pe1 E]); pe_done.
Qed.

Lemma consume_to_end_of_block_PE tok st p : consume_to_end_of_block upper F tok st = ROk p -> PE st (snd p).
Proof. unfold consume_to_end_of_block. apply consume_loop_PE. Qed.

Lemma parse_title_PE st p : parse_title st = ROk p -> PE st (snd p).
Proof. unfold parse_title. intro H. repeat step H; pe_with nope; pe_done. Qed.

Lemma link_item_PE st r : link_item upper st = ROk r -> PE st (snd r).
Proof. unfold link_item. intro H. repeat step H; pe_with nope; pe_done. Qed.

Lemma link_loop_PE : forall f tok st lt lc r, link_loop upper f tok st lt lc = ROk r -> PE st (snd r).
Proof.
  induction f as [|f IH]; intros tok st lt lc r H; [discriminate|]. cbn [link_loop] in H.
  repeat step H; pe_with ltac:(fun E => first [apply IH in E | apply link_item_PE in E]); pe_done.
Qed.

Lemma parse_link_PE st r : parse_link upper F st = ROk r -> PE st (snd r).
Proof. unfold parse_link. intro H. repeat step H; pe_with ltac:(fun E => apply link_loop_PE in E); pe_done. Qed.

Lemma symbols_loop_PE : forall f tok st acc r, symbols_loop upper f tok st acc = ROk r -> PE st (snd r).
Proof.
  induction f as [|f IH]; intros tok st acc r H; [discriminate|]. cbn [symbols_loop] in H.
  repeat step H; pe_with ltac:(fun E => apply IH in E); pe_done.
Qed.

Lemma multi_loop_PE : forall f closing st acc r, multi_loop upper f closing st acc = ROk r -> PE st (snd r).
Proof.
  induction f as [|f IH]; intros closing st acc r H; [discriminate|]. cbn [multi_loop] in H.
  repeat step H; pe_with ltac:(fun E => apply IH in E); pe_done.
Qed.

Lemma scan_begin_loop_PE : forall f tok st p, scan_begin_loop upper f tok st = ROk p -> PE st (snd p).
Proof.
  induction f as [|f IH]; intros tok st p H; [discriminate|]. cbn [scan_begin_loop] in H.
  repeat step H; pe_with ltac:(fun E => apply IH in E); pe_done.
Qed.

(* ---- the character-state readers: payload unchanged, n <= result <= max n nchar ---- *)

Ltac zb := repeat match goal with
  | H : (_ <? _) = true |- _ => apply Z.ltb_lt in H
  | H : (_ <? _) = false |- _ => apply Z.ltb_ge in H
  | H : (_ =? _) = true |- _ => apply Z.eqb_eq in H
  | H : (_ =? _) = false |- _ => apply Z.eqb_neq in H
  end.

Lemma add_chars_bound al mc nchar first : forall cs n n1,
  add_chars sym_ok al mc nchar first cs n = ROk n1 -> n <= nchar -> n <= n1 <= nchar.
Proof.
  induction cs as [|c r IH]; intros n n1 H Hn; cbn [add_chars] in H.
  - inversion H; subst. lia.
  - step H. step H; [discriminate H|]. apply IH in H; [|zb; lia]. lia.
Qed.

Lemma states_loop_spec al il nchar first : forall f n st n1 term st1,
  states_loop upper sym_ok F f al il nchar first n st = ROk (n1, term, st1) ->
  PE st st1 /\ n <= n1 <= Z.max n nchar /\ (term = true -> il = true).
Proof.
  induction f as [|f IH]; intros n st n1 term st1 H; [discriminate|]. cbn [states_loop] in H.
  destruct (n <? nchar) eqn:Cn.
  2:{ inversion H; subst. zb. repeat split; try apply PE_refl; try lia; try discriminate. }
  zb.
  repeat step H;
    repeat match goal with
    | E : states_loop _ _ _ _ _ _ _ _ _ _ = ROk _ |- _ => apply IH in E; destruct E as [? [? ?]]
    | E : add_chars _ _ _ _ _ _ _ = ROk _ |- _ => apply add_chars_bound in E; [|lia]
    end;
    (split; [ pe_with ltac:(fun E => apply multi_loop_PE in E); pe_done | split; [ lia | try assumption; try discriminate; try reflexivity ] ]).
Qed.

Lemma read_character_states_spec al nchar first n st n1 term st1 :
  read_character_states upper sym_ok F al nchar first n st = ROk (n1, term, st1) ->
  PE st st1 /\ n <= n1 <= Z.max n nchar /\ (term = true -> n_interleave st = true).
Proof.
  unfold read_character_states. intro H. step H. destruct a as [[a1 a2] a3]. inversion H; subst; clear H.
  apply states_loop_spec in E. destruct E as [P [B T]].
  repeat split; try lia; try exact T.
  unfold PE in *. destruct (n_interleave st); destruct (term); cbn [andb negb]; autorewrite with frames in *; congruence.
Qed.

Lemma cvalues_loop_spec il nchar : forall f n st n1 term st1,
  cvalues_loop fx upper is_float f il nchar n st = ROk (n1, term, st1) ->
  PE st st1 /\ n <= n1 <= Z.max n nchar /\ (term = true -> il = true).
Proof.
  induction f as [|f IH]; intros n st n1 term st1 H; [discriminate|]. cbn [cvalues_loop] in H.
  destruct (n <? nchar) eqn:Cn.
  2:{ inversion H; subst. zb. repeat split; try apply PE_refl; try lia; try discriminate. }
  zb.
  repeat step H;
    repeat match goal with
    | E : cvalues_loop _ _ _ _ _ _ _ _ = ROk _ |- _ => apply IH in E; destruct E as [? [? ?]]
    end;
    (split; [ pe_with nope; pe_done | split; [ lia | try assumption; try discriminate; try reflexivity ] ]).
Qed.

Lemma read_continuous_values_spec nchar n st n1 term st1 :
  read_continuous_values fx upper is_float F nchar n st = ROk (n1, term, st1) ->
  PE st st1 /\ n <= n1 <= Z.max n nchar /\ (term = true -> n_interleave st = true).
Proof.
  unfold read_continuous_values. intro H. step H. destruct a as [[a1 a2] a3]. inversion H; subst; clear H.
  apply cvalues_loop_spec in E. destruct E as [P [B T]].
  repeat split; try lia; try exact T.
  unfold PE in *. destruct (n_interleave st); destruct (term); cbn [andb negb]; autorewrite with frames in *; congruence.
Qed.

(* ---- the rows of the matrix being read ---- *)

Definition rows_in (N : Z) (rows : list (nat * Z)) : Prop := Forall (fun r => 0 <= snd r <= N) rows.
Definition rows_eq (N : Z) (rows : list (nat * Z)) : Prop := Forall (fun r => snd r = N) rows.

Lemma row_len_of_Forall (P : Z -> Prop) : forall rows t n,
  Forall (fun r => P (snd r)) rows -> row_len_of rows t = Some n -> P n.
Proof.
  induction rows as [|[i k] rows IH]; intros t n Hf H; cbn [row_len_of] in H; [discriminate|].
  inversion Hf; subst. destruct (Nat.eqb i t); [inversion H; subst; assumption | eauto].
Qed.

Lemma set_row_Forall (P : Z -> Prop) : forall rows t n,
  Forall (fun r => P (snd r)) rows -> P n -> Forall (fun r => P (snd r)) (set_row rows t n).
Proof.
  induction rows as [|[i k] rows IH]; intros t n Hf Hn; cbn [set_row].
  - constructor; [exact Hn | constructor].
  - inversion Hf; subst. destruct (Nat.eqb i t); constructor; auto.
Qed.

Lemma set_row_twice : forall rows t a b, set_row (set_row rows t a) t b = set_row rows t b.
Proof.
  induction rows as [|[i k] rows IH]; intros t a b; cbn [set_row].
  - rewrite Nat.eqb_refl. reflexivity.
  - destruct (Nat.eqb i t) eqn:E; cbn [set_row]; rewrite E; [reflexivity | rewrite IH; reflexivity].
Qed.

Lemma set_last_mat_mats st pre x m : n_mats st = pre ++ [x] -> n_mats (set_last_mat st m) = pre ++ [m].
Proof.
  intro H. unfold set_last_mat. rewrite H. rewrite rev_app_distr. cbn [rev app].
  rewrite mats_upd_mats. rewrite rev_involutive. reflexivity.
Qed.

Lemma last_mat_mats st pre m : n_mats st = pre ++ [m] -> last_mat st = Some m.
Proof. intro H. unfold last_mat. rewrite H. rewrite rev_app_distr. reflexivity. Qed.

Lemma il_set_last_mat st m : n_interleave (set_last_mat st m) = n_interleave st.
Proof. unfold set_last_mat. destruct (rev (n_mats st)); reflexivity. Qed.

Lemma il_tns_set_labels st i ls : n_interleave (tns_set_labels st i ls) = n_interleave st.
Proof. unfold tns_set_labels. destruct (nth_error (n_tns st) i) as [[t l]|]; reflexivity. Qed.

Lemma PE_il a b : PE a b -> n_interleave b = n_interleave a.
Proof. unfold PE, pay. intro H. inversion H. reflexivity. Qed.

Lemma get_taxon_frame st ti label t st1 : get_taxon lower st ti label = ROk (t, st1) ->
  n_mats st1 = n_mats st /\ n_interleave st1 = n_interleave st.
Proof.
  unfold get_taxon. intro H. repeat step H; split; try reflexivity.
  - apply mats_tns_set_labels.
  - apply il_tns_set_labels.
Qed.

Lemma matrix_loop_spec L al il nchar : forall f tok st m first tok' st' term pre,
  matrix_loop fx upper lower sym_ok is_float F f L al il nchar tok st m first = ROk (tok', st', term) ->
  n_mats st = pre ++ [m] -> n_interleave st = il ->
  rows_in (Z.max 0 nchar) (m_rows m) -> (il = false -> rows_eq (Z.max 0 nchar) (m_rows m)) ->
  exists m', n_mats st' = pre ++ [m'] /\ n_interleave st' = il
             /\ rows_in (Z.max 0 nchar) (m_rows m') /\ (il = false -> rows_eq (Z.max 0 nchar) (m_rows m')).
Proof.
  induction f as [|f IH]; intros tok st m first tok' st' term pre H Hm Hil Hin Heq; [discriminate|].
  cbn [matrix_loop] in H. step H.
  2:{ inversion H; subst. exists m. auto. }
  cbv zeta in H. step H. destruct a as [t st1].
  destruct (get_taxon_frame _ _ _ _ _ E) as [Fm Fi].
  set (n0 := match row_len_of (m_rows m) t with Some n => n | None => 0 end) in *.
  assert (Hn0 : 0 <= n0 <= Z.max 0 nchar).
  { unfold n0. destruct (row_len_of (m_rows m) t) eqn:Er; [|lia].
    exact (row_len_of_Forall (fun z => 0 <= z <= Z.max 0 nchar) _ _ _ Hin Er). }
  set (m1 := mkMat (m_label m) (m_tns m) (set_row (m_rows m) t n0) (m_sets m)) in *.
  step H. destruct a as [[n1 term0] st2].
  assert (Q : PE (set_last_mat st1 m1) st2 /\ n0 <= n1 <= Z.max n0 nchar
              /\ (term0 = true -> n_interleave (set_last_mat st1 m1) = true)).
  { destruct al as [a|]; [exact (read_character_states_spec _ _ _ _ _ _ _ _ E0) | exact (read_continuous_values_spec _ _ _ _ _ _ E0)]. }
  destruct Q as [Q1 [Q2 Q3]].
  assert (Hm1 : n_mats (set_last_mat st1 m1) = pre ++ [m1]) by (apply (set_last_mat_mats _ pre m); congruence).
  assert (Hm2 : n_mats st2 = pre ++ [m1]) by (rewrite (PE_mats _ _ Q1); exact Hm1).
  assert (Hi2 : n_interleave st2 = il) by (rewrite (PE_il _ _ Q1), il_set_last_mat; congruence).
  set (m2 := mkMat (m_label m) (m_tns m) (set_row (m_rows m1) t n1) (m_sets m)) in *.
  assert (Hm3 : n_mats (set_last_mat st2 m2) = pre ++ [m2]) by (apply (set_last_mat_mats _ pre m1); exact Hm2).
  assert (Hi3 : n_interleave (set_last_mat st2 m2) = il) by (rewrite il_set_last_mat; exact Hi2).
  assert (Erows : m_rows m2 = set_row (m_rows m) t n1) by (unfold m2, m1; cbn [m_rows]; apply set_row_twice).
  assert (Hin2 : rows_in (Z.max 0 nchar) (m_rows m2)).
  { rewrite Erows. apply (set_row_Forall (fun z => 0 <= z <= Z.max 0 nchar)); [exact Hin | lia]. }
  destruct term0.
  - (* BlockTerminatedException: interleaved only *)
    inversion H; subst.
    assert (Ei : n_interleave st = true) by (rewrite <- Fi, <- (il_set_last_mat st1 m1); apply Q3; reflexivity).
    exists m2. repeat split; try assumption. intro Hf. congruence.
  - step H; [discriminate H|]. step H.
    assert (Heq2 : il = false -> rows_eq (Z.max 0 nchar) (m_rows m2)).
    { intro Hf. rewrite Hf in C0. cbn [negb andb] in C0. zb.
      rewrite Erows. apply (set_row_Forall (fun z => z = Z.max 0 nchar)); [exact (Heq Hf)|].
      (* the row is complete (n1 >= nchar) when the sequential loop goes on *)
      lia. }
    destruct a as [tk st4].
    assert (P4 : PE (set_last_mat st2 m2) st4) by (apply fetch_PE in E1; exact E1).
    cbn [fst snd] in *.
    apply (IH _ _ _ _ _ _ _ pre) in H;
      [ exact H | rewrite (PE_mats _ _ P4); exact Hm3 | rewrite (PE_il _ _ P4); exact Hi3 | exact Hin2 | exact Heq2 ].
Qed.

Lemma get_tns_frame st title i st1 : get_tns upper st title = ROk (i, st1) ->
  n_mats st1 = n_mats st /\ n_nchar st1 = n_nchar st /\ n_ntax st1 = n_ntax st.
Proof.
  unfold get_tns, new_tns. intro H. repeat step H; repeat split; reflexivity.
Qed.

Lemma rows_short_false st pre m nc : n_mats st = pre ++ [m] -> rows_short st nc = false ->
  rows_in (Z.max 0 nc) (m_rows m) -> rows_eq (Z.max 0 nc) (m_rows m).
Proof.
  intros Hm Hs Hin. unfold rows_short in Hs. rewrite (last_mat_mats _ _ _ Hm) in Hs.
  unfold rows_in, rows_eq in *. induction (m_rows m) as [|r rows IH]; [constructor|].
  cbn [existsb] in Hs. apply orb_false_iff in Hs. destruct Hs as [H1 H2]. inversion Hin; subst.
  constructor; [zb; lia | auto].
Qed.

(* a MATRIX statement the skeleton accepts: one matrix is appended and each of its rows has exactly NCHAR states *)
Lemma parse_matrix_spec st bt lt st' nc : fx_ildims fx = true ->
  parse_matrix fx upper lower sym_ok is_float F st bt lt = ROk st' -> n_nchar st = Some nc ->
  exists m, n_mats st' = n_mats st ++ [m] /\ rows_eq (Z.max 0 nc) (m_rows m).
Proof.
  intros Hfx H Hnc. unfold parse_matrix in H. rewrite Hnc in H.
  destruct (n_ntax st) as [nt|]; [|discriminate H].
  step H; [discriminate H|]. step H. destruct a as [ti st1].
  destruct (get_tns_frame _ _ _ _ E) as [Fm _].
  cbv zeta in H.
  set (m0 := mkMat bt ti [] []) in *.
  set (st2 := upd_mats st1 (n_mats st1 ++ [m0])) in *.
  assert (Hm2 : n_mats st2 = n_mats st ++ [m0]) by (unfold st2; rewrite mats_upd_mats; congruence).
  assert (G : forall L al tk s2 tok st3 term,
            PE st2 s2 ->
            matrix_loop fx upper lower sym_ok is_float F F L al (n_interleave st2) nc tk s2 m0 None = ROk (tok, st3, term) ->
            exists m', n_mats st3 = n_mats st ++ [m'] /\ n_interleave st3 = n_interleave st2
                       /\ rows_in (Z.max 0 nc) (m_rows m') /\ (n_interleave st2 = false -> rows_eq (Z.max 0 nc) (m_rows m'))).
  { intros L al tk s2 tok st3 term P2 EM.
    apply (matrix_loop_spec L al (n_interleave st2) nc F tk s2 m0 None tok st3 term (n_mats st)) in EM;
      [ exact EM | rewrite (PE_mats _ _ P2); exact Hm2 | apply (PE_il _ _ P2) | constructor | intros _; constructor ]. }
  assert (Fin : forall st3 m', PE st3 st' -> n_mats st3 = n_mats st ++ [m'] ->
            rows_in (Z.max 0 nc) (m_rows m') -> (n_interleave st2 = false -> rows_eq (Z.max 0 nc) (m_rows m')) ->
            n_interleave st2 && fx_ildims fx && rows_short st' nc = false ->
            exists m, n_mats st' = n_mats st ++ [m] /\ rows_eq (Z.max 0 nc) (m_rows m)).
  { intros st3 m' P34 Hm3 Hin Heq Hc. rewrite Hfx in Hc. rewrite andb_true_r in Hc.
    assert (Hm4 : n_mats st' = n_mats st ++ [m']) by (rewrite (PE_mats _ _ P34); exact Hm3).
    exists m'. split; [exact Hm4|].
    destruct (n_interleave st2) eqn:Ei; cbn [andb] in Hc.
    - exact (rows_short_false _ _ _ _ Hm4 Hc Hin).
    - apply Heq; reflexivity. }
  destruct (n_dtype st2) eqn:Dt.
  all: repeat step H.
  all: repeat match goal with
       | p : (option str * nstate)%type |- _ => destruct p
       end; cbn [fst snd] in *.
  all: match goal with
       | EM : matrix_loop _ _ _ _ _ _ _ _ _ _ _ _ ?s2 _ _ = ROk (_, ?s3, _) |- _ =>
         let P2 := fresh "P2" in
         assert (P2 : PE st2 s2) by (pe_with nope; pe_done);
         destruct (G _ _ _ _ _ _ _ P2 EM) as [m' [A3 [I3 [R3 Q3]]]]
       end.
  all: match goal with
       | E2 : (if _ then _ else _) = ROk _ |- _ => repeat step E2
       end.
  all: eapply (Fin _ m'); [ | exact A3 | exact R3 | exact Q3 | eassumption ]; first [ apply PE_refl | pe_with nope; pe_done ].
Qed.

(* ---- every other part of the skeleton leaves the rows of the matrices alone ---- *)

Lemma new_tns_RE st t i st' : new_tns st t = (i, st') -> RE st st'.
Proof. unfold new_tns. intro H. inversion H; subst. reflexivity. Qed.

Ltac re_conv := repeat match goal with H : PE _ _ |- _ => apply PE_RE in H end.
Ltac re_base E :=
  first [ pe_base E | pe1 E | apply parse_title_PE in E | apply parse_link_PE in E | apply link_loop_PE in E
        | apply consume_to_end_of_block_PE in E | apply scan_begin_loop_PE in E | apply symbols_loop_PE in E ].
Ltac re_with extra :=
  repeat match goal with
         | E : _ = ROk _ |- _ => first [ extra E | re_base E ]
         | D : new_tns _ _ = (_, _) |- _ => apply new_tns_RE in D
         end.
Ltac re_done := re_conv; repeat match goal with H : RE ?a ?b |- _ => match a with context [if ?c then _ else _] => destruct c end end; unfold RE in *; cbn [fst snd] in *; autorewrite with frames in *; congruence.

Lemma dims_loop_RE : forall f tok st st', dims_loop upper dval f tok st = ROk st' -> RE st st'.
Proof.
  induction f as [|f IH]; intros tok st st' H; [discriminate|]. cbn [dims_loop] in H. cbv zeta in H.
  steps; re_with ltac:(fun E => apply IH in E); re_done.
Qed.

Lemma parse_dimensions_RE st st' : parse_dimensions upper dval F st = ROk st' -> RE st st'.
Proof. unfold parse_dimensions. intro H. steps; re_with ltac:(fun E => apply dims_loop_RE in E); re_done. Qed.

Lemma format_loop_RE : forall f tok st st', format_loop upper lower F f tok st = ROk st' -> RE st st'.
Proof.
  induction f as [|f IH]; intros tok st st' H; [discriminate|]. cbn [format_loop] in H. cbv zeta in H.
  steps; re_with ltac:(fun E => apply IH in E); re_done.
Qed.

Lemma parse_format_RE st st' : parse_format upper lower F st = ROk st' -> RE st st'.
Proof. unfold parse_format. intro H. steps; re_with ltac:(fun E => apply format_loop_RE in E); re_done. Qed.

Lemma taxlabels_loop_RE : forall f tok st ti st', taxlabels_loop upper lower f tok st ti = ROk st' -> RE st st'.
Proof.
  induction f as [|f IH]; intros tok st ti st' H; [discriminate|]. cbn [taxlabels_loop] in H. cbv zeta in H.
  steps; re_with ltac:(fun E => apply IH in E); re_done.
Qed.

Lemma parse_taxlabels_RE st ti st' : parse_taxlabels upper lower F st ti = ROk st' -> RE st st'.
Proof. unfold parse_taxlabels. intro H. steps; re_with ltac:(fun E => apply taxlabels_loop_RE in E); re_done. Qed.

Ltac re2 E := first [ apply parse_dimensions_RE in E | apply parse_format_RE in E | apply parse_taxlabels_RE in E ].

Lemma taxa_loop_RE : forall f tok st tns st', taxa_loop upper lower dval F f tok st tns = ROk st' -> RE st st'.
Proof.
  induction f as [|f IH]; intros tok st tns st' H; [discriminate|]. cbn [taxa_loop] in H.
  steps;
    repeat match goal with
           | D : match ?x with Some _ => _ | None => _ end = (_, _) |- _ => destruct x; [inversion D; subst; clear D|]
           end;
    re_with ltac:(fun E => first [apply IH in E | re2 E]); re_done.
Qed.

Lemma parse_taxa_block_RE st st' : parse_taxa_block upper lower dval F st = ROk st' -> RE st st'.
Proof. unfold parse_taxa_block. intro H. steps; re_with ltac:(fun E => apply taxa_loop_RE in E); re_done. Qed.

Lemma get_tns_RE st title p : get_tns upper st title = ROk p -> RE st (snd p).
Proof. destruct p as [i st1]. intro H. destruct (get_tns_frame _ _ _ _ H) as [A _]. unfold RE. cbn [snd]. rewrite A. reflexivity. Qed.

Lemma translate_loop_RE : forall f st ti m r, translate_loop upper lower f st ti m = ROk r -> RE st (snd r).
Proof.
  induction f as [|f IH]; intros st ti m r H; [discriminate|]. cbn [translate_loop] in H. cbv zeta in H.
  steps; re_with ltac:(fun E => apply IH in E); re_done.
Qed.

Lemma parse_translate_RE st ti r : parse_translate upper lower F st ti = ROk r -> RE st (snd r).
Proof. unfold parse_translate. apply translate_loop_RE. Qed.

Lemma parse_tree_statement_nexus_RE st ti m r : parse_tree_statement_nexus lower is_float F st ti m = ROk r -> RE st (snd r).
Proof.
  unfold parse_tree_statement_nexus. intro H. cbv zeta in H.
  steps; re_with nope; re_done.
Qed.

Lemma tree_stmts_loop_RE : forall f st ti m r, tree_stmts_loop upper lower is_float F f st ti m = ROk r -> RE st (snd r).
Proof.
  induction f as [|f IH]; intros st ti m r H; [discriminate|]. cbn [tree_stmts_loop] in H. cbv zeta in H.
  steps; re_with ltac:(fun E => first [apply IH in E | apply parse_tree_statement_nexus_RE in E]); unfold set_cur_n in *; re_done.
Qed.

Lemma trees_loop_RE : forall f tok st lt tns m st', trees_loop upper lower is_float F f tok st lt tns m = ROk st' -> RE st st'.
Proof.
  induction f as [|f IH]; intros tok st lt tns m st' H; [discriminate|]. cbn [trees_loop] in H. cbv zeta in H.
  steps; re_with ltac:(fun E => first [apply IH in E | apply tree_stmts_loop_RE in E | apply parse_translate_RE in E | apply get_tns_RE in E]); re_done.
Qed.

Lemma parse_trees_block_RE tok st st' : parse_trees_block upper lower is_float F tok st = ROk st' -> RE st st'.
Proof. unfold parse_trees_block. intro H. steps; re_with ltac:(fun E => apply trees_loop_RE in E); re_done. Qed.

Lemma positions_loop_PE : forall f maxp tok st bad r, positions_loop upper dval f maxp tok st bad = ROk r -> PE st (snd r).
Proof.
  induction f as [|f IH]; intros maxp tok st bad r H; [discriminate|]. cbn [positions_loop] in H. cbv zeta in H.
  unfold pos_fetch in H.
  steps; pe_with ltac:(fun E => apply IH in E); pe_done.
Qed.

Lemma parse_positions_PE st st' : parse_positions upper dval F st = ROk st' -> PE st st'.
Proof.
  unfold parse_positions. intro H. cbv zeta in H.
  steps; pe_with ltac:(fun E => apply positions_loop_PE in E); pe_done.
Qed.

Lemma set_nth_rows : forall (mats : list matrix) i m m', nth_error mats i = Some m -> m_rows m' = m_rows m ->
  map m_rows (set_nth mats i m') = map m_rows mats.
Proof.
  induction mats as [|x mats IH]; intros i m m' Hn Hr; [destruct i; reflexivity|].
  destruct i as [|i]; cbn [set_nth map].
  - inversion Hn; subst. rewrite Hr. reflexivity.
  - rewrite (IH i m m' Hn Hr). reflexivity.
Qed.

Lemma get_char_matrix_nth st title i m : get_char_matrix upper st title = ROk (i, m) -> nth_error (n_mats st) i = Some m.
Proof.
  unfold get_char_matrix. intro H. steps; try assumption. reflexivity.
Qed.

Lemma parse_charset_RE st lt st' : parse_charset upper dval F st lt = ROk st' -> RE st st'.
Proof.
  unfold parse_charset. intro H. steps.
  apply get_char_matrix_nth in E.
  repeat match goal with E : next_token _ = ROk _ |- _ => apply next_token_PE in E | E : parse_positions _ _ _ _ = ROk _ |- _ => apply parse_positions_PE in E end.
  cbn [fst snd] in *.
  assert (P : PE st a) by (unfold PE in *; congruence).
  unfold RE. rewrite mats_upd_mats.
  rewrite (set_nth_rows (n_mats a) n m); [rewrite (PE_mats _ _ P); reflexivity | rewrite (PE_mats _ _ P); exact E | reflexivity].
Qed.

Lemma sets_loop_RE : forall f tok st lt st', sets_loop upper dval F f tok st lt = ROk st' -> RE st st'.
Proof.
  induction f as [|f IH]; intros tok st lt st' H; [discriminate|]. cbn [sets_loop] in H. cbv zeta in H.
  steps; re_with ltac:(fun E => first [apply IH in E | apply parse_charset_RE in E]); re_done.
Qed.

Lemma parse_sets_block_RE tok st st' : parse_sets_block upper dval F tok st = ROk st' -> RE st st'.
Proof. unfold parse_sets_block. intro H. steps; re_with ltac:(fun E => apply sets_loop_RE in E); re_done. Qed.

(* ---- the invariant: every matrix read so far is rectangular ---- *)

Definition rect (rows : list (nat * Z)) : Prop := exists nc, rows_eq nc rows.
Definition DOK (st : nstate) : Prop := Forall rect (map m_rows (n_mats st)).

Lemma RE_DOK a b : RE a b -> DOK a -> DOK b.
Proof. unfold RE, DOK. intros H D. rewrite H. exact D. Qed.

Hypothesis Hfx : fx_ildims fx = true.

Lemma parse_matrix_DOK st bt lt st' :
  parse_matrix fx upper lower sym_ok is_float F st bt lt = ROk st' -> DOK st -> DOK st'.
Proof.
  intros H D. destruct (n_nchar st) as [nc|] eqn:Enc.
  - destruct (parse_matrix_spec st bt lt st' nc Hfx H Enc) as [m [Hm Hr]].
    unfold DOK. rewrite Hm. rewrite map_app. apply Forall_app. split; [exact D|].
    constructor; [exists (Z.max 0 nc); exact Hr | constructor].
  - unfold parse_matrix in H. rewrite Enc in H. destruct (n_ntax st); discriminate H.
Qed.

Lemma chars_loop_DOK : forall f tok st bt lt st',
  chars_loop fx upper lower dval sym_ok is_float F f tok st bt lt = ROk st' -> DOK st -> DOK st'.
Proof.
  induction f as [|f IH]; intros tok st bt lt st' H D; [discriminate|]. cbn [chars_loop] in H.
  steps; try assumption;
    repeat match goal with
           | E : chars_loop _ _ _ _ _ _ _ _ _ _ _ _ = ROk _ |- _ => apply IH in E; [exact E|]
           | E : parse_matrix _ _ _ _ _ _ _ _ _ = ROk _ |- _ => apply parse_matrix_DOK in E; [exact E|]
           end;
    try (refine (RE_DOK st _ _ D); re_with ltac:(fun E => re2 E); re_done).
Qed.

Lemma parse_characters_block_DOK tok st st' :
  parse_characters_block fx upper lower dval sym_ok is_float F tok st = ROk st' -> DOK st -> DOK st'.
Proof.
  unfold parse_characters_block. intros H D. cbv zeta in H. steps.
  apply skip_to_semicolon_PE in E. apply skip_to_semicolon_PE in H.
  apply (RE_DOK a0 _ (PE_RE _ _ H)).
  apply (chars_loop_DOK _ _ _ _ _ _ E0).
  apply (RE_DOK st); [|exact D]. re_done.
Qed.

Lemma outer_loop_DOK : forall f st st',
  outer_loop fx upper lower dval sym_ok is_float F f st = ROk st' -> DOK st -> DOK st'.
Proof.
  induction f as [|f IH]; intros st st' H D; [discriminate|]. cbn [outer_loop] in H.
  steps; try assumption;
    match goal with
    | E : outer_loop _ _ _ _ _ _ _ _ _ = ROk _ |- _ => apply IH in E; [exact E|]
    end;
    try match goal with
        | E : parse_characters_block _ _ _ _ _ _ _ _ _ = ROk _ |- _ => apply parse_characters_block_DOK in E; [exact E|]
        end;
    (refine (RE_DOK st _ _ D);
     re_with ltac:(fun E => first [apply parse_taxa_block_RE in E | apply parse_trees_block_RE in E | apply parse_sets_block_RE in E]);
     re_done).
Qed.

Lemma parse_nexus_stream_DOK text st' :
  parse_nexus_stream fx upper lower dval sym_ok is_float F text = ROk st' -> DOK st'.
Proof.
  unfold parse_nexus_stream. intro H. steps.
  apply (outer_loop_DOK _ _ _ H). apply require_next_token_PE in E.
  apply (RE_DOK (init_nstate text) _ (PE_RE _ _ E)). constructor.
Qed.

End Dims.

(* every MATRIX statement the repaired skeleton accepts appends a matrix whose rows all have the declared NCHAR *)
Lemma nexus_matrix_dims_l fx upper lower sym_ok is_float F st bt lt st' nc :
  fx_ildims fx = true -> 0 <= nc ->
  parse_matrix fx upper lower sym_ok is_float F st bt lt = ROk st' -> n_nchar st = Some nc ->
  exists m, n_mats st' = n_mats st ++ [m] /\ Forall (fun r => snd r = nc) (m_rows m).
Proof.
  intros Hfx Hnc H E. destruct (parse_matrix_spec fx upper lower sym_ok is_float F st bt lt st' nc Hfx H E) as [m [A B]].
  exists m. split; [exact A|]. rewrite Z.max_r in B by lia. exact B.
Qed.

(* the final state of an accepted document: every matrix is rectangular *)
Lemma nexus_dims_consistent_l fx upper lower dval sym_ok is_float text st :
  fx_ildims fx = true ->
  nexus_read fx upper lower dval sym_ok is_float text = ROk st ->
  Forall (fun m => exists nc, Forall (fun r => snd r = nc) (m_rows m)) (n_mats st).
Proof.
  intros Hfx H. unfold nexus_read in H.
  pose proof (parse_nexus_stream_DOK fx upper lower dval sym_ok is_float _ Hfx text st H) as D.
  unfold DOK in D. rewrite Forall_map in D. exact D.
Qed.
