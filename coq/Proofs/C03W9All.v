(* C03, wave 9: op_error_frame over the operation language: every operation of Model/HeapOps.v except
   resolve_polytomies, randomly_rotate and randomly_reorient.  Builds on C03W9ErrFrame.op_error_frame_l (Tree-level
   operations) and C03ErrFrame.node_op_error_frame_l (add_child, remove_child, Edge.collapse); the remaining operations
   either complete on every covered argument or (shuffle_taxa) raise after the last write. *)
From Coq Require Import ZArith List Bool Lia Permutation.
From DV Require Import Model.PyPrims Model.Tree Model.Heap Model.HeapOps Model.C03Spec
  Proofs.C03Base Proofs.C03Abs Proofs.C03Local Proofs.C03Prims Proofs.C03Collapse Proofs.C03Suppress
  Proofs.C03Reseed Proofs.C03Order Proofs.C03Ops Proofs.C03Ops2 Proofs.C03Unweighted Proofs.C03PruneLoops
  Proofs.C03SpecLinks Proofs.C03Hist Proofs.C03More Proofs.C03More2 Proofs.C03SetKids Proofs.C03More3
  Proofs.C03RemoveSu Proofs.C03Resolve Proofs.C03Midpoint Proofs.C03Hist2 Proofs.C03Outgroup Proofs.C03Variants
  Proofs.C03ErrFrame Proofs.C03W9ErrFrame.
Import ListNotations.
Open Scope Z_scope.

Definition err_frame_op (o : op) : bool :=
  match o with
  | OResolvePolytomies _ _ _ | ORandomlyRotate _ | ORandomlyReorient _ _ _ => false
  | _ => true
  end.

(* shuffle_taxa raises (the final assertion on a repeated taxon) after the whole shuffle was written *)
Definition shuffle_states (include_internal : bool) (draws : list nat) (h : heap) : list heap :=
  match abs_at h (seed h) with
  | None => []
  | Some t =>
    let nds := filter (fun nd => match taxon h nd with Some _ => true | None => false end)
                      (if include_internal then pre_ids t else leaf_ids t) in
    let pool := flat_map (fun nd => match taxon h nd with Some x => [x] | None => [] end) nds in
    match shuffle_each nds pool draws h with HOk h1 => [h1] | _ => [] end
  end.

Definition err_states_all (o : op) (h : heap) : list heap :=
  match o with
  | OShuffleTaxa ii draws => shuffle_states ii draws h
  | _ => err_states o h
  end.

Lemma shuffle_each_no_err : forall nodes pool draws h e h', shuffle_each nodes pool draws h = HErr e h' -> False.
Proof.
  induction nodes as [|nd r IH]; intros pool draws h e h' H; cbn [shuffle_each] in H; [discriminate|].
  destruct draws as [|d ds]; [discriminate|]. destruct (swap_pop pool d) as [[x pool']|]; [|discriminate].
  eapply IH, H.
Qed.

Lemma shuffle_taxa_err ii draws h e h' : shuffle_taxa ii draws h = HErr e h' -> In h' (shuffle_states ii draws h).
Proof.
  unfold shuffle_taxa, shuffle_states, with_sub. destruct (abs_at h (seed h)) as [t|]; [|discriminate]. cbv zeta.
  match goal with |- hbind ?X _ = _ -> _ => destruct X as [h1|e1 h1|] eqn:E end; cbn [hbind].
  - destruct (has_dup _); [|discriminate]. intros H; inversion H; subst. left. reflexivity.
  - exfalso. eapply shuffle_each_no_err, E.
  - discriminate.
Qed.

Lemma raises_false h o e h' :
  raises h o e h' ->
  match o with
  | ONewChild _ _ _ _ | ODeroot | OCollapseBasal _ | OEncode _ _ | OSuppressUnifurcations | OCollapseUnweighted _ _
  | OLadderize _ | OReorder _ _ | OEdgeInvert _ | ORemoveChild _ _ _ | OCollapseClade _ | OPolytomizeRoot _ => False
  | _ => True
  end.
Proof. destruct o; try (intros _; exact I); destruct e; cbn [raises]; intros []. Qed.

Theorem op_error_frame_all_l v h o e h' :
  WF h -> covered_v v h o -> err_frame_op o = true ->
  run_op_v v o h = HErr e h' ->
  (h' = h \/ In h' (err_states_all o h)) /\ WF h'.
Proof.
  intros W C T H.
  destruct (tree_level_op o) eqn:TL.
  { destruct (op_error_frame_l v h o e h' W C TL H) as [D W'].
    split; [|exact W']. destruct o; cbn [tree_level_op] in TL; try discriminate; exact D. }
  split.
  2:{ destruct (op_wf_variants_l v h o W C) as [h2 [W2 [E|[e2 E]]]]; rewrite H in E; [discriminate|].
      inversion E; subst. exact W2. }
  assert (C2 : covered2 h o).
  { apply (covered_v_2 v); [exact C| |]; intros; intro X; subst o; discriminate. }
  assert (OLD : covered h o -> run_op o h = HErr e h' -> raises h o e h').
  { intros C0 H0. exact (covered_err_raises h o e h' W C0 H0). }
  destruct o; cbn [tree_level_op] in TL; try discriminate; cbn [err_frame_op] in T; try discriminate;
    cbn [run_op_v] in H; cbn [run_op] in H; try discriminate.
  - (* add_child *) left. exact (node_op_error_frame_l h (OAddChild p c) e h' eq_refl H).
  - (* new_child *) exfalso. inversion C2 as [o C0| | | | | | | | | | | | | | | | | ]; subst.
    exact (raises_false h _ e h' (OLD C0 H)).
  - (* remove_child *) destruct su.
    + exfalso. inversion C2 as [o C0| | | |p0 c0 L I0| | | | | | | | | | | | | ]; subst.
      * exact (raises_false h _ e h' (OLD C0 H)).
      * destruct W as [t W]. destruct (remove_child_su_wf h t p c W (live_in h t p W L) I0) as [h2 [t' [c1 [sb [ex [E _]]]]]].
        rewrite E in H. discriminate.
    + left. exact (node_op_error_frame_l h (ORemoveChild p c false) e h' eq_refl H).
  - (* collapse_clade *) exfalso. inversion C2 as [o C0| | | | | | | |c0 L| | | | | | | | | ]; subst.
    + exact (raises_false h _ e h' (OLD C0 H)).
    + destruct W as [t W]. destruct (live_ctx h t c W L) as [cx [s [-> Es]]]. subst c.
      pose proof W as [W0 S]. destruct (collapse_clade_wf h cx s W0) as [h2 [E _]]. rewrite E in H. discriminate.
  - (* Edge.collapse *) left. exact (node_op_error_frame_l h (OEdgeCollapse c adjust) e h' eq_refl H).
  - (* Edge.invert: not a covered operation *) exfalso. inversion C2 as [o C0| | | | | | | | | | | | | | | | | ]; subst.
    exact (raises_false h _ e h' (OLD C0 H)).
  - (* deroot *) exfalso. inversion C2 as [o C0| | | | | | | | | | | | | | | | | ]; subst.
    exact (raises_false h _ e h' (OLD C0 H)).
  - (* collapse_basal_bifurcation *) exfalso. inversion C2 as [o C0| | | | | | | | | | | | | | | | | ]; subst.
    exact (raises_false h _ e h' (OLD C0 H)).
  - (* polytomize_root *) exfalso. destruct W as [t W]. destruct (polytomize_root_wf set_unrooted h t W) as [h2 [t' [E _]]].
    rewrite E in H. discriminate.
  - (* encode_bipartitions *) exfalso. inversion C2 as [o C0| | | | | | | | | | | | | | | | | ]; subst.
    exact (raises_false h _ e h' (OLD C0 H)).
  - (* suppress_unifurcations *) exfalso. inversion C2 as [o C0| | | | | | | | | | | | | | | | | ]; subst.
    exact (raises_false h _ e h' (OLD C0 H)).
  - (* collapse_unweighted_edges *) exfalso. inversion C2 as [o C0| | | | | | | | | | | | | | | | | ]; subst.
    exact (raises_false h _ e h' (OLD C0 H)).
  - (* ladderize *) exfalso. inversion C2 as [o C0| | | | | | | | | | | | | | | | | ]; subst.
    exact (raises_false h _ e h' (OLD C0 H)).
  - (* reorder *) exfalso. inversion C2 as [o C0| | | | | | | | | | | | | | | | | ]; subst.
    exact (raises_false h _ e h' (OLD C0 H)).
  - (* shuffle_taxa *) right. cbn [err_states_all]. eapply shuffle_taxa_err, H.
Qed.

(* satisfiable, with a listed state: two leaves carry the same taxon, shuffle_taxa writes the shuffle, then its final
   assertion trips *)
Definition w9_dup_tree : tree := T 0 None None None [T 1 (Some 0) None None []; T 2 (Some 0) None None []].
Definition w9_dup_heap : heap := of_tree w9_dup_tree None.

Example w9_shuffle_example v :
  exists h', WF w9_dup_heap /\ covered_v v w9_dup_heap (OShuffleTaxa false [0%nat; 0%nat]) /\
    run_op_v v (OShuffleTaxa false [0%nat; 0%nat]) w9_dup_heap = HErr AssertErr h' /\
    In h' (err_states_all (OShuffleTaxa false [0%nat; 0%nat]) w9_dup_heap).
Proof.
  eexists. split; [|split; [|split]].
  - apply of_tree_WF. repeat constructor; simpl; intuition lia.
  - unfold covered_v. destruct (v_outgroup_first v); cbn [covered3]; apply c2_shuffle; vm_compute; discriminate.
  - cbn [run_op_v]. vm_compute. reflexivity.
  - vm_compute. left. reflexivity.
Qed.
