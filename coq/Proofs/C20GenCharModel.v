(* C20, translator tie, part A: the PHYLIP / FASTA models of Model/C20Model.v, with the Python runtime
   functions instantiated as in the translator's primitives (Model/C09Prims.v)
       isspace := is_space      dval := ascii_dval      sym := state_of_symbol a
       case-insensitive namespace (po_case_sensitive = false, matching through `lower`)
       both recorded defect sites in their repaired form (po_fix_fmt = po_fix_dims = true)
   compute the same results as the row-list models of Model/C09Model.v, which Proofs/C09Gen*.v ties to
   the code generated from the source (Gen/CharIO.v).  Nothing here mentions the generated code. *)
From Coq Require Import ZArith List Bool Lia DecimalPos DecimalN.
From DV Require Import Model.PyPrims Model.C09AlphaTypes Model.C09Model Proofs.C09Text Model.C20Model.
Import ListNotations.
Open Scope Z_scope.

(* ---------------------------------------------------------------------------------------------- *)
(* str primitives                                                                                  *)
(* ---------------------------------------------------------------------------------------------- *)

Lemma lstrip_eq : forall s, C20Model.lstrip is_space s = C09Model.lstrip s.
Proof. induction s as [|c r IH]; simpl; [reflexivity|]. destruct (is_space c); [exact IH | reflexivity]. Qed.

Lemma rstrip09_snoc_space : forall l c, is_space c = true -> C09Model.rstrip (l ++ [c]) = C09Model.rstrip l.
Proof.
  induction l as [|x l IH]; intros c H.
  - simpl. rewrite H. reflexivity.
  - cbn [app C09Model.rstrip]. rewrite (IH c H). reflexivity.
Qed.

Lemma rstrip_eq : forall s, C20Model.rstrip is_space s = C09Model.rstrip s.
Proof.
  intro s. unfold C20Model.rstrip. induction s as [|c l IH] using rev_ind; [reflexivity|].
  rewrite rev_app_distr. cbn [rev app C20Model.lstrip]. destruct (is_space c) eqn:E.
  - rewrite IH. symmetry. apply rstrip09_snoc_space. exact E.
  - cbn [rev]. rewrite rev_involutive. symmetry. apply rstrip_last_nonspace. exact E.
Qed.

Lemma strip_eq : forall s, C20Model.strip is_space s = C09Model.strip s.
Proof. intro s. unfold C20Model.strip, C09Model.strip. rewrite rstrip_eq, lstrip_eq. reflexivity. Qed.

Lemma span_eq : forall p q s, (forall c, p c = q c) -> C20Model.span p s = C09Model.span q s.
Proof.
  intros p q s H. induction s as [|c r IH]; simpl; [reflexivity|]. rewrite <- H.
  destruct (p c); [|reflexivity]. rewrite IH. destruct (C09Model.span q r). reflexivity.
Qed.

Lemma is_digit_eq : forall c, C20Model.is_digit ascii_dval c = C09Model.is_digit c.
Proof.
  intro c. unfold C20Model.is_digit, ascii_dval, C09Model.is_digit.
  destruct ((48 <=? c) && (c <=? 57)); reflexivity.
Qed.

Lemma is_blank_eq : forall c, C20Model.is_blank c = C09Model.is_blank c.
Proof. reflexivity. Qed.

Lemma span_space_lstrip : forall s, snd (C09Model.span is_space s) = C09Model.lstrip s.
Proof.
  induction s as [|c r IH]; simpl; [reflexivity|]. destruct (is_space c); [|reflexivity].
  destruct (C09Model.span is_space r). exact IH.
Qed.

Lemma span_fst_forall : forall p s, forallb p (fst (C09Model.span p s)) = true.
Proof.
  intros p s. induction s as [|c r IH]; simpl; [reflexivity|]. destruct (p c) eqn:E; [|reflexivity].
  destruct (C09Model.span p r). simpl in *. rewrite E. exact IH.
Qed.

Lemma text_eqb_sym : forall a b : text, text_eqb a b = text_eqb b a.
Proof.
  intros a b. destruct (text_eqb a b) eqn:E1; destruct (text_eqb b a) eqn:E2; try reflexivity.
  - apply text_eqb_eq in E1. subst. rewrite text_eqb_refl in E2. discriminate.
  - apply text_eqb_eq in E2. subst. rewrite text_eqb_refl in E1. discriminate.
Qed.

(* ---------------------------------------------------------------------------------------------- *)
(* int() of a digit string: the left fold of C20Model against the decimal numbers of the library   *)
(* ---------------------------------------------------------------------------------------------- *)

Fixpoint vacc (acc : N) (u : Decimal.uint) : N :=
  match u with
  | Decimal.Nil => acc
  | Decimal.D0 r => vacc (10 * acc) r | Decimal.D1 r => vacc (10 * acc + 1) r
  | Decimal.D2 r => vacc (10 * acc + 2) r | Decimal.D3 r => vacc (10 * acc + 3) r
  | Decimal.D4 r => vacc (10 * acc + 4) r | Decimal.D5 r => vacc (10 * acc + 5) r
  | Decimal.D6 r => vacc (10 * acc + 6) r | Decimal.D7 r => vacc (10 * acc + 7) r
  | Decimal.D8 r => vacc (10 * acc + 8) r | Decimal.D9 r => vacc (10 * acc + 9) r
  end%N.

Lemma of_lu_revapp_vacc : forall u d', Unsigned.of_lu (Decimal.revapp u d') = vacc (Unsigned.of_lu d') u.
Proof.
  induction u as [|u IH|u IH|u IH|u IH|u IH|u IH|u IH|u IH|u IH|u IH]; intro d';
    cbn [Decimal.revapp vacc]; [reflexivity|..]; rewrite IH; cbn [Unsigned.of_lu];
    apply (f_equal (fun z => vacc z u)); lia.
Qed.

Lemma of_uint_vacc : forall u, N.of_uint u = vacc 0 u.
Proof.
  intro u. unfold N.of_uint. rewrite Unsigned.of_uint_alt. unfold Decimal.rev.
  rewrite of_lu_revapp_vacc. reflexivity.
Qed.

Definition dstep (acc c : Z) : Z := acc * 10 + match ascii_dval c with Some v => v | None => 0 end.

Lemma dstep_digit : forall acc c, 48 <= c <= 57 -> dstep acc c = acc * 10 + (c - 48).
Proof.
  intros acc c H. unfold dstep, ascii_dval.
  replace ((48 <=? c) && (c <=? 57)) with true; [reflexivity|].
  symmetry. apply andb_true_iff. split; apply Z.leb_le; lia.
Qed.

Lemma digits_val : forall d, forallb C09Model.is_digit d = true ->
  exists u, digits_uint d = Some u /\ forall acc, Z.of_N (vacc acc u) = fold_left dstep d (Z.of_N acc).
Proof.
  induction d as [|c r IH]; intro H.
  - exists Decimal.Nil. split; reflexivity.
  - cbn [forallb] in H. apply andb_true_iff in H. destruct H as [Hc Hr].
    destruct (IH Hr) as [u [Eu Ev]].
    unfold C09Model.is_digit in Hc. apply andb_true_iff in Hc. destruct Hc as [H1 H2].
    apply Z.leb_le in H1. apply Z.leb_le in H2.
    assert (Cs : c = 48 \/ c = 49 \/ c = 50 \/ c = 51 \/ c = 52 \/ c = 53 \/ c = 54 \/ c = 55 \/ c = 56 \/ c = 57) by lia.
    destruct Cs as [E|[E|[E|[E|[E|[E|[E|[E|[E|E]]]]]]]]]; subst c; cbn [digits_uint]; rewrite Eu; cbn [Z.eqb Pos.eqb];
      eexists; (split; [reflexivity|]); intro acc; cbn [vacc fold_left]; rewrite Ev;
      rewrite dstep_digit by lia; apply (f_equal (fold_left dstep r)); lia.
Qed.

Lemma parse_nat_int_of : forall d, d <> [] -> forallb C09Model.is_digit d = true ->
  parse_nat d = Some (int_of ascii_dval d).
Proof.
  intros d Hn Hd. destruct (digits_val d Hd) as [u [Eu Ev]].
  unfold parse_nat. destruct d as [|c r]; [contradiction|]. rewrite Eu. f_equal.
  rewrite of_uint_vacc. rewrite (Ev 0%N). reflexivity.
Qed.

(* re.match(r'\s*(\d+)\s+(\d+)\s*$', line) *)
Lemma match_desc_eq : forall line, match_desc is_space ascii_dval line = parse_desc line.
Proof.
  intro line. unfold match_desc, parse_desc.
  pose proof (span_space_lstrip line) as E0. destruct (C09Model.span is_space line) as [w0 l1]. cbn [snd] in E0.
  rewrite lstrip_eq. rewrite <- E0.
  rewrite (span_eq (C20Model.is_digit ascii_dval) C09Model.is_digit l1 is_digit_eq).
  pose proof (span_fst_forall C09Model.is_digit l1) as D1.
  destruct (C09Model.span C09Model.is_digit l1) as [d1 l2]. cbn [fst] in D1.
  rewrite (span_eq is_space is_space l2 (fun c => eq_refl)).
  destruct (C09Model.span is_space l2) as [s1 l3].
  rewrite (span_eq (C20Model.is_digit ascii_dval) C09Model.is_digit l3 is_digit_eq).
  pose proof (span_fst_forall C09Model.is_digit l3) as D2.
  destruct (C09Model.span C09Model.is_digit l3) as [d2 l4]. cbn [fst] in D2.
  pose proof (span_space_lstrip l4) as E4. destruct (C09Model.span is_space l4) as [w4 l5]. cbn [snd] in E4.
  rewrite lstrip_eq. rewrite <- E4.
  destruct d1 as [|a1 d1]; [reflexivity|]. destruct s1 as [|b1 s1]; [reflexivity|].
  destruct d2 as [|a2 d2]; [reflexivity|]. destruct l5 as [|x l5]; [|reflexivity].
  rewrite (parse_nat_int_of (a1 :: d1)) by (assumption || discriminate).
  rewrite (parse_nat_int_of (a2 :: d2)) by (assumption || discriminate).
  reflexivity.
Qed.

(* filesys.get_lines *)
Lemma split_lines_eq_len : forall n s cur, (length s <= n)%nat -> split_lines s cur = split3_aux cur s.
Proof.
  induction n as [|n IH]; intros s cur H.
  - destruct s; [reflexivity | simpl in H; lia].
  - destruct s as [|c r]; [reflexivity|]. cbn [split_lines split3_aux]. simpl in H.
    destruct (c =? 10); [rewrite IH by lia; reflexivity|].
    destruct (c =? 13).
    + destruct r as [|d r']; [rewrite IH by (simpl; lia); reflexivity|]. simpl in H.
      destruct (d =? 10); rewrite IH by (simpl; lia); reflexivity.
    + apply IH. lia.
Qed.

Lemma split_lines_eq : forall s, split_lines s [] = split_lines3 s.
Proof. intro s. unfold split_lines3. apply (split_lines_eq_len (length s)). lia. Qed.

(* re.split('[ \t]{1,}' / '[ \t]{2,}', line, maxsplit=1) *)
Definition parts2 (x : str * option str) : text * text :=
  match x with (a, Some b) => (a, b) | (a, None) => (a, []) end.

Lemma split_blank1_eq : forall s acc,
  parts2 (split_blank false s acc) = (rev acc ++ fst (split_blank1 s), snd (split_blank1 s)).
Proof.
  induction s as [|c r IH]; intro acc.
  - cbn. rewrite app_nil_r. reflexivity.
  - cbn [split_blank split_blank1]. change (C20Model.is_blank c) with (C09Model.is_blank c).
    destruct (C09Model.is_blank c).
    + rewrite (span_eq C20Model.is_blank C09Model.is_blank r is_blank_eq).
      destruct (C09Model.span C09Model.is_blank r) as [run rest]. cbn. rewrite app_nil_r. reflexivity.
    + rewrite IH. destruct (split_blank1 r) as [a b]. cbn [fst snd rev]. rewrite <- app_assoc. reflexivity.
Qed.

Lemma split_blank2_eq : forall s acc,
  parts2 (split_blank true s acc) = (rev acc ++ fst (split_blank2 s), snd (split_blank2 s)).
Proof.
  induction s as [|c r IH]; intro acc.
  - cbn. rewrite app_nil_r. reflexivity.
  - cbn [split_blank split_blank2]. change (C20Model.is_blank c) with (C09Model.is_blank c).
    destruct (C09Model.is_blank c) eqn:Ec.
    + rewrite (span_eq C20Model.is_blank C09Model.is_blank r is_blank_eq).
      destruct r as [|d r1].
      * cbn. reflexivity.
      * cbn [C09Model.span]. destruct (C09Model.is_blank d) eqn:Ed.
        -- destruct (C09Model.span C09Model.is_blank r1) as [run rest]. cbn. rewrite app_nil_r. reflexivity.
        -- cbn [andb]. rewrite IH. destruct (split_blank2 (d :: r1)) as [a b]. cbn [fst snd rev].
           rewrite <- app_assoc. reflexivity.
    + rewrite IH. destruct (split_blank2 r) as [a b]. cbn [fst snd rev]. rewrite <- app_assoc. reflexivity.
Qed.

(* ---------------------------------------------------------------------------------------------- *)
(* rows                                                                                            *)
(* ---------------------------------------------------------------------------------------------- *)

Section Rows.
Variable lower : text -> text.

Lemma find_row_eq : forall name (rows : list row) k,
  C20Model.find_row lower false name rows k = option_map fst (C09Model.find_row lower Z name rows k).
Proof.
  intros name rows. induction rows as [|[l v] rows IH]; intro k; [reflexivity|].
  cbn [C20Model.find_row C09Model.find_row]. unfold label_matches, same_taxon, str_eqb.
  change (list_eqb Z.eqb (lower l) (lower name)) with (text_eqb (lower l) (lower name)).
  rewrite (text_eqb_sym (lower l) (lower name)).
  destruct (text_eqb (lower name) (lower l)); [reflexivity | apply IH].
Qed.

Lemma find_row_nth : forall name (rows : list row) k i v,
  C09Model.find_row lower Z name rows k = Some (i, v) -> exists l, nth_error rows (i - k) = Some (l, v).
Proof.
  intros name rows. induction rows as [|[l0 v0] rows IH]; intros k i v H; simpl in H; [discriminate|].
  destruct (same_taxon lower name l0).
  - inversion H; subst. rewrite Nat.sub_diag. exists l0. reflexivity.
  - destruct (IH (S k) i v H) as [l E].
    assert (S k <= i)%nat.
    { clear - H. revert k H. induction rows as [|[l1 v1] rows IHr]; intros k H; simpl in H; [discriminate|].
      destruct (same_taxon lower name l1); [inversion H; lia | apply IHr in H; lia]. }
    replace (i - k)%nat with (S (i - S k)) by lia. exists l. exact E.
Qed.

Lemma append_at_eq : forall (rows : list row) i x, C20Model.append_at rows i x = C09Model.append_at Z i x rows.
Proof.
  induction rows as [|[l v] rows IH]; intros i x; [destruct i; reflexivity|].
  destruct i as [|i]; [reflexivity|]. cbn [C20Model.append_at C09Model.append_at]. rewrite IH. reflexivity.
Qed.

Lemma zlen_len : forall (A : Type) (l : list A), zlen l = len l.
Proof. reflexivity. Qed.

(* the options of the two models *)
Definition ropts (o : popts) : phy_ropts := mkPR (po_strict o) (po_interleaved o) (po_multispace o) (po_underscores o).

Definition tie_opts (o : popts) : Prop := po_case_sensitive o = false /\ po_fix_fmt o = true /\ po_fix_dims o = true.

(* _parse_taxon_from_line *)
Lemma parse_taxon_eq : forall (o : popts) ntax nchar (rows : list row) line,
  tie_opts o -> len rows <= ntax ->
  parse_taxon_from_line is_space lower o ntax nchar rows line
  = match parse_taxon lower Z (ropts o) ntax nchar rows line with
    | Ok (rows', i, rest) => Ok (i, rest, rows')
    | Err e => Err e
    | OutOfFuel => OutOfFuel
    end.
Proof.
  intros o ntax nchar rows line [Hcs [Hfmt _]] Hlen.
  unfold parse_taxon_from_line, parse_taxon, ropts. cbn [r_strict r_multispace r_u2s].
  assert (Core : forall (lab0 rest : text),
    match C20Model.strip is_space lab0 with
    | [] => Err ParseErr
    | _ :: _ =>
        match C20Model.find_row lower (po_case_sensitive o)
                (if po_underscores o then map (fun c : Z => if c =? 95 then 32 else c) (C20Model.strip is_space lab0)
                 else C20Model.strip is_space lab0) rows 0 with
        | Some i => if row_len rows i >=? nchar then Err (if po_fix_fmt o then ParseErr else TypeErr)
                    else if zlen rows >? ntax then Err ParseErr else Ok (i, rest, rows)
        | None =>
            if zlen (rows ++ [(if po_underscores o then map (fun c : Z => if c =? 95 then 32 else c) (C20Model.strip is_space lab0)
                               else C20Model.strip is_space lab0, [])]) >? ntax
            then Err ParseErr
            else Ok (length rows, rest,
                     rows ++ [(if po_underscores o then map (fun c : Z => if c =? 95 then 32 else c) (C20Model.strip is_space lab0)
                               else C20Model.strip is_space lab0, [])])
        end
    end
    = match
        match C09Model.strip lab0 with
        | [] => Err ParseErr
        | _ :: _ =>
            match C09Model.find_row lower Z (if po_underscores o then replace_char 95 32 (C09Model.strip lab0) else C09Model.strip lab0) rows 0 with
            | Some (i, v) => if nchar <=? len v then Err ParseErr else Ok (rows, i, rest)
            | None =>
                if ntax <? len (rows ++ [(if po_underscores o then replace_char 95 32 (C09Model.strip lab0) else C09Model.strip lab0, [])])
                then Err ParseErr
                else Ok (rows ++ [(if po_underscores o then replace_char 95 32 (C09Model.strip lab0) else C09Model.strip lab0, [])],
                         length rows, rest)
            end
        end
      with
      | Ok (rows', i, rest0) => Ok (i, rest0, rows')
      | Err e => Err e
      | OutOfFuel => OutOfFuel
      end).
  { intros lab0 rest. rewrite strip_eq. destruct (C09Model.strip lab0) as [|c0 lr]; [reflexivity|].
    change (map (fun c : Z => if c =? 95 then 32 else c) (c0 :: lr)) with (replace_char 95 32 (c0 :: lr)).
    rewrite Hcs. rewrite find_row_eq.
    assert (G : forall lab : text,
      match option_map fst (C09Model.find_row lower Z lab rows 0) with
      | Some i => if row_len rows i >=? nchar then Err (if po_fix_fmt o then ParseErr else TypeErr)
                  else if zlen rows >? ntax then Err ParseErr else Ok (i, rest, rows)
      | None => if zlen (rows ++ [(lab, [])]) >? ntax then Err ParseErr else Ok (length rows, rest, rows ++ [(lab, [])])
      end
      = match match C09Model.find_row lower Z lab rows 0 with
              | Some (i, v) => if nchar <=? len v then Err ParseErr else Ok (rows, i, rest)
              | None => if ntax <? len (rows ++ [(lab, [])]) then Err ParseErr else Ok (rows ++ [(lab, [])], length rows, rest)
              end with
        | Ok (rows', i, rest0) => Ok (i, rest0, rows')
        | Err e => Err e
        | OutOfFuel => OutOfFuel
        end);
    [|destruct (po_underscores o); apply G].
    intro lab.
    destruct (C09Model.find_row lower Z lab rows 0) as [[i v]|] eqn:Ef; cbn [option_map fst].
    - destruct (find_row_nth _ _ _ _ _ Ef) as [l En]. rewrite Nat.sub_0_r in En.
      unfold row_len. rewrite En. rewrite Hfmt. rewrite zlen_len.
      rewrite Z.geb_leb. destruct (nchar <=? len v); [reflexivity|].
      rewrite zlen_len. replace (len rows >? ntax) with false; [reflexivity|].
      symmetry. rewrite Z.gtb_ltb. apply Z.ltb_ge. exact Hlen.
    - rewrite zlen_len. rewrite Z.gtb_ltb. destruct (ntax <? len (rows ++ [(lab, [])])); reflexivity. }
  destruct (po_strict o).
  - rewrite (strip_eq (firstn 10 line)). exact (Core (C09Model.strip (firstn 10 line)) (skipn 10 line)).
  - destruct (po_multispace o).
    + pose proof (split_blank2_eq line []) as E. cbn [rev app] in E. unfold parts2 in E.
      destruct (split_blank true line []) as [x [y|]]; destruct (split_blank2 line) as [lab0 rest];
        cbn [fst snd] in E; inversion E; subst; apply Core.
    + pose proof (split_blank1_eq line []) as E. cbn [rev app] in E. unfold parts2 in E.
      destruct (split_blank false line []) as [x [y|]]; destruct (split_blank1 line) as [lab0 rest];
        cbn [fst snd] in E; inversion E; subst; apply Core.
Qed.

End Rows.

(* ---------------------------------------------------------------------------------------------- *)
(* _parse_sequence_from_line for both values of ignore_invalid_chars                               *)
(* ---------------------------------------------------------------------------------------------- *)

(* the row-list form: the states a line contributes; an unknown symbol is skipped when `ign` *)
Fixpoint phylip_states_ig (a : alphabet) (ign : bool) (s : text) : res (list Z) :=
  match s with
  | [] => Ok []
  | c :: r =>
    if C09Model.is_blank c then phylip_states_ig a ign r
    else match state_of_symbol a c with
         | None => if ign then phylip_states_ig a ign r else Err ParseErr
         | Some i => do rest <- phylip_states_ig a ign r ;; Ok (i :: rest)
         end
  end.

Lemma phylip_states_ig_false : forall a s, phylip_states_ig a false s = phylip_states a s.
Proof.
  intros a s. induction s as [|c r IH]; [reflexivity|]. cbn [phylip_states_ig phylip_states]. rewrite IH. reflexivity.
Qed.

Lemma parse_symbols_eq : forall a ign s, parse_symbols (state_of_symbol a) ign s = phylip_states_ig a ign s.
Proof.
  intros a ign s. induction s as [|c r IH]; [reflexivity|]. cbn [parse_symbols phylip_states_ig].
  change (C20Model.is_blank c) with (C09Model.is_blank c). rewrite IH. reflexivity.
Qed.

Lemma fasta_symbols_eq : forall a s, fasta_symbols is_space (state_of_symbol a) s = fasta_states a s.
Proof.
  intros a s. induction s as [|c r IH]; [reflexivity|]. cbn [fasta_symbols fasta_states]. rewrite IH.
  destruct (is_space c); [reflexivity|]. destruct (state_of_symbol a c); reflexivity.
Qed.

(* ---------------------------------------------------------------------------------------------- *)
(* the line loops and the reader                                                                   *)
(* ---------------------------------------------------------------------------------------------- *)

Section Loops.
Variable lower : text -> text.
Variable a : alphabet.
Variable o : popts.
Hypothesis Ho : tie_opts o.
Variables ntax nchar : Z.

Let dec := phylip_states_ig a (po_ignore_invalid o).

Lemma parse_taxon_inv' : forall (rows rows1 : list row) line i rest, len rows <= ntax ->
  parse_taxon lower Z (ropts o) ntax nchar rows line = Ok (rows1, i, rest) ->
  len rows1 <= ntax /\ (i < length rows1)%nat.
Proof.
  intros rows rows1 line i rest Hlen H. unfold parse_taxon, ropts in H. cbn [r_strict r_multispace r_u2s] in H.
  match type of H with context [match ?X with (_, _) => _ end] => destruct X as [lab0 rest0] end.
  destruct (C09Model.strip lab0) as [|c0 lr]; [discriminate|].
  match type of H with context [C09Model.find_row lower Z ?L rows 0] => set (lab := L) in * end.
  destruct (C09Model.find_row lower Z lab rows 0) as [[j v]|] eqn:Ef.
  - destruct (nchar <=? len v); [discriminate|]. inversion H; subst. split; [exact Hlen|].
    destruct (find_row_nth lower _ _ _ _ _ Ef) as [l En]. rewrite Nat.sub_0_r in En.
    apply nth_error_Some. congruence.
  - match type of H with (if ?C then _ else _) = _ => destruct C eqn:Et end; [discriminate|]. inversion H; subst.
    apply Z.ltb_ge in Et. split; [exact Et|]. rewrite app_length. simpl. lia.
Qed.

Lemma append_at_length : forall (rows : list row) i x, length (C09Model.append_at Z i x rows) = length rows.
Proof.
  intros rows. induction rows as [|[l v] rows IH]; intros i x; [destruct i; reflexivity|].
  destruct i as [|i]; [reflexivity|]. cbn [C09Model.append_at length]. rewrite IH. reflexivity.
Qed.

Lemma append_at_len : forall (rows : list row) i x, len (C09Model.append_at Z i x rows) = len rows.
Proof. intros. unfold len. rewrite append_at_length. reflexivity. Qed.

Lemma row_len_eq : forall (rows : list row) i, (i < length rows)%nat ->
  (if row_len rows i >=? nchar then None else Some i)
  = match nth_error rows i with
    | Some (_, v) => if nchar <=? len v then None else Some i
    | None => None
    end.
Proof.
  intros rows i H. unfold row_len. destruct (nth_error rows i) as [[l v]|] eqn:E.
  - rewrite zlen_len, Z.geb_leb. reflexivity.
  - apply nth_error_None in E. lia.
Qed.

Lemma parse_sequential_eq : forall lines cur (rows : list row), len rows <= ntax ->
  (forall i, cur = Some i -> (i < length rows)%nat) ->
  parse_sequential is_space lower (state_of_symbol a) o ntax nchar lines cur rows
  = phylip_sequential lower Z dec (ropts o) ntax nchar rows cur lines.
Proof.
  induction lines as [|line0 lines IH]; intros cur rows Hlen Hcur; [reflexivity|].
  cbn [parse_sequential phylip_sequential]. rewrite rstrip_eq.
  destruct (C09Model.rstrip line0) as [|c r] eqn:Er; [apply IH; assumption|].
  destruct cur as [i|].
  - cbn [bind]. rewrite parse_symbols_eq. fold dec.
    destruct (dec (c :: r)) as [syms| |]; cbn [bind]; [|reflexivity|reflexivity].
    rewrite append_at_eq.
    assert (Hi : (i < length (C09Model.append_at Z i syms rows))%nat)
      by (rewrite append_at_length; apply Hcur; reflexivity).
    rewrite (row_len_eq _ i Hi).
    apply IH; [rewrite append_at_len; exact Hlen|].
    intros j Hj. destruct (nth_error (C09Model.append_at Z i syms rows) i) as [[l v]|]; [|discriminate].
    destruct (nchar <=? len v); [discriminate|]. inversion Hj; subst. exact Hi.
  - rewrite (parse_taxon_eq lower o ntax nchar rows (c :: r) Ho Hlen).
    destruct (parse_taxon lower Z (ropts o) ntax nchar rows (c :: r)) as [[[rows1 i] rest]| |] eqn:Ex; cbn [bind]; [|reflexivity|reflexivity].
    rewrite parse_symbols_eq. fold dec.
    destruct (dec rest) as [syms| |]; cbn [bind]; [|reflexivity|reflexivity].
    rewrite append_at_eq.
    destruct (parse_taxon_inv' rows rows1 (c :: r) i rest Hlen Ex) as [Hl1 Hi1].
    assert (Hi : (i < length (C09Model.append_at Z i syms rows1))%nat) by (rewrite append_at_length; exact Hi1).
    rewrite (row_len_eq _ i Hi).
    apply IH; [rewrite append_at_len; exact Hl1|].
    intros j Hj. destruct (nth_error (C09Model.append_at Z i syms rows1) i) as [[l v]|]; [|discriminate].
    destruct (nchar <=? len v); [discriminate|]. inversion Hj; subst. exact Hi.
Qed.

Lemma parse_interleaved_eq : forall lines paged paged_row (rows : list row), len rows <= ntax -> -1 <= paged_row ->
  parse_interleaved is_space lower (state_of_symbol a) o ntax nchar lines paged paged_row rows
  = phylip_interleaved lower Z dec (ropts o) ntax nchar rows paged paged_row lines.
Proof.
  induction lines as [|line0 lines IH]; intros paged paged_row rows Hlen Hp; [reflexivity|].
  cbn [parse_interleaved phylip_interleaved]. rewrite rstrip_eq.
  destruct (C09Model.rstrip line0) as [|c r] eqn:Er; [apply IH; assumption|].
  rewrite Z.geb_leb.
  set (pr := if ntax <=? paged_row + 1 then 0 else paged_row + 1).
  assert (Hpr : 0 <= pr) by (unfold pr; destruct (ntax <=? paged_row + 1); lia).
  destruct paged.
  - rewrite zlen_len.
    match goal with |- context [@nth_error ?A rows (Z.to_nat pr)] => destruct (@nth_error A rows (Z.to_nat pr)) as [x|] eqn:En end.
    + assert (Lt : pr < len rows).
      { assert (Z.to_nat pr < length rows)%nat.
        { apply nth_error_Some. intro Hn. change (@nth_error row rows (Z.to_nat pr)) with (@nth_error (text * list Z) rows (Z.to_nat pr)) in Hn.
          rewrite Hn in En. discriminate. }
        unfold len. lia. }
      replace ((0 <=? pr) && (pr <? len rows)) with true
        by (symmetry; apply andb_true_iff; split; [apply Z.leb_le | apply Z.ltb_lt]; lia).
      rewrite parse_symbols_eq. fold dec.
      destruct (dec (c :: r)) as [syms| |]; cbn [bind]; [|reflexivity|reflexivity].
      rewrite append_at_eq. apply IH; [rewrite append_at_len; exact Hlen | lia].
    + assert (Ge : len rows <= pr).
      { apply nth_error_None in En. change (@length (text * list Z) rows) with (@length row rows) in En. unfold len. lia. }
      replace ((0 <=? pr) && (pr <? len rows)) with false
        by (symmetry; apply andb_false_iff; right; apply Z.ltb_ge; lia).
      reflexivity.
  - rewrite (parse_taxon_eq lower o ntax nchar rows (c :: r) Ho Hlen).
    destruct (parse_taxon lower Z (ropts o) ntax nchar rows (c :: r)) as [[[rows1 i] rest]| |] eqn:Ex; cbn [bind]; [|reflexivity|reflexivity].
    destruct (parse_taxon_inv' rows rows1 (c :: r) i rest Hlen Ex) as [Hl1 Hi1].
    rewrite zlen_len. rewrite parse_symbols_eq. fold dec.
    change (@len (text * list Z) rows1) with (@len row rows1).
    match goal with |- context [if ?C then (true, -1) else _] => destruct C end; destruct (dec rest) as [syms| |]; cbv beta iota; cbn [bind]; try reflexivity;
      rewrite append_at_eq; apply IH; try (rewrite append_at_len; exact Hl1); lia.
Qed.

End Loops.

(* PhylipReader._read *)
Theorem phylip_read_eq : forall (lower : text -> text) (a : alphabet) (o : popts) (t : text), tie_opts o ->
  phylip_read is_space ascii_dval lower (state_of_symbol a) o t
  = read_phylip lower Z (phylip_states_ig a (po_ignore_invalid o)) (ropts o) t.
Proof.
  intros lower a o t Ho. unfold phylip_read, read_phylip. rewrite split_lines_eq.
  set (lines := split_lines3 t).
  destruct lines as [|desc [|l1 [|l2 rest]]]; try reflexivity.
  replace (len (desc :: l1 :: l2 :: rest) <=? 2) with false
    by (symmetry; apply Z.leb_gt; unfold len; cbn [length]; lia).
  rewrite match_desc_eq. destruct (parse_desc desc) as [[ntax nchar]|] eqn:Ed; [|reflexivity].
  destruct ((ntax =? 0) || (nchar =? 0)) eqn:Ez; [reflexivity|].
  assert (Hn : 0 <= ntax).
  { unfold parse_desc in Ed.
    destruct (C09Model.span is_space desc) as [s0 x1]. destruct (C09Model.span C09Model.is_digit x1) as [d1 x2].
    destruct (C09Model.span is_space x2) as [s1 x3]. destruct (C09Model.span C09Model.is_digit x3) as [d2 x4].
    destruct (C09Model.span is_space x4) as [s2 x5].
    destruct d1; try discriminate. destruct s1; try discriminate. destruct d2; try discriminate.
    destruct x5; try discriminate.
    destruct (parse_nat (z :: d1)) as [p|] eqn:E1; try discriminate.
    destruct (parse_nat (z1 :: d2)) as [q|] eqn:E2; try discriminate.
    inversion Ed; subst. unfold parse_nat in E1.
    destruct (digits_uint (z :: d1)); try discriminate. inversion E1. apply N2Z.is_nonneg. }
  assert (L0 : len (@nil row) <= ntax) by (unfold len; simpl; lia).
  cbn [r_interleaved ropts].
  assert (E : (if po_interleaved o
               then parse_interleaved is_space lower (state_of_symbol a) o ntax nchar (l1 :: l2 :: rest) false (-1) []
               else parse_sequential is_space lower (state_of_symbol a) o ntax nchar (l1 :: l2 :: rest) None [])
              = (if po_interleaved o
                 then phylip_interleaved lower Z (phylip_states_ig a (po_ignore_invalid o)) (ropts o) ntax nchar [] false (-1) (l1 :: l2 :: rest)
                 else phylip_sequential lower Z (phylip_states_ig a (po_ignore_invalid o)) (ropts o) ntax nchar [] None (l1 :: l2 :: rest))).
  { destruct (po_interleaved o).
    - apply parse_interleaved_eq; [exact Ho | exact L0 | lia].
    - apply parse_sequential_eq; [exact Ho | exact L0 | intros i H; discriminate]. }
  rewrite E. clear E. unfold ropts.
  match goal with |- bind ?X _ = bind ?Y _ => change Y with X; destruct X as [rows| |]; cbn [bind]; try reflexivity end.
  destruct Ho as [_ [_ Hd]]. rewrite Hd. cbn [andb].
  unfold zlen, len, row, str, text.
  match goal with |- context [negb (?X =? ntax)] => destruct (X =? ntax) end; cbn [negb]; [|reflexivity].
  match goal with |- context [negb (forallb ?F ?R)] => destruct (forallb F R) end; reflexivity.
Qed.

(* ---------------------------------------------------------------------------------------------- *)
(* FASTA                                                                                           *)
(* ---------------------------------------------------------------------------------------------- *)

Lemma nth_snoc_last : forall (A : Type) (rs : list A) x, nth_error (rs ++ [x]) (length rs) = Some x.
Proof. induction rs; simpl; [reflexivity | assumption]. Qed.

Section Fasta.
Variable lower : text -> text.
Variable a : alphabet.

(* C09's state is the matrix read so far, most recent row first; curr_vec is the head row *)
Definition cur_of (rows : list (text * list Z)) : option nat :=
  match rows with [] => None | _ => Some (length rows - 1)%nat end.

Lemma find_row_exists : forall name (st : list (text * list Z)),
  (match C20Model.find_row lower false name (rev st) 0 with Some _ => true | None => false end)
  = existsb (fun r : text * list Z => same_taxon lower name (fst r)) st.
Proof.
  intros name st. rewrite find_row_eq.
  assert (G : forall (rows : list (text * list Z)) k,
            (match C09Model.find_row lower Z name rows k with Some _ => true | None => false end)
            = existsb (fun r : text * list Z => same_taxon lower name (fst r)) rows).
  { induction rows as [|[l v] rows IH]; intro k; [reflexivity|]. cbn [C09Model.find_row existsb fst].
    destruct (same_taxon lower name l); [reflexivity | apply IH]. }
  assert (R : forall (f : text * list Z -> bool) (l : list (text * list Z)), existsb f (rev l) = existsb f l).
  { intros f l. induction l as [|x l IH]; [reflexivity|]. cbn [rev]. rewrite existsb_app. cbn [existsb].
    rewrite IH. rewrite orb_false_r. apply orb_comm. }
  rewrite <- R. rewrite <- (G (rev st) 0%nat).
  destruct (C09Model.find_row lower Z name (rev st) 0) as [[i v]|]; reflexivity.
Qed.

Lemma cur_of_snoc : forall (rs : list (text * list Z)) x, cur_of (rs ++ [x]) = Some (length rs).
Proof.
  intros rs x. unfold cur_of. destruct (rs ++ [x]) eqn:E0; [destruct rs; discriminate|].
  rewrite <- E0. rewrite app_length. cbn [length]. f_equal. lia.
Qed.

Ltac use_IH IH X :=
  match goal with |- C20Model.fasta_lines _ _ _ _ _ ?c ?rs = _ =>
    replace c with (cur_of (rev X)); [exact (IH X) | cbn [rev]; apply cur_of_snoc] end.

Lemma fasta_lines_eq : forall lines (st : list (text * list Z)),
  C20Model.fasta_lines is_space lower (state_of_symbol a) false lines (cur_of (rev st)) (rev st)
  = do st' <- C09Model.fasta_lines lower a st lines ;; Ok (rev st').
Proof.
  induction lines as [|line lines IH]; intro st; [reflexivity|].
  cbn [C20Model.fasta_lines C09Model.fasta_lines]. unfold fasta_step. rewrite strip_eq.
  destruct (C09Model.strip line) as [|c r] eqn:Es.
  - cbn [bind]. apply IH.
  - destruct (c =? 62) eqn:Ec.
    + rewrite strip_eq. set (name := C09Model.strip r).
      pose proof (find_row_exists name st) as Ex.
      destruct (C20Model.find_row lower false name (rev st) 0) as [j|].
      * rewrite <- Ex. reflexivity.
      * rewrite <- Ex. destruct st as [|[l v] st0].
        -- cbn [rev cur_of bind length app]. apply (IH [(name, [])]).
        -- assert (Ecur : cur_of (rev ((l, v) :: st0)) = Some (length (rev st0))) by (cbn [rev]; apply cur_of_snoc).
           rewrite Ecur. unfold row_len. cbn [rev]. rewrite nth_snoc_last.
           destruct v as [|z v].
           ++ reflexivity.
           ++ replace (zlen (z :: v) =? 0) with false by (symmetry; apply Z.eqb_neq; unfold zlen; cbn [length]; lia).
              cbn [bind]. use_IH IH ((name, @nil Z) :: (l, z :: v) :: st0).
    + destruct st as [|[l v] st0].
      * reflexivity.
      * assert (Ecur : cur_of (rev ((l, v) :: st0)) = Some (length (rev st0))) by (cbn [rev]; apply cur_of_snoc).
        rewrite Ecur. rewrite fasta_symbols_eq.
        destruct (fasta_states a (c :: r)) as [syms| |]; cbn [bind]; [|reflexivity|reflexivity].
        assert (Eapp : forall (rs : list (text * list Z)),
                  C20Model.append_at (rs ++ [(l, v)]) (length rs) syms = rs ++ [(l, v ++ syms)]).
        { induction rs as [|[l1 v1] rs IHr]; [reflexivity|].
          cbn [app length C20Model.append_at]. rewrite IHr. reflexivity. }
        cbn [rev]. rewrite Eapp. use_IH IH ((l, v ++ syms) :: st0).
Qed.

(* the line loop of FastaReader._read on ANY list of lines *)
Theorem fasta_lines_model_eq : forall lines,
  C20Model.fasta_lines is_space lower (state_of_symbol a) false lines None []
  = do st <- C09Model.fasta_lines lower a [] lines ;; Ok (rev st).
Proof. intro lines. exact (fasta_lines_eq lines []). Qed.

End Fasta.
