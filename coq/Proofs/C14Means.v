(* C14: mean_pairwise_distance and mean_nearest_taxon_distance are the stated averages *)
From Coq Require Import ZArith QArith Qabs List Bool Lia Permutation.
From DV Require Import Model.PyPrims Model.Tree Model.C14Model Model.C14Spec
     Proofs.C14Dict Proofs.C14Pdm Proofs.C14Mrca Proofs.C14Proofs.
Import ListNotations.
Open Scope Z_scope.

(* ---------- ordered pairs of the leaf sequence ---------- *)
Lemma ordered_pairs_In l : forall a b, In (a, b) (ordered_pairs l) -> In a l /\ In b l.
Proof.
  induction l as [|x l IH]; intros a b H; [destruct H|]. simpl in H. apply in_app_iff in H. destruct H as [H|H].
  - apply in_map_iff in H. destruct H as [y [E Hy]]. inversion E. subst. split; [left; reflexivity | right; exact Hy].
  - destruct (IH a b H). split; right; assumption.
Qed.

Lemma ordered_pairs_app l1 l2 a b :
  In (a, b) (ordered_pairs (l1 ++ l2)) <->
  In (a, b) (ordered_pairs l1) \/ (In a l1 /\ In b l2) \/ In (a, b) (ordered_pairs l2).
Proof.
  induction l1 as [|x l1 IH]; simpl.
  - split; [intro H; right; right; exact H | intros [[]|[[[] _]|H]]; exact H].
  - rewrite !in_app_iff, IH, !in_map_iff. split.
    + intros [[y [E Hy]]|[H|[[H1 H2]|H]]].
      * inversion E. subst. apply in_app_iff in Hy. destruct Hy as [Hy|Hy].
        -- left. left. exists b. auto.
        -- right. left. auto.
      * left. right. exact H.
      * right. left. auto.
      * right. right. exact H.
    + intros [[[y [E Hy]]|H]|[[[H1|H1] H2]|H]].
      * left. exists y. split; [exact E | apply in_app_iff; left; exact Hy].
      * right. left. exact H.
      * subst. left. exists b. split; [reflexivity | apply in_app_iff; right; exact H2].
      * right. right. left. auto.
      * right. right. right. exact H.
Qed.

Lemma NoDup_app_intro {A} (l1 l2 : list A) :
  NoDup l1 -> NoDup l2 -> (forall x, In x l1 -> ~ In x l2) -> NoDup (l1 ++ l2).
Proof.
  induction l1 as [|a l1 IH]; simpl; intros N1 N2 D; [exact N2|].
  inversion N1 as [|? ? Ha N1']; subst. constructor.
  - rewrite in_app_iff. intros [H|H]; [tauto | apply (D a); auto].
  - apply IH; auto.
Qed.

Lemma NoDup_ordered_pairs l : NoDup l -> NoDup (ordered_pairs l).
Proof.
  induction 1 as [|x l Hx N IH]; simpl; [constructor|].
  apply NoDup_app_intro; [|exact IH|].
  - apply FinFun.Injective_map_NoDup; [|exact N]. intros y z E. inversion E. reflexivity.
  - intros [a b] H1 H2. apply in_map_iff in H1. destruct H1 as [y [E _]]. inversion E. subst.
    apply ordered_pairs_In in H2. tauto.
Qed.

Lemma taxa_of_NoDup t : good_leaves t -> NoDup (taxa_of t).
Proof.
  intros [N _]. unfold taxa_of. induction (leaf_taxa t) as [|o l IH]; [constructor|].
  inversion N as [|? ? Ho N']; subst. simpl. destruct o as [a|]; simpl; [|apply IH; exact N'].
  constructor; [|apply IH; exact N']. intro H. apply Ho. apply in_flat_map in H.
  destruct H as [[b|] [H1 H2]]; [destruct H2 as [->|[]]; exact H1 | destruct H2].
Qed.

Lemma ord_ordered_pairs a b : forall t, good_leaves t ->
  (ord a b t = true <-> In (a, b) (ordered_pairs (taxa_of t))).
Proof.
  induction t as [i x lb e ks IH] using tree_ind'. intro G. destruct ks as [|k r].
  - rewrite ord_node. simpl. unfold taxa_of. simpl. destruct x; simpl; split; (discriminate || tauto).
  - rewrite ord_node, taxa_of_node. pose proof (good_leaves_kids _ _ _ _ _ _ G) as GK. clear G.
    generalize dependent (k :: r). intro l. induction l as [|c1 rest IHl]; intros IH GK.
    + simpl. split; [discriminate | tauto].
    + destruct (good_kids_cons _ _ GK) as [G1 [G2 D]]. inversion IH as [|? ? IH1 IH2]; subst.
      simpl flat_map. rewrite ordered_pairs_app. simpl ord_kids. destruct (has a c1) eqn:Ha.
      * destruct (has b c1) eqn:Hb.
        -- rewrite (IH1 G1). split; [intro H; left; exact H|].
           intros [H|[[_ H]|H]]; [exact H| |].
           ++ exfalso. apply in_flat_map in H. destruct H as [c [Hc Hin]]. apply has_taxa_of in Hin.
              rewrite (D b Hb c Hc) in Hin. discriminate.
           ++ exfalso. apply ordered_pairs_In in H. destruct H as [H _]. apply in_flat_map in H.
              destruct H as [c [Hc Hin]]. apply has_taxa_of in Hin. rewrite (D a Ha c Hc) in Hin. discriminate.
        -- rewrite existsb_exists. split.
           ++ intros [c [Hc Hin]]. right. left. split; [apply has_taxa_of; exact Ha|].
              apply in_flat_map. exists c. split; [exact Hc | apply has_taxa_of; exact Hin].
           ++ intros [H|[[_ H]|H]].
              ** apply ordered_pairs_In in H. destruct H as [_ H]. apply has_taxa_of in H. congruence.
              ** apply in_flat_map in H. destruct H as [c [Hc Hin]]. exists c. split; [exact Hc | apply has_taxa_of; exact Hin].
              ** exfalso. apply ordered_pairs_In in H. destruct H as [H _]. apply in_flat_map in H.
                 destruct H as [c [Hc Hin]]. apply has_taxa_of in Hin. rewrite (D a Ha c Hc) in Hin. discriminate.
      * rewrite (IHl IH2 G2). split; [intro H; right; right; exact H|].
        intros [H|[[H _]|H]]; [| |exact H].
        -- apply ordered_pairs_In in H. destruct H as [H _]. apply has_taxa_of in H. congruence.
        -- apply has_taxa_of in H. congruence.
Qed.

(* ---------- sums over permutations ---------- *)
Lemma qsum_perm l1 l2 : Permutation l1 l2 -> (qsum l1 == qsum l2)%Q.
Proof.
  induction 1; simpl.
  - reflexivity.
  - rewrite IHPermutation. reflexivity.
  - ring.
  - rewrite IHPermutation1. exact IHPermutation2.
Qed.

Lemma Permutation_filter {A} (f : A -> bool) l1 l2 : Permutation l1 l2 -> Permutation (filter f l1) (filter f l2).
Proof.
  induction 1; simpl.
  - constructor.
  - destruct (f x); [constructor|]; assumption.
  - destruct (f x), (f y); try apply perm_swap; try (constructor; apply Permutation_refl); apply Permutation_refl.
  - eapply perm_trans; eassumption.
Qed.

(* ---------- facts about the compiled matrix ---------- *)
Lemma res_map_ok {A B} (f : A -> res B) (g : A -> B) l :
  (forall x, In x l -> f x = Ok (g x)) -> res_map f l = Ok (map g l).
Proof.
  induction l as [|x l IH]; intro H; [reflexivity|]. simpl. rewrite (H x (or_introl eq_refl)). simpl.
  rewrite IH by (intros y Hy; apply H; right; exact Hy). reflexivity.
Qed.

Record pdm_facts (t : tree) (p : pdm) : Prop := {
  pf_dm : forall w a b, In (Some a) (leaf_taxa t) -> In (Some b) (leaf_taxa t) -> dmatrix p w a b = Ok (dval t w a b);
  pf_nf : forall w n, norm_factor p w n = nfac t w n;
  pf_pairs : Permutation (p_pairs p) (ordered_pairs (taxa_of t));
  pf_mapped : Permutation (p_mapped p) (taxa_of t)
}.

Lemma In_taxa_of t a : In a (taxa_of t) <-> In (Some a) (leaf_taxa t).
Proof. rewrite <- has_taxa_of. apply has_In. Qed.

Lemma pdm_facts_of t p : good_leaves t -> t_kids t <> [] -> compile_from_tree t = Ok p -> pdm_facts t p.
Proof.
  intros G Hk E. destruct (pdm_exact_l t G Hk) as [p' [E' [Hn [Hl [Nd [Hm [Hp [Hc [Hv Hnone]]]]]]]]].
  rewrite E in E'. inversion E'. subst p'. constructor.
  - intros w a b Ha Hb. apply has_In in Ha. apply has_In in Hb.
    destruct (Hv a b Ha Hb) as [r [la [sa [lb [sb [L [D1 [D2 [T1 [T2 T3]]]]]]]]]].
    destruct (dist_steps_of_lca _ _ _ _ _ _ _ _ L D1 D2) as [Ed Es].
    unfold dmatrix, dval, key_get. rewrite T1, T2, Ed, Es. destruct w; reflexivity.
  - intros w n. unfold norm_factor, nfac. rewrite Hn, Hl. reflexivity.
  - rewrite Hp. apply NoDup_Permutation.
    + apply (NoDup_count_occ zz_dec). intros [a b]. rewrite Hc. destruct (ord a b t); lia.
    + apply NoDup_ordered_pairs. apply taxa_of_NoDup. exact G.
    + intros [a b]. rewrite <- (ord_ordered_pairs a b t G). rewrite (count_occ_In zz_dec), Hc.
      destruct (ord a b t); split; intro H; (reflexivity || discriminate || lia).
  - apply NoDup_Permutation; [exact Nd | apply taxa_of_NoDup; exact G|].
    intro a. rewrite Hm. apply has_taxa_of.
Qed.

(* ---------- mean_pairwise_distance ---------- *)
Definition pair_passes (filt : option (list Z)) (ab : Z * Z) : bool := passes filt (fst ab) && passes filt (snd ab).

Lemma Permutation_nil_iff {A} (l1 l2 : list A) : Permutation l1 l2 -> (l1 = [] <-> l2 = []).
Proof.
  intro P. split; intro E; subst.
  - apply Permutation_nil. exact P.
  - apply Permutation_nil. apply Permutation_sym. exact P.
Qed.

Lemma mean_of_spec p t w n ds ds' :
  pdm_facts t p -> Permutation ds ds' ->
  match mean_of p w n ds with
  | Ok q => ds' <> [] /\ ~ (nfac t w n == 0)%Q /\
            (q == qsum ds' / nfac t w n / inject_Z (Z.of_nat (length ds')))%Q
  | Err e => (ds' = [] /\ e = ValueErr) \/ (ds' <> [] /\ (nfac t w n == 0)%Q /\ e = OtherErr)
  | OutOfFuel => False
  end.
Proof.
  intros F P. unfold mean_of. rewrite (pf_nf t p F).
  destruct ds as [|d ds0].
  - left. split; [apply Permutation_nil; exact P | reflexivity].
  - assert (N : ds' <> []).
    { intro E. subst. apply Permutation_sym in P. apply Permutation_nil in P. discriminate. }
    destruct (Qeq_bool (nfac t w n) 0) eqn:Eq.
    + right. split; [exact N|]. split; [apply Qeq_bool_iff; exact Eq | reflexivity].
    + split; [exact N|]. split; [intro H; apply Qeq_bool_iff in H; congruence|].
      rewrite (qsum_perm _ _ P). rewrite (Permutation_length P). reflexivity.
Qed.

Lemma mean_pairwise_spec_p t p filt w n :
  good_leaves t -> t_kids t <> [] -> compile_from_tree t = Ok p ->
  let prs := filter (pair_passes filt) (ordered_pairs (taxa_of t)) in
  let ds := map (fun ab => dval t w (fst ab) (snd ab)) prs in
  match mean_pairwise_distance p filt w n with
  | Ok q => prs <> [] /\ ~ (nfac t w n == 0)%Q /\
            (q == qsum ds / nfac t w n / inject_Z (Z.of_nat (length prs)))%Q
  | Err e => (prs = [] /\ e = ValueErr) \/ (prs <> [] /\ (nfac t w n == 0)%Q /\ e = OtherErr)
  | OutOfFuel => False
  end.
Proof.
  intros G Hk E prs ds. pose proof (pdm_facts_of t p G Hk E) as F.
  unfold mean_pairwise_distance.
  assert (D : existsb (fun ab => Z.eqb (fst ab) (snd ab)) (p_pairs p) = false).
  { destruct (existsb _ (p_pairs p)) eqn:X; [|reflexivity]. exfalso. apply existsb_exists in X.
    destruct X as [[a b] [Hin Eab]]. simpl in Eab. apply Z.eqb_eq in Eab. subst b.
    apply (Permutation_in _ (pf_pairs t p F)) in Hin. apply (ord_ordered_pairs a a t G) in Hin.
    rewrite ord_irrefl in Hin. discriminate. }
  rewrite D. fold (pair_passes filt).
  set (regime := filter (pair_passes filt) (p_pairs p)).
  assert (PR : Permutation regime prs) by (apply Permutation_filter; exact (pf_pairs t p F)).
  rewrite (res_map_ok _ (fun ab => dval t w (fst ab) (snd ab))).
  2:{ intros [a b] Hin. apply (Permutation_in _ PR) in Hin. unfold prs in Hin. apply filter_In in Hin.
      destruct Hin as [Hin _]. apply ordered_pairs_In in Hin. destruct Hin as [Ha Hb].
      apply (pf_dm t p F); apply In_taxa_of; assumption. }
  simpl bind.
  pose proof (mean_of_spec p t w n (map (fun ab => dval t w (fst ab) (snd ab)) regime) ds F) as M.
  specialize (M (Permutation_map _ PR)).
  destruct (mean_of p w n _) as [q|e|]; [| |exact M].
  - destruct M as [N [Z0 Eq]]. split; [intro X; apply N; unfold ds; rewrite X; reflexivity|]. split; [exact Z0|].
    unfold ds in Eq. rewrite map_length in Eq. exact Eq.
  - destruct M as [[X Y]|[X Y]].
    + left. split; [|exact Y]. unfold ds in X. destruct prs; [reflexivity | discriminate].
    + right. split; [|exact Y]. intro Z1. apply X. unfold ds. rewrite Z1. reflexivity.
Qed.

(* ---------- mean_nearest_taxon_distance ---------- *)
Lemma min_from_le r : forall m, (min_from m r <= m)%Q /\ (forall x, In x r -> (min_from m r <= x)%Q).
Proof.
  induction r as [|d r IH]; intro m; simpl.
  - split; [apply Qle_refl | intros x []].
  - destruct (Qlt_le_dec d m) as [L|L].
    + destruct (IH d) as [A B]. split.
      * eapply Qle_trans; [exact A | apply Qlt_le_weak; exact L].
      * intros x [<-|Hx]; [exact A | apply B; exact Hx].
    + destruct (IH m) as [A B]. split; [exact A|].
      intros x [<-|Hx]; [eapply Qle_trans; eassumption | apply B; exact Hx].
Qed.

Lemma min_from_in r : forall m, In (min_from m r) (m :: r).
Proof.
  induction r as [|d r IH]; intro m; simpl; [left; reflexivity|].
  destruct (Qlt_le_dec d m).
  - right. apply IH.
  - destruct (IH m) as [H|H]; [left; exact H | right; right; exact H].
Qed.

Lemma qmin_list_le l x : In x l -> (qmin_list l <= x)%Q.
Proof.
  destruct l as [|d r]; [intros []|]. simpl. destruct (min_from_le r d) as [A B].
  intros [<-|Hx]; [exact A | apply B; exact Hx].
Qed.

Lemma qmin_list_in l : l <> [] -> In (qmin_list l) l.
Proof. destruct l as [|d r]; [congruence|]. intros _. apply min_from_in. Qed.

Lemma qmin_perm l1 l2 : Permutation l1 l2 -> (qmin_list l1 == qmin_list l2)%Q.
Proof.
  intro P. destruct l1 as [|d1 r1].
  - apply Permutation_nil in P. subst. reflexivity.
  - assert (N2 : l2 <> []) by (intro E; subst; apply Permutation_sym, Permutation_nil in P; discriminate).
    apply Qle_antisym.
    + apply qmin_list_le. eapply Permutation_in; [apply Permutation_sym; exact P|]. apply qmin_list_in. exact N2.
    + apply qmin_list_le. eapply Permutation_in; [exact P|]. apply qmin_list_in. discriminate.
Qed.

Lemma qsum_map_perm {A} (f g : A -> Q) l1 l2 :
  Permutation l1 l2 -> (forall a, (f a == g a)%Q) -> (qsum (map f l1) == qsum (map g l2))%Q.
Proof.
  intros P H. induction P; simpl.
  - reflexivity.
  - rewrite IHP, (H x). reflexivity.
  - rewrite (H x), (H y). assert (E : (qsum (map f l) == qsum (map g l))%Q).
    { induction l as [|a l IHl]; simpl; [reflexivity|]. rewrite IHl, (H a). reflexivity. }
    rewrite E. ring.
  - rewrite IHP1. assert (E : forall l, (qsum (map g l) == qsum (map f l))%Q).
    { intro l0. induction l0 as [|a l0 IHl]; simpl; [reflexivity|]. rewrite IHl, (H a). reflexivity. }
    rewrite E. exact IHP2.
Qed.

Lemma mean_of_spec' p t w n ds ds' :
  pdm_facts t p -> length ds = length ds' -> (qsum ds == qsum ds')%Q ->
  match mean_of p w n ds with
  | Ok q => ds' <> [] /\ ~ (nfac t w n == 0)%Q /\
            (q == qsum ds' / nfac t w n / inject_Z (Z.of_nat (length ds')))%Q
  | Err e => (ds' = [] /\ e = ValueErr) \/ (ds' <> [] /\ (nfac t w n == 0)%Q /\ e = OtherErr)
  | OutOfFuel => False
  end.
Proof.
  intros F L S. unfold mean_of. rewrite (pf_nf t p F).
  destruct ds as [|d ds0].
  - left. split; [destruct ds'; [reflexivity | discriminate] | reflexivity].
  - assert (N : ds' <> []) by (intro E; subst; discriminate).
    destruct (Qeq_bool (nfac t w n) 0) eqn:Eq.
    + right. split; [exact N|]. split; [apply Qeq_bool_iff; exact Eq | reflexivity].
    + split; [exact N|]. split; [intro H; apply Qeq_bool_iff in H; congruence|].
      rewrite S, L. reflexivity.
Qed.

Definition row_ok (filt : option (list Z)) (taxa : list Z) (a : Z) : bool :=
  match others_of filt taxa a with [] => false | _ => true end.

Lemma mntd_spec_p t p filt w n :
  good_leaves t -> t_kids t <> [] -> compile_from_tree t = Ok p ->
  let taxa := taxa_of t in
  let rows := filter (row_ok filt taxa) (filter (passes filt) taxa) in
  let mins := map (fun a => qmin_list (map (dval t w a) (others_of filt taxa a))) rows in
  match mean_nearest_taxon_distance p filt w n with
  | Ok q => rows <> [] /\ ~ (nfac t w n == 0)%Q /\
            (q == qsum mins / nfac t w n / inject_Z (Z.of_nat (length rows)))%Q
  | Err e => (rows = [] /\ e = ValueErr) \/ (rows <> [] /\ (nfac t w n == 0)%Q /\ e = OtherErr)
  | OutOfFuel => False
  end.
Proof.
  intros G Hk E taxa rows mins. pose proof (pdm_facts_of t p G Hk E) as F.
  pose proof (pf_mapped t p F) as PM. fold taxa in PM.
  unfold mean_nearest_taxon_distance.
  set (rows_m := filter (fun a => match filter (fun b => negb (Z.eqb a b) && passes filt b) (p_mapped p) with
                                  | [] => false | _ => true end)
                        (filter (fun a => passes filt a) (p_mapped p))).
  assert (PO : forall a, Permutation (others_of filt (p_mapped p) a) (others_of filt taxa a)).
  { intro a. apply Permutation_filter. exact PM. }
  assert (RO : forall a, row_ok filt (p_mapped p) a = row_ok filt taxa a).
  { intro a. unfold row_ok. pose proof (PO a) as P.
    destruct (others_of filt (p_mapped p) a) eqn:E1; destruct (others_of filt taxa a) eqn:E2; try reflexivity.
    - apply Permutation_nil in P. discriminate.
    - apply Permutation_sym, Permutation_nil in P. discriminate. }
  assert (PR : Permutation rows_m rows).
  { unfold rows_m, rows. fold (others_of filt (p_mapped p)). 
    change (fun a : Z => match others_of filt (p_mapped p) a with [] => false | _ :: _ => true end) with (row_ok filt (p_mapped p)).
    rewrite (filter_ext _ _ RO). apply Permutation_filter. apply Permutation_filter. exact PM. }
  assert (Hrow : forall a, In a rows_m ->
            (do ds <- res_map (fun b => dmatrix p w a b) (filter (fun b => negb (Z.eqb a b) && passes filt b) (p_mapped p)) ;;
             match ds with [] => Err IndexErr | d0 :: r => Ok (min_from d0 r) end)
            = Ok (qmin_list (map (dval t w a) (others_of filt (p_mapped p) a)))).
  { intros a Ha. unfold rows_m in Ha. apply filter_In in Ha. destruct Ha as [Ha Hne].
    apply filter_In in Ha. destruct Ha as [Ha _]. apply (Permutation_in _ PM) in Ha.
    fold (others_of filt (p_mapped p) a) in *.
    rewrite (res_map_ok _ (dval t w a)).
    - simpl bind. destruct (others_of filt (p_mapped p) a); [discriminate | reflexivity].
    - intros b Hb. unfold others_of in Hb. apply filter_In in Hb. destruct Hb as [Hb _].
      apply (Permutation_in _ PM) in Hb. apply (pf_dm t p F); apply In_taxa_of; assumption. }
  fold rows_m.
  rewrite (res_map_ok _ (fun a => qmin_list (map (dval t w a) (others_of filt (p_mapped p) a))) rows_m Hrow).
  simpl bind.
  pose proof (mean_of_spec' p t w n (map (fun a => qmin_list (map (dval t w a) (others_of filt (p_mapped p) a))) rows_m) mins F) as M.
  assert (L : length (map (fun a => qmin_list (map (dval t w a) (others_of filt (p_mapped p) a))) rows_m) = length mins).
  { unfold mins. rewrite !map_length. apply Permutation_length. exact PR. }
  assert (S : (qsum (map (fun a => qmin_list (map (dval t w a) (others_of filt (p_mapped p) a))) rows_m) == qsum mins)%Q).
  { unfold mins. apply qsum_map_perm; [exact PR|]. intro a. apply qmin_perm. apply Permutation_map. apply PO. }
  specialize (M L S).
  destruct (mean_of p w n _) as [q|e|]; [| |exact M].
  - destruct M as [N [Z0 Eq]]. split; [intro X; apply N; unfold mins; rewrite X; reflexivity|]. split; [exact Z0|].
    unfold mins in Eq at 2. rewrite map_length in Eq. exact Eq.
  - destruct M as [[X Y]|[X Y]].
    + left. split; [|exact Y]. unfold mins in X. destruct rows; [reflexivity | discriminate].
    + right. split; [|exact Y]. intro Z1. apply X. unfold mins. rewrite Z1. reflexivity.
Qed.
