(* C10, batch entry points: TaxonNamespace.add_taxa(iterable) with REPEATED objects inside one batch.

   add_taxa = `for t in taxa: self.add_taxon(t)`: membership is re-examined for every element, so a
   not-yet-member object that occurs several times in the batch is accessioned exactly once (by its
   first occurrence) and gets exactly one new accession index; the counter advances by the number of
   DISTINCT new objects, so all_taxa_bitmask has no bit without an owner. *)
From Coq Require Import ZArith List Bool Lia Permutation.
From DV Require Import Model.PyPrims Model.C10Model Proofs.C10Lists Proofs.C10Inv Proofs.C10Bits.
Import ListNotations.
Open Scope Z_scope.

(* the elements of the batch that are not in `mem`, each once, in the order of their first occurrence *)
Fixpoint batch_new (mem : list tid) (ts : list tid) : list tid :=
  match ts with
  | [] => []
  | t :: r => if memb t mem then batch_new mem r else t :: batch_new (t :: mem) r
  end.

Lemma batch_new_ext m1 m2 ts : (forall x, memb x m1 = memb x m2) -> batch_new m1 ts = batch_new m2 ts.
Proof.
  revert m1 m2. induction ts as [|t r IH]; intros m1 m2 H; cbn [batch_new]; [reflexivity|].
  rewrite (H t). destruct (memb t m2); [apply IH; exact H|]. f_equal. apply IH.
  intros x. pose proof (H x) as Hx. unfold memb in *. cbn [existsb]. rewrite Hx. reflexivity.
Qed.

Lemma batch_new_In mem ts t : In t (batch_new mem ts) <-> In t ts /\ ~ In t mem.
Proof.
  revert mem. induction ts as [|x r IH]; intros mem; cbn [batch_new].
  - simpl. tauto.
  - destruct (memb x mem) eqn:M.
    + apply memb_In in M. rewrite IH. simpl. split; [tauto|]. intros [[E|H] N]; [subst; contradiction| tauto].
    + apply memb_false in M. simpl. rewrite IH. simpl. split.
      * intros [E|[H N]]; [subst; tauto|]. split; [tauto|]. intros H1. apply N. right. exact H1.
      * intros [[E|H] N]; [left; exact E|]. destruct (Z.eq_dec x t) as [E|E]; [left; exact E|].
        right. split; [exact H|]. intros [E1|H1]; [contradiction| contradiction].
Qed.

Lemma batch_new_NoDup mem ts : NoDup (batch_new mem ts).
Proof.
  revert mem. induction ts as [|x r IH]; intros mem; cbn [batch_new]; [constructor|].
  destruct (memb x mem); [apply IH|]. constructor; [|apply IH].
  rewrite batch_new_In. intros [_ N]. apply N. left. reflexivity.
Qed.

Lemma batch_new_unfold_l (mem ts : list tid) :
  batch_new mem [] = []
  /\ (forall t r, batch_new mem (t :: r) = if memb t mem then batch_new mem r else t :: batch_new (t :: mem) r)
  /\ NoDup (batch_new mem ts)
  /\ (forall t, In t (batch_new mem ts) <-> In t ts /\ ~ In t mem).
Proof.
  split; [reflexivity|]. split; [reflexivity|].
  split; [apply batch_new_NoDup| intros t; apply batch_new_In].
Qed.

Lemma memb_app_single x l t : memb x (l ++ [t]) = memb x (t :: l).
Proof.
  unfold memb. rewrite existsb_app. cbn [existsb]. rewrite orb_false_r. apply orb_comm.
Qed.

(* ---------- mutable namespace: exactly the distinct new objects, one fresh index each ---------- *)

Theorem add_taxa_spec_l (ts : list tid) : forall n, Inv n -> is_mut n = true ->
  exists n', add_taxa n ts = Ok n'
    /\ taxa n' = taxa n ++ batch_new (taxa n) ts
    /\ count n' = count n + Z.of_nat (length (batch_new (taxa n) ts))
    /\ (forall t i, alookup t (acc n) = Some i -> alookup t (acc n') = Some i)
    /\ (forall k t, nth_error (batch_new (taxa n) ts) k = Some t ->
          alookup t (acc n') = Some (count n + Z.of_nat k))
    /\ bm n' = bm n /\ is_mut n' = true /\ is_cs n' = is_cs n /\ Inv n'.
Proof.
  induction ts as [|t r IH]; intros n I M; cbn [add_taxa batch_new].
  - exists n. rewrite app_nil_r. cbn [length].
    split; [reflexivity|]. split; [reflexivity|]. split; [lia|]. split; [auto|].
    split; [intros k t H; destruct k; discriminate|]. auto.
  - unfold add_taxon at 1. destruct (alookup t (acc n)) as [i|] eqn:A.
    + assert (Mt : memb t (taxa n) = true) by (apply memb_In; apply (inv_dom _ I); eauto).
      rewrite Mt. apply IH; assumption.
    + assert (Mt : memb t (taxa n) = false).
      { apply memb_false. intros H. apply (inv_dom _ I) in H. destruct H as [i H]. congruence. }
      rewrite Mt, M. cbn [negb].
      set (n1 := mkNs (taxa n ++ [t]) (aset t (count n) (acc n)) (aset (count n) t (rev n))
                      (count n + 1) (bm n) true (is_cs n)).
      assert (A1 : add_taxon n t = Ok n1) by (unfold add_taxon; rewrite A, M; reflexivity).
      pose proof (add_taxon_inv _ _ _ I A1) as I1.
      destruct (IH n1 I1 eq_refl) as (n' & E & Ht & Hc & Hold & Hnew & Hbm & Hm & Hcs & I').
      assert (B : batch_new (taxa n1) r = batch_new (t :: taxa n) r).
      { apply batch_new_ext. intros x. unfold n1. cbn [taxa]. apply memb_app_single. }
      rewrite B in *. exists n'. split; [exact E|]. unfold n1 in Ht, Hc, Hold, Hnew, Hbm, Hcs. nsimpl.
      split; [rewrite Ht, <- app_assoc; reflexivity|].
      split; [cbn [length]; lia|].
      split.
      { intros x i Hx. apply Hold. rewrite alookup_aset_neq; [exact Hx| congruence]. }
      split.
      { intros k x Hk. destruct k as [|k]; cbn [nth_error] in Hk.
        - inversion Hk; subst x. rewrite (Hold t (count n)); [f_equal; lia| apply alookup_aset_eq].
        - rewrite (Hnew k x Hk). f_equal. lia. }
      split; [exact Hbm|]. split; [exact Hm|]. split; [exact Hcs| exact I'].
Qed.

(* ---------- immutable namespace: silent when everything is a member, else TypeError ---------- *)

Theorem add_taxa_immutable_l (ts : list tid) n : Inv n -> is_mut n = false ->
  ((forall t, In t ts -> In t (taxa n)) -> add_taxa n ts = Ok n)
  /\ ((exists t, In t ts /\ ~ In t (taxa n)) -> add_taxa n ts = Err TypeErr).
Proof.
  intros I M. induction ts as [|t r [IH1 IH2]]; cbn [add_taxa].
  - split; [reflexivity| intros (t & [] & _)].
  - unfold add_taxon at 1 2. destruct (alookup t (acc n)) as [i|] eqn:A.
    + split.
      * intros H. apply IH1. intros x Hx. apply H. right. exact Hx.
      * intros (x & [E|Hx] & N); [subst x; exfalso; apply N; apply (inv_dom _ I); eauto|].
        apply IH2. eauto.
    + rewrite M. cbn [negb]. split; [|reflexivity].
      intros H. exfalso. assert (Ht : In t (taxa n)) by (apply H; left; reflexivity).
      apply (inv_dom _ I) in Ht. destruct Ht as [i Ht]. congruence.
Qed.

(* ---------- the batch = the sequence of single additions ---------- *)

Section WithLower.
Variable lower : lbl -> lbl.

Lemma set_ns_same w : set_ns w (w_ns w) = w.
Proof. destruct w; reflexivity. Qed.

Lemma run_add_taxon_immutable ts : forall w, is_mut (w_ns w) = false ->
  run_world lower w (map AddTaxon ts) = w.
Proof.
  unfold run_world. induction ts as [|t r IH]; intros w M; cbn [map fold_left]; [reflexivity|].
  assert (E : fst (step lower w (AddTaxon t)) = w).
  { cbn [step]. unfold add_taxon. destruct (alookup t (acc (w_ns w))); cbn [lift_ns fst]; [apply set_ns_same|].
    rewrite M. reflexivity. }
  rewrite E. apply IH. exact M.
Qed.

Theorem add_taxa_is_add_taxon_sequence_l (w : world) (ts : list tid) :
  fst (step lower w (AddTaxa ts)) = run_world lower w (map AddTaxon ts).
Proof.
  destruct (is_mut (w_ns w)) eqn:M.
  - revert w M. unfold run_world. induction ts as [|t r IH]; intros w M; cbn [map fold_left step add_taxa].
    + cbn [lift_ns fst]. apply set_ns_same.
    + unfold add_taxon at 1 2. destruct (alookup t (acc (w_ns w))) eqn:A.
      * cbn [lift_ns fst]. rewrite set_ns_same. specialize (IH w M). cbn [step] in IH. exact IH.
      * rewrite M. cbn [negb lift_ns fst].
        match goal with |- _ = fold_left _ _ (set_ns w ?n1) =>
          specialize (IH (set_ns w n1) eq_refl); cbn [step set_ns w_ns] in IH; rewrite <- IH end.
        cbn [set_ns w_ns w_lab w_next].
        match goal with |- context [add_taxa ?n1 r] =>
          destruct (add_taxa_mutable_ok r n1 eq_refl) as (n2 & E2 & _); rewrite E2 end.
        reflexivity.
  - rewrite run_add_taxon_immutable by exact M. cbn [step].
    destruct (add_taxa (w_ns w) ts) as [n'| |] eqn:E; cbn [lift_ns fst]; try reflexivity.
    (* Ok in an immutable namespace: nothing was added *)
    assert (G : forall ts n, is_mut n = false -> forall n', add_taxa n ts = Ok n' -> n' = n).
    { clear. induction ts as [|t r IH]; intros n M n'; cbn [add_taxa]; [intros E; inversion E; reflexivity|].
      unfold add_taxon at 1. destruct (alookup t (acc n)); [apply IH; exact M|]. rewrite M. discriminate. }
    rewrite (G ts _ M _ E). apply set_ns_same.
Qed.

(* the result value: None, or the TypeError of the first non-member in an immutable namespace *)
Theorem add_taxa_output_l (w : world) (ts : list tid) :
  snd (step lower w (AddTaxa ts)) = OUnit \/
  (snd (step lower w (AddTaxa ts)) = OErr TypeErr /\ fst (step lower w (AddTaxa ts)) = w
   /\ is_mut (w_ns w) = false /\ exists t, In t ts /\ alookup t (acc (w_ns w)) = None).
Proof.
  cbn [step]. destruct (add_taxa (w_ns w) ts) as [n'|e|] eqn:E; cbn [lift_ns fst snd].
  - left. reflexivity.
  - right. destruct (add_taxa_err_unchanged _ _ _ E) as (He & Hm & pre & t & post & Ets & A & _ & _).
    subst e. repeat split; try assumption. exists t. split; [subst ts; apply in_elt| exact A].
  - exfalso. eapply add_taxa_err; eauto.
Qed.

(* the world-level statement: members after the batch are pairwise distinct objects with one index
   (bit) each; every index below the counter that was handed out by the batch has an owner *)
Theorem add_taxa_step_spec_l (w : world) (ts : list tid) :
  Inv (w_ns w) -> is_mut (w_ns w) = true ->
  let w' := fst (step lower w (AddTaxa ts)) in
  let new := batch_new (taxa (w_ns w)) ts in
  snd (step lower w (AddTaxa ts)) = OUnit
  /\ taxa (w_ns w') = taxa (w_ns w) ++ new
  /\ NoDup (taxa (w_ns w'))
  /\ (forall t, In t new <-> In t ts /\ ~ In t (taxa (w_ns w)))
  /\ count (w_ns w') = count (w_ns w) + Z.of_nat (length new)
  /\ (forall t i, alookup t (acc (w_ns w)) = Some i -> alookup t (acc (w_ns w')) = Some i)
  /\ (forall k t, nth_error new k = Some t -> alookup t (acc (w_ns w')) = Some (count (w_ns w) + Z.of_nat k))
  /\ (forall i, count (w_ns w) <= i < count (w_ns w') ->
        exists t, In t new /\ alookup t (acc (w_ns w')) = Some i /\ alookup i (rev (w_ns w')) = Some t)
  /\ w_lab w' = w_lab w /\ w_next w' = w_next w.
Proof.
  intros I M w' new.
  destruct (add_taxa_spec_l ts (w_ns w) I M) as (n' & E & Ht & Hc & Hold & Hnew & Hbm & Hm & Hcs & I').
  unfold w'. cbn [step]. rewrite E. cbn [lift_ns fst snd set_ns w_ns w_lab w_next].
  fold new in Ht, Hc, Hnew.
  split; [reflexivity|]. split; [exact Ht|]. split; [apply (inv_nodup _ I')|].
  split; [intros t; apply batch_new_In|]. split; [exact Hc|]. split; [exact Hold|]. split; [exact Hnew|].
  split; [|split; reflexivity].
  intros i Hi. rewrite Hc in Hi.
  assert (K : (Z.to_nat (i - count (w_ns w)) < length new)%nat) by lia.
  destruct (nth_error new (Z.to_nat (i - count (w_ns w)))) as [t|] eqn:N; [|apply nth_error_None in N; lia].
  exists t. split; [eapply nth_error_In; exact N|].
  pose proof (Hnew _ _ N) as A. replace (count (w_ns w) + Z.of_nat (Z.to_nat (i - count (w_ns w)))) with i in A by lia.
  split; [exact A| apply (inv_rev _ I'); exact A].
Qed.

End WithLower.

(* ---------- new_taxa: one NEW member per element of the batch, repeated labels included ---------- *)

Fixpoint zseq (s : Z) (n : nat) : list Z :=
  match n with O => [] | S m => s :: zseq (s + 1) m end.

Lemma zseq_In s n x : In x (zseq s n) <-> s <= x < s + Z.of_nat n.
Proof.
  revert s. induction n as [|m IH]; intros s; cbn [zseq In]; [lia|]. rewrite IH. lia.
Qed.

Lemma label_of_cons w t l x nxt n : label_of (mkW n ((t, l) :: w_lab w) nxt) x = if Z.eqb x t then l else label_of w x.
Proof. unfold label_of. cbn [w_lab alookup]. destruct (Z.eqb x t); reflexivity. Qed.

Theorem new_taxa_spec_l (ls : list lbl) : forall (w : world) (a : list tid),
  WInv w -> is_mut (w_ns w) = true ->
  exists w', new_taxa w ls a = Ok (w', a ++ zseq (w_next w) (length ls))
    /\ taxa (w_ns w') = taxa (w_ns w) ++ zseq (w_next w) (length ls)
    /\ w_next w' = w_next w + Z.of_nat (length ls)
    /\ count (w_ns w') = count (w_ns w) + Z.of_nat (length ls)
    /\ (forall k l, nth_error ls k = Some l ->
          alookup (w_next w + Z.of_nat k) (acc (w_ns w')) = Some (count (w_ns w) + Z.of_nat k)
          /\ label_of w' (w_next w + Z.of_nat k) = l)
    /\ (forall t i, alookup t (acc (w_ns w)) = Some i -> alookup t (acc (w_ns w')) = Some i)
    /\ (forall t, t < w_next w -> label_of w' t = label_of w t)
    /\ is_mut (w_ns w') = true /\ WInv w'.
Proof.
  induction ls as [|l r IH]; intros w a W M; cbn [new_taxa length zseq].
  - exists w. rewrite !app_nil_r. cbn [Z.of_nat].
    split; [reflexivity|]. split; [reflexivity|]. split; [lia|]. split; [lia|].
    split; [intros k l H; destruct k; discriminate|]. split; [auto|]. split; [auto|]. split; assumption.
  - destruct W as [I B].
    assert (A : alookup (w_next w) (acc (w_ns w)) = None).
    { destruct (alookup (w_next w) (acc (w_ns w))) as [i|] eqn:A; [|reflexivity].
      assert (H : In (w_next w) (taxa (w_ns w))) by (apply (inv_dom _ I); eauto). apply B in H. lia. }
    set (t := w_next w) in *.
    set (n1 := mkNs (taxa (w_ns w) ++ [t]) (aset t (count (w_ns w)) (acc (w_ns w)))
                    (aset (count (w_ns w)) t (rev (w_ns w))) (count (w_ns w) + 1) (bm (w_ns w)) true (is_cs (w_ns w))).
    assert (A1 : add_taxon (w_ns w) t = Ok n1) by (unfold add_taxon; rewrite A, M; reflexivity).
    assert (N : new_taxon w l = Ok (mkW n1 ((t, l) :: w_lab w) (t + 1), t)).
    { unfold new_taxon. rewrite M. cbn [negb]. fold t. rewrite A1. reflexivity. }
    rewrite N. set (w1 := mkW n1 ((t, l) :: w_lab w) (t + 1)).
    assert (W1 : WInv w1).
    { split; [exact (add_taxon_inv _ _ _ I A1)|]. unfold w1, n1. cbn [w_ns taxa w_next].
      intros x Hx. apply in_app_iff in Hx. destruct Hx as [Hx|[Hx|[]]]; [apply B in Hx; fold t in Hx; lia| lia]. }
    destruct (IH w1 (a ++ [t]) W1 eq_refl) as (w' & E & Ht & Hn & Hc & Hnew & Hold & Hlab & Hm & W').
    unfold w1, n1 in Ht, Hn, Hc, Hnew, Hold, Hlab. cbn [w_ns w_next taxa acc count] in Ht, Hn, Hc, Hnew, Hold, Hlab.
    exists w'. split; [rewrite E, <- app_assoc; reflexivity|].
    split; [rewrite Ht, <- app_assoc; reflexivity|].
    split; [lia|]. split; [lia|].
    split.
    { intros k l0 Hk. destruct k as [|k]; cbn [nth_error] in Hk.
      - inversion Hk; subst l0. replace (t + Z.of_nat 0) with t by lia. split.
        + rewrite (Hold t (count (w_ns w))); [f_equal; lia| apply alookup_aset_eq].
        + rewrite Hlab by lia. rewrite label_of_cons, Z.eqb_refl. reflexivity.
      - destruct (Hnew k l0 Hk) as [H1 H2].
        replace (t + Z.of_nat (S k)) with (t + 1 + Z.of_nat k) by lia.
        split; [rewrite H1; f_equal; lia| exact H2]. }
    split.
    { intros x i Hx. apply Hold. rewrite alookup_aset_neq; [exact Hx| congruence]. }
    split.
    { intros x Hx. rewrite Hlab by lia. rewrite label_of_cons.
      destruct (Z.eqb_spec x t); [lia| reflexivity]. }
    split; assumption.
Qed.

Lemma zseq_unfold_l (s : Z) (n : nat) :
  zseq s 0 = [] /\ zseq s (S n) = s :: zseq (s + 1) n
  /\ length (zseq s n) = n /\ (forall x, In x (zseq s n) <-> s <= x < s + Z.of_nat n).
Proof.
  split; [reflexivity|]. split; [reflexivity|]. split; [|intros x; apply zseq_In].
  revert s. induction n as [|m IH]; intros s; cbn [zseq length]; [reflexivity| rewrite IH; reflexivity].
Qed.

Theorem new_taxa_step_spec_l (lower : lbl -> lbl) (w : world) (ls : list lbl) :
  (Inv (w_ns w) /\ forall t, In t (taxa (w_ns w)) -> t < w_next w) -> is_mut (w_ns w) = true ->
  let w' := fst (step lower w (NewTaxa ls)) in
  let new := zseq (w_next w) (length ls) in
  snd (step lower w (NewTaxa ls)) = OTaxa new
  /\ taxa (w_ns w') = taxa (w_ns w) ++ new
  /\ NoDup (taxa (w_ns w'))
  /\ w_next w' = w_next w + Z.of_nat (length ls)
  /\ count (w_ns w') = count (w_ns w) + Z.of_nat (length ls)
  /\ (forall k l, nth_error ls k = Some l ->
        alookup (w_next w + Z.of_nat k) (acc (w_ns w')) = Some (count (w_ns w) + Z.of_nat k)
        /\ label_of w' (w_next w + Z.of_nat k) = l)
  /\ (forall t i, alookup t (acc (w_ns w)) = Some i -> alookup t (acc (w_ns w')) = Some i)
  /\ (forall t, t < w_next w -> label_of w' t = label_of w t).
Proof.
  intros W M w' new.
  destruct (new_taxa_spec_l ls w [] W M) as (w1 & E & Ht & Hn & Hc & Hnew & Hold & Hlab & _ & W1).
  unfold w'. cbn [step]. rewrite M. cbn [negb]. rewrite E. cbn [fst snd app].
  split; [reflexivity|]. split; [exact Ht|]. split; [apply (inv_nodup _ (proj1 W1))|].
  split; [exact Hn|]. split; [exact Hc|]. split; [exact Hnew|]. split; [exact Hold| exact Hlab].
Qed.

(* ---------- non-vacuity: x and y are new, a is a member, x occurs twice ---------- *)

Definition bx_w : world :=
  mkW (mkNs [0; 1] [(1, 1); (0, 0)] [(1, 1); (0, 0)] 2 [] true false) [(3, 11); (2, 10); (1, 1); (0, 0)] 4.

Example bx_repeated_object :
  Inv (w_ns bx_w) /\
  let '(w', o) := step (fun l => l) bx_w (AddTaxa [2; 0; 3; 2]) in
  o = OUnit /\ observe w' = [(0, 0); (1, 1); (2, 2); (3, 3)] /\ count (w_ns w') = 4
  /\ all_taxa_bitmask (w_ns w') = 15 /\ batch_new (taxa (w_ns bx_w)) [2; 0; 3; 2] = [2; 3].
Proof.
  split; [|vm_compute; repeat split; reflexivity].
  apply Inv_intro; cbn.
  - repeat constructor; cbn; intuition lia.
  - intros t. split.
    + intros [E|[E|[]]]; subst; cbn; eauto.
    + intros [i H]. destruct (Z.eqb_spec t 1); [subst; auto|]. destruct (Z.eqb_spec t 0); [subst; auto| discriminate].
  - intros t i H. destruct (Z.eqb t 1); [inversion H; lia|]. destruct (Z.eqb t 0); [inversion H; lia| discriminate].
  - intros t i. destruct (Z.eqb_spec i 1); destruct (Z.eqb_spec t 1); subst; cbn; try (split; congruence).
    + split; intros H; [inversion H; congruence|]. destruct (Z.eqb_spec t 0); [subst; discriminate| discriminate].
    + destruct (Z.eqb_spec i 0); subst; cbn; split; intros H; try congruence; try discriminate.
    + destruct (Z.eqb_spec i 0); destruct (Z.eqb_spec t 0); subst; cbn; split; intros H; try congruence; try discriminate.
  - discriminate.
  - lia.
Qed.

Example bx_immutable :
  let w := mkW (mkNs [0; 1] [(1, 1); (0, 0)] [(1, 1); (0, 0)] 2 [] false false) (w_lab bx_w) 4 in
  step (fun l => l) w (AddTaxa [0; 1; 0]) = (w, OUnit)
  /\ step (fun l => l) w (AddTaxa [0; 2; 2]) = (w, OErr TypeErr).
Proof. vm_compute. split; reflexivity. Qed.

Example bx_repeated_labels :
  let '(w', o) := step (fun l => l) bx_w (NewTaxa [7; 7; 1; 7]) in
  o = OTaxa [4; 5; 6; 7] /\ observe w' = [(0, 0); (1, 1); (4, 2); (5, 3); (6, 4); (7, 5)]
  /\ map (label_of w') (taxa (w_ns w')) = [0; 1; 7; 7; 1; 7].
Proof. vm_compute. repeat split; reflexivity. Qed.

