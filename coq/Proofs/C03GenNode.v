(* C03Gen: the GENERATED Node-level mutators (Gen/Mutators.v, compiled from _node.py / _edge.py on
   every run), run on the heap instance HG, are the hand-written functions of Model/Heap.v. *)
From Coq Require Import ZArith List Bool Lia.
From DV Require Import Model.PyPrims Model.Tree Model.Heap Model.C15Prims Model.MutPrims Gen.Mutators
     Model.C03GenInst Proofs.C03Base Proofs.C03GenPrims.
Import ListNotations.
Open Scope Z_scope.

Ltac hsimp := cbn [mst mnode medge mg_eqb rd_parent wr_parent rd_kids wr_kids rd_edge rd_head rd_length
                   wr_length rd_seed wr_seed rd_rooted wr_rooted new_node HG] in *.

Lemma Zeqb_of_nat a b : Z.eqb (Z.of_nat a) (Z.of_nat b) = Nat.eqb a b.
Proof. destruct (Nat.eqb_spec a b); [subst; apply Z.eqb_refl|apply Z.eqb_neq; lia]. Qed.

(* ---------------------------------------------------------------- add_child *)
Theorem gen_add_child p c h :
  to_hres (Node_add_child HG p c h) = add_child p c h /\
  (forall h', add_child p c h = HOk h' -> mres_val (Node_add_child HG p c h) = Some c).
Proof.
  unfold Node_add_child, add_child. hsimp. cbv zeta. rewrite py_in_memz.
  destruct (Z.eqb c p); simpl; [split; [reflexivity|discriminate]|].
  destruct (parent h p) as [q|]; simpl.
  - destruct (Z.eqb q c); simpl; [split; [reflexivity|discriminate]|].
    destruct (memz c (kids (set_parent c (Some p) h) p)); simpl; split; reflexivity.
  - destruct (memz c (kids (set_parent c (Some p) h) p)); simpl; split; reflexivity.
Qed.

Lemma gen_add_child_eq p c h :
  Node_add_child HG p c h =
  match add_child p c h with HOk h' => MOk c h' | HErr e h' => MErr e h' | HFuel => MFuel end.
Proof.
  unfold Node_add_child, add_child. hsimp. cbv zeta. rewrite py_in_memz.
  destruct (Z.eqb c p); simpl; [reflexivity|].
  destruct (parent h p) as [q|]; simpl.
  - destruct (Z.eqb q c); simpl; [reflexivity|].
    destruct (memz c (kids (set_parent c (Some p) h) p)); reflexivity.
  - destruct (memz c (kids (set_parent c (Some p) h) p)); reflexivity.
Qed.

(* ---------------------------------------------------------------- insert_child *)
Lemma gen_insert_child_eq p idx c h :
  exists v, Node_insert_child HG p (Z.of_nat idx) c h = MOk v (insert_child p idx c h).
Proof.
  unfold Node_insert_child, insert_child. hsimp. cbv zeta.
  rewrite py_list_index_of.
  set (h1 := set_parent c (Some p) h).
  destruct (index_of c (kids h1 p)) as [cur|] eqn:Ei.
  - rewrite Zeqb_of_nat. destruct (Nat.eqb cur idx); [eexists; reflexivity|].
    rewrite py_remove_first, index_of_memz, Ei. cbv iota.
    rewrite kids_set_kids, Z.eqb_refl, py_insert_at, set_kids_set_kids. eexists; reflexivity.
  - rewrite py_insert_at. eexists; reflexivity.
Qed.

Theorem gen_insert_child p idx c h :
  to_hres (Node_insert_child HG p (Z.of_nat idx) c h) = HOk (insert_child p idx c h).
Proof. destruct (gen_insert_child_eq p idx c h) as [v ->]. reflexivity. Qed.

(* ---------------------------------------------------------------- new_child / insert_new_child *)
Theorem gen_new_child p x l e h :
  to_hres (Node_new_child HG p (x, l, e) h) = new_child p x l e h.
Proof.
  unfold Node_new_child, new_child. hsimp. cbv zeta beta iota.
  rewrite gen_add_child_eq. destruct (add_child p (next h) (alloc x l e h)); reflexivity.
Qed.

Theorem gen_insert_new_child p idx x l e h :
  to_hres (Node_insert_new_child HG p (Z.of_nat idx) (x, l, e) h) = HOk (insert_new_child p idx x l e h).
Proof.
  unfold Node_insert_new_child, insert_new_child. hsimp. cbv zeta beta iota.
  destruct (gen_insert_child_eq p idx (next h) (alloc x l e h)) as [v ->]. reflexivity.
Qed.

(* ---------------------------------------------------------------- clear_child_nodes *)
Theorem gen_clear_child_nodes p h :
  Node_clear_child_nodes HG p h = MOk tt (clear_child_nodes p h).
Proof. reflexivity. Qed.

(* ---------------------------------------------------------------- set_child_nodes *)
Lemma gen_add_loop p : forall l h,
  to_hres (mfor (fun nd (_ : unit) s =>
                   match Node_add_child HG p nd s with
                   | MOk _ s => MOk (LNext tt) s
                   | MErr dv_e s => MErr dv_e s
                   | MFuel => MFuel
                   end) l tt h)
  = hfold (add_child p) l h.
Proof.
  induction l as [|c r IH]; intro h; [reflexivity|].
  simpl mfor. simpl hfold. rewrite gen_add_child_eq.
  destruct (add_child p c h); simpl; [apply IH|reflexivity|reflexivity].
Qed.

Theorem gen_set_child_nodes p l h :
  to_hres (Node_set_child_nodes HG p l h) = set_child_nodes p l h.
Proof.
  unfold Node_set_child_nodes, set_child_nodes. rewrite gen_clear_child_nodes.
  rewrite <- (gen_add_loop p l (clear_child_nodes p h)). hsimp.
  match goal with |- context [mfor ?f ?l ?v ?s] => destruct (mfor f l v s) as [a s'|e s'|] end; reflexivity.
Qed.

(* ---------------------------------------------------------------- parent_node setter *)
(* Heap.set_parent_node re-writes the old parent's child list even when the node is not listed in
   it (a no-op on every field, but it creates a cell for an old parent that had none), the source
   skips the write in that case (except ValueError: pass): equal up to observational equality,
   and exactly equal when the node is listed. *)
Theorem gen_set_parent_node c np h :
  exists h', Node__set_parent_node HG c np h = MOk tt h' /\ heq h' (set_parent_node c np h).
Proof.
  unfold Node__set_parent_node, set_parent_node. hsimp. cbv zeta.
  destruct (parent h c) as [q|] eqn:Ep.
  - rewrite py_remove_first. destruct (memz c (kids h q)) eqn:Em.
    + (* listed: identical *)
      set (h1 := set_kids q (remove_first c (kids h q)) h).
      rewrite parent_set_parent, Z.eqb_refl.
      destruct np as [q'|]; [|eexists; split; [reflexivity|apply heq_refl]].
      rewrite py_in_memz.
      destruct (memz c (kids (set_parent c (Some q') h1) q')); eexists; (split; [reflexivity|apply heq_refl]).
    + (* not listed: Heap.v writes the unchanged list *)
      assert (Hrf : remove_first c (kids h q) = kids h q).
      { apply remove_first_notin. apply memz_false. exact Em. }
      rewrite Hrf.
      assert (Hq : heq h (set_kids q (kids h q) h)).
      { apply heq_sym. unfold set_kids. apply heq_upd_same. symmetry. apply get_eta. }
      rewrite parent_set_parent, Z.eqb_refl.
      assert (H2 : heq (set_parent c np h) (set_parent c np (set_kids q (kids h q) h))).
      { unfold set_parent. apply heq_upd_cell_gen. exact Hq. }
      destruct np as [q'|]; [|eexists; split; [reflexivity|exact H2]].
      rewrite py_in_memz.
      assert (Hk : kids (set_parent c (Some q') h) q' = kids (set_parent c (Some q') (set_kids q (kids h q) h)) q').
      { unfold kids. destruct H2 as [_ [_ [_ Hg]]]. rewrite Hg. reflexivity. }
      rewrite <- Hk.
      destruct (memz c (kids (set_parent c (Some q') h) q')); eexists; (split; [reflexivity|]); [exact H2|].
      unfold set_kids. apply heq_upd_cell_gen. exact H2.
  - rewrite parent_set_parent, Z.eqb_refl.
    destruct np as [q'|]; [|eexists; split; [reflexivity|apply heq_refl]].
    rewrite py_in_memz.
    destruct (memz c (kids (set_parent c (Some q') h) q')); eexists; (split; [reflexivity|apply heq_refl]).
Qed.

(* exact when the node is listed under its old parent (or has none) *)
Theorem gen_set_parent_node_exact c np h :
  match parent h c with Some q => memz c (kids h q) = true | None => True end ->
  Node__set_parent_node HG c np h = MOk tt (set_parent_node c np h).
Proof.
  intro Hl. unfold Node__set_parent_node, set_parent_node. hsimp. cbv zeta.
  destruct (parent h c) as [q|] eqn:Ep.
  - rewrite py_remove_first, Hl. rewrite parent_set_parent, Z.eqb_refl.
    destruct np as [q'|]; [|reflexivity]. rewrite py_in_memz.
    match goal with |- context [negb (memz c ?k)] => destruct (memz c k) end; reflexivity.
  - rewrite parent_set_parent, Z.eqb_refl.
    destruct np as [q'|]; [|reflexivity]. rewrite py_in_memz.
    match goal with |- context [negb (memz c ?k)] => destruct (memz c k) end; reflexivity.
Qed.

(* ---------------------------------------------------------------- remove_child (plain) *)
Lemma gen_remove_child_plain_eq p c h :
  Node_remove_child__suppress_unifurcations_False HG p c h =
  match remove_child_plain p c h with HOk h' => MOk c h' | HErr e h' => MErr e h' | HFuel => MFuel end.
Proof.
  unfold Node_remove_child__suppress_unifurcations_False, remove_child_plain. hsimp. cbv zeta.
  rewrite py_in_memz. destruct (memz c (kids h p)) eqn:Em; [|reflexivity].
  unfold Node__get_edge, Edge__set_tail_node. hsimp. cbv zeta iota.
  rewrite gen_set_parent_node_exact by (rewrite parent_set_parent, Z.eqb_refl; exact I).
  unfold set_parent_node. rewrite parent_set_parent, Z.eqb_refl, set_parent_set_parent.
  rewrite py_list_index_of, kids_set_parent.
  rewrite index_of_memz in Em. destruct (index_of c (kids h p)) eqn:Ei; [|discriminate].
  rewrite py_remove_first, index_of_memz, Ei. reflexivity.
Qed.

Theorem gen_remove_child_plain p c h :
  to_hres (Node_remove_child__suppress_unifurcations_False HG p c h) = remove_child_plain p c h.
Proof. rewrite gen_remove_child_plain_eq. destruct (remove_child_plain p c h); reflexivity. Qed.
