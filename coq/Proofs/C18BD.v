(* C18 - birth_death_tree: loop invariants, fuel, result specification *)
From Coq Require Import QArith Lqa List Bool Arith Lia Permutation.
From DV Require Import Model.C18Model Proofs.C18Lists Proofs.C18Tree Proofs.C18Monad.
Import ListNotations.
Open Scope nat_scope.

Definition bin (n : nat) : Prop := n = 0 \/ n = 2.

(* the loop invariant of birth_death_tree *)
Record bd_inv (N : nat) (st : bdst) : Prop := mkInv {
  inv_nodup : NoDup (ids (s_tr st));
  inv_leaves : forall y, In y (leaf_ids (s_tr st)) <-> In y (s_ext st) \/ In y (s_dead st);
  inv_sets : NoDup (s_ext st ++ s_dead st);
  inv_bin : arity bin (s_tr st);
  inv_eqd : exists D, eqd (s_ext st) D (s_tr st);
  inv_fresh : forall y, In y (ids (s_tr st)) -> y < s_next st;
  inv_root : b_id (s_tr st) = 0;
  inv_count : 1 <= length (s_ext st) <= N
}.

Lemma bd_init_inv : forall P, 1 <= p_n P -> bd_inv (p_n P) (bd_init P).
Proof.
  intros P HN. constructor; simpl.
  - repeat constructor. simpl. tauto.
  - intros y. tauto.
  - repeat constructor. simpl. tauto.
  - constructor; [left; reflexivity|constructor].
  - exists 0%Q. constructor. reflexivity.
  - intros y [<-|[]]. lia.
  - reflexivity.
  - lia.
Qed.

(* ---------------- the shape of one iteration ---------------- *)

Definition grown (st : bdst) (w : Q) : btree := add_len_set (s_ext st) w (s_tr st).

Inductive bd_next (st : bdst) (w : Q) (nd : nat) : bdst -> Prop :=
| nx_birth : forall brates' drates',
    bd_next st w nd
      (mkSt (set_kids nd [bleaf (s_next st) 0; bleaf (S (s_next st)) 0] (grown st w))
            (remove_first nd (s_ext st) ++ [s_next st; S (s_next st)]) (s_dead st) brates' drates' (S (S (s_next st)))
            (s_time st + w)%Q)
| nx_death : remove_first nd (s_ext st) <> [] ->
    bd_next st w nd (mkSt (grown st w) (remove_first nd (s_ext st)) (s_dead st ++ [nd]) (s_brates st) (s_drates st) (s_next st)
                          (s_time st + w)%Q)
| nx_restart : remove_first nd (s_ext st) = [] ->
    bd_next st w nd (bd_restart (mkSt (grown st w) [] (s_dead st) (s_brates st) (s_drates st) (s_next st) (s_time st + w)%Q)).

Lemma event_nodes_In : forall ext i nd (b : bool),
  nth_error (flat_map (fun x : nat => [(x, true); (x, false)]) ext) i = Some (nd, b) -> In nd ext.
Proof.
  intros ext i nd b H. apply nth_error_In in H. apply in_flat_map in H. destruct H as (x & Hx & H).
  simpl in H. destruct H as [H|[H|[]]]; inversion H; subst; assumption.
Qed.

Lemma bd_body_shape : forall P st r st' r',
  bd_body P st r = Done st' r' ->
  exists w nd, In nd (s_ext st) /\ bd_next st w nd st' /\ left_ r' < left_ r.
Proof.
  intros P st r st' r' H. unfold bd_body in H.
  step H. unfold expovariate in Hs. destruct (Qeq_bool _ _); [discriminate|].
  pose proof (d_exp_left _ _ _ _ Hs) as L1.
  step H. unfold weighted_index_choice in Hs0. step Hs0. pose proof (d_unit_left _ _ _ Hs1) as L2.
  apply ret_Done in Hs0. destruct Hs0 as [<- <-].
  destruct (pick_index _ _) as [i|]; [|discriminate].
  destruct (nth_error _ i) as [[nd b]|] eqn:En; [|discriminate].
  apply event_nodes_In in En. exists a, nd. split; [exact En|].
  destruct b.
  - step H. pose proof (d_gauss_left _ _ _ _ _ Hs0) as L3.
    step H. pose proof (d_gauss_left _ _ _ _ _ Hs2) as L4.
    step H. pose proof (d_gauss_left _ _ _ _ _ Hs3) as L5.
    step H. pose proof (d_gauss_left _ _ _ _ _ Hs4) as L6.
    apply ret_Done in H. destruct H as [<- <-]. split; [apply nx_birth|lia].
  - destruct (remove_first nd (s_ext st)) as [|e1 er] eqn:Er.
    + apply ret_Done in H. destruct H as [<- <-]. split; [|lia]. apply nx_restart. exact Er.
    + apply ret_Done in H. destruct H as [<- <-]. split; [|lia]. rewrite <- Er. apply nx_death. rewrite Er. discriminate.
Qed.

(* ---------------- each kind of step preserves the invariant ---------------- *)

Lemma ext_not_inner : forall N st y, bd_inv N st -> In y (s_ext st) -> ~ In y (inner_ids (s_tr st)).
Proof.
  intros N st y I Hy. apply leaf_not_inner; [apply (inv_nodup _ _ I)|]. apply (inv_leaves _ _ I). auto.
Qed.

Lemma grown_ids : forall st w, ids (grown st w) = ids (s_tr st).
Proof. intros. unfold grown. rewrite add_len_set_relabel. apply relabel_ids. Qed.
Lemma grown_leaf_ids : forall st w, leaf_ids (grown st w) = leaf_ids (s_tr st).
Proof. intros. unfold grown. rewrite add_len_set_relabel. apply relabel_leaf_ids. Qed.
Lemma grown_inner_ids : forall st w, inner_ids (grown st w) = inner_ids (s_tr st).
Proof. intros. unfold grown. rewrite add_len_set_relabel. apply relabel_inner_ids. Qed.
Lemma grown_root : forall st w, b_id (grown st w) = b_id (s_tr st).
Proof. intros. unfold grown. rewrite add_len_set_relabel. apply relabel_root. Qed.
Lemma grown_arity : forall P st w, arity P (s_tr st) -> arity P (grown st w).
Proof. intros. unfold grown. rewrite add_len_set_relabel. apply arity_relabel. assumption. Qed.

(* waiting time added to all extant edges: every extant tip moves from D to D + w *)
Lemma grown_eqd : forall N st w D, bd_inv N st -> eqd (s_ext st) D (s_tr st) -> eqd (s_ext st) (D + w) (grown st w).
Proof.
  intros N st w D I He. unfold grown. apply eqd_add_len_set; [|exact He].
  intros i Hi. eapply ext_not_inner; eauto.
Qed.

Lemma inv_ext_NoDup : forall N st, bd_inv N st -> NoDup (s_ext st).
Proof. intros N st I. pose proof (inv_sets _ _ I) as H. apply NoDup_app_iff in H. tauto. Qed.

Lemma inv_dead_NoDup : forall N st, bd_inv N st -> NoDup (s_dead st).
Proof. intros N st I. pose proof (inv_sets _ _ I) as H. apply NoDup_app_iff in H. tauto. Qed.

Lemma inv_disjoint : forall N st y, bd_inv N st -> In y (s_ext st) -> ~ In y (s_dead st).
Proof. intros N st y I. pose proof (inv_sets _ _ I) as H. apply NoDup_app_iff in H. destruct H as (_ & _ & H). apply H. Qed.

Lemma bd_next_inv : forall N st w nd st',
  1 <= N -> bd_inv N st -> length (s_ext st) < N -> In nd (s_ext st) -> bd_next st w nd st' -> bd_inv N st'.
Proof.
  intros N st w nd st' HN I Hlt Hnd Hnx.
  pose proof (inv_ext_NoDup _ _ I) as Hne.
  destruct (inv_eqd _ _ I) as [D He].
  pose proof (grown_eqd _ _ w _ I He) as Heg.
  assert (Hleafnd : In nd (leaf_ids (grown st w))).
  { rewrite grown_leaf_ids. apply (inv_leaves _ _ I). auto. }
  assert (Hndg : NoDup (ids (grown st w))) by (rewrite grown_ids; apply (inv_nodup _ _ I)).
  inversion Hnx as [brates' drates'|Hnon|Hemp]; subst; clear Hnx.
  - (* birth *)
    set (c2 := S (s_next st)). set (c1 := s_next st).
    assert (Hc1 : ~ In c1 (ids (grown st w))).
    { rewrite grown_ids. intro Hc. apply (inv_fresh _ _ I) in Hc. unfold c1 in Hc. lia. }
    assert (Hc2 : ~ In c2 (ids (grown st w))).
    { rewrite grown_ids. intro Hc. apply (inv_fresh _ _ I) in Hc. unfold c2 in Hc. lia. }
    assert (Hperm := set_kids_ids nd [bleaf c1 0; bleaf c2 0] _ Hndg Hleafnd).
    simpl flat_map in Hperm. simpl app in Hperm.
    assert (Hleaf := set_kids_leaf_ids nd [bleaf c1 0; bleaf c2 0] _ Hndg Hleafnd ltac:(discriminate)).
    constructor; cbn [s_tr s_ext s_dead s_next s_brates s_drates s_time].
    + eapply Permutation_NoDup; [apply Permutation_sym; exact Hperm|].
      constructor; [simpl; intros [Hc|Hc]; [unfold c1, c2 in Hc; lia|auto]|]. constructor; auto.
    + intros y. rewrite Hleaf. simpl. rewrite grown_leaf_ids, (inv_leaves _ _ I).
      rewrite in_app_iff, (remove_first_spec nd y _ Hne). simpl.
      assert (Hd : In y (s_dead st) -> y <> nd).
      { intros Hy ->. eapply inv_disjoint; eauto. }
      intuition.
    + apply NoDup_app_iff. repeat split.
      * apply NoDup_app_iff. repeat split.
        -- apply remove_first_NoDup. assumption.
        -- constructor; [simpl; unfold c1, c2; lia|]. constructor; [simpl; tauto|constructor].
        -- intros y Hy Hc. apply remove_first_In in Hy.
           assert (Hy' : In y (ids (s_tr st))) by (apply leaf_in_ids; apply (inv_leaves _ _ I); auto).
           apply (inv_fresh _ _ I) in Hy'. simpl in Hc. unfold c1, c2 in Hc. lia.
      * apply (inv_dead_NoDup _ _ I).
      * intros y Hy Hc. apply in_app_or in Hy. destruct Hy as [Hy|Hy].
        -- apply remove_first_In in Hy. eapply inv_disjoint; eauto.
        -- assert (Hy' : In y (ids (s_tr st))) by (apply leaf_in_ids; apply (inv_leaves _ _ I); auto).
           apply (inv_fresh _ _ I) in Hy'. simpl in Hy. unfold c1, c2 in Hy. lia.
    + apply set_kids_arity.
      * right. reflexivity.
      * repeat constructor; left; reflexivity.
      * apply grown_arity. apply (inv_bin _ _ I).
    + exists (D + w)%Q. apply (eqd_birth (s_ext st)); try assumption.
      * rewrite grown_inner_ids. eapply ext_not_inner; eauto.
      * intros y Hy. apply in_app_or in Hy. destruct Hy as [Hy|Hy].
        -- left. apply (proj1 (remove_first_spec nd y _ Hne)). exact Hy.
        -- right. simpl in Hy. destruct Hy as [<-|[<-|[]]]; auto.
    + intros y Hy. eapply Permutation_in in Hy; [|exact Hperm]. simpl in Hy.
      destruct Hy as [<-|[<-|Hy]]; unfold c1, c2; try lia.
      rewrite grown_ids in Hy. apply (inv_fresh _ _ I) in Hy. lia.
    + rewrite set_kids_root, grown_root. apply (inv_root _ _ I).
    + rewrite app_length. simpl. pose proof (remove_first_length nd _ Hnd). lia.
  - (* death, other lineages remain *)
    constructor; cbn [s_tr s_ext s_dead s_next s_brates s_drates s_time].
    + exact Hndg.
    + intros y. rewrite grown_leaf_ids, (inv_leaves _ _ I), in_app_iff, (remove_first_spec nd y _ Hne). simpl.
      split.
      * intros [Hy|Hy]; [|right; left; exact Hy].
        destruct (Nat.eq_dec y nd) as [->|Hn]; [right; right; left; reflexivity | left; auto].
      * intros [[Hy _]|[Hy|[<-|[]]]]; auto.
    + apply NoDup_app_iff. repeat split.
      * apply remove_first_NoDup. assumption.
      * apply NoDup_app_iff. repeat split; [apply (inv_dead_NoDup _ _ I)|repeat constructor; simpl; tauto|].
        intros y Hy [<-|[]]. eapply inv_disjoint; eauto.
      * intros y Hy Hc. apply (remove_first_spec nd y _ Hne) in Hy. destruct Hy as [Hy Hyn].
        apply in_app_or in Hc. destruct Hc as [Hc|[Hc|[]]]; [|congruence]. eapply inv_disjoint; eauto.
    + apply grown_arity. apply (inv_bin _ _ I).
    + exists (D + w)%Q. eapply eqd_subset; [|exact Heg]. intros y Hy. eapply remove_first_In; eauto.
    + intros y Hy. rewrite grown_ids in Hy. apply (inv_fresh _ _ I). exact Hy.
    + rewrite grown_root. apply (inv_root _ _ I).
    + pose proof (remove_first_length nd _ Hnd). destruct (remove_first nd (s_ext st)); [congruence|]. simpl in *. lia.
  - (* total extinction: restart *)
    unfold bd_restart. simpl.
    assert (Hr : b_id (grown st w) = 0) by (rewrite grown_root; apply (inv_root _ _ I)).
    destruct (grown st w) as [i l tx ks] eqn:Eg. simpl in Hr. subst i. simpl.
    constructor; cbn [s_tr s_ext s_dead s_next s_brates s_drates s_time].
    + simpl. constructor; [simpl; tauto|constructor].
    + intros y. simpl. tauto.
    + simpl. constructor; [simpl; tauto|constructor].
    + constructor; [left; reflexivity|constructor].
    + exists l. constructor. reflexivity.
    + intros y [<-|[]]. apply (inv_fresh _ _ I). rewrite <- grown_ids with (w := w). rewrite Eg. simpl. auto.
    + reflexivity.
    + simpl. lia.
Qed.

(* restart re-establishes the initial state (up to the seed's accumulated edge length) *)
Lemma bd_restart_state : forall st, b_id (s_tr st) = 0 ->
  s_ext (bd_restart st) = [0] /\ s_dead (bd_restart st) = [] /\
  exists l x, s_tr (bd_restart st) = B 0 l x [].
Proof.
  intros st Hr. unfold bd_restart. simpl. repeat split. destruct (s_tr st) as [i l x ks]. simpl in *. subst.
  simpl. eauto.
Qed.

Lemma bd_body_inv : forall P st r st' r',
  1 <= p_n P -> bd_inv (p_n P) st -> length (s_ext st) < p_n P ->
  bd_body P st r = Done st' r' -> bd_inv (p_n P) st'.
Proof.
  intros P st r st' r' HN I Hlt H. apply bd_body_shape in H. destruct H as (w & nd & Hnd & Hnx & _).
  eapply bd_next_inv; eauto.
Qed.

Lemma bd_loop_inv : forall fuel P st r st' r',
  1 <= p_n P -> bd_inv (p_n P) st -> bd_loop fuel P st r = Done st' r' ->
  bd_inv (p_n P) st' /\ length (s_ext st') = p_n P.
Proof.
  induction fuel as [|f IH]; intros P st r st' r' HN I H; simpl in H.
  - destruct (p_n P <=? length (s_ext st)) eqn:E; [|discriminate]. inversion H; subst.
    apply Nat.leb_le in E. pose proof (inv_count _ _ I). split; [assumption|lia].
  - destruct (p_n P <=? length (s_ext st)) eqn:E.
    + inversion H; subst. apply Nat.leb_le in E. pose proof (inv_count _ _ I). split; [assumption|lia].
    + apply Nat.leb_gt in E. step H. eapply IH; [assumption| |exact H]. eapply bd_body_inv; eauto.
Qed.

(* ---------------- fuel: each iteration consumes at least one draw ---------------- *)

Lemma bd_body_fuel : forall P st r, bd_body P st r <> NoFuel.
Proof.
  intros P st r H. unfold bd_body in H.
  apply bnd_NoFuel in H. destruct H as [H|(w & r1 & _ & H)];
    [unfold expovariate in H; destruct (Qeq_bool _ _); [discriminate|eapply d_exp_fuel; eauto]|].
  apply bnd_NoFuel in H. destruct H as [H|(oi & r2 & _ & H)].
  - unfold weighted_index_choice in H. apply bnd_NoFuel in H. destruct H as [H|(u & r3 & _ & H)]; [eapply d_unit_fuel; eauto|discriminate].
  - destruct oi as [i|]; [|discriminate]. destruct (nth_error _ i) as [[nd b]|]; [|discriminate]. destruct b.
    + apply bnd_NoFuel in H. destruct H as [H|(g1 & r3 & _ & H)]; [eapply d_gauss_fuel; eauto|].
      apply bnd_NoFuel in H. destruct H as [H|(g2 & r4 & _ & H)]; [eapply d_gauss_fuel; eauto|].
      apply bnd_NoFuel in H. destruct H as [H|(g3 & r5 & _ & H)]; [eapply d_gauss_fuel; eauto|].
      apply bnd_NoFuel in H. destruct H as [H|(g4 & r6 & _ & H)]; [eapply d_gauss_fuel; eauto|].
      discriminate.
    + destruct (remove_first nd (s_ext st)); discriminate.
Qed.

Lemma bd_loop_fuel : forall fuel P st r, left_ r < fuel -> bd_loop fuel P st r <> NoFuel.
Proof.
  induction fuel as [|f IH]; intros P st r Hl; [lia|]. simpl.
  destruct (p_n P <=? length (s_ext st)); [discriminate|].
  intro H. apply bnd_NoFuel in H. destruct H as [H|(st' & r' & Hb & H)].
  - eapply bd_body_fuel; eauto.
  - apply bd_body_shape in Hb. destruct Hb as (_ & _ & _ & _ & Hlt). eapply IH; [|exact H]. lia.
Qed.

Lemma bd_loop_left : forall fuel P st r st' r', bd_loop fuel P st r = Done st' r' -> left_ r' <= left_ r.
Proof.
  induction fuel as [|f IH]; intros P st r st' r' H; simpl in H.
  - destruct (_ <=? _); [inversion H; subst; lia|discriminate].
  - destruct (_ <=? _); [inversion H; subst; lia|]. step H.
    apply bd_body_shape in Hs. destruct Hs as (_ & _ & _ & _ & Hlt). apply IH in H. lia.
Qed.

(* ---------------- pruning the extinct tips ---------------- *)

Definition le2 (n : nat) : Prop := n <= 2.

Lemma prune_all_spec : forall xs pr t r t' r',
  prune_all xs pr t r = Done t' r' ->
  NoDup (ids t) -> (forall x, In x xs -> ~ In x (inner_ids t)) -> (forall p, In p pr -> ~ In p (leaf_ids t)) ->
  r' = r /\ NoDup (ids t') /\
  (forall y, In y (leaf_ids t') <-> In y (leaf_ids t) /\ ~ In y xs) /\
  (forall y, In y (inner_ids t') -> In y (inner_ids t)) /\
  (arity le2 t -> arity le2 t') /\
  (forall S D, (forall y, In y S -> ~ In y (inner_ids t)) -> eqd S D t -> eqd S D t') /\
  b_id t' = b_id t.
Proof.
  induction xs as [|x xs IH]; intros pr t r t' r' H Hn Hxi Hpr; simpl in H.
  - apply ret_Done in H. destruct H as [<- <-].
    split; [reflexivity|]. split; [assumption|]. split; [intros y; simpl; tauto|].
    split; [auto|]. split; [auto|]. split; [auto|reflexivity].
  - destruct (memb x pr) eqn:Em.
    + apply memb_In in Em.
      destruct (IH pr t r t' r' H Hn (fun y Hy => Hxi y (or_intror Hy)) Hpr) as (E & N & L & In_ & A & Q & R).
      split; [exact E|]. split; [exact N|].
      split; [|split; [exact In_|split; [exact A|split; [exact Q|exact R]]]].
      intros y. rewrite L. split.
      * intros [Hy Hny]. split; auto. intros [Hc|Hc]; [subst y; apply (Hpr x Em Hy)|auto].
      * intros [Hy Hny]. split; auto. intro Hc. apply Hny. right. exact Hc.
    + assert (Hxin : ~ In x (inner_ids t)) by (apply Hxi; left; reflexivity).
      pose proof (prune1_leaf_ids x t Hn Hxin) as Hl.
      destruct (prune1 x t) as [t1|] eqn:Ep; [|discriminate].
      assert (Hinc : forall y, In y (inner_ids t1) -> In y (inner_ids t)) by (eapply prune1_inner_incl; eauto).
      destruct (IH (x :: pr) t1 r t' r' H) as (E & N & L & In_ & A & Q & R).
      * eapply prune1_NoDup; eauto.
      * intros y Hy Hc. apply (Hxi y (or_intror Hy)). auto.
      * intros p Hp. rewrite Hl. rewrite drop_In. intros [Hc Hne]. destruct Hp as [<-|Hp]; [congruence|]. apply (Hpr p Hp Hc).
      * split; [exact E|]. split; [exact N|].
        split; [|split; [|split; [|split]]].
        -- intros y. rewrite L, Hl, drop_In. split.
           ++ intros [[Hy Hne] Hny]. split; auto. intros [Hc|Hc]; [congruence|auto].
           ++ intros [Hy Hny]. split; [split; auto; intro; subst; apply Hny; left; reflexivity|].
              intro Hc. apply Hny. right. exact Hc.
        -- intros y Hy. auto.
        -- intros Ha. apply A. eapply prune1_arity_le; eauto.
        -- intros S D HS He. apply Q; [intros y Hy Hc; apply (HS y Hy); auto|]. eapply prune1_eqd; eauto.
        -- rewrite R. eapply prune1_root; eauto.
Qed.

Lemma prune_all_fuel : forall xs pr t r, prune_all xs pr t r <> NoFuel.
Proof.
  induction xs as [|x xs IH]; intros pr t r; simpl; [discriminate|].
  destruct (memb x pr); [apply IH|]. destruct (prune1 x t); [apply IH|discriminate].
Qed.

(* ---------------- taxon assignment ---------------- *)

Definition mode_ok (fresh_new cs : bool) (ns : list lab) : Prop :=
  fresh_new = true \/ cs = true \/ (forall k, ~ In (LT false k) ns).

Lemma lab_eqb_eq : forall a b, lab_eqb a b = true <-> a = b.
Proof.
  intros [u k|i] [v m|j]; simpl; split; intros H; try discriminate.
  - apply andb_true_iff in H. destruct H as [H1 H2]. apply Nat.eqb_eq in H2. apply eqb_prop in H1. congruence.
  - inversion H; subst. rewrite Nat.eqb_refl, eqb_reflx. reflexivity.
  - apply Nat.eqb_eq in H. congruence.
  - inversion H; subst. apply Nat.eqb_refl.
Qed.

Lemma lab_mem_In : forall a l, lab_mem a l = true <-> In a l.
Proof.
  induction l as [|b r IH]; simpl; [split; [discriminate|tauto]|].
  rewrite orb_true_iff, lab_eqb_eq, IH. split; intros [H|H]; auto.
Qed.

Lemma find_fresh_notin : forall fuel labels c k, find_fresh fuel labels c = Some k -> ~ In (LT true k) labels /\ c < k.
Proof.
  induction fuel as [|f IH]; intros labels c k H; simpl in H; [discriminate|].
  destruct (lab_mem (LT true (S c)) labels) eqn:E.
  - apply IH in H. destruct H. split; [assumption|lia].
  - inversion H; subst. split; [|lia]. intro Hc. apply lab_mem_In in Hc. congruence.
Qed.

Lemma lookup_label_None : forall (cs : bool) (a : lab) (ns : list lab) (i : nat),
  (forall b, In b ns -> (if cs then lab_eqb a b else lab_eqb (lab_lower a) (lab_lower b)) = false) ->
  lookup_label cs a ns i = None.
Proof.
  intros cs a. induction ns as [|b r IH]; intros i H; simpl; [reflexivity|].
  rewrite (H b (or_introl eq_refl)). apply IH. intros c Hc. apply H. right. exact Hc.
Qed.

Lemma require_fresh : forall fresh_new cs k ns labels,
  (forall a, In a ns -> In a labels) -> ~ In (LT true k) labels ->
  (fresh_new = true \/ cs = true \/ (forall j, ~ In (LT false j) ns)) ->
  require_taxon fresh_new cs (LT true k) ns = (length ns, ns ++ [LT true k]).
Proof.
  intros fresh_new cs k ns labels Hsub Hnot Hmode. unfold require_taxon.
  destruct fresh_new; [reflexivity|].
  rewrite lookup_label_None; [reflexivity|].
  intros b Hb. destruct Hmode as [Hm|[Hm|Hm]]; [discriminate| |].
  - subst cs. destruct (lab_eqb (LT true k) b) eqn:E; [|reflexivity]. apply lab_eqb_eq in E. subst b.
    exfalso. apply Hnot. apply Hsub. exact Hb.
  - destruct cs.
    + destruct (lab_eqb (LT true k) b) eqn:E; [|reflexivity]. apply lab_eqb_eq in E. subst b.
      exfalso. apply Hnot. apply Hsub. exact Hb.
    + destruct (lab_eqb (lab_lower (LT true k)) (lab_lower b)) eqn:E; [|reflexivity].
      apply lab_eqb_eq in E. destruct b as [u m|j]; simpl in E; [|discriminate]. inversion E; subst m.
      destruct u.
      * exfalso. apply Hnot. apply Hsub. exact Hb.
      * exfalso. apply (Hm k). exact Hb.
Qed.

Lemma assign_taxa_spec : forall fresh_new cs leaves rpool labels ns counter m ns',
  assign_taxa fresh_new cs leaves rpool labels ns counter = Some (m, ns') ->
  NoDup rpool -> (forall v, In v rpool -> v < length ns) ->
  (forall a, In a ns -> In a labels) ->
  (fresh_new = true \/ cs = true \/ (forall j, ~ In (LT false j) ns)) ->
  map fst m = leaves /\ NoDup (map snd m) /\
  (forall v, In v (map snd m) -> In v rpool \/ length ns <= v) /\
  (forall v, In v (map snd m) -> v < length ns') /\ length ns <= length ns'.
Proof.
  intros fresh_new cs. induction leaves as [|nd rest IH]; intros rpool labels ns counter m ns' H Hnp Hlt Hsub Hmode; cbn [assign_taxa] in H.
  - inversion H; subst. simpl. repeat split; auto; try constructor; try tauto.
  - destruct rpool as [|tx rpool'].
    + destruct (find_fresh _ labels counter) as [k|] eqn:Ef; [|discriminate].
      apply find_fresh_notin in Ef. destruct Ef as [Hnot _].
      rewrite (require_fresh fresh_new cs k ns labels Hsub Hnot Hmode) in H.
      destruct (assign_taxa fresh_new cs rest [] (LT true k :: labels) (ns ++ [LT true k]) k) as [[m1 ns1]|] eqn:Ea; [|discriminate].
      inversion H; subst. clear H.
      destruct (IH [] (LT true k :: labels) (ns ++ [LT true k]) k m1 ns' Ea) as (F & N & V & L & G).
      * constructor.
      * intros v [].
      * intros a Ha. apply in_app_or in Ha. destruct Ha as [Ha|[<-|[]]]; [right; auto|left; reflexivity].
      * destruct Hmode as [Hm|[Hm|Hm]]; auto. right. right. intros j Hc. apply in_app_or in Hc.
        destruct Hc as [Hc|[Hc|[]]]; [apply (Hm j Hc)|discriminate].
      * rewrite app_length in *. simpl in *. repeat split.
        -- f_equal. exact F.
        -- constructor; auto. intro Hc. apply V in Hc. destruct Hc as [[]|Hc]. lia.
        -- intros v [<-|Hv]; [right; lia|]. apply V in Hv. destruct Hv as [[]|Hv]. right. lia.
        -- intros v [<-|Hv]; [lia|auto].
        -- lia.
    + destruct (assign_taxa fresh_new cs rest rpool' labels ns counter) as [[m1 ns1]|] eqn:Ea; [|discriminate].
      inversion H; subst. clear H. inversion Hnp as [|? ? Hn1 Hn2]; subst.
      destruct (IH rpool' labels ns counter m1 ns' Ea Hn2) as (F & N & V & L & G); auto.
      * intros v Hv. apply Hlt. right. exact Hv.
      * simpl. repeat split.
        -- f_equal. exact F.
        -- constructor; auto. intro Hc. apply V in Hc. destruct Hc as [Hc|Hc]; [auto|].
           pose proof (Hlt tx (or_introl eq_refl)). lia.
        -- intros v [<-|Hv]; [left; left; reflexivity|]. apply V in Hv. destruct Hv; [left; right; assumption|right; assumption].
        -- intros v [Hv|Hv]; [subst v; pose proof (Hlt tx (or_introl eq_refl)); lia|auto].
        -- exact G.
Qed.

(* the label loop always finds a free label within |labels| + 1 steps *)
Definition above (c : nat) (a : lab) : bool := match a with LT true k => c <? k | _ => false end.

Lemma above_mono : forall c a, above (S c) a = true -> above c a = true.
Proof. unfold above. intros c [[|] k|]; auto. rewrite !Nat.ltb_lt. lia. Qed.

Lemma cnt_mono : forall c l, length (filter (above (S c)) l) <= length (filter (above c) l).
Proof.
  induction l as [|a r IH]; cbn [filter]; [lia|]. destruct (above (S c) a) eqn:E.
  - rewrite (above_mono _ _ E). simpl. lia.
  - destruct (above c a); simpl; lia.
Qed.

Lemma cnt_strict : forall c l, In (LT true (S c)) l ->
  length (filter (above (S c)) l) < length (filter (above c) l).
Proof.
  induction l as [|a r IH]; [intros []|]. intros [->|H]; cbn [filter].
  - assert (E1 : above (S c) (LT true (S c)) = false) by (unfold above; apply Nat.ltb_irrefl).
    assert (E2 : above c (LT true (S c)) = true) by (unfold above; apply Nat.ltb_lt; lia).
    rewrite E1, E2. simpl. pose proof (cnt_mono c r). lia.
  - specialize (IH H). destruct (above (S c) a) eqn:E.
    + rewrite (above_mono _ _ E). simpl. lia.
    + destruct (above c a); simpl; lia.
Qed.

Lemma filter_len_le {A} (f : A -> bool) : forall l, length (filter f l) <= length l.
Proof. induction l as [|a r IH]; simpl; [lia|]. destruct (f a); simpl; lia. Qed.

Lemma find_fresh_total : forall labels fuel c,
  length (filter (above c) labels) < fuel -> find_fresh fuel labels c <> None.
Proof.
  intros labels. induction fuel as [|f IH]; intros c Hlt; [lia|]. simpl.
  destruct (lab_mem (LT true (S c)) labels) eqn:E; [|discriminate].
  apply IH. apply lab_mem_In in E. pose proof (cnt_strict c labels E). lia.
Qed.

Lemma assign_taxa_total : forall fresh_new cs leaves rpool labels ns counter,
  assign_taxa fresh_new cs leaves rpool labels ns counter <> None.
Proof.
  intros fresh_new cs. induction leaves as [|nd rest IH]; intros rpool labels ns counter; cbn [assign_taxa]; [discriminate|].
  destruct rpool as [|tx rpool'].
  - destruct (find_fresh (S (length labels)) labels counter) as [k|] eqn:Ef.
    + destruct (require_taxon fresh_new cs (LT true k) ns) as [tx ns1].
      destruct (assign_taxa fresh_new cs rest [] (LT true k :: labels) ns1 k) as [[m1 ns2]|] eqn:Ea;
        [intro Hc; discriminate Hc | exfalso; eapply IH; exact Ea].
    + exfalso. revert Ef. apply find_fresh_total.
      pose proof (filter_len_le (above counter) labels). lia.
  - destruct (assign_taxa fresh_new cs rest rpool' labels ns counter) as [[m1 ns2]|] eqn:Ea;
      [intro Hc; discriminate Hc | exfalso; eapply IH; exact Ea].
Qed.

(* keys and bounds of the assignment, whatever the label mode *)
Lemma lookup_label_bound : forall cs a ns i j, lookup_label cs a ns i = Some j -> i <= j < i + length ns.
Proof.
  intros cs a. induction ns as [|b r IH]; intros i j H; simpl in H; [discriminate|].
  destruct (if cs then lab_eqb a b else lab_eqb (lab_lower a) (lab_lower b)).
  - inversion H; subst. simpl. lia.
  - apply IH in H. simpl. lia.
Qed.

Lemma require_taxon_bound : forall fn cs a ns tx ns1, require_taxon fn cs a ns = (tx, ns1) ->
  tx < length ns1 /\ length ns <= length ns1.
Proof.
  intros fn cs a ns tx ns1 H. unfold require_taxon in H.
  destruct (if fn then None else lookup_label cs a ns 0) as [i|] eqn:E.
  - inversion H; subst. destruct fn; [discriminate|]. apply lookup_label_bound in E. lia.
  - inversion H; subst. rewrite app_length. simpl. lia.
Qed.

Lemma assign_taxa_keys : forall fresh_new cs leaves rpool labels ns counter m ns',
  assign_taxa fresh_new cs leaves rpool labels ns counter = Some (m, ns') ->
  (forall v, In v rpool -> v < length ns) ->
  map fst m = leaves /\ (forall v, In v (map snd m) -> v < length ns') /\ length ns <= length ns'.
Proof.
  intros fresh_new cs. induction leaves as [|nd rest IH]; intros rpool labels ns counter m ns' H Hlt; cbn [assign_taxa] in H.
  - inversion H; subst. simpl. split; [reflexivity|]. split; [tauto|lia].
  - destruct rpool as [|tx rpool'].
    + destruct (find_fresh _ labels counter) as [k|]; [|discriminate].
      destruct (require_taxon fresh_new cs (LT true k) ns) as [tx ns1] eqn:Er.
      apply require_taxon_bound in Er. destruct Er as [B1 B2].
      destruct (assign_taxa fresh_new cs rest [] (LT true k :: labels) ns1 k) as [[m1 ns2]|] eqn:Ea; [|discriminate].
      inversion H; subst. clear H.
      destruct (IH [] _ _ _ _ _ Ea) as (F & L & G); [intros v []|].
      simpl. split; [f_equal; exact F|]. split; [|lia]. intros v [<-|Hv]; [lia|auto].
    + destruct (assign_taxa fresh_new cs rest rpool' labels ns counter) as [[m1 ns1]|] eqn:Ea; [|discriminate].
      inversion H; subst. clear H.
      destruct (IH rpool' _ _ _ _ _ Ea) as (F & L & G); [intros v Hv; apply Hlt; right; exact Hv|].
      simpl. split; [f_equal; exact F|]. split; [|exact G].
      intros v [Hv|Hv]; [subst v; pose proof (Hlt tx (or_introl eq_refl)); lia|auto].
Qed.

Lemma assign_taxa_prefix : forall fresh_new cs leaves rpool labels ns counter m ns',
  assign_taxa fresh_new cs leaves rpool labels ns counter = Some (m, ns') -> exists extra, ns' = ns ++ extra.
Proof.
  intros fresh_new cs. induction leaves as [|nd rest IH]; intros rpool labels ns counter m ns' H; cbn [assign_taxa] in H.
  - inversion H; subst. exists []. rewrite app_nil_r. reflexivity.
  - destruct rpool as [|tx rpool'].
    + destruct (find_fresh _ labels counter) as [k|]; [|discriminate].
      destruct (require_taxon fresh_new cs (LT true k) ns) as [tx ns1] eqn:Er.
      destruct (assign_taxa fresh_new cs rest [] (LT true k :: labels) ns1 k) as [[m1 ns2]|] eqn:Ea; [|discriminate].
      inversion H; subst. clear H. destruct (IH _ _ _ _ _ _ Ea) as [extra ->].
      unfold require_taxon in Er. destruct (if fresh_new then None else lookup_label cs (LT true k) ns 0).
      * inversion Er; subst. eauto.
      * inversion Er; subst. rewrite <- app_assoc. eauto.
    + destruct (assign_taxa fresh_new cs rest rpool' labels ns counter) as [[m1 ns1]|] eqn:Ea; [|discriminate].
      inversion H; subst. clear H. eapply IH; eauto.
Qed.

Lemma snd_inj : forall (m : list (nat * nat)) a b v, NoDup (map snd m) -> In (a, v) m -> In (b, v) m -> a = b.
Proof.
  induction m as [|[x y] r IH]; intros a b v Hn Ha Hb; simpl in *; [tauto|].
  inversion Hn as [|? ? Hn1 Hn2]; subst.
  destruct Ha as [Ha|Ha], Hb as [Hb|Hb].
  - congruence.
  - inversion Ha; subst. exfalso. apply Hn1. apply in_map_iff. exists (b, v). auto.
  - inversion Hb; subst. exfalso. apply Hn1. apply in_map_iff. exists (a, v). auto.
  - eapply IH; eauto.
Qed.

Lemma assoc_found : forall (m : list (nat * nat)) i, In i (map fst m) -> exists v, assoc i m = Some v /\ In (i, v) m.
Proof.
  intros m i H. destruct (assoc i m) as [v|] eqn:E.
  - exists v. split; auto. apply assoc_In. exact E.
  - apply assoc_None in E. contradiction.
Qed.

Lemma assoc_inj_NoDup : forall (m : list (nat * nat)) L,
  NoDup (map snd m) -> NoDup L -> (forall i, In i L -> In i (map fst m)) ->
  NoDup (map (fun i => assoc i m) L).
Proof.
  intros m. induction L as [|a L IH]; intros Hs Hl Hin; simpl; [constructor|].
  inversion Hl as [|? ? Hl1 Hl2]; subst. constructor.
  - intro Hc. apply in_map_iff in Hc. destruct Hc as (b & Eb & Hb).
    destruct (assoc_found m a (Hin a (or_introl eq_refl))) as (v & Ea & Hav).
    destruct (assoc_found m b (Hin b (or_intror Hb))) as (v' & Eb' & Hbv).
    rewrite Ea, Eb' in Eb. inversion Eb; subst. assert (a = b) by (eapply snd_inj; eauto). subst. contradiction.
  - apply IH; auto. intros i Hi. apply Hin. right. exact Hi.
Qed.

Lemma taxa_map : forall (m : list (nat * nat)) (L : list nat) (T : list (option nat)),
  (forall i, In i L -> In i (map fst m)) -> length L = length T ->
  map (fun p => match assoc (fst p) m with Some y => Some y | None => snd p end) (combine L T)
  = map (fun i => assoc i m) L.
Proof.
  intros m. induction L as [|a L IH]; intros [|t T] Hin Hlen; simpl in *; try discriminate; [reflexivity|].
  destruct (assoc_found m a (Hin a (or_introl eq_refl))) as (v & Ea & _). rewrite Ea. f_equal.
  apply IH; [intros i Hi; apply Hin; right; exact Hi|lia].
Qed.

(* ---------------- the result specification ---------------- *)

Definition no_case_variant (ns : list lab) : Prop := forall k, ~ In (LT false k) ns.

Lemma taxa_block_spec : forall fn cs ns t r t' ns' r',
  taxa_block fn cs ns t r = Done (t', ns') r' -> NoDup (ids t) ->
  exists m, t' = set_tax m t /\ Permutation (map fst m) (leaf_ids t) /\
            (forall v, In v (map snd m) -> v < length ns') /\
            ((fn = true \/ cs = true \/ no_case_variant ns) -> NoDup (map snd m)) /\
            (exists extra, ns' = ns ++ extra).
Proof.
  intros fn cs ns t r t' ns' r' H Hn. unfold taxa_block in H.
  step H. apply d_perm_Done in Hs. destruct Hs as [Hp1 _].
  step H. apply d_perm_Done in Hs. destruct Hs as [Hp2 _].
  destruct (assign_taxa _ _ _ _ _ _ _) as [[m ns1]|] eqn:Ea; [|discriminate].
  apply ret_Done in H. destruct H as [H <-]. inversion H; subst. clear H.
  assert (Hpool : Permutation (apply_perm 0 a (seq 0 (length ns))) (seq 0 (length ns))).
  { apply apply_perm_Permutation. rewrite seq_length. exact Hp1. }
  assert (Hrp : forall v, In v (rev (apply_perm 0 a (seq 0 (length ns)))) -> v < length ns).
  { intros v Hv. apply in_rev in Hv. eapply Permutation_in in Hv; [|exact Hpool]. apply in_seq in Hv. lia. }
  destruct (assign_taxa_keys _ _ _ _ _ _ _ _ _ Ea Hrp) as (F & L & G).
  exists m. split; [reflexivity|]. split; [|split; [exact L|split; [|eapply assign_taxa_prefix; eauto]]].
  - rewrite F. apply apply_perm_Permutation. exact Hp2.
  - intros Hmode.
    destruct (assign_taxa_spec _ _ _ _ _ _ _ _ _ Ea) as (_ & N & _); auto.
    eapply Permutation_NoDup; [apply Permutation_rev|].
    eapply Permutation_NoDup; [apply Permutation_sym; exact Hpool|]. apply seq_NoDup.
Qed.

Lemma taxa_block_fuel : forall fn cs ns t r, taxa_block fn cs ns t r <> NoFuel.
Proof.
  intros fn cs ns t r H. unfold taxa_block in H.
  apply bnd_NoFuel in H. destruct H as [H|(p1 & r1 & _ & H)]; [eapply d_perm_fuel; eauto|].
  apply bnd_NoFuel in H. destruct H as [H|(p2 & r2 & _ & H)]; [eapply d_perm_fuel; eauto|].
  destruct (assign_taxa _ _ _ _ _ _ _) as [[m ns1]|] eqn:Ea; [discriminate|].
  eapply assign_taxa_total; eauto.
Qed.

(* what holds of the tree after pruning + suppression + taxon assignment, given a state that
   satisfies the loop invariant *)
Lemma finish_spec : forall fn cs ns N st r t ns' r',
  bd_inv N st -> prune_all (s_dead st) [] (s_tr st) r = Done t r' -> 
  forall t3 r'', taxa_block fn cs ns (suppress t) r' = Done (t3, ns') r'' ->
  length (leaf_ids t3) = length (s_ext st) /\
  arity bin t3 /\ NoDup (ids t3) /\
  (exists D, forall x q, In (x, q) (depths t3) -> q == D)%Q /\
  (forall x, In x (leaf_taxa t3) -> exists i, x = Some i /\ i < length ns') /\
  ((fn = true \/ cs = true \/ no_case_variant ns) -> NoDup (leaf_taxa t3)) /\
  (exists extra, ns' = ns ++ extra).
Proof.
  intros fn cs ns N st r t ns' r' I Hp t3 r'' Ht.
  destruct (prune_all_spec _ _ _ _ _ _ Hp (inv_nodup _ _ I)) as (_ & N1 & L1 & In1 & A1 & Q1 & R1).
  { intros x Hx. apply leaf_not_inner; [apply (inv_nodup _ _ I)|]. apply (inv_leaves _ _ I). auto. }
  { intros p []. }
  destruct (inv_eqd _ _ I) as [D He].
  assert (He1 : eqd (s_ext st) D t).
  { apply Q1; [|exact He]. intros y Hy. eapply ext_not_inner; eauto. }
  set (t2 := suppress t) in *.
  assert (N2 : NoDup (ids t2)) by (apply suppress_NoDup; exact N1).
  assert (L2 : forall y, In y (leaf_ids t2) <-> In y (s_ext st)).
  { intros y. unfold t2. rewrite suppress_leaf_ids, L1, (inv_leaves _ _ I). split.
    - intros [[Hy|Hy] Hn]; [assumption|contradiction].
    - intros Hy. split; [left; exact Hy|]. eapply inv_disjoint; eauto. }
  assert (A2 : arity bin t2).
  { unfold t2. apply suppress_arity. apply A1. eapply arity_impl; [|apply (inv_bin _ _ I)].
    intros n [->| ->]; unfold le2; lia. }
  assert (He2 : eqd (s_ext st) D t2) by (apply suppress_eqd; exact He1).
  destruct (taxa_block_spec _ _ _ _ _ _ _ _ Ht N2) as (m & -> & Pm & Bm & Nm & Px).
  rewrite set_tax_relabel.
  split; [|split; [|split; [|split; [|split; [|split; [|exact Px]]]]]].
  - rewrite relabel_leaf_ids. apply Permutation_length. apply NoDup_Permutation.
    + apply NoDup_leaf_ids. exact N2.
    + eapply inv_ext_NoDup; eauto.
    + exact L2.
  - apply arity_relabel. exact A2.
  - rewrite relabel_ids. exact N2.
  - exists (0 + D)%Q. intros x q Hq. unfold depths in Hq.
    eapply (eqd_depths (s_ext st)); [| |exact Hq].
    + intros y Hy. rewrite relabel_leaf_ids in Hy. apply L2. exact Hy.
    + apply (eqd_relabel_tax (s_ext st) D (fun i x => match assoc i m with Some y => Some y | None => x end)). exact He2.
  - rewrite <- set_tax_relabel, leaf_taxa_set_tax, taxa_map.
    + intros x Hx. apply in_map_iff in Hx. destruct Hx as (i & <- & Hi).
      destruct (assoc_found m i) as (v & Ev & Hv).
      { eapply Permutation_in; [apply Permutation_sym; exact Pm|exact Hi]. }
      exists v. split; [exact Ev|]. apply Bm. apply in_map_iff. exists (i, v). auto.
    + intros i Hi. eapply Permutation_in; [apply Permutation_sym; exact Pm|exact Hi].
    + apply leaf_ids_taxa_length.
  - intros Hmode. rewrite <- set_tax_relabel, leaf_taxa_set_tax, taxa_map.
    + apply assoc_inj_NoDup; [apply Nm; exact Hmode|apply NoDup_leaf_ids; exact N2|].
      intros i Hi. eapply Permutation_in; [apply Permutation_sym; exact Pm|exact Hi].
    + intros i Hi. eapply Permutation_in; [apply Permutation_sym; exact Pm|exact Hi].
    + apply leaf_ids_taxa_length.
Qed.

Theorem bd_result_spec_proved : forall fresh_new cs P ns script t ns' r,
  1 <= p_n P ->
  bd_sim fresh_new cs P ns script = Done (t, ns') r ->
  length (leaf_ids t) = p_n P /\
  (forall s, In s (subtrees t) -> length (b_kids s) = 0 \/ length (b_kids s) = 2) /\
  NoDup (ids t) /\
  (exists D, forall x q, In (x, q) (depths t) -> q == D)%Q /\
  (forall x, In x (leaf_taxa t) -> exists i, x = Some i /\ i < length ns') /\
  ((fresh_new = true \/ cs = true \/ (forall k, ~ In (LT false k) ns)) -> NoDup (leaf_taxa t)) /\
  (exists extra, ns' = ns ++ extra).
Proof.
  intros fn cs P ns script t ns' r HN H. unfold bd_sim, bd_run in H.
  step H. destruct (bd_loop_inv _ _ _ _ _ _ HN (bd_init_inv P HN) Hs) as [I Hlen].
  unfold bd_finish in H. step H.
  destruct (finish_spec fn cs ns _ _ _ _ ns' _ I Hs0 t r H) as (F1 & F2 & F3 & F4 & F5 & F6 & F7).
  split; [rewrite F1; exact Hlen|]. split; [apply (proj1 (arity_subtrees bin t)); exact F2|].
  split; [exact F3|]. split; [exact F4|]. split; [exact F5|split; [exact F6|exact F7]].
Qed.

Theorem bd_fuel_proved : forall fresh_new cs P ns script, bd_sim fresh_new cs P ns script <> NoFuel.
Proof.
  intros fn cs P ns script H. unfold bd_sim, bd_run in H.
  apply bnd_NoFuel in H. destruct H as [H|(st & r1 & _ & H)].
  - revert H. apply bd_loop_fuel. unfold left_. simpl. lia.
  - unfold bd_finish in H. apply bnd_NoFuel in H. destruct H as [H|(t1 & r2 & _ & H)].
    + eapply prune_all_fuel; eauto.
    + eapply taxa_block_fuel; eauto.
Qed.
