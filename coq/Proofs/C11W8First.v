(* C11, wave 8 (seeded change C11-10): every import route resolves a label to the FIRST member of the target
   namespace that matches it under the namespace's case rule.
     clone route   (Tree(t0, taxon_namespace=n): Tree._clone_from builds memo[t1] = n.require_taxon(t1.label) over
                    the members of the source namespace; extend / += / + / slice assignment from a TreeList)
     migrate route (Tree.reconstruct_taxon_namespace(unify_taxa_by_label=True): append / insert / item assignment /
                    migrate_taxon_namespace)
   Both statements are about the namespace as it is AFTER the call (members are only appended, so the first
   match of a label never changes once there is one). *)
From Coq Require Import List Bool Arith ZArith Lia.
From DV Require Import Model.PyPrims Model.C11Model Proofs.C11Base Proofs.C11Unify.
Import ListNotations.
Open Scope nat_scope.

Section WithLower.
Variable lower : lbl -> lbl.

Lemma clone_memo_first : forall n cs ms st memo st' memo',
  clone_memo lower st n ms memo = (st', memo') ->
  ns_cs st n = cs -> wf_ns n st -> memo_ok lower n cs st memo ->
  (forall x, In x ms -> x < length (s_lab st)) ->
  ext n st st' /\ wf_ns n st' /\ memo_ok lower n cs st' memo'.
Proof.
  intros n cs ms. induction ms as [|x r IH]; intros st memo st' memo' H Ecs W Mo V; cbn [clone_memo] in H.
  - injection H as H1 H2. subst. split; [apply ext_refl|]. split; [exact W | exact Mo].
  - destruct (require_taxon lower st n (label st x) (ns_cs st n)) as [st1 t] eqn:Q.
    destruct (require_taxon_first lower _ _ _ _ _ Q W) as [X1 [W1 F1]].
    assert (Vx : x < length (s_lab st)) by (apply V; left; reflexivity).
    assert (Ecs1 : ns_cs st1 n = cs) by (rewrite <- Ecs; apply X1).
    destruct (IH _ _ _ _ H Ecs1 W1) as [X2 [W2 Mo2]].
    + intros y t0 A0. rewrite alookup_cons in A0. destruct (Nat.eqb y x) eqn:Eq.
      * apply Nat.eqb_eq in Eq. subst y. injection A0 as A0. subst t0.
        split; [pose proof (ext_len n st st1 X1); lia|]. rewrite (label_ext n st st1 x X1 Vx). rewrite <- Ecs. exact F1.
      * apply (memo_ok_ext lower n cs st st1 memo X1 W Mo y t0 A0).
    + intros y Hy. pose proof (ext_len n st st1 X1). specialize (V y (or_intror Hy)). lia.
    + split; [eapply ext_trans; eassumption|]. split; [exact W2 | exact Mo2].
Qed.

(* the clone route *)
Theorem clone_resolves_first_match_l : forall st n ms st' memo,
  (forall x, In x (members st n) -> x < length (s_lab st)) ->
  (forall x, In x ms -> x < length (s_lab st)) ->
  clone_memo lower st n ms [] = (st', memo) ->
  forall x t, alookup x memo = Some t -> first_match lower st' n (ns_cs st' n) (label st' x) = Some t.
Proof.
  intros st n ms st' memo W V H x t A.
  destruct (clone_memo_first n (ns_cs st n) ms st [] st' memo H eq_refl W) as [X [_ Mo]].
  - intros y t0 A0. discriminate.
  - exact V.
  - assert (E : ns_cs st' n = ns_cs st n) by apply X. rewrite E. apply (Mo x t A).
Qed.

(* the migrate route *)
Theorem migrate_resolves_first_match_l : forall st n refs st' refs' memo',
  (forall x, In x (members st n) -> x < length (s_lab st)) ->
  (forall x, In x refs -> x < length (s_lab st)) ->
  recon_refs lower st n true refs [] = (st', refs', memo') ->
  length refs' = length refs
  /\ forall i, i < length refs ->
       first_match lower st' n (ns_cs st' n) (label st' (nth i refs 0)) = Some (nth i refs' 0).
Proof.
  intros st n refs st' refs' memo' W V H.
  destruct (recon_unify_spec lower n (ns_cs st n) refs st [] st' refs' memo' H eq_refl W) as [X [_ [_ F]]].
  - intros y t0 A0. discriminate.
  - exact V.
  - pose proof (Forall2_len _ _ _ _ _ F) as L. rewrite map_length in L. split; [symmetry; exact L|].
    intros i Hi. assert (E : ns_cs st' n = ns_cs st n) by apply X. rewrite E.
    rewrite (label_ext n st st' (nth i refs 0) X) by (apply V, nth_In; exact Hi).
    pose proof (Forall2_nth _ _ _ _ _ 0 0 i F) as G. rewrite map_length in G. specialize (G Hi).
    cbn beta in G. rewrite (nth_indep _ 0 (label st 0)) in G by (rewrite map_length; exact Hi).
    rewrite map_nth in G. exact G.
Qed.

End WithLower.
