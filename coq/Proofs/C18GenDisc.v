(* C18 - translator tie for discrete_birth_death_tree: the code generated from the current source
   (coq/Gen/Sim.v) is the hand-written model Model/C18DiscModel.v *)
From Coq Require Import QArith ZArith List Bool Arith.
From DV Require Import Model.C18Model Model.C18Prims Model.C18DiscPrims Model.C18DiscModel Gen.Sim.
From DV Require Import Proofs.C18Disc.
From DV Require Model.PyPrims.
Import ListNotations.
Open Scope nat_scope.

(* the body of `for nd in leaf_nodes` *)
Lemma gen_disc_leaf_eq : forall P,
  gen_discrete_birth_death_tree_forM1 (dp_b P) (dp_d P) (dp_sb P) (dp_sd P) (dp_repeat P) = disc_leaf P
  /\ gen_discrete_birth_death_tree_ns_forM1 (dp_b P) (dp_d P) (dp_sb P) (dp_sd P) (dp_repeat P) = disc_leaf P.
Proof. split; reflexivity. Qed.

(* one pass of the generation loop, test included *)
Lemma gen_disc_gen_eq : forall P tt tg,
  gen_discrete_birth_death_tree_while2 (dp_b P) (dp_d P) (dp_sb P) (dp_sd P) tt tg (dp_repeat P) = disc_gen P tt tg
  /\ gen_discrete_birth_death_tree_ns_while2 (dp_b P) (dp_d P) (dp_sb P) (dp_sd P) tt tg (dp_repeat P) = disc_gen P tt tg.
Proof. split; reflexivity. Qed.

(* the whole function, called with taxon_namespace= *)
Lemma gen_disc_ns_eq : forall P ns r,
  gen_discrete_birth_death_tree_ns (dp_b P) (dp_d P) (dp_sb P) (dp_sd P) ns (dp_repeat P) (dp_ntax P) (dp_maxt P) r
  = disc_run P (Some ns) r.
Proof. intros. unfold gen_discrete_birth_death_tree_ns. rewrite andb_false_r. reflexivity. Qed.

(* the whole function, called without taxon_namespace= *)
Lemma gen_disc_eq : forall P r,
  gen_discrete_birth_death_tree (dp_b P) (dp_d P) (dp_sb P) (dp_sd P) (dp_repeat P) (dp_ntax P) (dp_maxt P) r
  = disc_run P None r.
Proof.
  intros. unfold gen_discrete_birth_death_tree, disc_run, disc_run_nons.
  destruct (py_is_none (dp_ntax P) && py_is_none (dp_maxt P)); [reflexivity|].
  destruct (negb (py_is_none (dp_ntax P))); reflexivity.
Qed.

Definition gen_disc (P : dparams) (ons : option (list lab)) : M (btree * list lab) :=
  match ons with
  | Some ns => gen_discrete_birth_death_tree_ns (dp_b P) (dp_d P) (dp_sb P) (dp_sd P) ns (dp_repeat P) (dp_ntax P) (dp_maxt P)
  | None => gen_discrete_birth_death_tree (dp_b P) (dp_d P) (dp_sb P) (dp_sd P) (dp_repeat P) (dp_ntax P) (dp_maxt P)
  end.

Lemma gen_disc_is_model : forall P ons r, gen_disc P ons r = disc_run P ons r.
Proof. intros P [ns|] r; [apply gen_disc_ns_eq|apply gen_disc_eq]. Qed.

Lemma gen_disc_spec : forall P ons script t ns' r,
  gen_disc P ons (script, []) = Done (t, ns') r ->
  (forall s, In s (subtrees t) -> length (b_kids s) = 0 \/ length (b_kids s) = 2) /\
  NoDup (ids t) /\
  (exists D, forall x q, In (x, q) (depths t) -> q == D)%Q /\
  (forall x, In x (leaf_taxa t) -> exists i, x = Some i /\ i < length ns') /\
  NoDup (leaf_taxa t) /\
  (exists extra, ns' = match ons with Some ns => ns | None => [] end ++ extra) /\
  (dp_maxt P = None -> forall N, disc_target P ons = Some N -> N <= length (leaf_ids t)).
Proof. intros P ons script t ns' r H. rewrite gen_disc_is_model in H. exact (disc_result_spec_proved _ _ _ _ _ _ H). Qed.

Lemma gen_disc_fuel : forall P ons script, gen_disc P ons (script, []) <> NoFuel.
Proof. intros. rewrite gen_disc_is_model. apply disc_fuel_proved. Qed.
