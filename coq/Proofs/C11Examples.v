(* C11: machine-checked witnesses - refutations of the unrestricted statements (the reported findings)
   and non-vacuity examples for the hypotheses of the theorems *)
From Coq Require Import List Bool Arith ZArith Lia.
From DV Require Import Model.PyPrims Model.C11Model Proofs.C11Base Proofs.C11Final.
Import ListNotations.
Open Scope nat_scope.

(* label pool A B C a b c = 0..5; str.lower on it *)
Definition ex_lower : lbl -> lbl := tbl_lower [(0, 3); (1, 4); (2, 5); (3, 3); (4, 4); (5, 5)].

(* namespaces 0, 1 (case-insensitive) and 2 (case-sensitive); taxa 0:A 1:B in ns0, 2:a 3:C in ns1,
   4:A 5:a in ns2; one empty list per namespace; trees 0..3 *)
Definition ex_base : list op :=
  [NewNs false; NewNs false; NewNs true;
   NewTaxon 0 0; NewTaxon 0 1; NewTaxon 1 3; NewTaxon 1 2; NewTaxon 2 0; NewTaxon 2 3;
   NewList 0; NewList 1; NewList 2;
   MkTree 0 [0; 1]; MkTree 1 [2; 3]; MkTree 2 [4; 5]; MkTree 2 [5; 4; 4]].

Definition ex_state (ops : list op) : state := run_state ex_lower st_init (ex_base ++ ops).

Ltac refute :=
  split; [apply closedb_iff; vm_compute; reflexivity|];
  split; [vm_compute; reflexivity|];
  split; [vm_compute; reflexivity|];
  let C := fresh "C" in intro C; apply closedb_iff in C; vm_compute in C; discriminate.

(* finding: tl0.append(t) with t a member of tl1 (another namespace) re-homes t in place: tl1 keeps a
   member that refers to tl0's namespace *)
Lemma append_shared_tree_refuted_l :
  let st := ex_state [Append 1 1 (SMigrate true)] in
  let o := Append 0 1 (SMigrate true) in
  Closed st /\ disciplined st o = false /\ is_recon (snd (step ex_lower st o)) = false
  /\ ~ Closed (fst (step ex_lower st o)).
Proof. refute. Qed.

(* the same through a slice: sub = tl1[:]; sub.migrate_taxon_namespace(ns0) breaks tl1 *)
Lemma migrate_slice_refuted_l :
  let st := ex_state [Append 1 1 (SMigrate true); GetSlice 1 None None] in
  let o := MigrateList 3 0 true in
  Closed st /\ disciplined st o = false /\ is_recon (snd (step ex_lower st o)) = false
  /\ ~ Closed (fst (step ex_lower st o)).
Proof. refute. Qed.

(* finding: DataSet.add of a TreeList under another namespace while a namespace is attached *)
Lemma dataset_add_foreign_refuted_l :
  let st := ex_state [NewDs; Attach 0 0] in
  let o := DsAdd 0 (ObjList 1) in
  Closed st /\ disciplined st o = false /\ is_recon (snd (step ex_lower st o)) = false
  /\ ~ Closed (fst (step ex_lower st o)).
Proof. refute. Qed.

(* ... and attach_taxon_namespace on a data set that already holds a foreign component *)
Lemma dataset_attach_foreign_refuted_l :
  let st := ex_state [NewDs; DsAdd 0 (ObjList 1)] in
  let o := Attach 0 0 in
  Closed st /\ disciplined st o = false /\ is_recon (snd (step ex_lower st o)) = false
  /\ ~ Closed (fst (step ex_lower st o)).
Proof. refute. Qed.

(* purge_taxon_namespace removes taxa other holders of the namespace still use *)
Lemma purge_shared_namespace_refuted_l :
  let st := ex_state [Append 0 0 (SMigrate true); NewList 0; Append 3 1 (SMigrate true)] in
  let o := PurgeList 0 in
  Closed st /\ disciplined st o = false /\ is_recon (snd (step ex_lower st o)) = false
  /\ ~ Closed (fst (step ex_lower st o)).
Proof. refute. Qed.

(* finding: within the discipline - CharacterMatrix.migrate_taxon_namespace raises
   TaxonNamespaceReconstructionError half-way (rows A / a into a case-insensitive namespace) and leaves
   the matrix with a row whose taxon is not in the matrix' (new) namespace *)
Lemma matrix_reconstruction_error_refuted_l :
  let st := ex_state [NewMat 2; NewSeq 0 4; NewSeq 0 5] in
  let o := MigrateMat 0 0 true in
  Closed st /\ disciplined st o = true /\ snd (step ex_lower st o) = ORecon
  /\ ~ Closed (fst (step ex_lower st o)).
Proof.
  split; [apply closedb_iff; vm_compute; reflexivity|].
  split; [vm_compute; reflexivity|]. split; [vm_compute; reflexivity|].
  intro C; apply closedb_iff in C; vm_compute in C; discriminate.
Qed.

(* the same through DataSet.unify_taxon_namespaces *)
Lemma unify_reconstruction_error_refuted_l :
  let st := ex_state [NewMat 2; NewSeq 0 4; NewSeq 0 5; NewDs; DsAdd 0 (ObjMat 0); DsAdd 0 (ObjList 0)] in
  let o := Unify 0 None true in
  Closed st /\ disciplined st o = true /\ snd (step ex_lower st o) = ORecon
  /\ ~ Closed (fst (step ex_lower st o)).
Proof.
  split; [apply closedb_iff; vm_compute; reflexivity|].
  split; [vm_compute; reflexivity|]. split; [vm_compute; reflexivity|].
  intro C; apply closedb_iff in C; vm_compute in C; discriminate.
Qed.

(* the memo-resolved branch of CharacterMatrix.reconstruct_taxon_namespace inside unify_taxon_namespaces:
   list 2 (tree 2 = A, a of the case-sensitive ns2) is migrated first and fills the shared memo (both -> one
   taxon of the new case-insensitive namespace); the matrix then meets its rows A, a through the memo and
   refuses the second one: no row is dropped (2 before, 2 after), the error is raised *)
Lemma unify_shared_memo_collision_l :
  let st := ex_state [Append 2 2 (SMigrate true); NewMat 2; NewSeq 0 4; NewSeq 0 5; NewDs;
                      DsAdd 0 (ObjList 2); DsAdd 0 (ObjMat 0)] in
  let o := Unify 0 None true in
  Closed st /\ disciplined st o = true /\ snd (step ex_lower st o) = ORecon
  /\ m_rows (getmat st 0) = [4; 5] /\ t_refs (gettree (fst (step ex_lower st o)) 2) = [6; 6]
  /\ m_rows (getmat (fst (step ex_lower st o)) 0) = [5; 6].
Proof.
  split; [apply closedb_iff; vm_compute; reflexivity|]. vm_compute. repeat split.
Qed.

Lemma unify_shared_memo_collision_given_l :
  let st := ex_state [Append 2 2 (SMigrate true); NewMat 2; NewSeq 0 5; NewSeq 0 4; NewDs;
                      DsAdd 0 (ObjMat 0); DsAdd 0 (ObjList 2)] in
  let o := Unify 0 (Some 0) false in
  Closed st /\ disciplined st o = true /\ snd (step ex_lower st o) = ORecon
  /\ length (m_rows (getmat st 0)) = 2 /\ length (m_rows (getmat (fst (step ex_lower st o)) 0)) = 2.
Proof.
  split; [apply closedb_iff; vm_compute; reflexivity|]. vm_compute. repeat split.
Qed.

(* the documented merge: tree 3 carries a / A / A (taxa 5 4 4 of the case-sensitive ns2); migrated into
   the case-insensitive ns0 all three nodes end on the one taxon 0 ("A") *)
Lemma migrate_case_merge_l :
  let st := ex_state [] in
  let st' := fst (step ex_lower st (MigrateTree 3 0 true)) in
  t_refs (gettree st 3) = [5; 4; 4] /\ label st 5 <> label st 4
  /\ t_refs (gettree st' 3) = [0; 0; 0] /\ t_ns (gettree st' 3) = 0.
Proof. vm_compute. repeat split; try reflexivity. intro H. discriminate. Qed.

(* ---- non-vacuity ---- *)
(* a disciplined history that uses every kind of operation: both import strategies, slices, +, reads,
   migrations, matrices, a data set with unification *)
Definition ex_history : list op :=
  [Append 0 1 (SMigrate true); Append 0 2 SAdd; Insert 0 (-1)%Z 3 (SMigrate false);
   ReadList 1 Newick false None [[0; 4]; [5; 1]]; ReadList 2 Nexus true None [[0; 3; 1]];
   Extend 1 (SrcList 0); IAdd 2 (SrcTrees [0]); AddOp 0 (SrcList 2); GetSlice 3 (Some 1%Z) None;
   SetSlice 1 (Some 0%Z) (Some 1%Z) (SrcList 2); MkTree 1 [2; 3]; SetItem 1 (-1)%Z 9;
   NewTreeIn 0 None [2; 5]; Pop 1 0%Z; Remove 0 1; MigrateTree 4 2 true;
   ReconstructList 0 true; UpdateList 2; MigrateList 2 1 true;
   NewMat 0; NewSeq 0 0; SetRow 0 (KeyLabel 4); MigrateMat 0 1 true; UpdateMat 0;
   NewDs; DsAdd 0 (ObjList 1); DsAdd 0 (ObjMat 0); DsReadTrees 0 Newick false None [[0; 1]];
   DsReadFasta 0 None [3; 1]; Unify 0 None true; DsNewList 0 None; DsReadTrees 0 Nexus false None [[2; 0]];
   ArrayAdd 1 4; ArrayAdd 2 4; NewNs false; NewTaxon 6 1; NewTaxon 6 2; MkTree 6 [17]; PurgeTree 21;
   Detach 0; DsNewMat 0 (Some 6); NewDs; Attach 1 6; DsNewMat 1 None; DsNewList 1 (Some 6); Detach 1].

Lemma hist_ok_example_l :
  hist_ok ex_lower st_init (ex_base ++ ex_history) = true
  /\ length (s_trees (run_state ex_lower st_init (ex_base ++ ex_history))) = 22
  /\ length (s_lab (run_state ex_lower st_init (ex_base ++ ex_history))) = 19.
Proof. vm_compute. repeat split. Qed.

(* the hypotheses of migrate_unifies hold in a state where the migration really re-maps taxa *)
Lemma migrate_unifies_example_l :
  let st := ex_state [] in
  valid_tree st 1 = true /\ valid_ns st 0 = true
  /\ (forall x, In x (members st 0) -> x < length (s_lab st))
  /\ (forall x, In x (t_refs (gettree st 1)) -> x < length (s_lab st))
  /\ t_ns (gettree st 1) = 1 /\ t_refs (gettree st 1) = [2; 3]
  /\ t_refs (gettree (fst (step ex_lower st (MigrateTree 1 0 true))) 1) = [0; 6].
Proof.
  vm_compute. split; [reflexivity|]. split; [reflexivity|].
  split; [intros x [H|[H|[]]]; subst; lia|]. split; [intros x [H|[H|[]]]; subst; lia|].
  repeat split.
Qed.

(* Pop returns a member; the hypotheses of removed_tree_consistent are met on a closed state *)
Lemma pop_example_l :
  let st := ex_state [Append 0 1 (SMigrate true); Append 0 2 SAdd] in
  Closed st /\ step ex_lower st (Pop 0 (-1)%Z) = (fst (step ex_lower st (Pop 0 (-1)%Z)), OId 2).
Proof. split; [apply closedb_iff; vm_compute; reflexivity | vm_compute; reflexivity]. Qed.
