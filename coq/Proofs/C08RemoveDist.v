(* C08 (wave 6): Node.remove_child(child, suppress_unifurcations=True) and path lengths.

   The suppressing mode is the plain removal followed by a local repair at the node `par` that lost the
   child (Props/C08.v remove_child_suppressing): when par has a parent and is left with ONE child k,
   par is replaced by k, and `try: k.edge.length += par.edge.length  except: pass` decides the length:
       both defined          -> len(k) + len(par): every path through the merged edge keeps its length
       len(par) undefined    -> len(k) survives
       len(k) undefined      -> None survives: len(par) is DROPPED (paths through it are undefined both
                                before and after, see merged_length_cases)
   Theorem remove_child_suppress_dist: for a node par that is not the seed, distances between all
   remaining nodes (outside the removed subtree, other than par itself) are unchanged provided the two
   merged edges carry lengths (no hypothesis on any other edge of the tree).
   General device: `lift` - a local replacement (Model/C08Model.v upd) that preserves, for the nodes of
   interest, the path length from above the replaced node and the distances inside it, preserves them
   in the whole tree. *)
From Coq Require Import ZArith List Bool Lia.
From DV Require Import Model.PyPrims Model.Tree Model.C08Model Model.C08Spec2 Proofs.C08Base Proofs.C08Child Proofs.C08Dist.
Import ListNotations.
Open Scope Z_scope.

Lemma first_some_app {A} (l1 l2 : list (option A)) :
  first_some (l1 ++ l2) = match first_some l1 with Some a => Some a | None => first_some l2 end.
Proof. induction l1 as [|[a|] r IH]; simpl; auto. Qed.

Lemma fs1 {A} (o : option A) : first_some [o] = o.
Proof. destruct o; reflexivity. Qed.

Lemma first_some_flat {A B C} (g : B -> option C) (F : A -> list B) ks :
  first_some (map g (flat_map F ks)) = first_some (map (fun k => first_some (map g (F k))) ks).
Proof.
  induction ks as [|k r IH]; [reflexivity|]. simpl. rewrite map_app, first_some_app, IH.
  destruct (first_some (map g (F k))); reflexivity.
Qed.

Section Lift.
  Variables (f : tree -> list tree) (id : Z) (P : Z -> Prop).

  Definition loc_ok (n : tree) : Prop :=
    (forall a, P a -> first_some (map (rdk a) (f n)) = rdk a n) /\
    (forall a b, P a -> P b -> first_some (map (dist a b) (f n)) = dist a b n).

  Lemma lift : forall t, (forall n, In n (preorder t) -> t_id n = id -> loc_ok n) ->
    (forall a, P a -> first_some (map (rdk a) (upd f id t)) = rdk a t) /\
    (forall a b, P a -> P b -> first_some (map (dist a b) (upd f id t)) = dist a b t).
  Proof.
    induction t as [i x l e ks IH] using tree_ind'. intro Hloc. rewrite upd_T.
    destruct (Z.eqb_spec i id) as [E|Hne].
    - apply Hloc; [simpl; left; reflexivity|exact E].
    - assert (IHk : forall k, In k ks ->
        (forall a, P a -> first_some (map (rdk a) (upd f id k)) = rdk a k) /\
        (forall a b, P a -> P b -> first_some (map (dist a b) (upd f id k)) = dist a b k)).
      { intros k Hk. rewrite Forall_forall in IH. apply (IH k Hk). intros n Hn. apply Hloc. simpl. right.
        apply in_flat_map. exists k. split; assumption. }
      assert (Rk : forall a, P a -> first_some (map (rdk a) (flat_map (upd f id) ks)) = first_some (map (rdk a) ks)).
      { intros a Pa. rewrite first_some_flat. f_equal. apply map_ext_in. intros k Hk. apply (proj1 (IHk k Hk) a Pa). }
      assert (Dk : forall a b, P a -> P b ->
                first_some (map (dist a b) (flat_map (upd f id) ks)) = first_some (map (dist a b) ks)).
      { intros a b Pa Pb. rewrite first_some_flat. f_equal. apply map_ext_in. intros k Hk. apply (proj2 (IHk k Hk) a b Pa Pb). }
      assert (Rd : forall a, P a -> rd a (T i x l e (flat_map (upd f id) ks)) = rd a (T i x l e ks)).
      { intros a Pa. rewrite !rd_T, (Rk a Pa). reflexivity. }
      split.
      + intros a Pa. cbn [map]. rewrite fs1. unfold rdk. rewrite (Rd a Pa). reflexivity.
      + intros a b Pa Pb. cbn [map]. rewrite fs1.
        rewrite (dist_T a b i x l e (flat_map (upd f id) ks)), (dist_T a b i x l e ks).
        rewrite (Dk a b Pa Pb), (Rd a Pa), (Rd b Pb). reflexivity.
  Qed.

  (* at a root that is not the replaced node *)
  Lemma lift_below t : t_id t <> id -> (forall n, In n (preorder t) -> t_id n = id -> loc_ok n) ->
    forall a b, P a -> P b -> dist a b (upd_below f id t) = dist a b t.
  Proof.
    intros Hne Hloc a b Pa Pb. destruct (lift t Hloc) as [_ D]. specialize (D a b Pa Pb).
    destruct t as [i x l e ks]. simpl t_id in Hne. rewrite upd_T in D.
    replace (i =? id) with false in D by (symmetry; apply Z.eqb_neq; exact Hne).
    cbn [map] in D. rewrite fs1 in D. unfold upd_below, updF. cbn [t_kids set_kids]. exact D.
  Qed.
End Lift.

(* ---- the plain removal: nothing outside the removed subtree changes ---- *)
Lemma rm_loc_ok (c : tree) : loc_ok rm_f (fun a => ~ In a (ids c)) c.
Proof.
  split.
  - intros a Pa. simpl. symmetry. apply rdk_notin, Pa.
  - intros a b Pa _. simpl. symmetry. apply dist_notin, Pa.
Qed.

(* ---- the repair: which length survives, and what it means for paths ---- *)
Lemma merged_length_cases (k d : option Z) :
  try_add k d = match k, d with
                | Some x, Some y => Some (x + y)
                | Some x, None => Some x
                | None, _ => None
                end.
Proof. destruct k, d; reflexivity. Qed.

Lemma splice_loc_ok i x l en k ek (P : Z -> Prop) :
  t_len k = Some ek -> (forall a, P a -> a <> i) ->
  loc_ok splice_try P (T i x l (Some en) [k]).
Proof.
  intros Lk Pi. destruct k as [ki xk lk ekk kk]. simpl in Lk. subst ekk.
  unfold loc_ok, splice_try. cbn [t_kids t_len try_add set_len].
  split.
  - intros a Pa. cbn [map]. rewrite !fs1. unfold rdk. cbn [t_len].
    rewrite (rd_T a i x l (Some en)).
    replace (i =? a) with false by (symmetry; apply Z.eqb_neq; intro C; apply (Pi a Pa); congruence).
    cbn [map]. rewrite fs1. unfold rdk. cbn [t_len].
    change (rd a (T ki xk lk (Some (ek + en)) kk)) with (rd a (T ki xk lk (Some ek) kk)).
    destruct (rd a (T ki xk lk (Some ek) kk)) as [d|]; [|reflexivity]. f_equal. lia.
  - intros a b Pa Pb. cbn [map]. rewrite !fs1.
    change (dist a b (T ki xk lk (Some (ek + en)) kk)) with (dist a b (T ki xk lk (Some ek) kk)).
    rewrite (dist_T a b i x l (Some en)). cbn [map]. rewrite fs1.
    destruct (dist a b (T ki xk lk (Some ek) kk)) as [d|] eqn:Ed; [reflexivity|].
    rewrite !(rd_T _ i x l (Some en)).
    replace (i =? a) with false by (symmetry; apply Z.eqb_neq; intro C; apply (Pi a Pa); congruence).
    replace (i =? b) with false by (symmetry; apply Z.eqb_neq; intro C; apply (Pi b Pb); congruence).
    cbn [map]. rewrite !fs1. unfold rdk. cbn [t_len].
    destruct (rd a (T ki xk lk (Some ek) kk)) as [u|] eqn:Ea; [|reflexivity].
    destruct (rd b (T ki xk lk (Some ek) kk)) as [v|] eqn:Eb; [|reflexivity].
    exfalso. rewrite dist_T, Ea, Eb in Ed.
    destruct (first_some (map (dist a b) kk)); discriminate.
Qed.

Lemma splice_loc_other n (P : Z -> Prop) :
  (forall k, t_kids n <> [k]) -> loc_ok splice_try P n.
Proof.
  intro H. unfold loc_ok, splice_try. destruct (t_kids n) as [|k [|k2 r]]; try (exfalso; apply (H k); reflexivity);
    split; intros; simpl; match goal with |- context [match ?o with _ => _ end] => destruct o end; reflexivity.
Qed.

(* ---- the theorem ---- *)
Theorem remove_child_suppress_dist par (p c t : tree) rooted :
  NoDup (ids t) -> find par t = Some p -> In c (t_kids p) -> t_id t <> par ->
  (* the two edges that are merged when par is left with one child carry lengths *)
  (forall n k, In n (preorder (upd_below rm_f (t_id c) t)) -> t_id n = par -> t_kids n = [k] ->
               t_len n <> None /\ t_len k <> None) ->
  exists t', remove_child par (t_id c) true (t, rooted) = IOk ([t_id c], t', rooted) /\
    forall a b, ~ In a (ids c) -> ~ In b (ids c) -> a <> par -> b <> par ->
      dist a b t' = dist a b t.
Proof.
  intros Hnd Hf Hc Hroot Hlen.
  pose proof (remove_child_suppress par p c t rooted Hnd Hf Hc) as E.
  replace (t_id t =? par) with false in E by (symmetry; apply Z.eqb_neq; exact Hroot).
  eexists. split; [exact E|]. intros a b Ha Hb Hap Hbp. unfold plain_removed.
  assert (Hrc : t_id t <> t_id c).
  { destruct (find_some par t p Hf) as [Hp _]. exact (child_not_root t p c Hnd Hp Hc). }
  transitivity (dist a b (upd_below rm_f (t_id c) t)).
  - apply (lift_below splice_try par (fun z => ~ In z (ids c) /\ z <> par)); [| |split; assumption|split; assumption].
    + unfold upd_below. destruct t; simpl. simpl in Hroot. exact Hroot.
    + intros n Hn En. destruct (t_kids n) as [|k [|k2 r]] eqn:Ek.
      * apply splice_loc_other. intros k C. rewrite Ek in C. discriminate.
      * destruct (Hlen n k Hn En Ek) as [L1 L2]. destruct n as [i x l e ks]. simpl in *. subst ks i.
        destruct e as [en|]; [|congruence]. destruct (t_len k) as [ek|] eqn:Lk; [|congruence].
        apply (splice_loc_ok par x l en k ek); [exact Lk|]. intros z [_ Hz]. exact Hz.
      * apply splice_loc_other. intros k0 C. rewrite Ek in C. discriminate.
  - apply (lift_below rm_f (t_id c) (fun z => ~ In z (ids c))); [exact Hrc| |exact Ha|exact Hb].
    intros n Hn En.
    assert (n = c).
    { destruct (find_some par t p Hf) as [Hp _].
      assert (Hcin : In c (preorder t)).
      { apply (preorder_trans t p c Hp). destruct p as [pi px pl pe pk]. simpl. right. apply in_flat_map. exists c.
        split; [exact Hc|]. destruct c; simpl; left; reflexivity. }
      apply (node_by_id t n c Hnd Hn Hcin En). }
    subst n. apply rm_loc_ok.
Qed.

(* non-vacuity: ((A:1,B:2)p:3,C:4)r; remove A from p with suppression: p is replaced by B with length 2+3;
   dist B C stays 9 *)
Definition exrd : tree :=
  T 0 None None None [T 1 None None (Some 3) [T 2 (Some 10) None (Some 1) []; T 3 (Some 11) None (Some 2) []];
                      T 4 (Some 12) None (Some 4) []].

Example remove_child_suppress_dist_example :
  NoDup (ids exrd) /\ find 1 exrd = Some (T 1 None None (Some 3) [T 2 (Some 10) None (Some 1) []; T 3 (Some 11) None (Some 2) []]) /\
  remove_child 1 2 true (exrd, None) =
    IOk ([2], T 0 None None None [T 3 (Some 11) None (Some 5) []; T 4 (Some 12) None (Some 4) []], None) /\
  dist 3 4 exrd = Some 9 /\
  dist 3 4 (T 0 None None None [T 3 (Some 11) None (Some 5) []; T 4 (Some 12) None (Some 4) []]) = Some 9.
Proof.
  split; [vm_compute; repeat constructor; simpl; intuition discriminate|]. repeat split; vm_compute; reflexivity.
Qed.

(* the None cases on the library's own terms: the child's undefined length swallows the defined length
   of the removed node (3 is dropped: B ends with None); an undefined length of the removed node
   leaves the child's length alone *)
Example remove_child_suppress_none_cases :
  remove_child 1 2 true
    (T 0 None None None [T 1 None None (Some 3) [T 2 (Some 10) None (Some 1) []; T 3 (Some 11) None None []];
                         T 4 (Some 12) None (Some 4) []], None)
  = IOk ([2], T 0 None None None [T 3 (Some 11) None None []; T 4 (Some 12) None (Some 4) []], None) /\
  remove_child 1 2 true
    (T 0 None None None [T 1 None None None [T 2 (Some 10) None (Some 1) []; T 3 (Some 11) None (Some 2) []];
                         T 4 (Some 12) None (Some 4) []], None)
  = IOk ([2], T 0 None None None [T 3 (Some 11) None (Some 2) []; T 4 (Some 12) None (Some 4) []], None).
Proof. split; vm_compute; reflexivity. Qed.
