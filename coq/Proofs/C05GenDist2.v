(* C05: generated count_splits_on_tree and update equal the model *)
From Coq Require Import ZArith QArith Qabs Qreduction List Bool Lia Permutation.
From DV Require Import Model.PyPrims Gen.BitFns Gen.Consts Model.C05Model Model.C05Spec Model.C05GenPrims Gen.SplitDist
     Proofs.C05Lists Proofs.C05Freq Proofs.C05GenDist.
Import ListNotations.
Open Scope Z_scope.

Definition with_tables (x : sdx) (cnt : list (Z * Q)) (el ag : list (Z * list (option Q))) : sdx :=
  let d := x_sd x in
  upd_sd x (mkSd (total d) (sum_w d) (rootings d) cnt el ag (freqs d) (counted_for_freqs d)).

(* ---------------------------------------------------------------- count_splits_on_tree *)
Section CountLoop.
  Variables (c : config) (w : Q).
  Variable body : brec -> list Z * sdx * list (option Q) * list (option Q)
                  -> list Z * sdx * list (option Q) * list (option Q).
  Hypothesis Hb : forall r sp x els nas,
    body r (sp, x, els, nas) =
    (sp ++ [r_split r],
     with_tables x (aupd (r_split r) 0%Q (fun v => qplus v w) (counts (x_sd x)))
                 (if ignore_len c then elens (x_sd x)
                  else aupd (r_split r) [] (fun l => l ++ [rec_len c r]) (elens (x_sd x)))
                 (if ignore_ages c then nages (x_sd x)
                  else aupd (r_split r) [] (fun l => l ++ [r_age r]) (nages (x_sd x))),
     if ignore_len c then els else els ++ [rec_len c r],
     if ignore_ages c then nas else nas ++ [r_age r]).

  Lemma count_loop recs : forall sp x els nas,
    py_for recs body (sp, x, els, nas) =
    (let '(cnt, el, ag) := count_recs c w recs (counts (x_sd x)) (elens (x_sd x)) (nages (x_sd x)) in
     (sp ++ map r_split recs, with_tables x cnt el ag,
      els ++ (if ignore_len c then [] else map (rec_len c) recs),
      nas ++ (if ignore_ages c then [] else map r_age recs))).
  Proof.
    induction recs as [|r recs IH]; intros sp x els nas.
    - simpl. rewrite !app_nil_r. destruct (ignore_len c), (ignore_ages c); rewrite ?app_nil_r;
        destruct x as [[t w0 ro cn el ag fr cf] ls as_ cs]; reflexivity.
    - unfold py_for in *. simpl fold_left. rewrite Hb, IH. simpl count_recs.
      destruct x as [[t w0 ro cn el ag fr cf] ls as_ cs].
      cbn [with_tables x_sd upd_sd counts elens nages total sum_w rootings freqs counted_for_freqs
                       x_len_summ x_age_summ x_counted_for_summ].
      destruct (count_recs c w recs (aupd (r_split r) 0%Q (fun x => qplus x w) cn)
                           (if ignore_len c then el else aupd (r_split r) [] (fun l => l ++ [rec_len c r]) el)
                           (if ignore_ages c then ag else aupd (r_split r) [] (fun l => l ++ [r_age r]) ag))
        as [[cnt' el'] ag'].
      simpl map. rewrite <- !app_assoc. simpl app.
      destruct (ignore_len c), (ignore_ages c); rewrite <- ?app_assoc; reflexivity.
  Qed.
End CountLoop.

Theorem gen_count_splits_on_tree_eq c x t b :
  gen_count_splits_on_tree c x t b (default_len c)
  = (upd_sd x (fst (count_tree c (x_sd x) t)), snd (count_tree c (x_sd x) t)).
Proof.
  unfold gen_count_splits_on_tree.
  cbv zeta.
  set (wt := if (negb (py_is_none (py_tree_weight t)) && c_use_tree_weights c)%bool
             then py_float_of_opt (py_tree_weight t) else (1 # 1)%Q).
  assert (Ew : wt = weight_to_use c t).
  { unfold wt, weight_to_use, py_tree_weight, c_use_tree_weights. destruct (t_weight t), (use_w c); reflexivity. }
  erewrite (count_loop c wt).
  2: { intros r sp x0 els nas. destruct x0 as [[t0 w0 ro cn el ag fr cf] ls as_ cs].
       unfold c_ignore_edge_lengths, c_ignore_node_ages, py_bip_split_bitmask, py_edge_length, py_edge_head_age,
              rec_len, py_append, py_dd_iadd_float, py_setdefault_append.
       destruct (ignore_len c), (ignore_ages c), (r_len r); reflexivity. }
  unfold count_tree. rewrite <- Ew.
  destruct x as [[t0 w0 ro cn el ag fr cf] ls as_ cs].
  unfold py_tree_bipartition_encoding, py_tree_is_rooted, py_truth_obool, is_rooted_truthy.
  cbn [x_sd upd_sd counts elens nages total sum_w rootings freqs counted_for_freqs
            x_len_summ x_age_summ x_counted_for_summ with_tables
            sa_total_trees_counted sa_sum_of_tree_weights sa_tree_rooting_types_counted
            a_total_trees_counted a_sum_of_tree_weights a_tree_rooting_types_counted].
  destruct (t_rooting t) as [[|]|];
    cbn [x_sd upd_sd counts elens nages total sum_w rootings freqs counted_for_freqs
              x_len_summ x_age_summ x_counted_for_summ with_tables
              sa_total_trees_counted sa_sum_of_tree_weights sa_tree_rooting_types_counted
              a_total_trees_counted a_sum_of_tree_weights a_tree_rooting_types_counted];
    destruct (count_recs c wt (t_recs t) cn el ag) as [[cnt' el'] ag'];
    destruct (ignore_len c), (ignore_ages c); reflexivity.
Qed.

(* ---------------------------------------------------------------- update *)
Section UpdateLoop.
  Variable o : sdx.
  Variable body : Z -> sdx -> sdx.
  Hypothesis Hb : forall k x,
    body k x = with_tables x (aupd k 0%Q (fun v => qplus v (aget_d k 0%Q (counts (x_sd o)))) (counts (x_sd x)))
                           (aupd k [] (fun l => l ++ aget_d k [] (elens (x_sd o))) (elens (x_sd x)))
                           (aupd k [] (fun l => l ++ aget_d k [] (nages (x_sd o))) (nages (x_sd x))).

  Lemma update_loop ks : forall x,
    py_for ks body x =
    (let '(cnt, el, ag) :=
         fold_left (fun acc k => let '(cnt, el, ag) := acc in
                                 (aupd k 0%Q (fun v => qplus v (aget_d k 0%Q (counts (x_sd o)))) cnt,
                                  aupd k [] (fun l => l ++ aget_d k [] (elens (x_sd o))) el,
                                  aupd k [] (fun l => l ++ aget_d k [] (nages (x_sd o))) ag))
                   ks (counts (x_sd x), elens (x_sd x), nages (x_sd x)) in
     with_tables x cnt el ag).
  Proof.
    induction ks as [|k ks IH]; intro x.
    - simpl. destruct x as [[t w0 ro cn el ag fr cf] ls as_ cs]. reflexivity.
    - unfold py_for in *. simpl fold_left. rewrite Hb, IH.
      destruct x as [[t w0 ro cn el ag fr cf] ls as_ cs]. reflexivity.
  Qed.
End UpdateLoop.

Theorem gen_update_eq c x o :
  NoDup (keys (counts (x_sd o))) ->
  gen_update c x o = (mkSdx (update (x_sd x) (x_sd o)) None None 0, tt).
Proof.
  intro ND. unfold gen_update.
  erewrite (update_loop o).
  2: { intros k x0. destruct x0 as [[t0 w0 ro cn el ag fr cf] ls as_ cs].
       destruct o as [[t1 w1 ro1 cn1 el1 ag1 fr1 cf1] ls1 as1 cs1]. reflexivity. }
  unfold update, py_dict_keys.
  assert (F : forall acc,
    fold_left (fun acc k => let '(cnt, el, ag) := acc in
                            (aupd k 0%Q (fun v => qplus v (aget_d k 0%Q (counts (x_sd o)))) cnt,
                             aupd k [] (fun l => l ++ aget_d k [] (elens (x_sd o))) el,
                             aupd k [] (fun l => l ++ aget_d k [] (nages (x_sd o))) ag))
              (map fst (counts (x_sd o))) acc
    = fold_left (update_step (x_sd o)) (counts (x_sd o)) acc).
  { intro acc. rewrite fold_left_map. apply fold_left_ext_in. intros [[cnt el] ag] [k v] I.
    unfold update_step. simpl fst. simpl snd. now rewrite (aget_d_in_nodup _ k v 0%Q ND I). }
  destruct x as [[t0 w0 ro cn el ag fr cf] ls as_ cs].
  destruct o as [[t1 w1 ro1 cn1 el1 ag1 fr1 cf1] ls1 as1 cs1].
  cbn [x_sd upd_sd counts elens nages total sum_w rootings freqs counted_for_freqs
            x_len_summ x_age_summ x_counted_for_summ with_tables a_split_counts
            sa_total_trees_counted sa_sum_of_tree_weights sa_tree_rooting_types_counted
            sa__split_edge_length_summaries sa__split_node_age_summaries sa__trees_counted_for_summaries
            a_total_trees_counted a_sum_of_tree_weights a_tree_rooting_types_counted] in *.
  rewrite F.
  destruct (fold_left (update_step _) cn1 (cn, el, ag)) as [[cnt' el'] ag']. reflexivity.
Qed.
