(* C01, wave 8: the statements of Tree.suppress_unifurcations that maintain Tree.bipartition_encoding, as generated
   from the source (Gen/SuppObj.v), equal the hand model obj_supp (Model/C01ObjModel.v): filter by identity *)
From Coq Require Import ZArith List Bool Lia.
From DV Require Import Model.PyPrims Model.Tree Model.C01Model Model.C01GenPrims Model.C01ObjModel Model.C01SuppPrims
  Gen.SuppObj.
Import ListNotations.
Open Scope Z_scope.

Lemma gen_unary_is_unary n : ogen_supp_unary n = is_unary n.
Proof.
  unfold ogen_supp_unary, is_unary. destruct (t_kids n) as [|a [|b k]]; [reflexivity | reflexivity |].
  apply Z.eqb_neq. cbn [length]. lia.
Qed.

Definition slot_cells_of (h : oheap) (ns : list tree) : list Z :=
  flat_map (fun n => if is_unary n then match oh_slot h (t_id n) with Some c => [c] | None => [] end else []) ns.

Lemma slot_cells_of_filter h : forall ns,
  slot_cells_of h ns =
  flat_map (fun k => match oh_slot h k with Some c => [c] | None => [] end) (map t_id (filter is_unary ns)).
Proof.
  induction ns as [|n ns IH]; [reflexivity |]. unfold slot_cells_of in *. cbn [flat_map filter].
  destruct (is_unary n); cbn [map flat_map app]; rewrite IH; reflexivity.
Qed.

Lemma fold_mark_none h : forall ns,
  fold_left (fun d n => if ogen_supp_unary n then ogen_supp_mark h (t_id n) d else d) ns None = None.
Proof. induction ns as [|n ns IH]; [reflexivity |]. cbn [fold_left]. destruct (ogen_supp_unary n); exact IH. Qed.

Lemma fold_mark_some h : forall ns l,
  fold_left (fun d n => if ogen_supp_unary n then ogen_supp_mark h (t_id n) d else d) ns (Some l)
  = Some (l ++ map KId (slot_cells_of h ns)).
Proof.
  induction ns as [|n ns IH]; intro l; [cbn; rewrite app_nil_r; reflexivity |].
  cbn [fold_left]. rewrite gen_unary_is_unary. unfold slot_cells_of. cbn [flat_map]. fold (slot_cells_of h ns).
  destruct (is_unary n).
  - unfold ogen_supp_mark, prim_edge_bipartition, prim_id. destruct (oh_slot h (t_id n)) as [c|].
    + rewrite IH. rewrite <- app_assoc. reflexivity.
    + rewrite IH. reflexivity.
  - rewrite IH. reflexivity.
Qed.

Lemma set_in_ids c del : set_in (KId c) (map KId del) = existsb (Z.eqb c) del.
Proof. induction del as [|x del IH]; [reflexivity |]. cbn. unfold set_in in IH. rewrite IH. reflexivity. Qed.

Lemma filter_keep_nil l : filter (supp_keep []) l = l.
Proof. induction l as [|x l IH]; [reflexivity |]. cbn. rewrite IH. reflexivity. Qed.

Lemma generated_suppress_is_model_l : forall h t stored,
  ogen_suppress_unifurcations_stored true h t stored
  = option_map (filter (supp_keep (supp_deleted h t))) stored.
Proof.
  intros h t stored. unfold ogen_suppress_unifurcations_stored, ogen_supp_init. cbn [andb].
  assert (Del : supp_deleted h t = slot_cells_of h (postorder t)).
  { unfold supp_deleted, unary_ids. rewrite slot_cells_of_filter. reflexivity. }
  destruct stored as [[|x l]|]; cbn [truthy_stored].
  - rewrite fold_mark_none. reflexivity.
  - rewrite fold_mark_some. cbn [app]. rewrite <- Del. unfold ogen_supp_tail.
    destruct (supp_deleted h t) as [|d0 del] eqn:E.
    + cbn [map truthy_set option_map]. rewrite filter_keep_nil. reflexivity.
    + cbn [map truthy_set set_elems option_map]. f_equal. apply filter_ext. intro b.
      unfold prim_id, supp_keep. change (KId d0 :: map KId del) with (map KId (d0 :: del)).
      rewrite set_in_ids. reflexivity.
  - rewrite fold_mark_none. reflexivity.
Qed.

(* without the keyword nothing is maintained *)
Lemma generated_suppress_without_update_l : forall h t stored,
  ogen_suppress_unifurcations_stored false h t stored = stored.
Proof.
  intros. unfold ogen_suppress_unifurcations_stored, ogen_supp_init. cbn [andb]. rewrite fold_mark_none. reflexivity.
Qed.
