(* C17: the generated calc_node_root_distances / num_lineages_at / set_edge_lengths_from_node_ages
   (Gen/Ages.v) equal the hand-written model *)
From Coq Require Import ZArith QArith List Bool Lia ZifyBool.
From DV Require Import Model.PyPrims Model.Tree Model.C17Model Model.C17Prims Gen.Ages.
From DV Require Import Proofs.C17Ages Proofs.C17Depth Proofs.C17GenLib.
Import ListNotations.
Open Scope Z_scope.

(* ------------------------------------------------------------------------------------------ *)
(* root distances                                                                              *)

(* the root_distance attributes of the subtree k hanging below a node of depth pd *)
Fixpoint rd_ok (st : store) (pd : Z) (k : tree) : Prop :=
  match k with
  | T i _ _ e ks =>
    exists l, e = Some l /\ s_rd st i = Some (l + pd)
      /\ (fix all (cs : list tree) : Prop := match cs with [] => True | c :: r => rd_ok st (l + pd) c /\ all r end) ks
  end.

Fixpoint rd_ok_all (st : store) (d : Z) (cs : list tree) : Prop :=
  match cs with [] => True | c :: r => rd_ok st d c /\ rd_ok_all st d r end.

Lemma rd_ok_unfold st pd i x l0 e ks :
  rd_ok st pd (T i x l0 e ks) <-> exists l, e = Some l /\ s_rd st i = Some (l + pd) /\ rd_ok_all st (l + pd) ks.
Proof.
  cbn [rd_ok]. split; intros [l [E [H1 H2]]]; exists l; (split; [exact E|]); (split; [exact H1|]).
  - induction ks as [|c r IH]; [exact I|]. destruct H2 as [Hc Hr]. split; [exact Hc | apply IH; exact Hr].
  - induction ks as [|c r IH]; [exact I|]. destruct H2 as [Hc Hr]. split; [exact Hc | apply IH; exact Hr].
Qed.

Lemma rd_ok_frame st1 st2 k : forall pd, (forall j, In j (ids k) -> s_rd st2 j = s_rd st1 j) -> rd_ok st1 pd k -> rd_ok st2 pd k.
Proof.
  induction k as [i x l0 e ks IH] using tree_ind'. intros pd Hf H. apply rd_ok_unfold in H. apply rd_ok_unfold.
  destruct H as [l [E [H1 H2]]]. exists l. split; [exact E|]. split.
  - rewrite Hf; [exact H1|]. rewrite ids_unfold. left. reflexivity.
  - assert (Hf' : forall c, In c ks -> forall j, In j (ids c) -> s_rd st2 j = s_rd st1 j).
    { intros c Hc j Hj. apply Hf. eapply in_ids_kid; [exact Hc | exact Hj]. }
    clear Hf H1. induction IH as [|c r Hc _ IHr]; [exact I|]. destruct H2 as [H2c H2r]. split.
    + apply Hc; [apply Hf'; left; reflexivity | exact H2c].
    + apply IHr; [exact H2r|]. intros c' Hc' j Hj. apply (Hf' c' (or_intror Hc') j Hj).
Qed.

Definition rd_keep (lo : bool) (d : dentry) : bool := negb lo || d_leaf d.

Lemma rd_node_step lo t0 i x l0 e ks p anc st dists pd :
  s_rd st p = Some pd -> s_len st i = e ->
  g_calc_node_root_distances_loop1 lo t0 (mkNode (T i x l0 e ks) (p :: anc)) (st, dists)
  = match e with
    | None => XErr (Py TypeErr)
    | Some l => XOk (py_set_root_distance st i (l + pd),
                     dists ++ map d_depth (filter (rd_keep lo) [mkD i pd (l + pd) (is_leaf (T i x l0 e ks))]))
    end.
Proof.
  intros Hp El. unfold g_calc_node_root_distances_loop1, g_calc_node_root_distances_join1. cbv beta iota zeta.
  cbn [py_parent n_anc hd_error py_is_none py_deref xbind]. unfold py_root_distance at 1. rewrite Hp. cbn [xbind].
  unfold n_id. cbn [n_sub t_id]. unfold py_length. rewrite El.
  destruct e as [l|]; cbn [py_add_oo xbind]; [|reflexivity].
  unfold py_root_distance. cbn [s_rd py_set_root_distance]. rewrite upd_same. cbn [xbind filter].
  unfold rd_keep at 1. cbn [d_leaf]. unfold py_is_leaf. cbn [n_sub].
  destruct (negb lo || is_leaf (T i x l0 (Some l) ks)); cbn [map d_depth py_append]; [reflexivity | rewrite app_nil_r; reflexivity].
Qed.

Lemma rd_root_step lo t0 t st :
  g_calc_node_root_distances_loop1 lo t0 (mkNode t []) (st, [])
  = XOk (py_set_root_distance st (t_id t) 0, map d_depth (filter (rd_keep lo) [mkD (t_id t) 0 0 (is_leaf t)])).
Proof.
  unfold g_calc_node_root_distances_loop1, g_calc_node_root_distances_join1. cbv beta iota zeta.
  cbn [py_parent n_anc hd_error py_is_none xbind]. unfold n_id. cbn [n_sub].
  unfold py_root_distance. cbn [s_rd py_set_root_distance]. rewrite upd_same. cbn [xbind filter].
  unfold rd_keep at 1. cbn [d_leaf]. unfold py_is_leaf. cbn [n_sub].
  destruct (negb lo || is_leaf t); reflexivity.
Qed.

Lemma rd_sub lo t0 k : forall p anc pd st dists,
  s_rd st p = Some pd -> lens_agree st k -> NoDup (ids k) -> ~ In p (ids k) ->
  match rd pd k with
  | Ok ds =>
    exists st', py_for (pre_under (p :: anc) k) (g_calc_node_root_distances_loop1 lo t0) (st, dists)
                = XOk (st', dists ++ map d_depth (filter (rd_keep lo) ds))
      /\ rd_ok st' pd k
      /\ (forall j, ~ In j (ids k) -> s_rd st' j = s_rd st j)
      /\ s_age st' = s_age st /\ s_len st' = s_len st
  | Err e => py_for (pre_under (p :: anc) k) (g_calc_node_root_distances_loop1 lo t0) (st, dists) = XErr (Py e)
  | OutOfFuel => False
  end.
Proof.
  induction k as [i x l0 e ks IH] using tree_ind'. intros p anc pd st dists Hp Hl Hnd Hpn.
  rewrite pre_under_unfold. cbn [t_id t_kids py_for rd].
  assert (El : s_len st i = e) by (apply (Hl _ (in_preorder_self _))).
  rewrite (rd_node_step lo t0 i x l0 e ks p anc st dists pd Hp El).
  destruct e as [l|]; cbn [xbind]; [|reflexivity].
  set (st1 := py_set_root_distance st i (l + pd)).
  assert (H1 : s_rd st1 i = Some (l + pd)) by (cbn; apply upd_same).
  set (self := mkD i pd (l + pd) (is_leaf (T i x l0 (Some l) ks))).
  set (dists1 := dists ++ map d_depth (filter (rd_keep lo) [self])).
  assert (Ed : dists1 = dists ++ map d_depth (filter (rd_keep lo) [self])) by reflexivity.
  (* the children *)
  destruct (nodup_root _ Hnd) as [Hroot Hd]. cbn [t_id t_kids] in Hroot, Hd.
  assert (Hkids : forall st2 dists2,
    s_rd st2 i = Some (l + pd) -> (forall c, In c ks -> lens_agree st2 c) ->
    match rsequence (map (rd (l + pd)) ks) with
    | Ok rest =>
      exists st', py_for (flat_map (pre_under (i :: p :: anc)) ks) (g_calc_node_root_distances_loop1 lo t0) (st2, dists2)
                  = XOk (st', dists2 ++ map d_depth (filter (rd_keep lo) (concat rest)))
        /\ rd_ok_all st' (l + pd) ks
        /\ (forall j, ~ In j (flat_map ids ks) -> s_rd st' j = s_rd st2 j)
        /\ s_age st' = s_age st2 /\ s_len st' = s_len st2
    | Err er => py_for (flat_map (pre_under (i :: p :: anc)) ks) (g_calc_node_root_distances_loop1 lo t0) (st2, dists2) = XErr (Py er)
    | OutOfFuel => False
    end).
  { clear Hl El Hnd Hp Hpn H1 Ed dists1. induction IH as [|k r Hk _ IHr]; intros st2 dists2 Hi Hl2.
    - cbn. exists st2. rewrite app_nil_r. repeat split; intros; reflexivity.
    - destruct (nodup_kids_cons k r Hd) as [Hdk [Hdr Hdisj]].
      cbn [flat_map map rsequence]. rewrite py_for_app.
      assert (Hik : ~ In i (ids k)) by (intro Hin; apply Hroot; apply in_or_app; left; exact Hin).
      specialize (Hk i (p :: anc) (l + pd) st2 dists2 Hi (Hl2 k (or_introl eq_refl)) Hdk Hik).
      destruct (rd (l + pd) k) as [dsk| |]; [|rewrite Hk; reflexivity | exact Hk].
      destruct Hk as [st3 [E3 [Hok3 [Hf3 [Ha3 Hl3]]]]]. rewrite E3. cbn [xbind].
      assert (Hi3 : s_rd st3 i = Some (l + pd)) by (rewrite Hf3; [exact Hi | exact Hik]).
      assert (Hl3' : forall c, In c r -> lens_agree st3 c).
      { intros c Hc v Hv. rewrite Hl3. apply (Hl2 c (or_intror Hc) v Hv). }
      assert (Hroot' : ~ In i (flat_map ids r)) by (intro Hin; apply Hroot; apply in_or_app; right; exact Hin).
      specialize (IHr Hroot' Hdr st3 (dists2 ++ map d_depth (filter (rd_keep lo) dsk)) Hi3 Hl3').
      destruct (rsequence (map (rd (l + pd)) r)) as [rest| |]; [|exact IHr | exact IHr].
      destruct IHr as [st4 [E4 [Hok4 [Hf4 [Ha4 Hl4]]]]]. exists st4. split.
      + rewrite E4. cbn [concat]. rewrite filter_app, map_app, app_assoc. reflexivity.
      + split; [|split; [|split]].
        * split; [|exact Hok4]. apply (rd_ok_frame st3 st4); [|exact Hok3].
          intros j Hj. apply Hf4. apply Hdisj. exact Hj.
        * intros j Hj. rewrite Hf4, Hf3; [reflexivity | |]; intro Hin; apply Hj; apply in_or_app; [left | right]; exact Hin.
        * rewrite Ha4. exact Ha3.
        * rewrite Hl4. exact Hl3. }
  assert (Hl1 : forall c, In c ks -> lens_agree st1 c).
  { intros c Hc v Hv. cbn. apply (Hl v). eapply in_preorder_kid; [exact Hc | exact Hv]. }
  specialize (Hkids st1 dists1 H1 Hl1).
  destruct (rsequence (map (rd (l + pd)) ks)) as [rest| |]; [|exact Hkids | exact Hkids].
  destruct Hkids as [st' [E' [Hok' [Hf' [Ha' Hl']]]]]. exists st'. split.
  - rewrite E', Ed.
    change (filter (rd_keep lo) (self :: concat rest)) with (filter (rd_keep lo) ([self] ++ concat rest)).
    rewrite filter_app, map_app, app_assoc. reflexivity.
  - split; [|split; [|split]].
    + apply rd_ok_unfold. exists l. split; [reflexivity|]. split; [|exact Hok'].
      rewrite Hf'; [exact H1 | exact Hroot].
    + intros j Hj. rewrite Hf'.
      * cbn. apply upd_other. intro E. apply Hj. rewrite ids_unfold. left. symmetry. exact E.
      * intro Hin. apply Hj. rewrite ids_unfold. right. exact Hin.
    + rewrite Ha'. reflexivity.
    + rewrite Hl'. reflexivity.
Qed.

(* the whole tree *)
Lemma rd_root lo t st : lens_agree st t -> NoDup (ids t) ->
  match root_dists t with
  | Ok ds =>
    exists st', py_for (py_preorder_nodes t) (g_calc_node_root_distances_loop1 lo t) (st, [])
                = XOk (st', map d_depth (filter (rd_keep lo) ds))
      /\ s_rd st' (t_id t) = Some 0 /\ rd_ok_all st' 0 (t_kids t)
      /\ s_age st' = s_age st /\ s_len st' = s_len st
  | Err e => py_for (py_preorder_nodes t) (g_calc_node_root_distances_loop1 lo t) (st, []) = XErr (Py e)
  | OutOfFuel => False
  end.
Proof.
  intros Hl Hnd. unfold py_preorder_nodes, root_dists. rewrite pre_under_unfold. cbn [py_for].
  rewrite rd_root_step. cbn [xbind].
  set (i := t_id t). set (st1 := py_set_root_distance st i 0).
  assert (H1 : s_rd st1 i = Some 0) by (cbn; apply upd_same).
  set (self := mkD i 0 0 (is_leaf t)).
  set (dists1 := map d_depth (filter (rd_keep lo) [self])).
  assert (Ed : dists1 = map d_depth (filter (rd_keep lo) [self])) by reflexivity.
  destruct (nodup_root _ Hnd) as [Hroot Hd]. fold i in Hroot.
  assert (Hkids : forall st2 dists2,
    s_rd st2 i = Some 0 -> (forall c, In c (t_kids t) -> lens_agree st2 c) ->
    match rsequence (map (rd 0) (t_kids t)) with
    | Ok rest =>
      exists st', py_for (flat_map (pre_under [i]) (t_kids t)) (g_calc_node_root_distances_loop1 lo t) (st2, dists2)
                  = XOk (st', dists2 ++ map d_depth (filter (rd_keep lo) (concat rest)))
        /\ rd_ok_all st' 0 (t_kids t)
        /\ (forall j, ~ In j (flat_map ids (t_kids t)) -> s_rd st' j = s_rd st2 j)
        /\ s_age st' = s_age st2 /\ s_len st' = s_len st2
    | Err er => py_for (flat_map (pre_under [i]) (t_kids t)) (g_calc_node_root_distances_loop1 lo t) (st2, dists2) = XErr (Py er)
    | OutOfFuel => False
    end).
  { clear Hl Hnd H1 Ed dists1. induction (t_kids t) as [|k r IHr]; intros st2 dists2 Hi Hl2.
    - cbn. exists st2. rewrite app_nil_r. repeat split; intros; reflexivity.
    - destruct (nodup_kids_cons k r Hd) as [Hdk [Hdr Hdisj]].
      cbn [flat_map map rsequence]. rewrite py_for_app.
      assert (Hik : ~ In i (ids k)) by (intro Hin; apply Hroot; apply in_or_app; left; exact Hin).
      pose proof (rd_sub lo t k i [] 0 st2 dists2 Hi (Hl2 k (or_introl eq_refl)) Hdk Hik) as Hk.
      destruct (rd 0 k) as [dsk| |]; [|rewrite Hk; reflexivity | exact Hk].
      destruct Hk as [st3 [E3 [Hok3 [Hf3 [Ha3 Hl3]]]]]. rewrite E3. cbn [xbind].
      assert (Hi3 : s_rd st3 i = Some 0) by (rewrite Hf3; [exact Hi | exact Hik]).
      assert (Hl3' : forall c, In c r -> lens_agree st3 c).
      { intros c Hc v Hv. rewrite Hl3. apply (Hl2 c (or_intror Hc) v Hv). }
      assert (Hroot' : ~ In i (flat_map ids r)) by (intro Hin; apply Hroot; apply in_or_app; right; exact Hin).
      specialize (IHr Hroot' Hdr st3 (dists2 ++ map d_depth (filter (rd_keep lo) dsk)) Hi3 Hl3').
      destruct (rsequence (map (rd 0) r)) as [rest| |]; [|exact IHr | exact IHr].
      destruct IHr as [st4 [E4 [Hok4 [Hf4 [Ha4 Hl4]]]]]. exists st4. split.
      + rewrite E4. cbn [concat]. rewrite filter_app, map_app, app_assoc. reflexivity.
      + split; [|split; [|split]].
        * split; [|exact Hok4]. apply (rd_ok_frame st3 st4); [|exact Hok3].
          intros j Hj. apply Hf4. apply Hdisj. exact Hj.
        * intros j Hj. rewrite Hf4, Hf3; [reflexivity | |]; intro Hin; apply Hj; apply in_or_app; [left | right]; exact Hin.
        * rewrite Ha4. exact Ha3.
        * rewrite Hl4. exact Hl3. }
  assert (Hl1 : forall c, In c (t_kids t) -> lens_agree st1 c).
  { intros c Hc v Hv. cbn. apply (Hl v). eapply in_preorder_kid; [exact Hc | exact Hv]. }
  specialize (Hkids st1 dists1 H1 Hl1).
  destruct (rsequence (map (rd 0) (t_kids t))) as [rest| |]; [|exact Hkids | exact Hkids].
  destruct Hkids as [st' [E' [Hok' [Hf' [Ha' Hl']]]]]. exists st'. split.
  - rewrite E', Ed.
    change (filter (rd_keep lo) (self :: concat rest)) with (filter (rd_keep lo) ([self] ++ concat rest)).
    rewrite filter_app, map_app. reflexivity.
  - split; [rewrite Hf'; [exact H1 | exact Hroot]|]. split; [exact Hok'|]. split; [rewrite Ha' | rewrite Hl']; reflexivity.
Qed.

Lemma g_root_distances_eq_l : forall lo t st, lens_agree st t -> NoDup (ids t) ->
  match calc_node_root_distances lo t with
  | Ok l => exists st', g_calc_node_root_distances lo t st = XOk (st', l)
              /\ s_rd st' (t_id t) = Some 0 /\ rd_ok_all st' 0 (t_kids t)
              /\ s_age st' = s_age st /\ s_len st' = s_len st
  | Err e => g_calc_node_root_distances lo t st = XErr (Py e)
  | OutOfFuel => False
  end.
Proof.
  intros lo t st Hl Hnd. unfold g_calc_node_root_distances, calc_node_root_distances.
  pose proof (rd_root lo t st Hl Hnd) as H.
  destruct (root_dists t) as [ds| |]; [|rewrite H; reflexivity | exact H].
  destruct H as [st' [E H]]. exists st'. rewrite E. cbn [xbind]. split; [reflexivity | exact H].
Qed.

(* ------------------------------------------------------------------------------------------ *)
(* num_lineages_at                                                                             *)

Lemma lin_sub x t0 st k : forall p anc pd n,
  s_rd st p = Some pd -> rd_ok st pd k ->
  exists ds, rd pd k = Ok ds
    /\ py_for (pre_under (p :: anc) k) (g_num_lineages_at_loop1 x t0 st) n
       = XOk (n + Z.of_nat (length (filter (lineage_here x) ds))).
Proof.
  induction k as [i x0 l0 e ks IH] using tree_ind'. intros p anc pd n Hp Hok.
  apply rd_ok_unfold in Hok. destruct Hok as [l [-> [Hi Hall]]].
  rewrite pre_under_unfold. cbn [t_id t_kids py_for rd].
  assert (Hkids : forall n1,
    exists rest, rsequence (map (rd (l + pd)) ks) = Ok rest
      /\ py_for (flat_map (pre_under (i :: p :: anc)) ks) (g_num_lineages_at_loop1 x t0 st) n1
         = XOk (n1 + Z.of_nat (length (filter (lineage_here x) (concat rest))))).
  { induction IH as [|k r Hk _ IHr]; intro n1.
    - exists []. split; [reflexivity|]. cbn. f_equal. lia.
    - destruct Hall as [Hokk Hallr]. cbn [flat_map map rsequence].
      destruct (Hk i (p :: anc) (l + pd) n1 Hi Hokk) as [dsk [Ek Lk]]. rewrite Ek.
      destruct (IHr Hallr (n1 + Z.of_nat (length (filter (lineage_here x) dsk)))) as [rest [Er Lr]]. rewrite Er.
      exists (dsk :: rest). split; [reflexivity|]. rewrite py_for_app, Lk. cbn [xbind]. rewrite Lr.
      cbn [concat]. rewrite filter_app, app_length. f_equal. lia. }
  destruct (Hkids (n + Z.of_nat (length (filter (lineage_here x) [mkD i pd (l + pd) (is_leaf (T i x0 l0 (Some l) ks))])))) as [rest [Er Lr]].
  rewrite Er. eexists. split; [reflexivity|].
  unfold g_num_lineages_at_loop1 at 1. cbv beta iota zeta.
  cbn [py_parent n_anc hd_error py_is_none negb py_deref xbind]. unfold n_id. cbn [n_sub t_id].
  unfold py_root_distance. rewrite Hi, Hp. cbn [xbind].
  set (F := filter (lineage_here x) [mkD i pd (l + pd) (is_leaf (T i x0 l0 (Some l) ks))]) in *.
  assert (HF : (if l + pd =? x then XOk (n + 1)
                else xbind (if l + pd >=? x then XOk (pd <? x) else XOk false)
                       (fun b5 : bool => if b5 then XOk (n + 1) else XOk n))
               = XOk (n + Z.of_nat (length F))).
  { unfold F. cbn [filter]. unfold lineage_here. cbn [d_depth d_parent].
    destruct (l + pd =? x); cbn [orb]; [cbn; reflexivity|].
    destruct (l + pd >=? x); cbn [andb xbind]; [|cbn; f_equal; lia].
    destruct (pd <? x); cbn; f_equal; lia. }
  rewrite HF. cbn [xbind]. rewrite Lr. f_equal.
  change (mkD i pd (l + pd) (is_leaf (T i x0 l0 (Some l) ks)) :: concat rest)
    with ([mkD i pd (l + pd) (is_leaf (T i x0 l0 (Some l) ks))] ++ concat rest).
  rewrite filter_app, app_length. fold F. lia.
Qed.

Lemma g_num_lineages_eq_l : forall x t st, lens_agree st t -> NoDup (ids t) ->
  match num_lineages_at x t with
  | Ok n => exists st', g_num_lineages_at x t st = XOk (st', n) /\ s_age st' = s_age st /\ s_len st' = s_len st
  | Err e => g_num_lineages_at x t st = XErr (Py e)
  | OutOfFuel => False
  end.
Proof.
  intros x t st Hl Hnd. unfold g_num_lineages_at, num_lineages_at.
  pose proof (g_root_distances_eq_l true t st Hl Hnd) as H. unfold calc_node_root_distances in H.
  unfold root_dists in *.
  destruct (rsequence (map (rd 0) (t_kids t))) as [rest0| |] eqn:Er0; [|rewrite H; reflexivity | exact H].
  destruct H as [st' [E [Hroot [Hall [Ha Hl']]]]]. rewrite E. cbn [xbind tl].
  exists st'. split; [|split; assumption].
  unfold py_preorder_nodes. rewrite pre_under_unfold. cbn [py_for].
  unfold g_num_lineages_at_loop1 at 1. cbv beta iota. cbn [py_parent n_anc hd_error py_is_none negb xbind].
  assert (Hkids : forall n1,
    exists rest, rsequence (map (rd 0) (t_kids t)) = Ok rest
      /\ py_for (flat_map (pre_under [t_id t]) (t_kids t)) (g_num_lineages_at_loop1 x t st') n1
         = XOk (n1 + Z.of_nat (length (filter (lineage_here x) (concat rest))))).
  { clear Er0 E. induction (t_kids t) as [|k r IHr]; intro n1.
    - exists []. split; [reflexivity|]. cbn. f_equal. lia.
    - destruct Hall as [Hokk Hallr]. cbn [flat_map map rsequence].
      destruct (lin_sub x t st' k (t_id t) [] 0 n1 Hroot Hokk) as [dsk [Ek Lk]]. rewrite Ek.
      destruct (IHr Hallr (n1 + Z.of_nat (length (filter (lineage_here x) dsk)))) as [rest [Er Lr]]. rewrite Er.
      exists (dsk :: rest). split; [reflexivity|]. rewrite py_for_app, Lk. cbn [xbind]. rewrite Lr.
      cbn [concat]. rewrite filter_app, app_length. f_equal. lia. }
  destruct (Hkids 0) as [rest [Er Lr]]. rewrite Er0 in Er. inversion Er; subst rest. rewrite Lr. cbn [xbind]. reflexivity.
Qed.

