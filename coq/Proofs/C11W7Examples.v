(* C11, wave 7: non-vacuity examples (the histories are the fixed wave-7 cases of py/dv/c11.py, which the
   harness replays on the library on every run) *)
From Coq Require Import List Bool Arith ZArith.
From DV Require Import Model.PyPrims Model.C11Model Model.C11W7Model Proofs.C11Final Proofs.C11W7 Proofs.C11W7b.
Import ListNotations.
Open Scope nat_scope.

(* label pool A B C a b c = 0..5; str.lower on it *)
Definition w7_lower : lbl -> lbl := tbl_lower [(0, 3); (1, 4); (2, 5); (3, 3); (4, 4); (5, 5)].

Definition w7_history0 : list op7 :=
  [(Base (NewNs false)); (Base (NewNs false)); (Base (NewNs true)); (Base (NewTaxon 0 0)); (Base (NewTaxon 0 1)); (Base (NewTaxon 1 3)); (Base (NewTaxon 1 2)); (Base (NewTaxon 2 0)); (Base (NewTaxon 2 3)); (Base (NewList 0)); (Base (NewList 1)); (Base (NewList 2)); (Base (MkTree 0 [0; 1])); (Base (MkTree 1 [2; 3])); (Base (MkTree 2 [4; 5])); (Base (MkTree 2 [5; 4; 4])); (Base (NewMat 0)); (Base (NewSeq 0 0)); (Base (NewSeq 0 1)); (CopyMat 0); (Base (MigrateMat 1 1 true)); (CopyMat 0); (Base NewDs); (Base (DsAdd 0 (ObjMat 0))); (Base (Unify 0 None true)); (Base (SetRow 2 (KeyLabel 4))); (Base (ReconstructMat 2 false)); (Base (NewSeq 1 3))].

Definition w7_history1 : list op7 :=
  [(Base (NewNs false)); (Base (NewNs false)); (Base (NewNs true)); (Base (NewTaxon 0 0)); (Base (NewTaxon 0 1)); (Base (NewTaxon 1 3)); (Base (NewTaxon 1 2)); (Base (NewTaxon 2 0)); (Base (NewTaxon 2 3)); (Base (NewList 0)); (Base (NewList 1)); (Base (NewList 2)); (Base (MkTree 0 [0; 1])); (Base (MkTree 1 [2; 3])); (Base (MkTree 2 [4; 5])); (Base (MkTree 2 [5; 4; 4])); (Base (Append 0 0 (SMigrate true))); (CopyList 0); (Base (Pop 3 0%Z)); (Base (NewTreeIn 0 None [0])); (Base (ReconstructList 3 true)); (CopyList 0); (Base (UpdateList 4)); (Base (Remove 0 0))].

Definition w7_history2 : list op7 :=
  [(Base (NewNs false)); (Base (NewNs false)); (Base (NewNs true)); (Base (NewTaxon 0 0)); (Base (NewTaxon 0 1)); (Base (NewTaxon 1 3)); (Base (NewTaxon 1 2)); (Base (NewTaxon 2 0)); (Base (NewTaxon 2 3)); (Base (NewList 0)); (Base (NewList 1)); (Base (NewList 2)); (Base (MkTree 0 [0; 1])); (Base (MkTree 1 [2; 3])); (Base (MkTree 2 [4; 5])); (Base (MkTree 2 [5; 4; 4])); (FreeTaxon 2); (NewMemo [(2, 6)]); (AppendM 0 1 (SMigrate true) 0); (Base (MkTree 1 [3; 2])); (InsertM 0 0%Z 4 (SMigrate true) 0); (Base (MkTree 1 [2])); (MigrateTreeM 5 2 false 0)].

Definition w7_history3 : list op7 :=
  [(Base (NewNs false)); (Base (NewNs false)); (Base (NewNs true)); (Base (NewTaxon 0 0)); (Base (NewTaxon 0 1)); (Base (NewTaxon 1 3)); (Base (NewTaxon 1 2)); (Base (NewTaxon 2 0)); (Base (NewTaxon 2 3)); (Base (NewList 0)); (Base (NewList 1)); (Base (NewList 2)); (Base (MkTree 0 [0; 1])); (Base (MkTree 1 [2; 3])); (Base (MkTree 2 [4; 5])); (Base (MkTree 2 [5; 4; 4])); (NewMemo []); (AppendM 0 1 (SMigrate true) 0); (Base (MkTree 1 [3; 2])); (AppendM 2 4 (SMigrate true) 0); (Base (MkTree 1 [2; 3; 2])); (Base (NewNs false)); (MigrateTreeM 5 3 true 0); (ReconstructTreeM 5 true 0); (Base (NewList 1)); (Base (MkTree 1 [2])); (Base (Append 3 6 (SMigrate true))); (MigrateListM 3 3 false 0); (ReconstructListM 3 true 0)].

Definition w7_history4 : list op7 :=
  [(Base (NewNs false)); (Base (NewNs false)); (Base (NewNs true)); (Base (NewTaxon 0 0)); (Base (NewTaxon 0 1)); (Base (NewTaxon 1 3)); (Base (NewTaxon 1 2)); (Base (NewTaxon 2 0)); (Base (NewTaxon 2 3)); (Base (NewList 0)); (Base (NewList 1)); (Base (NewList 2)); (Base (MkTree 0 [0; 1])); (Base (MkTree 1 [2; 3])); (Base (MkTree 2 [4; 5])); (Base (MkTree 2 [5; 4; 4])); (Base (NewMat 1)); (Base (NewSeq 0 2)); (Base (NewSeq 0 3)); (NewMemo [(2, 1)]); (MigrateMatM 0 0 true 0); (NewMemo [(1, 4); (6, 5)]); (ReconstructMatM 0 true 1); (MigrateMatM 0 2 false 1); (AppendM 0 1 SAdd 0); (InsertM 0 0%Z 2 SBogus 0)].

Lemma w7_hist_ok_l :
  hist_ok7 w7_lower x_init w7_history0 = true /\ hist_ok7 w7_lower x_init w7_history1 = true
  /\ hist_ok7 w7_lower x_init w7_history2 = true /\ hist_ok7 w7_lower x_init w7_history3 = true
  /\ hist_ok7 w7_lower x_init (firstn 24 w7_history4) = true
  /\ length (s_mats (x_st (run_state7 w7_lower x_init w7_history0))) = 3
  /\ length (x_memos (run_state7 w7_lower x_init w7_history4)) = 2.
Proof. vm_compute. repeat split. Qed.

(* the hypotheses of migrate_tree_memo_step: on the state after `FreeTaxon a ; NewMemo {taxon 2 (a of ns1): taxon 6
   (the free one)}`, tree 1 of ns1 carries taxon 2 at node 0, the memo maps it to taxon 6, which is in no
   namespace; after tree1.migrate_taxon_namespace(ns0, taxon_mapping_memo=memo) it is a member of ns0 (the free taxon is labelled C, so the
   node that carried C of ns1 finds it by label, too) *)
Lemma w7_memo_example_l :
  let x := run_state7 w7_lower x_init (firstn 18 w7_history2) in
  valid_tree (x_st x) 1 = true /\ valid_ns (x_st x) 0 = true /\ valid_memo x 0 = true
  /\ nth_error (t_refs (gettree (x_st x) 1)) 0 = Some 2 /\ alookup 2 (getmemo x 0) = Some 6
  /\ memb 6 (members (x_st x) 0) = false
  /\ memb 6 (members (x_st (fst (step7 w7_lower x (MigrateTreeM 1 0 true 0)))) 0) = true
  /\ t_refs (gettree (x_st (fst (step7 w7_lower x (MigrateTreeM 1 0 true 0)))) 1) = [6; 6].
Proof. vm_compute. repeat split. Qed.
