(* C05, wave 6: what set_edge_lengths writes, stated on the GENERATED summarize_splits_on_tree
   (the view of Gen/SplitDist.v): the edge length / node age of every node per mode *)
From Coq Require Import ZArith QArith Qabs Qreduction List Bool Lia String.
From DV Require Import Model.PyPrims Gen.BitFns Gen.Consts Model.C05Model Model.C05Spec Model.C05Model2
     Model.C05GenPrims Model.C05GenPrims2 Gen.SplitDist
     Proofs.C05Lists Proofs.C05Freq Proofs.C05Trees Proofs.C05Stats Proofs.C05GenStats Proofs.C05GenDist
     Proofs.C05GenDist4 Proofs.C05GenScores Proofs.C05GenSumm.
Import ListNotations.
Open Scope Z_scope.

(* the statistic of a split's summary a mode reads; 0.0 (the no-data value) without a summary *)
Definition mean_or_0 (tbl : list (Z * summary)) (s : Z) : Q := match aget s tbl with Some sm => s_mean sm | None => 0%Q end.
Definition median_or_0 (tbl : list (Z * summary)) (s : Z) : Q := match aget s tbl with Some sm => s_median sm | None => 0%Q end.

(* preorder with the split of each node's parent (None for the seed node) *)
Fixpoint st_pre_pa (pa : option Z) (t : stree) : list (option Z * stree) :=
  match t with SN s _ ks => (pa, t) :: flat_map (st_pre_pa (Some s)) ks end.

Definition len_by_mode (o : sopts) (ftbl : list (Z * Q)) (lsum : list (Z * summary)) (node : stree) : option Q :=
  match o_mode o with
  | ELNone | ELKeep => sn_len node
  | ELClear => None
  | ELSupport => Some (clamp_min (o_min_len o) (support_of ftbl o (sn_split node)))
  | ELMeanLen => Some (clamp_min (o_min_len o) (mean_or_0 lsum (sn_split node)))
  | ELMedianLen => Some (clamp_min (o_min_len o) (median_or_0 lsum (sn_split node)))
  | ELMeanAge | ELMedianAge => sn_len node
  end.

Lemma Forall2_map_r {A B} (R : A -> B -> Prop) (g : A -> B) l : (forall a, R a (g a)) -> Forall2 R l (map g l).
Proof. intro H. induction l; simpl; constructor; auto. Qed.

Theorem gen_lengths_nonage_l c o x t b x' outs :
  NoDup (keys (counts (x_sd x))) -> NoDup (keys (elens (x_sd x))) -> NoDup (keys (nages (x_sd x))) ->
  x_counted_for_summ x <> total (x_sd x) ->
  is_age_mode (o_mode o) = false ->
  gen_summarize_splits_on_tree c o x t b = Ok (x', outs) ->
  Forall2 (fun node v => nv_split v = sn_split node /\ nv_age v = None /\
                         nv_len v = len_by_mode o (snd (get_freqs (x_sd x))) (calc_summaries (elens (x_sd x))) node)
          (st_preorder t) outs.
Proof.
  intros N1 N2 N3 NE NA G.
  pose proof (gen_summarize_splits_on_tree_eq c o x t b N1 N2 N3 NE) as M.
  unfold summarize_tree in M.
  destruct (get_freqs (x_sd x)) as [d1 ftbl]. cbn [fst snd] in M |- *.
  set (lsum := calc_summaries (elens (x_sd x))) in *. set (asum := calc_summaries (nages (x_sd x))) in *.
  rewrite NA in M.
  assert (S : exists outs0, sequence (summ_nodes ftbl lsum asum o None t) = Ok outs0 /\ outs = map conv outs0).
  { match type of M with
    | match ?r with _ => _ end =>
      destruct r as [outs0| |] eqn:R; [destruct M as [x2 [M1 _]]; rewrite M1 in G; inversion G; exists outs0; split; [| reflexivity]
                                      | rewrite M in G; discriminate | contradiction]
    end.
    destruct asum; destruct lsum; destruct (is_len_mode (o_mode o)); try discriminate R; exact R. }
  destruct S as [outs0 [S ->]].
  assert (NL : forall pa s cur, new_len ftbl lsum asum o pa s cur = Ok (len_by_mode o ftbl lsum (SN s cur []))).
  { intros. unfold new_len, len_by_mode, mean_or_0, median_or_0. cbn [sn_len sn_split].
    destruct (o_mode o); try discriminate NA; reflexivity. }
  rewrite (summ_nodes_map ftbl lsum asum o (fun s cur => len_by_mode o ftbl lsum (SN s cur [])) NL) in S.
  rewrite sequence_map_ok2 in S. inversion S. subst outs0. rewrite map_map.
  apply Forall2_map_r. intro node. unfold conv. cbn [nv_split nv_age nv_len n_split n_age n_len].
  split; [reflexivity|]. split.
  - unfold assigned_age. destruct (o_mode o); try discriminate NA; reflexivity.
  - unfold len_by_mode. destruct node; reflexivity.
Qed.

(* the age modes: every node gets node.age = the mean / median of the ages of its split; then
   tree.set_edge_lengths_from_node_ages gives every non-seed node parent.age - node.age, raised to
   minimum_edge_length; (a negative result under error_on_negative_edge_lengths makes the call fail) *)
Definition age_by_mode (o : sopts) (asum : list (Z * summary)) (s : Z) : Q :=
  match o_mode o with ELMedianAge => median_or_0 asum s | _ => mean_or_0 asum s end.

Theorem gen_lengths_age_l c o x t b x' outs :
  NoDup (keys (counts (x_sd x))) -> NoDup (keys (elens (x_sd x))) -> NoDup (keys (nages (x_sd x))) ->
  x_counted_for_summ x <> total (x_sd x) ->
  is_age_mode (o_mode o) = true ->
  gen_summarize_splits_on_tree c o x t b = Ok (x', outs) ->
  let asum := calc_summaries (nages (x_sd x)) in
  Forall2 (fun pn v =>
             nv_split v = sn_split (snd pn) /\
             nv_age v = Some (age_by_mode o asum (sn_split (snd pn))) /\
             nv_len v = match fst pn with
                        | None => sn_len (snd pn)
                        | Some p => Some (clamp_min (o_min_len o)
                                            (qminus (age_by_mode o asum p) (age_by_mode o asum (sn_split (snd pn)))))
                        end)
          (st_pre_pa None t) outs.
Proof.
  intros N1 N2 N3 NE NA G asum.
  pose proof (gen_summarize_splits_on_tree_eq c o x t b N1 N2 N3 NE) as M.
  unfold summarize_tree in M.
  destruct (get_freqs (x_sd x)) as [d1 ftbl]. cbn [fst snd] in M.
  set (lsum := calc_summaries (elens (x_sd x))) in *. fold asum in M.
  rewrite NA in M.
  assert (S : exists outs0, sequence (summ_nodes ftbl lsum asum o None t) = Ok outs0 /\ outs = map conv outs0).
  { match type of M with
    | match ?r with _ => _ end =>
      destruct r as [outs0| |] eqn:R; [destruct M as [x2 [M1 _]]; rewrite M1 in G; inversion G; exists outs0; split; [| reflexivity]
                                      | rewrite M in G; discriminate | contradiction]
    end.
    destruct asum; destruct lsum; destruct (is_len_mode (o_mode o)); try discriminate R; exact R. }
  destruct S as [outs0 [S ->]]. clear M G.
  set (age_of := age_by_mode o asum).
  assert (Hage : forall s, assigned_age asum o s = Some (age_of s)).
  { intro s. unfold assigned_age, age_of, age_by_mode, mean_or_0, median_or_0. destruct (o_mode o); try discriminate NA; reflexivity. }
  assert (GEN : forall t pa outs0,
    sequence (summ_nodes ftbl lsum asum o (option_map age_of pa) t) = Ok outs0 ->
    Forall2 (fun pn v =>
               nv_split v = sn_split (snd pn) /\ nv_age v = Some (age_of (sn_split (snd pn))) /\
               nv_len v = match fst pn with
                          | None => sn_len (snd pn)
                          | Some p => Some (clamp_min (o_min_len o) (qminus (age_of p) (age_of (sn_split (snd pn)))))
                          end)
            (st_pre_pa pa t) (map conv outs0)).
  { clear S outs0. induction t0 as [s l ks IH] using stree_ind'. intros pa outs0 S.
    cbn [summ_nodes st_pre_pa] in S |- *.
    rewrite (new_len_age ftbl lsum asum o age_of Hage NA) in S. rewrite Hage in S.
    change (match (match option_map age_of pa with
                   | Some p => let el := clamp_min (o_min_len o) (qminus p (age_of s)) in
                               if o_err_neg o && qlt_bool el 0 then Err ValueErr else Ok (Some el)
                   | None => Ok l end) with
            | Ok l0 => Ok (mkOut s (support_of ftbl o s) l0 (match lsum with [] => None | _ => Some (fields_of lsum s) end)
                                 (match asum with [] => None | _ => Some (fields_of asum s) end) (Some (age_of s)))
            | Err e => Err e | OutOfFuel => OutOfFuel end :: flat_map (summ_nodes ftbl lsum asum o (Some (age_of s))) ks)
      with ([match (match option_map age_of pa with
                   | Some p => let el := clamp_min (o_min_len o) (qminus p (age_of s)) in
                               if o_err_neg o && qlt_bool el 0 then Err ValueErr else Ok (Some el)
                   | None => Ok l end) with
            | Ok l0 => Ok (mkOut s (support_of ftbl o s) l0 (match lsum with [] => None | _ => Some (fields_of lsum s) end)
                                 (match asum with [] => None | _ => Some (fields_of asum s) end) (Some (age_of s)))
            | Err e => Err e | OutOfFuel => OutOfFuel end] ++ flat_map (summ_nodes ftbl lsum asum o (Some (age_of s))) ks) in S.
    rewrite sequence_app in S.
    destruct (sequence [_]) as [hd| |] eqn:HD; try discriminate S.
    destruct (sequence (flat_map _ ks)) as [tl| |] eqn:TL; try discriminate S.
    inversion S. subst outs0. rewrite map_app.
    change ((pa, SN s l ks) :: flat_map (st_pre_pa (Some s)) ks) with ([(pa, SN s l ks)] ++ flat_map (st_pre_pa (Some s)) ks).
    apply Forall2_app.
    - cbn [sequence] in HD.
      destruct pa as [p|]; cbn [option_map] in HD.
      + cbv zeta in HD. destruct (o_err_neg o && qlt_bool _ 0); try discriminate HD.
        inversion HD. subst hd. cbn. constructor; [|constructor]. repeat split; reflexivity.
      + inversion HD. subst hd. cbn. constructor; [|constructor]. repeat split; reflexivity.
    - clear HD S. revert tl TL. induction IH as [|k r Hk Hr IHr]; intros tl TL; cbn [flat_map] in TL |- *.
      + inversion TL. constructor.
      + rewrite sequence_app in TL.
        destruct (sequence (summ_nodes ftbl lsum asum o (Some (age_of s)) k)) as [o1| |] eqn:E1; try discriminate TL.
        destruct (sequence (flat_map _ r)) as [o2| |] eqn:E2; try discriminate TL.
        inversion TL. rewrite map_app. apply Forall2_app.
        * apply (Hk (Some s) o1). exact E1.
        * apply IHr. reflexivity. }
  exact (GEN t None outs0 S).
Qed.
