(* C11, wave 9: the identifiers in a state name existing objects (taxa_wf of Proofs/C11W9Step.v) - preservation
   by the operations. *)
From Coq Require Import List Bool Arith ZArith Lia.
From DV Require Import Model.PyPrims Model.C11Model Model.C11W7Model Model.C11W8Model
  Proofs.C11Base Proofs.C11Inv Proofs.C11Ops Proofs.C11Unify Proofs.C11W7 Proofs.C11W7b Proofs.C11W8
  Proofs.C11W9First Proofs.C11W9Step.
Import ListNotations.
Open Scope nat_scope.

Definition W (st : state) : Prop := mem_wf st /\ refs_wf st /\ lists_wf st /\ mats_wf st.
Definition Wle (a b : state) : Prop :=
  W b /\ length (s_lab a) <= length (s_lab b) /\ length (s_trees a) <= length (s_trees b).

Lemma Wle_refl : forall st, W st -> Wle st st.
Proof. intros st H. split; [exact H|]. split; lia. Qed.

Lemma Wle_trans : forall a b c, Wle a b -> Wle b c -> Wle a c.
Proof. intros a b c [_ [A1 A2]] [H [B1 B2]]. split; [exact H|]. split; lia. Qed.

Lemma Wle_W : forall a b, Wle a b -> W b.
Proof. intros a b H. apply H. Qed.

Definition vals (st : state) (l : list oid) : Prop := forall y, In y l -> y < length (s_lab st).
Definition rows_ok (st : state) (l : list oid) : Prop := NoDup l /\ vals st l.

Lemma vals_le : forall a b l, length (s_lab a) <= length (s_lab b) -> vals a l -> vals b l.
Proof. intros a b l H V y Hy. specialize (V y Hy). lia. Qed.

Lemma W_of : forall a b,
  length (s_lab a) <= length (s_lab b) -> length (s_trees a) <= length (s_trees b) ->
  (forall n y, In y (members b n) -> In y (members a n) \/ y < length (s_lab b)) ->
  (forall j y, In y (t_refs (gettree b j)) -> In y (t_refs (gettree a j)) \/ y < length (s_lab b)) ->
  (forall l tr, In tr (l_trees (getlist b l)) -> In tr (l_trees (getlist a l)) \/ tr < length (s_trees b)) ->
  (forall m, m_rows (getmat b m) = m_rows (getmat a m) \/ rows_ok b (m_rows (getmat b m))) ->
  W a -> Wle a b.
Proof.
  intros a b L1 L2 Hm Hr Hl Ht [Mw [Rw [Lw Tw]]]. split; [|split; assumption].
  split; [|split; [|split]].
  - intros n y Hy. destruct (Hm n y Hy) as [K|K]; [specialize (Mw n y K); lia | exact K].
  - intros j y Hy. destruct (Hr j y Hy) as [K|K]; [specialize (Rw j y K); lia | exact K].
  - intros l tr Hy. destruct (Hl l tr Hy) as [K|K]; [specialize (Lw l tr K); lia | exact K].
  - intro m. destruct (Ht m) as [K|K]; [|exact K]. rewrite K. destruct (Tw m) as [N V]. split; [exact N|].
    intros y Hy. specialize (V y Hy). lia.
Qed.

(* ---- getters after setters ---- *)
Lemma nth_upd_cases : forall A (l : list A) i x j d, nth j (upd l i x) d = x \/ nth j (upd l i x) d = nth j l d.
Proof.
  intros A l. induction l as [|y r IH]; intros i x j d; cbn [upd]; [right; reflexivity|].
  destruct i as [|i]; destruct j as [|j]; cbn [nth]; auto.
Qed.

Lemma nth_app1_cases : forall A (l : list A) x j d, nth j (l ++ [x]) d = x \/ nth j (l ++ [x]) d = nth j l d.
Proof.
  intros A l x j d. destruct (Nat.lt_ge_cases j (length l)) as [Lt|Ge].
  - right. apply app_nth1. exact Lt.
  - destruct (Nat.eq_dec j (length l)) as [->|N].
    + left. rewrite app_nth2, Nat.sub_diag by lia. reflexivity.
    + right. rewrite !nth_overflow; [reflexivity | lia | rewrite app_length; cbn [length]; lia].
Qed.

Lemma W_same : forall a b,
  s_lab b = s_lab a -> s_mem b = s_mem a -> s_trees b = s_trees a -> s_lists b = s_lists a -> s_mats b = s_mats a ->
  W a -> Wle a b.
Proof.
  intros a b E1 E2 E3 E4 E5 H. apply W_of; try exact H; unfold members, gettree, getlist, getmat;
    rewrite ?E1, ?E2, ?E3, ?E4, ?E5; auto.
Qed.

Ltac keepm := let K := fresh in intros ? ? K; left; exact K.
Ltac keept := intro; left; reflexivity.

Lemma W_set_members : forall st n ms, W st -> vals st ms -> Wle st (set_members st n ms).
Proof.
  intros st n ms H V. apply W_of; [cbn; lia | cbn; lia | | keepm | keepm | keept | exact H].
  intros n' y Hy. destruct (Nat.eq_dec n' n) as [->|Ne].
  - rewrite members_set_members_same in Hy. right. apply V, Hy.
  - rewrite members_set_members_other in Hy by exact Ne. left. exact Hy.
Qed.

Lemma W_alloc_taxon : forall st l, W st -> Wle st (fst (alloc_taxon st l)).
Proof.
  intros st l H. apply W_of; [| cbn; lia | keepm | keepm | keepm | keept | exact H].
  cbn [alloc_taxon fst s_lab]. rewrite app_length. lia.
Qed.

Lemma W_set_tree : forall st i t, W st -> vals st (t_refs t) -> Wle st (set_tree st i t).
Proof.
  intros st i t H V. apply W_of; [cbn; lia | | keepm | | keepm | keept | exact H].
  - cbn [set_tree s_trees]. rewrite upd_length. lia.
  - intros j y Hy. unfold gettree, set_tree in *. cbn [s_trees] in Hy.
    destruct (nth_upd_cases _ (s_trees st) i t j dtree) as [E|E]; rewrite E in Hy; [right; apply V, Hy | left; exact Hy].
Qed.

Lemma W_alloc_tree : forall st t, W st -> vals st (t_refs t) -> Wle st (fst (alloc_tree st t)).
Proof.
  intros st t H V. apply W_of; [cbn; lia | | keepm | | keepm | keept | exact H].
  - cbn [alloc_tree fst s_trees]. rewrite app_length. lia.
  - intros j y Hy. unfold gettree, alloc_tree in *. cbn [fst s_trees] in Hy.
    destruct (nth_app1_cases _ (s_trees st) t j dtree) as [E|E]; rewrite E in Hy; [right; apply V, Hy | left; exact Hy].
Qed.

Definition trs_ok (st : state) (l : list oid) : Prop := forall tr, In tr l -> tr < length (s_trees st).

Lemma W_set_list : forall st i L, W st -> trs_ok st (l_trees L) -> Wle st (set_list st i L).
Proof.
  intros st i L H V. apply W_of; [cbn; lia | cbn; lia | keepm | keepm | | keept | exact H].
  intros l tr Hy. unfold getlist, set_list in *. cbn [s_lists] in Hy.
  destruct (nth_upd_cases _ (s_lists st) i L l dlist) as [E|E]; rewrite E in Hy; [right; apply V, Hy | left; exact Hy].
Qed.

Lemma W_alloc_list : forall st L, W st -> trs_ok st (l_trees L) -> Wle st (fst (alloc_list st L)).
Proof.
  intros st L H V. apply W_of; [cbn; lia | cbn; lia | keepm | keepm | | keept | exact H].
  intros l tr Hy. unfold getlist, alloc_list in *. cbn [fst s_lists] in Hy.
  destruct (nth_app1_cases _ (s_lists st) L l dlist) as [E|E]; rewrite E in Hy; [right; apply V, Hy | left; exact Hy].
Qed.

Lemma W_set_mat : forall st i M, W st -> rows_ok st (m_rows M) -> Wle st (set_mat st i M).
Proof.
  intros st i M H V. apply W_of; [cbn; lia | cbn; lia | keepm | keepm | keepm | | exact H].
  intro m. unfold getmat, set_mat. cbn [s_mats].
  destruct (nth_upd_cases _ (s_mats st) i M m dmat) as [E|E]; rewrite E; [right; exact V | left; reflexivity].
Qed.

Lemma W_alloc_mat : forall st M, W st -> rows_ok st (m_rows M) -> Wle st (fst (alloc_mat st M)).
Proof.
  intros st M H V. apply W_of; [cbn; lia | cbn; lia | keepm | keepm | keepm | | exact H].
  intro m. unfold getmat, alloc_mat. cbn [fst s_mats].
  destruct (nth_app1_cases _ (s_mats st) M m dmat) as [E|E]; rewrite E; [right; exact V | left; reflexivity].
Qed.

(* ---- taxa ---- *)
Lemma W_members_vals : forall st n, W st -> vals st (members st n).
Proof. intros st n [Mw _] y Hy. apply (Mw n y Hy). Qed.

Lemma W_refs_vals : forall st tr, W st -> vals st (t_refs (gettree st tr)).
Proof. intros st tr [_ [Rw _]] y Hy. apply (Rw tr y Hy). Qed.

Lemma W_rows_ok : forall st m, W st -> rows_ok st (m_rows (getmat st m)).
Proof. intros st m [_ [_ [_ Tw]]]. exact (Tw m). Qed.

Lemma W_trs_ok : forall st l, W st -> trs_ok st (l_trees (getlist st l)).
Proof. intros st l [_ [_ [Lw _]]] tr Htr. apply (Lw l tr Htr). Qed.

Lemma W_add_member : forall st n t, W st -> t < length (s_lab st) -> Wle st (add_member st n t).
Proof.
  intros st n t H V. unfold add_member. destruct (memb t (members st n)); [apply Wle_refl, H|].
  apply W_set_members; [exact H|]. intros y Hy. apply in_app_or in Hy.
  destruct Hy as [Hy|[Hy|[]]]; [apply (W_members_vals st n H), Hy | subst; exact V].
Qed.

Lemma add_member_lab : forall st n t, s_lab (add_member st n t) = s_lab st.
Proof. intros. unfold add_member. destruct (memb t (members st n)); reflexivity. Qed.

Lemma add_member_trees : forall st n t, s_trees (add_member st n t) = s_trees st.
Proof. intros. unfold add_member. destruct (memb t (members st n)); reflexivity. Qed.

Lemma W_add_members : forall xs st n, W st -> vals st xs -> Wle st (add_members st n xs).
Proof.
  induction xs as [|x r IH]; intros st n H V; cbn [add_members fold_left]; [apply Wle_refl, H|].
  assert (V0 : x < length (s_lab st)) by (apply V; left; reflexivity).
  pose proof (W_add_member st n x H V0) as K. eapply Wle_trans; [exact K|]. apply IH; [apply K|].
  intros y Hy. rewrite add_member_lab. apply V. right. exact Hy.
Qed.

Lemma W_new_taxon : forall st n l st' x, new_taxon st n l = (st', x) -> W st -> Wle st st' /\ x < length (s_lab st').
Proof.
  intros st n l st' x Q H. unfold new_taxon in Q. cbv beta iota zeta in Q. unfold alloc_taxon in Q. injection Q as <- <-.
  pose proof (W_alloc_taxon st l H) as K. unfold alloc_taxon in K. cbn [fst] in K.
  split; [|cbn [set_members s_lab]; rewrite app_length; cbn [length]; lia].
  eapply Wle_trans; [exact K|]. apply W_set_members; [apply K|].
  intros y Hy. cbn [s_lab]. rewrite app_length. cbn [length]. apply in_app_or in Hy.
  destruct Hy as [Hy|[Hy|[]]]; [|subst; lia].
  pose proof (W_members_vals st n H y) as V. unfold members in *. cbn [s_mem] in Hy. specialize (V Hy). lia.
Qed.

Lemma W_require_taxon : forall lower st n l cs st' x,
  require_taxon lower st n l cs = (st', x) -> W st -> Wle st st' /\ x < length (s_lab st').
Proof.
  intros lower st n l cs st' x Q H. unfold require_taxon in Q. destruct (first_match lower st n cs l) as [y|] eqn:E.
  - injection Q as <- <-. split; [apply Wle_refl, H|]. apply (W_members_vals st n H).
    apply (first_match_some lower _ _ _ _ _ E).
  - eapply W_new_taxon; eassumption.
Qed.

Section WithLower.
Variable lower : lbl -> lbl.

Lemma memo_valid_le : forall a b mm, length (s_lab a) <= length (s_lab b) -> memo_valid a mm -> memo_valid b mm.
Proof. intros a b mm L H x t A. specialize (H x t A). lia. Qed.

Lemma memo_valid_cons : forall st mm x t, memo_valid st mm -> t < length (s_lab st) -> memo_valid st ((x, t) :: mm).
Proof.
  intros st mm x t H V y t0 A. rewrite alookup_cons in A. destruct (Nat.eqb y x); [injection A as <-; exact V | eapply H; exact A].
Qed.

Lemma W_recon_refs : forall n u refs st mm st' refs' mm',
  recon_refs lower st n u refs mm = (st', refs', mm') -> W st -> memo_valid st mm -> vals st refs ->
  Wle st st' /\ vals st' refs' /\ memo_valid st' mm'.
Proof.
  intros n u refs. induction refs as [|x r IH]; intros st mm st' refs' mm' H Hw Mv V; cbn [recon_refs] in H.
  - injection H as <- <- <-. split; [apply Wle_refl, Hw|]. split; [intros y []| exact Mv].
  - assert (Vr : vals st r) by (intros y Hy; apply V; right; exact Hy).
    assert (Vx : x < length (s_lab st)) by (apply V; left; reflexivity).
    destruct (u || negb (memb x (members st n))).
    + destruct (alookup x mm) as [t|] eqn:A.
      * destruct (recon_refs lower (add_member st n t) n u r mm) as [[s2 r2] m2] eqn:R. injection H as <- <- <-.
        pose proof (W_add_member st n t Hw (Mv x t A)) as K.
        destruct (IH _ _ _ _ _ R (Wle_W _ _ K)) as [K2 [V2 M2]].
        { intros y t0 A0. rewrite add_member_lab. eapply Mv. exact A0. }
        { intros y Hy. rewrite add_member_lab. apply Vr, Hy. }
        split; [eapply Wle_trans; eassumption|]. split; [|exact M2].
        intros y [Hy|Hy]; [|apply V2, Hy]. subst y. specialize (Mv x t A). destruct K2 as [_ [L2 _]].
        rewrite add_member_lab in L2. lia.
      * destruct (if u then require_taxon lower st n (label st x) (ns_cs st n) else new_taxon st n (label st x)) as [s1 t] eqn:Q.
        assert (K : Wle st s1 /\ t < length (s_lab s1))
          by (destruct u; [eapply W_require_taxon | eapply W_new_taxon]; eassumption).
        destruct K as [K Vt]. assert (L1 : length (s_lab st) <= length (s_lab s1)) by apply K.
        destruct (recon_refs lower s1 n u r ((x, t) :: mm)) as [[s2 r2] m2] eqn:R. injection H as <- <- <-.
        destruct (IH _ _ _ _ _ R (Wle_W _ _ K)) as [K2 [V2 M2]].
        { apply memo_valid_cons; [eapply memo_valid_le; eassumption | exact Vt]. }
        { eapply vals_le; eassumption. }
        split; [eapply Wle_trans; eassumption|]. split; [|exact M2].
        intros y [Hy|Hy]; [|apply V2, Hy]. subst y. destruct K2 as [_ [L2 _]]. lia.
    + destruct (recon_refs lower st n u r mm) as [[s2 r2] m2] eqn:R. injection H as <- <- <-.
      destruct (IH _ _ _ _ _ R Hw Mv Vr) as [K2 [V2 M2]]. split; [exact K2|]. split; [|exact M2].
      intros y [Hy|Hy]; [|apply V2, Hy]. subst y. destruct K2 as [_ [L2 _]]. lia.
Qed.

Lemma W_migrate_tree : forall st tr n u mm st' mm',
  migrate_tree lower st tr n u mm = (st', mm') -> W st -> memo_valid st mm -> Wle st st' /\ memo_valid st' mm'.
Proof.
  intros st tr n u mm st' mm' H Hw Mv. unfold migrate_tree in H.
  destruct (recon_refs lower st n u (t_refs (gettree st tr)) mm) as [[s1 refs'] m1] eqn:R. injection H as <- <-.
  destruct (W_recon_refs _ _ _ _ _ _ _ _ R Hw Mv (W_refs_vals st tr Hw)) as [K [V M]].
  split; [|exact M]. eapply Wle_trans; [exact K|]. apply W_set_tree; [apply K | exact V].
Qed.

Lemma W_update_tree : forall st tr n, W st -> Wle st (update_tree st tr n).
Proof.
  intros st tr n Hw. unfold update_tree.
  pose proof (W_add_members (t_refs (gettree st tr)) st n Hw (W_refs_vals st tr Hw)) as K.
  eapply Wle_trans; [exact K|]. apply W_set_tree; [apply K|]. cbn [t_refs].
  eapply vals_le; [apply K | apply W_refs_vals, Hw].
Qed.

Lemma W_clone_memo : forall n ms st mm st' mm',
  clone_memo lower st n ms mm = (st', mm') -> W st -> memo_valid st mm -> Wle st st' /\ memo_valid st' mm'.
Proof.
  intros n ms. induction ms as [|x r IH]; intros st mm st' mm' H Hw Mv; cbn [clone_memo] in H.
  - injection H as <- <-. split; [apply Wle_refl, Hw | exact Mv].
  - destruct (require_taxon lower st n (label st x) (ns_cs st n)) as [s1 t] eqn:Q.
    destruct (W_require_taxon _ _ _ _ _ _ _ Q Hw) as [K Vt].
    destruct (IH _ _ _ _ H (Wle_W _ _ K)) as [K2 M2].
    { apply memo_valid_cons; [eapply memo_valid_le; [apply K | exact Mv] | exact Vt]. }
    split; [eapply Wle_trans; eassumption | exact M2].
Qed.

Lemma W_clone_refs : forall refs st mm st2 refs' mm',
  clone_refs st refs mm = (st2, refs', mm') -> W st -> Wle st st2.
Proof.
  induction refs as [|x r IH]; intros st mm st2 refs' mm' H Hw; cbn [clone_refs] in H.
  - injection H as <- _ _. apply Wle_refl, Hw.
  - destruct (alookup x mm) as [t|].
    + destruct (clone_refs st r mm) as [[s2 r2] m2] eqn:R. injection H as <- _ _. eapply IH; eassumption.
    + destruct (alloc_taxon st (label st x)) as [s1 t] eqn:Q.
      destruct (clone_refs s1 r ((x, t) :: mm)) as [[s2 r2] m2] eqn:R. injection H as <- _ _.
      pose proof (W_alloc_taxon st (label st x) Hw) as K. rewrite Q in K. cbn [fst] in K.
      eapply Wle_trans; [exact K|]. eapply IH; [exact R | apply K].
Qed.

Lemma W_clone_tree : forall st tr n st' c,
  clone_tree lower st tr n = (st', c) -> W st -> Wle st st' /\ c < length (s_trees st').
Proof.
  intros st tr n st' c H Hw. unfold clone_tree in H.
  set (sn := t_ns (gettree st tr)) in *.
  assert (P : exists s1 mm, (if Nat.eqb sn n then (st, map (fun x => (x, x)) (members st sn))
                             else clone_memo lower st n (members st sn) []) = (s1, mm) /\ Wle st s1 /\ memo_valid s1 mm).
  { destruct (Nat.eqb sn n).
    - exists st, (map (fun x => (x, x)) (members st sn)). split; [reflexivity|]. split; [apply Wle_refl, Hw|].
      intros x t A. apply alookup_idmap_inv in A. destruct A as [-> I]. apply (W_members_vals st sn Hw), I.
    - destruct (clone_memo lower st n (members st sn) []) as [s1 mm] eqn:Q. exists s1, mm. split; [reflexivity|].
      eapply W_clone_memo; [exact Q | exact Hw | intros x t A; discriminate]. }
  destruct P as [s1 [mm [E [K1 Mv1]]]]. rewrite E in H.
  destruct (clone_refs s1 (t_refs (gettree st tr)) mm) as [[s2 refs'] m2] eqn:Q2.
  pose proof (W_clone_refs _ _ _ _ _ _ Q2 (Wle_W _ _ K1)) as K2.
  pose proof (clone_refs_valid _ _ _ _ _ _ Q2 Mv1) as Vn.
  pose proof (W_alloc_tree s2 (mkTree n refs') (Wle_W _ _ K2) Vn) as K3.
  unfold alloc_tree in H, K3. cbn [fst] in K3. injection H as <- <-.
  split; [eapply Wle_trans; [exact K1|]; eapply Wle_trans; eassumption|].
  cbn [s_trees]. rewrite app_length. cbn [length]. lia.
Qed.

Lemma W_list_push : forall st l tr, W st -> tr < length (s_trees st) -> Wle st (list_push st l tr).
Proof.
  intros st l tr Hw V. unfold list_push. apply W_set_list; [exact Hw|]. cbn [l_trees]. intros t Ht.
  apply in_app_or in Ht. destruct Ht as [Ht|[Ht|[]]]; [apply (W_trs_ok st l Hw), Ht | subst; exact V].
Qed.

Lemma W_import_tree_m : forall st ln tr s mm st1 ok mm1,
  import_tree_m lower st ln tr s mm = (st1, ok, mm1) -> W st -> memo_valid st mm -> Wle st st1 /\ memo_valid st1 mm1.
Proof.
  intros st ln tr s mm st1 ok mm1 H Hw Mv. unfold import_tree_m in H.
  destruct (Nat.eqb (t_ns (gettree st tr)) ln); [injection H as <- _ <-; split; [apply Wle_refl, Hw | exact Mv]|].
  destruct s as [u| |].
  - destruct (migrate_tree lower st tr ln u mm) as [s1 m1] eqn:M. injection H as <- _ <-. eapply W_migrate_tree; eassumption.
  - injection H as <- _ <-. pose proof (W_update_tree st tr ln Hw) as K. split; [exact K|].
    eapply memo_valid_le; [apply K | exact Mv].
  - injection H as <- _ <-. split; [apply Wle_refl, Hw | exact Mv].
Qed.

Lemma W_import_tree : forall st ln tr s, W st -> Wle st (fst (import_tree lower st ln tr s)).
Proof.
  intros st ln tr s Hw. rewrite <- (import_tree_m_nil lower). cbn [fst].
  destruct (import_tree_m lower st ln tr s []) as [[s1 ok] m1] eqn:Q. cbn [fst].
  eapply W_import_tree_m; [exact Q | exact Hw | intros x t A; discriminate].
Qed.

Lemma W_append_tree : forall st l tr s, W st -> tr < length (s_trees st) -> Wle st (fst (append_tree lower st l tr s)).
Proof.
  intros st l tr s Hw V. unfold append_tree. pose proof (W_import_tree st (l_ns (getlist st l)) tr s Hw) as K.
  destruct (import_tree lower st (l_ns (getlist st l)) tr s) as [s1 ok]. cbn [fst] in *. destruct ok; cbn [fst]; [|exact K].
  eapply Wle_trans; [exact K|]. apply W_list_push; [apply K|]. destruct K as [_ [_ L]]. lia.
Qed.

Lemma trs_ok_le : forall a b l, length (s_trees a) <= length (s_trees b) -> trs_ok a l -> trs_ok b l.
Proof. intros a b l L H t Ht. specialize (H t Ht). lia. Qed.

Lemma W_append_all : forall trs st l, W st -> trs_ok st trs -> Wle st (append_all lower st l trs).
Proof.
  induction trs as [|t r IH]; intros st l Hw V; cbn [append_all]; [apply Wle_refl, Hw|].
  pose proof (W_append_tree st l t (SMigrate true) Hw (V t (or_introl eq_refl))) as K.
  eapply Wle_trans; [exact K|]. apply IH; [apply K|]. eapply trs_ok_le; [apply K|]. intros y Hy. apply V. right. exact Hy.
Qed.

Lemma W_import_all : forall trs st n, W st -> Wle st (import_all lower st n trs).
Proof.
  induction trs as [|t r IH]; intros st n Hw; cbn [import_all]; [apply Wle_refl, Hw|].
  pose proof (W_import_tree st n t (SMigrate true) Hw) as K. eapply Wle_trans; [exact K|]. apply IH. apply K.
Qed.

Lemma W_clone_push_all : forall trs st l, W st -> Wle st (clone_push_all lower st l trs).
Proof.
  induction trs as [|t r IH]; intros st l Hw; cbn [clone_push_all]; [apply Wle_refl, Hw|].
  destruct (clone_tree lower st t (l_ns (getlist st l))) as [s1 c] eqn:Q.
  destruct (W_clone_tree _ _ _ _ _ Q Hw) as [K Vc].
  pose proof (W_list_push s1 l c (Wle_W _ _ K) Vc) as K2.
  eapply Wle_trans; [exact K|]. eapply Wle_trans; [exact K2|]. apply IH. apply K2.
Qed.

Lemma W_clone_all : forall trs st n acc st' acc',
  clone_all lower st n trs acc = (st', acc') -> W st -> trs_ok st acc -> Wle st st' /\ trs_ok st' acc'.
Proof.
  induction trs as [|t r IH]; intros st n acc st' acc' H Hw V; cbn [clone_all] in H.
  - injection H as <- <-. split; [apply Wle_refl, Hw | exact V].
  - destruct (clone_tree lower st t n) as [s1 c] eqn:Q. destruct (W_clone_tree _ _ _ _ _ Q Hw) as [K Vc].
    destruct (IH _ _ _ _ _ H (Wle_W _ _ K)) as [K2 V2].
    { intros y Hy. apply in_app_or in Hy. destruct Hy as [Hy|[Hy|[]]]; [|subst; exact Vc].
      specialize (V y Hy). destruct K as [_ [_ L]]. lia. }
    split; [eapply Wle_trans; eassumption | exact V2].
Qed.

Lemma W_extend : forall st l s st1, extend lower st l s = Some st1 -> W st ->
  (match s with SrcTrees ts => trs_ok st ts | _ => True end) -> Wle st st1.
Proof.
  intros st l s st1 H Hw V. destruct s as [l2|ts]; cbn [extend] in H.
  - destruct (Nat.eqb l2 l); [discriminate|]. injection H as <-. apply W_clone_push_all, Hw.
  - injection H as <-. apply W_append_all; assumption.
Qed.

End WithLower.

Section WithLower2.
Variable lower : lbl -> lbl.

Lemma W_read_refs : forall n cs labels st seen st' refs ok,
  read_refs lower st n cs labels seen = (st', refs, ok) -> W st -> vals st seen -> Wle st st' /\ vals st' refs.
Proof.
  intros n cs labels. induction labels as [|l r IH]; intros st seen st' refs ok H Hw V; cbn [read_refs] in H.
  - injection H as <- <- _. split; [apply Wle_refl, Hw | exact V].
  - destruct (match last_match lower st n cs l with Some t => (st, t) | None => new_taxon st n l end) as [s1 t] eqn:Q.
    assert (K : Wle st s1 /\ t < length (s_lab s1)).
    { destruct (last_match lower st n cs l) as [t0|] eqn:E.
      - injection Q as <- <-. split; [apply Wle_refl, Hw|]. unfold last_match in E. apply find_some in E. destruct E as [I _].
        apply in_rev in I. apply (W_members_vals st n Hw), I.
      - eapply W_new_taxon; eassumption. }
    destruct K as [K Vt]. assert (V1 : vals s1 seen) by (eapply vals_le; [apply K | exact V]).
    destruct (memb t seen).
    + injection H as <- <- _. split; [exact K | exact V1].
    + destruct (IH _ _ _ _ _ H (Wle_W _ _ K)) as [K2 V2].
      { intros y Hy. apply in_app_or in Hy. destruct Hy as [Hy|[Hy|[]]]; [apply V1, Hy | subst; exact Vt]. }
      split; [eapply Wle_trans; eassumption | exact V2].
Qed.

Lemma W_read_trees : forall cs trees st l, W st -> Wle st (fst (read_trees lower st l cs trees)).
Proof.
  intros cs trees. induction trees as [|labels r IH]; intros st l Hw; cbn [read_trees]; [apply Wle_refl, Hw|].
  set (n := l_ns (getlist st l)).
  pose proof (W_alloc_tree st (mkTree n []) Hw (fun y (Hy : In y []) => match Hy with end)) as K1.
  unfold alloc_tree in *. cbn [fst] in K1. cbv beta iota zeta.
  set (s1 := mkSt (s_lab st) (s_mem st) (s_cs st) (s_nns st) (s_trees st ++ [mkTree n []]) (s_lists st) (s_mats st) (s_dss st)) in *.
  assert (Vt : length (s_trees st) < length (s_trees s1)) by (unfold s1; cbn [s_trees]; rewrite app_length; cbn [length]; lia).
  pose proof (W_list_push s1 l (length (s_trees st)) (Wle_W _ _ K1) Vt) as K2.
  destruct (read_refs lower (list_push s1 l (length (s_trees st))) n cs labels []) as [[s3 refs] ok] eqn:R.
  destruct (W_read_refs _ _ _ _ _ _ _ _ R (Wle_W _ _ K2)) as [K3 V3]. { intros y []. }
  pose proof (W_set_tree s3 (length (s_trees st)) (mkTree n refs) (Wle_W _ _ K3) V3) as K4.
  assert (K : Wle st (set_tree s3 (length (s_trees st)) (mkTree n refs))).
  { eapply Wle_trans; [exact K1|]. eapply Wle_trans; [exact K2|]. eapply Wle_trans; eassumption. }
  destruct ok; cbn [fst]; [|exact K]. eapply Wle_trans; [exact K|]. apply IH. apply K.
Qed.

Lemma W_migrate_trees : forall n u trs st mm st' mm',
  migrate_trees lower st n u trs mm = (st', mm') -> W st -> memo_valid st mm -> Wle st st' /\ memo_valid st' mm'.
Proof.
  intros n u trs. induction trs as [|t r IH]; intros st mm st' mm' H Hw Mv; cbn [migrate_trees] in H.
  - injection H as <- <-. split; [apply Wle_refl, Hw | exact Mv].
  - destruct (migrate_tree lower st t n u mm) as [s1 m1] eqn:M. destruct (W_migrate_tree _ _ _ _ _ _ _ _ M Hw Mv) as [K M1].
    destruct (IH _ _ _ _ H (Wle_W _ _ K) M1) as [K2 M2]. split; [eapply Wle_trans; eassumption | exact M2].
Qed.

Lemma W_migrate_list : forall st l n u mm st' mm',
  migrate_list lower st l n u mm = (st', mm') -> W st -> memo_valid st mm -> Wle st st' /\ memo_valid st' mm'.
Proof.
  intros st l n u mm st' mm' H Hw Mv. unfold migrate_list, reconstruct_list in H.
  pose proof (W_set_list st l (mkTL n (l_trees (getlist st l))) Hw (W_trs_ok st l Hw)) as K.
  destruct (W_migrate_trees _ _ _ _ _ _ _ H (Wle_W _ _ K) Mv) as [K2 M2]. split; [exact (Wle_trans _ _ _ K K2) | exact M2].
Qed.

Lemma W_update_trees : forall trs st n, W st -> Wle st (update_trees st n trs).
Proof.
  induction trs as [|t r IH]; intros st n Hw; cbn [update_trees]; [apply Wle_refl, Hw|].
  pose proof (W_update_tree st t n Hw) as K. eapply Wle_trans; [exact K|]. apply IH. apply K.
Qed.

Lemma W_purge_ns : forall st n polled, W st -> Wle st (purge_ns st n polled).
Proof.
  intros st n polled Hw. unfold purge_ns. apply W_set_members; [exact Hw|]. intros y Hy. apply filter_In in Hy.
  apply (W_members_vals st n Hw), Hy.
Qed.

Lemma NoDup_remove_id : forall x l, NoDup l -> NoDup (remove_id x l).
Proof.
  intros x l N. induction N as [|y r Hy N IH]; cbn [remove_id]; [constructor|].
  destruct (Nat.eqb x y); [exact IH|]. constructor; [|exact IH]. intro K. apply In_remove_id in K. apply Hy, K.
Qed.

Lemma W_recon_rows : forall n u orig st rows mm st' rows' mm' ok,
  recon_rows lower st n u orig rows mm = (st', rows', mm', ok) -> W st -> memo_valid st mm -> rows_ok st rows ->
  Wle st st' /\ rows_ok st' rows' /\ memo_valid st' mm'.
Proof.
  intros n u orig. induction orig as [|x r IH]; intros st rows mm st' rows' mm' ok H Hw Mv [Nd V]; cbn [recon_rows] in H.
  - injection H as <- <- <- _. split; [apply Wle_refl, Hw|]. split; [split; assumption | exact Mv].
  - destruct (u || negb (memb x (members st n))); [|eapply IH; try eassumption; split; assumption].
    destruct (match alookup x mm with
              | None => let '(s1, t) := if u then require_taxon lower st n (label st x) (ns_cs st n)
                                        else new_taxon st n (label st x) in (s1, t, (x, t) :: mm)
              | Some t => (add_member st n t, t, mm) end) as [[s1 t] m1] eqn:Q.
    assert (K : Wle st s1 /\ t < length (s_lab s1) /\ memo_valid s1 m1).
    { destruct (alookup x mm) as [t0|] eqn:A.
      - injection Q as <- <- <-. pose proof (W_add_member st n t0 Hw (Mv x t0 A)) as K. split; [exact K|].
        split; [rewrite add_member_lab; apply (Mv x t0 A) | eapply memo_valid_le; [apply K | exact Mv]].
      - destruct (if u then require_taxon lower st n (label st x) (ns_cs st n) else new_taxon st n (label st x)) as [s0 t0] eqn:Q0.
        injection Q as <- <- <-.
        assert (K : Wle st s0 /\ t0 < length (s_lab s0))
          by (destruct u; [eapply W_require_taxon | eapply W_new_taxon]; eassumption).
        destruct K as [K Vt]. split; [exact K|]. split; [exact Vt|].
        apply memo_valid_cons; [eapply memo_valid_le; [apply K | exact Mv] | exact Vt]. }
    destruct K as [K [Vt M1]]. assert (V1 : vals s1 rows) by (eapply vals_le; [apply K | exact V]).
    destruct (memb t rows) eqn:Mb.
    + injection H as <- <- <- _. split; [exact K|]. split; [split; assumption | exact M1].
    + apply memb_false in Mb. destruct (IH _ _ _ _ _ _ _ H (Wle_W _ _ K) M1) as [K2 [R2 M2]].
      { split.
        - apply NoDup_snoc; [apply NoDup_remove_id, Nd|]. intro I. apply In_remove_id in I. apply Mb, I.
        - intros y Hy. apply in_app_or in Hy. destruct Hy as [Hy|[Hy|[]]]; [|subst; exact Vt].
          apply In_remove_id in Hy. apply V1, Hy. }
      split; [eapply Wle_trans; eassumption|]. split; assumption.
Qed.

Lemma W_migrate_mat : forall st m n u mm st' mm' ok,
  migrate_mat lower st m n u mm = (st', mm', ok) -> W st -> memo_valid st mm -> Wle st st' /\ memo_valid st' mm'.
Proof.
  intros st m n u mm st' mm' ok H Hw Mv. unfold migrate_mat in H.
  destruct (recon_rows lower st n u (m_rows (getmat st m)) (m_rows (getmat st m)) mm) as [[[s1 rows'] m1] ok1] eqn:R.
  injection H as <- <- _. destruct (W_recon_rows _ _ _ _ _ _ _ _ _ _ R Hw Mv (W_rows_ok st m Hw)) as [K [R1 M1]].
  split; [|exact M1]. eapply Wle_trans; [exact K|]. apply W_set_mat; [apply K | exact R1].
Qed.

Lemma W_read_rows : forall labels st m, W st -> Wle st (fst (read_rows lower st m labels)).
Proof.
  induction labels as [|l r IH]; intros st m Hw; cbn [read_rows]; [apply Wle_refl, Hw|].
  set (n := m_ns (getmat st m)).
  destruct (require_taxon lower st n l (ns_cs st n)) as [s1 t] eqn:Q.
  destruct (W_require_taxon _ _ _ _ _ _ _ Q Hw) as [K Vt].
  destruct (memb t (m_rows (getmat s1 m))) eqn:Mb; cbn [fst]; [exact K|].
  apply memb_false in Mb. destruct (W_rows_ok s1 m (Wle_W _ _ K)) as [Nd V].
  pose proof (W_set_mat s1 m (mkMat n (m_rows (getmat s1 m) ++ [t])) (Wle_W _ _ K)) as K2.
  assert (K3 : Wle s1 (set_mat s1 m (mkMat n (m_rows (getmat s1 m) ++ [t])))).
  { apply K2. cbn [m_rows]. split; [apply NoDup_snoc; assumption|].
    intros y Hy. apply in_app_or in Hy. destruct Hy as [Hy|[Hy|[]]]; [apply V, Hy | subst; exact Vt]. }
  eapply Wle_trans; [exact K|]. eapply Wle_trans; [exact K3|]. apply IH. apply K3.
Qed.

Lemma W_unify_lists : forall n ls st mm st' mm',
  unify_lists lower st n ls mm = (st', mm') -> W st -> memo_valid st mm -> Wle st st' /\ memo_valid st' mm'.
Proof.
  intros n ls. induction ls as [|l r IH]; intros st mm st' mm' H Hw Mv; cbn [unify_lists] in H.
  - injection H as <- <-. split; [apply Wle_refl, Hw | exact Mv].
  - destruct (migrate_list lower st l n true mm) as [s1 m1] eqn:M. destruct (W_migrate_list _ _ _ _ _ _ _ M Hw Mv) as [K M1].
    destruct (IH _ _ _ _ H (Wle_W _ _ K) M1) as [K2 M2]. split; [eapply Wle_trans; eassumption | exact M2].
Qed.

Lemma W_unify_mats : forall n ms st mm, W st -> memo_valid st mm -> Wle st (fst (unify_mats lower st n ms mm)).
Proof.
  intros n ms. induction ms as [|m r IH]; intros st mm Hw Mv; cbn [unify_mats]; [apply Wle_refl, Hw|].
  destruct (migrate_mat lower st m n true mm) as [[s1 m1] ok] eqn:M. destruct (W_migrate_mat _ _ _ _ _ _ _ _ M Hw Mv) as [K M1].
  destruct ok; cbn [fst]; [|exact K]. eapply Wle_trans; [exact K|]. apply IH; [apply K | exact M1].
Qed.

Lemma norm_index_lt : forall len i j, norm_index len i = Some j -> j < len.
Proof.
  intros len i j H. unfold norm_index in H. destruct (Z.ltb_spec i 0).
  - destruct (Z.ltb_spec (Z.of_nat len + i) 0); [discriminate|]. injection H as <-. lia.
  - destruct (Z.ltb_spec i (Z.of_nat len)); [|discriminate]. injection H as <-. lia.
Qed.

Lemma row_key_valid : forall st n k x, row_key lower st n k = Ok x -> W st ->
  match k with KeyTaxon y => y < length (s_lab st) | _ => True end -> x < length (s_lab st).
Proof.
  intros st n k x H Hw V. destruct k as [y|l|i]; cbn [row_key] in H.
  - injection H as <-. exact V.
  - destruct (first_match lower st n (ns_cs st n) l) as [y|] eqn:E; [|discriminate]. injection H as <-.
    apply (W_members_vals st n Hw). apply (first_match_some lower _ _ _ _ _ E).
  - destruct (Z.abs i <? Z.of_nat (length (members st n)))%Z; [|discriminate].
    destruct (norm_index (length (members st n)) i) as [j|] eqn:E; [|discriminate]. injection H as <-.
    apply (W_members_vals st n Hw). apply nth_In. eapply norm_index_lt. exact E.
Qed.

End WithLower2.

Section Step.
Variable lower : lbl -> lbl.

Ltac els := cbn [fst]; apply Wle_refl; assumption.
Ltac samew K := eapply Wle_trans; [exact K | apply W_same; try reflexivity; apply K].

Lemma forallb_vals : forall st refs, forallb (valid_taxon st) refs = true -> vals st refs.
Proof. intros st refs H y Hy. apply ltb_lt'. change (valid_taxon st y = true). eapply forallb_In; eassumption. Qed.

Lemma forallb_trs : forall st ts, forallb (valid_tree st) ts = true -> trs_ok st ts.
Proof. intros st ts H y Hy. apply ltb_lt'. change (valid_tree st y = true). eapply forallb_In; eassumption. Qed.

Lemma src_trs : forall st s, valid_src st s = true -> match s with SrcTrees ts => trs_ok st ts | _ => True end.
Proof. intros st s H. destruct s; [exact Logic.I | apply forallb_trs, H]. Qed.

Lemma W_ds_pick_ns : forall st d nsarg st1 n, ds_pick_ns st d nsarg = Some (st1, n) -> W st -> Wle st st1.
Proof.
  intros st d nsarg st1 n H Hw. unfold ds_pick_ns in H.
  destruct (d_att (getds st d)) as [a|]; destruct nsarg as [n0|].
  - destruct (Nat.eqb a n0); [|discriminate]. injection H as <- _. apply Wle_refl, Hw.
  - injection H as <- _. apply Wle_refl, Hw.
  - injection H as <- _. apply Wle_refl, Hw.
  - unfold alloc_ns in H. injection H as <- _. apply W_same; try reflexivity. exact Hw.
Qed.

Lemma W_ds_read_ns : forall st d nsarg st1 n, ds_read_ns st d nsarg = Some (st1, n) -> W st -> Wle st st1.
Proof.
  intros st d nsarg st1 n H Hw. unfold ds_read_ns in H.
  destruct (d_att (getds st d)) as [a|]; destruct nsarg as [n0|].
  - destruct (Nat.eqb a n0); [|discriminate]. injection H as <- _. apply Wle_refl, Hw.
  - injection H as <- _. apply Wle_refl, Hw.
  - injection H as <- _. apply Wle_refl, Hw.
  - unfold alloc_ns in H. cbv beta iota zeta in H. injection H as <- _. apply W_same; try reflexivity. exact Hw.
Qed.

Lemma W_step : forall st o, W st -> Wle st (fst (step lower st o)).
Proof.
  intros st o Hw. destruct o; cbn [step].
  - (* NewNs *) unfold alloc_ns. cbn [fst]. apply W_same; try reflexivity. exact Hw.
  - (* NewTaxon *) destruct (valid_ns st n); [|els]. destruct (new_taxon st n l) as [s1 x] eqn:Q. cbn [fst].
    eapply W_new_taxon; eassumption.
  - (* MkTree *) destruct (valid_ns st n && forallb (valid_taxon st) refs) eqn:Vd; [|els].
    apply andb_prop in Vd. destruct Vd as [_ Vr]. apply forallb_vals in Vr.
    pose proof (W_add_members refs st n Hw Vr) as K.
    pose proof (W_alloc_tree (add_members st n refs) (mkTree n refs) (Wle_W _ _ K)) as K2.
    unfold alloc_tree in *. cbn [fst] in *. eapply Wle_trans; [exact K|]. apply K2. cbn [t_refs].
    eapply vals_le; [apply K | exact Vr].
  - (* NewList *) destruct (valid_ns st n); [|els]. unfold alloc_list. cbn [fst].
    apply (W_alloc_list st (mkTL n []) Hw). intros y [].
  - (* NewMat *) destruct (valid_ns st n); [|els]. unfold alloc_mat. cbn [fst].
    apply (W_alloc_mat st (mkMat n []) Hw). split; [constructor | intros y []].
  - (* NewDs *) unfold alloc_ds. cbn [fst]. apply W_same; try reflexivity. exact Hw.
  - (* Append *) destruct (valid_list st l && valid_tree st t) eqn:Vd; [|els].
    apply andb_prop in Vd. destruct Vd as [_ Vt]. pose proof (W_append_tree lower st l t s Hw (ltb_lt' _ _ Vt)) as K.
    destruct (append_tree lower st l t s) as [s1 ok]. exact K.
  - (* Insert *) destruct (valid_list st l && valid_tree st t) eqn:Vd; [|els].
    apply andb_prop in Vd. destruct Vd as [_ Vt]. apply ltb_lt' in Vt.
    pose proof (W_import_tree lower st (l_ns (getlist st l)) t s Hw) as K.
    destruct (import_tree lower st (l_ns (getlist st l)) t s) as [s1 ok]. cbn [fst] in K. destruct ok; cbn [fst]; [|exact K].
    eapply Wle_trans; [exact K|]. apply W_set_list; [apply K|]. cbn [l_trees]. intros y Hy. apply In_insert_at in Hy.
    destruct Hy as [->|Hy]; [destruct K as [_ [_ L]]; lia | apply (W_trs_ok s1 l (Wle_W _ _ K)), Hy].
  - (* Extend *) destruct (valid_list st l && valid_src st s) eqn:Vd; [|els].
    apply andb_prop in Vd. destruct Vd as [_ Vs]. destruct (extend lower st l s) as [s1|] eqn:E; [|els]. cbn [fst].
    eapply W_extend; [exact E | exact Hw | apply src_trs, Vs].
  - (* IAdd *) destruct (valid_list st l && valid_src st s) eqn:Vd; [|els].
    apply andb_prop in Vd. destruct Vd as [_ Vs]. destruct (extend lower st l s) as [s1|] eqn:E; [|els]. cbn [fst].
    eapply W_extend; [exact E | exact Hw | apply src_trs, Vs].
  - (* AddOp *) destruct (valid_list st l && valid_src st s) eqn:Vd; [|els].
    apply andb_prop in Vd. destruct Vd as [_ Vs].
    pose proof (W_alloc_list st (mkTL (l_ns (getlist st l)) []) Hw (fun y (Hy : In y []) => match Hy with end)) as K1.
    unfold alloc_list in *. cbn [fst] in K1. cbv beta iota zeta.
    match goal with |- context [extend lower ?s1 ?nl (SrcList l)] => set (st1 := s1) in *; set (nl0 := nl) in * end.
    destruct (extend lower st1 nl0 (SrcList l)) as [s2|] eqn:E1; [|exact K1].
    pose proof (W_extend lower _ _ _ _ E1 (Wle_W _ _ K1) Logic.I) as K2.
    destruct (extend lower s2 nl0 s) as [s3|] eqn:E2; cbn [fst]; [|exact (Wle_trans _ _ _ K1 K2)].
    eapply Wle_trans; [exact K1|]. eapply Wle_trans; [exact K2|]. eapply W_extend; [exact E2 | apply K2 |].
    pose proof (src_trs st s Vs) as T. destruct s; [exact Logic.I|]. eapply trs_ok_le; [|exact T].
    destruct K1 as [_ [_ L1]]. destruct K2 as [_ [_ L2]]. lia.
  - (* SetItem *) destruct (valid_list st l && valid_tree st t) eqn:Vd; [|els].
    apply andb_prop in Vd. destruct Vd as [_ Vt]. apply ltb_lt' in Vt. cbv zeta.
    pose proof (W_import_tree lower st (l_ns (getlist st l)) t (SMigrate true) Hw) as K.
    set (s1 := fst (import_tree lower st (l_ns (getlist st l)) t (SMigrate true))) in *.
    destruct (norm_index (length (l_trees (getlist s1 l))) i) as [j|]; cbn [fst]; [|exact K].
    eapply Wle_trans; [exact K|]. apply W_set_list; [apply K|]. cbn [l_trees]. intros y Hy. apply In_upd in Hy.
    destruct Hy as [->|Hy]; [destruct K as [_ [_ L]]; lia | apply (W_trs_ok s1 l (Wle_W _ _ K)), Hy].
  - (* SetSlice *) destruct (valid_list st l && valid_src st s) eqn:Vd; [|els].
    apply andb_prop in Vd. destruct Vd as [_ Vs]. cbv zeta.
    assert (P : exists s1 v, (match s with
                 | SrcList l2 => clone_all lower st (l_ns (getlist st l)) (l_trees (getlist st l2)) []
                 | SrcTrees ts => (import_all lower st (l_ns (getlist st l)) ts, ts) end) = (s1, v)
                 /\ Wle st s1 /\ trs_ok s1 v).
    { destruct s as [l2|ts].
      - destruct (clone_all lower st (l_ns (getlist st l)) (l_trees (getlist st l2)) []) as [s1 v] eqn:C.
        exists s1, v. split; [reflexivity|]. eapply W_clone_all; [exact C | exact Hw | intros y []].
      - eexists _, _. split; [reflexivity|]. pose proof (W_import_all lower ts st (l_ns (getlist st l)) Hw) as K.
        split; [exact K|]. eapply trs_ok_le; [apply K | apply forallb_trs, Vs]. }
    destruct P as [s1 [v [E [K Vv]]]]. rewrite E.
    destruct (slice_bounds (length (l_trees (getlist s1 l))) a b) as [lo hi]. cbn [fst].
    eapply Wle_trans; [exact K|]. apply W_set_list; [apply K|]. cbn [l_trees]. intros y Hy. apply In_slice_set in Hy.
    destruct Hy as [Hy|Hy]; [apply (W_trs_ok s1 l (Wle_W _ _ K)), Hy | apply Vv, Hy].
  - (* GetSlice *) destruct (valid_list st l); [|els]. cbv zeta.
    destruct (slice_bounds (length (l_trees (getlist st l))) a b) as [lo hi].
    pose proof (W_alloc_list st (mkTL (l_ns (getlist st l)) []) Hw (fun y (Hy : In y []) => match Hy with end)) as K1.
    unfold alloc_list in *. cbn [fst] in *. eapply Wle_trans; [exact K1|]. apply W_append_all; [apply K1|].
    intros y Hy. apply In_slice_get in Hy. apply (W_trs_ok st l Hw), Hy.
  - (* NewTreeIn *) destruct (valid_list st l && valid_nsopt st nsarg && forallb (valid_taxon st) refs) eqn:Vd; [|els].
    apply andb_prop in Vd. destruct Vd as [_ Vr]. apply forallb_vals in Vr. cbv zeta.
    destruct (match nsarg with Some a => Nat.eqb a (l_ns (getlist st l)) | None => true end); [|els].
    pose proof (W_add_members refs st (l_ns (getlist st l)) Hw Vr) as K.
    pose proof (W_alloc_tree (add_members st (l_ns (getlist st l)) refs) (mkTree (l_ns (getlist st l)) refs) (Wle_W _ _ K)) as K2.
    unfold alloc_tree in *. cbn [fst] in *.
    assert (K3 := K2 (vals_le _ _ _ (proj1 (proj2 K)) Vr)).
    eapply Wle_trans; [exact K|]. eapply Wle_trans; [exact K3|]. apply W_list_push; [apply K3|].
    cbn [s_trees]. rewrite app_length. cbn [length]. lia.
  - (* ReadList *) destruct (valid_list st l && valid_nsopt st nsarg); [|els]. cbv zeta.
    destruct (match nsarg with Some a => Nat.eqb a (l_ns (getlist st l)) | None => true end); [|els].
    destruct (Bool.eqb cskw (ns_cs st (l_ns (getlist st l)))); [|els].
    pose proof (W_read_trees lower cskw trees st l Hw) as K. destruct (read_trees lower st l cskw trees) as [s1 ok]. exact K.
  - (* Pop *) destruct (valid_list st l); [|els]. cbv zeta.
    destruct (norm_index (length (l_trees (getlist st l))) i) as [j|]; [|els]. cbn [fst].
    apply W_set_list; [exact Hw|]. cbn [l_trees]. intros y Hy. apply In_remove_nth in Hy. apply (W_trs_ok st l Hw), Hy.
  - (* Remove *) destruct (valid_list st l && valid_tree st t); [|els]. cbv zeta.
    destruct (remove_first t (l_trees (getlist st l))) as [r|] eqn:E; [|els]. cbn [fst].
    apply W_set_list; [exact Hw|]. cbn [l_trees]. intros y Hy. apply (W_trs_ok st l Hw). eapply remove_first_In; eassumption.
  - (* MigrateList *) destruct (valid_list st l && valid_ns st n); [|els]. cbn [fst].
    destruct (migrate_list lower st l n unify []) as [s1 m1] eqn:M. cbn [fst].
    eapply W_migrate_list; [exact M | exact Hw | intros x t A; discriminate].
  - (* ReconstructList *) destruct (valid_list st l); [|els]. cbn [fst].
    destruct (reconstruct_list lower st l unify []) as [s1 m1] eqn:M. cbn [fst]. unfold reconstruct_list in M.
    eapply W_migrate_trees; [exact M | exact Hw | intros x t A; discriminate].
  - (* UpdateList *) destruct (valid_list st l); [|els]. cbn [fst]. apply W_update_trees, Hw.
  - (* PurgeList *) destruct (valid_list st l); [|els]. cbn [fst]. apply W_purge_ns, Hw.
  - (* MigrateTree *) destruct (valid_tree st t && valid_ns st n); [|els]. cbn [fst].
    destruct (migrate_tree lower st t n unify []) as [s1 m1] eqn:M. cbn [fst].
    eapply W_migrate_tree; [exact M | exact Hw | intros x t0 A; discriminate].
  - (* ReconstructTree *) destruct (valid_tree st t); [|els]. cbn [fst].
    destruct (migrate_tree lower st t (t_ns (gettree st t)) unify []) as [s1 m1] eqn:M. cbn [fst].
    eapply W_migrate_tree; [exact M | exact Hw | intros x t0 A; discriminate].
  - (* UpdateTree *) destruct (valid_tree st t); [|els]. cbn [fst]. apply W_update_tree, Hw.
  - (* PurgeTree *) destruct (valid_tree st t); [|els]. cbn [fst]. apply W_purge_ns, Hw.
  - (* ArrayAdd *) destruct (valid_ns st n && valid_tree st t); [|els].
    destruct (Nat.eqb (t_ns (gettree st t)) n); [|els].
    destruct (forallb (fun x => memb x (members st n)) (t_refs (gettree st t))); els.
  - (* NewSeq *) destruct (valid_mat st m && valid_taxon st x) eqn:Vd; [|els].
    apply andb_prop in Vd. destruct Vd as [_ Vx]. apply ltb_lt' in Vx. cbv zeta.
    destruct (memb x (m_rows (getmat st m))) eqn:Mb; [els|].
    destruct (negb (memb x (members st (m_ns (getmat st m))))); [els|]. cbn [fst].
    apply W_set_mat; [exact Hw|]. cbn [m_rows]. destruct (W_rows_ok st m Hw) as [Nd V]. apply memb_false in Mb.
    split; [apply NoDup_snoc; assumption|]. intros y Hy. apply in_app_or in Hy.
    destruct Hy as [Hy|[Hy|[]]]; [apply V, Hy | subst; exact Vx].
  - (* SetRow *) destruct (valid_mat st m && match k with KeyTaxon x => valid_taxon st x | _ => true end) eqn:Vd; [|els].
    apply andb_prop in Vd. destruct Vd as [_ Vk]. cbv zeta.
    destruct (row_key lower st (m_ns (getmat st m)) k) as [x| |] eqn:Rk; [|els|els].
    assert (Vx : x < length (s_lab st)).
    { eapply row_key_valid; [exact Rk | exact Hw|]. destruct k; [apply ltb_lt'; exact Vk | exact Logic.I | exact Logic.I]. }
    destruct (negb (memb x (members st (m_ns (getmat st m))))); [els|]. cbn [fst].
    apply W_set_mat; [exact Hw|]. cbn [m_rows]. destruct (W_rows_ok st m Hw) as [Nd V]. unfold add_uniq.
    destruct (memb x (m_rows (getmat st m))) eqn:Mb; [split; assumption|]. apply memb_false in Mb.
    split; [apply NoDup_snoc; assumption|]. intros y Hy. apply in_app_or in Hy.
    destruct Hy as [Hy|[Hy|[]]]; [apply V, Hy | subst; exact Vx].
  - (* MigrateMat *) destruct (valid_mat st m && valid_ns st n); [|els].
    destruct (migrate_mat lower st m n unify []) as [[s1 m1] ok] eqn:M. cbn [fst].
    eapply W_migrate_mat; [exact M | exact Hw | intros x t A; discriminate].
  - (* ReconstructMat *) destruct (valid_mat st m); [|els].
    destruct (migrate_mat lower st m (m_ns (getmat st m)) unify []) as [[s1 m1] ok] eqn:M. cbn [fst].
    eapply W_migrate_mat; [exact M | exact Hw | intros x t A; discriminate].
  - (* UpdateMat *) destruct (valid_mat st m); [|els]. cbn [fst]. apply W_add_members; [exact Hw | apply (W_rows_ok st m Hw)].
  - (* PurgeMat *) destruct (valid_mat st m); [|els]. cbn [fst]. apply W_purge_ns, Hw.
  - (* Attach *) destruct (valid_ds st d && valid_ns st n); [|els]. cbn [fst]. apply W_same; try reflexivity. exact Hw.
  - (* Detach *) destruct (valid_ds st d); [|els]. cbn [fst]. apply W_same; try reflexivity. exact Hw.
  - (* DsAdd *) destruct (valid_ds st d); [|els]. destruct o as [n|l|m].
    + destruct (valid_ns st n); [|els]. cbn [fst]. apply W_same; try reflexivity. exact Hw.
    + destruct (valid_list st l); [|els]. cbn [fst]. apply W_same; try reflexivity. exact Hw.
    + destruct (valid_mat st m); [|els]. cbn [fst]. apply W_same; try reflexivity. exact Hw.
  - (* DsNewList *) destruct (valid_ds st d && valid_nsopt st nsarg); [|els].
    destruct (ds_pick_ns st d nsarg) as [[s1 n]|] eqn:P; [|els].
    pose proof (W_ds_pick_ns _ _ _ _ _ P Hw) as K.
    pose proof (W_alloc_list s1 (mkTL n []) (Wle_W _ _ K) (fun y (Hy : In y []) => match Hy with end)) as K2.
    unfold alloc_list in *. cbn [fst] in *. eapply Wle_trans; [exact K|]. samew K2.
  - (* DsNewMat *) destruct (valid_ds st d && valid_nsopt st nsarg); [|els].
    destruct (ds_pick_ns st d nsarg) as [[s1 n]|] eqn:P; [|els].
    pose proof (W_ds_pick_ns _ _ _ _ _ P Hw) as K.
    pose proof (W_alloc_mat s1 (mkMat n []) (Wle_W _ _ K) (conj (NoDup_nil _) (fun y (Hy : In y []) => match Hy with end))) as K2.
    unfold alloc_mat in *. cbn [fst] in *. eapply Wle_trans; [exact K|]. samew K2.
  - (* DsReadTrees *) destruct (valid_ds st d && valid_nsopt st nsarg); [|els].
    destruct (ds_read_ns st d nsarg) as [[s1 n]|] eqn:P; [|els].
    pose proof (W_ds_read_ns _ _ _ _ _ P Hw) as K.
    pose proof (W_alloc_list s1 (mkTL n []) (Wle_W _ _ K) (fun y (Hy : In y []) => match Hy with end)) as K2.
    unfold alloc_list in *. cbn [fst] in K2. cbv beta iota zeta.
    match type of K2 with Wle _ ?s => set (s2 := s) in * end.
    assert (K3 : Wle st (ds_add_list s2 d (length (s_lists s1)))) by (eapply Wle_trans; [exact K|]; samew K2).
    destruct sc.
    + destruct (Bool.eqb cskw (ns_cs (ds_add_list s2 d (length (s_lists s1))) n)); [|exact K3].
      pose proof (W_read_trees lower cskw trees _ (length (s_lists s1)) (Wle_W _ _ K3)) as K4.
      destruct (read_trees lower (ds_add_list s2 d (length (s_lists s1))) (length (s_lists s1)) cskw trees) as [s4 ok].
      cbn [fst] in *. eapply Wle_trans; eassumption.
    + destruct (Bool.eqb cskw (ns_cs s1 n)); [|exact K]. destruct trees as [|t0 tr0]; [exact K|].
      pose proof (W_read_trees lower cskw (t0 :: tr0) _ (length (s_lists s1)) (Wle_W _ _ K3)) as K4.
      destruct (read_trees lower (ds_add_list s2 d (length (s_lists s1))) (length (s_lists s1)) cskw (t0 :: tr0)) as [s4 ok].
      cbn [fst] in *. eapply Wle_trans; eassumption.
  - (* DsReadFasta *) destruct (valid_ds st d && valid_nsopt st nsarg); [|els].
    destruct (ds_read_ns st d nsarg) as [[s1 n]|] eqn:P; [|els].
    pose proof (W_ds_read_ns _ _ _ _ _ P Hw) as K.
    pose proof (W_alloc_mat s1 (mkMat n []) (Wle_W _ _ K) (conj (NoDup_nil _) (fun y (Hy : In y []) => match Hy with end))) as K2.
    unfold alloc_mat in *. cbn [fst] in K2. cbv beta iota zeta.
    match type of K2 with Wle _ ?s => set (s2 := s) in * end.
    assert (K3 : Wle st (ds_add_mat s2 d (length (s_mats s1)))) by (eapply Wle_trans; [exact K|]; samew K2).
    pose proof (W_read_rows lower rows _ (length (s_mats s1)) (Wle_W _ _ K3)) as K4.
    destruct (read_rows lower (ds_add_mat s2 d (length (s_mats s1))) (length (s_mats s1)) rows) as [s4 ok].
    cbn [fst] in *. eapply Wle_trans; eassumption.
  - (* Unify *) destruct (valid_ds st d && valid_nsopt st nsarg); [|els]. cbv zeta.
    assert (P : forall s3 target ok,
      (match d_nss (getds st d), d_lists (getds st d), d_mats (getds st d) with
       | [], [], [] => (st, nsarg, true)
       | _, _, _ =>
         let st0 := set_ds st d (mkDS (d_att (getds st d)) [] (d_lists (getds st d)) (d_mats (getds st d))) in
         let '(st1, n) := match nsarg with
                          | Some n => (st0, n)
                          | None => let '(s, n) := alloc_ns st0 false in (ds_add_ns s d n, n)
                          end in
         let '(st2, memo) := unify_lists lower st1 n (d_lists (getds st d)) [] in
         let '(st3, ok) := unify_mats lower st2 n (d_mats (getds st d)) memo in
         (st3, Some n, ok)
       end) = (s3, target, ok) -> Wle st s3).
    { intros s3 target ok E.
      assert (G : forall st0 : state, Wle st st0 ->
        (let '(st1, n) := match nsarg with
                          | Some n => (st0, n)
                          | None => let '(s, n) := alloc_ns st0 false in (ds_add_ns s d n, n)
                          end in
         let '(st2, memo) := unify_lists lower st1 n (d_lists (getds st d)) [] in
         let '(st3, ok) := unify_mats lower st2 n (d_mats (getds st d)) memo in
         (st3, Some n, ok)) = (s3, target, ok) -> Wle st s3).
      { intros st0 K0 E0.
        destruct (match nsarg with
                  | Some n => (st0, n)
                  | None => let '(s, n) := alloc_ns st0 false in (ds_add_ns s d n, n)
                  end) as [s1 n] eqn:Q.
        assert (K1 : Wle st s1).
        { destruct nsarg; [injection Q as <- _; exact K0|]. unfold alloc_ns in Q. cbv beta iota zeta in Q.
          injection Q as <- _. samew K0. }
        destruct (unify_lists lower s1 n (d_lists (getds st d)) []) as [s2 memo] eqn:U.
        destruct (W_unify_lists lower _ _ _ _ _ _ U (Wle_W _ _ K1)) as [K2 M2]. { intros x t A; discriminate. }
        pose proof (W_unify_mats lower n (d_mats (getds st d)) s2 memo (Wle_W _ _ K2) M2) as K3.
        destruct (unify_mats lower s2 n (d_mats (getds st d)) memo) as [s3' ok']. cbn [fst] in K3.
        injection E0 as <- _ _. eapply Wle_trans; [exact K1|]. eapply Wle_trans; eassumption. }
      assert (K0 : Wle st (set_ds st d (mkDS (d_att (getds st d)) [] (d_lists (getds st d)) (d_mats (getds st d)))))
        by (apply W_same; try reflexivity; exact Hw).
      destruct (d_nss (getds st d)); destruct (d_lists (getds st d)) eqn:EL; destruct (d_mats (getds st d)) eqn:EM;
        try (injection E as <- _ _; apply Wle_refl, Hw); try (rewrite <- ?EL, <- ?EM in *; eapply G; [exact K0 | exact E]). }
    match goal with |- Wle _ (fst (match ?e with pair _ _ => _ end)) => destruct e as [[s3 target] ok] eqn:E end.
    assert (K : Wle st s3) by (first [apply (P s3 target ok eq_refl) | (pose proof (P s3 target ok) as K0; cbv zeta in K0; exact (K0 E))]).
    destruct ok; [|exact K]. destruct attach; [|exact K]. destruct target; [|exact K]. cbn [fst]. samew K.
Qed.

End Step.

Section Step78.
Variable lower : lbl -> lbl.

Lemma taxa_wf_W : forall x, taxa_wf x <-> (W (x_st x) /\ forall k, memo_valid (x_st x) (getmemo x k)).
Proof.
  intro x. unfold taxa_wf, W. split.
  - intros [A [B [C [D E]]]]. split; [split; [exact A|split; [exact B|split; [exact C|exact D]]] | exact E].
  - intros [[A [B [C D]]] E]. split; [exact A|split; [exact B|split; [exact C|split; [exact D|exact E]]]].
Qed.

Lemma wf_with_st : forall x st', taxa_wf x -> Wle (x_st x) st' -> taxa_wf (with_st x st').
Proof.
  intros x st' H K. apply taxa_wf_W in H. destruct H as [_ M]. apply taxa_wf_W. cbn [x_st with_st]. split; [apply K|].
  intro k. eapply memo_valid_le; [apply K|]. exact (M k).
Qed.

Lemma wf_with_memo : forall x st' k mm, taxa_wf x -> Wle (x_st x) st' -> memo_valid st' mm -> taxa_wf (with_memo x st' k mm).
Proof.
  intros x st' k mm H K Mv. apply taxa_wf_W in H. destruct H as [_ M]. apply taxa_wf_W. cbn [x_st with_memo]. split; [apply K|].
  intro k'. unfold getmemo, with_memo. cbn [x_memos].
  destruct (nth_upd_cases _ (x_memos x) k mm k' []) as [E|E]; rewrite E; [exact Mv|].
  eapply memo_valid_le; [apply K|]. exact (M k').
Qed.

Lemma memo_valid_nth_app : forall st (ms : list memo) (mm : memo) k,
  (forall k, memo_valid st (nth k ms [])) -> memo_valid st mm -> memo_valid st (nth k (ms ++ [mm]) []).
Proof.
  intros st ms mm k H Hm. destruct (nth_app1_cases _ ms mm k []) as [E|E]; rewrite E; [exact Hm | apply H].
Qed.

Lemma taxa_wf_step7 : forall x o, taxa_wf x -> taxa_wf (fst (step7 lower x o)).
Proof.
  intros x o H. pose proof (proj1 (taxa_wf_W x) H) as [Hw M]. destruct o; cbn [step7].
  - pose proof (W_step lower (x_st x) o Hw) as K. destruct (step lower (x_st x) o) as [s1 r]. cbn [fst] in *.
    apply wf_with_st; assumption.
  - pose proof (W_alloc_taxon (x_st x) l Hw) as K. destruct (alloc_taxon (x_st x) l) as [s1 t]. cbn [fst] in *.
    apply wf_with_st; assumption.
  - destruct (valid_pairs (x_st x) es) eqn:V; [|exact H]. cbn [fst]. apply taxa_wf_W. cbn [x_st]. split; [exact Hw|].
    intro k. unfold getmemo. cbn [x_memos]. apply memo_valid_nth_app; [exact M|].
    intros a t A. apply alookup_In in A. apply in_rev in A. unfold valid_pairs in V.
    pose proof (forallb_In _ _ _ _ V A) as P. cbv beta in P. cbn [fst snd] in P. apply andb_prop in P. apply ltb_lt', P.
  - destruct (valid_mat (x_st x) m); [|exact H].
    pose proof (W_alloc_mat (x_st x) (mkMat (m_ns (getmat (x_st x) m)) (m_rows (getmat (x_st x) m))) Hw (W_rows_ok _ m Hw)) as K.
    destruct (alloc_mat (x_st x) (mkMat (m_ns (getmat (x_st x) m)) (m_rows (getmat (x_st x) m)))) as [s1 c]. cbn [fst] in *.
    apply wf_with_st; assumption.
  - destruct (valid_list (x_st x) l); [|exact H].
    pose proof (W_alloc_list (x_st x) (mkTL (l_ns (getlist (x_st x) l)) (l_trees (getlist (x_st x) l))) Hw (W_trs_ok _ l Hw)) as K.
    destruct (alloc_list (x_st x) (mkTL (l_ns (getlist (x_st x) l)) (l_trees (getlist (x_st x) l)))) as [s1 c]. cbn [fst] in *.
    apply wf_with_st; assumption.
  - destruct (valid_list (x_st x) l && valid_tree (x_st x) t && valid_memo x k) eqn:Vd; [|exact H].
    apply andb_prop in Vd. destruct Vd as [Vd _]. apply andb_prop in Vd. destruct Vd as [_ Vt]. apply ltb_lt' in Vt.
    destruct (import_tree_m lower (x_st x) (l_ns (getlist (x_st x) l)) t s (getmemo x k)) as [[s1 ok] mm] eqn:Q.
    destruct (W_import_tree_m lower _ _ _ _ _ _ _ _ Q Hw (M k)) as [K Mv]. destruct ok; cbn [fst]; [|apply wf_with_memo; assumption].
    assert (K2 : Wle s1 (list_push s1 l t)) by (apply W_list_push; [apply K | destruct K as [_ [_ L]]; lia]).
    apply wf_with_memo; [exact H | exact (Wle_trans _ _ _ K K2) | eapply memo_valid_le; [apply K2 | exact Mv]].
  - destruct (valid_list (x_st x) l && valid_tree (x_st x) t && valid_memo x k) eqn:Vd; [|exact H].
    apply andb_prop in Vd. destruct Vd as [Vd _]. apply andb_prop in Vd. destruct Vd as [_ Vt]. apply ltb_lt' in Vt.
    destruct (import_tree_m lower (x_st x) (l_ns (getlist (x_st x) l)) t s (getmemo x k)) as [[s1 ok] mm] eqn:Q.
    destruct (W_import_tree_m lower _ _ _ _ _ _ _ _ Q Hw (M k)) as [K Mv]. destruct ok; cbn [fst]; [|apply wf_with_memo; assumption].
    cbv zeta.
    match goal with |- taxa_wf (with_memo x (set_list s1 l ?L) k mm) => assert (K2 : Wle s1 (set_list s1 l L)) end.
    { apply W_set_list; [apply K|]. cbn [l_trees]. intros y Hy. apply In_insert_at in Hy.
      destruct Hy as [->|Hy]; [destruct K as [_ [_ L]]; lia | apply (W_trs_ok s1 l (Wle_W _ _ K)), Hy]. }
    apply wf_with_memo; [exact H | exact (Wle_trans _ _ _ K K2) | eapply memo_valid_le; [apply K2 | exact Mv]].
  - destruct (valid_tree (x_st x) t && valid_ns (x_st x) n && valid_memo x k); [|exact H].
    destruct (migrate_tree lower (x_st x) t n u (getmemo x k)) as [s1 mm] eqn:Q. cbn [fst].
    destruct (W_migrate_tree lower _ _ _ _ _ _ _ Q Hw (M k)) as [K Mv]. apply wf_with_memo; assumption.
  - destruct (valid_tree (x_st x) t && valid_memo x k); [|exact H].
    destruct (migrate_tree lower (x_st x) t (t_ns (gettree (x_st x) t)) u (getmemo x k)) as [s1 mm] eqn:Q. cbn [fst].
    destruct (W_migrate_tree lower _ _ _ _ _ _ _ Q Hw (M k)) as [K Mv]. apply wf_with_memo; assumption.
  - destruct (valid_list (x_st x) l && valid_ns (x_st x) n && valid_memo x k); [|exact H].
    destruct (migrate_list lower (x_st x) l n u (getmemo x k)) as [s1 mm] eqn:Q. cbn [fst].
    destruct (W_migrate_list lower _ _ _ _ _ _ _ Q Hw (M k)) as [K Mv]. apply wf_with_memo; assumption.
  - destruct (valid_list (x_st x) l && valid_memo x k); [|exact H].
    destruct (reconstruct_list lower (x_st x) l u (getmemo x k)) as [s1 mm] eqn:Q. cbn [fst]. unfold reconstruct_list in Q.
    destruct (W_migrate_trees lower _ _ _ _ _ _ _ Q Hw (M k)) as [K Mv]. apply wf_with_memo; assumption.
  - destruct (valid_mat (x_st x) m && valid_ns (x_st x) n && valid_memo x k); [|exact H].
    destruct (migrate_mat lower (x_st x) m n u (getmemo x k)) as [[s1 mm] ok] eqn:Q. cbn [fst].
    destruct (W_migrate_mat lower _ _ _ _ _ _ _ _ Q Hw (M k)) as [K Mv]. apply wf_with_memo; assumption.
  - destruct (valid_mat (x_st x) m && valid_memo x k); [|exact H].
    destruct (migrate_mat lower (x_st x) m (m_ns (getmat (x_st x) m)) u (getmemo x k)) as [[s1 mm] ok] eqn:Q. cbn [fst].
    destruct (W_migrate_mat lower _ _ _ _ _ _ _ _ Q Hw (M k)) as [K Mv]. apply wf_with_memo; assumption.
Qed.

Theorem taxa_wf_step8_l : forall x o, taxa_wf x -> taxa_wf (fst (step8 lower x o)).
Proof.
  intros x o H. destruct o as [o|o].
  - cbn [step8]. apply taxa_wf_step7, H.
  - destruct (step8_badkw_cases lower x o) as [E|[E _]]; [rewrite E; apply taxa_wf_step7, H | rewrite E; exact H].
Qed.

Lemma taxa_wf_run8_l : forall ops x, taxa_wf x -> taxa_wf (run_state8 lower x ops).
Proof.
  induction ops as [|o r IH]; intros x H; [exact H|]. unfold run_state8 in *. cbn [fold_left]. apply IH. apply taxa_wf_step8_l, H.
Qed.

Theorem taxa_wf_reachable8_l : forall ops, taxa_wf (run_state8 lower x_init ops).
Proof. intro ops. apply taxa_wf_run8_l. apply taxa_wfb_sound. reflexivity. Qed.

(* the step theorem without hypothesis on the state: every state of every history (disciplined or not) *)
Theorem import_resolves_first_match_reachable8_l : forall ops o x' y r,
  step8 lower (run_state8 lower x_init ops) o = (x', y) -> succeeded y = true ->
  imports8 (run_state8 lower x_init ops) o = Some r ->
  route_ok lower (x_st (run_state8 lower x_init ops)) (x_st x') r.
Proof.
  intros ops o x' y r H S R. eapply import_resolves_first_match_step8_l; try eassumption. apply taxa_wf_reachable8_l.
Qed.

End Step78.
