(* C13: the lemmas behind Props/C13.v with every hypothesis spelled out (no auxiliary predicates). *)
From Coq Require Import ZArith List Bool Lia.
From DV Require Import Model.PyPrims Model.C13Model Proofs.C13Lists Proofs.C13Lockstep Proofs.C13Suffix
  Proofs.C13Blocks Proofs.C13Routes Proofs.C13Attach Proofs.C13Newick Proofs.C13Namespace Proofs.C13Final
  Proofs.C13Examples Proofs.C13Fuel.
Import ListNotations.
Open Scope Z_scope.

Section S.
Variable T : Type.
Variables lower upper : str -> str.
Variable parse_tree : mapper -> tz -> res (option T * mapper * tz).
Variable set_label : T -> option str -> T.
Variable add_comments : T -> list str -> T.
Variable vl : bool.
Variable vs : bool.
Variables va vk : bool.

Hypothesis H_consumes : forall m z ot m' z',
  parse_tree m z = Ok (ot, m', z') -> exists pre, z_toks z = pre ++ z_toks z'.
Hypothesis H_upper : forall s, upper (upper s) = upper s.

Lemma nosets_of : forall d : doc,
  (vs = true \/ forall t, In t (fst d) -> is_sets_kw (Some (upper (t_text t))) = false) -> SetsOk upper vs (fst d).
Proof. intros d [H|H]; [left; exact H | right; unfold NoSets; apply Forall_forall; exact H]. Qed.

Lemma S_nexus_loops_agree : forall (nc : nscfg) (tlf : tl_factory) (ns0 : list str) (d : doc),
  (vs = true \/ forall t, In t (fst d) -> is_sets_kw (Some (upper (t_text t))) = false) ->
  let Y := y_items_from_stream T lower upper parse_tree set_label add_comments vl nc false
                               (doc_fuel d) (core_init nc ns0 d) (regs_init nc) in
  let R := nexus_read T lower upper parse_tree set_label add_comments vl vs (mkCfg nc tlf) ns0 d in
  match snd Y with
  | Ok (k', g') =>
    exists s, R = Ok s /\ r_k s = k' /\ r_g s = g'
              /\ match tlf with
                 | TLFixed => rs_list0 T s = fst Y
                 | TLNew => concat (rs_blocks T s) = fst Y
                 end
  | Err e => R = Err e
  | OutOfFuel => R = OutOfFuel
  end.
Proof.
  intros nc tlf ns0 d N.
  exact (nexus_loops_agree_l T lower upper parse_tree set_label add_comments vl vs H_consumes H_upper nc tlf ns0 d (nosets_of d N)).
Qed.

Lemma S_routes_agree_nexus : forall (ns0 : list str) (d : doc) ts ns,
  (vs = true \/ forall t, In t (fst d) -> is_sets_kw (Some (upper (t_text t))) = false) ->
  treelist_read T lower upper parse_tree set_label add_comments va vl vs Nexus ns0 d = Ok (ts, ns) ->
  yield_from_files T lower upper parse_tree set_label add_comments vl Nexus ns0 d = (ts, Ok ns)
  /\ (forall k, treearray_read T lower upper parse_tree set_label add_comments vl Nexus k ns0 d
                = (skipn (Z.to_nat k) ts, Ok ns)).
Proof.
  intros ns0 d ts ns N H.
  pose proof (routes_agree_nexus_l T lower upper parse_tree set_label add_comments vl vs va H_consumes H_upper ns0 d ts ns (nosets_of d N) H) as Y.
  split; [exact Y|]. intros k. rewrite treearray_l, Y. reflexivity.
Qed.

Lemma S_dataset_blocks_concat : forall (d : doc),
  (vs = true \/ forall t, In t (fst d) -> is_sets_kw (Some (upper (t_text t))) = false) ->
  (* one list per collection (what Tree.get and TreeList.get(collection_offset=..) parse) and the
     single list of TreeList.get: exact, errors included *)
  match read_blocks T lower upper parse_tree set_label add_comments vl vs Nexus (cfg_blocks va) [] d with
  | Ok (blocks, ns) => treelist_get T lower upper parse_tree set_label add_comments va vl vs Nexus d = Ok (concat blocks, ns)
  | Err e => treelist_get T lower upper parse_tree set_label add_comments va vl vs Nexus d = Err e
  | OutOfFuel => treelist_get T lower upper parse_tree set_label add_comments va vl vs Nexus d = OutOfFuel
  end
  /\
  (* DataSet.get(taxon_namespace=ns): whenever TreeList.get succeeds *)
  (forall ts ns, treelist_get T lower upper parse_tree set_label add_comments va vl vs Nexus d = Ok (ts, ns) ->
     exists blocks, dataset_get T lower upper parse_tree set_label add_comments vl vs Nexus true d = Ok blocks
                    /\ concat blocks = ts).
Proof.
  intros d N. split.
  - exact (blocks_vs_list_l T lower upper parse_tree set_label add_comments vl vs va H_consumes H_upper d (nosets_of d N)).
  - intros ts ns H.
    exact (dataset_attached_l T lower upper parse_tree set_label add_comments vl vs va H_consumes H_upper d ts ns (nosets_of d N) H).
Qed.

Lemma S_offset_selection : forall (d : doc),
  (vs = true \/ forall t, In t (fst d) -> is_sets_kw (Some (upper (t_text t))) = false) ->
  forall blocks ns,
  read_blocks T lower upper parse_tree set_label add_comments vl vs Nexus (cfg_blocks va) [] d = Ok (blocks, ns) ->
  treelist_get T lower upper parse_tree set_label add_comments va vl vs Nexus d = Ok (concat blocks, ns)
  /\ (forall c k, tree_get T lower upper parse_tree set_label add_comments va vk vl vs Nexus c k d
                  = select_tree T set_label vk blocks (match c with Some c => c | None => 0 end)
                                (match k with Some k => k | None => 0 end))
  /\ (forall (c k : nat) b t, nth_error blocks c = Some b -> nth_error b k = Some t ->
        tree_get T lower upper parse_tree set_label add_comments va vk vl vs Nexus (Some (Z.of_nat c)) (Some (Z.of_nat k)) d
        = Ok (got_label T set_label vk t)
        /\ nth_error (concat blocks) (length (concat (firstn c blocks)) + k) = Some t)
  /\ (forall c k, (c <> None \/ k <> None) ->
        treelist_get_off T lower upper parse_tree set_label add_comments va vl vs Nexus c k d
        = select_offsets T blocks (match c with Some c => c | None => 0 end) k).
Proof.
  intros d N blocks ns H.
  exact (offset_selection_nexus_l T lower upper parse_tree set_label add_comments vl vs va vk H_consumes H_upper d (nosets_of d N) blocks ns H).
Qed.

(* what select_tree / select_offsets compute: Python indexing, spelled out *)
Lemma S_select_tree_cases : forall (blocks : list (list T)) (c k : Z),
  (blocks = [] -> select_tree T set_label vk blocks c k = Err ValueErr)
  /\ (blocks <> [] -> (Z.of_nat (length blocks) <= c \/ c < - Z.of_nat (length blocks)) ->
        select_tree T set_label vk blocks c k = Err IndexErr)
  /\ (forall (i : nat) b, nth_error blocks i = Some b -> (c = Z.of_nat i \/ c = Z.of_nat i - Z.of_nat (length blocks)) ->
        (b = [] -> select_tree T set_label vk blocks c k = Err ValueErr)
        /\ (b <> [] -> (Z.of_nat (length b) <= k \/ k < - Z.of_nat (length b)) ->
              select_tree T set_label vk blocks c k = Err IndexErr)
        /\ (forall (j : nat) t, nth_error b j = Some t -> (k = Z.of_nat j \/ k = Z.of_nat j - Z.of_nat (length b)) ->
              select_tree T set_label vk blocks c k = Ok (got_label T set_label vk t))).
Proof.
  intros blocks c k. rewrite select_tree_spec.
  assert (IDX : forall A (l : list A) (i : nat) x z, nth_error l i = Some x ->
            (z = Z.of_nat i \/ z = Z.of_nat i - Z.of_nat (length l)) -> py_index l z = Some x).
  { intros A l i x z Hx [E|E]; subst z.
    - apply py_index_nat. assumption.
    - assert (i < length l)%nat by (apply nth_error_Some; congruence).
      replace (Z.of_nat i - Z.of_nat (length l)) with (- Z.of_nat (length l - i)) by lia.
      apply py_index_neg; [lia|]. replace (length l - (length l - i))%nat with i by lia. assumption. }
  split; [intros E; subst; reflexivity|]. split.
  - intros Hne [H|H]; destruct blocks as [|b0 r]; try congruence.
    + rewrite py_index_out by assumption. reflexivity.
    + rewrite py_index_below by assumption. reflexivity.
  - intros i b Hb Hc. destruct blocks as [|b0 r]; [destruct i; discriminate|].
    rewrite (IDX _ _ _ _ _ Hb Hc). split; [intros E; subst; reflexivity|]. split.
    + intros Hne [H|H]; destruct b as [|x q]; try congruence.
      * rewrite py_index_out by assumption. reflexivity.
      * rewrite py_index_below by assumption. reflexivity.
    + intros j t Ht Hk. destruct b as [|x q]; [destruct j; discriminate|].
      rewrite (IDX _ _ _ _ _ Ht Hk). reflexivity.
Qed.

End S.

(* shared namespace *)
Lemma S_shared_namespace : forall (lower : str -> str) (ns : list str) (b b2 : bool) (l l2 : str),
  NoDup (map lower ns) -> lower l2 = lower l ->
  (b = false \/ assoc l (m_numbers (new_mapper lower ns b)) = None) ->
  let r := require_taxon_for_symbol lower (new_mapper lower ns b) l in
  (exists l', nth_error (m_ns (snd r)) (fst r) = Some l' /\ lower l' = lower l)
  /\ (m_ns (snd r) = ns \/ m_ns (snd r) = ns ++ [l])
  /\ NoDup (map lower (m_ns (snd r)))
  /\ require_taxon_for_symbol lower (new_mapper lower (m_ns (snd r)) b2) l2
     = (fst r, new_mapper lower (m_ns (snd r)) b2)
  /\ fst (ns_require_taxon lower ns l) = fst r /\ snd (ns_require_taxon lower ns l) = m_ns (snd r).
Proof.
  intros lower ns b b2 l l2 ND E Hn r.
  destruct (shared_namespace_l lower ns b b2 l l2 ND E Hn) as [A [B [C D]]].
  destruct (ns_require_agrees_with_mapper lower ns b l ND Hn) as [F G].
  repeat split; assumption.
Qed.

Lemma S_read_twice : forall T lower upper parse_tree set_label add_comments va vl vs sch ns0 d,
  treelist_read_twice T lower upper parse_tree set_label add_comments va vl vs sch ns0 d =
  match treelist_read T lower upper parse_tree set_label add_comments va vl vs sch ns0 d with
  | Ok (_, ns1) => treelist_read T lower upper parse_tree set_label add_comments va vl vs sch ns1 d
  | Err e => Err e
  | OutOfFuel => OutOfFuel
  end.
Proof.
  intros. unfold treelist_read_twice.
  destruct (treelist_read T lower upper parse_tree set_label add_comments va vl vs sch ns0 d) as [[ts ns1]|e|]; reflexivity.
Qed.

Lemma S_newick_grows : forall T lower upper parse_tree set_label add_comments va vl vs,
  (forall m z ot m' z', parse_tree m z = Ok (ot, m', z') -> exists r, m_ns m' = m_ns m ++ r) ->
  forall ns0 d ts ns1,
  treelist_read T lower upper parse_tree set_label add_comments va vl vs Newick ns0 d = Ok (ts, ns1) ->
  exists r, ns1 = ns0 ++ r.
Proof.
  intros T lower upper parse_tree set_label add_comments va vl vs H ns0 d ts ns1 E.
  exact (newick_read_grows T lower upper parse_tree set_label add_comments va vl vs H ns0 d ts ns1 E).
Qed.

(* the hypotheses are satisfiable: the skeleton parser and ASCII upper-casing of the correspondence run *)
Lemma S_hypotheses_satisfiable :
  (forall m z ot m' z', sk_parse_tree (lower_with []) m z = Ok (ot, m', z') ->
     (exists pre, z_toks z = pre ++ z_toks z') /\ (exists r, m_ns m' = m_ns m ++ r))
  /\ (forall m z, sk_parse_tree (lower_with []) m z <> OutOfFuel)
  /\ (forall s, upper_with [] (upper_with [] s) = upper_with [] s).
Proof.
  split; [|split].
  - intros m z ot m' z' H. exact (sk_parse_tree_props (lower_with []) m z ot m' z' H).
  - exact (sk_parse_tree_nf (lower_with [])).
  - exact upper_ascii_idem.
Qed.

(* the fuel of the NEXUS drivers suffices *)
Lemma S_nexus_fuel : forall (T : Type) (lower upper : str -> str)
         (parse_tree : mapper -> tz -> res (option T * mapper * tz))
         (set_label : T -> option str -> T) (add_comments : T -> list str -> T) (vl vs : bool),
  (forall m z ot m' z', parse_tree m z = Ok (ot, m', z') -> exists pre, z_toks z = pre ++ z_toks z') ->
  (forall m z, parse_tree m z <> OutOfFuel) ->
  forall (nc : nscfg) (ns0 : list str) (d : doc),
  snd (y_items_from_stream T lower upper parse_tree set_label add_comments vl nc false
                           (doc_fuel d) (core_init nc ns0 d) (regs_init nc)) <> OutOfFuel
  /\ ((forall s, upper (upper s) = upper s) ->
      (vs = true \/ forall t, In t (fst d) -> is_sets_kw (Some (upper (t_text t))) = false) ->
      forall tlf, nexus_read T lower upper parse_tree set_label add_comments vl vs (mkCfg nc tlf) ns0 d <> OutOfFuel).
Proof.
  intros T lower upper parse_tree set_label add_comments vl vs HC HN nc ns0 d.
  assert (Y : snd (y_items_from_stream T lower upper parse_tree set_label add_comments vl nc false
                           (doc_fuel d) (core_init nc ns0 d) (regs_init nc)) <> OutOfFuel).
  { apply (y_items_nf T lower upper parse_tree set_label add_comments vl nc false HC HN).
    unfold len, core_init, doc_tz, tz_init, doc_fuel. simpl. lia. }
  split; [exact Y|].
  intros HU NS tlf R.
  pose proof (S_nexus_loops_agree T lower upper parse_tree set_label add_comments vl vs HC HU nc tlf ns0 d NS) as A.
  cbv zeta in A.
  destruct (snd (y_items_from_stream T lower upper parse_tree set_label add_comments vl nc false
                           (doc_fuel d) (core_init nc ns0 d) (regs_init nc))) as [[k' g']|e|].
  - destruct A as [s [E _]]. congruence.
  - congruence.
  - apply Y. reflexivity.
Qed.
