(* C12, second wave: ownership of the rebuilt annotation-set containers.

   Inv3   every AnnotationSet built by `annotations.add` belongs to ONE annotable copy, and every
          container (_item_list / _item_set) to ONE annotation set.
   FrameFrom EX s0 s   the annotation sets (and their containers) that annotable copies had at state s0
          are the same objects with the same bodies at state s.
   Every nested `copy.deepcopy` call satisfies FrameFrom from its start state: it only builds annotation
   sets for objects it allocates itself. *)
From Coq Require Import ZArith List Bool Lia.
From DV Require Import Model.PyPrims Model.C12Model Proofs.C12Heap Proofs.C12Inv Proofs.C12Copy Proofs.C12Iso.
Import ListNotations.
Open Scope Z_scope.

Section Own.
Variable h0 : heap.
Variable seeds : list Z.
Notation n0 := (hlen h0).
Notation Inv := (Inv h0 seeds).
Notation Inv2 := (Inv2 h0).

Definition is_cont_key (k : val) : Prop := k = NM_ILIST \/ k = NM_ISET.

Record Inv3 (s : st) : Prop := mkInv3 {
  own_ann : forall y1 y2 ob1 ob2 sy, n0 <= y1 -> n0 <= y2 ->
    hget (sh s) y1 = Some ob1 -> hget (sh s) y2 = Some ob2 ->
    is_annk (okind ob1) = true -> is_annk (okind ob2) = true ->
    bget (obody ob1) NM_ANN = Some (R sy) -> bget (obody ob2) NM_ANN = Some (R sy) -> y1 = y2;
  own_cont : forall s1 s2 ob1 ob2 k1 k2 l, n0 <= s1 -> n0 <= s2 ->
    hget (sh s) s1 = Some ob1 -> hget (sh s) s2 = Some ob2 ->
    okind ob1 = KAnnSet -> okind ob2 = KAnnSet -> is_cont_key k1 -> is_cont_key k2 ->
    bget (obody ob1) k1 = Some (R l) -> bget (obody ob2) k2 = Some (R l) -> s1 = s2
}.

(* no annotable copy has sy as its annotation set / no annotation set has l as a container *)
Definition unref_ann (s : st) (sy : Z) : Prop :=
  forall y ob, n0 <= y -> hget (sh s) y = Some ob -> is_annk (okind ob) = true ->
    bget (obody ob) NM_ANN <> Some (R sy).

Definition unref_cont (s : st) (l : Z) : Prop :=
  forall y ob k, n0 <= y -> hget (sh s) y = Some ob -> okind ob = KAnnSet -> is_cont_key k ->
    bget (obody ob) k <> Some (R l).

Definition own_side (s : st) (t : Z) (k v : val) : Prop :=
  forall ob, hget (sh s) t = Some ob ->
    (is_annk (okind ob) = true -> k = NM_ANN -> forall sy, v = R sy -> unref_ann s sy)
    /\ (okind ob = KAnnSet -> is_cont_key k -> forall l, v = R l -> unref_cont s l).

Lemma own_side_key : forall s t k v, k <> NM_ANN -> k <> NM_ILIST -> k <> NM_ISET -> own_side s t k v.
Proof. intros s t k v H1 H2 H3 ob _. split; intros; [contradiction|]. destruct H0; contradiction. Qed.

Lemma own_side_kind : forall s t k v kd, kind_at (sh s) t = Some kd ->
  (is_annk kd = true -> k <> NM_ANN) -> kd <> KAnnSet -> own_side s t k v.
Proof.
  intros s t k v kd K H1 H2 ob G. unfold kind_at in K. rewrite G in K. inversion K; subst kd.
  split; [|intro; contradiction]. intros A E. exfalso. apply H1; assumption.
Qed.

Lemma own_side_prim : forall s t k p, own_side s t k (P p).
Proof. intros s t k p ob _. split; intros; discriminate. Qed.

(* references in the bodies of fresh objects are below the heap length: a brand-new object is unreferenced *)
Lemma unref_ann_new : forall s sy, Inv s -> hlen (sh s) <= sy -> unref_ann s sy.
Proof.
  intros s sy IV H y ob Hy G AK B.
  assert (X := fresh_refs_lt h0 seeds s y ob NM_ANN (R sy) sy IV Hy G (bget_In _ _ _ B) (or_intror eq_refl)). lia.
Qed.

Lemma unref_cont_new : forall s l, Inv s -> hlen (sh s) <= l -> unref_cont s l.
Proof.
  intros s l IV H y ob k Hy G KS CK B.
  assert (X := fresh_refs_lt h0 seeds s y ob k (R l) l IV Hy G (bget_In _ _ _ B) (or_intror eq_refl)). lia.
Qed.

Lemma inv3_alloc : forall s x, Inv3 s -> Inv s ->
  (is_annk (okind x) = true -> bget (obody x) NM_ANN = None) ->
  (okind x = KAnnSet -> bget (obody x) NM_ILIST = None /\ bget (obody x) NM_ISET = None) ->
  Inv3 (fst (alloc s x)).
Proof.
  intros s x [OA OC] IV NA NS.
  assert (OLD : forall y ob, hget (sh s ++ [x]) y = Some ob -> y <> hlen (sh s) -> hget (sh s) y = Some ob).
  { intros y ob G NE. assert (R0 := hget_Some_range _ _ _ G). rewrite hlen_app1 in R0.
    rewrite hget_app_old in G by lia. exact G. }
  constructor; simpl.
  - intros y1 y2 ob1 ob2 sy H1 H2 G1 G2 A1 A2 B1 B2.
    destruct (Z.eq_dec y1 (hlen (sh s))) as [E1|E1].
    { subst y1. rewrite hget_app_new in G1. inversion G1; subst ob1. rewrite (NA A1) in B1. discriminate. }
    destruct (Z.eq_dec y2 (hlen (sh s))) as [E2|E2].
    { subst y2. rewrite hget_app_new in G2. inversion G2; subst ob2. rewrite (NA A2) in B2. discriminate. }
    eapply OA; eauto.
  - intros s1 s2 ob1 ob2 k1 k2 l H1 H2 G1 G2 K1 K2 C1 C2 B1 B2.
    destruct (Z.eq_dec s1 (hlen (sh s))) as [E1|E1].
    { subst s1. rewrite hget_app_new in G1. inversion G1; subst ob1. destruct (NS K1) as [N1 N2].
      destruct C1; subst k1; congruence. }
    destruct (Z.eq_dec s2 (hlen (sh s))) as [E2|E2].
    { subst s2. rewrite hget_app_new in G2. inversion G2; subst ob2. destruct (NS K2) as [N1 N2].
      destruct C2; subst k2; congruence. }
    exact (OC s1 s2 ob1 ob2 k1 k2 l H1 H2 (OLD _ _ G1 E1) (OLD _ _ G2 E2) K1 K2 C1 C2 B1 B2).
Qed.

Lemma inv3_alloc_empty : forall s c kd, Inv3 s -> Inv s -> Inv3 (fst (alloc s (mkObj c kd []))).
Proof. intros. apply inv3_alloc; auto; simpl; intros; auto. Qed.

Lemma inv3_same_heap : forall s s', sh s' = sh s -> Inv3 s -> Inv3 s'.
Proof. intros s s' E [OA OC]. constructor; rewrite E; assumption. Qed.

Lemma inv3_put : forall s t k v, Inv3 s -> own_side s t k v -> Inv3 (put s t k v).
Proof.
  intros s t k v [OA OC] OS. constructor.
  - intros y1 y2 ob1 ob2 sy H1 H2 G1 G2 A1 A2 B1 B2.
    apply put_get_inv in G1. apply put_get_inv in G2.
    destruct G1 as [[N1 G1]|[E1 [x1 [G1 Q1]]]]; destruct G2 as [[N2 G2]|[E2 [x2 [G2 Q2]]]].
    + exact (OA y1 y2 ob1 ob2 sy H1 H2 G1 G2 A1 A2 B1 B2).
    + subst y2 ob2. simpl in A2, B2. destruct (val_eqb NM_ANN k) eqn:EK.
      * apply val_eqb_eq in EK. subst k. rewrite bget_bset_same in B2. inversion B2; subst v.
        destruct (OS x2 G2) as [S1 _]. exfalso. exact (S1 A2 eq_refl sy eq_refl y1 ob1 H1 G1 A1 B1).
      * apply val_eqb_neq in EK. rewrite bget_bset_other in B2 by assumption.
        exact (OA y1 t ob1 x2 sy H1 H2 G1 G2 A1 A2 B1 B2).
    + subst y1 ob1. simpl in A1, B1. destruct (val_eqb NM_ANN k) eqn:EK.
      * apply val_eqb_eq in EK. subst k. rewrite bget_bset_same in B1. inversion B1; subst v.
        destruct (OS x1 G1) as [S1 _]. exfalso. exact (S1 A1 eq_refl sy eq_refl y2 ob2 H2 G2 A2 B2).
      * apply val_eqb_neq in EK. rewrite bget_bset_other in B1 by assumption.
        exact (OA t y2 x1 ob2 sy H1 H2 G1 G2 A1 A2 B1 B2).
    + congruence.
  - intros s1 s2 ob1 ob2 k1 k2 l H1 H2 G1 G2 K1 K2 C1 C2 B1 B2.
    apply put_get_inv in G1. apply put_get_inv in G2.
    destruct G1 as [[N1 G1]|[E1 [x1 [G1 Q1]]]]; destruct G2 as [[N2 G2]|[E2 [x2 [G2 Q2]]]].
    + exact (OC s1 s2 ob1 ob2 k1 k2 l H1 H2 G1 G2 K1 K2 C1 C2 B1 B2).
    + subst s2 ob2. simpl in K2, B2. destruct (val_eqb k2 k) eqn:EK.
      * apply val_eqb_eq in EK. subst k2. rewrite bget_bset_same in B2. inversion B2; subst v.
        destruct (OS x2 G2) as [_ S2]. exfalso. exact (S2 K2 C2 l eq_refl s1 ob1 k1 H1 G1 K1 C1 B1).
      * apply val_eqb_neq in EK. rewrite bget_bset_other in B2 by assumption.
        exact (OC s1 t ob1 x2 k1 k2 l H1 H2 G1 G2 K1 K2 C1 C2 B1 B2).
    + subst s1 ob1. simpl in K1, B1. destruct (val_eqb k1 k) eqn:EK.
      * apply val_eqb_eq in EK. subst k1. rewrite bget_bset_same in B1. inversion B1; subst v.
        destruct (OS x1 G1) as [_ S2]. exfalso. exact (S2 K1 C1 l eq_refl s2 ob2 k2 H2 G2 K2 C2 B2).
      * apply val_eqb_neq in EK. rewrite bget_bset_other in B1 by assumption.
        exact (OC t s2 x1 ob2 k1 k2 l H1 H2 G1 G2 K1 K2 C1 C2 B1 B2).
    + congruence.
Qed.


(* ---- the annotation sets that existed at s0 are untouched at s ------------------------------------- *)

Definition FrameFrom (EX : Z -> Prop) (s0 s : st) : Prop :=
  forall y ob, ~ EX y -> n0 <= y -> hget (sh s0) y = Some ob -> is_annk (okind ob) = true ->
    (exists ob', hget (sh s) y = Some ob' /\ okind ob' = okind ob /\ bget (obody ob') NM_ANN = bget (obody ob) NM_ANN)
    /\ forall sy, bget (obody ob) NM_ANN = Some (R sy) ->
         hget (sh s) sy = hget (sh s0) sy
         /\ forall sob k l, hget (sh s0) sy = Some sob -> is_cont_key k -> bget (obody sob) k = Some (R l) ->
              hget (sh s) l = hget (sh s0) l.

Lemma frame_refl : forall EX s, FrameFrom EX s s.
Proof. intros EX s y ob NX Hy G AK. split; [exists ob; auto|]. intros sy B. split; auto. Qed.

Lemma frame_same_heap : forall EX s0 s s', sh s' = sh s -> FrameFrom EX s0 s -> FrameFrom EX s0 s'.
Proof. intros EX s0 s s' EQ F. unfold FrameFrom. rewrite EQ. exact F. Qed.

(* the objects FrameFrom speaks about all exist in s0 *)
Lemma frame_objs_old : forall s0 y ob sy, Inv s0 -> n0 <= y -> hget (sh s0) y = Some ob ->
  bget (obody ob) NM_ANN = Some (R sy) -> sy < hlen (sh s0).
Proof.
  intros s0 y ob sy IV Hy G B.
  exact (fresh_refs_lt h0 seeds s0 y ob NM_ANN (R sy) sy IV Hy G (bget_In _ _ _ B) (or_intror eq_refl)).
Qed.

Lemma frame_alloc : forall EX s0 s x, hlen (sh s0) <= hlen (sh s) -> Inv s0 -> FrameFrom EX s0 s -> FrameFrom EX s0 (fst (alloc s x)).
Proof.
  intros EX s0 s x L IV F y ob NX Hy G AK. destruct (F y ob NX Hy G AK) as [[ob' [G' [K' B']]] C]. simpl.
  assert (Ry := hget_Some_range _ _ _ G).
  split.
  - exists ob'. rewrite hget_app_old by lia. auto.
  - intros sy B. destruct (C sy B) as [C1 C2]. assert (Rs := frame_objs_old s0 y ob sy IV Hy G B).
    split; [rewrite hget_app_old by lia; exact C1|].
    intros sob k l Gs CK Bl. rewrite <- (C2 sob k l Gs CK Bl).
    assert (Rl : l < hlen (sh s0)).
    { destruct (i_ann _ _ _ IV y ob Hy G) as [A1 _]. destruct (A1 AK _ B sy eq_refl) as [Fs _].
      exact (fresh_refs_lt h0 seeds s0 sy sob k (R l) l IV Fs Gs (bget_In _ _ _ Bl) (or_intror eq_refl)). }
    apply hget_app_old. lia.
Qed.

(* a write that does not touch the annotation sets of s0:
   (A) into an object allocated after s0, or
   (B) into a recorded copy, not replacing the `_annotations` of an annotable one *)
Lemma frame_put : forall EX s0 s t k v, Inv s0 -> Inv2 s -> FrameFrom EX s0 s ->
  (hlen (sh s0) <= t \/
   (in_range (sc s) t /\ (k <> NM_ANN \/ forall kd, kind_at (sh s) t = Some kd -> is_annk kd = false))) ->
  FrameFrom EX s0 (put s t k v).
Proof.
  intros EX s0 s t k v IV0 J F COND y ob NX Hy G AK. destruct (F y ob NX Hy G AK) as [[ob' [G' [K' B']]] C].
  assert (Ry := hget_Some_range _ _ _ G).
  assert (AK' : is_annk (okind ob') = true) by (rewrite K'; exact AK).
  split.
  - destruct (Z.eq_dec t y) as [E|E].
    + subst t. eexists. split; [apply put_get_same; exact G'|]. simpl. split; [exact K'|].
      destruct COND as [CA|[_ [CB|CB]]]; [lia | |].
      * rewrite bget_bset_other by (intro X; apply CB; symmetry; exact X). exact B'.
      * exfalso. assert (X := CB (okind ob')). unfold kind_at in X. rewrite G' in X. specialize (X eq_refl). congruence.
    + exists ob'. rewrite put_get_other by (intro X; apply E; symmetry; exact X). auto.
  - intros sy B. destruct (C sy B) as [C1 C2]. assert (Rs := frame_objs_old s0 y ob sy IV0 Hy G B).
    destruct (i_ann _ _ _ IV0 y ob Hy G) as [A1 _]. destruct (A1 AK _ B sy eq_refl) as [Fs Ks].
    assert (B'' : bget (obody ob') NM_ANN = Some (R sy)) by (rewrite B'; exact B).
    destruct (j_priv _ _ J y ob' Hy G') as [P1 _]. assert (NRs := P1 AK' sy B'').
    assert (Ts : t <> sy).
    { destruct COND as [CA|[[a Ia] _]]; [lia|]. intro X. subst t. apply NRs. exists a. exact Ia. }
    split; [rewrite put_get_other by (intro X; apply Ts; symmetry; exact X); exact C1|].
    intros sob kk l Gs CK Bl. rewrite <- (C2 sob kk l Gs CK Bl).
    assert (Rl : l < hlen (sh s0)).
    { exact (fresh_refs_lt h0 seeds s0 sy sob kk (R l) l IV0 Fs Gs (bget_In _ _ _ Bl) (or_intror eq_refl)). }
    assert (Gs' : hget (sh s) sy = Some sob) by (rewrite C1; exact Gs).
    assert (KSs : okind sob = KAnnSet).
    { unfold kind_at in Ks. rewrite Gs in Ks. inversion Ks. reflexivity. }
    destruct (j_priv _ _ J sy sob Fs Gs') as [_ P2]. assert (NRl := P2 KSs kk l CK Bl).
    apply put_get_other. destruct COND as [CA|[[a Ia] _]]; [lia|]. intro X. subst t. apply NRl. exists a. exact Ia.
Qed.

(* FrameFrom composes along a run *)
Lemma frame_trans : forall EX s0 s1 s2, FrameFrom EX s0 s1 -> FrameFrom EX s1 s2 -> FrameFrom EX s0 s2.
Proof.
  intros EX s0 s1 s2 F1 F2 y ob NX Hy G AK. destruct (F1 y ob NX Hy G AK) as [[ob1 [G1 [K1 B1]]] C1].
  assert (AK1 : is_annk (okind ob1) = true) by (rewrite K1; exact AK).
  destruct (F2 y ob1 NX Hy G1 AK1) as [[ob2 [G2 [K2 B2]]] C2].
  split; [exists ob2; split; [exact G2|]; split; congruence|].
  intros sy B. destruct (C1 sy B) as [D1 D2].
  assert (B1' : bget (obody ob1) NM_ANN = Some (R sy)) by (rewrite B1; exact B).
  destruct (C2 sy B1') as [E1 E2]. split; [congruence|].
  intros sob k l Gs CK Bl. assert (Gs1 : hget (sh s1) sy = Some sob) by (rewrite D1; exact Gs).
  rewrite (E2 sob k l Gs1 CK Bl). exact (D2 sob k l Gs CK Bl).
Qed.


(* OrderedSet.add on an annotation set that did not exist at s0, or that belongs to an object allocated
   after s0: the containers it writes are not containers of s0's annotation sets *)
Lemma frame_oset_add : forall EX s0 s sy a s', Inv s0 -> Inv s -> Inv2 s -> Inv3 s -> FrameFrom EX s0 s ->
  n0 <= sy -> kind_at (sh s) sy = Some KAnnSet ->
  (in_range (sc s) sy \/
   exists dst dob, n0 <= dst /\ (EX dst \/ hlen (sh s0) <= dst) /\ hget (sh s) dst = Some dob /\ is_annk (okind dob) = true
                   /\ bget (obody dob) NM_ANN = Some (R sy)) ->
  oset_add s sy a = Ok s' -> FrameFrom EX s0 s'.
Proof.
  intros EX s0 s sy a s' IV0 IV J J3 F Hs K WHO H. unfold oset_add in H.
  destruct (kind_at_hget _ _ _ K) as [sob [Gs KO]].
  destruct (i_ann _ _ _ IV sy sob Hs Gs) as [_ A2]. destruct (A2 KO) as [AL AS].
  unfold body_of in H at 1 2. rewrite Gs in H.
  destruct (bget (obody sob) NM_ISET) as [[?|zy]|] eqn:BZ; try discriminate.
  destruct (bget (obody sob) NM_ILIST) as [[?|ly]|] eqn:BL; try discriminate.
  destruct (AS _ eq_refl zy eq_refl) as [Fz Kz]. destruct (AL _ eq_refl ly eq_refl) as [Fl Kl].
  destruct (bget (body_of s zy) a); [inversion H; subst; exact F|].
  inversion H; subst s'. clear H.
  (* a target (one of the two containers of sy) is none of the objects FrameFrom protects *)
  assert (SAFE : forall t kt, is_cont_key kt -> bget (obody sob) kt = Some (R t) ->
                 forall kd, kind_at (sh s) t = Some kd -> (kd = KList \/ kd = KSet) ->
                 forall y ob, ~ EX y -> n0 <= y -> hget (sh s0) y = Some ob -> is_annk (okind ob) = true ->
                   t <> y /\ forall sy0, bget (obody ob) NM_ANN = Some (R sy0) ->
                     t <> sy0 /\ forall sob0 k0 l0, hget (sh s0) sy0 = Some sob0 -> is_cont_key k0 ->
                        bget (obody sob0) k0 = Some (R l0) -> t <> l0).
  { intros t kt CK Bt kd Kt KD y ob NX Hy G AK. destruct (F y ob NX Hy G AK) as [[ob' [G' [K' B']]] C].
    split.
    - intro X. subst t. unfold kind_at in Kt. rewrite G' in Kt. inversion Kt; subst kd.
      rewrite K' in KD. destruct KD as [KD|KD]; rewrite KD in AK; discriminate.
    - intros sy0 B0. destruct (C sy0 B0) as [C1 C2].
      destruct (i_ann _ _ _ IV0 y ob Hy G) as [A1 _]. destruct (A1 AK _ B0 sy0 eq_refl) as [Fs0 Ks0].
      destruct (kind_at_hget _ _ _ Ks0) as [sob0 [Gs0 KO0]].
      assert (Gs0' : hget (sh s) sy0 = Some sob0) by (rewrite C1; exact Gs0).
      split.
      + intro X. subst t. unfold kind_at in Kt. rewrite Gs0' in Kt. inversion Kt; subst kd.
        rewrite KO0 in KD. destruct KD; discriminate.
      + intros sob1 k0 l0 Gs1 CK0 Bl0 X. subst l0. rewrite Gs0 in Gs1. inversion Gs1; subst sob1.
        (* t is a container of both sy and sy0: they are the same set *)
        assert (EQ : sy = sy0) by (eapply (own_cont _ J3 sy sy0 sob sob0 kt k0 t); eassumption).
        subst sy0. assert (Rs := frame_objs_old s0 y ob sy IV0 Hy G B0).
        assert (B0' : bget (obody ob') NM_ANN = Some (R sy)) by (rewrite B'; exact B0).
        assert (AK0' : is_annk (okind ob') = true) by (rewrite K'; exact AK).
        destruct WHO as [W|[dst [dob [Hd0 [Hd [Gd [AKd Bd]]]]]]].
        { destruct (j_priv _ _ J y ob' Hy G') as [P1 _]. exact (P1 AK0' sy B0' W). }
        assert (B'' : bget (obody ob') NM_ANN = Some (R sy)) by (rewrite B'; exact B0).
        assert (AK' : is_annk (okind ob') = true) by (rewrite K'; exact AK).
        assert (EQ : dst = y) by (eapply (own_ann _ J3 dst y dob ob' sy); eassumption).
        subst dst. assert (Ry := hget_Some_range _ _ _ G). destruct Hd as [Hd|Hd]; [contradiction | lia]. }
  set (s1 := put s zy a PNone).
  assert (F1 : FrameFrom EX s0 s1).
  { intros y ob NX Hy G AK. destruct (F y ob NX Hy G AK) as [[ob' [G' [K' B']]] C].
    destruct (SAFE zy NM_ISET (or_intror eq_refl) BZ KSet Kz (or_intror eq_refl) y ob NX Hy G AK) as [T1 T2].
    split.
    - exists ob'. unfold s1. rewrite put_get_other by (intro X; apply T1; symmetry; exact X). auto.
    - intros sy0 B0. destruct (C sy0 B0) as [C1 C2]. destruct (T2 sy0 B0) as [T3 T4].
      split; [unfold s1; rewrite put_get_other by (intro X; apply T3; symmetry; exact X); exact C1|].
      intros sob0 k0 l0 Gs0 CK0 Bl0. unfold s1.
      rewrite put_get_other by (intro X; apply (T4 sob0 k0 l0 Gs0 CK0 Bl0); symmetry; exact X).
      exact (C2 sob0 k0 l0 Gs0 CK0 Bl0). }
  intros y ob NX Hy G AK. destruct (F1 y ob NX Hy G AK) as [[ob' [G' [K' B']]] C].
  destruct (SAFE ly NM_ILIST (or_introl eq_refl) BL KList Kl (or_introl eq_refl) y ob NX Hy G AK) as [T1 T2].
  split.
  - exists ob'. rewrite put_get_other by (intro X; apply T1; symmetry; exact X). auto.
  - intros sy0 B0. destruct (C sy0 B0) as [C1 C2]. destruct (T2 sy0 B0) as [T3 T4].
    split; [rewrite put_get_other by (intro X; apply T3; symmetry; exact X); exact C1|].
    intros sob0 k0 l0 Gs0 CK0 Bl0.
    rewrite put_get_other by (intro X; apply (T4 sob0 k0 l0 Gs0 CK0 Bl0); symmetry; exact X).
    exact (C2 sob0 k0 l0 Gs0 CK0 Bl0).
Qed.


(* variants of frame_put *)
Lemma frame_put_new : forall EX s0 s t k v, Inv s0 -> FrameFrom EX s0 s -> hlen (sh s0) <= t -> FrameFrom EX s0 (put s t k v).
Proof.
  intros EX s0 s t k v IV0 F Ht y ob NX Hy G AK. destruct (F y ob NX Hy G AK) as [[ob' [G' [K' B']]] C].
  assert (Ry := hget_Some_range _ _ _ G).
  split; [exists ob'; rewrite put_get_other by lia; auto|].
  intros sy B. destruct (C sy B) as [C1 C2]. assert (Rs := frame_objs_old s0 y ob sy IV0 Hy G B).
  split; [rewrite put_get_other by lia; exact C1|].
  intros sob kk l Gs CK Bl. rewrite <- (C2 sob kk l Gs CK Bl).
  destruct (i_ann _ _ _ IV0 y ob Hy G) as [A1 _]. destruct (A1 AK _ B sy eq_refl) as [Fs _].
  assert (Rl := fresh_refs_lt h0 seeds s0 sy sob kk (R l) l IV0 Fs Gs (bget_In _ _ _ Bl) (or_intror eq_refl)).
  apply put_get_other. lia.
Qed.

(* a write into a recorded copy (key other than `_annotations`), Inv2 known for the state after the write *)
Lemma frame_put_rec : forall EX s0 s t k v, Inv s0 -> Inv2 (put s t k v) -> FrameFrom EX s0 s ->
  in_range (sc s) t -> k <> NM_ANN -> FrameFrom EX s0 (put s t k v).
Proof.
  intros EX s0 s t k v IV0 J F [a Ia] NK y ob NX Hy G AK. destruct (F y ob NX Hy G AK) as [[ob' [G' [K' B']]] C].
  assert (AK' : is_annk (okind ob') = true) by (rewrite K'; exact AK).
  (* the object y after the write *)
  assert (YP : exists ob2, hget (sh (put s t k v)) y = Some ob2 /\ okind ob2 = okind ob
                           /\ bget (obody ob2) NM_ANN = bget (obody ob) NM_ANN).
  { destruct (Z.eq_dec t y) as [E|E].
    - subst t. eexists. split; [apply put_get_same; exact G'|]. simpl. split; [exact K'|].
      rewrite bget_bset_other by (intro X; apply NK; symmetry; exact X). exact B'.
    - exists ob'. rewrite put_get_other by (intro X; apply E; symmetry; exact X). auto. }
  destruct YP as [ob2 [G2 [K2 B2]]].
  split; [exists ob2; auto|].
  intros sy B. destruct (C sy B) as [C1 C2].
  destruct (i_ann _ _ _ IV0 y ob Hy G) as [A1 _]. destruct (A1 AK _ B sy eq_refl) as [Fs Ks].
  assert (AK2 : is_annk (okind ob2) = true) by (rewrite K2; exact AK).
  assert (B2' : bget (obody ob2) NM_ANN = Some (R sy)) by (rewrite B2; exact B).
  destruct (j_priv _ _ J y ob2 Hy G2) as [P1 _]. assert (NRs := P1 AK2 sy B2'). rewrite put_sc in NRs.
  assert (Ts : t <> sy) by (intro X; subst t; apply NRs; exists a; exact Ia).
  assert (Gsy : hget (sh (put s t k v)) sy = hget (sh s0) sy).
  { rewrite put_get_other by (intro X; apply Ts; symmetry; exact X). exact C1. }
  split; [exact Gsy|].
  intros sob kk l Gs CK Bl. rewrite <- (C2 sob kk l Gs CK Bl).
  assert (KSs : okind sob = KAnnSet).
  { unfold kind_at in Ks. rewrite Gs in Ks. inversion Ks. reflexivity. }
  assert (Gs' : hget (sh (put s t k v)) sy = Some sob) by (rewrite Gsy; exact Gs).
  destruct (j_priv _ _ J sy sob Fs Gs') as [_ P2]. assert (NRl := P2 KSs kk l CK Bl). rewrite put_sc in NRl.
  apply put_get_other. intro X. subst t. apply NRl. exists a. exact Ia.
Qed.

Lemma unref_cont_put : forall s t k v l, unref_cont s l -> v <> R l -> unref_cont (put s t k v) l.
Proof.
  intros s t k v l U NV y ob kk Hy G KS CK B. apply put_get_inv in G.
  destruct G as [[_ G]|[E [x [G Q]]]]; [exact (U y ob kk Hy G KS CK B)|].
  subst y ob. simpl in KS, B. destruct (val_eqb kk k) eqn:EK.
  - apply val_eqb_eq in EK. subst kk. rewrite bget_bset_same in B. congruence.
  - apply val_eqb_neq in EK. rewrite bget_bset_other in B by assumption. exact (U t x kk Hy G KS CK B).
Qed.

Lemma unref_cont_alloc_empty : forall s c kd l, unref_cont s l -> unref_cont (fst (alloc s (mkObj c kd []))) l.
Proof.
  intros s c kd l U y ob kk Hy G KS CK B. simpl in G.
  destruct (Z.eq_dec y (hlen (sh s))) as [E|E].
  - subst y. rewrite hget_app_new in G. inversion G; subst ob. discriminate B.
  - assert (R0 := hget_Some_range _ _ _ G). rewrite hlen_app1 in R0. rewrite hget_app_old in G by lia.
    exact (U y ob kk Hy G KS CK B).
Qed.


Lemma frame_weaken : forall (EX EX' : Z -> Prop) s0 s, (forall y, EX y -> EX' y) -> FrameFrom EX s0 s -> FrameFrom EX' s0 s.
Proof. intros EX EX' s0 s W F y ob NX. apply F. intro X. apply NX. apply W. exact X. Qed.

(* a write into an excluded annotable object *)
Lemma frame_put_excl : forall (EX : Z -> Prop) s0 s t k v kd, Inv s0 -> FrameFrom EX s0 s -> EX t ->
  kind_at (sh s) t = Some kd -> is_annk kd = true -> FrameFrom EX s0 (put s t k v).
Proof.
  intros EX s0 s t k v kd IV0 F Et Kt AKt y ob NX Hy G AK. destruct (F y ob NX Hy G AK) as [[ob' [G' [K' B']]] C].
  assert (Ty : y <> t) by (intro X; subst t; contradiction).
  split; [exists ob'; rewrite put_get_other by exact Ty; auto|].
  intros sy B. destruct (C sy B) as [C1 C2].
  destruct (i_ann _ _ _ IV0 y ob Hy G) as [A1 _]. destruct (A1 AK _ B sy eq_refl) as [Fs Ks].
  destruct (kind_at_hget _ _ _ Ks) as [sob [Gs KOs]].
  assert (Ts : sy <> t).
  { intro X. subst t. unfold kind_at in Kt. rewrite C1, Gs in Kt. inversion Kt; subst kd. rewrite KOs in AKt. discriminate. }
  split; [rewrite put_get_other by exact Ts; exact C1|].
  intros sob' kk l Gs' CK Bl. rewrite <- (C2 sob' kk l Gs' CK Bl).
  apply put_get_other. intro X. subst t.
  rewrite Gs in Gs'. inversion Gs'; subst sob'.
  destruct (i_ann _ _ _ IV0 sy sob Fs Gs) as [_ A2]. destruct (A2 KOs) as [AL AS].
  assert (KL : kind_at (sh s0) l = Some KList \/ kind_at (sh s0) l = Some KSet).
  { destruct CK as [CK|CK]; subst kk; [left; exact (proj2 (AL _ Bl l eq_refl)) | right; exact (proj2 (AS _ Bl l eq_refl))]. }
  assert (EQl : hget (sh s) l = hget (sh s0) l) by exact (C2 sob kk l Gs CK Bl).
  unfold kind_at in Kt, KL. rewrite EQl in Kt.
  destruct (hget (sh s0) l) as [lo|]; [|destruct KL; discriminate].
  inversion Kt; subst kd. destruct KL as [KL|KL]; inversion KL as [KK]; rewrite KK in AKt; discriminate.
Qed.

End Own.
