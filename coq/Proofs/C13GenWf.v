(* C13 (translator tie, second part): well-formed reader states - every registered namespace handle, and
   namespace 0 when the route owns one, refers to an existing namespace object - are preserved by every
   function of the model.  (Needed because the compiled TAXLABELS / TRANSLATE code updates the namespace
   object after every taxon while the model writes it back once.) *)
From Coq Require Import ZArith List Bool Lia.
From DV Require Import Model.PyPrims Model.C13Model.
Import ListNotations.

Section Wf.
Variable T : Type.
Variables lower upper : str -> str.
Variable parse_tree : mapper -> tz -> res (option T * mapper * tz).
Variable set_label : T -> option str -> T.
Variable add_comments : T -> list str -> T.
Variable vl : bool.
Variable c : nscfg.
Variable tlf : tl_factory.
Variable et : bool.
Variable vs : bool.

Definition nlen (k : core) : nat := length (k_nss k).
Definition ids_ok (k : core) (g : regs) : Prop := Forall (fun i => (i < nlen k)%nat) (g_reg g).
Definition wfk (k : core) : Prop := has_ns0 c = true -> (0 < nlen k)%nat.
Definition wfs (k : core) (g : regs) : Prop := wfk k /\ ids_ok k g.
Definition nsok (k : core) (o : option nat) : Prop := forall i, o = Some i -> (i < nlen k)%nat.
Definition wfr (s : rs T) : Prop := wfs (r_k s) (r_g s).

Lemma wfs_mono : forall k g k' g', wfs k g -> (nlen k <= nlen k')%nat -> g_reg g' = g_reg g -> wfs k' g'.
Proof.
  intros k g k' g' [W I] L R. split.
  - intros H. specialize (W H). lia.
  - unfold ids_ok in *. rewrite R. eapply Forall_impl; [|exact I]. cbn. intros; lia.
Qed.
Lemma nsok_mono : forall k k' o, nsok k o -> (nlen k <= nlen k')%nat -> nsok k' o.
Proof. intros k k' o H L i E. specialize (H i E). lia. Qed.
Lemma nsok_none : forall k, nsok k None.
Proof. intros k i E. discriminate. Qed.
Lemma nsok_some : forall k i, (i < nlen k)%nat -> nsok k (Some i).
Proof. intros k i H j E. inversion E; subst. exact H. Qed.

Lemma list_set_len' : forall (A : Type) (l : list A) i a, length (list_set l i a) = length l.
Proof. induction l as [|x l IH]; intros [|i] a; cbn; try reflexivity. rewrite IH. reflexivity. Qed.
Lemma set_ns_taxa_len : forall k i x, nlen (set_ns_taxa k i x) = nlen k.
Proof. intros. unfold nlen, set_ns_taxa. cbn. apply list_set_len'. Qed.
Lemma set_z_len : forall k z, nlen (set_z k z) = nlen k.
Proof. reflexivity. Qed.
Lemma zstep_len : forall k f k', zstep k f = Ok k' -> nlen k' = nlen k.
Proof. intros k f k' H. unfold zstep in H. destruct (f (k_z k)); cbn [bind] in H; inversion H; reflexivity. Qed.

Lemma attached_has0 : c_attached c = true -> has_ns0 c = true.
Proof. intros A. unfold has_ns0. rewrite A. destruct (c_fac c); reflexivity. Qed.

(* ---- namespaces ---- *)
Lemma new_tns_wf : forall k g t i k' g',
  wfs k g -> new_tns c k g t = (i, k', g') ->
  wfs k' g' /\ (i < nlen k')%nat /\ (nlen k <= nlen k')%nat /\ (c_attached c = true -> i = O).
Proof.
  intros k g t i k' g' [W I] H. unfold new_tns in H.
  destruct (c_attached c) eqn:A.
  { inversion H; subst. repeat split; try assumption; try lia. apply W. apply attached_has0. exact A. }
  destruct (c_fac c) as [|sl] eqn:F; inversion H; subst; clear H.
  - repeat split; try discriminate.
    + intros _. unfold nlen. cbn. rewrite app_length. cbn. lia.
    + unfold ids_ok, nlen in *. cbn. rewrite app_length. cbn. apply Forall_app. split.
      * eapply Forall_impl; [|exact I]. cbn. intros; lia.
      * constructor; [lia|constructor].
    + unfold nlen. cbn. rewrite app_length. cbn. lia.
    + unfold nlen. cbn. rewrite app_length. cbn. lia.
  - assert (P : (0 < nlen k')%nat) by (apply W; unfold has_ns0; rewrite F; reflexivity).
    repeat split; try assumption; try lia; try discriminate.
    unfold ids_ok in *. cbn. apply Forall_app. split; [exact I|]. constructor; [exact P|constructor].
Qed.

Lemma get_tns_wf : forall k g t i k' g',
  wfs k g -> get_tns upper c k g t = Ok (i, k', g') ->
  wfs k' g' /\ (i < nlen k')%nat /\ (nlen k <= nlen k')%nat.
Proof.
  intros k g t i k' g' WF H. unfold get_tns in H.
  destruct (c_attached c) eqn:A.
  { inversion H; subst. destruct WF as [W I]. repeat split; try assumption; try lia. apply W. apply attached_has0. exact A. }
  destruct t as [t|].
  - match type of H with match ?l with _ => _ end = _ => destruct l as [|j [|j2 r]] eqn:FL end; try discriminate.
    inversion H; subst. repeat split; try apply WF; try lia.
    destruct WF as [W I]. unfold ids_ok in I. rewrite Forall_forall in I. apply I.
    assert (IN : In i (filter (fun i0 => match nth i0 (g_labels g') None with
                                          | Some l => str_eqb (upper l) (upper t) | None => false end) (g_reg g'))).
    { rewrite FL. left. reflexivity. }
    apply filter_In in IN. apply IN.
  - destruct (g_reg g) as [|j [|j2 r]] eqn:R; try discriminate.
    + inversion H as [E]. destruct (new_tns_wf k g None i k' g' WF E) as [A1 [A2 [A3 _]]]. split; [exact A1 | split; assumption].
    + inversion H; subst. repeat split; try apply WF; try lia.
      destruct WF as [W I]. unfold ids_ok in I. rewrite R in I. inversion I; subst. assumption.
Qed.

Lemma loc_get_ns_wf : forall k g l i k' g',
  wfs k g -> nsok k (l_ns l) -> loc_get_ns upper c k g l = Ok (i, k', g') ->
  wfs k' g' /\ (i < nlen k')%nat /\ (nlen k <= nlen k')%nat.
Proof.
  intros k g l i k' g' WF N H. unfold loc_get_ns in H. destruct (l_ns l) as [j|] eqn:E.
  - inversion H; subst. repeat split; try apply WF; try lia. apply N. reflexivity.
  - eapply get_tns_wf; eassumption.
Qed.

(* ---- statements that write a namespace back keep the number of namespace objects ---- *)
Lemma parse_taxlabels_len : forall fuel k ns k', parse_taxlabels lower c fuel k ns = Ok k' -> nlen k' = nlen k.
Proof.
  intros fuel k ns k' H. unfold parse_taxlabels in H.
  destruct (require_next_token (k_z k)); cbn [bind] in H; try discriminate.
  destruct (taxlabels_loop lower c fuel t (ns_taxa_at k ns) (k_ntax k)) as [[taxa z2]| |]; cbn [bind] in H; try discriminate.
  inversion H; subst. rewrite set_z_len. apply set_ns_taxa_len.
Qed.
Lemma parse_translate_len : forall fuel k ns m k', parse_translate lower fuel k ns = Ok (m, k') -> nlen k' = nlen k.
Proof.
  intros fuel k ns m k' H. unfold parse_translate in H.
  destruct (translate_loop lower fuel (k_z k) _ (k_ntax k)) as [[m1 z]| |]; cbn [bind] in H; try discriminate.
  inversion H; subst. rewrite set_z_len. apply set_ns_taxa_len.
Qed.
Lemma after_tree_len : forall k ns m z, nlen (after_tree k ns m z) = nlen k.
Proof. intros. unfold after_tree. rewrite set_z_len. apply set_ns_taxa_len. Qed.

(* ---- TAXA block ---- *)
Lemma taxa_loop_wf : forall fuel k g tok tns k' g',
  wfs k g -> nsok k tns -> taxa_loop lower upper c fuel k g tok tns = Ok (k', g') -> wfs k' g'.
Proof.
  induction fuel as [|f IH]; intros k g tok tns k' g' WF N H; [discriminate|].
  cbn [taxa_loop] in H.
  destruct (str_eqb tok K_END || str_eqb tok K_ENDBLOCK); [inversion H; subst; exact WF|].
  destruct (require_next_token_ucase upper (k_z k)) as [z1|e|]; cbn [bind] in H; try discriminate.
  match type of H with bind ?r _ = _ => destruct r as [[[[token2 k2] g2] tns2]|e|] eqn:E2 end; cbn [bind] in H; try discriminate.
  assert (W2 : wfs k2 g2 /\ nsok k2 tns2).
  { destruct (str_eqb (cur_text z1) K_TITLE).
    - destruct (parse_title upper (k_z (set_z k z1))) as [[title z2]|e|]; cbn [bind] in E2; try discriminate.
      destruct (new_tns c (set_z (set_z k z1) z2) g (Some title)) as [[i k2'] g2'] eqn:E4.
      inversion E2; subst.
      destruct (new_tns_wf _ _ _ _ _ _ (wfs_mono k g (set_z (set_z k z1) z2) g WF (Nat.le_refl _) eq_refl) E4) as [A1 [A2 _]].
      split; [exact A1 | apply nsok_some; exact A2].
    - inversion E2; subst. split; [exact (wfs_mono _ _ (set_z k z1) g2 WF (Nat.le_refl _) eq_refl) | exact N]. }
  destruct W2 as [W2 N2].
  match type of H with bind ?r _ = _ => destruct r as [k3|e|] eqn:E5 end; cbn [bind] in H; try discriminate.
  assert (L3 : nlen k3 = nlen k2).
  { destruct (str_eqb token2 K_DIMENSIONS).
    - destruct (parse_dimensions upper (S f) (k_z k2) (k_ntax k2)) as [[n z3]|e|]; cbn [bind] in E5; try discriminate.
      inversion E5; subst. reflexivity.
    - inversion E5; subst. reflexivity. }
  assert (W3 : wfs k3 g2) by (apply (wfs_mono k2 g2); [exact W2 | lia | reflexivity]).
  assert (N3 : nsok k3 tns2) by (apply (nsok_mono k2); [exact N2 | lia]).
  destruct (str_eqb token2 K_TAXLABELS).
  - destruct (match tns2 with Some i => (i, k3, g2) | None => new_tns c k3 g2 None end) as [[i k4] g4] eqn:E7.
    assert (W4 : wfs k4 g4 /\ (i < nlen k4)%nat).
    { destruct tns2 as [j|].
      - inversion E7; subst. split; [exact W3 | apply N3; reflexivity].
      - destruct (new_tns_wf _ _ _ _ _ _ W3 E7) as [A1 [A2 _]]. split; assumption. }
    destruct W4 as [W4 V4].
    destruct (parse_taxlabels lower c (S f) (set_z k4 (clear_comments (k_z k4))) i) as [k5|e|] eqn:E8; cbn [bind] in H; try discriminate.
    apply parse_taxlabels_len in E8. rewrite set_z_len in E8.
    apply (IH k5 g4 token2 (Some i) k' g'); [apply (wfs_mono k4 g4); [exact W4 | lia | reflexivity] | apply nsok_some; lia | exact H].
  - apply (IH k3 g2 token2 tns2 k' g'); assumption.
Qed.

Lemma parse_taxa_block_wf : forall fuel k g k' g',
  wfs k g -> parse_taxa_block lower upper c fuel k g = Ok (k', g') -> wfs k' g'.
Proof.
  intros fuel k g k' g' WF H. unfold parse_taxa_block in H.
  destruct (zstep k (skip_to_semicolon fuel)) as [k1|e|] eqn:E1; cbn [bind] in H; try discriminate.
  destruct (taxa_loop lower upper c fuel k1 g [] None) as [[k2 g2]|e|] eqn:E2; cbn [bind] in H; try discriminate.
  destruct (zstep k2 (skip_to_semicolon fuel)) as [k3|e|] eqn:E3; cbn [bind] in H; try discriminate.
  inversion H; subst. apply zstep_len in E1. apply zstep_len in E3.
  apply taxa_loop_wf in E2; [| apply (wfs_mono k g); [exact WF | lia | reflexivity] | apply nsok_none].
  apply (wfs_mono k2 g'); [exact E2 | lia | reflexivity].
Qed.

(* ---- TREES block: reader ---- *)
Notation RTL := (r_tree_loop T upper parse_tree set_label add_comments).
Notation RTS := (r_trees_loop T lower upper parse_tree set_label add_comments vl c tlf).
Notation RTB := (r_parse_trees_block T lower upper parse_tree set_label add_comments vl c tlf et).
Notation RBL := (r_blocks_loop T lower upper parse_tree set_label add_comments vl c tlf et vs).

Lemma r_tree_loop_len : forall fuel k tls ns i m k' tls' m' tk,
  RTL fuel k tls ns i m = Ok (k', tls', m', tk) -> nlen k' = nlen k.
Proof.
  induction fuel as [|f IH]; intros k tls ns i m k' tls' m' tk H; [discriminate|].
  cbn [r_tree_loop] in H.
  destruct (parse_tree_stmt T parse_tree set_label add_comments m (k_z k)) as [[[t m1] z1]|e|]; cbn [bind] in H; try discriminate.
  destruct (z_eof z1 || cur_falsy z1); [inversion H; subst; apply after_tree_len|].
  destruct (negb (tok_is (cast_ucase upper z1) K_TREE)); [inversion H; subst; rewrite set_z_len; apply after_tree_len|].
  apply IH in H. rewrite H, set_z_len. apply after_tree_len.
Qed.

Lemma r_trees_loop_wf : forall fuel s l tb s',
  wfr s -> nsok (r_k s) (l_ns l) -> RTS fuel s l tb = Ok s' -> wfr s'.
Proof.
  induction fuel as [|f IH]; intros s l tb s' WF N H; [discriminate|].
  cbn [r_trees_loop] in H.
  destruct (loop_guard (k_z (r_k s)) (l_token l)); [|inversion H; subst; exact WF].
  destruct (zstep (r_k s) (next_token_ucase upper)) as [k1|e|] eqn:E1; cbn [bind] in H; try discriminate.
  apply zstep_len in E1.
  assert (W1 : wfs k1 (r_g s)) by (apply (wfs_mono (r_k s) (r_g s)); [exact WF | lia | reflexivity]).
  assert (N1 : nsok k1 (l_ns l)) by (apply (nsok_mono (r_k s)); [exact N | lia]).
  destruct (otok_is (z_cur (k_z k1)) K_LINK).
  { destruct (parse_link upper vl (S f) (k_z k1)) as [[lt z2]|e|]; cbn [bind] in H; try discriminate.
    apply IH in H; [exact H | exact W1 | exact N1]. }
  destruct (otok_is (z_cur (k_z k1)) K_TITLE).
  { destruct (parse_title upper (k_z k1)) as [[bt z2]|e|]; cbn [bind] in H; try discriminate.
    apply IH in H; [exact H | exact W1 | exact N1]. }
  destruct (otok_is (z_cur (k_z k1)) K_TRANSLATE).
  { destruct (loc_get_ns upper c k1 (r_g s) l) as [[[ns k2] g2]|e|] eqn:E2; cbn [bind] in H; try discriminate.
    destruct (parse_translate lower (S f) k2 ns) as [[m k3]|e|] eqn:E3; cbn [bind] in H; try discriminate.
    destruct (loc_get_ns_wf _ _ _ _ _ _ W1 N1 E2) as [W2 [V2 _]]. apply parse_translate_len in E3.
    apply IH in H; [exact H | |]; unfold wfr; cbn [r_k r_g l_ns].
    - apply (wfs_mono k2 g2); [exact W2 | lia | reflexivity].
    - apply nsok_some. lia. }
  destruct (otok_is (z_cur (k_z k1)) K_TREE).
  { destruct (loc_get_ns upper c k1 (r_g s) l) as [[[ns k2] g2]|e|] eqn:E2; cbn [bind] in H; try discriminate.
    destruct (pull_comments (k_z k2)) as [pre z3] eqn:EP.
    destruct (match tb with Some i => (i, r_tls s, r_tlreg s) | None => new_tree_list T tlf (r_tls s) (r_tlreg s) (l_title l) end)
      as [[i tls4] reg4].
    match type of H with bind ?r _ = _ => destruct r as [[[[k6 tls6] m1] tk]|e|] eqn:E3 end; cbn [bind] in H; try discriminate.
    destruct (loc_get_ns_wf _ _ _ _ _ _ W1 N1 E2) as [W2 [V2 _]]. apply r_tree_loop_len in E3. rewrite set_z_len in E3.
    apply IH in H; [exact H | |]; unfold wfr; cbn [r_k r_g l_ns].
    - apply (wfs_mono k2 g2); [exact W2 | lia | reflexivity].
    - apply nsok_some. lia. }
  destruct (otok_is (z_cur (k_z k1)) K_BEGIN); [discriminate|].
  apply IH in H; [exact H | exact W1 | exact N1].
Qed.

Lemma r_trees_block_wf : forall fuel s s', wfr s -> RTB fuel s = Ok s' -> wfr s'.
Proof.
  intros fuel s s' WF H. unfold r_parse_trees_block in H.
  destruct (negb (tok_is (cast_ucase upper (k_z (r_k s))) K_TREES)); [discriminate|].
  destruct et.
  - destruct (zstep _ _) as [k1|e|] eqn:E; cbn [bind] in H; try discriminate.
    inversion H; subst. apply zstep_len in E. rewrite set_z_len in E.
    apply (wfs_mono (r_k s) (r_g s)); [exact WF | cbn [r_k]; lia | reflexivity].
  - destruct (zstep (set_z (r_k s) (cast_ucase upper (k_z (r_k s)))) (skip_to_semicolon fuel)) as [k1|e|] eqn:E; cbn [bind] in H; try discriminate.
    match type of H with bind ?r _ = _ => destruct r as [s2|e|] eqn:E2 end; cbn [bind] in H; try discriminate.
    destruct (zstep (r_k s2) (skip_to_semicolon fuel)) as [k3|e|] eqn:E3; cbn [bind] in H; try discriminate.
    inversion H; subst. apply zstep_len in E. rewrite set_z_len in E. apply zstep_len in E3.
    apply r_trees_loop_wf in E2; [| apply (wfs_mono (r_k s) (r_g s)); [exact WF | cbn [r_k]; lia | reflexivity] | apply nsok_none].
    apply (wfs_mono (r_k s2) (r_g s2)); [exact E2 | cbn [r_k]; lia | reflexivity].
Qed.

Lemma block_head_len : forall fuel k k', block_head upper fuel k = Ok k' -> nlen k' = nlen k.
Proof.
  intros fuel k k' H. unfold block_head in H.
  destruct (zstep k (next_token_ucase upper)) as [k1|e|] eqn:E1; cbn [bind] in H; try discriminate.
  destruct (zstep k1 (scan_begin upper fuel)) as [k2|e|] eqn:E2; cbn [bind] in H; try discriminate.
  apply zstep_len in E1. apply zstep_len in E2. apply zstep_len in H. rewrite set_z_len in H. lia.
Qed.

(* ---- TREES block: iterator ---- *)
Notation YTL := (y_tree_loop T upper parse_tree set_label add_comments).
Notation YTS := (y_trees_loop T lower upper parse_tree set_label add_comments vl c).
Notation YTB := (y_trees_block T lower upper parse_tree set_label add_comments vl c et).

Lemma y_tree_loop_len : forall fuel k ns m out k' m' tk,
  YTL fuel k ns m = (out, Ok (k', m', tk)) -> nlen k' = nlen k.
Proof.
  induction fuel as [|f IH]; intros k ns m out k' m' tk H; [discriminate|].
  cbn [y_tree_loop] in H.
  destruct (parse_tree_stmt T parse_tree set_label add_comments m (k_z k)) as [[[t m1] z1]|e|]; try discriminate.
  destruct (z_eof z1 || cur_falsy z1); [inversion H; subst; apply after_tree_len|].
  destruct (negb (tok_is (cast_ucase upper z1) K_TREE)); [inversion H; subst; rewrite set_z_len; apply after_tree_len|].
  destruct (YTL f (set_z (after_tree k ns m1 z1) (cast_ucase upper z1)) ns m1) as [out2 r] eqn:E.
  inversion H; subst. apply IH in E. rewrite E, set_z_len. apply after_tree_len.
Qed.

Lemma ybind_ok_inv : forall X Y (a : yres T X) (f : X -> yres T Y) out y,
  ybind T a f = (out, Ok y) -> exists o1 x o2, a = (o1, Ok x) /\ f x = (o2, Ok y).
Proof.
  intros X Y [o1 [x| |]] f out y H; cbn in H; try discriminate.
  destruct (f x) as [o2 r] eqn:E. inversion H; subst. exists o1, x, o2. split; [reflexivity | exact E].
Qed.

Lemma y_trees_loop_wf : forall fuel k g l out k' g',
  wfs k g -> nsok k (l_ns l) -> YTS fuel k g l = (out, Ok (k', g')) -> wfs k' g'.
Proof.
  induction fuel as [|f IH]; intros k g l out k' g' WF N H; [discriminate|].
  cbn [y_trees_loop] in H.
  destruct (loop_guard (k_z k) (l_token l)); [|inversion H; subst; exact WF].
  apply ybind_ok_inv in H. destruct H as [o1 [k1 [o2 [E1 H]]]].
  unfold ylift in E1. inversion E1 as [[EO E1']]. apply zstep_len in E1'.
  assert (W1 : wfs k1 g) by (apply (wfs_mono k g); [exact WF | lia | reflexivity]).
  assert (N1 : nsok k1 (l_ns l)) by (apply (nsok_mono k); [exact N | lia]).
  destruct (otok_is (z_cur (k_z k1)) K_LINK).
  { apply ybind_ok_inv in H. destruct H as [o3 [[lt z2] [o4 [_ H]]]]. apply IH in H; [exact H | exact W1 | exact N1]. }
  destruct (otok_is (z_cur (k_z k1)) K_TITLE).
  { apply ybind_ok_inv in H. destruct H as [o3 [[bt z2] [o4 [_ H]]]]. apply IH in H; [exact H | exact W1 | exact N1]. }
  destruct (otok_is (z_cur (k_z k1)) K_TRANSLATE).
  { apply ybind_ok_inv in H. destruct H as [o3 [[[ns k2] g2] [o4 [E2 H]]]].
    apply ybind_ok_inv in H. destruct H as [o5 [[m k3] [o6 [E3 H]]]].
    unfold ylift in E2, E3. inversion E2 as [[EO2 E2']]. inversion E3 as [[EO3 E3']].
    destruct (loc_get_ns_wf _ _ _ _ _ _ W1 N1 E2') as [W2 [V2 _]]. apply parse_translate_len in E3'.
    apply IH in H; [exact H | |]; cbn [l_ns].
    - apply (wfs_mono k2 g2); [exact W2 | lia | reflexivity].
    - apply nsok_some. lia. }
  destruct (otok_is (z_cur (k_z k1)) K_TREE).
  { apply ybind_ok_inv in H. destruct H as [o3 [[[ns k2] g2] [o4 [E2 H]]]].
    unfold ylift in E2. inversion E2 as [[EO2 E2']].
    destruct (pull_comments (k_z k2)) as [pre z3] eqn:EP.
    apply ybind_ok_inv in H. destruct H as [o5 [[[k6 m1] tk] [o6 [E3 H]]]].
    destruct (loc_get_ns_wf _ _ _ _ _ _ W1 N1 E2') as [W2 [V2 _]]. apply y_tree_loop_len in E3. rewrite set_z_len in E3.
    apply IH in H; [exact H | |]; cbn [l_ns].
    - apply (wfs_mono k2 g2); [exact W2 | lia | reflexivity].
    - apply nsok_some. lia. }
  destruct (otok_is (z_cur (k_z k1)) K_BEGIN); [discriminate|].
  apply IH in H; [exact H | exact W1 | exact N1].
Qed.

Lemma y_trees_block_wf : forall fuel k g out k' g', wfs k g -> YTB fuel k g = (out, Ok (k', g')) -> wfs k' g'.
Proof.
  intros fuel k g out k' g' WF H. unfold y_trees_block in H.
  destruct (negb (tok_is (cast_ucase upper (k_z k)) K_TREES)); [discriminate|].
  destruct et.
  - unfold ylift in H. inversion H as [[EO H']].
    destruct (zstep _ _) as [k1|e|] eqn:E; cbn [bind] in H'; try discriminate.
    inversion H'; subst. apply zstep_len in E. rewrite set_z_len in E.
    apply (wfs_mono k g'); [exact WF | lia | reflexivity].
  - apply ybind_ok_inv in H. destruct H as [o1 [k1 [o2 [E1 H]]]].
    apply ybind_ok_inv in H. destruct H as [o3 [[k2 g2] [o4 [E2 H]]]].
    unfold ylift in E1, H. inversion E1 as [[EO1 E1']]. inversion H as [[EO H']].
    destruct (zstep k2 (skip_to_semicolon fuel)) as [k3|e|] eqn:E3; cbn [bind] in H'; try discriminate.
    inversion H'; subst. apply zstep_len in E1'. rewrite set_z_len in E1'. apply zstep_len in E3.
    apply y_trees_loop_wf in E2; [| apply (wfs_mono k g); [exact WF | lia | reflexivity] | apply nsok_none].
    apply (wfs_mono k2 g'); [exact E2 | lia | reflexivity].
Qed.

(* ---- the initial states of the routes ---- *)
Lemma nexus_init_wf : forall (cf : cfg) ns0 (d : doc), c_ns cf = c -> wfr (nexus_init T cf ns0 d).
Proof.
  intros cf ns0 d E. unfold wfr, wfs, nexus_init, core_init, regs_init. cbn [r_k r_g]. rewrite E. split.
  - intros H. unfold nlen. cbn. rewrite H. cbn. lia.
  - unfold ids_ok. cbn. constructor.
Qed.

End Wf.
