(* C08 wave 11 - filter_leaf_nodes(recursive=False) at the pointer level and generated: one pass over the leaves;
   an internal node emptied by the pass STAYS (restrictG with np_true as third predicate).
   C08W11Leaf.heap_filter_link (either value of `recursive`) composed with C08More.filter_nonrecursive_spec. *)
From Coq Require Import ZArith List Bool Lia.
From DV Require Import Model.PyPrims Model.Tree Model.Heap Model.HeapOps Model.C15Prims Model.MutPrims Gen.Mutators
     Model.C03GenInst Proofs.C03Base Proofs.C03GenPrims Proofs.C03GenPrune.
From DV Require Model.C08Model Proofs.C03Hist Proofs.C08Prune Proofs.C08More Proofs.C08W10Prune Proofs.C08W11Leaf.
Import ListNotations.
Open Scope Z_scope.

Theorem heap_filter_nonrec_restrictG keep ub su h t :
  WF h -> abs h = Some t ->
  match C08Model.restrictG su (C08Model.keep_ids keep) C08Model.np_true C08Model.np_true t with
  | Some r => exists h', filter_leaf_nodes keep false ub su h = HOk h' /\ WF h' /\
                         abs h' = Some (fst (C08Prune.with_update ub su (rooted h) r))
  | None => exists h', filter_leaf_nodes keep false ub su h = HErr OtherErr h' /\ WF h'
  end.
Proof.
  intros W0 A. pose proof (Proofs.C03Hist.WF_abs_t h t W0 A) as W.
  assert (N : NoDup (ids t)). { destruct W as [[_ [N _]] _]. exact N. }
  pose proof (C08More.filter_nonrecursive_spec keep ub su t (rooted h) N) as S.
  destruct (C08Model.restrictG su (C08Model.keep_ids keep) C08Model.np_true C08Model.np_true t) as [r|].
  - exact (C08W11Leaf.heap_filter_link keep false ub su h t _ _ _ W0 A S).
  - exact (C08W11Leaf.heap_filter_link_err keep false ub su h t _ _ W0 A S).
Qed.

Theorem gen_filter_nonrec_restrictG (fuel : nat) keep ub su h t r :
  (fuel_of h <= fuel)%nat ->
  WF h -> abs h = Some t ->
  C08Model.restrictG su (C08Model.keep_ids keep) C08Model.np_true C08Model.np_true t = Some r ->
  exists h', to_hres (Tree_filter_leaf_nodes HG fuel (fun nd => memz nd keep) false ub su h) = HOk h' /\ WF h' /\
             abs h' = Some (fst (C08Prune.with_update ub su (rooted h) r)).
Proof.
  intros Hf W A R. pose proof (heap_filter_nonrec_restrictG keep ub su h t W A) as G. rewrite R in G.
  destruct G as [h' [E [W' A']]].
  exists h'. split; [|split; assumption].
  rewrite (gen_filter_leaf_nodes fuel keep false ub su h Hf); rewrite E; [reflexivity|discriminate].
Qed.

(* ((A,B)X,C)R rooted, filter_fn true on C (id 4) only, one pass: A and B go, the emptied X stays as a leaf *)
Example gen_filter_nonrec_hyps :
  (fuel_of C08W10Prune.w10_heap <= 10)%nat /\
  WF C08W10Prune.w10_heap /\ abs C08W10Prune.w10_heap = Some C08W10Prune.w10_tree /\
  C08Model.restrictG false (C08Model.keep_ids [4]) C08Model.np_true C08Model.np_true C08W10Prune.w10_tree =
    Some (T 0 None None None [T 1 None None (Some 2048) []; T 4 (Some 2) None (Some 1024) []]).
Proof.
  destruct C08W11Leaf.w11_filter_hyps as [H2 [H3 _]].
  split; [vm_compute; lia|split; [exact H2|split; [exact H3|vm_compute; reflexivity]]].
Qed.

Example gen_filter_nonrec_run :
  match to_hres (Tree_filter_leaf_nodes HG 10 (fun nd => memz nd [4]) false false false C08W10Prune.w10_heap) with
  | HOk h' => abs h'
  | _ => None
  end = Some (T 0 None None None [T 1 None None (Some 2048) []; T 4 (Some 2) None (Some 1024) []]).
Proof. vm_compute. reflexivity. Qed.
