(* C03Gen (4): the interface operation x_encode_bipartitions (instantiated with HeapOps.encode_structural)
   leaves exactly the tree structure that C01's GENERATED Tree.encode_bipartitions (Gen/Bipartition.v,
   gen_encode_bipartitions, rose-tree level) computes.
   Chain: HeapOps.encode_structural --(C03Ops.encode_structural_wf)--> C03Spec.spec_encode
          = r_tree (C01Model.encode_f)  (proved here, two tree-level specifications written independently)
          = ge_tree of the generated result (C01Gen: gen_encode_bipartitions_is_model). *)
From Coq Require Import ZArith List Bool Lia.
From DV Require Import Model.PyPrims Model.Tree Model.Heap Model.HeapOps Model.C15Prims Model.MutPrims Gen.Mutators
     Model.C03GenInst Model.C03Spec Model.C01Model Model.C01GenPrims Gen.Bipartition
     Proofs.C03Base Proofs.C03Ops Proofs.C01Gen.
Import ListNotations.
Open Scope Z_scope.

Lemma collapse_basal_link t : fst (C01Model.collapse_basal t) = spec_collapse_basal t.
Proof.
  destruct t as [i x l e ks]. destruct ks as [|c0 [|c1 [|c2 r]]].
  1,2,4: (try destruct c0; try destruct c1; reflexivity).
  destruct c0 as [i0 x0 l0 e0 k0], c1 as [i1 x1 l1 e1 k1].
  unfold C01Model.collapse_basal, spec_collapse_basal, nkids. simpl t_kids. simpl t_len.
  destruct (2 <=? Z.of_nat (length k1)).
  - simpl. unfold add_len, bump_len. destruct e1, e0; reflexivity.
  - destruct (2 <=? Z.of_nat (length k0)); [|reflexivity].
    simpl. unfold add_len, bump_len. destruct e0, e1; reflexivity.
Qed.

Lemma enc_node_su_link acc : forall t, fst (fst (enc_node_f true acc t)) = spec_su t.
Proof.
  induction t as [i x l e ks IH] using tree_ind'.
  simpl enc_node_f. simpl spec_su. unfold enc_visit_f, enc_visit.
  assert (Hm : map (fun r => fst (fst r)) (map (enc_node_f true acc) ks) = map spec_su ks).
  { rewrite map_map. induction IH as [|k r Hk _ IHr]; simpl; [reflexivity|]. rewrite Hk, IHr. reflexivity. }
  destruct ks as [|k0 [|k1 r]].
  - reflexivity.
  - simpl in Hm. inversion Hm as [Hk]. simpl map. cbv iota. simpl fst.
    rewrite Hk. destruct (spec_su k0) as [j xj lj ej kj]. unfold C01Model.set_len, bump, merge_len, bump_len. simpl.
    destruct e, ej; reflexivity.
  - simpl map in *. cbv iota. simpl fst. inversion Hm as [[Hk0 Hk1]].
    reflexivity.
Qed.

Lemma enc_node_nosu_link acc : forall t, fst (fst (enc_node_f false acc t)) = t.
Proof.
  induction t as [i x l e ks IH] using tree_ind'.
  simpl enc_node_f. unfold enc_visit_f.
  assert (Hm : map (fun r => fst (fst r)) (map (enc_node_f false acc) ks) = ks).
  { rewrite map_map. induction IH as [|k r Hk _ IHr]; simpl; [reflexivity|]. rewrite Hk, IHr. reflexivity. }
  destruct ks as [|k0 r]; [reflexivity|].
  remember (map (enc_node_f false acc) (k0 :: r)) as rs. destruct rs as [|r0 rr]; [discriminate|].
  cbn [fst]. f_equal. exact Hm.
Qed.

Lemma encode_f_structure su cb acc rooted t :
  r_tree (encode_f su cb acc rooted t) = spec_encode su cb (negb (is_true rooted)) t.
Proof.
  unfold encode_f, spec_encode, nkids.
  destruct (cb && negb (is_true rooted) && (Z.of_nat (length (t_kids t)) =? 2)).
  - pose proof (collapse_basal_link t) as L. destruct (C01Model.collapse_basal t) as [t' ch]. simpl in L. subst t'.
    destruct su.
    + pose proof (enc_node_su_link acc (spec_collapse_basal t)) as S.
      destruct (enc_node_f true acc (spec_collapse_basal t)) as [[t2 m] en]. exact S.
    + pose proof (enc_node_nosu_link acc (spec_collapse_basal t)) as S.
      destruct (enc_node_f false acc (spec_collapse_basal t)) as [[t2 m] en]. exact S.
  - destruct su.
    + pose proof (enc_node_su_link acc t) as S. destruct (enc_node_f true acc t) as [[t2 m] en]. exact S.
    + pose proof (enc_node_nosu_link acc t) as S. destruct (enc_node_f false acc t) as [[t2 m] en]. exact S.
Qed.

Lemma not_rooted_is_true h : not_rooted h = negb (is_true (rooted h)).
Proof. unfold not_rooted, is_true. destruct (rooted h) as [[|]|]; reflexivity. Qed.

(* the structure the interface operation leaves = the tree of the generated encode_bipartitions *)
Theorem gen_encode_op_structure (h : heap) (t : tree) (su cb ss mut : bool) (acc : Z -> Z) (g : genc) :
  WFt h t ->
  gen_encode_bipartitions su cb ss mut acc (rooted h) t = Ok (Some g) ->
  exists h', x_encode_bipartitions HG su cb h = MOk tt h' /\ WFt h' (ge_tree g) /\ next h' = next h.
Proof.
  intros W Hg. rewrite gen_encode_bipartitions_eq in Hg. inversion Hg; subst g. clear Hg. simpl ge_tree.
  rewrite encode_f_structure, <- not_rooted_is_true.
  destruct (encode_structural_wf su cb h t W) as [h' [E [W' [N _]]]].
  exists h'. cbn [x_encode_bipartitions HG]. rewrite E. split; [reflexivity|split; assumption].
Qed.
