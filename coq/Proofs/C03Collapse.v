(* C03 proofs: Edge.collapse and collapse_basal_bifurcation / deroot keep well-formedness and
   realise their rose-tree specifications; leaf-taxa facts of the collapsing operations. *)
From Coq Require Import ZArith List Bool Lia Permutation.
From DV Require Import Model.PyPrims Model.Tree Model.Heap Model.HeapOps Model.C03Spec
  Proofs.C03Base Proofs.C03Abs Proofs.C03Local Proofs.C03Prims.
Import ListNotations. Open Scope Z_scope.

(* ---------- small facts ---------- *)

Lemma ids_bump b t : ids (bump b t) = ids t.
Proof. destruct t. simpl. rewrite !ids_eq. reflexivity. Qed.

Lemma t_id_bump b t : t_id (bump b t) = t_id t.
Proof. destruct t; reflexivity. Qed.

Lemma bump_none t : bump None t = t.
Proof. destruct t; reflexivity. Qed.

Lemma map_bump_none ks : map (bump None) ks = ks.
Proof. induction ks as [|k r IH]; simpl; [reflexivity|]. rewrite bump_none, IH. reflexivity. Qed.

Lemma in_plug_insert c p x l e lft k rgt j :
  In j (ids (plug c (T p x l e (lft ++ k :: rgt)))) <->
  In j (ids k) \/ In j (ids (plug c (T p x l e (lft ++ rgt)))).
Proof.
  rewrite !in_plug, ids_focus, (ids_eq p x l e (lft ++ rgt)), flat_map_app. simpl.
  rewrite !in_app_iff. tauto.
Qed.

Lemma app_snoc_assoc {A} (a : list A) k b : (a ++ [k]) ++ b = a ++ k :: b.
Proof. rewrite <- app_assoc. reflexivity. Qed.

(* ---------- the two length-adding idioms on a focused node ---------- *)

Lemma set_elen_frame a v h :
  same_off [a] h (set_elen a v h) /\ grows h (set_elen a v h) /\ pres h (set_elen a v h).
Proof.
  split; [|split].
  - unfold set_elen. frame_solve.
  - unfold set_elen. frame_solve.
  - repeat split.
Qed.

Lemma add_len_none_wf h c a xa la ea ka b :
  Wr h (plug c (T a xa la ea ka)) ->
  Wr (add_len_none a b h) (plug c (bump b (T a xa la ea ka))) /\
  same_off [a] h (add_len_none a b h) /\ grows h (add_len_none a b h) /\
  pres h (add_len_none a b h).
Proof.
  intro W. unfold add_len_none. destruct b as [lb|]; simpl.
  - assert (E : elen h a = ea).
    { destruct (wr_focus _ _ _ _ _ _ _ W) as [_ [Gp _]]. unfold elen. rewrite Gp. reflexivity. }
    rewrite E. split; [apply (set_elen_wf h c a xa la _ ka _ W)|apply set_elen_frame].
  - split; [exact W|]. split; [apply same_off_refl|split; [apply grows_refl|apply pres_refl]].
Qed.

Lemma add_len_try_wf h c a xa la ea ka b eb :
  Wr h (plug c (T a xa la ea ka)) -> elen h b = eb ->
  Wr (add_len_try a b h) (plug c (T a xa la (try_add_len ea eb) ka)) /\
  same_off [a] h (add_len_try a b h) /\ grows h (add_len_try a b h) /\
  pres h (add_len_try a b h).
Proof.
  intros W Eb. unfold add_len_try.
  assert (E : elen h a = ea).
  { destruct (wr_focus _ _ _ _ _ _ _ W) as [_ [Gp _]]. unfold elen. rewrite Gp. reflexivity. }
  rewrite E, Eb. destruct ea as [va|], eb as [vb|]; simpl;
    try (split; [exact W|]; split; [apply same_off_refl|split; [apply grows_refl|apply pres_refl]]).
  split; [apply (set_elen_wf h c a xa la _ ka _ W)|apply set_elen_frame].
Qed.

(* ---------- the re-attachment loop of Edge.collapse ---------- *)

Lemma collapse_loop_wf adj c p x l e rgt par0 : forall todo lft h pos,
  pos = length lft ->
  Wr h (plug c (T p x l e (lft ++ rgt))) ->
  Forall (rep h par0) todo ->
  NoDup (flat_map ids todo) ->
  (forall j, In j (flat_map ids todo) -> ~ In j (ids (plug c (T p x l e (lft ++ rgt))))) ->
  (forall j, In j (flat_map ids todo) -> j < next h) ->
  Wr (collapse_loop p pos adj (map t_id todo) h)
     (plug c (T p x l e (lft ++ map (bump adj) todo ++ rgt))) /\
  pres h (collapse_loop p pos adj (map t_id todo) h) /\
  grows h (collapse_loop p pos adj (map t_id todo) h).
Proof.
  induction todo as [|k r IH]; intros lft h pos Epos W Fr N D B.
  - simpl. split; [exact W|split; [apply pres_refl|apply grows_refl]].
  - subst pos. simpl map. simpl collapse_loop.
    inversion Fr as [|? ? Rk Frr]; subst.
    simpl in N. apply NoDup_app_iff in N. destruct N as [Nk [Nr Dkr]].
    assert (Dk : forall j, In j (ids k) -> ~ In j (ids (plug c (T p x l e (lft ++ rgt))))).
    { intros j Hj. apply D. simpl. apply in_app_iff. left. exact Hj. }
    assert (Bk : forall j, In j (ids k) -> j < next h).
    { intros j Hj. apply B. simpl. apply in_app_iff. left. exact Hj. }
    assert (Dr : forall j, In j (flat_map ids r) -> ~ In j (ids (plug c (T p x l e (lft ++ rgt))))).
    { intros j Hj. apply D. simpl. apply in_app_iff. right. exact Hj. }
    assert (Br : forall j, In j (flat_map ids r) -> j < next h).
    { intros j Hj. apply B. simpl. apply in_app_iff. right. exact Hj. }
    assert (W1 : Wr (insert_child p (length lft) (t_id k) h) (plug c (T p x l e (lft ++ k :: rgt)))).
    { pose proof (insert_child_attach h c p x l e (lft ++ rgt) (length lft) par0 k W Rk Nk Dk Bk) as W1.
      rewrite firstn_app, skipn_app, Nat.sub_diag, firstn_all, skipn_all in W1. simpl in W1.
      rewrite app_nil_r in W1. exact W1. }
    destruct (insert_child_frame p (length lft) (t_id k) h) as [A1 [G1 P1]].
    set (h1 := insert_child p (length lft) (t_id k) h) in *.
    destruct k as [ki xk lk ek kk]. simpl t_id in *.
    destruct (add_len_none_wf h1 (CNode c p x l e lft rgt) ki xk lk ek kk adj W1) as [W2 [A2 [G2 P2]]].
    set (h2 := add_len_none ki adj h1) in *.
    set (k := T ki xk lk ek kk) in *.
    simpl plug in W2.
    assert (A : same_off [p; ki] h h2).
    { eapply same_off_trans; [exact A1|]. eapply same_off_weaken; [|exact A2].
      intros j [<-|[]]. right. left. reflexivity. }
    assert (G : grows h h2) by (eapply grows_trans; eauto).
    assert (P : pres h h2) by (eapply pres_trans; eauto).
    assert (Hpin : In p (ids (plug c (T p x l e (lft ++ rgt))))).
    { apply in_plug. left. apply (ids_root (T p x l e (lft ++ rgt))). }
    destruct (IH (lft ++ [bump adj k]) h2 (S (length lft))) as [W3 [P3 G3]].
    + rewrite app_length. simpl. lia.
    + rewrite app_snoc_assoc. exact W2.
    + eapply (Forall_rep_frame_off [p; ki]); eauto.
      intros j Hj [<-|[<-|[]]].
      * apply (Dr p Hj Hpin).
      * apply (Dkr ki); [apply (ids_root k)|exact Hj].
    + exact Nr.
    + intros j Hj. rewrite app_snoc_assoc. rewrite in_plug_insert, ids_bump. intros [H|H].
      * apply (Dkr j); assumption.
      * apply (Dr j Hj H).
    + intros j Hj. destruct P as [P _]. rewrite P. apply Br. exact Hj.
    + rewrite app_snoc_assoc in W3. split; [exact W3|split].
      * eapply pres_trans; eauto.
      * eapply grows_trans; eauto.
Qed.

(* ---------- Edge.collapse ---------- *)

Lemma edge_collapse_root h ci adj : parent h ci = None -> edge_collapse ci adj h = HOk h.
Proof. intro E. unfold edge_collapse. rewrite E. reflexivity. Qed.

Lemma edge_collapse_leaf h ci p adj :
  parent h ci = Some p -> kids h ci = [] -> edge_collapse ci adj h = HErr ValueErr h.
Proof. intros E K. unfold edge_collapse. rewrite E, K. reflexivity. Qed.

Lemma edge_collapse_wf h c p x l e lft ci xc lc ec kc rgt adj :
  kc <> [] ->
  Wr h (plug c (T p x l e (lft ++ T ci xc lc ec kc :: rgt))) ->
  exists h', edge_collapse ci adj h = HOk h' /\
    Wr h' (plug c (T p x l e (lft ++ map (bump (if adj then ec else None)) kc ++ rgt))) /\
    pres h h' /\ grows h h'.
Proof.
  intros Hne W. set (tc := T ci xc lc ec kc) in *.
  destruct (wr_focus _ _ _ _ _ _ _ W) as [Hp [Gp [Fk [N1 [N2 [N3 [N4 [N5 N6]]]]]]]].
  pose proof W as [_ [Nall Ball]]. apply nodup_plug in Nall. destruct Nall as [Ns [_ _]].
  pose proof (focus_facts _ _ _ _ _ _ _ Ns) as F.
  apply Forall_app in Fk. destruct Fk as [_ Fk]. inversion Fk as [|? ? Rtc _]; subst.
  assert (Epar : parent h ci = Some p) by (apply (rep_parent _ _ _ Rtc)).
  assert (Ekids : kids h ci = map t_id kc) by (apply (rep_kids _ _ _ Rtc)).
  assert (Kp : kids h p = map t_id lft ++ ci :: map t_id rgt).
  { unfold kids. rewrite Gp, map_app. reflexivity. }
  assert (Ncl : ~ In ci (map t_id lft)).
  { apply notin_map_of_flat. apply (fn_tc_lft _ _ _ _ F). apply (ids_root tc). }
  destruct (remove_child_plain_wf h c p x l e lft tc rgt W) as [h1 [E1 [W1 [R1 [A1 [G1 P1]]]]]].
  simpl t_id in E1.
  unfold edge_collapse. rewrite Epar, Ekids.
  destruct kc as [|k0 kr]; [congruence|]. simpl map at 1.
  rewrite Kp, (index_of_app_notin ci _ _ Ncl), E1. simpl hbind.
  assert (El : elen h1 ci = ec) by (apply (rep_elen _ _ _ R1)).
  rewrite El. change (t_id k0 :: map t_id kr) with (map t_id (k0 :: kr)).
  set (kc := k0 :: kr) in *.
  pose proof R1 as R1'. apply rep_eq in R1'. destruct R1' as [_ [_ Fc]].
  pose proof (nodup_root _ _ _ _ _ (fn_tc _ _ _ _ F)) as [Nc1 Nc2].
  assert (Iall : forall j, In j (ids tc) -> In j (flat_map ids (lft ++ tc :: rgt))).
  { intros j Hj. rewrite flat_map_app. apply in_app_iff. right.
    change (In j (ids tc ++ flat_map ids rgt)). apply in_app_iff. left. exact Hj. }
  assert (Itc : forall j, In j (flat_map ids kc) -> In j (ids tc)).
  { intros j Hj. unfold tc. rewrite ids_eq. right. exact Hj. }
  destruct (collapse_loop_wf (if adj then ec else None) c p x l e rgt (Some ci) kc lft h1
              (length (map t_id lft))) as [W2 [P2 G2]].
  - apply map_length.
  - exact W1.
  - exact Fc.
  - exact Nc2.
  - intros j Hj H. apply Itc in Hj. apply in_plug in H. destruct H as [H|H].
    + rewrite ids_eq, flat_map_app in H. destruct H as [<-|H].
      * exact (fn_p_tc _ _ _ _ F Hj).
      * apply in_app_iff in H. destruct H as [H|H].
        -- exact (fn_tc_lft _ _ _ _ F j Hj H).
        -- exact (fn_tc_rgt _ _ _ _ F j Hj H).
    + apply (N4 j); [|exact H]. apply Iall. exact Hj.
  - intros j Hj. destruct P1 as [P1 _]. rewrite P1. apply N5. apply Iall. apply Itc. exact Hj.
  - eexists. split; [reflexivity|]. split; [exact W2|split].
    + eapply pres_trans; eauto.
    + eapply grows_trans; eauto.
Qed.

(* ---------- collapse_basal_bifurcation / deroot ---------- *)

Lemma Wr_set_rooted r h t : Wr h t -> Wr (set_rooted r h) t.
Proof.
  intros [R [N B]]. split; [|split; [exact N|exact B]].
  eapply rep_cells; [|exact R]. reflexivity.
Qed.

Lemma len_map_tid (ks : list tree) : len (map t_id ks) = Z.of_nat (length ks).
Proof. unfold len. rewrite map_length. reflexivity. Qed.

Lemma collapse_basal_wf h t su : WFt h t ->
  exists h', collapse_basal_bifurcation su h = HOk h' /\ WFt h' (spec_collapse_basal t) /\
    next h' = next h /\ seed h' = seed h /\
    (rooted h' = rooted h \/ rooted h' = Some false) /\ (su = false -> rooted h' = rooted h).
Proof.
  intros [W Sd]. destruct t as [i x l e ks]. simpl in Sd.
  destruct (wr_focus h CTop i x l e ks W) as [Hp [Gp [Fk _]]].
  assert (Kroot : kids h (seed h) = map t_id ks).
  { rewrite <- Sd. unfold kids. rewrite Gp. reflexivity. }
  unfold collapse_basal_bifurcation. rewrite Kroot.
  assert (Triv : exists h', HOk h = HOk h' /\ WFt h' (T i x l e ks) /\
    next h' = next h /\ seed h' = seed h /\
    (rooted h' = rooted h \/ rooted h' = Some false) /\ (su = false -> rooted h' = rooted h)).
  { exists h. split; [reflexivity|]. split; [split; [exact W|exact Sd]|]. auto. }
  destruct ks as [|[i0 x0 l0 e0 k0] [|[i1 x1 l1 e1 k1] [|c' r]]]; try exact Triv.
  clear Triv.
  pose proof (Forall_inv Fk) as Ra. pose proof (Forall_inv (Forall_inv_tail Fk)) as Rb.
  pose proof (rep_kids _ _ _ Ra) as K0. pose proof (rep_kids _ _ _ Rb) as K1.
  pose proof (rep_elen _ _ _ Ra) as L0. pose proof (rep_elen _ _ _ Rb) as L1.
  simpl in K0, K1, L0, L1.
  simpl map. cbv beta iota zeta. rewrite K0, K1, !len_map_tid.
  unfold spec_collapse_basal.
  destruct (2 <=? Z.of_nat (length k1)) eqn:E1.
  - assert (Hne : k1 <> []) by (destruct k1; [discriminate E1|discriminate]).
    rewrite L1.
    destruct (add_len_none_wf h (CNode CTop i x l e [] [T i1 x1 l1 e1 k1]) i0 x0 l0 e0 k0 e1 W)
      as [W1 [A1 [G1 P1]]].
    set (h1 := add_len_none i0 e1 h) in *.
    destruct (edge_collapse_wf h1 CTop i x l e [T i0 x0 l0 (bump_len e1 e0) k0]
                i1 x1 l1 e1 k1 [] false Hne W1) as [h2 [E2 [W2 [P2 G2]]]].
    rewrite E2. simpl hbind. simpl in W2. rewrite map_bump_none, app_nil_r in W2.
    pose proof (pres_trans _ _ _ P1 P2) as [Pn [Pr Ps]].
    eexists. split; [reflexivity|].
    destruct su.
    + split; [split; [apply Wr_set_rooted; exact W2|simpl; congruence]|].
      simpl. repeat split; auto. discriminate.
    + split; [split; [exact W2|simpl; congruence]|]. repeat split; auto.
  - destruct (2 <=? Z.of_nat (length k0)) eqn:E0.
    + assert (Hne : k0 <> []) by (destruct k0; [discriminate E0|discriminate]).
      rewrite L0.
      destruct (add_len_none_wf h (CNode CTop i x l e [T i0 x0 l0 e0 k0] []) i1 x1 l1 e1 k1 e0 W)
        as [W1 [A1 [G1 P1]]].
      set (h1 := add_len_none i1 e0 h) in *.
      destruct (edge_collapse_wf h1 CTop i x l e [] i0 x0 l0 e0 k0
                  [T i1 x1 l1 (bump_len e0 e1) k1] false Hne W1) as [h2 [E2 [W2 [P2 G2]]]].
      rewrite E2. simpl hbind. simpl in W2. rewrite map_bump_none in W2.
      pose proof (pres_trans _ _ _ P1 P2) as [Pn [Pr Ps]].
      eexists. split; [reflexivity|].
      destruct su.
      * split; [split; [apply Wr_set_rooted; exact W2|simpl; congruence]|].
        simpl. repeat split; auto. discriminate.
      * split; [split; [exact W2|simpl; congruence]|]. repeat split; auto.
    + exists h. split; [reflexivity|]. split; [split; [exact W|exact Sd]|]. auto.
Qed.

Lemma deroot_wf h t : WFt h t -> exists h', deroot h = HOk h' /\ WFt h' (spec_collapse_basal t).
Proof.
  intro W. destruct (collapse_basal_wf h t true W) as [h' [E [W' _]]].
  exists h'. split; [exact E|exact W'].
Qed.

(* ---------- leaf taxa ---------- *)

Lemma leaf_taxa_node i x l e ks : ks <> [] -> leaf_taxa (T i x l e ks) = flat_map leaf_taxa ks.
Proof. destruct ks; [congruence|reflexivity]. Qed.

Lemma leaf_taxa_len i x l e e' ks : leaf_taxa (T i x l e ks) = leaf_taxa (T i x l e' ks).
Proof. destruct ks; reflexivity. Qed.

Lemma leaf_taxa_bump b t : leaf_taxa (bump b t) = leaf_taxa t.
Proof. destruct t as [i x l e ks]. unfold bump. apply leaf_taxa_len. Qed.

Lemma flat_leaf_taxa_bump b ks : flat_map leaf_taxa (map (bump b) ks) = flat_map leaf_taxa ks.
Proof.
  induction ks as [|k r IH]; [reflexivity|]. simpl map. simpl flat_map.
  rewrite leaf_taxa_bump, IH. reflexivity.
Qed.

Lemma leaf_taxa_focus i x l e a s b :
  leaf_taxa (T i x l e (a ++ s :: b)) = flat_map leaf_taxa a ++ leaf_taxa s ++ flat_map leaf_taxa b.
Proof.
  rewrite leaf_taxa_node by (destruct a; discriminate).
  rewrite flat_map_app. reflexivity.
Qed.

Lemma leaf_taxa_plug c s s' :
  leaf_taxa s = leaf_taxa s' -> leaf_taxa (plug c s) = leaf_taxa (plug c s').
Proof.
  revert s s'. induction c as [|c' IH i x l e lft rgt]; intros s s' E; simpl; [exact E|].
  apply IH. rewrite !leaf_taxa_focus, E. reflexivity.
Qed.

Lemma leaf_taxa_collapse_basal t : leaf_taxa (spec_collapse_basal t) = leaf_taxa t.
Proof.
  destruct t as [i x l e ks].
  destruct ks as [|[i0 x0 l0 e0 k0] [|[i1 x1 l1 e1 k1] [|c' r]]]; try reflexivity.
  unfold spec_collapse_basal.
  destruct (2 <=? Z.of_nat (length k1)) eqn:E1.
  - destruct k1 as [|a1 r1]; [discriminate E1|]. simpl. rewrite app_nil_r.
    destruct k0; reflexivity.
  - destruct (2 <=? Z.of_nat (length k0)) eqn:E0; [|reflexivity].
    destruct k0 as [|a0 r0]; [discriminate E0|]. simpl.
    rewrite flat_map_app. simpl. rewrite !app_nil_r, <- app_assoc.
    destruct k1; reflexivity.
Qed.

Lemma leaf_taxa_plug_collapse c p x l e lft ci xc lc ec kc rgt b :
  kc <> [] ->
  leaf_taxa (plug c (T p x l e (lft ++ map (bump b) kc ++ rgt))) =
  leaf_taxa (plug c (T p x l e (lft ++ T ci xc lc ec kc :: rgt))).
Proof.
  intro Hne. apply leaf_taxa_plug. rewrite leaf_taxa_focus, (leaf_taxa_node ci xc lc ec kc Hne).
  rewrite leaf_taxa_node.
  - rewrite !flat_map_app, flat_leaf_taxa_bump. reflexivity.
  - destruct kc as [|k0 kr]; [congruence|]. destruct lft; discriminate.
Qed.
