(* C12, wave 7, translator tie: the dispatch table the translator reads off the class statements of the current
   source (coq/Gen/CopyGen.v, part 3) is the hand-written table of Model/C12Classes.v. *)
From Coq Require Import String ZArith List Bool.
From DV Require Import Model.PyPrims Model.C12Model Model.C12Classes.
From DV Require Import Gen.CopyGen.
Import ListNotations.

Theorem gen_class_kinds_eq : gen_class_kinds = class_kinds.
Proof. reflexivity. Qed.

Theorem gen_deepcopy_definers_eq : gen_deepcopy_definers = deepcopy_definers.
Proof. reflexivity. Qed.

(* neither Bipartition nor Annotation has a __deepcopy__ of its own *)
Theorem gen_bipartition_annotation_resolution :
  class_kind gen_class_kinds "Bipartition" = Some KPlain
  /\ class_kind gen_class_kinds "Annotation" = Some KAnnotable
  /\ In ("Bipartition"%string, ""%string) gen_deepcopy_resolves_to
  /\ In ("Annotation"%string, "Annotable"%string) gen_deepcopy_resolves_to
  /\ ~ In "Bipartition"%string gen_deepcopy_definers /\ ~ In "Annotation"%string gen_deepcopy_definers.
Proof.
  repeat split; try reflexivity.
  - simpl. tauto.
  - simpl. tauto.
  - simpl. intros H. repeat (destruct H as [H|H]; [discriminate H|]). exact H.
  - simpl. intros H. repeat (destruct H as [H|H]; [discriminate H|]). exact H.
Qed.

(* the classes whose instances copy.deepcopy hands back as they are are exactly the three value classes *)
Theorem gen_atomic_classes_are_value_classes : forall c k,
  In (c, k) gen_class_kinds -> (k = KAtomic <-> In c value_classes).
Proof.
  intros c k H. rewrite gen_class_kinds_eq in H. unfold class_kinds in H. simpl in H.
  repeat (destruct H as [H|H]; [inversion H; subst; simpl; split; intros X; try discriminate X; try tauto;
                                 repeat (destruct X as [X|X]; [discriminate X|]); try contradiction |]).
  contradiction.
Qed.
