(* C01, second wave: concrete instances (non-vacuity) for the flag-generalised encoding, the fixed-point
   characterisation, unrooted reconstruction and reconstruction into a larger namespace. *)
From Coq Require Import ZArith List Bool Lia ZifyBool Permutation.
From DV Require Import Model.PyPrims Model.Tree Gen.BitFns Model.C01Model
  Proofs.C01Bits Proofs.C01Enc Proofs.C01Topo Proofs.C01From Proofs.C01Unrooted Proofs.C01More
  Proofs.C01Flags Proofs.C01Recon Proofs.C01Examples.
Import ListNotations.
Open Scope Z_scope.

(* flags: [&U] (A,((B,C))) *)
Example flags_ex :
  let t := idem_witness in
  (* defaults: unifurcations suppressed; the basal bifurcation survives the first call (hidden) *)
  r_tree (encode_f true true (fun x => x) None t) = nd 0 [lf 1 0; nd 3 [lf 4 1; lf 5 2]] /\
  (* suppress_unifurcations=False: structure untouched, the unifurcation node carries its child's mask *)
  r_tree (encode_f false true (fun x => x) None t) = t /\
  map (fun e => fst (snd e)) (r_edges (encode_f false true (fun x => x) None t)) = [1; 2; 4; 6; 6; 7] /\
  (* collapse_unrooted_basal_bifurcation=False on (A,(B,C)): nothing collapses, flag stays None *)
  r_tree (encode_f true false (fun x => x) None (nd 0 [lf 1 0; nd 3 [lf 4 1; lf 5 2]]))
    = nd 0 [lf 1 0; nd 3 [lf 4 1; lf 5 2]] /\
  r_rooted (encode_f true false (fun x => x) None (nd 0 [lf 1 0; nd 3 [lf 4 1; lf 5 2]])) = None /\
  r_rooted (encode_f true true (fun x => x) None (nd 0 [lf 1 0; nd 3 [lf 4 1; lf 5 2]])) = Some false.
Proof. vm_compute. repeat split; reflexivity. Qed.

(* fixed point: both sides of the characterisation occur *)
Example fixed_point_ex :
  let r := encode (fun x => x) None idem_witness in
  (nkids (r_tree r) = 2 /\ snd (collapse_basal (r_tree r)) = true /\
   encode (fun x => x) (r_rooted r) (r_tree r) <> r) /\
  let r' := encode (fun x => x) None ex1 in
  (nkids (r_tree r') <> 2 /\ encode (fun x => x) (r_rooted r') (r_tree r') = r').
Proof. vm_compute. repeat split; try reflexivity; discriminate. Qed.

(* tree-level compatibility on an unrooted tree: u1 = (0,1,(2,(3,4))) under acc_ex *)
Example tree_compat_ex :
  let enc := enc_splits (encode acc_ex None u1) in
  let S := cmask acc_ex u1 in
  low_of acc_ex u1 = 2 /\
  (* {3,4} | rest : in the tree *)
  tree_is_compatible_with enc S (snd (mk_bip 1280 S None)) = true /\
  (* {1,2} | rest : compatible with every split, not in the tree *)
  tree_is_compatible_with enc S (snd (mk_bip 80 S None)) = false /\
  (* {2,3} | rest conflicts with {3,4} *)
  tree_is_compatible_with enc S (snd (mk_bip 320 S None)) = false /\
  (* {0,1} | rest: the same split as {2,3,4} *)
  tree_is_compatible_with enc S (snd (mk_bip 20 S None)) = true.
Proof. vm_compute. repeat split; reflexivity. Qed.

(* reconstruction from an UNROOTED encoding; namespace = the tree's taxa, accession index 4 vacated *)
Definition ns5 : list (Z * Z) := [(0, 2); (1, 4); (2, 6); (3, 8); (4, 10)].

Example ns5_ok : ns_ok acc_ex ns5 /\ (2 <= length ns5)%nat /\ leaves_ok u1 = true /\
  Permutation (leaf_taxa u1) (map (fun p => Some (fst p)) ns5) /\ (forall p, In p ns5 -> snd p < 12).
Proof.
  split; [| split; [| split; [| split]]].
  - split.
    + simpl. repeat constructor; simpl; intuition lia.
    + repeat constructor; simpl; lia.
  - simpl. lia.
  - reflexivity.
  - reflexivity.
  - intros p [<- | [<- | [<- | [<- | [<- | []]]]]]; simpl; lia.
Qed.

Example from_splits_unrooted_ex :
  enc_splits (encode acc_ex None u1) = [1360; 16; 64; 256; 1024; 1280; 1344; 0] /\
  ucanon acc_ex (suppress (to_tree (from_splits ns5 12 None [1280; 0; 16; 1344; 1360; 256; 64; 1024])))
    = ucanon acc_ex (suppress u1) /\
  ucanon acc_ex (suppress (to_tree (from_splits ns5 12 (Some false) [1344; 1280])))
    = ucanon acc_ex (suppress u1').
Proof. vm_compute. repeat split; reflexivity. Qed.

(* larger namespace: two more members (taxa 5 and 6) that are not on the tree, rooted encoding of tr4' *)
Definition tr3 : tree := nd 0 [nd 1 [lf 2 0; lf 3 2]; lf 4 1].
Definition ns_big : list (Z * Z) := [(0, 2); (5, 12); (1, 4); (2, 6); (6, 14)].

Example ns_big_ok : ns_ok acc_ex ns_big /\ leaves_ok tr3 = true /\
  Permutation (leaf_taxa tr3 ++ map Some [5; 6]) (map (fun p => Some (fst p)) ns_big).
Proof.
  split; [| split].
  - split.
    + simpl. repeat constructor; simpl; intuition lia.
    + repeat constructor; simpl; lia.
  - reflexivity.
  - simpl. apply perm_skip.
    apply (Permutation_trans (l' := Some 1 :: Some 2 :: Some 5 :: Some 6 :: nil)); [apply perm_swap|].
    apply (Permutation_trans (l' := Some 1 :: Some 5 :: Some 2 :: Some 6 :: nil)); [apply perm_skip; apply perm_swap|].
    apply perm_swap.
Qed.

Example from_splits_big_ex :
  enc_splits (encode acc_ex (Some true) tr3) = [4; 64; 68; 16; 84] /\
  (* the tree's own root clade 84 becomes an inner node; the extra members hang off the root *)
  from_splits ns_big 16 (Some true) [84; 16; 68; 4; 64] =
    M 20564 None [M 4096 (Some 5) []; M 16384 (Some 6) [];
                  M 84 None [M 16 (Some 1) []; M 68 None [M 4 (Some 0) []; M 64 (Some 2) []]]] /\
  canon acc_ex (to_tree (from_splits ns_big 16 (Some true) [84; 16; 68; 4; 64]))
    = canon acc_ex (t_ext tr3 [5; 6]).
Proof. vm_compute. repeat split; reflexivity. Qed.
