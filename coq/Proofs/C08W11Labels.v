(* C08 wave 11 - the GENERATED Tree_prune_taxa_with_labels / Tree_retain_taxa_with_labels compute `restrict`:
   C03GenPrune.gen_with_labels (the wrappers resolve the labels with TaxonNamespace.get_taxa and call the unlabelled
   method) composed with C08W10PruneGen, with get_taxa instantiated by C08Model.get_taxa (every namespace member
   matching some label, case-sensitively or not) and the namespace's member list map fst ns. *)
From Coq Require Import ZArith List Bool Lia.
From DV Require Import Model.PyPrims Model.Tree Model.Heap Model.HeapOps Model.C15Prims Model.MutPrims Gen.Mutators
     Model.C03GenInst Proofs.C03Base Proofs.C03GenPrims Proofs.C03GenPrune.
From DV Require Model.C08Model Proofs.C08Prune Proofs.C08Final Proofs.C08Thms Proofs.C08W10Prune Proofs.C08W10PruneGen.
Import ListNotations.
Open Scope Z_scope.

Theorem gen_prune_labels_is_restrict (fuel : nat) (ns : C08Model.nspace) (cs : bool) (labels pruned : list Z)
        (ub su : bool) (h : heap) (t r : tree) :
  (fuel_of h <= fuel)%nat ->
  WF h -> abs h = Some t -> C08Model.leaf_taxa_only t = true ->
  C08Thms.labels_name_ns ns cs labels pruned t ->
  C08Model.restrict su (C08Model.drop_taxa pruned) t = Some r ->
  exists h', to_hres (Tree_prune_taxa_with_labels HG fuel (C08Model.get_taxa ns cs) labels ub su true false h) = HOk h' /\
             WF h' /\ abs h' = Some (fst (C08Prune.with_update ub su (rooted h) r)).
Proof.
  intros Hf W A Hd HL R.
  rewrite (proj1 (gen_with_labels fuel [] (C08Model.get_taxa ns cs) labels ub su true false h)).
  apply (C08W10PruneGen.gen_prune_taxa_is_restrict fuel _ ub su h t r Hf W A Hd).
  rewrite <- R. apply C08Thms.restrict_ext_leaf_taxa; [exact Hd|]. intros n a Hn Ea.
  unfold C08Model.drop_taxa. f_equal. apply C08Thms.bool_iff.
  rewrite !C08Base.memz_In, C08Final.get_taxa_mem. exact (HL n a Hn Ea).
Qed.

Theorem gen_retain_labels_is_restrict (fuel : nat) (ns : C08Model.nspace) (cs : bool) (labels keep : list Z)
        (ub su : bool) (h : heap) (t r : tree) :
  (fuel_of h <= fuel)%nat ->
  WF h -> abs h = Some t -> C08Model.leaf_taxa_only t = true ->
  C08Final.taxa_in_ns ns t ->
  C08Thms.labels_name_ns ns cs labels keep t ->
  C08Model.restrict su (C08Model.keep_taxa keep) t = Some r ->
  exists h', to_hres (Tree_retain_taxa_with_labels HG fuel (map fst ns) (C08Model.get_taxa ns cs) labels ub su h) = HOk h' /\
             WF h' /\ abs h' = Some (fst (C08Prune.with_update ub su (rooted h) r)).
Proof.
  intros Hf W A Hd Hns HL R.
  rewrite (proj2 (gen_with_labels fuel (map fst ns) (C08Model.get_taxa ns cs) labels ub su true false h)).
  apply (C08W10PruneGen.gen_retain_taxa_is_restrict fuel _ _ ub su h t r Hf W A Hd Hns).
  rewrite <- R. apply C08Thms.restrict_ext_leaf_taxa; [exact Hd|]. intros n a Hn Ea.
  unfold C08Model.keep_taxa. apply C08Thms.bool_iff.
  rewrite !C08Base.memz_In, C08Final.get_taxa_mem. exact (HL n a Hn Ea).
Qed.

(* hypotheses satisfiable: ((A,B)X,C)R rooted (C08W10Prune.w10_tree, taxa 0 1 2), namespace labels 0 2 4,
   prune the label 1 case-insensitively (1/2 = 0/2: it names taxon 0 = A) *)
Definition w11_ns : C08Model.nspace := [(0, 0); (1, 2); (2, 4)].

Example gen_prune_labels_hyps :
  (fuel_of C08W10Prune.w10_heap <= 10)%nat /\
  WF C08W10Prune.w10_heap /\ abs C08W10Prune.w10_heap = Some C08W10Prune.w10_tree /\
  C08Model.leaf_taxa_only C08W10Prune.w10_tree = true /\
  C08Thms.labels_name_ns w11_ns false [1] [0] C08W10Prune.w10_tree /\
  C08Model.restrict true (C08Model.drop_taxa [0]) C08W10Prune.w10_tree =
    Some (T 0 None None None [T 3 (Some 1) None (Some 3072) []; T 4 (Some 2) None (Some 1024) []]).
Proof.
  destruct C08W10PruneGen.gen_prune_taxa_is_restrict_hyps as [H1 [H2 [H3 [H4 H5]]]].
  split; [exact H1|split; [exact H2|split; [exact H3|split; [exact H4|split; [|exact H5]]]]].
  intros n a Hn Ea. rewrite <- (C08Final.get_taxa_mem w11_ns false [1] a).
  change (C08Model.get_taxa w11_ns false [1]) with [0]. reflexivity.
Qed.

Example gen_prune_labels_run :
  match to_hres (Tree_prune_taxa_with_labels HG 10 (C08Model.get_taxa w11_ns false) [1] false true true false
                   C08W10Prune.w10_heap) with
  | HOk h' => abs h'
  | _ => None
  end = Some (T 0 None None None [T 3 (Some 1) None (Some 3072) []; T 4 (Some 2) None (Some 1024) []]).
Proof. vm_compute. reflexivity. Qed.

(* retain the labels 2 and 5 (case-insensitively: taxa 1 = B and 2 = C) *)
Example gen_retain_labels_hyps :
  (fuel_of C08W10Prune.w10_heap <= 10)%nat /\
  WF C08W10Prune.w10_heap /\ abs C08W10Prune.w10_heap = Some C08W10Prune.w10_tree /\
  C08Model.leaf_taxa_only C08W10Prune.w10_tree = true /\
  C08Final.taxa_in_ns w11_ns C08W10Prune.w10_tree /\
  C08Thms.labels_name_ns w11_ns false [2; 5] [1; 2] C08W10Prune.w10_tree /\
  C08Model.restrict true (C08Model.keep_taxa [1; 2]) C08W10Prune.w10_tree =
    Some (T 0 None None None [T 3 (Some 1) None (Some 3072) []; T 4 (Some 2) None (Some 1024) []]).
Proof.
  destruct C08W10PruneGen.gen_prune_taxa_is_restrict_hyps as [H1 [H2 [H3 [H4 _]]]].
  split; [exact H1|split; [exact H2|split; [exact H3|split; [exact H4|split; [|split; [|vm_compute; reflexivity]]]]]].
  - intros n a Hn Ea. simpl in Hn. destruct Hn as [<-|[<-|[<-|[]]]]; inversion Ea; reflexivity.
  - intros n a Hn Ea. rewrite <- (C08Final.get_taxa_mem w11_ns false [2; 5] a).
    change (C08Model.get_taxa w11_ns false [2; 5]) with [1; 2]. reflexivity.
Qed.

Example gen_retain_labels_run :
  match to_hres (Tree_retain_taxa_with_labels HG 10 (map fst w11_ns) (C08Model.get_taxa w11_ns false) [2; 5] false true
                   C08W10Prune.w10_heap) with
  | HOk h' => abs h'
  | _ => None
  end = Some (T 0 None None None [T 3 (Some 1) None (Some 3072) []; T 4 (Some 2) None (Some 1024) []]).
Proof. vm_compute. reflexivity. Qed.
