(* C08 wave 11 - the GENERATED Tree_prune_leaves_without_taxa / Tree_filter_leaf_nodes (Gen/Mutators.v, compiled
   from _tree.py on every run) compute C08's structural specification `restrict`: Proofs/C03GenPrune.v
   (generated code = HeapOps.v's program) composed with Proofs/C08W11Leaf.v (HeapOps.v's program -> restrict). *)
From Coq Require Import ZArith List Bool Lia.
From DV Require Import Model.PyPrims Model.Tree Model.Heap Model.HeapOps Model.C15Prims Model.MutPrims Gen.Mutators
     Model.C03GenInst Proofs.C03Base Proofs.C03GenPrims Proofs.C03GenPrune.
From DV Require Model.C08Model Proofs.C03Hist Proofs.C08Prune Proofs.C08W10Prune Proofs.C08W11Leaf.
Import ListNotations.
Open Scope Z_scope.

Lemma plwt_op_ok rc ub su h h' :
  prune_leaves_without_taxa rc ub su h = HOk h' -> run_op_v v_now (OPruneLeavesWithoutTaxa rc ub su) h = HOk h'.
Proof. intro E. cbn [run_op_v v_now v_seed_guard run_op]. rewrite E. reflexivity. Qed.

(* the current source raises SeedNodeDeletionException (OtherErr) where the unrepaired one raised AttributeError *)
Lemma plwt_op_err rc ub su h h' :
  prune_leaves_without_taxa rc ub su h = HErr AttrErr h' ->
  run_op_v v_now (OPruneLeavesWithoutTaxa rc ub su) h = HErr OtherErr h'.
Proof. intro E. cbn [run_op_v v_now v_seed_guard run_op]. rewrite E. reflexivity. Qed.

Theorem gen_plwt_is_restrict (fuel : nat) (ub su : bool) (h : heap) (t r : tree) :
  (fuel_of h <= fuel)%nat ->
  WF h -> abs h = Some t -> C08W11Leaf.internal_untaxed t = true ->
  C08Model.restrict su C08Model.has_taxon t = Some r ->
  exists h', to_hres (Tree_prune_leaves_without_taxa HG fuel true ub su h) = HOk h' /\ WF h' /\
             abs h' = Some (fst (C08Prune.with_update ub su (rooted h) r)).
Proof.
  intros Hf W A Hi R.
  destruct (C08W11Leaf.heap_plwt_is_restrict_l ub su h t r W A Hi R) as [h' [E [W' A']]].
  exists h'. split; [|split; assumption].
  rewrite (gen_prune_leaves_without_taxa fuel true ub su h Hf); rewrite (plwt_op_ok _ _ _ _ _ E); [reflexivity|discriminate].
Qed.

Theorem gen_plwt_empties (fuel : nat) (ub su : bool) (h : heap) (t : tree) :
  (fuel_of h <= fuel)%nat ->
  WF h -> abs h = Some t -> C08W11Leaf.internal_untaxed t = true ->
  C08Model.restrict su C08Model.has_taxon t = None ->
  exists h', to_hres (Tree_prune_leaves_without_taxa HG fuel true ub su h) = HErr OtherErr h' /\ WF h'.
Proof.
  intros Hf W A Hi R.
  destruct (C08W11Leaf.heap_plwt_empties_l ub su h t W A Hi R) as [h' [E W']].
  exists h'. split; [|assumption].
  rewrite (gen_prune_leaves_without_taxa fuel true ub su h Hf); rewrite (plwt_op_err _ _ _ _ _ E); [reflexivity|discriminate].
Qed.

Theorem gen_filter_is_restrict (fuel : nat) (keep : list Z) (ub su : bool) (h : heap) (t r : tree) :
  (fuel_of h <= fuel)%nat ->
  WF h -> abs h = Some t -> C08W11Leaf.keeps_no_internal keep t = true ->
  C08Model.restrict su (C08Model.keep_ids keep) t = Some r ->
  exists h', to_hres (Tree_filter_leaf_nodes HG fuel (fun nd => memz nd keep) true ub su h) = HOk h' /\ WF h' /\
             abs h' = Some (fst (C08Prune.with_update ub su (rooted h) r)).
Proof.
  intros Hf W A Hi R.
  destruct (C08W11Leaf.heap_filter_is_restrict_l keep ub su h t r W A Hi R) as [h' [E [W' A']]].
  exists h'. split; [|split; assumption].
  rewrite (gen_filter_leaf_nodes fuel keep true ub su h Hf); rewrite E; [reflexivity|discriminate].
Qed.

Theorem gen_filter_empties (fuel : nat) (keep : list Z) (ub su : bool) (h : heap) (t : tree) :
  (fuel_of h <= fuel)%nat ->
  WF h -> abs h = Some t -> C08W11Leaf.keeps_no_internal keep t = true ->
  C08Model.restrict su (C08Model.keep_ids keep) t = None ->
  exists h', to_hres (Tree_filter_leaf_nodes HG fuel (fun nd => memz nd keep) true ub su h) = HErr OtherErr h' /\ WF h'.
Proof.
  intros Hf W A Hi R.
  destruct (C08W11Leaf.heap_filter_empties_l keep ub su h t W A Hi R) as [h' [E W']].
  exists h'. split; [|assumption].
  rewrite (gen_filter_leaf_nodes fuel keep true ub su h Hf); rewrite E; [reflexivity|discriminate].
Qed.

(* for every keep list / every tree, without the side conditions: restrictG (an emptied internal node survives
   iff it passes the test itself) *)
Theorem gen_plwt_restrictG (fuel : nat) (ub su : bool) (h : heap) (t r : tree) :
  (fuel_of h <= fuel)%nat ->
  WF h -> abs h = Some t ->
  C08Model.restrictG su C08Model.has_taxon C08Model.np_true C08Model.has_taxon t = Some r ->
  exists h', to_hres (Tree_prune_leaves_without_taxa HG fuel true ub su h) = HOk h' /\ WF h' /\
             abs h' = Some (fst (C08Prune.with_update ub su (rooted h) r)).
Proof.
  intros Hf W A R. pose proof (C08W11Leaf.heap_plwt_restrictG ub su h t W A) as G. rewrite R in G.
  destruct G as [h' [E [W' A']]].
  exists h'. split; [|split; assumption].
  rewrite (gen_prune_leaves_without_taxa fuel true ub su h Hf); rewrite (plwt_op_ok _ _ _ _ _ E); [reflexivity|discriminate].
Qed.

Theorem gen_filter_restrictG (fuel : nat) (keep : list Z) (ub su : bool) (h : heap) (t r : tree) :
  (fuel_of h <= fuel)%nat ->
  WF h -> abs h = Some t ->
  C08Model.restrictG su (C08Model.keep_ids keep) C08Model.np_true (C08Model.keep_ids keep) t = Some r ->
  exists h', to_hres (Tree_filter_leaf_nodes HG fuel (fun nd => memz nd keep) true ub su h) = HOk h' /\ WF h' /\
             abs h' = Some (fst (C08Prune.with_update ub su (rooted h) r)).
Proof.
  intros Hf W A R. pose proof (C08W11Leaf.heap_filter_restrictG keep ub su h t W A) as G. rewrite R in G.
  destruct G as [h' [E [W' A']]].
  exists h'. split; [|split; assumption].
  rewrite (gen_filter_leaf_nodes fuel keep true ub su h Hf); rewrite E; [reflexivity|discriminate].
Qed.

(* hypotheses satisfiable, and the generated methods run on the examples *)
Example gen_plwt_is_restrict_hyps :
  (fuel_of C08W11Leaf.w11_heap <= 10)%nat /\
  WF C08W11Leaf.w11_heap /\ abs C08W11Leaf.w11_heap = Some C08W11Leaf.w11_tree /\
  C08W11Leaf.internal_untaxed C08W11Leaf.w11_tree = true /\
  C08Model.restrict true C08Model.has_taxon C08W11Leaf.w11_tree =
    Some (T 0 None None None [T 2 (Some 0) None (Some 3072) []; T 4 (Some 2) None (Some 1024) []]).
Proof. split; [|exact C08W11Leaf.w11_plwt_hyps]. vm_compute. lia. Qed.

Example gen_plwt_w11_run :
  match to_hres (Tree_prune_leaves_without_taxa HG 10 true false true C08W11Leaf.w11_heap) with
  | HOk h' => abs h'
  | _ => None
  end = Some (T 0 None None None [T 2 (Some 0) None (Some 3072) []; T 4 (Some 2) None (Some 1024) []]).
Proof. vm_compute. reflexivity. Qed.

Example gen_filter_is_restrict_hyps :
  (fuel_of C08W10Prune.w10_heap <= 10)%nat /\
  WF C08W10Prune.w10_heap /\ abs C08W10Prune.w10_heap = Some C08W10Prune.w10_tree /\
  C08W11Leaf.keeps_no_internal [3; 4] C08W10Prune.w10_tree = true /\
  C08Model.restrict true (C08Model.keep_ids [3; 4]) C08W10Prune.w10_tree =
    Some (T 0 None None None [T 3 (Some 1) None (Some 3072) []; T 4 (Some 2) None (Some 1024) []]).
Proof. split; [|exact C08W11Leaf.w11_filter_hyps]. vm_compute. lia. Qed.

Example gen_filter_w11_run :
  match to_hres (Tree_filter_leaf_nodes HG 10 (fun nd => memz nd [3; 4]) true false true C08W10Prune.w10_heap) with
  | HOk h' => abs h'
  | _ => None
  end = Some (T 0 None None None [T 3 (Some 1) None (Some 3072) []; T 4 (Some 2) None (Some 1024) []]).
Proof. vm_compute. reflexivity. Qed.
