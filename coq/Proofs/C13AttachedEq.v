(* C13: when the namespace is attached to the reader the taxon-namespace factory is never
   consulted (every use of the configuration goes through `c_attached`, which decides first), so
   the whole iterator is independent of it - by computation.  This is what makes the repaired
   TreeList / Tree routes agree EXACTLY with the iterator and the attached DataSet route. *)
From Coq Require Import ZArith List Bool.
From DV Require Import Model.PyPrims Model.C13Model.
Import ListNotations.

Lemma y_items_attached_eq :
  forall (T : Type) (lower upper : str -> str)
         (parse_tree : mapper -> tz -> res (option T * mapper * tz))
         (set_label : T -> option str -> T) (add_comments : T -> list str -> T) (vl : bool)
         (f1 f2 : tns_factory) (et : bool) fuel k g,
  y_items_from_stream T lower upper parse_tree set_label add_comments vl (mkNsCfg true f1) et fuel k g
  = y_items_from_stream T lower upper parse_tree set_label add_comments vl (mkNsCfg true f2) et fuel k g.
Proof. reflexivity. Qed.
