(* C19: statements about whole histories (the `step` function of the model) *)
From Coq Require Import ZArith List Bool Lia.
From DV Require Import Model.PyPrims Model.C19Model Proofs.C19Alist Proofs.C19Rows Proofs.C19Cols Proofs.C19Concat Proofs.C19Proofs.
Import ListNotations.
Open Scope Z_scope.

Definition wf_world (w : world) : Prop :=
  (forall n T, aget n (w_nss w) = Some T -> NoDup T) /\
  (forall j m, aget j (w_ms w) = Some m -> wf_matrix (taxa_of w (m_ns m)) m).

Lemma taxa_of_NoDup w n : wf_world w -> NoDup (taxa_of w n).
Proof.
  intros [H _]. unfold taxa_of. destruct (aget n (w_nss w)) as [T|] eqn:E; [apply (H n T E) | constructor].
Qed.

Lemma aget_app_some {V} j (l : list (Z * V)) x : aget j l <> None -> aget j (l ++ [x]) = aget j l.
Proof.
  induction l as [|[k v] l IH]; simpl; intros H; [congruence|].
  destruct (Z.eqb j k); [reflexivity | apply IH; exact H].
Qed.

Lemma aget_app_inv {V} j (l : list (Z * V)) k v m :
  aget j (l ++ [(k, v)]) = Some m -> aget j l = Some m \/ (aget j l = None /\ j = k /\ m = v).
Proof.
  induction l as [|[k' v'] l IH]; simpl.
  - destruct (Z.eqb_spec j k); [|discriminate]. intros H. inversion H. right. repeat split; assumption.
  - destruct (Z.eqb j k'); [left; assumption | exact IH].
Qed.

(* ---- per-method preservation of well-formedness ---- *)
Lemma wf_set_rows T m (rs : rows) : NoDup (keys rs) -> incl (keys rs) T -> wf_matrix T (set_rows m rs).
Proof. intros A B. split; assumption. Qed.

Lemma wf_merge F g T s o : wf_matrix T s -> wf_matrix T o ->
  NoDup (keys (merge F g (m_rows s) (m_rows o))) /\ incl (keys (merge F g (m_rows s) (m_rows o))) T.
Proof.
  intros [N1 I1] [N2 I2]. split; [apply merge_NoDup; assumption | apply merge_incl; assumption].
Qed.

Lemma incl_filter {A} (f : A -> bool) l : incl (filter f l) l.
Proof. intros x Hx. apply filter_In in Hx. tauto. Qed.

Lemma wf_filter T (P : tid -> bool) (rs : rows) : NoDup (keys rs) -> incl (keys rs) T ->
  NoDup (keys (filter (fun p => P (fst p)) rs)) /\ incl (keys (filter (fun p => P (fst p)) rs)) T.
Proof.
  intros N I. rewrite keys_filter_key. split; [apply NoDup_filter; exact N|].
  intros x Hx. apply I. apply (incl_filter P). exact Hx.
Qed.

Lemma wf_aput T (rs : rows) t (v : row) : NoDup (keys rs) -> incl (keys rs) T -> In t T ->
  NoDup (keys (aput t v rs)) /\ incl (keys (aput t v rs)) T.
Proof.
  intros N I Ht. split; [apply NoDup_aput; exact N|]. rewrite keys_aput.
  destruct (ahas t rs); [exact I|]. intros x Hx. apply in_app_iff in Hx.
  destruct Hx as [Hx|[Hx|[]]]; [apply I; exact Hx | subst; exact Ht].
Qed.

Lemma fold_extend_wf T : forall (rss : list rows) (s : rows),
  Forall (fun rs => NoDup (keys rs) /\ incl (keys rs) T) rss -> NoDup (keys s) -> incl (keys s) T ->
  NoDup (keys (fold_left extend_matrix_rows rss s)) /\ incl (keys (fold_left extend_matrix_rows rss s)) T.
Proof.
  induction rss as [|rs rss IH]; intros s HF N I; simpl; [split; assumption|].
  inversion HF as [|? ? [N2 I2] HF']; subst. rewrite extend_matrix_rows_merge.
  apply IH; [exact HF' | apply merge_NoDup; assumption | apply merge_incl; assumption].
Qed.

Lemma remove_rows_err : forall (rs : rows) ts e, snd (remove_rows rs ts) = Some e -> e = KeyErr.
Proof.
  intros rs ts. revert rs. induction ts as [|t ts IH]; intros rs e H; simpl in H; [discriminate|].
  destruct (ahas t rs); [apply (IH _ _ H) | inversion H; reflexivity].
Qed.

Lemma resolve_key_cases T k :
  (exists t, resolve_key T k = Ok t) \/ resolve_key T k = Err IndexErr \/ resolve_key T k = Err KeyErr.
Proof.
  destruct k as [i|t|t]; simpl.
  - destruct (Z.ltb (Z.abs i) (zlen T)); [|right; left; reflexivity].
    destruct (nth_error T _) as [t|]; [left; exists t; reflexivity | right; left; reflexivity].
  - destruct (memb t T); [left; exists t; reflexivity | right; right; reflexivity].
  - left. exists t. reflexivity.
Qed.

Section S.
Variable lower : lbl -> lbl.
Variable suffix : lbl -> Z -> lbl.
Variable locus : Z -> lbl.
Notation step := (step lower suffix locus).

Lemma concatenate_wf taxa_of cms res :
  (forall n, NoDup (taxa_of n)) ->
  Forall (fun cm => wf_matrix (taxa_of (m_ns cm)) cm) cms ->
  concatenate lower suffix locus taxa_of cms = Ok res ->
  wf_matrix (taxa_of (m_ns res)) res.
Proof.
  intros NT WF H. destruct cms as [|c0 rest]; [discriminate|]. unfold concatenate in H.
  apply concat_loop_ok in H; [|reflexivity]. destruct H as [HF [R1 [_ [R3 _]]]].
  unfold wf_matrix. rewrite R1, R3. cbn [m_rows].
  apply fold_extend_wf; [|constructor | intros x []].
  rewrite Forall_forall in *. intros rs Hr. apply in_map_iff in Hr. destruct Hr as [cm [E Hc]]. subst.
  destruct (HF cm Hc) as [E _]. specialize (WF cm Hc). rewrite E in WF. exact WF.
Qed.

Lemma as_read_wf taxa_of m : (forall n, NoDup (taxa_of n)) -> wf_matrix (taxa_of (m_ns (as_read taxa_of m))) (as_read taxa_of m).
Proof.
  intros NT. unfold as_read, wf_matrix. cbn [m_ns m_rows]. rewrite keys_items.
  split; [apply NoDup_filter; apply NT | apply incl_filter].
Qed.

Lemma get_all_In ms ids cms : get_all ms ids = Some cms -> forall cm, In cm cms -> exists j, aget j ms = Some cm.
Proof.
  revert cms. induction ids as [|i ids IH]; intros cms H cm Hc; simpl in H.
  - inversion H; subst. destruct Hc.
  - destruct (aget i ms) as [m|] eqn:E; [|discriminate]. destruct (get_all ms ids) as [l|]; [|discriminate].
    inversion H; subst. destruct Hc as [Hc|Hc]; [subst; exists i; exact E | apply (IH l eq_refl cm Hc)].
Qed.

(* the effect of a step on the table of matrices is one of three *)
Definition same_ns_taxa (w w' : world) : Prop := w_nss w' = w_nss w.

Lemma upd_wf w m mm mm' : wf_world w -> aget m (w_ms w) = Some mm -> m_ns mm' = m_ns mm ->
  wf_matrix (taxa_of w (m_ns mm)) mm' -> wf_world (upd w m mm').
Proof.
  intros [W1 W2] G E W. split; [exact W1|]. intros j x Hj. cbn [w_ms upd] in Hj. rewrite aget_aput in Hj.
  unfold taxa_of. cbn [w_nss upd]. fold (taxa_of w (m_ns x)).
  destruct (Z.eqb_spec j m); [inversion Hj; subst; rewrite E; exact W | apply (W2 j x Hj)].
Qed.

Lemma add_new_wf w mm : wf_world w -> wf_matrix (taxa_of w (m_ns mm)) mm -> wf_world (add_new w mm).
Proof.
  intros [W1 W2] W. split; [exact W1|]. intros j x Hj. cbn [w_ms add_new] in Hj.
  unfold taxa_of. cbn [w_nss add_new]. fold (taxa_of w (m_ns x)).
  apply aget_app_inv in Hj. destruct Hj as [Hj|[_ [_ Hj]]]; [apply (W2 j x Hj) | subst; exact W].
Qed.

Lemma lift_wf w m mm r o : wf_world w -> aget m (w_ms w) = Some mm ->
  (forall mm', r = Ok mm' -> m_ns mm' = m_ns mm /\ wf_matrix (taxa_of w (m_ns mm)) mm') ->
  wf_world (fst (lift w m r o)).
Proof.
  intros W G H. unfold lift. destruct r as [mm'| |]; simpl; try exact W.
  destruct (H mm' eq_refl) as [A B]. apply (upd_wf w m mm mm' W G A B).
Qed.

Lemma lift_new_wf w r : wf_world w -> (forall mm, r = Ok mm -> wf_matrix (taxa_of w (m_ns mm)) mm) ->
  wf_world (fst (lift_new w r)).
Proof.
  intros W H. unfold lift_new. destruct r as [mm| |]; simpl; try exact W. apply add_new_wf; [exact W | apply H; reflexivity].
Qed.

Lemma wf_binary w mm mo (F : row -> row -> option row) g :
  wf_world w -> (exists j, aget j (w_ms w) = Some mm) -> (exists j, aget j (w_ms w) = Some mo) ->
  same_ns mm mo = true ->
  wf_matrix (taxa_of w (m_ns mm)) (set_rows mm (merge F g (m_rows mm) (m_rows mo))).
Proof.
  intros [_ W2] [j Hj] [k Hk] E. unfold same_ns in E. apply Z.eqb_eq in E.
  apply W2 in Hj. apply W2 in Hk. rewrite E in Hk.
  destruct (wf_merge F g _ mm mo Hj Hk) as [A B]. apply wf_set_rows; assumption.
Qed.

Theorem step_wf w o : wf_world w -> wf_world (fst (step w o)).
Proof.
  intros W. pose proof W as [W1 W2].
  assert (NT : forall n, NoDup (taxa_of w n)) by (intros n; apply taxa_of_NoDup; exact W).
  destruct o; cbn [C19Model.step]; unfold with1, with2, bad_id.
  - (* Concat *)
    destruct (get_all (w_ms w) ids) as [cms|] eqn:G; [|exact W].
    apply lift_new_wf; [exact W|]. intros mm H. apply (concatenate_wf (taxa_of w) cms mm NT); [|exact H].
    rewrite Forall_forall. intros cm Hc. destruct (get_all_In _ _ _ G cm Hc) as [j Hj]. apply (W2 j cm Hj).
  - (* ConcatRead *)
    destruct (get_all (w_ms w) ids) as [cms|] eqn:G; [|exact W].
    apply lift_new_wf; [exact W|]. intros mm H. apply (concatenate_wf (taxa_of w) (map (as_read (taxa_of w)) cms) mm NT); [|exact H].
    rewrite Forall_forall. intros cm Hc. apply in_map_iff in Hc. destruct Hc as [x [E _]]. subst. apply as_read_wf. exact NT.
  - (* ExportIdx *)
    destruct (aget m (w_ms w)) as [mm|] eqn:G; [|exact W].
    apply lift_new_wf; [exact W|]. intros e H. inversion H; subst. destruct (W2 m mm G) as [A B].
    unfold export_character_indices, wf_matrix. cbn [m_ns m_rows]. rewrite export_rows_keys. split; assumption.
  - (* ExportSub *)
    destruct (aget m (w_ms w)) as [mm|] eqn:G; [|exact W].
    apply lift_new_wf; [exact W|]. intros e H. unfold export_character_subset in H.
    destruct (find_sub lower l (m_subs mm)); [|discriminate]. inversion H; subst. destruct (W2 m mm G) as [A B].
    unfold export_character_indices, wf_matrix. cbn [m_ns m_rows]. rewrite export_rows_keys. split; assumption.
  - (* Fill *)
    destruct (aget m (w_ms w)) as [mm|] eqn:G; [|exact W]. unfold fill. cbn [fst].
    destruct (W2 m mm G) as [A B]. apply (upd_wf w m mm _ W G); [reflexivity|].
    apply wf_set_rows; rewrite fill_rows_keys; assumption.
  - (* FillTaxa *)
    destruct (aget m (w_ms w)) as [mm|] eqn:G; [|exact W]. cbn [fst].
    destruct (W2 m mm G) as [A B]. apply (upd_wf w m mm _ W G); [reflexivity|].
    unfold fill_taxa. apply wf_set_rows; rewrite fill_taxa_rows_keys by apply NT.
    + apply NoDup_app_intro; [exact A | apply NoDup_filter; apply NT|].
      intros x Hx Hf. apply filter_In in Hf. destruct Hf as [_ Hf]. apply ahas_In in Hx. rewrite Hx in Hf. discriminate.
    + intros x Hx. apply in_app_iff in Hx. destruct Hx as [Hx|Hx]; [apply B; exact Hx | apply (incl_filter _ _ _ Hx)].
  - (* Pack *)
    destruct (aget m (w_ms w)) as [mm|] eqn:G; [|exact W]. unfold pack, fill. cbn [fst].
    destruct (W2 m mm G) as [A B]. apply (upd_wf w m mm _ W G); [reflexivity|].
    apply wf_set_rows; rewrite fill_rows_keys; unfold fill_taxa; cbn [m_rows set_rows]; rewrite fill_taxa_rows_keys by apply NT.
    + apply NoDup_app_intro; [exact A | apply NoDup_filter; apply NT|].
      intros x Hx Hf. apply filter_In in Hf. destruct Hf as [_ Hf]. apply ahas_In in Hx. rewrite Hx in Hf. discriminate.
    + intros x Hx. apply in_app_iff in Hx. destruct Hx as [Hx|Hx]; [apply B; exact Hx | apply (incl_filter _ _ _ Hx)].
  - (* AddSeqs *)
    destruct (aget m (w_ms w)) as [mm|] eqn:G; [|exact W]. destruct (aget o (w_ms w)) as [mo|] eqn:Go; [|exact W].
    apply (lift_wf w m mm _ _ W G). intros mm' H. unfold add_sequences in H.
    destruct (same_ns mm mo) eqn:E; cbn [negb] in H; [|discriminate]. inversion H; subst. split; [reflexivity|].
    rewrite add_rows_merge. apply (wf_binary w mm mo); eauto.
  - (* ReplaceSeqs *)
    destruct (aget m (w_ms w)) as [mm|] eqn:G; [|exact W]. destruct (aget o (w_ms w)) as [mo|] eqn:Go; [|exact W].
    apply (lift_wf w m mm _ _ W G). intros mm' H. unfold replace_sequences in H.
    destruct (same_ns mm mo) eqn:E; cbn [negb] in H; [|discriminate]. inversion H; subst. split; [reflexivity|].
    rewrite replace_rows_merge. apply (wf_binary w mm mo); eauto.
  - (* UpdateSeqs *)
    destruct (aget m (w_ms w)) as [mm|] eqn:G; [|exact W]. destruct (aget o (w_ms w)) as [mo|] eqn:Go; [|exact W].
    apply (lift_wf w m mm _ _ W G). intros mm' H. unfold update_sequences in H.
    destruct (same_ns mm mo) eqn:E; cbn [negb] in H; [|discriminate]. inversion H; subst. split; [reflexivity|].
    rewrite update_rows_merge. apply (wf_binary w mm mo); eauto.
  - (* ExtendSeqs *)
    destruct (aget m (w_ms w)) as [mm|] eqn:G; [|exact W]. destruct (aget o (w_ms w)) as [mo|] eqn:Go; [|exact W].
    apply (lift_wf w m mm _ _ W G). intros mm' H. unfold extend_sequences in H.
    destruct (same_ns mm mo) eqn:E; cbn [negb] in H; [|discriminate]. inversion H; subst. split; [reflexivity|].
    rewrite extend_rows_merge. apply (wf_binary w mm mo); eauto.
  - (* ExtendMatrix *)
    destruct (aget m (w_ms w)) as [mm|] eqn:G; [|exact W]. destruct (aget o (w_ms w)) as [mo|] eqn:Go; [|exact W].
    apply (lift_wf w m mm _ _ W G). intros mm' H. unfold extend_matrix in H.
    destruct (same_ns mm mo) eqn:E; cbn [negb] in H; [|discriminate]. inversion H; subst. split; [reflexivity|].
    rewrite extend_matrix_rows_merge. apply (wf_binary w mm mo); eauto.
  - (* RemoveSeqs *)
    destruct (aget m (w_ms w)) as [mm|] eqn:G; [|exact W]. destruct (W2 m mm G) as [A B].
    destruct (remove_rows (m_rows mm) ts) as [rs e] eqn:R. cbn [fst].
    apply (upd_wf w m mm _ W G); [reflexivity|].
    destruct (remove_rows_spec ts (m_rows mm) A) as [ts1 [ts2 [_ [_ [_ [F _]]]]]]. rewrite R in F. cbn [fst] in F. subst rs.
    unfold without. apply wf_set_rows; apply (wf_filter (taxa_of w (m_ns mm)) (fun k => negb (memb k ts1)) (m_rows mm) A B).
  - (* DiscardSeqs *)
    destruct (aget m (w_ms w)) as [mm|] eqn:G; [|exact W]. destruct (W2 m mm G) as [A B]. cbn [fst].
    apply (upd_wf w m mm _ W G); [reflexivity|]. rewrite discard_rows_spec by exact A.
    unfold without. apply wf_set_rows; apply (wf_filter (taxa_of w (m_ns mm)) (fun k => negb (memb k ts)) (m_rows mm) A B).
  - (* KeepSeqs *)
    destruct (aget m (w_ms w)) as [mm|] eqn:G; [|exact W]. destruct (W2 m mm G) as [A B]. cbn [fst].
    apply (upd_wf w m mm _ W G); [reflexivity|].
    unfold keep_rows. apply wf_set_rows; apply (wf_filter (taxa_of w (m_ns mm)) (fun k => memb k ts) (m_rows mm) A B).
  - (* NewSeq *)
    destruct (aget m (w_ms w)) as [mm|] eqn:G; [|exact W]. destruct (W2 m mm G) as [A B].
    apply (lift_wf w m mm _ _ W G). intros mm' H. unfold new_sequence in H.
    destruct (ahas t (m_rows mm)); [discriminate|]. destruct (memb t (taxa_of w (m_ns mm))) eqn:M; cbn [negb] in H; [|discriminate].
    inversion H; subst. split; [reflexivity|]. apply memb_In in M.
    destruct (wf_aput _ (m_rows mm) t vals A B M). apply wf_set_rows; assumption.
  - (* SetItem *)
    destruct (aget m (w_ms w)) as [mm|] eqn:G; [|exact W]. destruct (W2 m mm G) as [A B].
    apply (lift_wf w m mm _ _ W G). intros mm' H. unfold setitem in H.
    destruct (resolve_key (taxa_of w (m_ns mm)) k) as [t| |]; try discriminate.
    destruct (memb t (taxa_of w (m_ns mm))) eqn:M; cbn [negb] in H; [|discriminate].
    inversion H; subst. split; [reflexivity|]. apply memb_In in M.
    destruct (wf_aput _ (m_rows mm) t vals A B M). apply wf_set_rows; assumption.
  - (* GetItem *)
    destruct (aget m (w_ms w)) as [mm|] eqn:G; [|exact W]. destruct (W2 m mm G) as [A B].
    unfold getitem. destruct (resolve_key (taxa_of w (m_ns mm)) k) as [t| |]; try exact W.
    destruct (aget t (m_rows mm)) as [r|].
    + cbn [fst]. apply (upd_wf w m mm mm W G eq_refl). split; assumption.
    + unfold new_sequence. destruct (ahas t (m_rows mm)); [exact W|].
      destruct (memb t (taxa_of w (m_ns mm))) eqn:M; cbn [negb]; [|exact W]. cbn [fst].
      apply (upd_wf w m mm _ W G); [reflexivity|]. apply memb_In in M.
      destruct (wf_aput _ (m_rows mm) t [] A B M). apply wf_set_rows; assumption.
  - (* NewSubset *)
    destruct (aget m (w_ms w)) as [mm|] eqn:G; [|exact W].
    apply (lift_wf w m mm _ _ W G). intros mm' H. unfold new_character_subset in H.
    destruct (has_key lower l (m_subs mm)); [discriminate|]. inversion H; subst. split; [reflexivity|]. apply (W2 m mm G).
Qed.

Theorem run_world_wf ops : forall w, wf_world w -> wf_world (run_world lower suffix locus w ops).
Proof.
  unfold run_world. induction ops as [|o ops IH]; intros w W; simpl; [exact W|]. apply IH. apply step_wf. exact W.
Qed.

(* ---- what a step may change ---- *)
Lemma lift_frame w m r o j mj : aget j (w_ms w) = Some mj -> j <> m ->
  aget j (w_ms (fst (lift w m r o))) = Some mj /\ w_nss (fst (lift w m r o)) = w_nss w.
Proof.
  intros G N. unfold lift. destruct r; simpl; try (split; [exact G | reflexivity]).
  rewrite aget_aput_neq by exact N. split; [exact G | reflexivity].
Qed.

Lemma upd_frame w m mm j mj : aget j (w_ms w) = Some mj -> j <> m ->
  aget j (w_ms (upd w m mm)) = Some mj /\ w_nss (upd w m mm) = w_nss w.
Proof. intros G N. simpl. rewrite aget_aput_neq by exact N. split; [exact G | reflexivity]. Qed.

Lemma lift_new_frame w r j mj : aget j (w_ms w) = Some mj ->
  aget j (w_ms (fst (lift_new w r))) = Some mj /\ w_nss (fst (lift_new w r)) = w_nss w.
Proof.
  intros G. unfold lift_new. destruct r; simpl; try (split; [exact G | reflexivity]).
  rewrite aget_app_some by congruence. split; [exact G | reflexivity].
Qed.

Theorem step_frame w o j mj :
  aget j (w_ms w) = Some mj -> receiver o <> Some j ->
  aget j (w_ms (fst (step w o))) = Some mj /\ w_nss (fst (step w o)) = w_nss w.
Proof.
  intros G N.
  assert (N' : forall m, receiver o = Some m -> j <> m) by (intros m E X; subst j; apply N; exact E).
  destruct o; cbn [C19Model.step receiver] in *; unfold with1, with2, bad_id;
    try (destruct (get_all (w_ms w) ids); [apply lift_new_frame; exact G | split; [exact G | reflexivity]]);
    try specialize (N' m eq_refl);
    (destruct (aget m (w_ms w)) as [mm|]; [|split; [exact G | reflexivity]]);
    try (destruct (aget o (w_ms w)) as [mo|]; [|split; [exact G | reflexivity]]);
    try (apply lift_new_frame; exact G);
    try (apply lift_frame; assumption).

  - destruct (fill _ mm v size append). apply upd_frame; assumption.
  - apply upd_frame; assumption.
  - destruct (pack _ mm v size append). apply upd_frame; assumption.
  - destruct (remove_rows (m_rows mm) ts). apply upd_frame; assumption.
  - apply upd_frame; assumption.
  - apply upd_frame; assumption.
  - destruct (getitem _ mm k) as [[mm' r]| |]; try (split; [exact G | reflexivity]). apply upd_frame; assumption.
Qed.

(* ---- refusal of foreign namespaces, at the level of histories ---- *)
Theorem step_foreign_refused w o m other mm mo :
  aget m (w_ms w) = Some mm -> aget other (w_ms w) = Some mo -> m_ns mo <> m_ns mm ->
  (o = AddSeqs m other \/ o = ReplaceSeqs m other \/ o = UpdateSeqs m other \/
   (exists b, o = ExtendSeqs m other b) \/ o = ExtendMatrix m other) ->
  step w o = (w, OErr ValueErr).
Proof.
  intros G Go N H.
  assert (NE : Z.eqb m other = false).
  { apply Z.eqb_neq. intro E. subst. rewrite G in Go. inversion Go. subst. apply N. reflexivity. }
  destruct (foreign_namespace_refused_l mm mo N) as [A [B [C [D E]]]].
  destruct H as [H|[H|[H|[[b H]|H]]]]; subst o; cbn [C19Model.step]; unfold with2; rewrite G, Go, ?A, ?B, ?C, ?D, ?E; reflexivity.
Qed.

(* ---- termination: the model never reports Hang ---- *)
Lemma concat_loop_err T ns0 nseqs : forall cms cidx acc pos e,
  concat_loop lower suffix locus T ns0 nseqs cms cidx acc pos = Err e -> e <> Hang.
Proof.
  induction cms as [|cm rest IH]; intros cidx acc pos e H; [discriminate|].
  cbn [C19Model.concat_loop] in H.
  destruct (negb (Z.eqb (m_ns cm) ns0)); [inversion H; discriminate|].
  destruct (negb (Z.eqb (zlen (m_rows cm)) (zlen T))); [inversion H; discriminate|].
  destruct (negb (Z.eqb (zlen (m_rows cm)) nseqs)); [inversion H; discriminate|].
  destruct T as [|t0 T']; [inversion H; discriminate|].
  destruct (aget t0 (m_rows cm)) as [r0|]; [|inversion H; discriminate].
  destruct (negb (forallb (fun p => Z.eqb (zlen (snd p)) (zlen r0)) (items (t0 :: T') (m_rows cm)))); [inversion H; discriminate|].
  unfold extend_matrix in H. destruct (negb (same_ns acc cm)); [inversion H; discriminate|]. cbv zeta in H.
  match type of H with context [free_name ?a ?b ?c ?d ?e ?f ?g] => destruct (free_name a b c d e f g) as [cs|e'|] eqn:FN end.
  - unfold new_character_subset in H. destruct (has_key lower cs _); [inversion H; discriminate|]. apply IH in H. exact H.
  - exfalso. exact (free_name_no_err lower suffix _ _ _ _ _ _ FN).
  - discriminate.
Qed.

Lemma lift_hang w m r o : o <> OErr Hang -> snd (lift w m r o) = OErr Hang -> r = OutOfFuel \/ r = Err Hang.
Proof. unfold lift. destruct r as [x|e|]; simpl; intros N H; [contradiction | right; inversion H; reflexivity | left; reflexivity]. Qed.

Lemma lift_new_hang w r : snd (lift_new w r) = OErr Hang -> r = OutOfFuel \/ r = Err Hang.
Proof. unfold lift_new. destruct r as [x|e|]; simpl; intros H; [discriminate | right; inversion H; reflexivity | left; reflexivity]. Qed.

Lemma concatenate_not_hang taxa cms :
  (forall l i j, lower (suffix l i) = lower (suffix l j) -> i = j) ->
  concatenate lower suffix locus taxa cms <> OutOfFuel /\ concatenate lower suffix locus taxa cms <> Err Hang.
Proof.
  intros Inj. split; [apply (concatenate_terminates_l lower suffix locus Inj)|].
  destruct cms as [|c0 rest]; [discriminate|]. unfold concatenate. intro H. apply concat_loop_err in H. congruence.
Qed.

Theorem step_terminates w o :
  (forall l i j, lower (suffix l i) = lower (suffix l j) -> i = j) ->
  snd (step w o) <> OErr Hang.
Proof.
  intros Inj H.
  destruct o; cbn [C19Model.step] in H; unfold with1, with2, bad_id in H.
  - destruct (get_all (w_ms w) ids); [|discriminate]. apply lift_new_hang in H.
    destruct (concatenate_not_hang (taxa_of w) l Inj). destruct H; contradiction.
  - destruct (get_all (w_ms w) ids); [|discriminate]. apply lift_new_hang in H.
    destruct (concatenate_not_hang (taxa_of w) (map (as_read (taxa_of w)) l) Inj). destruct H; contradiction.
  - destruct (aget m (w_ms w)); [|discriminate]. apply lift_new_hang in H. destruct H; discriminate.
  - destruct (aget m (w_ms w)) as [mm|]; [|discriminate]. apply lift_new_hang in H. unfold export_character_subset in H.
    destruct (find_sub lower l (m_subs mm)); destruct H; discriminate.
  - destruct (aget m (w_ms w)) as [mm|]; [|discriminate]. destruct (fill _ mm v size append). discriminate.
  - destruct (aget m (w_ms w)); discriminate.
  - destruct (aget m (w_ms w)) as [mm|]; [|discriminate]. destruct (pack _ mm v size append). discriminate.
  - destruct (aget m (w_ms w)) as [mm|]; [|discriminate]. destruct (aget o (w_ms w)) as [mo|]; [|discriminate].
    apply lift_hang in H; [|discriminate]. unfold add_sequences in H. destruct (negb (same_ns mm mo)); destruct H; discriminate.
  - destruct (aget m (w_ms w)) as [mm|]; [|discriminate]. destruct (aget o (w_ms w)) as [mo|]; [|discriminate].
    apply lift_hang in H; [|discriminate]. unfold replace_sequences in H. destruct (negb (same_ns mm mo)); destruct H; discriminate.
  - destruct (aget m (w_ms w)) as [mm|]; [|discriminate]. destruct (aget o (w_ms w)) as [mo|]; [|discriminate].
    apply lift_hang in H; [|discriminate]. unfold update_sequences in H. destruct (negb (same_ns mm mo)); destruct H; discriminate.
  - destruct (aget m (w_ms w)) as [mm|]; [|discriminate]. destruct (aget o (w_ms w)) as [mo|]; [|discriminate].
    apply lift_hang in H; [|discriminate]. unfold extend_sequences in H. destruct (negb (same_ns mm mo)); destruct H; discriminate.
  - destruct (aget m (w_ms w)) as [mm|]; [|discriminate]. destruct (aget o (w_ms w)) as [mo|]; [|discriminate].
    apply lift_hang in H; [|discriminate]. unfold extend_matrix in H. destruct (negb (same_ns mm mo)); destruct H; discriminate.
  - destruct (aget m (w_ms w)) as [mm|]; [|discriminate].
    destruct (remove_rows (m_rows mm) ts) as [rs e] eqn:R. cbn [snd] in H.
    destruct e as [e|]; [|discriminate]. assert (X := remove_rows_err (m_rows mm) ts e). rewrite R in X.
    specialize (X eq_refl). subst. discriminate.
  - destruct (aget m (w_ms w)); discriminate.
  - destruct (aget m (w_ms w)); discriminate.
  - destruct (aget m (w_ms w)) as [mm|]; [|discriminate]. apply lift_hang in H; [|discriminate].
    unfold new_sequence in H. destruct (ahas t (m_rows mm)); [destruct H; discriminate|].
    destruct (negb (memb t (taxa_of w (m_ns mm)))); destruct H; discriminate.
  - destruct (aget m (w_ms w)) as [mm|]; [|discriminate]. apply lift_hang in H; [|discriminate].
    unfold setitem in H. destruct (resolve_key_cases (taxa_of w (m_ns mm)) k) as [[t E]|[E|E]]; rewrite E in H.
    + destruct (negb (memb t (taxa_of w (m_ns mm)))); destruct H; discriminate.
    + destruct H; discriminate.
    + destruct H; discriminate.
  - destruct (aget m (w_ms w)) as [mm|]; [|discriminate]. unfold getitem in H.
    destruct (resolve_key_cases (taxa_of w (m_ns mm)) k) as [[t E]|[E|E]]; rewrite E in H; try discriminate.
    destruct (aget t (m_rows mm)); [discriminate|]. unfold new_sequence in H.
    destruct (ahas t (m_rows mm)); [discriminate|].
    destruct (negb (memb t (taxa_of w (m_ns mm)))); discriminate.
  - destruct (aget m (w_ms w)) as [mm|]; [|discriminate]. apply lift_hang in H; [|discriminate].
    unfold new_character_subset in H. destruct (has_key lower l (m_subs mm)); destruct H; discriminate.
Qed.

End S.

