(* C03, wave 9: op_error_frame for Edge.invert as a stand-alone operation.
   (A) on EVERY heap an error outcome of Edge.invert leaves one of three explicitly written states;
   (B) on a well-formed heap and a live node the only error is the entry refusal (the seed's edge has no tail node:
       ValueError, heap unchanged) - the internal assertions of Edge.invert cannot trip.
   (A completed stand-alone Edge.invert does NOT leave a well-formed tree: Props/C03.v edge_invert_alone_not_wf.) *)
From Coq Require Import ZArith List Bool Lia Permutation.
From DV Require Import Model.PyPrims Model.Tree Model.Heap Model.HeapOps
  Proofs.C03Base Proofs.C03Abs Proofs.C03Local Proofs.C03Hist Proofs.C03More Proofs.C03Hist2 Proofs.C03ErrFrame.
Import ListNotations.
Open Scope Z_scope.

(* the state after the first statement group of Edge.invert (the grandparent now lists c in p's place) *)
Definition invert_regraft (c p : Z) (h : heap) : heap :=
  match parent h p with
  | Some g =>
    if memz p (kids h g) then set_kids g (replace_first p c (kids h g)) h
    else if memz c (kids h g) then h else set_kids g (kids h g ++ [c]) h
  | None => h
  end.

Definition invert_err_states (c : Z) (h : heap) : list heap :=
  match parent h c with
  | None => []
  | Some p =>
    let h1 := invert_regraft c p h in
    h1 :: match remove_child_plain p c h1 with HOk h2 => [h2] | _ => [] end
  end.

(* (A) *)
Lemma edge_invert_error_states_l c h e h' :
  edge_invert c h = HErr e h' -> h' = h \/ In h' (invert_err_states c h).
Proof.
  unfold edge_invert, invert_err_states. destruct (parent h c) as [p|]; [|intros H; inversion H; left; reflexivity].
  fold (invert_regraft c p h). set (h1 := invert_regraft c p h). cbv zeta.
  destruct (negb (memz c (kids h1 p))); [intros H; inversion H; right; left; reflexivity|].
  destruct (remove_child_plain p c h1) as [h2|e2 h2|] eqn:E; cbn [hbind]; try discriminate.
  - destruct (memz c (kids h2 p)); [intros H; inversion H; right; right; left; reflexivity|].
    destruct (add_child c p h2) as [h3|e3 h3|] eqn:E3; cbn [hbind]; try discriminate.
    intros H; inversion H; subst. apply add_child_err in E3. destruct E3 as [-> _]. right; right; left; reflexivity.
  - intros H; inversion H; subst. apply remove_child_plain_err in E. destruct E as [-> _]. right; left; reflexivity.
Qed.

(* (B) *)
Lemma parent_neq h t nd p : Wr h t -> In nd (ids t) -> parent h nd = Some p -> p <> nd.
Proof.
  intros W Hn Pn. destruct (find_ctx t nd Hn) as [c [s [-> Es]]]. subst nd.
  pose proof W as [R [N _]]. apply rep_plug in R. destruct R as [Rc Rs].
  rewrite (rep_parent h _ s Rs) in Pn.
  destruct c as [|c' q x l e lft rgt]; simpl in Pn; [discriminate|]. inversion Pn; subst q.
  eapply Permutation_NoDup in N; [|apply ids_plug]. apply NoDup_app_iff in N. destruct N as [_ [_ D]].
  intro E. apply (D (t_id s)); [apply ids_root|]. rewrite <- E. simpl. left. reflexivity.
Qed.

Lemma remove_first_nodup x l : NoDup l -> ~ In x (remove_first x l).
Proof.
  induction l as [|y r IH]; intros N; simpl; [tauto|]. apply NoDup_cons_iff in N. destruct N as [Ny Nr].
  destruct (Z.eqb x y) eqn:E.
  - apply Z.eqb_eq in E. subst y. exact Ny.
  - apply Z.eqb_neq in E. simpl. intros [->|H]; [apply E; reflexivity|exact (IH Nr H)].
Qed.

Lemma kids_set_kids_other g v h p : p <> g -> kids (set_kids g v h) p = kids h p.
Proof. intro D. unfold kids. rewrite get_set_kids. destruct (Z.eqb p g) eqn:E; [apply Z.eqb_eq in E; contradiction|reflexivity]. Qed.

Lemma kids_regraft c p h : (forall g, parent h p = Some g -> g <> p) -> kids (invert_regraft c p h) p = kids h p.
Proof.
  intro D. unfold invert_regraft. destruct (parent h p) as [g|]; [|reflexivity].
  assert (Dg : p <> g) by (intro E; apply (D g eq_refl); symmetry; exact E).
  destruct (memz p (kids h g)); [apply kids_set_kids_other, Dg|].
  destruct (memz c (kids h g)); [reflexivity|apply kids_set_kids_other, Dg].
Qed.

Theorem edge_invert_error_frame_l h c e h' :
  WF h -> live h c -> edge_invert c h = HErr e h' -> h' = h /\ e = ValueErr /\ parent h c = None.
Proof.
  intros [t W] L H. pose proof (live_in h t c W L) as Hc. pose proof W as [W0 S].
  destruct (parent h c) as [p|] eqn:Pc.
  2:{ unfold edge_invert in H. rewrite Pc in H. inversion H. repeat split. }
  exfalso.
  destruct (live_parent h t c p W0 Hc Pc) as [Hp Ck].
  pose proof (parent_neq h t c p W0 Hc Pc) as Dpc.
  assert (Dg : forall g, parent h p = Some g -> g <> p) by (intros g Pg; exact (parent_neq h t p g W0 Hp Pg)).
  destruct (wf_meaning_l h (ex_intro _ t W)) as [t2 [A2 [_ [_ [_ K]]]]].
  assert (Et : t2 = t). { rewrite (abs_WFt h t W) in A2. inversion A2; reflexivity. } subst t2.
  destruct (K p Hp) as [Np _].
  unfold edge_invert in H. rewrite Pc in H. fold (invert_regraft c p h) in H.
  set (h1 := invert_regraft c p h) in *. cbv zeta in H.
  assert (K1 : kids h1 p = kids h p) by (apply kids_regraft, Dg).
  assert (M1 : memz c (kids h1 p) = true) by (rewrite K1; apply memz_In, Ck).
  rewrite M1 in H. cbn [negb] in H.
  unfold remove_child_plain in H. rewrite M1 in H. cbv zeta in H. cbn [hbind] in H.
  set (h2 := set_kids p (remove_first c (kids (set_parent c None h1) p)) (set_parent c None h1)) in *.
  assert (Kp : kids (set_parent c None h1) p = kids h p).
  { unfold kids at 1. rewrite get_set_parent. destruct (Z.eqb p c) eqn:E; [apply Z.eqb_eq in E; contradiction|].
    exact K1. }
  assert (K2 : kids h2 p = remove_first c (kids h p)).
  { unfold h2, kids at 1. rewrite get_set_kids, Z.eqb_refl. cbn [c_kids]. rewrite Kp. reflexivity. }
  assert (M2 : memz c (kids h2 p) = false).
  { apply memz_false. rewrite K2. apply remove_first_nodup, Np. }
  rewrite M2 in H.
  assert (P2 : parent h2 c = None).
  { unfold h2, parent at 1. rewrite get_set_kids.
    destruct (Z.eqb c p) eqn:E; [apply Z.eqb_eq in E; symmetry in E; contradiction|].
    rewrite get_set_parent, Z.eqb_refl. reflexivity. }
  unfold add_child in H.
  assert (E1 : Z.eqb p c = false) by (apply Z.eqb_neq; exact Dpc).
  rewrite E1 in H.
  destruct (oz_eqb (parent h2 c) (Some p)) eqn:E2; [rewrite P2 in E2; cbn in E2; discriminate|].
  cbn [hbind] in H. discriminate.
Qed.

(* satisfiable: the refusal on the seed of the example tree, and a live non-seed node on which Edge.invert completes *)
Example w9_invert_examples :
  live ef_heap 0 /\ edge_invert 0 ef_heap = HErr ValueErr ef_heap /\
  live ef_heap 5 /\ exists h', edge_invert 5 ef_heap = HOk h'.
Proof.
  split; [eexists; split; [vm_compute; reflexivity|vm_compute; tauto]|].
  split; [vm_compute; reflexivity|].
  split; [eexists; split; [vm_compute; reflexivity|vm_compute; tauto]|].
  eexists. vm_compute. reflexivity.
Qed.
