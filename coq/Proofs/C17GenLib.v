(* C17: lemmas about the run-time library of the generated code (Model/C17Prims.v) *)
From Coq Require Import ZArith QArith List Bool Lia ZifyBool.
From DV Require Import Model.PyPrims Model.Tree Model.C17Model Model.C17Prims Proofs.C17Ages.
Import ListNotations.
Open Scope Z_scope.

Lemma py_for_app {A S} (l1 l2 : list A) (body : A -> S -> xres S) (s : S) :
  py_for (l1 ++ l2) body s = xbind (py_for l1 body s) (py_for l2 body).
Proof.
  revert s. induction l1 as [|x r IH]; intro s; [reflexivity|]. cbn [app py_for].
  destruct (body x s) as [s'|e]; cbn [xbind]; [apply IH | reflexivity].
Qed.

Lemma xbind_ret {A} (r : xres A) : xbind r (fun a => XOk a) = r.
Proof. destruct r; reflexivity. Qed.

Lemma py_for_one {A S} (x : A) (body : A -> S -> xres S) (s : S) : py_for [x] body s = body x s.
Proof. cbn [py_for]. apply xbind_ret. Qed.

Lemma py_for_ext {A S} (l : list A) (b1 b2 : A -> S -> xres S) (s : S) :
  (forall x s', In x l -> b1 x s' = b2 x s') -> py_for l b1 s = py_for l b2 s.
Proof.
  revert s. induction l as [|x r IH]; intros s H; [reflexivity|]. cbn [py_for].
  rewrite (H x s (or_introl eq_refl)). destruct (b2 x s) as [s'|e]; cbn [xbind]; [|reflexivity].
  apply IH. intros y s'' Hy. apply H. right. exact Hy.
Qed.

(* nodes of the iterators *)
Lemma post_under_unfold anc t :
  post_under anc t = flat_map (post_under (t_id t :: anc)) (t_kids t) ++ [mkNode t anc].
Proof. destruct t; reflexivity. Qed.

Lemma pre_under_unfold anc t :
  pre_under anc t = mkNode t anc :: flat_map (pre_under (t_id t :: anc)) (t_kids t).
Proof. destruct t; reflexivity. Qed.

Lemma post_under_subs anc t : map n_sub (post_under anc t) = postorder t.
Proof.
  revert anc. induction t as [i x l e ks IH] using tree_ind'. intro anc. cbn [post_under postorder].
  rewrite map_app. cbn [map n_sub]. f_equal.
  induction IH as [|c r Hc _ IHr]; [reflexivity|]. cbn [flat_map]. rewrite map_app, Hc, IHr. reflexivity.
Qed.

Lemma pre_under_subs anc t : map n_sub (pre_under anc t) = preorder t.
Proof.
  revert anc. induction t as [i x l e ks IH] using tree_ind'. intro anc. cbn [pre_under preorder map n_sub]. f_equal.
  induction IH as [|c r Hc _ IHr]; [reflexivity|]. cbn [flat_map]. rewrite map_app, Hc, IHr. reflexivity.
Qed.

Lemma child_nodes_subs n : map n_sub (py_child_nodes n) = t_kids (n_sub n).
Proof. unfold py_child_nodes. rewrite map_map. cbn [n_sub]. apply map_id. Qed.

Lemma child_nodes_mk t anc :
  py_child_nodes (mkNode t anc) = map (fun k => mkNode k (t_id t :: anc)) (t_kids t).
Proof. reflexivity. Qed.

Lemma py_len_map {A B} (f : A -> B) l : py_len (map f l) = py_len l.
Proof. unfold py_len. rewrite map_length. reflexivity. Qed.

Lemma py_len_zero {A} (l : list A) : (py_len l =? 0) = match l with [] => true | _ => false end.
Proof. destruct l; cbn; [reflexivity|]. unfold py_len. cbn [length]. lia. Qed.

(* identities *)
Definition ids (t : tree) : list Z := map t_id (preorder t).

Lemma ids_unfold t : ids t = t_id t :: flat_map ids (t_kids t).
Proof.
  unfold ids. rewrite preorder_unfold. cbn [map]. f_equal.
  induction (t_kids t) as [|c r IH]; [reflexivity|]. cbn [flat_map]. rewrite map_app, IH. reflexivity.
Qed.

Lemma in_ids t v : In v (preorder t) -> In (t_id v) (ids t).
Proof. intro H. unfold ids. apply in_map. exact H. Qed.

Lemma in_ids_kid t k i : In k (t_kids t) -> In i (ids k) -> In i (ids t).
Proof.
  intros Hk Hi. unfold ids in *. apply in_map_iff in Hi. destruct Hi as [v [<- Hv]].
  apply in_map. eapply in_preorder_kid; eassumption.
Qed.

Lemma NoDup_app_inv {X} (a b : list X) : NoDup (a ++ b) -> NoDup a /\ NoDup b /\ forall x, In x a -> ~ In x b.
Proof.
  induction a as [|x a IH]; intro H.
  - split; [constructor|]. split; [exact H|]. intros x [].
  - cbn in H. inversion H as [|? ? Hn Hd]; subst. destruct (IH Hd) as [Ha [Hb Hab]]. split.
    + constructor; [|exact Ha]. intro Hi. apply Hn. apply in_or_app. left. exact Hi.
    + split; [exact Hb|]. intros y [<- | Hy]; [|apply Hab; exact Hy]. intro Hi. apply Hn. apply in_or_app. right. exact Hi.
Qed.

Lemma nodup_root t : NoDup (ids t) -> ~ In (t_id t) (flat_map ids (t_kids t)) /\ NoDup (flat_map ids (t_kids t)).
Proof. rewrite ids_unfold. intro H. inversion H; subst. split; assumption. Qed.

Lemma nodup_kids_cons k r : NoDup (flat_map ids (k :: r)) ->
  NoDup (ids k) /\ NoDup (flat_map ids r) /\ forall i, In i (ids k) -> ~ In i (flat_map ids r).
Proof. cbn [flat_map]. apply NoDup_app_inv. Qed.

Lemma nodup_kid t k : NoDup (ids t) -> In k (t_kids t) -> NoDup (ids k).
Proof.
  intros H Hk. destruct (nodup_root t H) as [_ Hd]. clear H. induction (t_kids t) as [|c r IH]; [destruct Hk|].
  destruct (nodup_kids_cons c r Hd) as [Hc [Hr _]]. destruct Hk as [<- | Hk]; [exact Hc | apply IH; assumption].
Qed.

Lemma root_not_in_kid t k : NoDup (ids t) -> In k (t_kids t) -> ~ In (t_id t) (ids k).
Proof.
  intros H Hk Hi. destruct (nodup_root t H) as [Hn _]. apply Hn. apply in_flat_map. exists k. split; assumption.
Qed.

(* lengths of a store agree with the tree *)
Definition lens_agree (st : store) (t : tree) : Prop := forall v, In v (preorder t) -> s_len st (t_id v) = t_len v.

Lemma lens_agree_kid st t k : lens_agree st t -> In k (t_kids t) -> lens_agree st k.
Proof. intros H Hk v Hv. apply H. eapply in_preorder_kid; eassumption. Qed.

Lemma len_of_list_spec l v : NoDup (map t_id l) -> In v l -> len_of_list l (t_id v) = t_len v.
Proof.
  induction l as [|a l IH]; intros Hd Hv; [destruct Hv|]. cbn [map] in Hd. inversion Hd as [|? ? Hn Hd']; subst.
  cbn [len_of_list]. destruct Hv as [-> | Hv].
  - rewrite Z.eqb_refl. reflexivity.
  - destruct (t_id v =? t_id a) eqn:E; [|apply IH; assumption].
    exfalso. apply Hn. apply Z.eqb_eq in E. rewrite <- E. apply in_map. exact Hv.
Qed.

Lemma init_store_agrees t : NoDup (ids t) -> lens_agree (init_store t) t.
Proof. intros H v Hv. cbn. apply len_of_list_spec; assumption. Qed.

Lemma upd_same {X} (m : Z -> X) k v : upd m k v k = v.
Proof. unfold upd. rewrite Z.eqb_refl. reflexivity. Qed.

Lemma upd_other {X} (m : Z -> X) k v i : i <> k -> upd m k v i = m i.
Proof. intro H. unfold upd. destruct (i =? k) eqn:E; [lia | reflexivity]. Qed.

Lemma Qeq_bool_inject_0 z : Qeq_bool (inject_Z z) 0 = (z =? 0).
Proof. unfold Qeq_bool, inject_Z. cbn. rewrite Z.mul_1_r. destruct z; reflexivity. Qed.

(* the result of a model function seen as a result of generated code *)
Definition of_res {A} (r : res A) : xres A :=
  match r with Ok a => XOk a | Err e => XErr (Py e) | OutOfFuel => XErr (Py OtherErr) end.
