(* C10, second wave: theorems about Model/C10ModelExt.v (bit strings, label_taxon_map,
   taxa_bipartition, taxa_bitmask(labels=...), container protocol) and the immutability table. *)
From Coq Require Import ZArith List Bool Lia Permutation Sorted Ndigits.
From DV Require Import Model.PyPrims Model.C10Model Model.C10ModelExt Gen.BitFns.
From DV Require Import Proofs.C10Lists Proofs.C10Inv Proofs.C10Bits Proofs.C10Lookup Proofs.C10Round.
Import ListNotations.
Open Scope Z_scope.

(* ================= bit strings ================= *)

Lemma pos_bits_nth (p : positive) : forall k : nat,
  nth k (List.rev (pos_bits p)) false = Pos.testbit_nat p k.
Proof.
  induction p as [q IH|q IH|]; intros k; cbn [pos_bits].
  - rewrite rev_app_distr. cbn [List.rev app]. destruct k; [reflexivity| apply IH].
  - rewrite rev_app_distr. cbn [List.rev app]. destruct k; [reflexivity| apply IH].
  - destruct k as [|[|k]]; reflexivity.
Qed.

Lemma bin_digits_nth (m : Z) (k : nat) : 0 <= m ->
  nth k (List.rev (bin_digits m)) false = Z.testbit m (Z.of_nat k).
Proof.
  intros H. destruct m as [|p|p]; [|  |lia].
  - rewrite Z.bits_0. destruct k as [|[|k]]; reflexivity.
  - cbn [bin_digits]. rewrite pos_bits_nth, Z.testbit_Zpos by lia.
    rewrite <- nat_N_Z, N2Z.id. cbn [N.testbit]. symmetry. apply Ptestbit_Pbit.
Qed.

Lemma bin_digits_high (m : Z) (k : nat) : 0 <= m -> (length (bin_digits m) <= k)%nat ->
  Z.testbit m (Z.of_nat k) = false.
Proof.
  intros H L. rewrite <- bin_digits_nth by exact H. apply nth_overflow. rewrite rev_length. exact L.
Qed.

Lemma rev_repeat {A} (a : A) (n : nat) : List.rev (repeat a n) = repeat a n.
Proof.
  induction n as [|n IH]; [reflexivity|]. cbn [repeat List.rev]. rewrite IH.
  clear IH. induction n as [|n IH]; [reflexivity|]. cbn [repeat app]. rewrite IH. reflexivity.
Qed.

Theorem int_as_bitstring_nth_l (m len : Z) (k : nat) : 0 <= m ->
  nth k (List.rev (int_as_bitstring m len)) false = Z.testbit m (Z.of_nat k).
Proof.
  intros H. unfold int_as_bitstring, rjust0. rewrite rev_app_distr, rev_repeat.
  destruct (Nat.lt_ge_cases k (length (bin_digits m))) as [L|L].
  - rewrite app_nth1 by (rewrite rev_length; exact L). apply bin_digits_nth. exact H.
  - rewrite app_nth2 by (rewrite rev_length; exact L). rewrite bin_digits_high by assumption.
    apply nth_repeat.
Qed.

Lemma int_as_bitstring_length (m len : Z) :
  Z.of_nat (length (int_as_bitstring m len)) = Z.max len (Z.of_nat (length (bin_digits m))).
Proof.
  unfold int_as_bitstring, rjust0. rewrite app_length, repeat_length. lia.
Qed.

Lemma pos_bits_len_le (p : positive) : forall c : nat, Zpos p < 2 ^ Z.of_nat c -> (length (pos_bits p) <= c)%nat.
Proof.
  induction p as [q IH|q IH|]; intros c H; cbn [pos_bits]; try rewrite app_length; cbn [length].
  - destruct c as [|c]; [change (2 ^ Z.of_nat 0) with 1 in H; lia|].
    rewrite Nat2Z.inj_succ, Z.pow_succ_r in H by lia. specialize (IH c). lia.
  - destruct c as [|c]; [change (2 ^ Z.of_nat 0) with 1 in H; lia|].
    rewrite Nat2Z.inj_succ, Z.pow_succ_r in H by lia. specialize (IH c). lia.
  - destruct c as [|c]; [change (2 ^ Z.of_nat 0) with 1 in H; lia| lia].
Qed.

Lemma pos_bits_len_gt (p : positive) : forall c : nat, 2 ^ Z.of_nat c <= Zpos p -> (c < length (pos_bits p))%nat.
Proof.
  induction p as [q IH|q IH|]; intros c H; cbn [pos_bits]; try rewrite app_length; cbn [length].
  - destruct c as [|c]; [lia|].
    rewrite Nat2Z.inj_succ, Z.pow_succ_r in H by lia. specialize (IH c). lia.
  - destruct c as [|c]; [lia|].
    rewrite Nat2Z.inj_succ, Z.pow_succ_r in H by lia. specialize (IH c). lia.
  - destruct c as [|c]; [lia|].
    rewrite Nat2Z.inj_succ, Z.pow_succ_r in H by lia.
    assert (0 < 2 ^ Z.of_nat c) by (apply Z.pow_pos_nonneg; lia). lia.
Qed.

Lemma bin_digits_len_le (m : Z) (c : nat) : 0 <= m < 2 ^ Z.of_nat c -> (1 <= c)%nat ->
  (length (bin_digits m) <= c)%nat.
Proof.
  intros H C. destruct m as [|p|p]; [exact C| apply pos_bits_len_le; lia| lia].
Qed.

Lemma bin_digits_len_gt (m : Z) (c : nat) : 2 ^ Z.of_nat c <= m -> (c < length (bin_digits m))%nat.
Proof.
  intros H. assert (0 < 2 ^ Z.of_nat c) by (apply Z.pow_pos_nonneg; lia).
  destruct m as [|p|p]; [lia| apply pos_bits_len_gt; exact H| lia].
Qed.

(* bits above the top: a non-negative number whose bits at and above c are all clear is < 2^c *)
Lemma low_bits_bound (b c : Z) : 0 <= b -> 0 <= c ->
  (forall k, c <= k -> Z.testbit b k = false) -> b < 2 ^ c.
Proof.
  intros Hb Hc H. destruct (Z.eq_dec b 0) as [E|E]; [subst; apply Z.pow_pos_nonneg; lia|].
  apply Z.log2_lt_pow2; [lia|]. destruct (Z_lt_le_dec (Z.log2 b) c) as [L|L]; [exact L|].
  exfalso. pose proof (Z.bit_log2 b ltac:(lia)) as B. rewrite (H _ L) in B. discriminate.
Qed.

Theorem bitstring_names_exactly_l (n : ns) (m : Z) : Inv n -> 0 <= m ->
  let s := bitmask_as_bitstring n m in
  (forall k : nat, nth k (List.rev s) false = Z.testbit m (Z.of_nat k))
  /\ (forall t i, alookup t (acc n) = Some i -> nth (Z.to_nat i) (List.rev s) false = Z.testbit m i)
  /\ (1 <= count n -> m < 2 ^ count n -> Z.of_nat (length s) = count n)
  /\ (2 ^ count n <= m -> count n < Z.of_nat (length s))
  /\ (count n = 0 -> m = 0 -> s = [false]).
Proof.
  intros I Hm s. unfold s, bitmask_as_bitstring. pose proof (inv_count _ I) as Hc.
  split; [intros k; apply int_as_bitstring_nth_l; exact Hm|]. split; [|split; [|split]].
  - intros t i A. pose proof (inv_range _ I _ _ A) as R.
    rewrite int_as_bitstring_nth_l by exact Hm. rewrite Z2Nat.id by lia. reflexivity.
  - intros C1 Hlt. rewrite int_as_bitstring_length.
    assert (L : (length (bin_digits m) <= Z.to_nat (count n))%nat).
    { apply bin_digits_len_le; [rewrite Z2Nat.id by lia; lia| lia]. }
    lia.
  - intros Hge. rewrite int_as_bitstring_length.
    assert (L : (Z.to_nat (count n) < length (bin_digits m))%nat).
    { apply bin_digits_len_gt. rewrite Z2Nat.id by lia. exact Hge. }
    lia.
  - intros C0 M0. subst m. rewrite C0. reflexivity.
Qed.

(* the bit string of the bitmask of a list of members: '1' exactly at the positions of their
   indices; the positions of vacated indices are '0'; width = number of indices handed out *)
Theorem bitstring_of_taxa_bitmask_l (n : ns) (S : list tid) : Inv n -> incl S (taxa n) ->
  exists n' b, taxa_bitmask n S 0 = Ok (n', b)
    /\ (forall k : nat, nth k (List.rev (bitmask_as_bitstring n' b)) false = true
                        <-> exists t, In t S /\ alookup t (acc n) = Some (Z.of_nat k))
    /\ (1 <= count n -> Z.of_nat (length (bitmask_as_bitstring n' b)) = count n).
Proof.
  intros I Hi.
  destruct (taxa_bitmask_spec n S 0 I Hi (Z.le_refl 0)) as (n' & b & E & C & I' & Hb & Hk).
  exists n', b. split; [exact E|].
  assert (Ec : count n' = count n) by apply C.
  assert (Hbits : forall k, 0 <= k -> (Z.testbit b k = true <-> exists t, In t S /\ alookup t (acc n) = Some k)).
  { intros k Hk0. rewrite (Hk k Hk0), Z.bits_0. cbn [orb]. apply has_idx_true. }
  split.
  - intros k. destruct (bitstring_names_exactly_l n' b I' Hb) as (H1 & _). rewrite H1.
    apply Hbits. lia.
  - intros C1. destruct (bitstring_names_exactly_l n' b I' Hb) as (_ & _ & H3 & _).
    rewrite <- Ec. apply H3; [lia|]. rewrite Ec. apply low_bits_bound; [exact Hb| lia|].
    intros k Hk0. destruct (Z.testbit b k) eqn:B; [|reflexivity].
    apply Hbits in B; [|lia]. destruct B as (t & _ & A). apply (inv_range _ I) in A. lia.
Qed.

(* ================= dictionaries ================= *)

Lemma dict_get_set kf l k v d :
  dict_get kf l (dict_set kf k v d) = if Z.eqb (kf l) (kf k) then Some v else dict_get kf l d.
Proof.
  unfold dict_get. induction d as [|[k' v'] r IH]; cbn [dict_set find fst snd].
  - destruct (Z.eqb (kf l) (kf k)); reflexivity.
  - destruct (Z.eqb_spec (kf k) (kf k')) as [E|E]; cbn [find fst snd].
    + rewrite <- E. destruct (Z.eqb (kf l) (kf k)); reflexivity.
    + destruct (Z.eqb_spec (kf l) (kf k')) as [E2|E2]; cbn [snd].
      * destruct (Z.eqb_spec (kf l) (kf k)) as [E3|E3]; [congruence| reflexivity].
      * exact IH.
Qed.

Lemma In_dict_set kf k v d e : In e (dict_set kf k v d) -> e = (k, v) \/ In e d.
Proof.
  induction d as [|[k' v'] r IH]; cbn [dict_set].
  - intros [H|[]]; auto.
  - destruct (Z.eqb (kf k) (kf k')); intros [H|H]; simpl; auto. destruct (IH H); auto.
Qed.

Lemma keys_dict_set kf k v d :
  map (fun e => kf (fst e)) (dict_set kf k v d)
  = if memb (kf k) (map (fun e => kf (fst e)) d) then map (fun e => kf (fst e)) d
    else map (fun e => kf (fst e)) d ++ [kf k].
Proof.
  induction d as [|[k' v'] r IH]; [reflexivity|]. cbn [dict_set map fst]. rewrite memb_cons.
  destruct (Z.eqb_spec (kf k) (kf k')) as [E|E]; cbn [orb map fst].
  - rewrite E. reflexivity.
  - rewrite IH. destruct (memb (kf k) (map (fun e => kf (fst e)) r)); reflexivity.
Qed.

Section WithLower.
Variable lower : lbl -> lbl.

Lemma matches_key w cs l t :
  matches lower w cs l t = Z.eqb (key_fn lower cs l) (key_fn lower cs (label_of w t)).
Proof. unfold matches, key_fn. destruct cs; reflexivity. Qed.

Definition ltm_fold (w : world) (cs : bool) (ts : list tid) : list (lbl * tid) :=
  fold_left (fun d t => dict_set (key_fn lower cs) (label_of w t) t d) ts [].

Lemma ltm_fold_snoc w cs ts t :
  ltm_fold w cs (ts ++ [t]) = dict_set (key_fn lower cs) (label_of w t) t (ltm_fold w cs ts).
Proof. unfold ltm_fold. rewrite fold_left_app. reflexivity. Qed.

Lemma ltm_fold_spec w cs ts :
  (forall l, dict_get (key_fn lower cs) l (ltm_fold w cs ts)
             = hd_error (List.rev (filter (matches lower w cs l) ts)))
  /\ (forall k t, In (k, t) (ltm_fold w cs ts) -> In t ts /\ label_of w t = k)
  /\ NoDup (map (fun e => key_fn lower cs (fst e)) (ltm_fold w cs ts)).
Proof.
  induction ts as [|t ts IH] using rev_ind.
  - split; [reflexivity|]. split; [intros k t []| constructor].
  - destruct IH as (H1 & H2 & H3). rewrite ltm_fold_snoc. split; [|split].
    + intros l. rewrite dict_get_set, filter_app, rev_app_distr. cbn [filter].
      rewrite matches_key. destruct (Z.eqb _ _); cbn [List.rev app]; [reflexivity| apply H1].
    + intros k x H. apply In_dict_set in H. destruct H as [H|H].
      * inversion H; subst. split; [apply in_or_app; right; left; reflexivity| reflexivity].
      * destruct (H2 _ _ H) as [Ha Hb]. split; [apply in_or_app; left; exact Ha| exact Hb].
    + rewrite keys_dict_set. destruct (memb _ _) eqn:M; [exact H3|].
      apply NoDup_app_single; [exact H3| apply memb_false; exact M].
Qed.

(* label_taxon_map: one entry per distinct key (label, or lower-cased label); looking a label up
   gives the LAST member carrying it (get_taxon gives the first); the displayed key is that
   member's own label *)
Theorem label_taxon_map_spec_l (w : world) (cs : option bool) :
  let c := use_cs (w_ns w) cs in
  let d := label_taxon_map lower w cs in
  xstep lower w (XLabelMap cs) = (w, YMap d)
  /\ (forall l, dict_get (key_fn lower c) l d = hd_error (List.rev (lookup_all lower w l cs)))
  /\ (forall k t, In (k, t) d -> In t (taxa (w_ns w)) /\ label_of w t = k)
  /\ NoDup (map (fun e => key_fn lower c (fst e)) d).
Proof.
  intros c d. split; [reflexivity|]. apply (ltm_fold_spec w c (taxa (w_ns w))).
Qed.

(* ================= taxa_bitmask(labels=...) ================= *)

Lemma fold_dedupe_In (xs g : list tid) t :
  In t (fold_left (fun g t => if memb t g then g else g ++ [t]) xs g) <-> In t g \/ In t xs.
Proof.
  revert g. induction xs as [|x r IH]; intros g; cbn [fold_left].
  - simpl. tauto.
  - rewrite IH. destruct (memb x g) eqn:M.
    + apply memb_In in M. simpl. split; [tauto|]. intros [H|[H|H]]; subst; auto.
    + rewrite in_app_iff. simpl. tauto.
Qed.

Definition selected (w : world) (cs : option bool) (first : bool) (l : lbl) (t : tid) : Prop :=
  if first then lookup_first lower w l cs = Some t else In t (lookup_all lower w l cs).

Lemma get_taxa_In w ls cs first got t :
  In t (get_taxa lower w ls cs first got) <-> In t got \/ exists l, In l ls /\ selected w cs first l t.
Proof.
  revert got. induction ls as [|l r IH]; intros got; cbn [get_taxa].
  - split; [auto| intros [H|(l & [] & _)]; exact H].
  - unfold selected in *. destruct first.
    + destruct (lookup_first lower w l cs) as [x|] eqn:F; rewrite IH.
      * rewrite in_app_iff. simpl. split.
        -- intros [[H|[H|[]]]|(l' & Hl & S)]; [auto| subst; right; exists l; auto| right; exists l'; auto].
        -- intros [H|(l' & [Hl|Hl] & S)]; [auto| subst; rewrite F in S; inversion S; auto| right; exists l'; auto].
      * split.
        -- intros [H|(l' & Hl & S)]; [auto| right; exists l'; simpl; auto].
        -- intros [H|(l' & [Hl|Hl] & S)]; [auto| subst; congruence| right; exists l'; auto].
    + rewrite IH, fold_dedupe_In. split.
      * intros [[H|H]|(l' & Hl & S)]; [auto| right; exists l; simpl; auto| right; exists l'; simpl; auto].
      * intros [H|(l' & [Hl|Hl] & S)]; [auto| subst; auto| right; exists l'; auto].
Qed.

Lemma selected_member w cs first l t : selected w cs first l t -> In t (taxa (w_ns w)).
Proof.
  unfold selected, lookup_first, lookup_all. destruct first.
  - destruct (filter _ _) as [|x r] eqn:F; [discriminate|]. intros H; inversion H; subst.
    assert (In t (filter (matches lower w (use_cs (w_ns w) cs) l) (taxa (w_ns w)))) by (rewrite F; left; reflexivity).
    apply filter_In in H0. tauto.
  - intros H. apply filter_In in H. tauto.
Qed.

Lemma get_taxa_members w ls cs first : incl (get_taxa lower w ls cs first []) (taxa (w_ns w)).
Proof.
  intros t H. apply get_taxa_In in H. destruct H as [[]|(l & _ & S)]. eapply selected_member; eauto.
Qed.

Theorem taxa_bitmask_labels_names_exactly_l (w : world) (ls : list lbl) (cs : option bool) (first : bool) :
  Inv (w_ns w) ->
  exists n' b, xstep lower w (XTaxaBitmaskLabels ls cs first) = (set_ns w n', YBase (OInt b))
    /\ same_core (w_ns w) n' /\ Inv n' /\ 0 <= b
    /\ forall k, 0 <= k ->
         (Z.testbit b k = true <->
          exists l t, In l ls /\ selected w cs first l t /\ alookup t (acc (w_ns w)) = Some k).
Proof.
  intros I.
  destruct (taxa_bitmask_spec (w_ns w) _ 0 I (get_taxa_members w ls cs first) (Z.le_refl 0))
    as (n' & b & E & C & I' & Hb & Hk).
  exists n', b. cbn [xstep]. rewrite E. split; [reflexivity|]. split; [exact C|]. split; [exact I'|].
  split; [exact Hb|]. intros k Hk0. rewrite (Hk k Hk0), Z.bits_0. cbn [orb]. rewrite has_idx_true.
  split.
  - intros (t & Ht & A). apply get_taxa_In in Ht. destruct Ht as [[]|(l & Hl & S)]. exists l, t. auto.
  - intros (l & t & Hl & S & A). exists t. split; [|exact A]. apply get_taxa_In. right. exists l. auto.
Qed.

(* ================= taxa_bipartition ================= *)

Lemma lsb_odd (n : Z) : Z.odd n = true -> py_least_significant_set_bit n = 1.
Proof.
  intros O. unfold py_least_significant_set_bit.
  pose proof (Z.div2_odd n) as D. rewrite O in D. cbn [Z.b2z] in D. set (a := Z.div2 n) in *.
  clearbody a. subst n. replace (2 * a + 1 - 1) with (2 * a) by lia.
  apply Z.bits_inj'. intros k Hk. rewrite Z.lxor_spec, Z.land_spec.
  destruct (Z.eq_dec k 0) as [E|E].
  - subst. rewrite Z.testbit_odd_0, Z.testbit_even_0. reflexivity.
  - replace k with (Z.succ (Z.pred k)) by lia.
    rewrite Z.testbit_odd_succ, Z.testbit_even_succ by lia.
    change 1 with (2 * 0 + 1). rewrite Z.testbit_odd_succ by lia. rewrite Z.bits_0.
    destruct (Z.testbit a (Z.pred k)); reflexivity.
Qed.

Lemma all_mask_ones n : all_taxa_bitmask n = Z.ones (count n).
Proof. unfold all_taxa_bitmask, Z.ones. lia. Qed.

Lemma all_mask_testbit n k : 0 <= count n -> 0 <= k ->
  Z.testbit (all_taxa_bitmask n) k = Z.ltb k (count n).
Proof.
  intros Hc Hk. rewrite all_mask_ones. destruct (Z.ltb_spec k (count n)).
  - apply Z.ones_spec_low. lia.
  - apply Z.ones_spec_high. lia.
Qed.

Theorem taxa_bipartition_names_exactly_l (w : world) (S : list tid) (rooted : option bool) :
  Inv (w_ns w) -> incl S (taxa (w_ns w)) -> 1 <= count (w_ns w) ->
  exists n' split leaf,
    xstep lower w (XBipartition S rooted) = (set_ns w n', YBip split leaf (all_taxa_bitmask (w_ns w)))
    /\ same_core (w_ns w) n' /\ Inv n'
    /\ 0 <= leaf
    /\ (forall k, 0 <= k -> (Z.testbit leaf k = true <-> exists t, In t S /\ alookup t (acc (w_ns w)) = Some k))
    /\ ((rooted = Some true \/ Z.testbit leaf 0 = false) -> split = leaf)
    /\ (rooted <> Some true -> Z.testbit leaf 0 = true ->
        forall k, 0 <= k -> Z.testbit split k = Z.ltb k (count (w_ns w)) && negb (Z.testbit leaf k)).
Proof.
  intros I Hi C1.
  destruct (taxa_bitmask_spec (w_ns w) S 0 I Hi (Z.le_refl 0)) as (n' & b & E & C & I' & Hb & Hk).
  assert (Ec : count n' = count (w_ns w)) by apply C.
  assert (ET : all_taxa_bitmask n' = all_taxa_bitmask (w_ns w)) by (unfold all_taxa_bitmask; rewrite Ec; reflexivity).
  assert (Hbits : forall k, 0 <= k -> (Z.testbit b k = true <-> exists t, In t S /\ alookup t (acc (w_ns w)) = Some k)).
  { intros k Hk0. rewrite (Hk k Hk0), Z.bits_0. cbn [orb]. apply has_idx_true. }
  assert (Hland : Z.land b (all_taxa_bitmask n') = b).
  { apply Z.bits_inj'. intros k Hk0. rewrite Z.land_spec, all_mask_testbit by lia.
    destruct (Z.testbit b k) eqn:B; [|reflexivity]. apply Hbits in B; [|lia].
    destruct B as (t & _ & A). apply (inv_range _ I) in A. cbn [andb]. apply Z.ltb_lt. lia. }
  assert (Hodd : Z.odd (all_taxa_bitmask n') = true).
  { rewrite <- Z.bit0_odd, all_mask_testbit by lia. apply Z.ltb_lt. lia. }
  assert (HT0 : Z.eqb (all_taxa_bitmask n') 0 = false).
  { apply Z.eqb_neq. intros E0. rewrite E0 in Hodd. discriminate. }
  assert (Hleaf : (if Z.eqb b 0 then b else Z.land b (all_taxa_bitmask n')) = b).
  { destruct (Z.eqb b 0); [reflexivity| exact Hland]. }
  cbn [xstep]. rewrite E. unfold bipartition_of. rewrite HT0, Hleaf, lsb_odd by exact Hodd. rewrite ET.
  eexists n', _, b. split; [reflexivity|]. split; [exact C|]. split; [exact I'|]. split; [exact Hb|].
  split; [exact Hbits|]. unfold py_normalize_bitmask.
  assert (Hl1 : Z.land b 1 =? 0 = negb (Z.testbit b 0)).
  { change 1 with (Z.shiftl 1 0). apply land_shiftl1_zero. lia. }
  rewrite Hl1, negb_involutive. rewrite <- ET. split.
  - intros [R|B0].
    + subst rooted. reflexivity.
    + rewrite B0. destruct rooted as [[|]|]; try reflexivity; exact Hland.
  - intros R B0. rewrite B0.
    assert (Es : (if match rooted with Some true => true | _ => false end then b
                  else Z.land (Z.lnot b) (all_taxa_bitmask n')) = Z.land (Z.lnot b) (all_taxa_bitmask n')).
    { destruct rooted as [[|]|]; [congruence| reflexivity| reflexivity]. }
    rewrite Es. intros k Hk0. rewrite Z.land_spec, Z.lnot_spec, all_mask_testbit by lia.
    rewrite Ec. apply andb_comm.
Qed.

(* the two argument shapes on which taxa_bipartition raises instead (modelled as observed) *)
Theorem taxa_bipartition_errors_l (w : world) :
  (forall ls b, xstep lower w (XBipartitionLabels ls (Some b)) = (w, YBase (OErr TypeErr)))
  /\ (count (w_ns w) = 0 -> forall rooted, rooted <> Some true ->
        xstep lower w (XBipartition [] rooted) = (set_ns w (w_ns w), YBase (OErr TypeErr))).
Proof.
  split; [reflexivity|]. intros C0 rooted R. cbn [xstep taxa_bitmask]. unfold bipartition_of, all_taxa_bitmask.
  rewrite C0. cbn. destruct rooted as [[|]|]; [congruence| reflexivity| reflexivity].
Qed.

(* ================= container protocol ================= *)

Theorem contains_spec_l (w : world) (t : tid) : Inv (w_ns w) ->
  exists b, xstep lower w (XContains t) = (w, YBase (OBool b)) /\ (b = true <-> In t (taxa (w_ns w))).
Proof.
  intros I. cbn [xstep]. destruct (alookup t (acc (w_ns w))) as [i|] eqn:A.
  - exists true. split; [reflexivity|]. split; [|reflexivity]. intros _. apply (inv_dom _ I). eauto.
  - exists false. split; [reflexivity|]. split; [discriminate|]. intros H. apply (inv_dom _ I) in H.
    destruct H as [i H]. congruence.
Qed.

Theorem getitem_spec_l (w : world) (i : Z) :
  let l := taxa (w_ns w) in let len := Z.of_nat (length l) in
  (0 <= i < len -> exists t, xstep lower w (XGetItem i) = (w, YBase (OTax (Some t)))
                             /\ nth_error l (Z.to_nat i) = Some t /\ In t l)
  /\ (- len <= i < 0 -> exists t, xstep lower w (XGetItem i) = (w, YBase (OTax (Some t)))
                             /\ nth_error l (Z.to_nat (len + i)) = Some t /\ In t l)
  /\ ((i < - len \/ len <= i) -> xstep lower w (XGetItem i) = (w, YBase (OErr IndexErr))).
Proof.
  intros l len. cbn [xstep]. unfold py_index. fold l len. split; [|split].
  - intros H. assert (E1 : (- len <=? i) && (i <? len) = true) by (apply andb_true_iff; split; [apply Z.leb_le| apply Z.ltb_lt]; lia).
    assert (E2 : i <? 0 = false) by (apply Z.ltb_ge; lia). rewrite E1, E2.
    destruct (nth_error l (Z.to_nat i)) as [t|] eqn:N.
    + exists t. split; [reflexivity|]. split; [reflexivity| eapply nth_error_In; eauto].
    + apply nth_error_None in N. unfold len in H. lia.
  - intros H. assert (E1 : (- len <=? i) && (i <? len) = true) by (apply andb_true_iff; split; [apply Z.leb_le| apply Z.ltb_lt]; lia).
    assert (E2 : i <? 0 = true) by (apply Z.ltb_lt; lia). rewrite E1, E2. rewrite (Z.add_comm i len).
    destruct (nth_error l (Z.to_nat (len + i))) as [t|] eqn:N.
    + exists t. split; [reflexivity|]. split; [reflexivity| eapply nth_error_In; eauto].
    + apply nth_error_None in N. unfold len in H. lia.
  - intros H. assert (E1 : (- len <=? i) && (i <? len) = false).
    { apply andb_false_iff. destruct H; [left; apply Z.leb_gt| right; apply Z.ltb_ge]; lia. }
    rewrite E1. reflexivity.
Qed.

Theorem getslice_spec_l (w : world) (a b : option Z) :
  exists pre post, xstep lower w (XGetSlice a b) = (w, YBase (OTaxa (py_slice (taxa (w_ns w)) a b)))
    /\ taxa (w_ns w) = pre ++ py_slice (taxa (w_ns w)) a b ++ post.
Proof.
  unfold py_slice. set (l := taxa (w_ns w)). set (len := Z.of_nat (length l)).
  set (s := Z.to_nat (slice_bound len 0 a)). set (k := Z.to_nat (slice_bound len len b - slice_bound len 0 a)).
  exists (firstn s l), (skipn k (skipn s l)). split; [reflexivity|].
  rewrite (firstn_skipn k (skipn s l)). symmetry. apply firstn_skipn.
Qed.

Theorem getitem_label_and_labels_l (w : world) :
  (forall l, xstep lower w (XGetItemLabel l) = (w, YBase (OErr ValueErr)))
  /\ xstep lower w XLabels = (w, YBase (OGroup1 (map (label_of w) (taxa (w_ns w))))).
Proof. split; reflexivity. Qed.

(* ================= the new operations never disturb the namespace ================= *)

Theorem xstep_readonly_l (w : world) (o : xop) : Inv (w_ns w) ->
  (forall o0, o <> XBase o0) ->
  same_core (w_ns w) (w_ns (fst (xstep lower w o)))
  /\ Inv (w_ns (fst (xstep lower w o)))
  /\ w_lab (fst (xstep lower w o)) = w_lab w /\ w_next (fst (xstep lower w o)) = w_next w.
Proof.
  intros I NB.
  assert (R : same_core (w_ns w) (w_ns w) /\ Inv (w_ns w) /\ w_lab w = w_lab w /\ w_next w = w_next w)
    by (split; [apply same_core_refl| auto]).
  assert (TB : forall ts (f : ns -> Z -> world * xout),
     (forall n' b, same_core (w_ns w) n' -> Inv n' -> (f n' b = (w, snd (f n' b)) \/ f n' b = (set_ns w n', snd (f n' b)))) ->
     let r := match taxa_bitmask (w_ns w) ts 0 with
              | Ok (n', b) => f n' b | Err e => (w, YBase (OErr e)) | OutOfFuel => (w, YBase (OErr Hang)) end in
     same_core (w_ns w) (w_ns (fst r)) /\ Inv (w_ns (fst r)) /\ w_lab (fst r) = w_lab w /\ w_next (fst r) = w_next w).
  { intros ts f Hf r. unfold r. destruct (taxa_bitmask (w_ns w) ts 0) as [[n' b]| |] eqn:E; [|exact R|exact R].
    pose proof (taxa_bitmask_star (fun _ => False) _ _ _ _ _ E) as S.
    assert (I' : Inv n') by (eapply (star_inv (grow1 _) (grow1_inv _)); eauto).
    assert (C : same_core (w_ns w) n').
    { clear - E. revert E. generalize 0 at 1. generalize (w_ns w) as n. induction ts as [|t r IH]; intros n z; cbn [taxa_bitmask].
      - intros E; inversion E; subst. apply same_core_refl.
      - destruct (taxon_bitmask n t) as [[n1 m1]| |] eqn:T; try discriminate. intros E.
        eapply same_core_trans; [|eapply IH; exact E].
        unfold taxon_bitmask in T. destruct (alookup t (bm n)); [inversion T; subst; apply same_core_refl|].
        destruct (alookup t (acc n)); [|discriminate]. inversion T; subst. repeat split. }
    destruct (Hf n' b C I') as [H|H]; rewrite H; cbn [fst]; [exact R|].
    cbn [set_ns w_ns w_lab w_next]. auto. }
  destruct o; try (exfalso; eapply NB; reflexivity); cbn [xstep].
  - destruct (m <? 0); exact R.
  - exact R.
  - apply TB. intros n' b _ _. destruct (bipartition_of n' b rooted) as [[[s l] t]| |]; cbn [snd]; auto.
  - destruct rooted; [exact R|]. apply TB. intros n' b _ _.
    destruct (bipartition_of n' b None) as [[[s l] t]| |]; cbn [snd]; auto.
  - apply TB. intros n' b _ _. cbn [snd]. auto.
  - destruct (py_index _ _); exact R.
  - exact R.
  - exact R.
  - exact R.
  - exact R.
Qed.

Theorem xstep_inv_l (w : world) (o : xop) : Inv (w_ns w) -> Inv (w_ns (fst (xstep lower w o))).
Proof.
  intros I. destruct o as [o0| | | | | | | | | |].
  1: { cbn [xstep]. pose proof (step_inv lower w o0 I) as H. destruct (step lower w o0). exact H. }
  all: apply xstep_readonly_l; [exact I| intros o0; discriminate].
Qed.

Theorem xops_inv_l (w : world) (ops : list xop) :
  Inv (w_ns w) -> Inv (w_ns (xrun_world lower w ops)).
Proof.
  revert w. unfold xrun_world. induction ops as [|o r IH]; intros w I; simpl; [exact I|].
  apply IH. apply xstep_inv_l. exact I.
Qed.

(* ================= immutability: which operations raise ================= *)

(* is_mutable=False is consulted by exactly the four adding operations; they leave the world
   untouched: TypeError, except add_taxon of a member (silent no-op) and require_taxon of an
   existing label (returns it) *)
Theorem immutable_adders_l (w : world) : is_mut (w_ns w) = false ->
  (forall l, step lower w (NewTaxon l) = (w, OErr TypeErr))
  /\ (forall ls, step lower w (NewTaxa ls) = (w, OErr TypeErr))
  /\ (forall t, alookup t (acc (w_ns w)) = None -> step lower w (AddTaxon t) = (w, OErr TypeErr))
  /\ (forall t i, alookup t (acc (w_ns w)) = Some i -> step lower w (AddTaxon t) = (set_ns w (w_ns w), OUnit))
  /\ (forall l cs, lookup_all lower w l cs = [] -> step lower w (RequireTaxon l cs) = (w, OErr TypeErr))
  /\ (forall l cs t r, lookup_all lower w l cs = t :: r -> step lower w (RequireTaxon l cs) = (w, OTax (Some t))).
Proof.
  intros M. repeat split.
  - intros l. cbn [step]. unfold new_taxon. rewrite M. reflexivity.
  - intros ls. cbn [step]. rewrite M. reflexivity.
  - intros t A. cbn [step]. unfold add_taxon. rewrite A, M. reflexivity.
  - intros t i A. cbn [step]. unfold add_taxon. rewrite A. reflexivity.
  - intros l cs E. cbn [step]. unfold lookup_first. rewrite E, M. reflexivity.
  - intros l cs t r E. cbn [step]. unfold lookup_first. rewrite E. reflexivity.
Qed.

(* with the second-wave operations included: still never gains a member *)
Theorem immutable_never_grows_x_l (w : world) (o : xop) :
  Inv (w_ns w) -> is_mut (w_ns w) = false ->
  (forall b, o <> XBase (SetMutable b)) -> o <> XBase DeepCopy ->
  incl (taxa (w_ns (fst (xstep lower w o)))) (taxa (w_ns w))
  /\ is_mut (w_ns (fst (xstep lower w o))) = false.
Proof.
  intros I M NS ND. destruct o as [o0| | | | | | | | | |].
  1: { cbn [xstep]. pose proof (immutable_never_grows_l lower w o0 M) as H.
       destruct (step lower w o0) as [w' x] eqn:E. cbn [fst] in *. apply H.
       - intros b Eb. apply (NS b). congruence.
       - intros Eb. apply ND. congruence. }
  all: (match goal with |- context [xstep lower ?w0 ?o] =>
          destruct (xstep_readonly_l w0 o I) as ((Et & _ & _ & _ & Em & _) & _) end;
        [intros o0; discriminate|]; rewrite Et, Em; split; [apply incl_refl| exact M]).
Qed.

End WithLower.

(* ================= bit_length ================= *)

Theorem bit_length_spec_l (n : Z) :
  (n = 0 -> bit_length n = 0)
  /\ (0 < n -> bit_length n = Z.log2 n + 1)
  /\ bit_length (- n) = bit_length n
  /\ (0 <= n -> forall len, Z.of_nat (length (int_as_bitstring n len)) = Z.max len (Z.max 1 (bit_length n))).
Proof.
  assert (P : forall p, Z.of_nat (length (pos_bits p)) = Z.log2 (Zpos p) + 1).
  { intros p. set (L := length (pos_bits p)).
    assert (L1 : (1 <= L)%nat) by (unfold L; destruct p; cbn [pos_bits]; try rewrite app_length; cbn [length]; lia).
    assert (A : Zpos p < 2 ^ Z.of_nat L).
    { destruct (Z_lt_le_dec (Zpos p) (2 ^ Z.of_nat L)) as [H|H]; [exact H|].
      apply pos_bits_len_gt in H. fold L in H. lia. }
    assert (B : 2 ^ Z.of_nat (L - 1) <= Zpos p).
    { destruct (Z_lt_le_dec (Zpos p) (2 ^ Z.of_nat (L - 1))) as [H|H]; [|exact H].
      apply pos_bits_len_le in H. fold L in H. lia. }
    assert (E : Z.log2 (Zpos p) = Z.of_nat (L - 1)).
    { apply Z.log2_unique; [lia|]. split; [exact B|].
      replace (Z.succ (Z.of_nat (L - 1))) with (Z.of_nat L) by lia. exact A. }
    lia. }
  split; [intros; subst; reflexivity|]. split; [|split].
  - intros H. destruct n as [|p|p]; try lia. apply P.
  - destruct n; reflexivity.
  - intros H len. rewrite int_as_bitstring_length. destruct n as [|p|p]; [cbn; lia| |lia].
    cbn [bin_digits bit_length]. pose proof (P p). pose proof (Z.log2_nonneg (Zpos p)). lia.
Qed.
