(* C16 - top-level lemmas behind Props/C16.v *)
From Coq Require Import ZArith List Bool Lia.
From DV Require Import Model.PyPrims Model.Tree Model.C16Model Proofs.C16Fitch Proofs.C16Link.
Import ListNotations.
Open Scope Z_scope.

(* ---------- the per-character list adds up to the score: every tree, every matrix ---------- *)
Definition sum_inv (sc : Z) (sbc : option (list Z)) : Prop := exists s, sbc = Some s /\ sc = zsum s.

Lemma list_add_at_sum : forall s n wt s', list_add_at s n wt = Some s' -> zsum s' = zsum s + wt.
Proof.
  induction s as [|x s IH]; intros n wt s' E; simpl in E; [discriminate|].
  destruct n.
  - inversion E; subst. simpl. lia.
  - destruct (list_add_at s n wt) as [r|] eqn:Q; [|discriminate]. inversion E; subst. simpl.
    rewrite (IH _ _ _ Q). lia.
Qed.

Lemma char_loop_sum w : forall l r n acc sc sbc res sc' sbc',
  sum_inv sc sbc -> char_loop w n l r acc sc sbc = ((res, sc', sbc'), None) -> sum_inv sc' sbc'.
Proof.
  induction l as [|a l IH]; intros r n acc sc sbc res sc' sbc' I E.
  - simpl in E. inversion E; subst. exact I.
  - destruct r as [|b r]; [simpl in E; inversion E; subst; exact I|].
    simpl in E. destruct (negb (Z.land a b =? 0)).
    + eapply IH; eauto.
    + destruct (match w with None => Some 1 | Some ws => nth_error ws n end) as [wt|]; [|discriminate].
      destruct I as [s [-> I]].
      destruct (list_add_at s n wt) as [s2|] eqn:Q; [|discriminate].
      eapply IH; [|exact E]. exists s2. split; [reflexivity|]. rewrite (list_add_at_sum _ _ _ _ Q). lia.
Qed.

Lemma kids_loop_sum m w nd : forall rem left_ssl right_c p p',
  sum_inv (p_score p) (p_sbc p) -> kids_loop m w nd left_ssl right_c rem p = Done p' ->
  sum_inv (p_score p') (p_sbc p').
Proof.
  induction rem as [|c rest IH]; intros left_ssl right_c p p' I E; simpl in E;
    destruct (get_ss m (p_store p) right_c) as [st [rs|er|]]; try discriminate;
    destruct (char_loop w 0 left_ssl rs [] (p_score p) (p_sbc p)) as [[[res sc] sb] [er|]] eqn:Q; try discriminate.
  - inversion E; subst. simpl. eapply char_loop_sum; eauto.
  - eapply IH; [|exact E]. simpl. eapply char_loop_sum; eauto.
Qed.

Lemma node_step_sum m w p nd p' :
  sum_inv (p_score p) (p_sbc p) -> node_step m w p nd = Done p' -> sum_inv (p_score p') (p_sbc p').
Proof.
  intros I E. unfold node_step in E. destruct (t_kids nd) as [|lc [|rc rem]].
  - destruct m as [mm|].
    + destruct (map_get mm (t_taxon nd)); [|discriminate]. inversion E; subst. exact I.
    + destruct (get_ss None (p_store p) nd) as [st [v|er|]]; try discriminate. inversion E; subst. exact I.
  - discriminate.
  - destruct (get_ss m (p_store p) lc) as [st [ls|er|]]; try discriminate.
    eapply kids_loop_sum; [|exact E]. exact I.
Qed.

Lemma run_nodes_sum m w : forall nodes p p',
  sum_inv (p_score p) (p_sbc p) -> run_nodes m w nodes p = Done p' -> sum_inv (p_score p') (p_sbc p').
Proof.
  induction nodes as [|nd rest IH]; intros p p' I E; simpl in E.
  - inversion E; subst. exact I.
  - destruct (node_step m w p nd) as [q|q e] eqn:Q; [|discriminate].
    eapply IH; [|exact E]. eapply node_step_sum; eauto.
Qed.

Lemma zsum_repeat0 n : zsum (repeat 0 n) = 0.
Proof. induction n; simpl; lia. Qed.

Lemma per_character_adds_up_l m w st t p :
  fitch_down_pass m w true st t = Done p -> exists s, p_sbc p = Some s /\ p_score p = zsum s.
Proof.
  unfold fitch_down_pass. destruct m as [[|[x0 row0] rest]|]; try discriminate. intro E.
  eapply run_nodes_sum; [|exact E]. simpl. exists (repeat 0 (length row0)).
  split; [reflexivity|]. symmetry. apply zsum_repeat0.
Qed.

(* ---------- score of the transcribed pass = weighted minimum over assignments ---------- *)
Lemma zsum_map_ge (f g : nat -> Z) l : (forall i, In i l -> f i >= g i) -> zsum (map f l) >= zsum (map g l).
Proof.
  induction l as [|i l IH]; intro H; simpl; [lia|].
  assert (f i >= g i) by (apply H; simpl; auto).
  assert (zsum (map f l) >= zsum (map g l)) by (apply IH; intros; apply H; simpl; auto). lia.
Qed.

Lemma weighted_minimum_l n m w k t :
  binary t -> covers m k t ->
  (forall i, (i < k)%nat -> leaves_ok n (column m i) t) ->
  (forall i, (i < k)%nat -> 0 <= weight_at w i) ->
  let total := zsum (map (fun i => weight_at w i * fitch_score (column m i) t) (seq 0 k)) in
  (forall As : nat -> atree, (forall i, (i < k)%nat -> fits (column m i) (As i) t) ->
     zsum (map (fun i => weight_at w i * changes (As i)) (seq 0 k)) >= total) /\
  (exists As : nat -> atree,
     (forall i, (i < k)%nat -> fits (column m i) (As i) t /\ in_range (Z.of_nat n) (As i)) /\
     zsum (map (fun i => weight_at w i * changes (As i)) (seq 0 k)) = total).
Proof.
  intros B C L WP total. split.
  - intros As F. apply zsum_map_ge. intros i Hi. apply in_seq in Hi.
    destruct (fitch_is_minimum_l n (column m i) t B (L i ltac:(lia))) as [LB _].
    specialize (LB (As i) (F i ltac:(lia))). specialize (WP i ltac:(lia)). nia.
  - (* choose an optimal assignment for every character *)
    assert (EX : forall j, (j <= k)%nat -> exists As : nat -> atree,
               forall i, (i < j)%nat -> fits (column m i) (As i) t /\ in_range (Z.of_nat n) (As i) /\
                                        changes (As i) = fitch_score (column m i) t).
    { induction j as [|j IH]; intro Hj.
      - exists (fun _ => AT 0 []). intros i Hi. lia.
      - destruct (IH ltac:(lia)) as [As HA].
        destruct (fitch_is_minimum_l n (column m j) t B (L j ltac:(lia))) as [_ [A [FA [RA CA]]]].
        exists (fun i => if Nat.eqb i j then A else As i). intros i Hi.
        destruct (Nat.eqb_spec i j) as [->|N]; [auto|]. apply HA. lia. }
    destruct (EX k (le_n k)) as [As HA]. exists As. split.
    + intros i Hi. destruct (HA i Hi) as [F [R _]]. auto.
    + unfold total. f_equal. apply map_ext_in. intros i Hi. apply in_seq in Hi.
      destruct (HA i ltac:(lia)) as [_ [_ ->]]. reflexivity.
Qed.

(* ---------- child order / root position at the level of the transcribed pass ---------- *)
Lemma swap_eq_covers m k t t' : swap_eq t t' -> (covers m k t <-> covers m k t').
Proof. induction 1; simpl; tauto. Qed.

Lemma reroot_eq_covers m k t t' : reroot_eq t t' -> (covers m k t <-> covers m k t').
Proof.
  induction 1.
  - apply swap_eq_covers. assumption.
  - simpl. tauto.
  - tauto.
  - tauto.
Qed.

Definition outcome_result (o : outcome) : res Z * option (list Z) :=
  match o with Done p => (Ok (p_score p), p_sbc p) | Fail p e => (Err e, p_sbc p) end.

Lemma root_independent_l m w k sbcf t t' st st' :
  reroot_eq t t' -> binary t -> NoDup (ids t) -> NoDup (ids t') ->
  covers m k t -> Forall (fun row => length (snd row) = k) m -> weights_ok w k ->
  outcome_result (fitch_down_pass (Some m) w sbcf st t) = outcome_result (fitch_down_pass (Some m) w sbcf st' t')
  /\ exists z, fst (outcome_result (fitch_down_pass (Some m) w sbcf st t)) = Ok z.
Proof.
  intros RR B ND ND' C R W.
  assert (B' : binary t') by (apply (reroot_eq_binary t t' RR); exact B).
  assert (C' : covers m k t') by (apply (reroot_eq_covers m k t t' RR); exact C).
  destruct (down_pass_binary m w k sbcf st t B ND C R W) as [s1 E1].
  destruct (down_pass_binary m w k sbcf st' t' B' ND' C' R W) as [s2 E2].
  rewrite E1, E2. simpl. split; [|eauto].
  assert (Q : map (fun i => weight_at w i * fitch_score (column m i) t) (seq 0 k) =
              map (fun i => weight_at w i * fitch_score (column m i) t') (seq 0 k)).
  { apply map_ext. intro i. rewrite (reroot_eq_score (column m i) t t' RR). reflexivity. }
  rewrite Q. reflexivity.
Qed.

(* swap_eq is reflexive on binary trees *)
Lemma swap_eq_refl t : binary t -> swap_eq t t.
Proof.
  intro B. pattern t. revert t B. apply binary_ind; intros; constructor; assumption.
Qed.

Lemma reroot_eq_refl t : binary t -> reroot_eq t t.
Proof. intro B. apply rr_swap. apply swap_eq_refl. exact B. Qed.

(* moving the root to any edge (by a path of child indexes) stays inside reroot_eq *)
Lemma reroot_at_eq : forall fuel p t, binary t -> reroot_eq t (reroot_at fuel p t) /\ binary (reroot_at fuel p t).
Proof.
  induction fuel as [|fu IH]; intros p t B; simpl; [split; [apply reroot_eq_refl|]; exact B|].
  destruct p as [|a [|b q]]; try (split; [apply reroot_eq_refl|]; exact B).
  destruct t as [i x l e ks]. destruct ks as [|c0 [|c1 [|c2 r]]]; try (split; [apply reroot_eq_refl|]; exact B).
  simpl in B. destruct B as [B0 B1].
  assert (STEP : forall near far, binary near -> binary far ->
            reroot_eq (T i x l e [c0; c1]) (T i x l e [near; far]) ->
            reroot_eq (T i x l e [c0; c1])
              (match near with
               | T j y lb f [n0; n1] =>
                 match b :: q with
                 | O :: _ => reroot_at fu (b :: q) (T i x l e [n0; T j y lb f [n1; far]])
                 | _ => reroot_at fu (O :: tl (b :: q)) (T i x l e [n1; T j y lb f [n0; far]])
                 end
               | _ => T i x l e [c0; c1]
               end) /\
            binary (match near with
               | T j y lb f [n0; n1] =>
                 match b :: q with
                 | O :: _ => reroot_at fu (b :: q) (T i x l e [n0; T j y lb f [n1; far]])
                 | _ => reroot_at fu (O :: tl (b :: q)) (T i x l e [n1; T j y lb f [n0; far]])
                 end
               | _ => T i x l e [c0; c1]
               end)).
  { intros near far Bn Bf E.
    destruct near as [j y lb f nks]. destruct nks as [|n0 [|n1 [|n2 r]]];
      try (split; [apply reroot_eq_refl|]; simpl; tauto).
    simpl in Bn. destruct Bn as [Bn0 Bn1].
    destruct b as [|b'].
    - assert (Bnew : binary (T i x l e [n0; T j y lb f [n1; far]])) by (simpl; tauto).
      destruct (IH (O :: q) _ Bnew) as [E2 B2]. split; [|exact B2].
      eapply rr_trans; [exact E|]. eapply rr_trans; [|exact E2].
      apply rr_sym. apply rr_move.
    - assert (Bnew : binary (T i x l e [n1; T j y lb f [n0; far]])) by (simpl; tauto).
      simpl tl. destruct (IH (O :: q) _ Bnew) as [E2 B2]. split; [|exact B2].
      eapply rr_trans; [exact E|]. eapply rr_trans; [|exact E2].
      eapply rr_trans; [|apply rr_sym; apply (rr_move i x l e j y lb f i x l e j y lb f n1 n0 far)].
      apply rr_swap. apply sw_same; [|apply swap_eq_refl; exact Bf].
      apply sw_swap; apply swap_eq_refl; assumption. }
  destruct a as [|a'].
  - apply (STEP c0 c1 B0 B1). apply reroot_eq_refl. simpl. tauto.
  - apply (STEP c1 c0 B1 B0). apply rr_swap. apply sw_swap; apply swap_eq_refl; assumption.
Qed.

(* treescore.parsimony_score as a call of a history *)
Lemma parsimony_score_call t st c k :
  k_api c = ParsimonyScore true -> binary t -> NoDup (ids t) ->
  covers (call_map c) k t -> Forall (fun row => length (snd row) = k) (call_map c) ->
  weights_ok (k_weights c) k ->
  result_of (snd (run_call t st c)) =
  (Ok (zsum (map (fun i => weight_at (k_weights c) i * fitch_score (column (call_map c) i) t) (seq 0 k))),
   if k_sbc c then Some (map (fun i => weight_at (k_weights c) i * fitch_score (column (call_map c) i) t) (seq 0 k))
   else None).
Proof.
  intros A B ND C R W. unfold run_call. rewrite A.
  destruct (down_pass_binary (call_map c) (k_weights c) k (k_sbc c) st t B ND C R W) as [st' E].
  rewrite E. reflexivity.
Qed.

(* the minimum number of changes is a property of the unrooted tree (no reference to Fitch) *)
Lemma swap_eq_leaves_ok n ls t t' : swap_eq t t' -> (leaves_ok n ls t <-> leaves_ok n ls t').
Proof. induction 1; simpl; tauto. Qed.

Lemma reroot_eq_leaves_ok n ls t t' : reroot_eq t t' -> (leaves_ok n ls t <-> leaves_ok n ls t').
Proof.
  induction 1.
  - apply swap_eq_leaves_ok. assumption.
  - simpl. tauto.
  - tauto.
  - tauto.
Qed.

Lemma min_changes_reroot n ls t t' : reroot_eq t t' -> binary t -> leaves_ok n ls t ->
  forall a, fits ls a t -> exists a', fits ls a' t' /\ in_range (Z.of_nat n) a' /\ changes a' <= changes a.
Proof.
  intros RR B L a F.
  assert (B' : binary t') by (apply (reroot_eq_binary t t' RR); exact B).
  assert (L' : leaves_ok n ls t') by (apply (reroot_eq_leaves_ok n ls t t' RR); exact L).
  destruct (fitch_is_minimum_l n ls t B L) as [LB _].
  destruct (fitch_is_minimum_l n ls t' B' L') as [_ [a' [F' [R' C']]]].
  exists a'. split; [exact F'|]. split; [exact R'|].
  specialize (LB a F). rewrite (reroot_eq_score ls t t' RR) in LB. lia.
Qed.
