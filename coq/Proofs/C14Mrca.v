(* C14: Tree.mrca returns the deepest node whose leaves include the given taxa *)
From Coq Require Import ZArith List Bool Lia.
From DV Require Import Model.PyPrims Model.Tree Model.C14Model Model.C14Spec Proofs.C14Dict Proofs.C14Pdm.
Import ListNotations.
Open Scope Z_scope.

(* ------------------------------------------------------------------ *)
(* bitmasks of sets of taxa                                            *)
(* ------------------------------------------------------------------ *)
Section Bits.
Variable bit : Z -> Z.

Notation mask_of := (C14Spec.mask_of bit).

Lemma mask_of_app l1 l2 : mask_of (l1 ++ l2) = Z.lor (mask_of l1) (mask_of l2).
Proof.
  induction l1 as [|a l1 IH]; simpl; [reflexivity|]. rewrite IH, Z.lor_assoc. reflexivity.
Qed.

Lemma testbit_one_shift i j : 0 <= i -> 0 <= j -> Z.testbit (Z.shiftl 1 i) j = Z.eqb i j.
Proof.
  intros Hi Hj. rewrite Z.shiftl_1_l. apply Z.pow2_bits_eqb. exact Hi.
Qed.

Lemma testbit_mask_of l j : (forall a, In a l -> 0 <= bit a) -> 0 <= j ->
  Z.testbit (mask_of l) j = existsb (fun a => Z.eqb (bit a) j) l.
Proof.
  intros H Hj. induction l as [|a l IH]; simpl.
  - apply Z.bits_0.
  - rewrite Z.lor_spec, testbit_one_shift; [|apply H; left; reflexivity|exact Hj].
    rewrite IH; [reflexivity|]. intros b Hb. apply H. right. exact Hb.
Qed.

Lemma mask_of_nonneg l : 0 <= mask_of l.
Proof.
  induction l as [|a l IH]; simpl; [lia|]. apply Z.lor_nonneg. split; [|exact IH].
  apply Z.shiftl_nonneg. lia.
Qed.

Variable member : Z -> Prop.
Hypothesis bit_inj : forall a b, member a -> member b -> bit a = bit b -> a = b.
Hypothesis bit_nn : forall a, member a -> 0 <= bit a.

Lemma existsb_bit_In l a : (forall b, In b l -> member b) -> member a ->
  existsb (fun b => Z.eqb (bit b) (bit a)) l = true <-> In a l.
Proof.
  intros Hl Ha. rewrite existsb_exists. split.
  - intros [b [Hb E]]. apply Z.eqb_eq in E. rewrite <- (bit_inj b a); auto.
  - intro H. exists a. split; [exact H | apply Z.eqb_refl].
Qed.

(* S included in A *)
Lemma land_covers A S : (forall b, In b A -> member b) -> (forall b, In b S -> member b) ->
  Z.land (mask_of A) (mask_of S) = mask_of S <-> incl S A.
Proof.
  intros HA HS. split.
  - intros E a Ha. pose proof (HS a Ha) as Ma.
    assert (T : Z.testbit (mask_of S) (bit a) = true).
    { rewrite testbit_mask_of; auto. apply existsb_bit_In; auto. }
    rewrite <- E, Z.land_spec in T. apply andb_true_iff in T. destruct T as [T _].
    rewrite testbit_mask_of in T; auto. apply existsb_bit_In in T; auto.
  - intro I. apply Z.bits_inj'. intros j Hj. rewrite Z.land_spec.
    destruct (Z.testbit (mask_of S) j) eqn:T; [|apply andb_false_r]. rewrite andb_true_r.
    rewrite testbit_mask_of in T; auto. apply existsb_exists in T. destruct T as [a [Ha E]].
    rewrite testbit_mask_of; auto. apply existsb_exists. exists a. split; [apply I; exact Ha | exact E].
Qed.

(* S and A disjoint *)
Lemma land_disjoint A S : (forall b, In b A -> member b) -> (forall b, In b S -> member b) ->
  Z.land (mask_of A) (mask_of S) = 0 <-> (forall a, In a S -> ~ In a A).
Proof.
  intros HA HS. split.
  - intros E a Ha HaA. pose proof (HS a Ha) as Ma.
    assert (T : Z.testbit (Z.land (mask_of A) (mask_of S)) (bit a) = true).
    { rewrite Z.land_spec, !testbit_mask_of; auto. apply andb_true_iff. split; apply existsb_bit_In; auto. }
    rewrite E, Z.bits_0 in T. discriminate.
  - intro D. apply Z.bits_inj'. intros j Hj. rewrite Z.land_spec, Z.bits_0.
    destruct (Z.testbit (mask_of S) j) eqn:T; [|apply andb_false_r]. rewrite andb_true_r.
    rewrite testbit_mask_of in T; auto. apply existsb_exists in T. destruct T as [a [Ha E]].
    rewrite testbit_mask_of; auto. destruct (existsb (fun a0 => Z.eqb (bit a0) j) A) eqn:X; [|reflexivity].
    exfalso. apply existsb_exists in X. destruct X as [b [Hb E2]].
    apply Z.eqb_eq in E. apply Z.eqb_eq in E2. apply (D a Ha). rewrite (bit_inj a b); auto. congruence.
Qed.

(* same sets *)
Lemma mask_eq A S : (forall b, In b A -> member b) -> (forall b, In b S -> member b) ->
  mask_of A = mask_of S <-> (incl A S /\ incl S A).
Proof.
  intros HA HS. split.
  - intro E. split.
    + apply (land_covers S A HS HA). rewrite E. apply Z.land_diag.
    + apply (land_covers A S HA HS). rewrite E. apply Z.land_diag.
  - intros [I1 I2]. apply Z.bits_inj'. intros j Hj. rewrite !testbit_mask_of; auto.
    destruct (existsb (fun a => Z.eqb (bit a) j) S) eqn:X.
    + apply existsb_exists in X. destruct X as [a [Ha E]]. apply existsb_exists. exists a. split; [apply I2; exact Ha | exact E].
    + destruct (existsb (fun a => Z.eqb (bit a) j) A) eqn:Y; [|reflexivity].
      apply existsb_exists in Y. destruct Y as [a [Ha E]].
      assert (existsb (fun a => Z.eqb (bit a) j) S = true) by (apply existsb_exists; exists a; split; [apply I1; exact Ha | exact E]).
      congruence.
Qed.

Lemma mask_nonzero S a : (forall b, In b S -> member b) -> In a S -> mask_of S <> 0.
Proof.
  intros HS Ha E.
  assert (T : Z.testbit (mask_of S) (bit a) = true).
  { rewrite testbit_mask_of; auto. apply existsb_bit_In; auto. }
  rewrite E, Z.bits_0 in T. discriminate.
Qed.

End Bits.

(* ------------------------------------------------------------------ *)
(* leafset bitmasks of a tree                                          *)
(* ------------------------------------------------------------------ *)
Lemma bitf_inj ns : ns_inj ns -> forall a b, member ns a -> member ns b -> bitf ns a = bitf ns b -> a = b.
Proof.
  intros I a b [i [Ha _]] [j [Hb _]] E. unfold bitf in E. rewrite Ha, Hb in E. subst j. eapply I; eassumption.
Qed.

Lemma bitf_nn ns a : member ns a -> 0 <= bitf ns a.
Proof. intros [i [Ha Hi]]. unfold bitf. rewrite Ha. exact Hi. Qed.

Lemma taxa_of_node i x lb e k r : taxa_of (T i x lb e (k :: r)) = flat_map taxa_of (k :: r).
Proof.
  unfold taxa_of. rewrite leaf_taxa_node. generalize (k :: r). intro l.
  induction l as [|c l IH]; [reflexivity|]. simpl. rewrite flat_map_app, IH. reflexivity.
Qed.

Lemma lmask_mask_of ns : forall t, lmask ns t = mask_of (bitf ns) (taxa_of t).
Proof.
  induction t as [i x lb e ks IH] using tree_ind'. destruct ks as [|k r].
  - simpl. destruct x as [a|]; simpl; [rewrite Z.lor_0_r|]; reflexivity.
  - rewrite taxa_of_node. change (lmask ns (T i x lb e (k :: r))) with (fold_right (fun k m => Z.lor (lmask ns k) m) 0 (k :: r)).
    induction IH as [|c cs Hc Hcs IHcs]; [reflexivity|]. simpl. rewrite mask_of_app, Hc, IHcs. reflexivity.
Qed.

Lemma has_taxa_of a t : has a t = true <-> In a (taxa_of t).
Proof.
  rewrite has_In. unfold taxa_of. rewrite in_flat_map. split.
  - intro H. exists (Some a). split; [exact H | left; reflexivity].
  - intros [[b|] [H1 H2]]; [destruct H2 as [->|[]]; exact H1 | destruct H2].
Qed.

Lemma covers_incl S t : covers S t = true <-> incl S (taxa_of t).
Proof.
  unfold covers. rewrite forallb_forall. split; intros H a Ha; apply has_taxa_of; apply H; exact Ha.
Qed.

(* ------------------------------------------------------------------ *)
(* encode_bipartitions stores the masks                                *)
(* ------------------------------------------------------------------ *)
Lemma members_kids ns i x lb e k r c : members_ok ns (T i x lb e (k :: r)) -> In c (k :: r) -> members_ok ns c.
Proof. intros M Hc a Ha. apply M. rewrite has_node. apply existsb_exists. exists c. auto. Qed.

Definition enc_go (ns : nspace) : list tree -> res (dict Z * Z) :=
  fix go (ks : list tree) : res (dict Z * Z) :=
    match ks with
    | [] => Ok ([], 0)
    | k :: rest =>
      do a <- enc_fresh ns k ;;
      do b <- go rest ;;
      Ok (fst a ++ fst b, Z.lor (snd a) (snd b))
    end.

Lemma enc_fresh_node ns i x lb e k r :
  enc_fresh ns (T i x lb e (k :: r)) = do r0 <- enc_go ns (k :: r) ;; Ok (fst r0 ++ [(i, snd r0)], snd r0).
Proof. reflexivity. Qed.

Definition enc_ok ns (t : tree) : Prop :=
  members_ok ns t ->
  exists l, enc_fresh ns t = Ok (l, lmask ns t) /\
            dkeys l = map t_id (postorder t) /\
            forall n, In n (postorder t) -> In (t_id n, lmask ns n) l.

Lemma enc_go_spec ns ks : Forall (enc_ok ns) ks -> (forall c, In c ks -> members_ok ns c) ->
  exists l, enc_go ns ks = Ok (l, fold_right (fun k m => Z.lor (lmask ns k) m) 0 ks)
            /\ dkeys l = map t_id (flat_map postorder ks)
            /\ forall n, In n (flat_map postorder ks) -> In (t_id n, lmask ns n) l.
Proof.
  induction ks as [|c cs IHl]; intros IH Mk.
  - exists []. split; [reflexivity|]. split; [reflexivity|]. intros n [].
  - inversion IH as [|? ? IH1 IH2]; subst.
    destruct (IH1 (Mk c (or_introl eq_refl))) as [l1 [E1 [K1 I1]]].
    destruct (IHl IH2) as [l2 [E2 [K2 I2]]]; [intros c' Hc'; apply Mk; right; exact Hc'|].
    simpl enc_go. rewrite E1. simpl bind. fold (enc_go ns). rewrite E2. simpl. exists (l1 ++ l2). split; [reflexivity|]. split.
    + rewrite dkeys_app, K1, K2, map_app. reflexivity.
    + intros n Hn. apply in_app_iff in Hn. apply in_app_iff. destruct Hn as [Hn|Hn]; [left; auto | right; auto].
Qed.

Lemma enc_fresh_spec ns : forall t, enc_ok ns t.
Proof.
  induction t as [i x lb e ks IH] using tree_ind'. intro M. destruct ks as [|k r].
  - simpl. destruct x as [a|].
    + destruct (M a) as [j [Hj _]]; [simpl; apply Z.eqb_refl|].
      unfold taxon_bitmask, bitf. rewrite Hj. simpl. eexists. split; [reflexivity|]. split; [reflexivity|].
      intros n [<-|[]]. left. simpl. unfold bitf. rewrite Hj. reflexivity.
    + simpl. eexists. split; [reflexivity|]. split; [reflexivity|]. intros n [<-|[]]. left. reflexivity.
  - destruct (enc_go_spec ns (k :: r) IH) as [l [E [K I]]].
    { intros c Hc. eapply members_kids; eassumption. }
    rewrite enc_fresh_node, E. simpl bind. simpl fst. simpl snd.
    change (lmask ns (T i x lb e (k :: r))) with (fold_right (fun k m => Z.lor (lmask ns k) m) 0 (k :: r)).
    eexists. split; [reflexivity|]. split.
    + rewrite dkeys_app, K. simpl postorder. rewrite map_app. reflexivity.
    + intros n Hn. simpl postorder in Hn. apply in_app_iff in Hn. apply in_app_iff. destruct Hn as [Hn|[<-|[]]].
      * left. apply I. exact Hn.
      * right. left. reflexivity.
Qed.

(* ------------------------------------------------------------------ *)
(* nodes of a tree                                                     *)
(* ------------------------------------------------------------------ *)
From Coq Require Import Permutation.

Lemma Permutation_flat_map {A B} (f g : A -> list B) l :
  Forall (fun x => Permutation (f x) (g x)) l -> Permutation (flat_map f l) (flat_map g l).
Proof. induction 1; simpl; [constructor|]. apply Permutation_app; assumption. Qed.

Lemma pre_post_perm : forall t, Permutation (preorder t) (postorder t).
Proof.
  induction t as [i x lb e ks IH] using tree_ind'. simpl.
  eapply perm_trans; [|apply Permutation_cons_append]. constructor. apply Permutation_flat_map. exact IH.
Qed.

Lemma preorder_self t : In t (preorder t).
Proof. destruct t. simpl. left. reflexivity. Qed.

Lemma preorder_kid i x lb e ks c n : In c ks -> In n (preorder c) -> In n (preorder (T i x lb e ks)).
Proof. intros Hc Hn. simpl. right. apply in_flat_map. exists c. auto. Qed.

Lemma preorder_trans : forall t n m, In n (preorder t) -> In m (preorder n) -> In m (preorder t).
Proof.
  induction t as [i x lb e ks IH] using tree_ind'. intros n m Hn Hm. simpl in Hn. destruct Hn as [<-|Hn]; [exact Hm|].
  apply in_flat_map in Hn. destruct Hn as [c [Hc Hn]]. rewrite Forall_forall in IH.
  eapply preorder_kid; [exact Hc|]. eapply IH; eassumption.
Qed.

Lemma find_node_in i : forall t s, find_node i t = Some s -> In s (preorder t) /\ t_id s = i.
Proof.
  induction t as [j x lb e ks IH] using tree_ind'. intros s H.
  unfold find_node in H. fold find_node in H. destruct (Z.eqb (t_id (T j x lb e ks)) i) eqn:E.
  - inversion H. subst. split; [apply preorder_self | apply Z.eqb_eq; exact E].
  - induction IH as [|c cs Hc Hcs IHcs]; [discriminate|].
    destruct (find_node i c) as [s'|] eqn:Ec.
    + inversion H. subst s'. destruct (Hc s eq_refl) as [H1 H2]. split; [|exact H2].
      eapply preorder_kid; [left; reflexivity | exact H1].
    + destruct (IHcs E H) as [H1 H2]. split; [|exact H2]. simpl in H1. destruct H1 as [H1|H1].
      * subst s. simpl in H2. simpl in E. rewrite H2, Z.eqb_refl in E. discriminate.
      * simpl. right. apply in_app_iff. right. exact H1.
Qed.

Lemma good_leaves_sub : forall t n, good_leaves t -> In n (preorder t) -> good_leaves n.
Proof.
  induction t as [i x lb e ks IH] using tree_ind'. intros n G Hn. simpl in Hn. destruct Hn as [<-|Hn]; [exact G|].
  apply in_flat_map in Hn. destruct Hn as [c [Hc Hn]]. destruct ks as [|k r]; [destruct Hc|].
  pose proof (good_kids_Forall _ (good_leaves_kids _ _ _ _ _ _ G)) as F. rewrite Forall_forall in F, IH.
  eapply IH; [exact Hc | apply F; exact Hc | exact Hn].
Qed.

Lemma members_sub ns : forall t n, members_ok ns t -> In n (preorder t) -> members_ok ns n.
Proof.
  induction t as [i x lb e ks IH] using tree_ind'. intros n M Hn. simpl in Hn. destruct Hn as [<-|Hn]; [exact M|].
  apply in_flat_map in Hn. destruct Hn as [c [Hc Hn]]. destruct ks as [|k r]; [destruct Hc|].
  rewrite Forall_forall in IH. eapply IH; [exact Hc | eapply members_kids; eassumption | exact Hn].
Qed.

Lemma current_sub ns enc t n : current ns enc t -> In n (preorder t) -> current ns enc n.
Proof. intros C Hn m Hm. apply C. eapply preorder_trans; eassumption. Qed.

Lemma enc_fresh_current ns t old : members_ok ns t -> NoDup (ids t) ->
  exists l, enc_fresh ns t = Ok (l, lmask ns t) /\ current ns (l ++ old) t.
Proof.
  intros M N. destruct (enc_fresh_spec ns t M) as [l [E [K I]]]. exists l. split; [exact E|].
  intros n Hn. unfold enc_get. rewrite dget_app.
  assert (dget (t_id n) l = Some (lmask ns n)) as ->; [|reflexivity].
  apply In_dget.
  - rewrite K. unfold ids in N. eapply Permutation_NoDup; [|exact N]. apply Permutation_map. apply pre_post_perm.
  - apply I. eapply Permutation_in; [apply pre_post_perm | exact Hn].
Qed.

(* ------------------------------------------------------------------ *)
(* the descent                                                         *)
(* ------------------------------------------------------------------ *)
Lemma deepest_node S i x lb e ks :
  deepest S (T i x lb e ks) =
  if covers S (T i x lb e ks) then
    match first_some (deepest S) ks with Some r => Some r | None => Some (T i x lb e ks) end
  else None.
Proof. reflexivity. Qed.

Lemma deepest_none S t : covers S t = false -> deepest S t = None.
Proof. destruct t as [i x lb e ks]. rewrite deepest_node. intros ->. reflexivity. Qed.

Lemma taxa_nonempty : forall t, good_leaves t -> exists a, has a t = true.
Proof.
  induction t as [i x lb e ks IH] using tree_ind'. intro G. destruct ks as [|k r].
  - destruct x as [a|].
    + exists a. simpl. apply Z.eqb_refl.
    + exfalso. destruct G as [_ H]. apply H. left. reflexivity.
  - inversion IH as [|? ? IHk _]; subst.
    destruct (good_kids_cons _ _ (good_leaves_kids _ _ _ _ _ _ G)) as [Gk _].
    destruct (IHk Gk) as [a Ha]. exists a. rewrite has_node. simpl. rewrite Ha. reflexivity.
Qed.

Definition overlap (S : list Z) (t : tree) : bool := existsb (fun a => has a t) S.

Lemma covers_kid_false S k k' a :
  In a S -> has a k' = true -> has a k = false -> covers S k = false.
Proof.
  intros Ha _ Hk. unfold covers. destruct (forallb (fun a0 => has a0 k) S) eqn:E; [|reflexivity].
  rewrite forallb_forall in E. rewrite (E a Ha) in Hk. discriminate.
Qed.

(* when S is exactly the leaf set of st, the deepest node containing S is found by stepping down
   the unifurcations *)
Lemma deepest_equiv S : forall st, good_leaves st -> covers S st = true ->
  (forall a, has a st = true -> In a S) -> deepest S st = Some (stepdown st).
Proof.
  induction st as [i x lb e ks IH] using tree_ind'. intros G C Sub. rewrite deepest_node, C.
  destruct ks as [|c1 [|c2 r]].
  - reflexivity.
  - (* unifurcation *)
    inversion IH as [|? ? IH1 _]; subst. simpl first_some.
    destruct (good_kids_cons _ _ (good_leaves_kids _ _ _ _ _ _ G)) as [G1 _].
    assert (E : forall a, has a (T i x lb e [c1]) = has a c1) by (intro a; rewrite has_node; simpl; apply orb_false_r).
    rewrite IH1; [reflexivity | exact G1 | |].
    + unfold covers in *. rewrite forallb_forall in *. intros a Ha. rewrite <- E. apply C. exact Ha.
    + intros a Ha. apply Sub. rewrite E. exact Ha.
  - (* two or more children: none of them contains all of S *)
    pose proof (good_leaves_kids _ _ _ _ _ _ G) as GK.
    destruct (good_kids_cons _ _ GK) as [G1 [GK2 D1]]. destruct (good_kids_cons _ _ GK2) as [G2 [_ D2]].
    destruct (taxa_nonempty c1 G1) as [a1 Ha1]. destruct (taxa_nonempty c2 G2) as [a2 Ha2].
    assert (S1 : In a1 S) by (apply Sub; rewrite has_node; simpl; rewrite Ha1; reflexivity).
    assert (S2 : In a2 S) by (apply Sub; rewrite has_node; simpl; rewrite Ha2, orb_true_r; reflexivity).
    rewrite first_some_none; [reflexivity|]. intros c Hc. apply deepest_none.
    destruct Hc as [<-|Hc].
    + eapply covers_kid_false; [exact S2 | exact Ha2|].
      destruct (has a2 c1) eqn:E; [|reflexivity]. rewrite (D1 a2 E c2 (or_introl eq_refl)) in Ha2. discriminate.
    + eapply covers_kid_false; [exact S1 | exact Ha1|]. apply D1; assumption.
Qed.

Definition scan_kids (ee : bool) (enc : dict Z) (sm : Z) (t : tree) : list tree -> tree :=
  fix scan (ks : list tree) : tree :=
    match ks with
    | [] => t
    | k :: r => match visit ee enc sm k t with Some res => res | None => scan r end
    end.

Lemma visit_eq ee enc sm t last :
  visit ee enc sm t last =
  let cm := enc_get enc (t_id t) in
  let cms := Z.land cm sm in
  if Z.eqb cms 0 then None
  else if Z.eqb cms sm then
    if Z.eqb cm sm && ee then Some (stepdown t) else Some (scan_kids ee enc sm t (t_kids t))
  else Some last.
Proof. destruct t; reflexivity. Qed.

Lemma deepest_some S t : covers S t = true -> exists r, deepest S t = Some r.
Proof.
  destruct t as [i x lb e ks]. rewrite deepest_node. intros ->.
  destruct (first_some (deepest S) ks); eauto.
Qed.

Section Descent.
Variables (ee : bool) (ns : nspace) (S : list Z) (enc : dict Z).
Hypothesis Hinj : ns_inj ns.
Hypothesis HS : forall a, In a S -> member ns a.
Hypothesis Hne : S <> [].
Let sm := mask_of (bitf ns) S.

Lemma taxa_members t : members_ok ns t -> forall b, In b (taxa_of t) -> member ns b.
Proof. intros M b Hb. apply M. apply has_taxa_of. exact Hb. Qed.

Lemma test_covers t : members_ok ns t -> Z.eqb (Z.land (lmask ns t) sm) sm = covers S t.
Proof.
  intro M. rewrite lmask_mask_of. unfold sm.
  pose proof (land_covers (bitf ns) (member ns) (bitf_inj ns Hinj) (bitf_nn ns) (taxa_of t) S (taxa_members t M) HS) as L.
  destruct (covers S t) eqn:C.
  - apply Z.eqb_eq. apply L. apply covers_incl. exact C.
  - apply Z.eqb_neq. intro E. apply L in E. apply covers_incl in E. congruence.
Qed.

Lemma test_overlap t : members_ok ns t -> Z.eqb (Z.land (lmask ns t) sm) 0 = negb (overlap S t).
Proof.
  intro M. rewrite lmask_mask_of. unfold sm.
  pose proof (land_disjoint (bitf ns) (member ns) (bitf_inj ns Hinj) (bitf_nn ns) (taxa_of t) S (taxa_members t M) HS) as L.
  destruct (overlap S t) eqn:O; simpl.
  - apply Z.eqb_neq. intro E. unfold overlap in O. apply existsb_exists in O. destruct O as [a [Ha Hh]].
    apply (proj1 L E a Ha). apply has_taxa_of. exact Hh.
  - apply Z.eqb_eq. apply L. intros a Ha Hin. apply has_taxa_of in Hin.
    assert (overlap S t = true) by (apply existsb_exists; exists a; auto). congruence.
Qed.

Lemma test_equal t : members_ok ns t -> Z.eqb (lmask ns t) sm = true -> forall a, has a t = true -> In a S.
Proof.
  intros M E a Ha. apply Z.eqb_eq in E. rewrite lmask_mask_of in E. unfold sm in E.
  apply (mask_eq (bitf ns) (member ns) (bitf_inj ns Hinj) (bitf_nn ns) _ _ (taxa_members t M) HS) in E.
  destruct E as [I _]. apply I. apply has_taxa_of. exact Ha.
Qed.

Lemma covers_overlap t : covers S t = true -> overlap S t = true.
Proof.
  intro C. destruct S as [|a0 S']; [congruence|]. unfold covers in C. simpl in C. apply andb_true_iff in C.
  destruct C as [C _]. unfold overlap. simpl. rewrite C. reflexivity.
Qed.

Definition visit_ok (st : tree) : Prop :=
  forall last, current ns enc st -> good_leaves st -> members_ok ns st ->
    visit ee enc sm st last = if covers S st then deepest S st else if overlap S st then Some last else None.

Lemma scan_spec st ks :
  Forall visit_ok ks -> (forall k, In k ks -> current ns enc k /\ members_ok ns k) -> good_kids ks ->
  scan_kids ee enc sm st ks = match first_some (deepest S) ks with Some r => r | None => st end.
Proof.
  induction ks as [|k rest IH]; intros F A G; [reflexivity|].
  inversion F as [|? ? F1 F2]; subst. destruct (good_kids_cons _ _ G) as [G1 [G2 D]].
  destruct (A k (or_introl eq_refl)) as [C1 M1]. simpl scan_kids. simpl first_some.
  rewrite (F1 st C1 G1 M1). destruct (covers S k) eqn:Cv.
  - destruct (deepest_some S k Cv) as [r Hr]. rewrite Hr. reflexivity.
  - rewrite (deepest_none S k Cv). destruct (overlap S k) eqn:Ov.
    + unfold overlap in Ov. apply existsb_exists in Ov. destruct Ov as [a [Ha Hh]].
      rewrite first_some_none; [reflexivity|]. intros k2 Hk2. apply deepest_none.
      eapply covers_kid_false; [exact Ha | exact Hh | apply D; assumption].
    + apply IH; [exact F2 | intros k0 Hk0; apply A; right; exact Hk0 | exact G2].
Qed.

Lemma visit_spec : forall st, visit_ok st.
Proof.
  induction st as [i x lb e ks IH] using tree_ind'. intros last C G M.
  rewrite visit_eq. cbv zeta. rewrite (C _ (preorder_self _)).
  rewrite test_overlap, test_covers by exact M.
  destruct (overlap S (T i x lb e ks)) eqn:Ov; simpl negb; cbv iota.
  - destruct (covers S (T i x lb e ks)) eqn:Cv; [|reflexivity].
    destruct (Z.eqb (lmask ns (T i x lb e ks)) sm && ee) eqn:Eq.
    + apply andb_true_iff in Eq. destruct Eq as [Eq _].
      symmetry. apply deepest_equiv; [exact G | exact Cv | apply test_equal; assumption].
    + rewrite deepest_node, Cv. simpl t_kids. f_equal. destruct ks as [|k r]; [reflexivity|].
      rewrite (scan_spec (T i x lb e (k :: r)) (k :: r) IH).
      * destruct (first_some (deepest S) (k :: r)); reflexivity.
      * intros c Hc. split.
        -- eapply current_sub; [exact C|]. eapply preorder_kid; [exact Hc | apply preorder_self].
        -- eapply members_kids; eassumption.
      * exact G.
  - destruct (covers S (T i x lb e ks)) eqn:Cv; [|reflexivity].
    apply covers_overlap in Cv. congruence.
Qed.

End Descent.

(* ------------------------------------------------------------------ *)
(* Tree.mrca                                                           *)
(* ------------------------------------------------------------------ *)
Lemma taxa_bitmask_members ns l : (forall a, In a l -> member ns a) ->
  forall acc, taxa_bitmask ns l acc = Ok (Z.lor acc (mask_of (bitf ns) l)).
Proof.
  induction l as [|a l IH]; intros M acc; simpl.
  - rewrite Z.lor_0_r. reflexivity.
  - destruct (M a (or_introl eq_refl)) as [i [Hi _]]. unfold taxon_bitmask, bitf. rewrite Hi. simpl.
    rewrite IH by (intros b Hb; apply M; right; exact Hb). rewrite Z.lor_assoc. reflexivity.
Qed.

Lemma tree_mrca_taxa_l ee ns t rooted enc S start updated :
  ns_inj ns -> (forall a, In a S -> member ns a) -> S <> [] ->
  let sid := match start with Some i => i | None => t_id t end in
  let refresh := mrca_refreshes enc sid updated in
  let t' := tree_after t rooted refresh in
  good_leaves t' -> members_ok ns t' -> NoDup (ids t') ->
  (refresh = true \/ current ns enc t) ->
  forall st, find_node sid t' = Some st ->
  exists mt', tree_mrca ee ns (mkMt t rooted enc) (ByTaxa S) start updated
              = (Ok (option_map t_id (deepest S st)), mt')
              /\ mt_tree mt' = t' /\ (refresh = false -> mt' = mkMt t rooted enc).
Proof.
  intros Hinj HS Hne sid refresh t' G M N Cur st Hst.
  unfold tree_mrca. cbn [mt_tree mt_enc mt_rooted]. fold sid. simpl mrca_mask. rewrite (taxa_bitmask_members ns S HS 0). rewrite Z.lor_0_l.
  set (sm := mask_of (bitf ns) S).
  assert (Z.eqb sm 0 = false) as ->.
  { apply Z.eqb_neq. destruct S as [|a0 S']; [congruence|].
    eapply (mask_nonzero (bitf ns) (member ns) (bitf_inj ns Hinj) (bitf_nn ns)); [exact HS | left; reflexivity]. }
  fold (mrca_refreshes enc sid updated). fold refresh.
  assert (R : exists mt', (if refresh then encode ns (mkMt t rooted enc) else Ok (mkMt t rooted enc)) = Ok mt'
                          /\ mt_tree mt' = t' /\ current ns (mt_enc mt') t' /\ (refresh = false -> mt' = mkMt t rooted enc)).
  { unfold t', tree_after in *. destruct refresh eqn:Er.
    - unfold encode. simpl mt_rooted. simpl mt_tree. simpl andb in *.
      destruct (negb (is_true rooted) && (nkids t =? 2)) eqn:Ec.
      + destruct (collapse_basal t) as [tc ch] eqn:Ecb. simpl fst in *.
        destruct (enc_fresh_current ns tc enc M N) as [l [El Cl]]. rewrite El. simpl.
        eexists. split; [reflexivity|]. simpl. split; [reflexivity|]. split; [exact Cl | discriminate].
      + destruct (enc_fresh_current ns t enc M N) as [l [El Cl]]. rewrite El. simpl.
        eexists. split; [reflexivity|]. simpl. split; [reflexivity|]. split; [exact Cl | discriminate].
    - simpl andb in *. eexists. split; [reflexivity|]. simpl. split; [reflexivity|].
      split; [destruct Cur as [Cur|Cur]; [discriminate | exact Cur] | reflexivity]. }
  destruct R as [mt' [Er [Et [Cm Same]]]]. rewrite Er. rewrite Et, Hst.
  destruct (find_node_in sid t' st Hst) as [Hin Hid].
  pose proof (current_sub ns _ t' st Cm Hin) as Cst.
  pose proof (good_leaves_sub t' st G Hin) as Gst.
  pose proof (members_sub ns t' st M Hin) as Mst.
  replace (enc_get (mt_enc mt') sid) with (lmask ns st)
    by (rewrite <- Hid; symmetry; apply (Cst st (preorder_self st))).
  unfold sm. rewrite (test_covers ns S Hinj HS st Mst).
  exists mt'. split; [|split; assumption].
  destruct (covers S st) eqn:Cv; simpl negb; cbv iota.
  - rewrite (visit_spec ee ns S (mt_enc mt') Hinj HS Hne st st Cst Gst Mst). rewrite Cv.
    destruct (deepest_some S st Cv) as [r Hr]. rewrite Hr. reflexivity.
  - rewrite (deepest_none S st Cv). reflexivity.
Qed.

Lemma tree_mrca_empty ee ns mt start updated :
  tree_mrca ee ns mt (ByTaxa []) start updated = (Err ValueErr, mt).
Proof. reflexivity. Qed.

Lemma taxa_bitmask_nonmember ns l a : In a l -> ns_bit ns a = None -> forall acc, taxa_bitmask ns l acc = Err KeyErr.
Proof.
  induction l as [|b l IH]; intros Ha Hn acc; [destruct Ha|]. simpl. unfold taxon_bitmask.
  destruct (ns_bit ns b) as [i|] eqn:Eb.
  - simpl. destruct Ha as [<-|Ha]; [congruence|]. apply IH; assumption.
  - reflexivity.
Qed.

Lemma tree_mrca_nonmember ee ns mt S a start updated :
  In a S -> ns_bit ns a = None -> tree_mrca ee ns mt (ByTaxa S) start updated = (Err KeyErr, mt).
Proof.
  intros Ha Hn. unfold tree_mrca. simpl mrca_mask. rewrite (taxa_bitmask_nonmember ns S a Ha Hn). reflexivity.
Qed.

(* the other two argument forms reduce to the first *)
Lemma tree_mrca_labels ee ns mt ls start updated :
  tree_mrca ee ns mt (ByLabels ls) start updated =
  if Nat.eqb (length (get_taxa ns ls)) (length ls)
  then tree_mrca ee ns mt (ByTaxa (get_taxa ns ls)) start updated
  else (Err KeyErr, mt).
Proof.
  unfold tree_mrca. simpl mrca_mask. destruct (Nat.eqb (length (get_taxa ns ls)) (length ls)); reflexivity.
Qed.

Lemma tree_mrca_mask ee ns mt S start updated :
  (forall a, In a S -> member ns a) ->
  tree_mrca ee ns mt (ByMask (mask_of (bitf ns) S)) start updated = tree_mrca ee ns mt (ByTaxa S) start updated.
Proof.
  intro HS. unfold tree_mrca. simpl mrca_mask. rewrite (taxa_bitmask_members ns S HS 0), Z.lor_0_l. reflexivity.
Qed.

(* a refresh does not change the leaves *)
Lemma leaf_taxa_set_len c l : leaf_taxa (set_len c l) = leaf_taxa c.
Proof. destruct c as [i x lb e ks]. destruct ks; reflexivity. Qed.

Lemma leaf_taxa_ne i x lb e ks : ks <> [] -> leaf_taxa (T i x lb e ks) = flat_map leaf_taxa ks.
Proof. destruct ks; [congruence | reflexivity]. Qed.

Lemma leaf_taxa_collapse t : leaf_taxa (fst (collapse_basal t)) = leaf_taxa t.
Proof.
  destruct t as [i x lb e ks]. destruct ks as [|c0 [|c1 [|c2 r]]]; try reflexivity.
  unfold collapse_basal. destruct (2 <=? nkids c1) eqn:E1.
  - simpl fst. destruct c1 as [i1 x1 lb1 e1 ks1]. destruct ks1 as [|k1 r1]; [discriminate|].
    rewrite !leaf_taxa_ne by discriminate. simpl flat_map.
    rewrite leaf_taxa_set_len, app_nil_r. reflexivity.
  - destruct (2 <=? nkids c0) eqn:E0; [|reflexivity].
    simpl fst. destruct c0 as [i0 x0 lb0 e0 ks0]. destruct ks0 as [|k0 r0]; [discriminate|].
    simpl t_kids. rewrite !leaf_taxa_ne by discriminate.
    rewrite flat_map_app. simpl flat_map. rewrite leaf_taxa_set_len, !app_nil_r. reflexivity.
Qed.
