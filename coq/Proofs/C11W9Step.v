(* C11, wave 9: import_resolves_first_match over the operations of the extended history language. *)
From Coq Require Import List Bool Arith ZArith Lia.
From DV Require Import Model.PyPrims Model.C11Model Model.C11W7Model Model.C11W8Model
  Proofs.C11Base Proofs.C11Inv Proofs.C11Ops Proofs.C11Unify Proofs.C11W7 Proofs.C11W8.
From DV Require Import Proofs.C11W9First.
Import ListNotations.
Open Scope nat_scope.

(* which items an operation imports by label, into which namespace, under which caller's memo *)
Inductive route :=
| RMove (n : oid) (m0 : memo) (trs : list oid)      (* these tree objects are re-mapped in place *)
| RClone (n : oid) (srcs : list oid) (base : oid)    (* the j-th source tree is cloned into the new tree object base + j *)
| RMat (n : oid) (m0 : memo) (m : oid).             (* the rows of this matrix are re-mapped in place *)

(* trees that are not under the destination namespace yet (the others are taken as they are) *)
Definition fresh_trees (st : state) (n : oid) (trs : list oid) : list oid :=
  filter (fun tr => negb (Nat.eqb (t_ns (gettree st tr)) n)) trs.
(* trees the list holds exactly once (a tree object held twice is re-mapped twice) *)
Definition once (trs : list oid) : list oid := filter (fun tr => Nat.eqb (count_occ Nat.eq_dec trs tr) 1) trs.

Definition imports_base (st : state) (b : op) : option route :=
  match b with
  | Append l tr (SMigrate true) | Insert l _ tr (SMigrate true) | SetItem l _ tr =>
    Some (RMove (l_ns (getlist st l)) [] (fresh_trees st (l_ns (getlist st l)) [tr]))
  | MigrateTree tr n true => Some (RMove n [] [tr])
  | ReconstructTree tr true => Some (RMove (t_ns (gettree st tr)) [] [tr])
  | MigrateList l n true => Some (RMove n [] (once (l_trees (getlist st l))))
  | ReconstructList l true => Some (RMove (l_ns (getlist st l)) [] (once (l_trees (getlist st l))))
  | Extend l (SrcTrees ts) | IAdd l (SrcTrees ts) | SetSlice l _ _ (SrcTrees ts) =>
    Some (RMove (l_ns (getlist st l)) [] (fresh_trees st (l_ns (getlist st l)) ts))
  | Extend l (SrcList l2) | IAdd l (SrcList l2) | SetSlice l _ _ (SrcList l2) =>
    Some (RClone (l_ns (getlist st l)) (l_trees (getlist st l2)) (length (s_trees st)))
  (* l + other: a new list, first the clones of l's own trees (already under the namespace), then other *)
  | AddOp l (SrcTrees ts) => Some (RMove (l_ns (getlist st l)) [] (fresh_trees st (l_ns (getlist st l)) ts))
  | AddOp l (SrcList l2) =>
    Some (RClone (l_ns (getlist st l)) (l_trees (getlist st l2)) (length (s_trees st) + length (l_trees (getlist st l))))
  | MigrateMat m n true => Some (RMat n [] m)
  | ReconstructMat m true => Some (RMat (m_ns (getmat st m)) [] m)
  | _ => None
  end.

Definition imports7 (x : xstate) (o : op7) : option route :=
  let st := x_st x in
  match o with
  | Base b => imports_base st b
  | AppendM l tr (SMigrate true) k | InsertM l _ tr (SMigrate true) k =>
    Some (RMove (l_ns (getlist st l)) (getmemo x k) (fresh_trees st (l_ns (getlist st l)) [tr]))
  | MigrateTreeM tr n true k => Some (RMove n (getmemo x k) [tr])
  | ReconstructTreeM tr true k => Some (RMove (t_ns (gettree st tr)) (getmemo x k) [tr])
  | MigrateListM l n true k => Some (RMove n (getmemo x k) (once (l_trees (getlist st l))))
  | ReconstructListM l true k => Some (RMove (l_ns (getlist st l)) (getmemo x k) (once (l_trees (getlist st l))))
  | MigrateMatM m n true k => Some (RMat n (getmemo x k) m)
  | ReconstructMatM m true k => Some (RMat (m_ns (getmat st m)) (getmemo x k) m)
  | _ => None
  end.

Definition imports8 (x : xstate) (o : op8) : option route :=
  match o with Op7 o | BadKw o => imports7 x o end.

Definition succeeded (y : out) : bool := match y with OUnit | OId _ => true | _ => false end.

(* identifiers in the state name existing objects (true of every state the harness has ever seen; not yet
   proved over histories) *)
Definition lists_wf (st : state) : Prop := forall l tr, In tr (l_trees (getlist st l)) -> tr < length (s_trees st).
Definition mats_wf (st : state) : Prop :=
  forall m, NoDup (m_rows (getmat st m)) /\ forall x, In x (m_rows (getmat st m)) -> x < length (s_lab st).
Definition taxa_wf (x : xstate) : Prop :=
  mem_wf (x_st x) /\ refs_wf (x_st x) /\ lists_wf (x_st x) /\ mats_wf (x_st x)
  /\ (forall k, memo_valid (x_st x) (getmemo x k)).

Section WithLower.
Variable lower : lbl -> lbl.

Definition route_ok (st st' : state) (r : route) : Prop :=
  match r with
  | RMove n m0 trs => forall tr, In tr trs -> tree_resolved lower st st' n m0 tr tr
  | RClone n srcs base =>
    forall j, j < length srcs -> Nat.eqb (t_ns (gettree st (nth j srcs 0))) n = false ->
              clone_resolved lower st st' n (nth j srcs 0) (base + j)
  | RMat n m0 m => mat_resolved lower st st' n m0 m
  end.

Lemma fresh_single : forall st n tr t, In t (fresh_trees st n [tr]) -> t = tr /\ Nat.eqb (t_ns (gettree st tr)) n = false.
Proof.
  intros st n tr t H. unfold fresh_trees in H. cbn [filter] in H.
  destruct (Nat.eqb (t_ns (gettree st tr)) n) eqn:E; cbn [negb] in H; [destruct H|].
  destruct H as [H|[]]. split; [symmetry; exact H | reflexivity].
Qed.

Lemma fresh_in : forall st n ts t, In t (fresh_trees st n ts) -> In t ts /\ Nat.eqb (t_ns (gettree st t)) n = false.
Proof.
  intros st n ts t H. unfold fresh_trees in H. apply filter_In in H. destruct H as [H1 H2]. split; [exact H1|].
  apply negb_true_iff in H2. exact H2.
Qed.

Lemma once_count : forall trs t, In t (once trs) -> count_occ Nat.eq_dec trs t = 1.
Proof. intros trs t H. unfold once in H. apply filter_In in H. destruct H as [_ H]. apply Nat.eqb_eq in H. exact H. Qed.

Lemma memo_ok0_self : forall m0 n cs st, memo_ok0 lower m0 n cs st m0.
Proof. intros m0 n cs st x t A A0. rewrite A in A0. discriminate. Qed.

Lemma memo_valid_nil : forall st, memo_valid st [].
Proof. intros st x t A. discriminate. Qed.

(* the shared core of the single-tree operations: Tree.migrate_taxon_namespace under a memo *)
Lemma move_one : forall st tr n mm s1 m1,
  migrate_tree lower st tr n true mm = (s1, m1) ->
  valid_tree st tr = true -> mem_wf st -> refs_wf st -> memo_valid st mm ->
  tree_resolved lower st s1 n mm tr tr.
Proof.
  intros st tr n mm s1 m1 M V Mw Rw Mv.
  destruct (migrate_tree_first lower st tr n mm mm s1 m1 M (ltb_lt' _ _ V) (Mw n) (memo_ok0_self _ _ _ _) Mv (Rw tr))
    as [_ [_ [_ [_ [T _]]]]]. exact T.
Qed.

(* the shared core of the whole-list operations *)
Lemma move_list : forall st l n mm s1 m1,
  migrate_trees lower st n true (l_trees (getlist st l)) mm = (s1, m1) ->
  mem_wf st -> refs_wf st -> lists_wf st -> memo_valid st mm ->
  forall tr, In tr (once (l_trees (getlist st l))) -> tree_resolved lower st s1 n mm tr tr.
Proof.
  intros st l n mm s1 m1 M Mw Rw Lw Mv tr Htr.
  destruct (migrate_trees_first lower n (ns_cs st n) mm _ _ _ _ _ M eq_refl (Lw l) (Mw n) (memo_ok0_self _ _ _ _) Mv Rw)
    as [_ [_ [_ [_ [_ [_ [_ T]]]]]]]. apply T, once_count, Htr.
Qed.

Lemma getlist_set_same : forall st l L, valid_list st l = true -> getlist (set_list st l L) l = L.
Proof.
  intros st l L V. apply ltb_lt' in V. unfold getlist, set_list. cbn [s_lists].
  destruct (nth_error (s_lists st) l) as [L0|] eqn:E.
  - apply nth_error_some_nth. eapply nth_error_upd_same. exact E.
  - apply nth_error_None in E. lia.
Qed.

Lemma nth_error_eq_nth_l : forall A (a b : list A) j d, nth_error a j = nth_error b j -> nth j a d = nth j b d.
Proof.
  intros A a b j d H. destruct (nth_error a j) as [x|] eqn:E.
  - rewrite (nth_error_some_nth _ a j d x E). symmetry. apply nth_error_some_nth. symmetry. exact H.
  - symmetry in H. apply nth_error_None in E. apply nth_error_None in H. rewrite !nth_overflow; auto.
Qed.

Lemma forallb_valid : forall st ts, forallb (valid_tree st) ts = true -> forall tr, In tr ts -> tr < length (s_trees st).
Proof. intros st ts H tr Htr. apply ltb_lt'. change (valid_tree st tr = true). eapply forallb_In; eassumption. Qed.

Ltac rwgt Gt V := idtac.
Ltac bad Q S := injection Q as <- <-; simpl in S; discriminate S.

Section Base.
Variables (st : state).
Hypothesis Mw : mem_wf st.
Hypothesis Rw : refs_wf st.
Hypothesis Lw : lists_wf st.
Hypothesis Tw : mats_wf st.

Lemma mat_core : forall m n mm s1 m1 ok,
  migrate_mat lower st m n true mm = (s1, m1, ok) -> valid_mat st m = true -> memo_valid st mm ->
  succeeded (if ok then OUnit else ORecon) = true -> mat_resolved lower st s1 n mm m.
Proof.
  intros m n mm s1 m1 ok M Vm Mv S. destruct ok; [|discriminate S].
  destruct (Tw m) as [Nd Vr]. eapply migrate_mat_first; try eassumption; [apply ltb_lt'; exact Vm | apply Mw].
Qed.

Lemma case_migrate_mat : forall m n st1 y,
  step lower st (MigrateMat m n true) = (st1, y) -> succeeded y = true -> route_ok st st1 (RMat n [] m).
Proof.
  intros m n st1 y Q S. cbn [step] in Q. destruct (valid_mat st m && valid_ns st n) eqn:Vd; [|bad Q S].
  apply andb_prop in Vd. destruct Vd as [Vm Vn].
  destruct (migrate_mat lower st m n true []) as [[s1 m1] ok] eqn:M. injection Q as <- <-.
  cbn [route_ok]. eapply mat_core; try eassumption. apply memo_valid_nil.
Qed.

Lemma case_reconstruct_mat : forall m st1 y,
  step lower st (ReconstructMat m true) = (st1, y) -> succeeded y = true ->
  route_ok st st1 (RMat (m_ns (getmat st m)) [] m).
Proof.
  intros m st1 y Q S. cbn [step] in Q. destruct (valid_mat st m) eqn:Vm; [|bad Q S].
  destruct (migrate_mat lower st m (m_ns (getmat st m)) true []) as [[s1 m1] ok] eqn:M. injection Q as <- <-.
  cbn [route_ok]. eapply mat_core; try eassumption. apply memo_valid_nil.
Qed.

Lemma case_append : forall l tr st1 y,
  step lower st (Append l tr (SMigrate true)) = (st1, y) -> succeeded y = true ->
  route_ok st st1 (RMove (l_ns (getlist st l)) [] (fresh_trees st (l_ns (getlist st l)) [tr])).
Proof.
  intros l tr st1 y Q S. cbn [step] in Q. destruct (valid_list st l && valid_tree st tr) eqn:Vd; [|bad Q S].
  apply andb_prop in Vd. destruct Vd as [Vl Vt]. unfold append_tree in Q.
  destruct (import_tree lower st (l_ns (getlist st l)) tr (SMigrate true)) as [s1 ok] eqn:Im.
  cbn [route_ok]. intros t Ht. apply fresh_single in Ht. destruct Ht as [-> Ne].
  destruct (import_tree_first lower _ _ _ _ _ Im Ne (ltb_lt' _ _ Vt) (Mw _) (Rw tr)) as [-> T].
  injection Q as <- <-. eapply tree_resolved_same; [| | | |exact T]; reflexivity.
Qed.

Lemma case_insert : forall l i tr st1 y,
  step lower st (Insert l i tr (SMigrate true)) = (st1, y) -> succeeded y = true ->
  route_ok st st1 (RMove (l_ns (getlist st l)) [] (fresh_trees st (l_ns (getlist st l)) [tr])).
Proof.
  intros l i tr st1 y Q S. cbn [step] in Q. destruct (valid_list st l && valid_tree st tr) eqn:Vd; [|bad Q S].
  apply andb_prop in Vd. destruct Vd as [Vl Vt].
  destruct (import_tree lower st (l_ns (getlist st l)) tr (SMigrate true)) as [s1 ok] eqn:Im.
  cbn [route_ok]. intros t Ht. apply fresh_single in Ht. destruct Ht as [-> Ne].
  destruct (import_tree_first lower _ _ _ _ _ Im Ne (ltb_lt' _ _ Vt) (Mw _) (Rw tr)) as [-> T].
  injection Q as <- <-. eapply tree_resolved_same; [| | | |exact T]; reflexivity.
Qed.

Lemma case_setitem : forall l i tr st1 y,
  step lower st (SetItem l i tr) = (st1, y) -> succeeded y = true ->
  route_ok st st1 (RMove (l_ns (getlist st l)) [] (fresh_trees st (l_ns (getlist st l)) [tr])).
Proof.
  intros l i tr st1 y Q S. cbn [step] in Q. destruct (valid_list st l && valid_tree st tr) eqn:Vd; [|bad Q S].
  apply andb_prop in Vd. destruct Vd as [Vl Vt]. cbv zeta in Q.
  destruct (import_tree lower st (l_ns (getlist st l)) tr (SMigrate true)) as [s1 ok] eqn:Im. cbn [fst] in Q.
  cbn [route_ok]. intros t Ht. apply fresh_single in Ht. destruct Ht as [-> Ne].
  destruct (import_tree_first lower _ _ _ _ _ Im Ne (ltb_lt' _ _ Vt) (Mw _) (Rw tr)) as [-> T].
  destruct (norm_index (length (l_trees (getlist s1 l))) i); [|bad Q S].
  injection Q as <- <-. eapply tree_resolved_same; [| | | |exact T]; reflexivity.
Qed.

Lemma case_migrate_tree : forall tr n st1 y,
  step lower st (MigrateTree tr n true) = (st1, y) -> succeeded y = true -> route_ok st st1 (RMove n [] [tr]).
Proof.
  intros tr n st1 y Q S. cbn [step] in Q. destruct (valid_tree st tr && valid_ns st n) eqn:Vd; [|bad Q S].
  apply andb_prop in Vd. destruct Vd as [Vt Vn].
  destruct (migrate_tree lower st tr n true []) as [s1 m1] eqn:M. cbn [fst] in Q. injection Q as <- <-.
  cbn [route_ok]. intros t [<-|[]]. eapply move_one; try eassumption. apply memo_valid_nil.
Qed.

Lemma case_reconstruct_tree : forall tr st1 y,
  step lower st (ReconstructTree tr true) = (st1, y) -> succeeded y = true ->
  route_ok st st1 (RMove (t_ns (gettree st tr)) [] [tr]).
Proof.
  intros tr st1 y Q S. cbn [step] in Q. destruct (valid_tree st tr) eqn:Vt; [|bad Q S].
  destruct (migrate_tree lower st tr (t_ns (gettree st tr)) true []) as [s1 m1] eqn:M. cbn [fst] in Q. injection Q as <- <-.
  cbn [route_ok]. intros t [<-|[]]. eapply move_one; try eassumption. apply memo_valid_nil.
Qed.

Lemma migrate_list_core : forall l n mm s1 m1,
  migrate_list lower st l n true mm = (s1, m1) -> valid_list st l = true -> memo_valid st mm ->
  forall tr, In tr (once (l_trees (getlist st l))) -> tree_resolved lower st s1 n mm tr tr.
Proof.
  intros l n mm s1 m1 M Vl Mv tr Htr. unfold migrate_list, reconstruct_list in M.
  rewrite (getlist_set_same st l _ Vl) in M. cbn [l_ns l_trees] in M.
  set (st0 := set_list st l (mkTL n (l_trees (getlist st l)))) in *.
  assert (T : tree_resolved lower st0 s1 n mm tr tr).
  { eapply (move_list st0 l n mm s1 m1); try assumption.
    - unfold st0. rewrite (getlist_set_same st l _ Vl). cbn [l_trees]. exact M.
    - intros l0 t0 Ht0. unfold st0 in Ht0. destruct (Nat.eq_dec l0 l) as [->|Nl].
      + rewrite (getlist_set_same st l _ Vl) in Ht0. cbn [l_trees] in Ht0. apply (Lw l t0 Ht0).
      + unfold getlist, set_list in Ht0. cbn [s_lists] in Ht0.
        rewrite (nth_error_eq_nth_l _ _ _ _ dlist (nth_error_upd_other _ _ _ _ _ Nl)) in Ht0. apply (Lw l0 t0 Ht0).
    - unfold st0. rewrite (getlist_set_same st l _ Vl). cbn [l_trees]. exact Htr. }
  eapply tree_resolved_pre; [| |exact T]; reflexivity.
Qed.

Lemma case_migrate_list : forall l n st1 y,
  step lower st (MigrateList l n true) = (st1, y) -> succeeded y = true ->
  route_ok st st1 (RMove n [] (once (l_trees (getlist st l)))).
Proof.
  intros l n st1 y Q S. cbn [step] in Q. destruct (valid_list st l && valid_ns st n) eqn:Vd; [|bad Q S].
  apply andb_prop in Vd. destruct Vd as [Vl Vn].
  destruct (migrate_list lower st l n true []) as [s1 m1] eqn:M. cbn [fst] in Q. injection Q as <- <-.
  cbn [route_ok]. intros t Ht. eapply migrate_list_core; try eassumption. apply memo_valid_nil.
Qed.

Lemma case_reconstruct_list : forall l st1 y,
  step lower st (ReconstructList l true) = (st1, y) -> succeeded y = true ->
  route_ok st st1 (RMove (l_ns (getlist st l)) [] (once (l_trees (getlist st l)))).
Proof.
  intros l st1 y Q S. cbn [step] in Q. destruct (valid_list st l) eqn:Vl; [|bad Q S].
  destruct (reconstruct_list lower st l true []) as [s1 m1] eqn:M. cbn [fst] in Q. injection Q as <- <-.
  cbn [route_ok]. intros t Ht. unfold reconstruct_list in M. eapply move_list; try eassumption. apply memo_valid_nil.
Qed.

Lemma extend_trees_core : forall l ts st1,
  extend lower st l (SrcTrees ts) = Some st1 -> forallb (valid_tree st) ts = true ->
  route_ok st st1 (RMove (l_ns (getlist st l)) [] (fresh_trees st (l_ns (getlist st l)) ts)).
Proof.
  intros l ts st1 E V. cbn [extend] in E. injection E as <-. cbn [route_ok]. intros t Ht.
  apply fresh_in in Ht. destruct Ht as [I Ne].
  destruct (append_all_first lower l ts st (Mw _) Rw (forallb_valid st ts V)) as [_ [_ [_ [_ T]]]]. apply T; assumption.
Qed.

Lemma extend_list_core : forall l l2 st1,
  extend lower st l (SrcList l2) = Some st1 ->
  route_ok st st1 (RClone (l_ns (getlist st l)) (l_trees (getlist st l2)) (length (s_trees st))).
Proof.
  intros l l2 st1 E. cbn [extend] in E. destruct (Nat.eqb l2 l); [discriminate|]. injection E as <-. cbn [route_ok].
  destruct (clone_push_all_first lower l (l_trees (getlist st l2)) st Mw (Lw l2)) as [_ [_ [_ [_ T]]]]. exact T.
Qed.

Lemma case_extend : forall l s st1 y r,
  step lower st (Extend l s) = (st1, y) -> succeeded y = true ->
  imports_base st (Extend l s) = Some r -> route_ok st st1 r.
Proof.
  intros l s st1 y r Q S R. cbn [step] in Q. destruct (valid_list st l && valid_src st s) eqn:Vd; [|bad Q S].
  apply andb_prop in Vd. destruct Vd as [Vl Vs].
  destruct (extend lower st l s) as [s1|] eqn:E; [|bad Q S]. injection Q as <- <-.
  destruct s as [l2|ts]; cbn [imports_base] in R; injection R as <-.
  - apply extend_list_core. exact E.
  - apply extend_trees_core; [exact E | exact Vs].
Qed.

Lemma case_iadd : forall l s st1 y r,
  step lower st (IAdd l s) = (st1, y) -> succeeded y = true ->
  imports_base st (IAdd l s) = Some r -> route_ok st st1 r.
Proof. intros l s st1 y r Q S R. apply (case_extend l s st1 y r Q S). destruct s; exact R. Qed.

Lemma case_addop : forall l s st3 y r,
  step lower st (AddOp l s) = (st3, y) -> succeeded y = true ->
  imports_base st (AddOp l s) = Some r -> route_ok st st3 r.
Proof.
  intros l s st3 y r Q S R. cbn [step] in Q. destruct (valid_list st l && valid_src st s) eqn:Vd; [|bad Q S].
  apply andb_prop in Vd. destruct Vd as [Vl Vs]. unfold alloc_list in Q. cbv beta iota zeta in Q.
  set (n := l_ns (getlist st l)) in *. set (nl := length (s_lists st)) in *.
  set (st1 := mkSt (s_lab st) (s_mem st) (s_cs st) (s_nns st) (s_trees st) (s_lists st ++ [mkTL n []]) (s_mats st) (s_dss st)) in *.
  assert (G1 : getlist st1 nl = mkTL n []).
  { unfold getlist, st1, nl. cbn [s_lists]. rewrite app_nth2, Nat.sub_diag by lia. reflexivity. }
  assert (G2 : forall l0, l0 < nl -> getlist st1 l0 = getlist st l0).
  { intros l0 H0. unfold getlist, st1. cbn [s_lists]. apply app_nth1. exact H0. }
  assert (Ll : l < nl) by (apply ltb_lt'; exact Vl).
  assert (Mw1 : mem_wf st1) by exact Mw. assert (Rw1 : refs_wf st1) by exact Rw.
  cbn [extend] in Q. destruct (Nat.eqb l nl) eqn:El; [bad Q S|].
  rewrite (G2 l Ll) in Q.
  pose proof (clone_push_all_full lower nl (l_trees (getlist st l)) st1 Mw1 Rw1 (Lw l)) as P1. cbv zeta in P1.
  rewrite G1 in P1. cbn [l_ns] in P1.
  set (st2 := clone_push_all lower st1 nl (l_trees (getlist st l))) in *.
  destruct P1 as [X2 [Mw2 [Rw2 [Mn2 [In2 [Fr2 [[T [ET LT]] _]]]]]]].
  assert (Gt : forall t, t < length (s_trees st) -> gettree st2 t = gettree st t).
  { intros t Ht. unfold gettree. rewrite ET. apply app_nth1. exact Ht. }
  assert (Lb : forall x, x < length (s_lab st) -> label st2 x = label st x).
  { intros x Hx. apply (label_ext n st1 st2 x X2 Hx). }
  destruct s as [l2|ts]; cbn [imports_base] in R; injection R as <-; cbn [extend] in Q.
  - destruct (Nat.eqb l2 nl) eqn:El2; [bad Q S|]. injection Q as <- <-.
    assert (L2 : l2 < nl) by (apply ltb_lt'; exact Vs).
    assert (E2 : getlist st2 l2 = getlist st l2).
    { rewrite Fr2 by (apply Nat.eqb_neq; exact El2). apply G2, L2. }
    rewrite E2.
    assert (V2 : forall tr, In tr (l_trees (getlist st l2)) -> tr < length (s_trees st2)).
    { intros tr Htr. rewrite ET, app_length. specialize (Lw l2 tr Htr). unfold st1. cbn [s_trees]. lia. }
    pose proof (clone_push_all_full lower nl (l_trees (getlist st l2)) st2 Mw2 Rw2 V2) as P2. cbv zeta in P2.
    rewrite In2 in P2. destruct P2 as [_ [_ [_ [_ [_ [_ [_ Res]]]]]]].
    cbn [route_ok]. intros j Hj Ne. fold n.
    assert (Vj : nth j (l_trees (getlist st l2)) 0 < length (s_trees st)) by (apply (Lw l2), nth_In, Hj).
    assert (EL : length (s_trees st2) = length (s_trees st) + length (l_trees (getlist st l))).
    { rewrite ET, app_length, LT. reflexivity. }
    rewrite <- EL. eapply clone_resolved_pre; [apply Gt, Vj | | |apply Res; [exact Hj | rewrite <- (Gt _ Vj) in Ne; exact Ne]].
    + intros a b K. apply Mn2. exact K.
    + intros x Hx. apply Lb. apply (Mw _ x Hx).
  - injection Q as <- <-. cbn [route_ok]. fold n. intros t Ht. apply fresh_in in Ht. destruct Ht as [I Ne].
    assert (Vt : t < length (s_trees st)) by (apply (forallb_valid st ts Vs), I).
    assert (V2 : forall tr, In tr ts -> tr < length (s_trees st2)).
    { intros tr Htr. rewrite ET, app_length. pose proof (forallb_valid st ts Vs tr Htr). unfold st1. cbn [s_trees]. lia. }
    pose proof (append_all_first lower nl ts st2 (Mw2 _) Rw2 V2) as P2. cbv zeta in P2. rewrite In2 in P2.
    destruct P2 as [_ [_ [_ [_ Res]]]].
    eapply tree_resolved_pre; [apply Gt, Vt | |apply Res; [exact I | rewrite <- (Gt _ Vt) in Ne; exact Ne]].
    intros x Hx. apply Lb. apply (Rw t x Hx).
Qed.

Lemma case_setslice : forall l a b s st1 y r,
  step lower st (SetSlice l a b s) = (st1, y) -> succeeded y = true ->
  imports_base st (SetSlice l a b s) = Some r -> route_ok st st1 r.
Proof.
  intros l a b s st1 y r Q S R. cbn [step] in Q. destruct (valid_list st l && valid_src st s) eqn:Vd; [|bad Q S].
  apply andb_prop in Vd. destruct Vd as [Vl Vs]. cbv zeta in Q.
  destruct s as [l2|ts]; cbn [imports_base] in R; injection R as <-.
  - destruct (clone_all lower st (l_ns (getlist st l)) (l_trees (getlist st l2)) []) as [s1 v] eqn:C.
    destruct (slice_bounds (length (l_trees (getlist s1 l))) a b) as [lo hi]. injection Q as <- <-.
    pose proof (clone_all_first lower (l_ns (getlist st l)) (l_trees (getlist st l2)) st [] Mw (Lw l2)) as K. cbv zeta in K.
    rewrite C in K. cbn [fst] in K. destruct K as [_ [_ T]]. cbn [route_ok]. intros j Hj Ne.
    eapply clone_resolved_same; [| | | |apply T; assumption]; reflexivity.
  - destruct (slice_bounds (length (l_trees (getlist (import_all lower st (l_ns (getlist st l)) ts) l))) a b) as [lo hi].
    injection Q as <- <-. cbn [route_ok]. intros t Ht. apply fresh_in in Ht. destruct Ht as [I Ne].
    destruct (import_all_first lower (l_ns (getlist st l)) ts st (Mw _) Rw (forallb_valid st ts Vs)) as [_ [_ [_ [_ T]]]].
    eapply tree_resolved_same; [| | | |apply T; assumption]; reflexivity.
Qed.

Lemma import_first_base : forall b st1 y r,
  step lower st b = (st1, y) -> succeeded y = true -> imports_base st b = Some r -> route_ok st st1 r.
Proof.
  intros b st1 y r Q S R. destruct b; try (cbn [imports_base] in R; discriminate R).
  - destruct s as [[|]| |]; cbn [imports_base] in R; try discriminate R. injection R as <-. eapply case_append; eassumption.
  - destruct s as [[|]| |]; cbn [imports_base] in R; try discriminate R. injection R as <-. eapply case_insert; eassumption.
  - eapply case_extend; eassumption.
  - eapply case_iadd; eassumption.
  - eapply case_addop; eassumption.
  - cbn [imports_base] in R. injection R as <-. eapply case_setitem; eassumption.
  - eapply case_setslice; eassumption.
  - destruct unify; cbn [imports_base] in R; try discriminate R. injection R as <-. eapply case_migrate_list; eassumption.
  - destruct unify; cbn [imports_base] in R; try discriminate R. injection R as <-. eapply case_reconstruct_list; eassumption.
  - destruct unify; cbn [imports_base] in R; try discriminate R. injection R as <-. eapply case_migrate_tree; eassumption.
  - destruct unify; cbn [imports_base] in R; try discriminate R. injection R as <-. eapply case_reconstruct_tree; eassumption.
  - destruct unify; cbn [imports_base] in R; try discriminate R. injection R as <-. eapply case_migrate_mat; eassumption.
  - destruct unify; cbn [imports_base] in R; try discriminate R. injection R as <-. eapply case_reconstruct_mat; eassumption.
Qed.

End Base.
Lemma import_first7 : forall x o x' y r,
  step7 lower x o = (x', y) -> succeeded y = true -> taxa_wf x -> imports7 x o = Some r ->
  route_ok (x_st x) (x_st x') r.
Proof.
  intros x o x' y r H S [Mw [Rw [Lw [Tw Mk]]]] R. destruct o; cbn [imports7] in R; try discriminate R.
  - cbn [step7] in H. destruct (step lower (x_st x) o) as [st1 r0] eqn:Q. injection H as <- <-. cbn [x_st with_st].
    eapply import_first_base; eassumption.
  - destruct s as [[|]| |]; try discriminate R. injection R as <-. cbn [step7] in H.
    destruct (valid_list (x_st x) l && valid_tree (x_st x) t && valid_memo x k) eqn:Vd; [|bad H S].
    apply andb_prop in Vd. destruct Vd as [Vd Vk]. apply andb_prop in Vd. destruct Vd as [Vl Vt].
    destruct (import_tree_m lower (x_st x) (l_ns (getlist (x_st x) l)) t (SMigrate true) (getmemo x k)) as [[s1 ok] mm] eqn:Im.
    cbn [route_ok]. intros t0 Ht. apply fresh_single in Ht. destruct Ht as [-> Ne].
    destruct (import_tree_m_first lower _ _ _ _ _ _ _ Im Ne (ltb_lt' _ _ Vt) (Mw _) (Mk k) (Rw t)) as [-> T].
    injection H as <- <-. cbn [x_st with_memo]. eapply tree_resolved_same; [| | | |exact T]; reflexivity.
  - destruct s as [[|]| |]; try discriminate R. injection R as <-. cbn [step7] in H.
    destruct (valid_list (x_st x) l && valid_tree (x_st x) t && valid_memo x k) eqn:Vd; [|bad H S].
    apply andb_prop in Vd. destruct Vd as [Vd Vk]. apply andb_prop in Vd. destruct Vd as [Vl Vt].
    destruct (import_tree_m lower (x_st x) (l_ns (getlist (x_st x) l)) t (SMigrate true) (getmemo x k)) as [[s1 ok] mm] eqn:Im.
    cbn [route_ok]. intros t0 Ht. apply fresh_single in Ht. destruct Ht as [-> Ne].
    destruct (import_tree_m_first lower _ _ _ _ _ _ _ Im Ne (ltb_lt' _ _ Vt) (Mw _) (Mk k) (Rw t)) as [-> T].
    injection H as <- <-. cbn [x_st with_memo]. eapply tree_resolved_same; [| | | |exact T]; reflexivity.
  - destruct u; try discriminate R. injection R as <-. cbn [step7] in H.
    destruct (valid_tree (x_st x) t && valid_ns (x_st x) n && valid_memo x k) eqn:Vd; [|bad H S].
    apply andb_prop in Vd. destruct Vd as [Vd Vk]. apply andb_prop in Vd. destruct Vd as [Vt Vn].
    destruct (migrate_tree lower (x_st x) t n true (getmemo x k)) as [s1 mm] eqn:M. injection H as <- <-.
    cbn [route_ok x_st with_memo]. intros t0 [<-|[]]. eapply move_one; try eassumption. apply Mk.
  - destruct u; try discriminate R. injection R as <-. cbn [step7] in H.
    destruct (valid_tree (x_st x) t && valid_memo x k) eqn:Vd; [|bad H S].
    apply andb_prop in Vd. destruct Vd as [Vt Vk].
    destruct (migrate_tree lower (x_st x) t (t_ns (gettree (x_st x) t)) true (getmemo x k)) as [s1 mm] eqn:M. injection H as <- <-.
    cbn [route_ok x_st with_memo]. intros t0 [<-|[]]. eapply move_one; try eassumption. apply Mk.
  - destruct u; try discriminate R. injection R as <-. cbn [step7] in H.
    destruct (valid_list (x_st x) l && valid_ns (x_st x) n && valid_memo x k) eqn:Vd; [|bad H S].
    apply andb_prop in Vd. destruct Vd as [Vd Vk]. apply andb_prop in Vd. destruct Vd as [Vl Vn].
    destruct (migrate_list lower (x_st x) l n true (getmemo x k)) as [s1 mm] eqn:M. injection H as <- <-.
    cbn [route_ok x_st with_memo]. intros t0 Ht. eapply migrate_list_core; try eassumption. apply Mk.
  - destruct u; try discriminate R. injection R as <-. cbn [step7] in H.
    destruct (valid_list (x_st x) l && valid_memo x k) eqn:Vd; [|bad H S].
    apply andb_prop in Vd. destruct Vd as [Vl Vk].
    destruct (reconstruct_list lower (x_st x) l true (getmemo x k)) as [s1 mm] eqn:M. injection H as <- <-.
    cbn [route_ok x_st with_memo]. intros t0 Ht. unfold reconstruct_list in M. eapply move_list; try eassumption. apply Mk.
  - destruct u; try discriminate R. injection R as <-. cbn [step7] in H.
    destruct (valid_mat (x_st x) m && valid_ns (x_st x) n && valid_memo x k) eqn:Vd; [|bad H S].
    apply andb_prop in Vd. destruct Vd as [Vd Vk]. apply andb_prop in Vd. destruct Vd as [Vm Vn].
    destruct (migrate_mat lower (x_st x) m n true (getmemo x k)) as [[s1 mm] ok] eqn:M. injection H as <- <-.
    cbn [route_ok x_st with_memo]. eapply mat_core; try eassumption. apply Mk.
  - destruct u; try discriminate R. injection R as <-. cbn [step7] in H.
    destruct (valid_mat (x_st x) m && valid_memo x k) eqn:Vd; [|bad H S].
    apply andb_prop in Vd. destruct Vd as [Vm Vk].
    destruct (migrate_mat lower (x_st x) m (m_ns (getmat (x_st x) m)) true (getmemo x k)) as [[s1 mm] ok] eqn:M. injection H as <- <-.
    cbn [route_ok x_st with_memo]. eapply mat_core; try eassumption. apply Mk.
Qed.

(* the call with the unknown keyword, when it succeeds, is the plain call *)
Lemma badkw_success : forall x o x' y,
  step8 lower x (BadKw o) = (x', y) -> succeeded y = true -> step7 lower x o = (x', y).
Proof.
  intros x o x' y H S. destruct (step8_badkw_cases lower x o) as [E|[_ [E|E]]].
  - rewrite <- E. exact H.
  - rewrite H in E. cbn [snd] in E. subst y. discriminate S.
  - rewrite H in E. cbn [snd] in E. subst y. discriminate S.
Qed.

Theorem import_resolves_first_match_step8_l : forall x o x' y r,
  step8 lower x o = (x', y) -> succeeded y = true -> taxa_wf x -> imports8 x o = Some r ->
  route_ok (x_st x) (x_st x') r.
Proof.
  intros x o x' y r H S W R. destruct o as [o|o]; cbn [imports8] in R.
  - cbn [step8] in H. eapply import_first7; eassumption.
  - apply badkw_success in H; [|exact S]. eapply import_first7; eassumption.
Qed.

End WithLower.

Section Corollaries.
Variable lower : lbl -> lbl.

(* equal labels (under the destination's case rule) of one imported item end on ONE taxon object *)
Lemma resolved_equal_labels_one_taxon : forall st st' n m0 s d,
  tree_resolved lower st st' n m0 s d ->
  forall i j, i < length (t_refs (gettree st s)) -> j < length (t_refs (gettree st s)) ->
    alookup (nth i (t_refs (gettree st s)) 0) m0 = None -> alookup (nth j (t_refs (gettree st s)) 0) m0 = None ->
    key lower (ns_cs st' n) (label st (nth i (t_refs (gettree st s)) 0))
    = key lower (ns_cs st' n) (label st (nth j (t_refs (gettree st s)) 0)) ->
    nth i (t_refs (gettree st' d)) 0 = nth j (t_refs (gettree st' d)) 0.
Proof.
  intros st st' n m0 s d [_ [_ H]] i j Hi Hj Ai Aj K.
  pose proof (H i Hi Ai) as Fi. pose proof (H j Hj Aj) as Fj.
  rewrite (first_match_key lower st' n _ _ _ K) in Fi. rewrite Fi in Fj. injection Fj as Fj. exact Fj.
Qed.

Theorem import_equal_labels_one_taxon_step8_l : forall x o x' y n m0 trs,
  step8 lower x o = (x', y) -> succeeded y = true -> taxa_wf x -> imports8 x o = Some (RMove n m0 trs) ->
  forall tr, In tr trs ->
  let refs := t_refs (gettree (x_st x) tr) in
  let refs' := t_refs (gettree (x_st x') tr) in
  forall i j, i < length refs -> j < length refs ->
    alookup (nth i refs 0) m0 = None -> alookup (nth j refs 0) m0 = None ->
    key lower (ns_cs (x_st x') n) (label (x_st x) (nth i refs 0)) = key lower (ns_cs (x_st x') n) (label (x_st x) (nth j refs 0)) ->
    nth i refs' 0 = nth j refs' 0.
Proof.
  intros x o x' y n m0 trs H S W R tr Htr. cbv zeta.
  pose proof (import_resolves_first_match_step8_l lower x o x' y _ H S W R) as K. cbn [route_ok] in K.
  apply (resolved_equal_labels_one_taxon _ _ _ _ _ _ (K tr Htr)).
Qed.

End Corollaries.

(* ---- taxa_wf as a boolean ---- *)
Definition ltb_all (len : nat) (l : list oid) : bool := forallb (fun y => Nat.ltb y len) l.
Fixpoint nodupb (l : list nat) : bool :=
  match l with [] => true | y :: r => negb (memb y r) && nodupb r end.
Definition taxa_wfb (x : xstate) : bool :=
  let st := x_st x in
  let len := length (s_lab st) in
  forallb (fun p => ltb_all len (snd p)) (s_mem st)
  && forallb (fun t => ltb_all len (t_refs t)) (s_trees st)
  && forallb (fun L => ltb_all (length (s_trees st)) (l_trees L)) (s_lists st)
  && forallb (fun M => nodupb (m_rows M) && ltb_all len (m_rows M)) (s_mats st)
  && forallb (fun mm => forallb (fun p => Nat.ltb (snd p) len) mm) (x_memos x).

Lemma alookup_In : forall V k (l : list (nat * V)) v, alookup k l = Some v -> In (k, v) l.
Proof.
  intros V k l v. induction l as [|[k' v'] r IH]; cbn [alookup]; [discriminate|].
  destruct (Nat.eqb k k') eqn:E.
  - intro H. injection H as <-. apply Nat.eqb_eq in E. subst. left. reflexivity.
  - intro H. right. apply IH, H.
Qed.

Lemma ltb_all_In : forall len l y, ltb_all len l = true -> In y l -> y < len.
Proof. intros len l y H I. apply ltb_lt'. apply (forallb_In _ (fun y => Nat.ltb y len) l y H I). Qed.

Lemma nodupb_sound : forall l, nodupb l = true -> NoDup l.
Proof.
  induction l as [|y r IH]; intro H; [constructor|]. cbn [nodupb] in H. apply andb_prop in H. destruct H as [H1 H2].
  constructor; [|apply IH, H2]. apply negb_true_iff in H1. apply memb_false in H1. exact H1.
Qed.

Lemma taxa_wfb_sound : forall x, taxa_wfb x = true -> taxa_wf x.
Proof.
  intros x H. unfold taxa_wfb in H. cbv zeta in H.
  apply andb_prop in H. destruct H as [H H5]. apply andb_prop in H. destruct H as [H H4].
  apply andb_prop in H. destruct H as [H H3]. apply andb_prop in H. destruct H as [H1 H2].
  split; [|split; [|split; [|split]]].
  - intros n y Hy. unfold members in Hy. destruct (alookup n (s_mem (x_st x))) as [l|] eqn:A; [|destruct Hy].
    apply alookup_In in A. pose proof (forallb_In _ _ _ _ H1 A) as K. cbn [snd] in K. eapply ltb_all_In; eassumption.
  - intros j y Hy. unfold gettree in Hy. destruct (nth_in_or_default j (s_trees (x_st x)) dtree) as [I|E].
    + pose proof (forallb_In _ _ _ _ H2 I) as K. cbv beta in K. eapply ltb_all_In; eassumption.
    + rewrite E in Hy. destruct Hy.
  - intros l y Hy. unfold getlist in Hy. destruct (nth_in_or_default l (s_lists (x_st x)) dlist) as [I|E].
    + pose proof (forallb_In _ _ _ _ H3 I) as K. cbv beta in K. eapply ltb_all_In; eassumption.
    + rewrite E in Hy. destruct Hy.
  - intro m. unfold getmat. destruct (nth_in_or_default m (s_mats (x_st x)) dmat) as [I|E].
    + pose proof (forallb_In _ _ _ _ H4 I) as K. cbv beta in K. apply andb_prop in K. destruct K as [K1 K2].
      split; [apply nodupb_sound, K1 | intros y Hy; eapply ltb_all_In; eassumption].
    + rewrite E. split; [constructor | intros y []].
  - intros k a t A. unfold getmemo in A. destruct (nth_in_or_default k (x_memos x) []) as [I|E].
    + pose proof (forallb_In _ _ _ _ H5 I) as K. cbv beta in K. apply alookup_In in A.
      pose proof (forallb_In _ _ _ _ K A) as K2. cbn [snd] in K2. apply ltb_lt', K2.
    + rewrite E in A. discriminate.
Qed.
