(* C02 (NeXML, element level): statements for Props/C02.v, examples. *)
From Coq Require Import ZArith List Bool Lia Arith.
From DV Require Import Model.PyPrims Gen.CharClasses Model.Tokenizer Model.Newick Model.C02Nexml Proofs.C02Parse Proofs.C02Nexml.
Import ListNotations.

Lemma index_of_label_nth l : forall ns off i, index_of_label l ns off = Some i -> nth_error ns (i - off)%nat = Some l.
Proof.
  induction ns as [|x ns IH]; intros off i H; simpl in H; [discriminate|].
  destruct (str_eqb x l) eqn:E.
  - inversion H; subst. rewrite Nat.sub_diag. apply str_eqb_eq in E. subst. reflexivity.
  - pose proof (index_of_label_lt l ns (S off) i H) as B. specialize (IH _ _ H).
    replace (i - off)%nat with (S (i - S off)) by lia. exact IH.
Qed.

(* the taxon number of a node names its label *)
Lemma idx_names_label ns l : (exists i, index_of_label l ns 0 = Some i) -> nth_error ns (idx ns l) = Some l.
Proof. intros [i E]. unfold idx. rewrite E. pose proof (index_of_label_nth l ns 0 i E) as H. rewrite Nat.sub_0_r in H. exact H. Qed.

Lemma nexml_trees_roundtrip_partial_l : forall (L : Type) (ns : list str) (ts : list (option bool * ntree L)),
  ns <> [] -> forallb (fun rt => tin L ns (snd rt)) ts = true ->
  exists d, write_nexml L ns ts = Some d /\
    read_nexml L d
    = XOk (map (fun l => truthy_label (Some l)) ns,
           map (fun rt => mkPR (Some (match fst rt with Some true => true | _ => false end)) []
                               (xexpect L ns (snd rt))) ts).
Proof. exact nexml_roundtrip_elements. Qed.

(* non-vacuity *)
Open Scope Z_scope.
Definition xex_ns : list str := [[97]; [98; 32; 99]; [50]].
Definition xex_trees : list (option bool * ntree str) :=
  [(Some true, Nd None (Some [114]) None [Nd (Some [97]) (Some [120]) (Some [49; 46; 53]) []; Nd None None (Some [50]) [Nd (Some [50]) None None []; Nd (Some [98; 32; 99]) None None []]]);
   (None, Nd (Some [97]) None None [])].

Example xex_ok :
  forallb (fun rt => tin str xex_ns (snd rt)) xex_trees = true /\
  option_map (read_nexml str) (write_nexml str xex_ns xex_trees)
  = Some (XOk (map (fun l => truthy_label (Some l)) xex_ns,
               map (fun rt => mkPR (Some (match fst rt with Some true => true | _ => false end)) [] (xexpect str xex_ns (snd rt))) xex_trees)).
Proof. vm_compute. split; reflexivity. Qed.

(* known finding nexml-empty-namespace on the model: an empty <otus> is rejected *)
Lemma nexml_empty_namespace :
  option_map (read_nexml str) (write_nexml str [] [(None, Nd None None (Some [49]) [])]) = Some (XErr OtherErr).
Proof. vm_compute. reflexivity. Qed.
