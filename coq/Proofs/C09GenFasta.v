(* C09: the FASTA writer and reader generated from the source (Gen/CharIO.v) equal the hand model *)
From Coq Require Import ZArith List Bool Lia.
From DV Require Import Model.PyPrims Model.C09AlphaTypes Model.C09Model Model.C09Prims Gen.CharIO
  Proofs.C09Text.
Import ListNotations.
Open Scope Z_scope.

Ltac norm_app := repeat (rewrite <- ?app_assoc; cbn [app]; try reflexivity; progress (rewrite <- ?app_assoc)); cbn [app]; try reflexivity.

(* ---- writer ---- *)

Lemma wrap_loop : forall a width seq col stream,
  snd (for_each seq (fun c '(col_count, stream) =>
    let '(stream, col_count) := (if (col_count =? width) then
        let stream := stream ++ [10] in let col_count := (0) in (stream, col_count)
      else (stream, col_count)) in
    let stream := stream ++ (py_str_state a c) in
    let col_count := (col_count + (1)) in
    (col_count, stream)) (col, stream))
  = stream ++ fasta_wrap width col (map (state_str a) seq).
Proof.
  intros a width seq. unfold for_each.
  induction seq as [|c seq IH]; intros col stream.
  - simpl. rewrite List.app_nil_r. reflexivity.
  - cbn [fold_left map fasta_wrap]. destruct (col =? width) eqn:E.
    + rewrite IH. unfold py_str_state. rewrite <- !app_assoc. reflexivity.
    + rewrite IH. unfold py_str_state. rewrite <- !app_assoc. reflexivity.
Qed.

Lemma join_empty_concat : forall l : list text, py_join [] l = concat l.
Proof.
  unfold py_join. induction l as [|x l IH]; [reflexivity|].
  destruct l as [|y l']; simpl in *; [rewrite List.app_nil_r; reflexivity | rewrite IH; reflexivity].
Qed.

Theorem gen_fasta_writer_eq : forall a wrap width stream (m : matrix),
  FastaWriter_write_char_matrix a wrap width stream (wm_of m) = stream ++ write_fasta a wrap width m.
Proof.
  intros a wrap width stream m. unfold FastaWriter_write_char_matrix, write_fasta, for_each, wm_of, wt_label, wm_getitem.
  generalize 0%nat as k. revert stream. induction m as [|[l s] m IH]; intros stream k.
  - simpl. rewrite List.app_nil_r. reflexivity.
  - cbn [length seq combine fold_left map concat]. rewrite IH. clear IH. unfold fasta_row. cbn [fst snd].
    destruct wrap.
    + pose proof (wrap_loop a width s 0 (stream ++ [62] ++ l ++ [10])) as W. unfold for_each in W.
      match goal with |- context [let '(_, _) := ?X in _] =>
        assert (EW : snd X = (stream ++ [62] ++ l ++ [10]) ++ fasta_wrap width 0 (map (state_str a) s)) by exact W;
        destruct X as [cc st] end.
      cbn [snd] in EW. subst st. norm_app.
    + rewrite join_empty_concat. unfold py_str_state. norm_app.
Qed.

(* ---- reader ---- *)

Lemma combine_app_eq' : forall (A B : Type) (l1 l1' : list A) (l2 l2' : list B), length l1 = length l2 ->
  combine (l1 ++ l1') (l2 ++ l2') = combine l1 l2 ++ combine l1' l2'.
Proof.
  induction l1 as [|x l1 IH]; intros l1' l2 l2' H; destruct l2 as [|y l2]; simpl in *; try discriminate; [reflexivity|].
  rewrite IH by lia. reflexivity.
Qed.

Section Reader.
Variable lower : text -> text.
Variable a : alphabet.

(* the reader's objects as functions of the rows read so far *)
Definition w_ns (rows : matrix) : tns := map fst rows.
Definition w_cm (rows : matrix) : cmat Z := combine (seq 0 (length rows)) (map snd rows).
Definition w_cv (rows : matrix) : option taxon := match rows with [] => None | _ => Some (length rows - 1)%nat end.

Lemma strip_char : forall c, py_strip [c] = if is_space c then [] else [c].
Proof. intro c. unfold py_strip, strip. simpl. destruct (is_space c) eqn:E; simpl; [reflexivity | rewrite E; reflexivity]. Qed.

Lemma states_loop : forall s acc,
  for_each_res (py_chars s) (fun c states =>
    let c := (py_strip c) in
    if (py_is_empty c) then Ok states
    else match py_symbol_lookup a c with
         | Ok state => let states := states ++ [state] in Ok states
         | Err KeyErr => Err ParseErr
         | Err e_ => Err e_
         | OutOfFuel => OutOfFuel
         end) acc
  = do x <- fasta_states a s ;; Ok (acc ++ x).
Proof.
  induction s as [|c s IH]; intro acc; simpl.
  - rewrite List.app_nil_r. reflexivity.
  - rewrite strip_char. destruct (is_space c) eqn:E; simpl.
    + apply IH.
    + unfold py_symbol_lookup, state_of_symbol. destruct (tlookup [c] (a_fullmap a)) as [i|]; simpl; [|reflexivity].
      rewrite IH. destruct (fasta_states a s); simpl; [rewrite <- app_assoc; reflexivity | reflexivity | reflexivity].
Qed.

Lemma tns_find_none : forall name (ns : list text) i,
  existsb (fun l => text_eqb (lower name) (lower l)) ns = false -> tns_find lower name ns i = None.
Proof.
  induction ns as [|l ns IH]; intros i H; simpl in *; [reflexivity|].
  apply orb_false_iff in H. destruct H as [H1 H2]. rewrite H1. apply IH. exact H2.
Qed.

Lemma tns_find_some : forall name (ns : list text) i,
  existsb (fun l => text_eqb (lower name) (lower l)) ns = true ->
  exists t, tns_find lower name ns i = Some t /\ (i <= t < i + length ns)%nat.
Proof.
  induction ns as [|l ns IH]; intros i H; simpl in *; [discriminate|].
  destruct (text_eqb (lower name) (lower l)) eqn:E.
  - exists i. split; [reflexivity | lia].
  - simpl in H. destruct (IH (S i) H) as [t [A B]]. exists t. split; [exact A | lia].
Qed.

Lemma cm_get_numbered_out : forall (vs : list (list Z)) k t, (t < k \/ k + length vs <= t)%nat ->
  cm_get (combine (seq k (length vs)) vs) t = None.
Proof.
  induction vs as [|v vs IH]; intros k t H; simpl; [reflexivity|].
  destruct (Nat.eqb_spec t k); [simpl in H; lia|]. apply IH. simpl in H. lia.
Qed.

Lemma cm_get_numbered_in : forall (vs : list (list Z)) k t, (k <= t < k + length vs)%nat ->
  cm_get (combine (seq k (length vs)) vs) t = nth_error vs (t - k).
Proof.
  induction vs as [|v vs IH]; intros k t H; simpl in *; [lia|].
  destruct (Nat.eqb_spec t k).
  - subst. rewrite Nat.sub_diag. reflexivity.
  - rewrite IH by lia. replace (t - k)%nat with (S (t - S k)) by lia. reflexivity.
Qed.

Lemma cm_set_numbered_new : forall (vs : list (list Z)) k v,
  cm_set (combine (seq k (length vs)) vs) (k + length vs)%nat v = combine (seq k (length vs)) vs ++ [((k + length vs)%nat, v)].
Proof.
  induction vs as [|w vs IH]; intros k v; simpl.
  - rewrite Nat.add_0_r. reflexivity.
  - destruct (Nat.eqb_spec (k + S (length vs)) k); [lia|].
    replace (k + S (length vs))%nat with (S k + length vs)%nat by lia. rewrite IH. reflexivity.
Qed.

Lemma w_cm_snoc : forall rows r, w_cm (rows ++ [r]) = w_cm rows ++ [(length rows, snd r)].
Proof.
  intros. unfold w_cm. rewrite app_length. simpl. rewrite seq_app. rewrite map_app. simpl.
  rewrite combine_app_eq'; [reflexivity|]. rewrite seq_length, map_length. reflexivity.
Qed.
End Reader.

Lemma cm_get_snoc_new : forall (m : cmat Z) k v, cm_get m k = None -> cm_get (m ++ [(k, v)]) k = Some v.
Proof.
  induction m as [|[j w] m IH]; intros k v H; simpl in *; [rewrite Nat.eqb_refl; reflexivity|].
  destruct (Nat.eqb k j); [discriminate | apply IH; exact H].
Qed.

Lemma cm_set_snoc : forall (m : cmat Z) k v v', cm_get m k = None -> cm_set (m ++ [(k, v)]) k v' = m ++ [(k, v')].
Proof.
  induction m as [|[j w] m IH]; intros k v v' H; simpl in *; [rewrite Nat.eqb_refl; reflexivity|].
  destruct (Nat.eqb k j); [discriminate | rewrite IH by exact H; reflexivity].
Qed.

Lemma cm_set_new : forall (m : cmat Z) k v, cm_get m k = None -> cm_set m k v = m ++ [(k, v)].
Proof.
  induction m as [|[j w] m IH]; intros k v H; simpl in *; [reflexivity|].
  destruct (Nat.eqb k j); [discriminate | rewrite IH by exact H; reflexivity].
Qed.

Lemma w_cm_get_out : forall rows t, (length rows <= t)%nat -> cm_get (w_cm rows) t = None.
Proof.
  intros. unfold w_cm. rewrite <- (map_length snd rows). apply cm_get_numbered_out. rewrite map_length. lia.
Qed.

Lemma w_cm_get_in : forall rows t, (t < length rows)%nat -> exists v, cm_get (w_cm rows) t = Some v.
Proof.
  intros rows t H. unfold w_cm. rewrite <- (map_length snd rows). rewrite cm_get_numbered_in by (rewrite map_length; lia).
  rewrite Nat.sub_0_r. destruct (nth_error (map snd rows) t) eqn:E; [eexists; reflexivity|].
  apply nth_error_None in E. rewrite map_length in E. lia.
Qed.

Lemma rev_cons_eq : forall (A : Type) (x : A) l, rev (x :: l) = rev l ++ [x].
Proof. reflexivity. Qed.

Lemma w_cv_snoc : forall rows x, w_cv (rows ++ [x]) = Some (length rows).
Proof.
  intros. unfold w_cv. destruct (rows ++ [x]) eqn:E; [destruct rows; discriminate|].
  rewrite <- E. rewrite app_length. simpl. f_equal. lia.
Qed.

Lemma to_matrix_w : forall rows, to_matrix (w_ns rows, w_cm rows) = rows.
Proof.
  intro rows. unfold to_matrix, w_ns, w_cm, tns_label. cbn [fst snd].
  assert (G : forall pre (rs : matrix),
    map (fun p : nat * list Z => (nth (fst p) (pre ++ map fst rs) [], snd p))
        (combine (seq (length pre) (length rs)) (map snd rs)) = rs).
  { intros pre rs. revert pre. induction rs as [|[l s] rs IH]; intro pre; simpl; [reflexivity|].
    rewrite (app_nth2 pre (l :: map fst rs) [] (le_n (length pre))). rewrite Nat.sub_diag. simpl. f_equal.
    specialize (IH (pre ++ [l])). rewrite app_length in IH. simpl in IH.
    rewrite Nat.add_1_r in IH. rewrite <- app_assoc in IH. simpl in IH. exact IH. }
  exact (G [] rows).
Qed.

Section ReaderEq.
Variable lower : text -> text.
Variable a : alphabet.

Definition rel (r : res (option taxon * option taxon * tns * cmat Z)) (h : res matrix) : Prop :=
  match r, h with
  | Ok (_, cv, ns, cm), Ok st => cv = w_cv (rev st) /\ ns = w_ns (rev st) /\ cm = w_cm (rev st)
  | Err e1, Err e2 => e1 = e2
  | OutOfFuel, OutOfFuel => True
  | _, _ => False
  end.

Lemma existsb_rev : forall (A : Type) (f : A -> bool) l, existsb f (rev l) = existsb f l.
Proof.
  intros A f l. induction l as [|x l IH]; [reflexivity|]. simpl. rewrite existsb_app. simpl. rewrite IH.
  rewrite orb_false_r. apply orb_comm.
Qed.

Theorem gen_fasta_reader_eq : forall lines,
  match FastaReader_read lower a lines with
  | Ok w => Ok (to_matrix w)
  | Err e => Err e
  | OutOfFuel => OutOfFuel
  end
  = do st <- fasta_lines lower a [] lines ;; Ok (rev st).
Proof.
  intro lines. unfold FastaReader_read.
  match goal with |- context [for_each_res lines ?B _] => set (body := B) end.
  (* one iteration of the generated loop against one step of the model *)
  assert (Step : forall st ct line,
            rel (body line (ct, w_cv (rev st), w_ns (rev st), w_cm (rev st))) (fasta_step lower a st line)).
  { intros st ct line. unfold body, fasta_step, py_strip. 
    destruct (strip line) as [|c r] eqn:Es.
    - cbn [py_is_empty rel]. repeat split.
    - cbn [py_is_empty]. unfold py_startswith. cbn [length firstn]. unfold text_eqb at 1. cbn [list_eqb]. rewrite andb_true_r.
      destruct (c =? 62) eqn:Ec.
      + (* header line *)
        unfold py_slice_from. change (Z.to_nat 1) with 1%nat. cbn [skipn].
        set (name := strip r).
        assert (Eex : existsb (fun row : text * list Z => same_taxon lower name (fst row)) st
                      = existsb (fun l => text_eqb (lower name) (lower l)) (w_ns (rev st))).
        { unfold w_ns. rewrite map_rev. rewrite existsb_rev. clear. induction st as [|x st IH]; [reflexivity|].
          simpl. rewrite IH. reflexivity. }
        rewrite Eex. unfold tns_require_taxon.
        destruct (existsb (fun l => text_eqb (lower name) (lower l)) (w_ns (rev st))) eqn:Ex.
        * destruct (tns_find_some lower name (w_ns (rev st)) O Ex) as [t [Ft Rt]]. rewrite Ft.
          unfold w_ns in Rt. rewrite map_length in Rt.
          destruct (w_cm_get_in (rev st) t) as [v Gv]; [lia|].
          unfold cm_contains. rewrite Gv. cbn [bind rel]. reflexivity.
        * rewrite (tns_find_none lower name _ O Ex).
          assert (Ln : length (w_ns (rev st)) = length (rev st)) by (unfold w_ns; apply map_length).
          rewrite Ln.
          unfold cm_contains. rewrite (w_cm_get_out (rev st) (length (rev st))) by lia.
          destruct st as [|[l v] st0].
          -- cbn [rev w_cv length]. cbn [bind]. unfold cm_getitem. cbn [w_cm length seq map combine cm_get cm_set].
             cbn [rel rev app]. repeat split.
          -- cbn [rev]. rewrite w_cv_snoc. rewrite w_cm_snoc. cbn [snd].
             unfold cm_len_of. rewrite (cm_get_snoc_new _ _ _ (w_cm_get_out (rev st0) _ (le_n _))).
             destruct v as [|z v].
             ++ cbn [len length Z.of_nat Z.eqb bind rel]. reflexivity.
             ++ replace (len (z :: v) =? 0) with false by (unfold len; simpl; lia).
                cbn [bind]. unfold cm_getitem.
                assert (Gn : cm_get (w_cm (rev st0) ++ [(length (rev st0), z :: v)]) (length (rev st0 ++ [(l, z :: v)])) = None).
                { pose proof (w_cm_snoc (rev st0) (l, z :: v)) as X. cbn [snd] in X. rewrite <- X. apply w_cm_get_out. lia. }
                rewrite Gn. rewrite (cm_set_new _ _ _ Gn).
                cbn [rel].
                repeat split; rewrite !rev_cons_eq.
                ** rewrite w_cv_snoc. reflexivity.
                ** unfold w_ns. rewrite !map_app. reflexivity.
                ** rewrite (w_cm_snoc (rev st0 ++ [(l, z :: v)]) (name, [])). rewrite w_cm_snoc. cbn [snd]. reflexivity.
      + (* sequence line *)
        destruct st as [|[l v] st0].
        * cbn [rev w_cv rel]. reflexivity.
        * cbn [rev]. rewrite w_cv_snoc. rewrite states_loop. cbn [app].
          destruct (fasta_states a (c :: r)) as [x0| |]; cbn [bind rel]; [|reflexivity|exact I].
          repeat split; rewrite !rev_cons_eq.
          -- rewrite w_cv_snoc. reflexivity.
          -- unfold w_ns. rewrite !map_app. reflexivity.
          -- rewrite !w_cm_snoc. cbn [snd]. unfold cm_extend, cm_getitem.
             rewrite (cm_get_snoc_new _ _ _ (w_cm_get_out (rev st0) _ (le_n _))).
             apply cm_set_snoc. apply w_cm_get_out. lia. }
  (* the loop *)
  assert (Loop : forall ls st ct,
            rel (for_each_res ls body (ct, w_cv (rev st), w_ns (rev st), w_cm (rev st))) (fasta_lines lower a st ls)).
  { induction ls as [|line ls IH]; intros st ct.
    - cbn [for_each_res fasta_lines rel]. repeat split.
    - cbn [for_each_res fasta_lines]. specialize (Step st ct line).
      destruct (body line (ct, w_cv (rev st), w_ns (rev st), w_cm (rev st))) as [[[[ct' cv'] ns'] cm']| |];
        destruct (fasta_step lower a st line) as [st'| |]; cbn [rel] in Step; try contradiction; cbn [bind].
      + destruct Step as [A [B C0]]. subst. apply IH.
      + subst. cbn [rel]. reflexivity.
      + exact I. }
  specialize (Loop lines [] None).
  change (w_cv (rev [])) with (@None taxon) in Loop. change (w_ns (rev [])) with (@nil text) in Loop.
  change (w_cm (rev [])) with (@nil (taxon * list Z)) in Loop.
  match goal with |- context [for_each_res lines body ?i] => set (R := for_each_res lines body i) end.
  match type of Loop with rel ?X _ => change X with R in Loop end.
  destruct R as [[[[ct' cv'] ns'] cm']| |];
    destruct (fasta_lines lower a [] lines) as [st'| |]; cbn [rel] in Loop; try contradiction; cbn [bind].
  - destruct Loop as [A [B C0]]. subst. rewrite to_matrix_w. reflexivity.
  - subst. reflexivity.
  - reflexivity.
Qed.

Theorem gen_fasta_reader_text_eq : forall t,
  match FastaReader_read lower a (split_nl t) with
  | Ok w => Ok (to_matrix w)
  | Err e => Err e
  | OutOfFuel => OutOfFuel
  end = read_fasta lower a t.
Proof. intro t. exact (gen_fasta_reader_eq (split_nl t)). Qed.

End ReaderEq.
