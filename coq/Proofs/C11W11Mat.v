(* C11, wave 11: the history corollary for MATRICES.  A matrix is resolved (canon_mat) when every row taxon is the first
   member of the matrix' namespace matching its own label; the memo-free by-label migrate / reconstruct of a matrix makes
   it resolved, every later operation that is not a purge and does not re-write that matrix keeps it (with its rows), and
   two resolved containers (tree or matrix) under one namespace carry equal labels on ONE taxon in every later state.
   The frame relation for matrices (MF) is proved for all 41 + 13 operations and BadKw. *)
From Coq Require Import List Bool Arith ZArith Lia.
From DV Require Import Model.PyPrims Model.C11Model Model.C11W7Model Model.C11W8Model
  Proofs.C11Base Proofs.C11Inv Proofs.C11Ops Proofs.C11Unify Proofs.C11W7 Proofs.C11W7b Proofs.C11W8
  Proofs.C11W9First Proofs.C11W9Step Proofs.C11W9Wf Proofs.C11W8Examples Proofs.C11W9Examples Proofs.C11W9Hist.
Import ListNotations.
Open Scope nat_scope.

(* the matrix store is untouched (S is a phantom index: the proofs below follow Proofs/C11W9Hist.v line by line) *)
Definition KM (S : oid -> Prop) (a b : state) : Prop := s_mats b = s_mats a.

Lemma KM_refl : forall S a, KM S a a.
Proof. reflexivity. Qed.
Lemma KM_trans : forall S a b c, KM S a b -> KM S b c -> KM S a c.
Proof. unfold KM. intros. congruence. Qed.
Lemma KM_trans_lt : forall (S S' : oid -> Prop) a b c,
  KM S a b -> KM S' b c -> (forall j, j < length (s_trees a) -> ~ S j -> ~ S' j) -> KM S a c.
Proof. unfold KM. intros. congruence. Qed.
Lemma KM_weaken : forall (S S' : oid -> Prop) a b,
  (forall j, j < length (s_trees a) -> S j -> S' j) -> KM S a b -> KM S' a b.
Proof. unfold KM. intros. assumption. Qed.
Lemma KM_same : forall S a b, s_mats b = s_mats a -> KM S a b.
Proof. unfold KM. intros. assumption. Qed.
Lemma KM_set_members_app : forall S st n M, KM S st (set_members st n (members st n ++ M)).
Proof. reflexivity. Qed.
Lemma KM_alloc_taxon : forall S st l, KM S st (fst (alloc_taxon st l)).
Proof. reflexivity. Qed.
Lemma KM_set_tree : forall st i t, KM (fun j => j = i) st (set_tree st i t).
Proof. reflexivity. Qed.
Lemma KM_alloc_tree : forall S st t, KM S st (fst (alloc_tree st t)).
Proof. reflexivity. Qed.
Lemma KM_alloc_ns : forall S st cs, KM S st (fst (alloc_ns st cs)).
Proof. reflexivity. Qed.

Lemma KM_add_member : forall S st n t, KM S st (add_member st n t).
Proof. intros S st n t. unfold add_member. destruct (memb t (members st n)); [apply KM_refl | apply KM_set_members_app]. Qed.

Lemma KM_add_members : forall S xs st n, KM S st (add_members st n xs).
Proof.
  intros S xs. induction xs as [|x r IH]; intros st n; cbn [add_members fold_left]; [apply KM_refl|].
  eapply KM_trans; [apply KM_add_member | apply IH].
Qed.

Lemma KM_new_taxon : forall S st n l, KM S st (fst (new_taxon st n l)).
Proof.
  intros S st n l. unfold new_taxon. cbv beta iota zeta. unfold alloc_taxon. cbn [fst].
  eapply KM_trans; [apply (KM_alloc_taxon S st l)|]. cbn [alloc_taxon fst]. apply KM_set_members_app.
Qed.
Section WithLower.
Variable lower : lbl -> lbl.

Lemma KM_require_taxon : forall S st n l cs, KM S st (fst (require_taxon lower st n l cs)).
Proof.
  intros S st n l cs. unfold require_taxon. destruct (first_match lower st n cs l); [apply KM_refl | apply KM_new_taxon].
Qed.

Lemma KM_recon_refs : forall S n u refs st mm, KM S st (fst (fst (recon_refs lower st n u refs mm))).
Proof.
  intros S n u refs. induction refs as [|x r IH]; intros st mm; cbn [recon_refs]; [apply KM_refl|].
  destruct (u || negb (memb x (members st n))).
  - destruct (alookup x mm) as [t|].
    + specialize (IH (add_member st n t) mm). destruct (recon_refs lower (add_member st n t) n u r mm) as [[s2 r2] m2].
      cbn [fst] in *. eapply KM_trans; [apply KM_add_member | exact IH].
    + assert (K : KM S st (fst (if u then require_taxon lower st n (label st x) (ns_cs st n) else new_taxon st n (label st x))))
        by (destruct u; [apply KM_require_taxon | apply KM_new_taxon]).
      destruct (if u then require_taxon lower st n (label st x) (ns_cs st n) else new_taxon st n (label st x)) as [s1 t].
      cbn [fst] in K. specialize (IH s1 ((x, t) :: mm)). destruct (recon_refs lower s1 n u r ((x, t) :: mm)) as [[s2 r2] m2].
      cbn [fst] in *. eapply KM_trans; eassumption.
  - specialize (IH st mm). destruct (recon_refs lower st n u r mm) as [[s2 r2] m2]. cbn [fst] in *. exact IH.
Qed.

Lemma KM_migrate_tree : forall st tr n u mm, KM (fun j => j = tr) st (fst (migrate_tree lower st tr n u mm)).
Proof.
  intros st tr n u mm. unfold migrate_tree.
  pose proof (KM_recon_refs (fun j => j = tr) n u (t_refs (gettree st tr)) st mm) as K.
  destruct (recon_refs lower st n u (t_refs (gettree st tr)) mm) as [[s1 refs'] m1]. cbn [fst] in *.
  eapply KM_trans; [exact K | apply KM_set_tree].
Qed.

Lemma KM_update_tree : forall st tr n, KM (fun j => j = tr) st (update_tree st tr n).
Proof. intros st tr n. unfold update_tree. eapply KM_trans; [apply KM_add_members | apply KM_set_tree]. Qed.

Lemma KM_clone_memo : forall S n ms st mm, KM S st (fst (clone_memo lower st n ms mm)).
Proof.
  intros S n ms. induction ms as [|x r IH]; intros st mm; cbn [clone_memo]; [apply KM_refl|].
  pose proof (KM_require_taxon S st n (label st x) (ns_cs st n)) as K.
  destruct (require_taxon lower st n (label st x) (ns_cs st n)) as [s1 t]. cbn [fst] in K.
  eapply KM_trans; [exact K | apply IH].
Qed.

Lemma KM_clone_refs : forall S refs st mm, KM S st (fst (fst (clone_refs st refs mm))).
Proof.
  intros S refs. induction refs as [|x r IH]; intros st mm; cbn [clone_refs]; [apply KM_refl|].
  destruct (alookup x mm) as [t|].
  - specialize (IH st mm). destruct (clone_refs st r mm) as [[s2 r2] m2]. exact IH.
  - pose proof (KM_alloc_taxon S st (label st x)) as K. destruct (alloc_taxon st (label st x)) as [s1 t]. cbn [fst] in K.
    specialize (IH s1 ((x, t) :: mm)). destruct (clone_refs s1 r ((x, t) :: mm)) as [[s2 r2] m2]. cbn [fst] in *.
    eapply KM_trans; eassumption.
Qed.

Lemma KM_clone_tree : forall S st tr n, KM S st (fst (clone_tree lower st tr n)).
Proof.
  intros S st tr n. unfold clone_tree. cbv zeta.
  assert (K1 : KM S st (fst (if Nat.eqb (t_ns (gettree st tr)) n then (st, map (fun x => (x, x)) (members st (t_ns (gettree st tr))))
                            else clone_memo lower st n (members st (t_ns (gettree st tr))) [])))
    by (destruct (Nat.eqb (t_ns (gettree st tr)) n); [apply KM_refl | apply KM_clone_memo]).
  destruct (if Nat.eqb (t_ns (gettree st tr)) n then (st, map (fun x => (x, x)) (members st (t_ns (gettree st tr))))
            else clone_memo lower st n (members st (t_ns (gettree st tr))) []) as [s1 mm]. cbn [fst] in K1.
  pose proof (KM_clone_refs S (t_refs (gettree st tr)) s1 mm) as K2.
  destruct (clone_refs s1 (t_refs (gettree st tr)) mm) as [[s2 refs'] m2]. cbn [fst] in K2.
  eapply KM_trans; [exact K1|]. eapply KM_trans; [exact K2 | apply KM_alloc_tree].
Qed.

Lemma KM_list_push : forall S st l tr, KM S st (list_push st l tr).
Proof. intros. apply KM_same; reflexivity. Qed.

Lemma KM_import_tree_m : forall st ln tr s mm, KM (fun j => j = tr) st (fst (fst (import_tree_m lower st ln tr s mm))).
Proof.
  intros st ln tr s mm. unfold import_tree_m. destruct (Nat.eqb (t_ns (gettree st tr)) ln); [apply KM_refl|].
  destruct s as [u| |]; [|apply KM_update_tree | apply KM_refl].
  pose proof (KM_migrate_tree st tr ln u mm) as K. destruct (migrate_tree lower st tr ln u mm) as [s1 m1]. exact K.
Qed.

Lemma KM_import_tree : forall st ln tr s, KM (fun j => j = tr) st (fst (import_tree lower st ln tr s)).
Proof. intros st ln tr s. rewrite <- (import_tree_m_nil lower). cbn [fst]. apply KM_import_tree_m. Qed.

Lemma KM_append_tree : forall st l tr s, KM (fun j => j = tr) st (fst (append_tree lower st l tr s)).
Proof.
  intros st l tr s. unfold append_tree. pose proof (KM_import_tree st (l_ns (getlist st l)) tr s) as K.
  destruct (import_tree lower st (l_ns (getlist st l)) tr s) as [s1 ok]. cbn [fst] in K. destruct ok; cbn [fst]; [|exact K].
  eapply KM_trans; [exact K | apply KM_list_push].
Qed.

Lemma KM_in_cons : forall (t : oid) r a b, KM (fun j => j = t) a b -> KM (fun j => In j (t :: r)) a b.
Proof. intros t r a b. apply KM_weaken. intros j _ E. left. symmetry. exact E. Qed.

Lemma KM_in_tail : forall (t : oid) r a b, KM (fun j => In j r) a b -> KM (fun j => In j (t :: r)) a b.
Proof. intros t r a b. apply KM_weaken. intros j _ E. right. exact E. Qed.

Lemma KM_append_all : forall trs st l, KM (fun j => In j trs) st (append_all lower st l trs).
Proof.
  induction trs as [|t r IH]; intros st l; cbn [append_all]; [apply KM_refl|].
  eapply KM_trans; [apply KM_in_cons, KM_append_tree | apply KM_in_tail, IH].
Qed.

Lemma KM_import_all : forall trs st n, KM (fun j => In j trs) st (import_all lower st n trs).
Proof.
  induction trs as [|t r IH]; intros st n; cbn [import_all]; [apply KM_refl|].
  eapply KM_trans; [apply KM_in_cons, KM_import_tree | apply KM_in_tail, IH].
Qed.

Lemma KM_clone_push_all : forall S trs st l, KM S st (clone_push_all lower st l trs).
Proof.
  intros S trs. induction trs as [|t r IH]; intros st l; cbn [clone_push_all]; [apply KM_refl|].
  pose proof (KM_clone_tree S st t (l_ns (getlist st l))) as K. destruct (clone_tree lower st t (l_ns (getlist st l))) as [s1 c].
  cbn [fst] in K. eapply KM_trans; [exact K|]. eapply KM_trans; [apply KM_list_push | apply IH].
Qed.

Lemma KM_clone_all : forall S trs st n acc, KM S st (fst (clone_all lower st n trs acc)).
Proof.
  intros S trs. induction trs as [|t r IH]; intros st n acc; cbn [clone_all]; [apply KM_refl|].
  pose proof (KM_clone_tree S st t n) as K. destruct (clone_tree lower st t n) as [s1 c]. cbn [fst] in K.
  eapply KM_trans; [exact K | apply IH].
Qed.

Lemma KM_migrate_trees : forall n u trs st mm, KM (fun j => In j trs) st (fst (migrate_trees lower st n u trs mm)).
Proof.
  intros n u trs. induction trs as [|t r IH]; intros st mm; cbn [migrate_trees]; [apply KM_refl|].
  pose proof (KM_migrate_tree st t n u mm) as K. destruct (migrate_tree lower st t n u mm) as [s1 m1]. cbn [fst] in K.
  eapply KM_trans; [apply KM_in_cons, K | apply KM_in_tail, IH].
Qed.

Lemma KM_update_trees : forall trs st n, KM (fun j => In j trs) st (update_trees st n trs).
Proof.
  induction trs as [|t r IH]; intros st n; cbn [update_trees]; [apply KM_refl|].
  eapply KM_trans; [apply KM_in_cons, KM_update_tree | apply KM_in_tail, IH].
Qed.

Lemma KM_read_refs : forall S n cs labels st seen, KM S st (fst (fst (read_refs lower st n cs labels seen))).
Proof.
  intros S n cs labels. induction labels as [|l r IH]; intros st seen; cbn [read_refs]; [apply KM_refl|].
  assert (K : KM S st (fst (match last_match lower st n cs l with Some t => (st, t) | None => new_taxon st n l end)))
    by (destruct (last_match lower st n cs l); [apply KM_refl | apply KM_new_taxon]).
  destruct (match last_match lower st n cs l with Some t => (st, t) | None => new_taxon st n l end) as [s1 t]. cbn [fst] in K.
  destruct (memb t seen); cbn [fst]; [exact K|]. eapply KM_trans; [exact K | apply IH].
Qed.

Lemma KM_read_trees : forall cs trees st l, KM S0 st (fst (read_trees lower st l cs trees)).
Proof.
  intros cs trees. induction trees as [|labels r IH]; intros st l; cbn [read_trees]; [apply KM_refl|].
  unfold alloc_tree. cbv beta iota zeta.
  set (n := l_ns (getlist st l)).
  set (s1 := mkSt (s_lab st) (s_mem st) (s_cs st) (s_nns st) (s_trees st ++ [mkTree n []]) (s_lists st) (s_mats st) (s_dss st)).
  assert (K1 : KM S0 st s1) by (apply (KM_alloc_tree S0 st (mkTree n []))).
  pose proof (KM_read_refs S0 n cs labels (list_push s1 l (length (s_trees st))) []) as K3.
  destruct (read_refs lower (list_push s1 l (length (s_trees st))) n cs labels []) as [[s3 refs] ok]. cbn [fst] in K3.
  assert (K : KM S0 st (set_tree s3 (length (s_trees st)) (mkTree n refs))).
  { eapply KM_trans_lt; [|apply KM_set_tree|].
    - eapply KM_trans; [exact K1|]. eapply KM_trans; [apply (KM_list_push S0) | exact K3].
    - intros j Hj _ E. lia. }
  destruct ok; cbn [fst]; [|exact K]. eapply KM_trans; [exact K | apply IH].
Qed.

End WithLower.

Section WithLower2.
Variable lower : lbl -> lbl.

Lemma KM_recon_rows : forall S n u orig st rows mm, KM S st (fst (fst (fst (recon_rows lower st n u orig rows mm)))).
Proof.
  intros S n u orig. induction orig as [|x r IH]; intros st rows mm; cbn [recon_rows]; [apply KM_refl|].
  destruct (u || negb (memb x (members st n))); [|apply IH].
  assert (K : KM S st (fst (fst (match alookup x mm with
              | None => let '(s1, t) := if u then require_taxon lower st n (label st x) (ns_cs st n)
                                        else new_taxon st n (label st x) in (s1, t, (x, t) :: mm)
              | Some t => (add_member st n t, t, mm) end)))).
  { destruct (alookup x mm) as [t|]; [apply KM_add_member|].
    assert (K : KM S st (fst (if u then require_taxon lower st n (label st x) (ns_cs st n) else new_taxon st n (label st x))))
      by (destruct u; [apply KM_require_taxon | apply KM_new_taxon]).
    destruct (if u then require_taxon lower st n (label st x) (ns_cs st n) else new_taxon st n (label st x)) as [s1 t]. exact K. }
  destruct (match alookup x mm with
              | None => let '(s1, t) := if u then require_taxon lower st n (label st x) (ns_cs st n)
                                        else new_taxon st n (label st x) in (s1, t, (x, t) :: mm)
              | Some t => (add_member st n t, t, mm) end) as [[s1 t] m1]. cbn [fst] in K.
  destruct (memb t rows); cbn [fst]; [exact K|]. eapply KM_trans; [exact K | apply IH].
Qed.

Lemma KM_migrate_list : forall st l n u mm, KM (fun j => In j (l_trees (getlist st l))) st (fst (migrate_list lower st l n u mm)).
Proof.
  intros st l n u mm. unfold migrate_list, reconstruct_list. rewrite set_list_trees.
  eapply (KM_trans _ _ (set_list st l (mkTL n (l_trees (getlist st l))))); [apply KM_same; reflexivity | apply KM_migrate_trees].
Qed.

Lemma KM_any : forall S a b, KM S a b -> KM ST a b.
Proof. intros S a b. apply KM_weaken. intros. exact Logic.I. Qed.

Lemma KM_unify_lists : forall n ls st mm, KM ST st (fst (unify_lists lower st n ls mm)).
Proof.
  intros n ls. induction ls as [|l r IH]; intros st mm; cbn [unify_lists]; [apply KM_refl|].
  pose proof (KM_migrate_list st l n true mm) as K. destruct (migrate_list lower st l n true mm) as [s1 m1]. cbn [fst] in K.
  eapply KM_trans; [eapply KM_any; exact K | apply IH].
Qed.

Lemma KM_extend : forall st l s st1, extend lower st l s = Some st1 -> KM (src_touch s) st st1.
Proof.
  intros st l s st1 H. destruct s as [l2|ts]; cbn [extend] in H.
  - destruct (Nat.eqb l2 l); [discriminate|]. injection H as <-. apply KM_clone_push_all.
  - injection H as <-. apply KM_append_all.
Qed.

Lemma KM_ds_pick_ns : forall S st d nsarg st1 n, ds_pick_ns st d nsarg = Some (st1, n) -> KM S st st1.
Proof.
  intros S st d nsarg st1 n H. unfold ds_pick_ns in H. destruct (d_att (getds st d)) as [a|]; destruct nsarg as [n0|].
  - destruct (Nat.eqb a n0); [|discriminate]. injection H as <- _. apply KM_refl.
  - injection H as <- _. apply KM_refl.
  - injection H as <- _. apply KM_refl.
  - injection H as <- _. apply (KM_alloc_ns S st false).
Qed.

Lemma KM_ds_read_ns : forall S st d nsarg st1 n, ds_read_ns st d nsarg = Some (st1, n) -> KM S st st1.
Proof.
  intros S st d nsarg st1 n H. unfold ds_read_ns in H. destruct (d_att (getds st d)) as [a|]; destruct nsarg as [n0|].
  - destruct (Nat.eqb a n0); [|discriminate]. injection H as <- _. apply KM_refl.
  - injection H as <- _. apply KM_refl.
  - injection H as <- _. apply KM_refl.
  - unfold alloc_ns in H. cbv beta iota zeta in H. injection H as <- _.
    eapply KM_trans; [apply (KM_alloc_ns S st false) | apply KM_same; reflexivity].
Qed.
Definition mat_op (o : op) : bool :=
  match o with
  | NewMat _ | NewSeq _ _ | SetRow _ _ | MigrateMat _ _ _ | ReconstructMat _ _ | DsNewMat _ _ | DsReadFasta _ _ _ | Unify _ _ _ => true
  | _ => false
  end.

Ltac els := cbn [fst]; apply KM_refl.
Ltac samg := apply KM_same; reflexivity.

Lemma KM_step : forall st o, is_purge o = false -> mat_op o = false -> KM (touched st o) st (fst (step lower st o)).
Proof.
  intros st o Np Nm. destruct o; try discriminate Np; try discriminate Nm; cbn [step touched].
  - apply (KM_alloc_ns _ st cs).
  - destruct (valid_ns st n); [|els]. pose proof (KM_new_taxon S0 st n l) as K. destruct (new_taxon st n l) as [s1 x]. exact K.
  - destruct (valid_ns st n && forallb (valid_taxon st) refs); [|els].
    unfold alloc_tree. cbn [fst]. eapply KM_trans; [apply KM_add_members | apply (KM_alloc_tree _ _ (mkTree n refs))].
  - destruct (valid_ns st n); [|els]. samg.
  - samg.
  - destruct (valid_list st l && valid_tree st t); [|els]. pose proof (KM_append_tree lower st l t s) as K.
    destruct (append_tree lower st l t s) as [s1 ok]. exact K.
  - destruct (valid_list st l && valid_tree st t); [|els]. pose proof (KM_import_tree lower st (l_ns (getlist st l)) t s) as K.
    destruct (import_tree lower st (l_ns (getlist st l)) t s) as [s1 ok]. cbn [fst] in K. destruct ok; cbn [fst]; [|exact K].
    eapply KM_trans; [exact K | samg].
  - destruct (valid_list st l && valid_src st s); [|els]. destruct (extend lower st l s) as [s1|] eqn:E; [|els]. cbn [fst].
    eapply KM_extend; exact E.
  - destruct (valid_list st l && valid_src st s); [|els]. destruct (extend lower st l s) as [s1|] eqn:E; [|els]. cbn [fst].
    eapply KM_extend; exact E.
  - destruct (valid_list st l && valid_src st s); [|els]. unfold alloc_list. cbv beta iota zeta.
    match goal with |- context [extend lower ?s1 ?nl (SrcList l)] => set (st1 := s1) in *; set (nl0 := nl) in * end.
    assert (K1 : KM (src_touch s) st st1) by samg.
    destruct (extend lower st1 nl0 (SrcList l)) as [s2|] eqn:E1; [|exact K1].
    pose proof (KM_extend _ _ _ _ E1) as K2. cbn [src_touch] in K2.
    assert (K12 : KM (src_touch s) st s2).
    { eapply KM_trans; [exact K1|]. eapply KM_weaken; [|exact K2]. intros j _ []. }
    destruct (extend lower s2 nl0 s) as [s3|] eqn:E2; cbn [fst]; [|exact K12].
    eapply KM_trans; [exact K12 | eapply KM_extend; exact E2].
  - destruct (valid_list st l && valid_tree st t); [|els]. cbv zeta.
    pose proof (KM_import_tree lower st (l_ns (getlist st l)) t (SMigrate true)) as K.
    set (s1 := fst (import_tree lower st (l_ns (getlist st l)) t (SMigrate true))) in *.
    destruct (norm_index (length (l_trees (getlist s1 l))) i); cbn [fst]; [|exact K]. eapply KM_trans; [exact K | samg].
  - destruct (valid_list st l && valid_src st s); [|els]. cbv zeta. destruct s as [l2|ts]; cbn [src_touch].
    + pose proof (KM_clone_all lower S0 (l_trees (getlist st l2)) st (l_ns (getlist st l)) []) as K.
      destruct (clone_all lower st (l_ns (getlist st l)) (l_trees (getlist st l2)) []) as [s1 v]. cbn [fst] in K.
      destruct (slice_bounds (length (l_trees (getlist s1 l))) a b) as [lo hi]. cbn [fst]. eapply KM_trans; [exact K | samg].
    + destruct (slice_bounds (length (l_trees (getlist (import_all lower st (l_ns (getlist st l)) ts) l))) a b) as [lo hi]. cbn [fst].
      eapply KM_trans; [apply KM_import_all | samg].
  - destruct (valid_list st l); [|els]. cbv zeta. destruct (slice_bounds (length (l_trees (getlist st l))) a b) as [lo hi].
    unfold alloc_list. cbn [fst]. eapply KM_trans; [|eapply KM_weaken; [|apply KM_append_all]]; [samg|].
    intros j Hj I. apply In_slice_get in I. exact I.
  - destruct (valid_list st l && valid_nsopt st nsarg && forallb (valid_taxon st) refs); [|els]. cbv zeta.
    destruct (match nsarg with Some a => Nat.eqb a (l_ns (getlist st l)) | None => true end); [|els].
    unfold alloc_tree. cbn [fst]. eapply KM_trans; [apply KM_add_members|].
    eapply KM_trans; [apply (KM_alloc_tree _ _ (mkTree (l_ns (getlist st l)) refs)) | samg].
  - destruct (valid_list st l && valid_nsopt st nsarg); [|els]. cbv zeta.
    destruct (match nsarg with Some a => Nat.eqb a (l_ns (getlist st l)) | None => true end); [|els].
    destruct (Bool.eqb cskw (ns_cs st (l_ns (getlist st l)))); [|els].
    pose proof (KM_read_trees lower cskw trees st l) as K. destruct (read_trees lower st l cskw trees) as [s1 ok]. exact K.
  - destruct (valid_list st l); [|els]. cbv zeta. destruct (norm_index (length (l_trees (getlist st l))) i); [|els]. cbn [fst]. samg.
  - destruct (valid_list st l && valid_tree st t); [|els]. cbv zeta.
    destruct (remove_first t (l_trees (getlist st l))); [|els]. cbn [fst]. samg.
  - destruct (valid_list st l && valid_ns st n); [|els]. cbn [fst]. apply KM_migrate_list.
  - destruct (valid_list st l); [|els]. cbn [fst]. unfold reconstruct_list. apply KM_migrate_trees.
  - destruct (valid_list st l); [|els]. cbn [fst]. apply KM_update_trees.
  - destruct (valid_tree st t && valid_ns st n); [|els]. cbn [fst]. apply KM_migrate_tree.
  - destruct (valid_tree st t); [|els]. cbn [fst]. apply KM_migrate_tree.
  - destruct (valid_tree st t); [|els]. cbn [fst]. apply KM_update_tree.
  - destruct (valid_ns st n && valid_tree st t); [|els]. destruct (Nat.eqb (t_ns (gettree st t)) n); [|els].
    destruct (forallb (fun x => memb x (members st n)) (t_refs (gettree st t))); els.
  - destruct (valid_mat st m); [|els]. cbn [fst]. apply KM_add_members.
  - destruct (valid_ds st d && valid_ns st n); [|els]. cbn [fst]. samg.
  - destruct (valid_ds st d); [|els]. cbn [fst]. samg.
  - destruct (valid_ds st d); [|els]. destruct o as [n|l|m].
    + destruct (valid_ns st n); [|els]. cbn [fst]. samg.
    + destruct (valid_list st l); [|els]. cbn [fst]. samg.
    + destruct (valid_mat st m); [|els]. cbn [fst]. samg.
  - destruct (valid_ds st d && valid_nsopt st nsarg); [|els]. destruct (ds_pick_ns st d nsarg) as [[s1 n]|] eqn:P; [|els].
    unfold alloc_list. cbn [fst]. eapply KM_trans; [eapply KM_ds_pick_ns; exact P | samg].
  - destruct (valid_ds st d && valid_nsopt st nsarg); [|els]. destruct (ds_read_ns st d nsarg) as [[s1 n]|] eqn:P; [|els].
    pose proof (KM_ds_read_ns S0 _ _ _ _ _ P) as K. unfold alloc_list. cbv beta iota zeta.
    match goal with |- context [ds_add_list ?s ?dd ?ll] => set (s3 := ds_add_list s dd ll) in * end.
    assert (K3 : KM S0 st s3) by (eapply KM_trans; [exact K | samg]).
    destruct sc.
    + destruct (Bool.eqb cskw (ns_cs s3 n)); [|exact K3].
      pose proof (KM_read_trees lower cskw trees s3 (length (s_lists s1))) as K4.
      destruct (read_trees lower s3 (length (s_lists s1)) cskw trees) as [s4 ok]. cbn [fst] in *. eapply KM_trans; eassumption.
    + destruct (Bool.eqb cskw (ns_cs s1 n)); [|exact K]. destruct trees as [|t0 tr0]; [exact K|].
      pose proof (KM_read_trees lower cskw (t0 :: tr0) s3 (length (s_lists s1))) as K4.
      destruct (read_trees lower s3 (length (s_lists s1)) cskw (t0 :: tr0)) as [s4 ok]. cbn [fst] in *. eapply KM_trans; eassumption.
Qed.

(* ---- the frame for matrices: matrices are only created, and only the matrices in S are re-written ---- *)
Definition MF (S : oid -> Prop) (a b : state) : Prop :=
  length (s_mats a) <= length (s_mats b) /\
  forall j, j < length (s_mats a) -> ~ S j -> getmat b j = getmat a j.

Lemma MF_refl : forall S a, MF S a a.
Proof. intros S a. split; [lia | reflexivity]. Qed.

Lemma MF_trans : forall S a b c, MF S a b -> MF S b c -> MF S a c.
Proof.
  intros S a b c [A1 F1] [A2 F2]. split; [lia|]. intros j Hj Ns. rewrite F2 by (try lia; exact Ns). apply F1; assumption.
Qed.

Lemma MF_weaken : forall (S S' : oid -> Prop) a b,
  (forall j, j < length (s_mats a) -> S j -> S' j) -> MF S a b -> MF S' a b.
Proof. intros S S' a b H [A F]. split; [exact A|]. intros j Hj Ns. apply F; [exact Hj|]. intro K. apply Ns, H; assumption. Qed.

Lemma MF_of_KM : forall S a b, KM S0 a b -> MF S a b.
Proof. intros S a b E. unfold KM in E. unfold MF, getmat. rewrite E. split; [lia | reflexivity]. Qed.

Lemma getmat_set_other : forall st i M j, j <> i -> getmat (set_mat st i M) j = getmat st j.
Proof.
  intros. unfold getmat. cbn [set_mat s_mats]. destruct (nth_error (s_mats st) j) eqn:E.
  - erewrite nth_error_some_nth; [|rewrite nth_error_upd_other by exact H; exact E].
    symmetry. eapply nth_error_some_nth. exact E.
  - rewrite !nth_overflow; [reflexivity | apply nth_error_None; exact E |].
    rewrite upd_length. apply nth_error_None. exact E.
Qed.

Lemma MF_set_mat : forall st i M, MF (fun j => j = i) st (set_mat st i M).
Proof.
  intros st i M. split; [cbn [set_mat s_mats]; rewrite upd_length; lia|]. intros j _ Nj. apply getmat_set_other. exact Nj.
Qed.

Lemma MF_alloc_mat : forall S st M, MF S st (fst (alloc_mat st M)).
Proof.
  intros S st M. cbn [alloc_mat fst]. split; [cbn [s_mats]; rewrite app_length; lia|].
  intros j Hj _. unfold getmat. cbn [s_mats]. apply app_nth1. exact Hj.
Qed.

Lemma MF_migrate_mat : forall st m n u mm, MF (fun j => j = m) st (fst (fst (migrate_mat lower st m n u mm))).
Proof.
  intros st m n u mm. unfold migrate_mat.
  pose proof (KM_recon_rows S0 n u (m_rows (getmat st m)) st (m_rows (getmat st m)) mm) as K.
  destruct (recon_rows lower st n u (m_rows (getmat st m)) (m_rows (getmat st m)) mm) as [[[s1 rows'] m1] ok]. cbn [fst] in *.
  eapply MF_trans; [apply MF_of_KM; exact K | apply MF_set_mat].
Qed.

Lemma MF_read_rows : forall labels st m, MF (fun j => j = m) st (fst (read_rows lower st m labels)).
Proof.
  intros labels. induction labels as [|l r IH]; intros st m; cbn [read_rows]; [apply MF_refl|].
  pose proof (KM_require_taxon lower S0 st (m_ns (getmat st m)) l (ns_cs st (m_ns (getmat st m)))) as K.
  destruct (require_taxon lower st (m_ns (getmat st m)) l (ns_cs st (m_ns (getmat st m)))) as [s1 t]. cbn [fst] in K.
  destruct (memb t (m_rows (getmat s1 m))); cbn [fst]; [apply MF_of_KM; exact K|].
  eapply MF_trans; [apply MF_of_KM; exact K|]. eapply MF_trans; [apply MF_set_mat | apply IH].
Qed.

Lemma MF_any : forall S a b, MF S a b -> MF ST a b.
Proof. intros S a b. apply MF_weaken. intros. exact Logic.I. Qed.

Lemma MF_unify_mats : forall n ms st mm, MF ST st (fst (unify_mats lower st n ms mm)).
Proof.
  intros n ms. induction ms as [|m r IH]; intros st mm; cbn [unify_mats]; [apply MF_refl|].
  pose proof (MF_migrate_mat st m n true mm) as K. destruct (migrate_mat lower st m n true mm) as [[s1 m1] ok]. cbn [fst] in K.
  destruct ok; cbn [fst]; [|eapply MF_any; exact K]. eapply MF_trans; [eapply MF_any; exact K | apply IH].
Qed.

(* the matrix objects an operation may re-write *)
Definition touchedm (o : op) (j : oid) : Prop :=
  match o with
  | NewSeq m _ | SetRow m _ | MigrateMat m _ _ | ReconstructMat m _ => j = m
  | Unify _ _ _ => True
  | _ => False
  end.

Ltac elm := cbn [fst]; apply MF_refl.
Ltac samm := apply MF_of_KM; apply KM_same; reflexivity.

Lemma MF_trans_lt : forall (S S' : oid -> Prop) a b c,
  MF S a b -> MF S' b c -> (forall j, j < length (s_mats a) -> ~ S j -> ~ S' j) -> MF S a c.
Proof.
  intros S S' a b c [A1 F1] [A2 F2] H. split; [lia|]. intros j Hj Ns. rewrite F2 by (try lia; apply H; assumption). apply F1; assumption.
Qed.

Lemma MF_step : forall st o, is_purge o = false -> MF (touchedm o) st (fst (step lower st o)).
Proof.
  intros st o Np. destruct (mat_op o) eqn:Nm.
  2:{ apply MF_of_KM. exact (KM_step st o Np Nm). }
  destruct o; try discriminate Nm; cbn [step touchedm].
  - (* NewMat *) destruct (valid_ns st n); [|elm]. apply (MF_alloc_mat _ st (mkMat n [])).
  - (* NewSeq *) destruct (valid_mat st m && valid_taxon st x); [|elm]. cbv zeta. destruct (memb x (m_rows (getmat st m))); [elm|].
    destruct (negb (memb x (members st (m_ns (getmat st m))))); [elm|]. cbn [fst]. apply MF_set_mat.
  - (* SetRow *) destruct (valid_mat st m && match k with KeyTaxon x => valid_taxon st x | _ => true end); [|elm]. cbv zeta.
    destruct (row_key lower st (m_ns (getmat st m)) k) as [v| |]; [|elm|elm].
    destruct (negb (memb v (members st (m_ns (getmat st m))))); [elm|]. cbn [fst]. apply MF_set_mat.
  - (* MigrateMat *) destruct (valid_mat st m && valid_ns st n); [|elm]. pose proof (MF_migrate_mat st m n unify []) as K.
    destruct (migrate_mat lower st m n unify []) as [[s1 m1] ok]. exact K.
  - (* ReconstructMat *) destruct (valid_mat st m); [|elm]. pose proof (MF_migrate_mat st m (m_ns (getmat st m)) unify []) as K.
    destruct (migrate_mat lower st m (m_ns (getmat st m)) unify []) as [[s1 m1] ok]. exact K.
  - (* DsNewMat *) destruct (valid_ds st d && valid_nsopt st nsarg); [|elm]. destruct (ds_pick_ns st d nsarg) as [[s1 n]|] eqn:P; [|elm].
    pose proof (KM_ds_pick_ns S0 _ _ _ _ _ P) as K. unfold alloc_mat. cbn [fst].
    eapply MF_trans; [apply MF_of_KM; exact K|]. eapply MF_trans; [apply (MF_alloc_mat _ s1 (mkMat n [])) | samm].
  - (* DsReadFasta *) destruct (valid_ds st d && valid_nsopt st nsarg); [|elm]. destruct (ds_read_ns st d nsarg) as [[s1 n]|] eqn:P; [|elm].
    pose proof (KM_ds_read_ns S0 _ _ _ _ _ P) as K. unfold alloc_mat. cbv beta iota zeta.
    match goal with |- context [ds_add_mat ?s ?dd ?ll] => set (s3 := ds_add_mat s dd ll) in * end.
    assert (K3 : MF (fun _ => False) st s3).
    { eapply MF_trans; [apply MF_of_KM; exact K|]. eapply MF_trans; [apply (MF_alloc_mat _ s1 (mkMat n [])) | samm]. }
    pose proof (MF_read_rows rows s3 (length (s_mats s1))) as K4.
    destruct (read_rows lower s3 (length (s_mats s1)) rows) as [s4 ok]. cbn [fst] in *.
    eapply MF_trans_lt; [exact K3 | exact K4|]. intros j Hj _ E. unfold KM in K. rewrite K in E. rewrite E in Hj.
    exact (Nat.lt_irrefl _ Hj).
  - (* Unify *) destruct (valid_ds st d && valid_nsopt st nsarg); [|elm]. cbv zeta.
    match goal with |- MF _ _ (fst (match ?e with pair _ _ => _ end)) => assert (P : MF ST st (fst (fst e))) end.
    { assert (Gen : forall st0 : state, MF ST st st0 ->
        MF ST st (fst (fst (let '(st1, n) := match nsarg with
                          | Some n => (st0, n)
                          | None => let '(s, n) := alloc_ns st0 false in (ds_add_ns s d n, n)
                          end in
         let '(st2, memo) := unify_lists lower st1 n (d_lists (getds st d)) [] in
         let '(st3, ok) := unify_mats lower st2 n (d_mats (getds st d)) memo in
         (st3, Some n, ok))))).
      { intros st0 K0.
        assert (K1 : MF ST st (fst (match nsarg with
                          | Some n => (st0, n)
                          | None => let '(s, n) := alloc_ns st0 false in (ds_add_ns s d n, n)
                          end))).
        { destruct nsarg; [exact K0|]. unfold alloc_ns. cbv beta iota zeta. cbn [fst].
          eapply MF_trans; [exact K0 | samm]. }
        destruct (match nsarg with
                  | Some n => (st0, n)
                  | None => let '(s, n) := alloc_ns st0 false in (ds_add_ns s d n, n)
                  end) as [s1 n]. cbn [fst] in K1.
        pose proof (KM_unify_lists n (d_lists (getds st d)) s1 []) as K2.
        destruct (unify_lists lower s1 n (d_lists (getds st d)) []) as [s2 memo]. cbn [fst] in K2.
        pose proof (MF_unify_mats n (d_mats (getds st d)) s2 memo) as K3.
        destruct (unify_mats lower s2 n (d_mats (getds st d)) memo) as [s3' ok']. cbn [fst] in *.
        eapply MF_trans; [exact K1|]. eapply MF_trans; [apply MF_of_KM; exact K2 | exact K3]. }
      destruct (d_nss (getds st d)); destruct (d_lists (getds st d)) eqn:EL; destruct (d_mats (getds st d)) eqn:EM;
        try (cbn [fst]; apply MF_refl); rewrite <- ?EL, <- ?EM in *; apply Gen; samm. }
    match goal with |- MF _ _ (fst (match ?e with pair _ _ => _ end)) => destruct e as [[s3 target] ok] end. cbn [fst] in P.
    destruct ok; [|exact P]. destruct attach; [|exact P]. destruct target; [|exact P]. cbn [fst]. eapply MF_trans; [exact P | samm].
Qed.

End WithLower2.

Definition touchedm7 (o : op7) (j : oid) : Prop :=
  match o with
  | Base b => touchedm b j
  | MigrateMatM m _ _ _ | ReconstructMatM m _ _ => j = m
  | _ => False
  end.
Definition touchedm8 (o : op8) (j : oid) : Prop := match o with Op7 o | BadKw o => touchedm7 o j end.

Section CanonMat.
Variable lower : lbl -> lbl.

Lemma MF_step7 : forall x o, is_purge7 o = false -> MF (touchedm7 o) (x_st x) (x_st (fst (step7 lower x o))).
Proof.
  intros x o Np. destruct o; cbn [step7 touchedm7].
  - pose proof (MF_step lower (x_st x) o Np) as K. destruct (step lower (x_st x) o) as [s1 r]. exact K.
  - apply MF_of_KM. pose proof (KM_alloc_taxon S0 (x_st x) l) as K. destruct (alloc_taxon (x_st x) l) as [s1 t]. exact K.
  - destruct (valid_pairs (x_st x) es); cbn [fst x_st]; apply MF_refl.
  - destruct (valid_mat (x_st x) m); [|apply MF_refl]. cbn [fst x_st with_st]. apply (MF_alloc_mat _ (x_st x)).
  - destruct (valid_list (x_st x) l); [|apply MF_refl]. unfold alloc_list. cbn [fst x_st with_st]. apply MF_of_KM, KM_same; reflexivity.
  - destruct (valid_list (x_st x) l && valid_tree (x_st x) t && valid_memo x k); [|apply MF_refl]. apply MF_of_KM.
    pose proof (KM_import_tree_m lower (x_st x) (l_ns (getlist (x_st x) l)) t s (getmemo x k)) as K.
    destruct (import_tree_m lower (x_st x) (l_ns (getlist (x_st x) l)) t s (getmemo x k)) as [[s1 ok] mm]. cbn [fst] in K.
    destruct ok; cbn [fst x_st with_memo]; [|exact K]. eapply KM_trans; [exact K | apply KM_same; reflexivity].
  - destruct (valid_list (x_st x) l && valid_tree (x_st x) t && valid_memo x k); [|apply MF_refl]. apply MF_of_KM.
    pose proof (KM_import_tree_m lower (x_st x) (l_ns (getlist (x_st x) l)) t s (getmemo x k)) as K.
    destruct (import_tree_m lower (x_st x) (l_ns (getlist (x_st x) l)) t s (getmemo x k)) as [[s1 ok] mm]. cbn [fst] in K.
    destruct ok; cbn [fst x_st with_memo]; [|exact K]. eapply KM_trans; [exact K | apply KM_same; reflexivity].
  - destruct (valid_tree (x_st x) t && valid_ns (x_st x) n && valid_memo x k); [|apply MF_refl]. apply MF_of_KM.
    pose proof (KM_migrate_tree lower (x_st x) t n u (getmemo x k)) as K.
    destruct (migrate_tree lower (x_st x) t n u (getmemo x k)) as [s1 mm]. exact K.
  - destruct (valid_tree (x_st x) t && valid_memo x k); [|apply MF_refl]. apply MF_of_KM.
    pose proof (KM_migrate_tree lower (x_st x) t (t_ns (gettree (x_st x) t)) u (getmemo x k)) as K.
    destruct (migrate_tree lower (x_st x) t (t_ns (gettree (x_st x) t)) u (getmemo x k)) as [s1 mm]. exact K.
  - destruct (valid_list (x_st x) l && valid_ns (x_st x) n && valid_memo x k); [|apply MF_refl]. apply MF_of_KM.
    pose proof (KM_migrate_list lower (x_st x) l n u (getmemo x k)) as K.
    destruct (migrate_list lower (x_st x) l n u (getmemo x k)) as [s1 mm]. exact K.
  - destruct (valid_list (x_st x) l && valid_memo x k); [|apply MF_refl]. apply MF_of_KM.
    pose proof (KM_migrate_trees lower (l_ns (getlist (x_st x) l)) u (l_trees (getlist (x_st x) l)) (x_st x) (getmemo x k)) as K.
    unfold reconstruct_list.
    destruct (migrate_trees lower (x_st x) (l_ns (getlist (x_st x) l)) u (l_trees (getlist (x_st x) l)) (getmemo x k)) as [s1 mm]. exact K.
  - destruct (valid_mat (x_st x) m && valid_ns (x_st x) n && valid_memo x k); [|apply MF_refl].
    pose proof (MF_migrate_mat lower (x_st x) m n u (getmemo x k)) as K.
    destruct (migrate_mat lower (x_st x) m n u (getmemo x k)) as [[s1 mm] ok]. exact K.
  - destruct (valid_mat (x_st x) m && valid_memo x k); [|apply MF_refl].
    pose proof (MF_migrate_mat lower (x_st x) m (m_ns (getmat (x_st x) m)) u (getmemo x k)) as K.
    destruct (migrate_mat lower (x_st x) m (m_ns (getmat (x_st x) m)) u (getmemo x k)) as [[s1 mm] ok]. exact K.
Qed.

Lemma MF_step8 : forall x o, is_purge8 o = false -> MF (touchedm8 o) (x_st x) (x_st (fst (step8 lower x o))).
Proof.
  intros x o Np. destruct o as [o|o]; cbn [touchedm8 is_purge8] in *.
  - cbn [step8]. apply MF_step7, Np.
  - destruct (step8_badkw_cases lower x o) as [E|[E _]]; rewrite E; [apply MF_step7, Np | apply MF_refl].
Qed.

(* matrix object m is RESOLVED: it exists, refers to an existing namespace, and every row taxon is the first member of
   that namespace matching its own label *)
Definition canon_mat (st : state) (m : oid) : Prop :=
  m < length (s_mats st) /\ m_ns (getmat st m) < s_nns st /\
  forall y, In y (m_rows (getmat st m)) ->
    first_match lower st (m_ns (getmat st m)) (ns_cs st (m_ns (getmat st m))) (label st y) = Some y.

Lemma canon_mat_G : forall (S SM : oid -> Prop) a b m,
  G S a b -> MF SM a b -> mem_wf a -> mats_wf a -> ~ SM m -> canon_mat a m -> canon_mat b m /\ getmat b m = getmat a m.
Proof.
  intros S SM a b m [[L EL] [N [A [B F]]]] [BM FM] Mw Rw Ns [V [Vn C]]. split; [|apply FM; assumption]. unfold canon_mat.
  rewrite (FM m V Ns). split; [lia|]. split; [lia|]. intros y Hy. destruct (N _ Vn) as [[M EM] Ecs]. rewrite Ecs.
  assert (X : ext (m_ns (getmat a m)) a b).
  { split; [exists L; exact EL|]. split; [exists M; exact EM | exact Ecs]. }
  rewrite (label_ext _ a b y X (proj2 (Rw m) y Hy)). eapply first_match_stable; [exact X | apply Mw | apply C, Hy].
Qed.

Theorem canon_mat_kept_step8_l : forall x o m,
  taxa_wf x -> is_purge8 o = false -> ~ touchedm8 o m -> canon_mat (x_st x) m ->
  canon_mat (x_st (fst (step8 lower x o))) m /\ getmat (x_st (fst (step8 lower x o))) m = getmat (x_st x) m.
Proof.
  intros x o m [Mw [_ [_ [Rw _]]]] Np Nt C.
  eapply canon_mat_G; [apply G_step8, Np | apply MF_step8, Np | exact Mw | exact Rw | exact Nt | exact C].
Qed.

Fixpoint quiet_hist_mat (x : xstate) (ops : list op8) (m : oid) : Prop :=
  match ops with
  | [] => True
  | o :: r => is_purge8 o = false /\ ~ touchedm8 o m /\ quiet_hist_mat (fst (step8 lower x o)) r m
  end.

Theorem canon_mat_kept_history8_l : forall ops x m,
  taxa_wf x -> canon_mat (x_st x) m -> quiet_hist_mat x ops m ->
  canon_mat (x_st (run_state8 lower x ops)) m /\ getmat (x_st (run_state8 lower x ops)) m = getmat (x_st x) m.
Proof.
  induction ops as [|o r IH]; intros x m W C Q; [split; [exact C | reflexivity]|]. destruct Q as [Np [Nt Q]].
  destruct (canon_mat_kept_step8_l x o m W Np Nt C) as [C1 E1].
  unfold run_state8 in *. cbn [fold_left].
  destruct (IH (fst (step8 lower x o)) m (taxa_wf_step8_l lower x o W) C1 Q) as [C2 E2]. split; [exact C2 | congruence].
Qed.

(* a by-label migrate / reconstruct of a matrix without caller's memo makes it resolved *)
Lemma mat_resolved_canon : forall st st' n m,
  mat_resolved lower st st' n [] m -> m < length (s_mats st') -> n < s_nns st' -> canon_mat st' m.
Proof.
  intros st st' n m [En [Len H]] V Vn. unfold canon_mat. rewrite En. split; [exact V|]. split; [exact Vn|].
  intros y Hy. destruct (In_nth _ _ 0 Hy) as [i [Hi Ey]]. pose proof (Nat.lt_le_trans _ _ _ Hi (Nat.eq_le_incl _ _ Len)) as Hi'.
  specialize (H i Hi' eq_refl).
  assert (H' : first_match lower st' n (ns_cs st' n) (label st (nth i (m_rows (getmat st m)) 0)) = Some y)
    by (rewrite <- Ey; exact H).
  destruct (first_match_some lower _ _ _ _ _ H') as [_ K].
  rewrite <- (first_match_key lower st' n _ _ _ K). exact H'.
Qed.

Theorem canon_mat_after_import8_l : forall x o x' y n m,
  step8 lower x o = (x', y) -> succeeded y = true -> taxa_wf x -> imports8 x o = Some (RMat n [] m) ->
  m < length (s_mats (x_st x')) -> n < s_nns (x_st x') -> canon_mat (x_st x') m.
Proof.
  intros x o x' y n m H S W R V Vn.
  pose proof (import_resolves_first_match_step8_l lower x o x' y _ H S W R) as K. cbn [route_ok] in K.
  eapply mat_resolved_canon; [exact K | exact V | exact Vn].
Qed.

(* ---- containers: a tree or a matrix ---- *)
Inductive cont := CTree (t : oid) | CMat (m : oid).
Definition c_ns (st : state) (c : cont) : oid := match c with CTree t => t_ns (gettree st t) | CMat m => m_ns (getmat st m) end.
Definition c_taxa (st : state) (c : cont) : list oid := match c with CTree t => t_refs (gettree st t) | CMat m => m_rows (getmat st m) end.
Definition canon_c (st : state) (c : cont) : Prop := match c with CTree t => canon lower st t | CMat m => canon_mat st m end.
Definition quiet_c (x : xstate) (ops : list op8) (c : cont) : Prop :=
  match c with CTree t => quiet_hist lower x ops t | CMat m => quiet_hist_mat x ops m end.

Lemma canon_c_first : forall st c y, canon_c st c -> In y (c_taxa st c) ->
  first_match lower st (c_ns st c) (ns_cs st (c_ns st c)) (label st y) = Some y.
Proof. intros st c y C I. destruct c; destruct C as [_ [_ C]]; apply C, I. Qed.

Lemma canon_c_equal_labels_l : forall st c1 c2 y1 y2,
  canon_c st c1 -> canon_c st c2 -> c_ns st c1 = c_ns st c2 ->
  In y1 (c_taxa st c1) -> In y2 (c_taxa st c2) ->
  key lower (ns_cs st (c_ns st c1)) (label st y1) = key lower (ns_cs st (c_ns st c1)) (label st y2) ->
  y1 = y2.
Proof.
  intros st c1 c2 y1 y2 C1 C2 E I1 I2 K. pose proof (canon_c_first st c1 y1 C1 I1) as F1. pose proof (canon_c_first st c2 y2 C2 I2) as F2.
  rewrite <- E in F2. rewrite (first_match_key lower st _ _ _ _ K) in F1. rewrite F1 in F2. injection F2 as F2. exact F2.
Qed.

Lemma canon_c_kept_history8_l : forall ops x c,
  taxa_wf x -> canon_c (x_st x) c -> quiet_c x ops c ->
  canon_c (x_st (run_state8 lower x ops)) c
  /\ c_ns (x_st (run_state8 lower x ops)) c = c_ns (x_st x) c
  /\ c_taxa (x_st (run_state8 lower x ops)) c = c_taxa (x_st x) c.
Proof.
  intros ops x c W C Q. destruct c as [t|m]; cbn [canon_c quiet_c c_ns c_taxa] in *.
  - destruct (canon_kept_history8_l lower ops x t W C Q) as [D E]. split; [exact D|]. rewrite E. split; reflexivity.
  - destruct (canon_mat_kept_history8_l ops x m W C Q) as [D E]. split; [exact D|]. rewrite E. split; reflexivity.
Qed.

(* two resolved containers (trees or matrices) under one namespace, any later history that does not re-write them and
   does not purge: labels equal under the case rule sit on one taxon object *)
Theorem history_equal_labels_one_taxon_mat8_l : forall ops x c1 c2,
  taxa_wf x -> canon_c (x_st x) c1 -> canon_c (x_st x) c2 -> c_ns (x_st x) c1 = c_ns (x_st x) c2 ->
  quiet_c x ops c1 -> quiet_c x ops c2 ->
  let st' := x_st (run_state8 lower x ops) in
  forall y1 y2, In y1 (c_taxa st' c1) -> In y2 (c_taxa st' c2) ->
    key lower (ns_cs st' (c_ns st' c1)) (label st' y1) = key lower (ns_cs st' (c_ns st' c1)) (label st' y2) ->
    y1 = y2.
Proof.
  intros ops x c1 c2 W C1 C2 E Q1 Q2. cbv zeta.
  destruct (canon_c_kept_history8_l ops x c1 W C1 Q1) as [D1 [N1 _]]. destruct (canon_c_kept_history8_l ops x c2 W C2 Q2) as [D2 [N2 _]].
  intros y1 y2 I1 I2 K. apply (canon_c_equal_labels_l _ c1 c2 y1 y2 D1 D2); [|exact I1 | exact I2 | exact K].
  exact (eq_trans N1 (eq_trans E (eq_sym N2))).
Qed.

End CanonMat.

(* ---- canon_mat as a boolean ---- *)
Definition canon_matb (lower : lbl -> lbl) (st : state) (m : oid) : bool :=
  Nat.ltb m (length (s_mats st)) && Nat.ltb (m_ns (getmat st m)) (s_nns st) &&
  forallb (fun y => match first_match lower st (m_ns (getmat st m)) (ns_cs st (m_ns (getmat st m))) (label st y) with
                    | Some z => Nat.eqb z y
                    | None => false
                    end) (m_rows (getmat st m)).

Lemma canon_matb_sound : forall lower st m, canon_matb lower st m = true -> canon_mat lower st m.
Proof.
  intros lower st m H. unfold canon_matb in H. apply andb_prop in H. destruct H as [H H3]. apply andb_prop in H. destruct H as [H1 H2].
  split; [apply ltb_lt', H1|]. split; [apply ltb_lt', H2|]. intros y Hy.
  pose proof (forallb_In _ _ _ _ H3 Hy) as K. cbv beta in K.
  destruct (first_match lower st (m_ns (getmat st m)) (ns_cs st (m_ns (getmat st m))) (label st y)) as [z|]; [|discriminate].
  apply Nat.eqb_eq in K. subst. reflexivity.
Qed.
