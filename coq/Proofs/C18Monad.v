(* C18 - the script monad: inversion lemmas, consumption of draws *)
From Coq Require Import QArith List Bool Arith Lia.
From DV Require Import Model.C18Model.
Import ListNotations.
Open Scope nat_scope.

Lemma bnd_Done {A B} (m : M A) (f : A -> M B) r b r'' :
  bnd m f r = Done b r'' -> exists a r', m r = Done a r' /\ f a r' = Done b r''.
Proof. unfold bnd. destruct (m r) as [a r'| | | |]; try discriminate. eauto. Qed.

Lemma bnd_NoFuel {A B} (m : M A) (f : A -> M B) r :
  bnd m f r = NoFuel -> m r = NoFuel \/ exists a r', m r = Done a r' /\ f a r' = NoFuel.
Proof. unfold bnd. destruct (m r) as [a r'| | | |]; try discriminate; eauto. Qed.

Lemma ret_Done {A} (a b : A) r r' : ret a r = Done b r' -> a = b /\ r = r'.
Proof. unfold ret. intros H. inversion H. auto. Qed.

Definition left_ (r : rs) : nat := length (fst r).

Lemma d_exp_Done : forall rate r q r', d_exp rate r = Done q r' ->
  exists t, fst r = DExp q :: t /\ r' = (t, CExp rate :: snd r).
Proof.
  unfold d_exp. intros rate [s c] q r' H. simpl in *. destruct s as [|[] t]; try discriminate.
  inversion H; subst. eauto.
Qed.

Lemma d_unit_Done : forall r q r', d_unit r = Done q r' ->
  exists t, fst r = DUnit q :: t /\ r' = (t, CUnit :: snd r).
Proof.
  unfold d_unit. intros [s c] q r' H. simpl in *. destruct s as [|[] t]; try discriminate.
  inversion H; subst. eauto.
Qed.

Lemma d_gauss_Done : forall mu sg r q r', d_gauss mu sg r = Done q r' ->
  exists z t, fst r = DGauss z :: t /\ r' = (t, CGauss mu sg :: snd r).
Proof.
  unfold d_gauss. intros mu sg [s c] q r' H. simpl in *. destruct s as [|[] t]; try discriminate.
  inversion H; subst. eauto.
Qed.

Lemma d_perm_Done : forall n r p r', d_perm n r = Done p r' ->
  is_perm n p = true /\ exists t, fst r = DPerm p :: t /\ r' = (t, CShuffle n :: snd r).
Proof.
  unfold d_perm. intros n [s c] p r' H. simpl in *. destruct s as [|[] t]; try discriminate.
  destruct (is_perm n p0) eqn:E; try discriminate. inversion H; subst. eauto.
Qed.

Lemma d_choice_Done : forall n r i r', d_choice n r = Done i r' ->
  i < n /\ exists t, fst r = DIndex i :: t /\ r' = (t, CChoice n :: snd r).
Proof.
  unfold d_choice. intros n [s c] i r' H. simpl in *. destruct (n =? 0); try discriminate.
  destruct s as [|[] t]; try discriminate.
  destruct (i0 <? n) eqn:E; try discriminate. inversion H; subst. apply Nat.ltb_lt in E. eauto.
Qed.

Lemma d_randint_Done : forall lo hi r i r', d_randint lo hi r = Done i r' ->
  lo <= i <= hi /\ exists t, fst r = DIndex i :: t /\ r' = (t, CRandint lo hi :: snd r).
Proof.
  unfold d_randint. intros lo hi [s c] i r' H. simpl in *. destruct (hi <? lo); try discriminate.
  destruct s as [|[] t]; try discriminate.
  destruct ((lo <=? i0) && (i0 <=? hi)) eqn:E; try discriminate. inversion H; subst.
  apply andb_true_iff in E. destruct E as [E1 E2]. apply Nat.leb_le in E1, E2. eauto.
Qed.

Lemma d_sample2_Done : forall n r i j r', d_sample2 n r = Done (i, j) r' ->
  i < n /\ j < n /\ i <> j /\ exists t, fst r = DSample [i; j] :: t /\ r' = (t, CSample n 2 :: snd r).
Proof.
  unfold d_sample2. intros n [s c] i j r' H. simpl in *. destruct (n <? 2); try discriminate.
  destruct s as [|[] t]; try discriminate.
  destruct s as [|a [|b [|]]]; try discriminate.
  destruct ((a <? n) && (b <? n) && negb (a =? b)) eqn:E; try discriminate. inversion H; subst.
  apply andb_true_iff in E. destruct E as [E E3]. apply andb_true_iff in E. destruct E as [E1 E2].
  apply Nat.ltb_lt in E1, E2. apply negb_true_iff in E3. apply Nat.eqb_neq in E3. eauto 8.
Qed.

(* every successful draw consumes exactly one entry *)
Lemma d_exp_left : forall rate r q r', d_exp rate r = Done q r' -> S (left_ r') = left_ r.
Proof. intros. apply d_exp_Done in H. destruct H as (t & E & ->). unfold left_. rewrite E. reflexivity. Qed.
Lemma d_unit_left : forall r q r', d_unit r = Done q r' -> S (left_ r') = left_ r.
Proof. intros. apply d_unit_Done in H. destruct H as (t & E & ->). unfold left_. rewrite E. reflexivity. Qed.
Lemma d_gauss_left : forall mu sg r q r', d_gauss mu sg r = Done q r' -> S (left_ r') = left_ r.
Proof. intros. apply d_gauss_Done in H. destruct H as (z & t & E & ->). unfold left_. rewrite E. reflexivity. Qed.
Lemma d_perm_left : forall n r p r', d_perm n r = Done p r' -> S (left_ r') = left_ r.
Proof. intros. apply d_perm_Done in H. destruct H as (_ & t & E & ->). unfold left_. rewrite E. reflexivity. Qed.
Lemma d_choice_left : forall n r i r', d_choice n r = Done i r' -> S (left_ r') = left_ r.
Proof. intros. apply d_choice_Done in H. destruct H as (_ & t & E & ->). unfold left_. rewrite E. reflexivity. Qed.
Lemma d_randint_left : forall lo hi r i r', d_randint lo hi r = Done i r' -> S (left_ r') = left_ r.
Proof. intros. apply d_randint_Done in H. destruct H as (_ & t & E & ->). unfold left_. rewrite E. reflexivity. Qed.
Lemma d_sample2_left : forall n r ij r', d_sample2 n r = Done ij r' -> S (left_ r') = left_ r.
Proof.
  intros n r [i j] r' H. apply d_sample2_Done in H. destruct H as (_ & _ & _ & t & E & ->).
  unfold left_. rewrite E. reflexivity.
Qed.

(* the draw primitives never run out of fuel *)
Lemma d_exp_fuel : forall rate r, d_exp rate r <> NoFuel.
Proof. unfold d_exp. intros rate [s c]. simpl. destruct s as [|[] t]; discriminate. Qed.
Lemma d_unit_fuel : forall r, d_unit r <> NoFuel.
Proof. unfold d_unit. intros [s c]. simpl. destruct s as [|[] t]; discriminate. Qed.
Lemma d_gauss_fuel : forall mu sg r, d_gauss mu sg r <> NoFuel.
Proof. unfold d_gauss. intros mu sg [s c]. simpl. destruct s as [|[] t]; discriminate. Qed.
Lemma d_perm_fuel : forall n r, d_perm n r <> NoFuel.
Proof. unfold d_perm. intros n [s c]. simpl. destruct s as [|[] t]; try discriminate. destruct (is_perm n p); discriminate. Qed.
Lemma d_choice_fuel : forall n r, d_choice n r <> NoFuel.
Proof.
  unfold d_choice. intros n [s c]. simpl. destruct (n =? 0); [discriminate|].
  destruct s as [|[] t]; try discriminate. destruct (i <? n); discriminate.
Qed.
Lemma d_randint_fuel : forall lo hi r, d_randint lo hi r <> NoFuel.
Proof.
  unfold d_randint. intros lo hi [s c]. simpl. destruct (hi <? lo); [discriminate|].
  destruct s as [|[] t]; try discriminate. destruct (_ && _); discriminate.
Qed.
Lemma d_sample2_fuel : forall n r, d_sample2 n r <> NoFuel.
Proof.
  unfold d_sample2. intros n [s c]. simpl. destruct (n <? 2); [discriminate|].
  destruct s as [|[] t]; try discriminate. destruct s as [|a [|b [|]]]; try discriminate.
  destruct (_ && _); discriminate.
Qed.

Lemma expovariate_Done : forall rate r q r', expovariate rate r = Done q r' -> d_exp rate r = Done q r'.
Proof. intros rate r q r' H. unfold expovariate in H. destruct (Qeq_bool rate 0); [discriminate|exact H]. Qed.

Lemma expovariate_fuel : forall rate r, expovariate rate r <> NoFuel.
Proof. intros rate r. unfold expovariate. destruct (Qeq_bool rate 0); [discriminate|apply d_exp_fuel]. Qed.

Ltac step H := let a := fresh "a" in let r := fresh "r" in let H1 := fresh "Hs" in
  apply bnd_Done in H; destruct H as (a & r & H1 & H).
