(* C14: the distance matrix of a rose tree whose leaves are equidistant from the root satisfies the
   three-point condition *)
From Coq Require Import ZArith QArith List Bool Lia.
From DV Require Import Model.PyPrims Model.Tree Model.C14Model Model.C14Spec
     Proofs.C14Dict Proofs.C14Pdm Proofs.C14Mrca.
Import ListNotations.
Open Scope Z_scope.

(* down through the child that holds the leaf *)
Lemma down_kid a i x0 lb e ks c :
  good_kids ks -> In c ks -> has a c = true ->
  down a (T i x0 lb e ks) = match down a c with Some ls => Some (fst ls + len0 c, snd ls + 1) | None => None end.
Proof.
  intros G Hc Ha. destruct ks as [|k r]; [destruct Hc|]. rewrite down_node.
  revert G Hc. generalize (k :: r). intro l. induction l as [|c1 rest IH]; intros G Hc; [destruct Hc|].
  destruct (good_kids_cons _ _ G) as [G1 [G2 D]]. simpl. destruct Hc as [->|Hc].
  - rewrite down_pfind. destruct (pfind a c) eqn:E; [reflexivity|]. apply pfind_has in Ha. congruence.
  - assert (Hn : has a c1 = false).
    { destruct (has a c1) eqn:E; [|reflexivity]. rewrite (D a E c Hc) in Ha. discriminate. }
    rewrite (down_pfind a c1), (pfind_none a c1 Hn). simpl. apply IH; assumption.
Qed.

Lemma has_kid a i x0 lb e ks : ks <> [] -> has a (T i x0 lb e ks) = true -> exists c, In c ks /\ has a c = true.
Proof.
  intros Hk H. destruct ks as [|k r]; [congruence|]. rewrite has_node in H. apply existsb_exists in H. exact H.
Qed.

Lemma equidistant_kid h i x0 lb e ks c :
  good_kids ks -> In c ks -> equidistant h (T i x0 lb e ks) -> equidistant (h - len0 c) c.
Proof.
  intros G Hc E a Ha. destruct (E a) as [s Hs].
  - destruct ks as [|k r]; [destruct Hc|]. rewrite has_node. apply existsb_exists. exists c. auto.
  - rewrite (down_kid a i x0 lb e ks c G Hc Ha) in Hs. destruct (down a c) as [[l s0]|]; [|discriminate].
    simpl in Hs. inversion Hs. exists s0. f_equal. f_equal. lia.
Qed.

Lemma nonneg_kid i x0 lb e ks c : In c ks -> nonneg_lengths (T i x0 lb e ks) -> nonneg_lengths c /\ 0 <= len0 c.
Proof.
  intros Hc N. split.
  - intros n Hn. apply N. eapply preorder_kid; eassumption.
  - apply N. eapply preorder_kid; [exact Hc | apply preorder_self].
Qed.

(* lca and dist through the children *)
Lemma lca_same_kid a b i x0 lb e ks c :
  good_kids ks -> In c ks -> has a c = true -> has b c = true ->
  lca a b (T i x0 lb e ks) = lca a b c.
Proof.
  intros G Hc Ha Hb. rewrite lca_node.
  assert (Ht : has a (T i x0 lb e ks) && has b (T i x0 lb e ks) = true).
  { destruct ks as [|k r]; [destruct Hc|]. rewrite !has_node. apply andb_true_iff.
    split; apply existsb_exists; exists c; auto. }
  rewrite Ht.
  assert (F : first_some (lca a b) ks = lca a b c).
  { revert G Hc. clear Ht. induction ks as [|c1 rest IH]; intros G Hc; [destruct Hc|].
    destruct (good_kids_cons _ _ G) as [G1 [G2 D]]. simpl. destruct Hc as [->|Hc].
    - destruct (lca a b c) eqn:E; [reflexivity|]. exfalso.
      destruct c as [i1 x1 lb1 e1 ks1]. rewrite lca_node, Ha, Hb in E. simpl in E.
      destruct (first_some (lca a b) ks1); discriminate.
    - assert (Hn : has a c1 = false).
      { destruct (has a c1) eqn:E; [|reflexivity]. rewrite (D a E c Hc) in Ha. discriminate. }
      rewrite (lca_none a b c1) by (rewrite Hn; reflexivity). apply IH; assumption. }
  rewrite F. destruct (lca a b c) eqn:E; [reflexivity|]. exfalso.
  destruct c as [i1 x1 lb1 e1 ks1]. rewrite lca_node, Ha, Hb in E. simpl in E.
  destruct (first_some (lca a b) ks1); discriminate.
Qed.

Lemma dist_same_kid a b i x0 lb e ks c :
  good_kids ks -> In c ks -> has a c = true -> has b c = true ->
  dist (T i x0 lb e ks) a b = dist c a b.
Proof. intros G Hc Ha Hb. unfold dist. rewrite (lca_same_kid a b i x0 lb e ks c G Hc Ha Hb). reflexivity. Qed.

Lemma lca_diff_kids a b i x0 lb e ks ca cb :
  good_kids ks -> In ca ks -> In cb ks -> has a ca = true -> has b cb = true -> has b ca = false ->
  lca a b (T i x0 lb e ks) = Some (T i x0 lb e ks).
Proof.
  intros G Hca Hcb Ha Hb Nb. rewrite lca_node.
  assert (Ht : has a (T i x0 lb e ks) && has b (T i x0 lb e ks) = true).
  { destruct ks as [|k r]; [destruct Hca|]. rewrite !has_node. apply andb_true_iff.
    split; apply existsb_exists; [exists ca | exists cb]; auto. }
  rewrite Ht. rewrite first_some_none; [reflexivity|].
  intros c Hc. apply lca_none.
  destruct (has a c) eqn:Eac; [|reflexivity]. simpl.
  (* c holds a, so c = ca (disjoint leaf sets), and ca does not hold b *)
  assert (c = ca); [|subst; exact Nb].
  clear - G Hc Hca Eac Ha. induction ks as [|c1 rest IH]; [destruct Hc|].
  destruct (good_kids_cons _ _ G) as [G1 [G2 D]].
  destruct Hc as [->|Hc]; destruct Hca as [->|Hca]; auto.
  - rewrite (D a Eac ca Hca) in Ha. discriminate.
  - rewrite (D a Ha c Hc) in Eac. discriminate.
Qed.

Lemma dist_diff_kids a b h i x0 lb e ks ca cb :
  good_kids ks -> In ca ks -> In cb ks -> has a ca = true -> has b cb = true -> has b ca = false ->
  equidistant h (T i x0 lb e ks) -> dist (T i x0 lb e ks) a b = Some (h + h).
Proof.
  intros G Hca Hcb Ha Hb Nb E. unfold dist.
  rewrite (lca_diff_kids a b i x0 lb e ks ca cb G Hca Hcb Ha Hb Nb).
  assert (Hat : has a (T i x0 lb e ks) = true).
  { destruct ks as [|k r]; [destruct Hca|]. rewrite has_node. apply existsb_exists. exists ca. auto. }
  assert (Hbt : has b (T i x0 lb e ks) = true).
  { destruct ks as [|k r]; [destruct Hca|]. rewrite has_node. apply existsb_exists. exists cb. auto. }
  destruct (E a Hat) as [sa Ea]. destruct (E b Hbt) as [sb Eb]. rewrite Ea, Eb. reflexivity.
Qed.

Lemma depth_nonneg a : forall t l s, nonneg_lengths t -> down a t = Some (l, s) -> 0 <= l.
Proof.
  induction t as [i x0 lb e ks IH] using tree_ind'. intros l s N D. destruct ks as [|k r].
  - simpl in D. destruct (oz_eqb x0 (Some a)); inversion D. lia.
  - rewrite down_node in D.
    assert (Nk : forall c, In c (k :: r) -> nonneg_lengths c /\ 0 <= len0 c) by (intros c Hc; eapply nonneg_kid; eassumption).
    clear N. induction IH as [|c cs Hc Hcs IHcs]; [discriminate|]. simpl in D.
    destruct (down a c) as [[l0 s0]|] eqn:Dc.
    + simpl in D. inversion D. destruct (Nk c (or_introl eq_refl)) as [N1 N2].
      specialize (Hc l0 s0 N1 eq_refl). lia.
    + apply IHcs; [exact D|]. intros c' Hc'. apply Nk. right. exact Hc'.
Qed.

(* distances are bounded by twice the depth *)
Lemma dist_le_2h a b : forall t h d, good_leaves t -> nonneg_lengths t -> equidistant h t ->
  has a t = true -> has b t = true -> dist t a b = Some d -> 0 <= h /\ d <= h + h.
Proof.
  induction t as [i x0 lb e ks IH] using tree_ind'. intros h d G N E Ha Hb Hd.
  destruct ks as [|k r].
  - (* a single leaf: a = b, depth 0 *)
    destruct (E a Ha) as [s Hs].
    assert (Da : down a (T i x0 lb e []) = Some (0, 0)) by (simpl; simpl in Ha; rewrite Ha; reflexivity).
    assert (Db : down b (T i x0 lb e []) = Some (0, 0)) by (simpl; simpl in Hb; rewrite Hb; reflexivity).
    rewrite Da in Hs. inversion Hs. subst h.
    unfold dist in Hd. rewrite lca_node, Ha, Hb in Hd. cbn [andb first_some] in Hd. rewrite Da, Db in Hd.
    inversion Hd. simpl. lia.
  - pose proof (good_leaves_kids _ _ _ _ _ _ G) as GK.
    destruct (has_kid a i x0 lb e (k :: r) ltac:(discriminate) Ha) as [ca [Hca Haca]].
    destruct (has_kid b i x0 lb e (k :: r) ltac:(discriminate) Hb) as [cb [Hcb Hbcb]].
    pose proof (good_kids_Forall _ GK) as GF. rewrite Forall_forall in GF, IH.
    destruct (nonneg_kid i x0 lb e (k :: r) ca Hca N) as [Nca Lca].
    pose proof (equidistant_kid h i x0 lb e (k :: r) ca GK Hca E) as Eca.
    destruct (has b ca) eqn:Hbca.
    + rewrite (dist_same_kid a b i x0 lb e (k :: r) ca GK Hca Haca Hbca) in Hd.
      destruct (IH ca Hca (h - len0 ca) d (GF ca Hca) Nca Eca Haca Hbca Hd) as [H1 H2]. lia.
    + rewrite (dist_diff_kids a b h i x0 lb e (k :: r) ca cb GK Hca Hcb Haca Hbcb Hbca E) in Hd.
      inversion Hd. subst d.
      destruct (E a Ha) as [sa Ea]. pose proof (depth_nonneg a _ _ _ N Ea). lia.
Qed.

Lemma tree_three_point : forall t h, good_leaves t -> nonneg_lengths t -> equidistant h t ->
  forall x y z d1 d2 d3, has x t = true -> has y t = true -> has z t = true ->
    dist t x z = Some d1 -> dist t x y = Some d2 -> dist t y z = Some d3 -> d1 <= d2 \/ d1 <= d3.
Proof.
  induction t as [i x0 lb e ks IH] using tree_ind'. intros h G N E x y z d1 d2 d3 Hx Hy Hz D1 D2 D3.
  destruct ks as [|k r].
  - assert (x = y) by (eapply leaf_has_unique; [|exact Hx|exact Hy]; reflexivity).
    assert (y = z) by (eapply leaf_has_unique; [|exact Hy|exact Hz]; reflexivity).
    subst y z. left. rewrite D1 in D2. inversion D2. lia.
  - pose proof (good_leaves_kids _ _ _ _ _ _ G) as GK.
    destruct (has_kid x i x0 lb e (k :: r) ltac:(discriminate) Hx) as [cx [Hcx Hxc]].
    destruct (has_kid y i x0 lb e (k :: r) ltac:(discriminate) Hy) as [cy [Hcy Hyc]].
    destruct (has_kid z i x0 lb e (k :: r) ltac:(discriminate) Hz) as [cz [Hcz Hzc]].
    pose proof (good_kids_Forall _ GK) as GF. rewrite Forall_forall in GF, IH.
    destruct (nonneg_kid i x0 lb e (k :: r) cx Hcx N) as [Ncx Lcx].
    pose proof (equidistant_kid h i x0 lb e (k :: r) cx GK Hcx E) as Ecx.
    destruct (has z cx) eqn:Hzx.
    + rewrite (dist_same_kid x z i x0 lb e (k :: r) cx GK Hcx Hxc Hzx) in D1.
      destruct (has y cx) eqn:Hyx.
      * rewrite (dist_same_kid x y i x0 lb e (k :: r) cx GK Hcx Hxc Hyx) in D2.
        rewrite (dist_same_kid y z i x0 lb e (k :: r) cx GK Hcx Hyx Hzx) in D3.
        apply (IH cx Hcx (h - len0 cx) (GF cx Hcx) Ncx Ecx x y z d1 d2 d3); assumption.
      * rewrite (dist_diff_kids x y h i x0 lb e (k :: r) cx cy GK Hcx Hcy Hxc Hyc Hyx E) in D2. inversion D2. subst d2.
        destruct (dist_le_2h x z cx (h - len0 cx) d1 (GF cx Hcx) Ncx Ecx Hxc Hzx D1) as [_ B]. left. lia.
    + rewrite (dist_diff_kids x z h i x0 lb e (k :: r) cx cz GK Hcx Hcz Hxc Hzc Hzx E) in D1. inversion D1. subst d1.
      destruct (has y cx) eqn:Hyx.
      * rewrite (dist_diff_kids y z h i x0 lb e (k :: r) cx cz GK Hcx Hcz Hyx Hzc Hzx E) in D3. inversion D3. right. lia.
      * rewrite (dist_diff_kids x y h i x0 lb e (k :: r) cx cy GK Hcx Hcy Hxc Hyc Hyx E) in D2. inversion D2. left. lia.
Qed.

(* ---------- hence UPGMA on the matrix of an ultrametric tree ---------- *)
From DV Require Import Proofs.C14Clu Proofs.C14Proofs Proofs.C14Upgma.

Lemma uq_le a b : a <= b -> (uq a <= uq b)%Q.
Proof. intro H. unfold uq. rewrite !Qred_correct. unfold Qle. simpl. lia. Qed.

Lemma upgma_on_ultrametric_tree_l t p h order :
  good_leaves t -> t_kids t <> [] -> nonneg_lengths t -> equidistant h t -> compile_from_tree t = Ok p ->
  NoDup order -> order <> [] -> (forall a, In a order -> In (Some a) (leaf_taxa t)) ->
  exists T, upgma_tree (qtable p true) order = Ok T /\
    (forall a b, In a order -> In b order -> a <> b ->
       exists q d, qdist T a b = Some q /\ dist t a b = Some d /\ (q == uq d)%Q) /\
    (exists H, forall a, In a order -> exists q, qdown a T = Some q /\ (q == H)%Q).
Proof.
  intros G Hk Nn E Ec N Ne Hin.
  destruct (pdm_exact_p t G Hk) as [p' [E' [Hv _]]]. rewrite Ec in E'. inversion E'. subst p'.
  assert (Val : forall a b, In a order -> In b order ->
            exists d, dist t a b = Some d /\ mval (qtable p true) a b = uq d).
  { intros a b Ha Hb. destruct (Hv a b (Hin a Ha) (Hin b Hb)) as [r [d [s [_ [Ed [_ [T1 _]]]]]]].
    exists d. split; [exact Ed|]. unfold mval. rewrite qtable_get, T1. reflexivity. }
  assert (C : mcomplete (qtable p true) order).
  { intros a b Ha Hb _. destruct (Hv a b (Hin a Ha) (Hin b Hb)) as [r [d [s [_ [_ [_ [T1 _]]]]]]].
    rewrite qtable_get, T1. discriminate. }
  assert (S : msymmetric (qtable p true) order).
  { intros a b Ha Hb _. unfold mval. rewrite !qtable_get.
    destruct (pdm_sym_p t p G Hk Ec a b) as [S1 _]. rewrite S1. reflexivity. }
  assert (U : ultrametric3 (qtable p true) order).
  { intros x y z Hx Hy Hz _ _ _.
    destruct (Val x z Hx Hz) as [d1 [D1 V1]]. destruct (Val x y Hx Hy) as [d2 [D2 V2]].
    destruct (Val y z Hy Hz) as [d3 [D3 V3]]. rewrite V1, V2, V3.
    destruct (tree_three_point t h G Nn E x y z d1 d2 d3) as [L|L]; try assumption;
      try (apply has_In; apply Hin; assumption); [left | right]; apply uq_le; exact L. }
  destruct (upgma_realizes_ultrametric_l (qtable p true) order N Ne C S U) as [T [Et [Hd Hh]]].
  exists T. split; [exact Et|]. split; [|exact Hh].
  intros a b Ha Hb Nab. destruct (Hd a b Ha Hb Nab) as [q [Hq Eq]]. destruct (Val a b Ha Hb) as [d [Dd Vd]].
  exists q, d. split; [exact Hq|]. split; [exact Dd|]. rewrite Eq, Vd. reflexivity.
Qed.

(* a witness: ((A:1,B:1):2,(C:2,D:2):1) *)
Definition ex_ultra : tree :=
  T 0 None None None
    [T 1 None None (Some 2048) [T 2 (Some 0) None (Some 1024) []; T 3 (Some 1) None (Some 1024) []];
     T 4 None None (Some 1024) [T 5 (Some 2) None (Some 2048) []; T 6 (Some 3) None (Some 2048) []]].

Lemma ex_ultra_ok : good_leaves ex_ultra /\ t_kids ex_ultra <> [] /\ nonneg_lengths ex_ultra /\ equidistant 3072 ex_ultra.
Proof.
  split; [|split; [|split]].
  - split; simpl; [repeat (constructor; [simpl; intuition discriminate|]); constructor | intuition discriminate].
  - discriminate.
  - intros n Hn. simpl in Hn. repeat (destruct Hn as [<-|Hn]; [unfold len0; simpl; lia|]). destruct Hn.
  - intros a Ha. apply has_In in Ha. simpl in Ha.
    destruct Ha as [Ha|[Ha|[Ha|[Ha|[]]]]]; inversion Ha; subst; eexists; reflexivity.
Qed.
