(* C18 (wave 8) - labels: the namespace gains no duplicate label, the N taxa on the leaves carry
   pairwise distinct labels, and this is preserved by successive simulations that share one
   namespace (the final namespace of one call is the supplied namespace of the next).
   The label-in-use set of the taxon-assignment block is the label list of the NAMESPACE
   (taxa_block passes `ns` as `labels`), extended by every label minted. *)
From Coq Require Import QArith List Bool Arith Lia Permutation.
From DV Require Import Model.C18Model Proofs.C18Lists Proofs.C18Tree Proofs.C18Monad Proofs.C18BD Proofs.C18FBD Proofs.C18Examples.
Import ListNotations.
Open Scope nat_scope.

Lemma NoDup_snoc {A} (l : list A) (a : A) : NoDup l -> ~ In a l -> NoDup (l ++ [a]).
Proof.
  intros H Hn. apply NoDup_rev in H. rewrite <- (rev_involutive (l ++ [a])). apply NoDup_rev.
  rewrite rev_app_distr. simpl. constructor; [|exact H]. intro Hc. apply in_rev in Hc. auto.
Qed.

(* the fresh-label loop with the repaired site (a new taxon is always created) *)
Lemma assign_taxa_labels : forall cs leaves rpool labels ns counter m ns',
  assign_taxa true cs leaves rpool labels ns counter = Some (m, ns') ->
  (forall a, In a ns -> In a labels) -> NoDup ns ->
  NoDup ns' /\ exists extra, ns' = ns ++ extra /\ (forall a, In a extra -> ~ In a labels).
Proof.
  intros cs. induction leaves as [|nd rest IH]; intros rpool labels ns counter m ns' H Hsub Hnd; cbn [assign_taxa] in H.
  - inversion H; subst. split; [exact Hnd|]. exists []. rewrite app_nil_r. split; [reflexivity|intros a []].
  - destruct rpool as [|tx rpool'].
    + destruct (find_fresh _ labels counter) as [k|] eqn:Ef; [|discriminate].
      apply find_fresh_notin in Ef. destruct Ef as [Hnot _].
      unfold require_taxon in H. cbn iota in H.
      destruct (assign_taxa true cs rest [] (LT true k :: labels) (ns ++ [LT true k]) k) as [[m1 ns1]|] eqn:Ea; [|discriminate].
      inversion H; subst. clear H.
      destruct (IH [] (LT true k :: labels) (ns ++ [LT true k]) k m1 ns' Ea) as (N & extra & E & F).
      * intros a Ha. apply in_app_or in Ha. destruct Ha as [Ha|[<-|[]]]; [right; auto|left; reflexivity].
      * apply NoDup_snoc; [exact Hnd|]. intro Hc. apply Hnot. apply Hsub. exact Hc.
      * split; [exact N|]. exists (LT true k :: extra). split; [rewrite E, <- app_assoc; reflexivity|].
        intros a [<-|Ha]; [exact Hnot|]. intro Hc. apply (F a Ha). right. exact Hc.
    + destruct (assign_taxa true cs rest rpool' labels ns counter) as [[m1 ns1]|] eqn:Ea; [|discriminate].
      inversion H; subst. clear H. eapply IH; eauto.
Qed.

Lemma taxa_block_labels : forall cs ns t r t' ns' r',
  taxa_block true cs ns t r = Done (t', ns') r' -> NoDup ns ->
  NoDup ns' /\ exists extra, ns' = ns ++ extra /\ (forall a, In a extra -> ~ In a ns).
Proof.
  intros cs ns t r t' ns' r' H Hn. unfold taxa_block in H.
  step H. step H.
  destruct (assign_taxa _ _ _ _ _ _ _) as [[m ns1]|] eqn:Ea; [|discriminate].
  apply ret_Done in H. destruct H as [H <-]. inversion H; subst. clear H.
  eapply assign_taxa_labels; eauto.
Qed.

Definition leaf_label (ns : list lab) (o : option nat) : option lab :=
  match o with Some i => nth_error ns i | None => None end.

Lemma leaf_labels_nodup : forall ns l,
  NoDup ns -> NoDup l -> (forall x, In x l -> exists i, x = Some i /\ i < length ns) ->
  NoDup (map (leaf_label ns) l).
Proof.
  intros ns l Hns. induction l as [|x r IH]; intros Hl Hin; simpl; [constructor|].
  inversion Hl as [|? ? Hx Hr]; subst. constructor.
  - intro Hc. apply in_map_iff in Hc. destruct Hc as (y & Ey & Hy).
    destruct (Hin x (or_introl eq_refl)) as (i & -> & Hi).
    destruct (Hin y (or_intror Hy)) as (j & -> & Hj). simpl in Ey.
    assert (i = j) by (eapply (proj1 (NoDup_nth_error ns) Hns); eauto; congruence).
    subst j. contradiction.
  - apply IH; [exact Hr|]. intros y Hy. apply Hin. right. exact Hy.
Qed.

(* birth_death_tree *)
Theorem bd_labels_proved : forall cs P ns script t ns' r,
  1 <= p_n P -> NoDup ns ->
  bd_sim true cs P ns script = Done (t, ns') r ->
  NoDup ns' /\ (exists extra, ns' = ns ++ extra /\ forall a, In a extra -> ~ In a ns) /\
  NoDup (map (leaf_label ns') (leaf_taxa t)).
Proof.
  intros cs P ns script t ns' r HN Hns H.
  destruct (bd_result_spec_proved true cs P ns script t ns' r HN H) as (_ & _ & _ & _ & E & F & _).
  unfold bd_sim, bd_run in H. step H. unfold bd_finish in H. step H.
  destruct (taxa_block_labels _ _ _ _ _ _ _ H Hns) as (N & X).
  split; [exact N|]. split; [exact X|].
  apply leaf_labels_nodup; [exact N|apply F; left; reflexivity|exact E].
Qed.

(* fast_birth_death_tree *)
Theorem fbd_labels_proved : forall cs P ns script t ns' r,
  1 <= p_n P -> NoDup ns ->
  fbd_sim true cs P ns script = Done (t, ns') r ->
  NoDup ns' /\ (exists extra, ns' = ns ++ extra /\ forall a, In a extra -> ~ In a ns) /\
  NoDup (map (leaf_label ns') (leaf_taxa t)).
Proof.
  intros cs P ns script t ns' r HN Hns H.
  destruct (fbd_result_spec_proved true cs P ns script t ns' r HN H) as (_ & _ & _ & _ & E & F & _).
  unfold fbd_sim, fbd_run in H. step H. step H.
  destruct (taxa_block_labels _ _ _ _ _ _ _ H Hns) as (N & X).
  split; [exact N|]. split; [exact X|].
  apply leaf_labels_nodup; [exact N|apply F; left; reflexivity|exact E].
Qed.

(* two successive simulations sharing one namespace: the second receives what the first left *)
Theorem bd_shared_namespace_proved : forall cs P1 P2 ns s1 s2 t1 ns1 r1 t2 ns2 r2,
  1 <= p_n P1 -> 1 <= p_n P2 -> NoDup ns ->
  bd_sim true cs P1 ns s1 = Done (t1, ns1) r1 ->
  bd_sim true cs P2 ns1 s2 = Done (t2, ns2) r2 ->
  NoDup ns2 /\ (exists e1 e2, ns1 = ns ++ e1 /\ ns2 = ns ++ e1 ++ e2) /\
  NoDup (map (leaf_label ns2) (leaf_taxa t2)) /\
  (* the first tree still denotes the same, pairwise distinct, labels in the grown namespace *)
  map (leaf_label ns2) (leaf_taxa t1) = map (leaf_label ns1) (leaf_taxa t1) /\
  NoDup (map (leaf_label ns2) (leaf_taxa t1)).
Proof.
  intros cs P1 P2 ns s1 s2 t1 ns1 r1 t2 ns2 r2 H1 H2 Hns A B.
  destruct (bd_labels_proved _ _ _ _ _ _ _ H1 Hns A) as (N1 & (e1 & E1 & _) & L1).
  destruct (bd_labels_proved _ _ _ _ _ _ _ H2 N1 B) as (N2 & (e2 & E2 & _) & L2).
  destruct (bd_result_spec_proved true cs P1 ns s1 t1 ns1 r1 H1 A) as (_ & _ & _ & _ & E & _).
  assert (Same : map (leaf_label ns2) (leaf_taxa t1) = map (leaf_label ns1) (leaf_taxa t1)).
  { apply map_ext_in. intros x Hx. destruct (E x Hx) as (i & -> & Hi). simpl. subst ns2.
    apply nth_error_app1. exact Hi. }
  split; [exact N2|]. split; [exists e1, e2; split; [exact E1|rewrite E2, E1, <- app_assoc; reflexivity]|].
  split; [exact L2|]. split; [exact Same|]. rewrite Same. exact L1.
Qed.

(* hypotheses satisfiable: N = 2 into the namespace ["t1"], then N = 2 again on what it left *)
Example bd_shared_namespace_example :
  exists t1 ns1 r1 t2 ns2 r2,
    bd_sim true false (mkBdp 1%Q 0%Q 0%Q 0%Q 2) [LT false 1] dup_script = Done (t1, ns1) r1 /\
    bd_sim true false (mkBdp 1%Q 0%Q 0%Q 0%Q 3) ns1
      [DExp 1%Q; DUnit 0%Q; DGauss 0%Q; DGauss 0%Q; DGauss 0%Q; DGauss 0%Q;
       DExp 1%Q; DUnit 0%Q; DGauss 0%Q; DGauss 0%Q; DGauss 0%Q; DGauss 0%Q; DPerm [1; 0]; DPerm [0; 1; 2]] = Done (t2, ns2) r2 /\
    ns1 = [LT false 1; LT true 1] /\ ns2 = [LT false 1; LT true 1; LT true 2].
Proof. vm_compute. eexists _, _, _, _, _, _. repeat split; reflexivity. Qed.

(* the same statement under the namespace's CASE-INSENSITIVE rule is false of the code as it stands:
   the label-in-use test compares exact strings, so T1 is minted next to t1 *)
Theorem bd_labels_case_rule_refuted_proved :
  exists P ns script t ns' r,
    1 <= p_n P /\ NoDup (map lab_lower ns) /\
    bd_sim true false P ns script = Done (t, ns') r /\ ~ NoDup (map lab_lower ns').
Proof.
  exists (mkBdp 1%Q 0%Q 0%Q 0%Q 2), [LT false 1], dup_script.
  vm_compute. eexists _, _, _. split; [lia|]. split; [repeat constructor; simpl; tauto|]. split; [reflexivity|].
  intro H. inversion H as [|? ? Hn _]; subst. apply Hn. simpl. auto.
Qed.
