(* C13: the Newick routes (list, single tree with offsets, iterator, array) agree. *)
From Coq Require Import ZArith List Bool Lia.
From DV Require Import Model.PyPrims Model.C13Model.
Import ListNotations.
Open Scope Z_scope.

Section Newick.
Variable T : Type.
Variables lower upper : str -> str.
Variable parse_tree : mapper -> tz -> res (option T * mapper * tz).
Variable set_label : T -> option str -> T.
Variable add_comments : T -> list str -> T.
Variable vl : bool.
Variable vs : bool.
Variables va vk : bool.

(* the list loop is a function of what the iterator loop does *)
Lemma newick_loops_agree : forall fuel m z acc,
  newick_read_loop T parse_tree fuel m z acc =
  match newick_yield_loop T parse_tree fuel m z with
  | (out, Ok (m', z')) => Ok (acc ++ out, m', z')
  | (_, Err e) => Err e
  | (_, OutOfFuel) => OutOfFuel
  end.
Proof.
  induction fuel as [|f IH]; intros m z acc; simpl; [reflexivity|].
  destruct (parse_tree m z) as [[[ot m1] z1]|e|]; simpl; try reflexivity.
  destruct ot as [t|]; simpl.
  - rewrite IH. destruct (newick_yield_loop T parse_tree f m1 z1) as [out r].
    destruct r as [[m' z']|e|]; try reflexivity.
    rewrite <- app_assoc. reflexivity.
  - rewrite app_nil_r. reflexivity.
Qed.

Notation L := (treelist_read T lower upper parse_tree set_label add_comments va vl vs Newick).
Notation Y := (yield_from_files T lower upper parse_tree set_label add_comments vl Newick).

Lemma newick_list_of_yield : forall ns0 d,
  L ns0 d = match Y ns0 d with
            | (out, Ok ns) => Ok (out, ns)
            | (_, Err e) => Err e
            | (_, OutOfFuel) => OutOfFuel
            end.
Proof.
  intros ns0 d. unfold treelist_read, newick_read, yield_from_files.
  rewrite newick_loops_agree.
  destruct (newick_yield_loop T parse_tree (doc_fuel d) (new_mapper lower ns0 false) (doc_tz d)) as [out r].
  destruct r as [[m' z']|e|]; reflexivity.
Qed.

(* Tree.get and TreeList.get with offsets are selections from the list route's result *)
Lemma newick_tree_get : forall c k d,
  tree_get T lower upper parse_tree set_label add_comments va vk vl vs Newick c k d =
  match L [] d with
  | Ok (ts, _) => select_tree T set_label vk [ts] (match c with Some c => c | None => 0 end)
                              (match k with Some k => k | None => 0 end)
  | Err e => Err e
  | OutOfFuel => OutOfFuel
  end.
Proof.
  intros. unfold tree_get, read_blocks, treelist_read.
  destruct (newick_read T lower parse_tree [] d) as [[ts ns]|e|]; reflexivity.
Qed.

Lemma newick_list_off : forall c k d, (c <> None \/ k <> None) ->
  treelist_get_off T lower upper parse_tree set_label add_comments va vl vs Newick c k d =
  match L [] d with
  | Ok (ts, _) => select_offsets T [ts] (match c with Some c => c | None => 0 end) k
  | Err e => Err e
  | OutOfFuel => OutOfFuel
  end.
Proof.
  intros c k d H. unfold treelist_get_off, read_blocks, treelist_get, treelist_read.
  destruct c, k; try (destruct H; congruence);
    destruct (newick_read T lower parse_tree [] d) as [[ts ns]|e|]; reflexivity.
Qed.

Lemma newick_dataset : forall a d,
  dataset_get T lower upper parse_tree set_label add_comments vl vs Newick a d =
  match L [] d with
  | Ok (ts, _) => Ok [ts]
  | Err e => Err e
  | OutOfFuel => OutOfFuel
  end.
Proof.
  intros. unfold dataset_get, read_blocks, treelist_read.
  destruct (newick_read T lower parse_tree [] d) as [[ts ns]|e|]; reflexivity.
Qed.

(* selection from a single collection *)
Lemma select_tree_single : forall (ts : list T) (k : nat) t,
  nth_error ts k = Some t ->
  select_tree T set_label vk [ts] 0 (Z.of_nat k) = Ok (got_label T set_label vk t).
Proof.
  intros ts k t H. unfold select_tree. simpl.
  assert (Hlen : (k < length ts)%nat) by (apply nth_error_Some; congruence).
  destruct ts as [|x r]; [simpl in Hlen; lia|]. simpl is_nil. cbv iota.
  unfold py_index.
  assert (E1 : (0 <=? Z.of_nat k) && (Z.of_nat k <? Z.of_nat (length (x :: r))) = true).
  { apply andb_true_iff. split; [apply Z.leb_le; lia | apply Z.ltb_lt; lia]. }
  rewrite E1. rewrite Nat2Z.id. rewrite H. reflexivity.
Qed.

Lemma select_tree_single_out : forall (ts : list T) (k : Z),
  ts <> [] -> Z.of_nat (length ts) <= k ->
  select_tree T set_label vk [ts] 0 k = Err IndexErr.
Proof.
  intros ts k Hne Hk. unfold select_tree. simpl.
  destruct ts as [|x r]; [congruence|]. simpl is_nil. cbv iota.
  unfold py_index.
  assert (E1 : (0 <=? k) && (k <? Z.of_nat (length (x :: r))) = false).
  { apply andb_false_iff. right. apply Z.ltb_ge. lia. }
  assert (E2 : (k <? 0) && (0 <=? Z.of_nat (length (x :: r)) + k) = false).
  { apply andb_false_iff. left. apply Z.ltb_ge. lia. }
  rewrite E1, E2. reflexivity.
Qed.

Lemma select_tree_single_empty : forall k, select_tree T set_label vk [[]] 0 k = Err ValueErr.
Proof. reflexivity. Qed.

(* negative offsets count from the end, as Python does *)
Lemma select_tree_single_neg : forall (ts : list T) (j : nat) t,
  (0 < j <= length ts)%nat -> nth_error ts (length ts - j) = Some t ->
  select_tree T set_label vk [ts] 0 (- Z.of_nat j) = Ok (got_label T set_label vk t).
Proof.
  intros ts j t Hj H. unfold select_tree. simpl.
  destruct ts as [|x r]; [simpl in Hj; lia|]. simpl is_nil. cbv iota.
  unfold py_index.
  assert (E1 : (0 <=? - Z.of_nat j) && (- Z.of_nat j <? Z.of_nat (length (x :: r))) = false).
  { apply andb_false_iff. left. apply Z.leb_gt. lia. }
  assert (E2 : (- Z.of_nat j <? 0) && (0 <=? Z.of_nat (length (x :: r)) + - Z.of_nat j) = true).
  { apply andb_true_iff. split; [apply Z.ltb_lt; lia | apply Z.leb_le; lia]. }
  rewrite E1, E2.
  replace (Z.to_nat (Z.of_nat (length (x :: r)) + - Z.of_nat j)) with (length (x :: r) - j)%nat by lia.
  rewrite H. reflexivity.
Qed.

(* the full statement of routes_agree_newick *)
Theorem routes_agree_newick_l : forall (ns0 : list str) (d : doc),
  (* the list route is determined by the iterator: same trees, same order, same namespace; it
     fails exactly when the iterator fails, with the same error, the iterator having handed out
     a prefix before *)
  (forall out r, Y ns0 d = (out, r) ->
     L ns0 d = match r with Ok ns => Ok (out, ns) | Err e => Err e | OutOfFuel => OutOfFuel end)
  /\
  (* hence: whenever the list route succeeds the iterator is complete and equal *)
  (forall ts ns, L ns0 d = Ok (ts, ns) -> Y ns0 d = (ts, Ok ns))
  /\
  (* Tree.get(collection_offset=0 or None, tree_offset=k) is the k-th tree of the list (with the
     label keyword assigned), IndexError beyond the end, ValueError for an empty source *)
  (forall ts ns, L [] d = Ok (ts, ns) ->
     (forall c k t, (c = None \/ c = Some 0) -> nth_error ts k = Some t ->
        tree_get T lower upper parse_tree set_label add_comments va vk vl vs Newick c (Some (Z.of_nat k)) d
        = Ok (got_label T set_label vk t))
     /\ (forall c t, (c = None \/ c = Some 0) -> nth_error ts 0 = Some t ->
        tree_get T lower upper parse_tree set_label add_comments va vk vl vs Newick c None d = Ok (got_label T set_label vk t))
     /\ (forall c k, (c = None \/ c = Some 0) -> ts <> [] -> Z.of_nat (length ts) <= k ->
        tree_get T lower upper parse_tree set_label add_comments va vk vl vs Newick c (Some k) d = Err IndexErr)
     /\ (forall c k, (c = None \/ c = Some 0) -> ts = [] ->
        tree_get T lower upper parse_tree set_label add_comments va vk vl vs Newick c k d = Err ValueErr))
  /\
  (* and Tree.get fails like the list route when that fails *)
  (forall e c k, L [] d = Err e ->
     tree_get T lower upper parse_tree set_label add_comments va vk vl vs Newick c k d = Err e).
Proof.
  intros ns0 d. split; [|split; [|split]].
  - intros out r HY. rewrite newick_list_of_yield, HY. destruct r; reflexivity.
  - intros ts ns HL. rewrite newick_list_of_yield in HL.
    destruct (Y ns0 d) as [out r]. destruct r as [ns'|e|]; inversion HL; subst; reflexivity.
  - intros ts ns HL. repeat split.
    + intros c k t Hc Hn. rewrite newick_tree_get, HL.
      destruct Hc; subst c; apply select_tree_single; assumption.
    + intros c t Hc Hn. rewrite newick_tree_get, HL.
      destruct Hc; subst c; apply (select_tree_single ts 0 t); assumption.
    + intros c k Hc Hne Hk. rewrite newick_tree_get, HL.
      destruct Hc; subst c; apply select_tree_single_out; assumption.
    + intros c k Hc He. rewrite newick_tree_get, HL. subst ts.
      destruct Hc; subst c; reflexivity.
  - intros e c k HL. rewrite newick_tree_get, HL. reflexivity.
Qed.

(* ---- fuel: the drivers never run out of fuel when the statement parser makes progress ---- *)

(* what is left to read: unfetched tokens, plus one for the end-of-stream fetch *)
Definition measure (z : tz) : nat := (length (z_toks z) + (if z_eof z then 0 else 1))%nat.

Lemma newick_fuel_suffices_l :
  (forall m z t m' z', parse_tree m z = Ok (Some t, m', z') -> (measure z' < measure z)%nat) ->
  (forall m z, parse_tree m z <> OutOfFuel) ->
  forall fuel m z acc, (measure z < fuel)%nat ->
    newick_read_loop T parse_tree fuel m z acc <> OutOfFuel.
Proof.
  intros Hprog Hnf. induction fuel as [|f IH]; intros m z acc Hlt; [lia|].
  simpl. destruct (parse_tree m z) as [[[ot m1] z1]|e|] eqn:E; simpl; try discriminate.
  - destruct ot as [t|]; [|discriminate].
    apply IH. apply Hprog in E. lia.
  - exfalso. apply (Hnf m z). assumption.
Qed.

End Newick.
