(* C11, wave 7: the closure invariant over the extended history language of Model/C11W7Model.v
   (shallow copies of containers, caller-owned taxon_mapping_memo objects) *)
From Coq Require Import List Bool Arith ZArith Lia.
From DV Require Import Model.PyPrims Model.C11Model Model.C11W7Model Proofs.C11Base Proofs.C11Inv Proofs.C11Ops
  Proofs.C11Ops2 Proofs.C11Step Proofs.C11Step2 Proofs.C11Step3 Proofs.C11Final.
Import ListNotations.
Open Scope nat_scope.

Section WithLower.
Variable lower : lbl -> lbl.

(* the old operations are the new ones with a throw-away empty memo *)
Lemma import_tree_m_nil : forall st ln tr s,
  (fst (fst (import_tree_m lower st ln tr s [])), snd (fst (import_tree_m lower st ln tr s []))) = import_tree lower st ln tr s.
Proof.
  intros. unfold import_tree_m, import_tree. destruct (Nat.eqb (t_ns (gettree st tr)) ln); [reflexivity|].
  destruct s; try reflexivity. destruct (migrate_tree lower st tr ln unify []). reflexivity.
Qed.

Lemma import_tree_m_spec : forall XL XD st ln tr s mm,
  ClosedX XL XD st -> Holders XL st tr ln ->
  let st' := fst (fst (import_tree_m lower st ln tr s mm)) in
  let ok := snd (fst (import_tree_m lower st ln tr s mm)) in
  ClosedX XL XD st' /\ frame st st' /\ mono st st'
  /\ (ok = true -> tr < length (s_trees st) -> t_ns (gettree st' tr) = ln)
  /\ (forall x, x <> tr -> gettree st' x = gettree st x).
Proof.
  intros XL XD st ln tr s mm C H. unfold import_tree_m.
  destruct (Nat.eqb (t_ns (gettree st tr)) ln) eqn:E.
  - apply Nat.eqb_eq in E. cbn [fst snd].
    split; [exact C|]. split; [apply frame_refl|]. split; [intros k x Hx; exact Hx|].
    split; [intros _ _; exact E|]. intros; reflexivity.
  - destruct s as [u| |].
    + destruct (migrate_tree_spec lower XL XD st tr ln u mm C H) as [C' [F [M [N K]]]].
      destruct (migrate_tree lower st tr ln u mm) as [st1 mm']. cbn [fst snd] in *.
      split; [exact C'|]. split; [exact F|]. split; [exact M|]. split; [intros _; exact N | exact K].
    + cbn [fst snd]. destruct (update_tree_spec XL XD st tr ln C H) as [C' [F [M [N K]]]].
      split; [exact C'|]. split; [exact F|]. split; [exact M|]. split; [intros _; exact N | exact K].
    + cbn [fst snd]. split; [exact C|]. split; [apply frame_refl|]. split; [intros k x Hx; exact Hx|].
      split; [intro D; discriminate|]. intros; reflexivity.
Qed.

Lemma copy_mat_closed : forall st m,
  Closed st -> Closed (fst (alloc_mat st (mkMat (m_ns (getmat st m)) (m_rows (getmat st m))))).
Proof.
  intros st m C. apply (alloc_mat_closedX (fun _ => False) (fun _ => False)); [exact C|].
  intros y Hy. cbn [m_ns m_rows] in *. apply (closed_mat_ok NoX NoX st m C). exact Hy.
Qed.

Lemma copy_list_closed : forall st l,
  Closed st -> l < length (s_lists st) -> Closed (fst (alloc_list st (mkTL (l_ns (getlist st l)) (l_trees (getlist st l))))).
Proof.
  intros st l C Vl. apply (alloc_list_closedX (fun _ => False) (fun _ => False)); [exact C|].
  intros tr Htr. cbn [l_ns l_trees] in *.
  destruct (closed_list_member st l tr C Vl Htr) as [Vt N].
  exists (gettree st tr). split; [apply lt_tree_get; exact Vt | exact N].
Qed.

Lemma place_after_import : forall st l tr s mm trs',
  Closed st -> l < length (s_lists st) -> tr < length (s_trees st) ->
  holders_ok st (l_ns (getlist st l)) tr = true ->
  let r := import_tree_m lower st (l_ns (getlist st l)) tr s mm in
  (forall x, In x (trs' (l_trees (getlist (fst (fst r)) l))) -> x = tr \/ In x (l_trees (getlist (fst (fst r)) l))) ->
  Closed (if snd (fst r)
          then set_list (fst (fst r)) l (mkTL (l_ns (getlist (fst (fst r)) l)) (trs' (l_trees (getlist (fst (fst r)) l))))
          else fst (fst r)).
Proof.
  intros st l tr s mm trs' C Vl Vt D r Sub.
  destruct (import_tree_m_spec NoX NoX st (l_ns (getlist st l)) tr s mm C (holders_ok_spec _ _ _ _ D))
    as [C1 [[FL [FM [FD FT]]] [M [N _]]]].
  fold r in C1, FL, FM, FD, FT, M, N.
  destruct (snd (fst r)) eqn:OK; [|exact C1].
  assert (GL : getlist (fst (fst r)) l = getlist st l) by (unfold getlist; rewrite FL; reflexivity).
  rewrite GL in *. rewrite <- GL at 1.
  apply (place_tree_closed (fst (fst r)) l tr _ C1); try (rewrite ?FL; lia).
  - rewrite GL. apply N; [reflexivity | exact Vt].
  - rewrite GL. exact Sub.
Qed.

Theorem closed_step7_l : forall x o,
  Closed (x_st x) -> disciplined7 x o = true -> snd (step7 lower x o) <> ORecon ->
  Closed (x_st (fst (step7 lower x o))).
Proof.
  intros x o C D R. destruct o; cbn [step7 disciplined7] in *.
  - (* Base *)
    pose proof (closed_step_l lower (x_st x) o C D) as K.
    destruct (step lower (x_st x) o) as [st1 r]. cbn [fst snd x_st with_st] in *. apply K. exact R.
  - (* FreeTaxon *)
    pose proof (alloc_taxon_grows (x_st x) l) as G.
    destruct (alloc_taxon (x_st x) l) as [st1 t]. cbn [fst x_st with_st] in *.
    apply Closed_NoX. eapply grows_closedX; [exact G | apply Closed_NoX; exact C].
  - (* NewMemo *)
    destruct (valid_pairs (x_st x) es); exact C.
  - (* CopyMat *)
    destruct (valid_mat (x_st x) m); [|exact C].
    pose proof (copy_mat_closed (x_st x) m C) as K.
    destruct (alloc_mat (x_st x) _) as [st1 c]. exact K.
  - (* CopyList *)
    destruct (valid_list (x_st x) l) eqn:Vl; [|exact C]. apply ltb_lt' in Vl.
    pose proof (copy_list_closed (x_st x) l C Vl) as K.
    destruct (alloc_list (x_st x) _) as [st1 c]. exact K.
  - (* AppendM *)
    destruct (valid_list (x_st x) l && valid_tree (x_st x) t && valid_memo x k) eqn:V; [|exact C].
    apply andb_true_iff in V. destruct V as [V _]. apply andb_true_iff in V. destruct V as [Vl Vt].
    apply ltb_lt' in Vl. apply ltb_lt' in Vt.
    pose proof (place_after_import (x_st x) l t s (getmemo x k) (fun ts => ts ++ [t]) C Vl Vt D) as K.
    cbv zeta in K.
    destruct (import_tree_m lower (x_st x) (l_ns (getlist (x_st x) l)) t s (getmemo x k)) as [[st1 ok] mm].
    cbn [fst snd] in K. unfold list_push.
    destruct ok; cbn [fst x_st with_memo]; apply K; intros y Hy; apply in_app_or in Hy;
      (destruct Hy as [Hy|[Hy|[]]]; [right; exact Hy | left; symmetry; exact Hy]).
  - (* InsertM *)
    destruct (valid_list (x_st x) l && valid_tree (x_st x) t && valid_memo x k) eqn:V; [|exact C].
    apply andb_true_iff in V. destruct V as [V _]. apply andb_true_iff in V. destruct V as [Vl Vt].
    apply ltb_lt' in Vl. apply ltb_lt' in Vt.
    pose proof (place_after_import (x_st x) l t s (getmemo x k)
                  (fun ts => insert_at ts (clamp_index (length ts) i) t) C Vl Vt D) as K.
    cbv zeta in K.
    destruct (import_tree_m lower (x_st x) (l_ns (getlist (x_st x) l)) t s (getmemo x k)) as [[st1 ok] mm].
    cbn [fst snd] in K.
    destruct ok; cbn [fst x_st with_memo]; apply K; intros y Hy; apply In_insert_at in Hy; exact Hy.
  - (* MigrateTreeM *)
    destruct (valid_tree (x_st x) t && valid_ns (x_st x) n && valid_memo x k); [|exact C].
    pose proof (migrate_tree_spec lower NoX NoX (x_st x) t n u (getmemo x k) C (holders_ok_spec _ _ _ _ D)) as [K _].
    destruct (migrate_tree lower (x_st x) t n u (getmemo x k)) as [st1 mm]. exact K.
  - (* ReconstructTreeM *)
    destruct (valid_tree (x_st x) t && valid_memo x k); [|exact C].
    pose proof (migrate_tree_spec lower NoX NoX (x_st x) t (t_ns (gettree (x_st x) t)) u (getmemo x k) C
                  (closed_holders NoX NoX _ _ C)) as [K _].
    destruct (migrate_tree lower (x_st x) t _ u (getmemo x k)) as [st1 mm]. exact K.
  - (* MigrateListM *)
    destruct (valid_list (x_st x) l && valid_ns (x_st x) n && valid_memo x k) eqn:V; [|exact C].
    apply andb_true_iff in V. destruct V as [V _]. apply andb_true_iff in V. destruct V as [Vl _]. apply ltb_lt' in Vl.
    cbn [disciplined] in D. apply andb_true_iff in D. destruct D as [D1 D2].
    destruct (migrate_list_spec lower NoX NoX (x_st x) l n u (getmemo x k) C Vl) as [K _].
    + intros tr i L Htr Ei _ Ne Hin.
      pose proof (holders_ok_spec NoX _ _ _ (forallb_In _ _ _ tr D1 Htr)) as H.
      apply (H i L); [|apply NoX_no | exact Hin]. simpl. rewrite nth_error_upd_other by exact Ne. exact Ei.
    + intros i d Ed _ Hin a Ha. eapply ds_list_free_spec; try eassumption. reflexivity.
    + destruct (migrate_list lower (x_st x) l n u (getmemo x k)) as [st1 mm]. cbn [fst x_st with_memo] in *.
      eapply ClosedX_weaken; [| |exact K]; [intros i [[] _] | intros i Hi; exact Hi].
  - (* ReconstructListM *)
    destruct (valid_list (x_st x) l && valid_memo x k) eqn:V; [|exact C].
    apply andb_true_iff in V. destruct V as [Vl _]. apply ltb_lt' in Vl.
    unfold reconstruct_list.
    pose proof (migrate_trees_spec lower (l_trees (getlist (x_st x) l)) NoX NoX (x_st x) (l_ns (getlist (x_st x) l)) u
                  (getmemo x k) C) as K.
    destruct (migrate_trees lower (x_st x) _ u _ (getmemo x k)) as [st1 mm]. cbn [fst x_st with_memo] in *.
    apply K. intros tr Htr. destruct (closed_list_member (x_st x) l tr C Vl Htr) as [_ N]. rewrite <- N.
    apply (closed_holders NoX NoX). exact C.
  - (* MigrateMatM *)
    destruct (valid_mat (x_st x) m && valid_ns (x_st x) n && valid_memo x k); [|exact C].
    pose proof (migrate_mat_spec lower NoX NoX (x_st x) m n u (getmemo x k) C) as S.
    destruct (migrate_mat lower (x_st x) m n u (getmemo x k)) as [[st1 mm] ok]. cbn [fst snd x_st with_memo] in *.
    destruct ok; [|exfalso; apply R; reflexivity]. apply S; [|reflexivity].
    intros i d Ed _ Hin a Ha. eapply ds_mat_free_spec; try eassumption. reflexivity.
  - (* ReconstructMatM *)
    destruct (valid_mat (x_st x) m && valid_memo x k) eqn:V; [|exact C].
    apply andb_true_iff in V. destruct V as [Vm _]. apply ltb_lt' in Vm.
    pose proof (migrate_mat_spec lower NoX NoX (x_st x) m (m_ns (getmat (x_st x) m)) u (getmemo x k) C) as S.
    destruct (migrate_mat lower (x_st x) m _ u (getmemo x k)) as [[st1 mm] ok]. cbn [fst snd x_st with_memo] in *.
    destruct ok; [|exfalso; apply R; reflexivity]. apply S; [|reflexivity].
    intros i d Ed NX Hin a Ha.
    eapply (ds_clause_mat NoX NoX (x_st x) m (getmat (x_st x) m) C);
      [apply nth_nth_error; exact Vm | exact Ed | exact NX | exact Hin | exact Ha].
Qed.

Lemma closed_run7_l : forall ops x,
  Closed (x_st x) -> hist_ok7 lower x ops = true -> Closed (x_st (run_state7 lower x ops)).
Proof.
  induction ops as [|o r IH]; intros x C H; [exact C|].
  cbn [hist_ok7] in H. apply andb_true_iff in H. destruct H as [H H3]. apply andb_true_iff in H. destruct H as [H1 H2].
  unfold run_state7. cbn [fold_left]. apply IH; [|exact H3].
  apply closed_step7_l; [exact C | exact H1 |]. intro E. rewrite E in H2. discriminate.
Qed.

Lemma closed_reachable7_l : forall ops,
  hist_ok7 lower x_init ops = true -> Closed (x_st (run_state7 lower x_init ops)).
Proof. intros ops H. apply closed_run7_l; [exact closed_init_l | exact H]. Qed.

(* the old history language is the Base fragment *)
Lemma base_step_l : forall x o,
  step7 lower x (Base o) = (with_st x (fst (step lower (x_st x) o)), snd (step lower (x_st x) o)).
Proof. intros. cbn [step7]. destruct (step lower (x_st x) o). reflexivity. Qed.

End WithLower.
