(* C19 translator tie, part 1: the generated row algebra (Gen/CharMatrix.v, regenerated from
   charmatrixmodel.py on every run) equals the hand-written model (Model/C19Model.v) *)
From Coq Require Import ZArith List Bool Lia.
From DV Require Import Model.PyPrims Model.C19Model Model.C19Prims Gen.CharMatrix.
From DV Require Import Proofs.C19Alist Proofs.C19Rows.
Import ListNotations.
Open Scope Z_scope.

Lemma set_rows_id m : set_rows m (m_rows m) = m.
Proof. destruct m; reflexivity. Qed.

Lemma set_rows_twice m a b : set_rows (set_rows m a) b = set_rows m b.
Proof. reflexivity. Qed.

(* a `for` whose body always falls through is a fold *)
Lemma for_each_fold_inv {A St : Type} (Inv : list A -> St -> Prop) (body : A -> St -> St * res unit) (f : St -> A -> St) :
  (forall x rest s, Inv (x :: rest) s -> body x s = (f s x, Ok tt) /\ Inv rest (f s x)) ->
  forall l s, Inv l s -> for_each l body s = (fold_left f l s, Ok tt).
Proof.
  intros H. induction l as [|x l IH]; intros s I; simpl; [reflexivity|].
  destruct (H x l s I) as [E I']. rewrite E. apply IH. exact I'.
Qed.

Lemma fold_left_map {A B C} (g : A -> B) (f : C -> B -> C) l : forall s,
  fold_left f (map g l) s = fold_left (fun s x => f s (g x)) l s.
Proof. induction l as [|x l IH]; intros s; simpl; [reflexivity | apply IH]. Qed.

Lemma for_each_map {A B St} (g : A -> B) (body : B -> St -> St * res unit) l : forall s,
  for_each (map g l) body s = for_each l (fun x => body (g x)) s.
Proof.
  induction l as [|x l IH]; intros s; simpl; [reflexivity|].
  destruct (body (g x) s) as [s' [u|e|]]; [apply IH | reflexivity | reflexivity].
Qed.

(* folding a row operation through the matrix record *)
Lemma fold_set_rows {A} (g : rows -> A -> rows) (l : list A) : forall m,
  fold_left (fun s x => set_rows s (g (m_rows s) x)) l m = set_rows m (fold_left g l (m_rows m)).
Proof.
  induction l as [|x l IH]; intros m; simpl; [symmetry; apply set_rows_id|].
  rewrite IH. reflexivity.
Qed.

(* a `for` over the keys of a dict whose body applies a row operation g to the receiver's dict *)
Lemma loop_rows (Inv : rows -> matrix -> Prop) (body : tid -> matrix -> matrix * res unit)
      (g : rows -> tid * row -> rows) :
  (forall p rest s, Inv (p :: rest) s ->
     body (fst p) s = (set_rows s (g (m_rows s) p), Ok tt) /\ Inv rest (set_rows s (g (m_rows s) p))) ->
  forall (o : rows) self, Inv o self ->
  for_each (map fst o) body self = (set_rows self (fold_left g o (m_rows self)), Ok tt).
Proof.
  intros H o self I. rewrite (for_each_map (@fst tid row)).
  rewrite (for_each_fold_inv Inv (fun x => body (fst x)) (fun s p => set_rows s (g (m_rows s) p)) H o self I).
  rewrite fold_set_rows. reflexivity.
Qed.

Definition blk_of (self : matrix) (r : res matrix) : matrix * res unit := as_blk self r.

Lemma suffix_In {A} (x : A) l o : (exists p, o = p ++ x :: l) -> In x o.
Proof. intros [p E]. subst. apply in_app_iff. right. left. reflexivity. Qed.

(* iteration over the keys of `other`, each looked up in `other`: the pairs of `other` *)
Definition sfx {A} (o l : list A) : Prop := exists p, o = p ++ l.

Lemma sfx_tail {A} (o : list A) x l : sfx o (x :: l) -> sfx o l.
Proof. intros [p E]. exists (p ++ [x]). rewrite <- app_assoc. exact E. Qed.

Lemma sfx_get (o : rows) k v l : NoDup (keys o) -> sfx o ((k, v) :: l) -> aget k o = Some v.
Proof. intros ND S. apply In_aget; [exact ND | apply (suffix_In _ l); exact S]. Qed.

Section G.
Variable lower : lbl -> lbl.
Variable suffix : lbl -> Z -> lbl.
Variable locus : Z -> lbl.
Variable taxa_of : nsid -> list tid.

(* CharacterDataSequence.extend: the argument is materialised first, so also a sequence extended by
   itself is simply doubled *)
Lemma gen_extend_eq alias (self cv : row) :
  gen_extend alias self cv = (self ++ (if alias then self else cv), Ok tt).
Proof. reflexivity. Qed.

Lemma ns_test (self other : matrix) : negb (Z.eqb (m_ns other) (m_ns self)) = negb (same_ns self other).
Proof. reflexivity. Qed.

Ltac loop_to_fold o :=
  rewrite (for_each_map (@fst tid row));
  erewrite (for_each_fold_inv (fun l (s : matrix) => sfx o l)).

Lemma gen_add_sequences_eq (self other : matrix) :
  NoDup (keys (m_rows other)) ->
  gen_add_sequences self other = as_blk self (add_sequences self other).
Proof.
  intros ND. unfold gen_add_sequences, add_sequences. rewrite ns_test.
  destruct (negb (same_ns self other)); [reflexivity|].
  unfold py_dict_keys.
  rewrite (loop_rows (fun l (s : matrix) => sfx (m_rows other) l) _
             (fun rs p => if ahas (fst p) rs then rs else aput (fst p) (snd p) rs)).
  - reflexivity.
  - intros [k v] rest s S. split; [|apply (sfx_tail _ _ _ S)]. simpl.
    unfold py_dict_contains, py_dict_get, py_dict_set, py_seq_new. rewrite (sfx_get _ _ _ _ ND S).
    destruct (ahas k (m_rows s)); simpl; [rewrite set_rows_id; reflexivity | reflexivity].
  - exists []. reflexivity.
Qed.

Lemma gen_replace_sequences_eq (self other : matrix) :
  NoDup (keys (m_rows other)) ->
  gen_replace_sequences self other = as_blk self (replace_sequences self other).
Proof.
  intros ND. unfold gen_replace_sequences, replace_sequences. rewrite ns_test.
  destruct (negb (same_ns self other)); [reflexivity|].
  unfold py_dict_keys.
  rewrite (loop_rows (fun l (s : matrix) => sfx (m_rows other) l) _
             (fun rs p => if ahas (fst p) rs then aput (fst p) (snd p) rs else rs)).
  - reflexivity.
  - intros [k v] rest s S. split; [|apply (sfx_tail _ _ _ S)]. simpl.
    unfold py_dict_contains, py_dict_get, py_dict_set, py_seq_new. rewrite (sfx_get _ _ _ _ ND S).
    destruct (ahas k (m_rows s)); simpl; [reflexivity | rewrite set_rows_id; reflexivity].
  - exists []. reflexivity.
Qed.

Lemma gen_update_sequences_eq (self other : matrix) :
  NoDup (keys (m_rows other)) ->
  gen_update_sequences self other = as_blk self (update_sequences self other).
Proof.
  intros ND. unfold gen_update_sequences, update_sequences. rewrite ns_test.
  destruct (negb (same_ns self other)); [reflexivity|].
  unfold py_dict_keys.
  rewrite (loop_rows (fun l (s : matrix) => sfx (m_rows other) l) _
             (fun rs p => aput (fst p) (snd p) rs)).
  - reflexivity.
  - intros [k v] rest s S. split; [|apply (sfx_tail _ _ _ S)]. simpl.
    unfold py_dict_get, py_dict_set, py_seq_new. rewrite (sfx_get _ _ _ _ ND S). reflexivity.
  - exists []. reflexivity.
Qed.

(* extend: `same` tells whether other_matrix is self; then the sequence appended is the receiver's
   own.  Invariant of the loop in that case: the entries not yet visited are still the original ones. *)
Definition ext_inv (same : bool) (o : rows) (l : rows) (s : matrix) : Prop :=
  sfx o l /\ (same = true -> forall k v, In (k, v) l -> aget k (m_rows s) = Some v).

Lemma ext_inv_step same o k v rest s r :
  NoDup (keys o) -> ext_inv same o ((k, v) :: rest) s ->
  ext_inv same o rest (set_rows s (aput k r (m_rows s))).
Proof.
  intros ND [S I]. split; [apply (sfx_tail _ _ _ S)|].
  intros E k' v' Hin. simpl. rewrite aget_aput.
  destruct (Z.eqb_spec k' k) as [X|X].
  - exfalso. subst k'. destruct S as [p Ep]. rewrite Ep in ND. unfold keys in ND. rewrite map_app in ND. simpl in ND.
    apply NoDup_remove_2 in ND. apply ND. apply in_app_iff. right.
    change k with (fst (k, v')). apply in_map. exact Hin.
  - apply (I E). right. exact Hin.
Qed.

Lemma ext_inv_skip same o x rest s : ext_inv same o (x :: rest) s -> ext_inv same o rest s.
Proof.
  intros [S I]. split; [apply (sfx_tail _ _ _ S)|]. intros E k v Hin. apply (I E). right. exact Hin.
Qed.

Lemma gen_extend_sequences_eq (same : bool) (self other : matrix) (addnew : bool) :
  NoDup (keys (m_rows other)) -> (same = true -> other = self) ->
  gen_extend_sequences same self other addnew = as_blk self (extend_sequences self other addnew).
Proof.
  intros ND SAME. unfold gen_extend_sequences, extend_sequences. rewrite ns_test.
  destruct (negb (same_ns self other)); [reflexivity|].
  unfold py_dict_keys.
  rewrite (loop_rows (ext_inv same (m_rows other)) _
             (fun rs p => match aget (fst p) rs with
                          | None => if addnew then aput (fst p) (snd p) rs else rs
                          | Some r => aput (fst p) (r ++ snd p) rs
                          end)).
  - reflexivity.
  - intros [k v] rest s I. cbn [fst snd].
    unfold py_dict_contains, py_dict_get, py_dict_set, py_seq_new, ahas.
    rewrite (sfx_get _ _ _ _ ND (proj1 I)).
    destruct (aget k (m_rows s)) as [r|] eqn:G; cbn [negb].
    + rewrite gen_extend_eq.
      assert (X : (if same then r else v) = v).
      { destruct same; [|reflexivity]. destruct I as [_ I]. specialize (I eq_refl k v (or_introl eq_refl)). congruence. }
      split; [repeat f_equal; exact X | apply (ext_inv_step _ _ _ _ _ _ _ ND I)].
    + destruct addnew; cbn [negb].
      * split; [reflexivity | apply (ext_inv_step _ _ _ _ _ _ _ ND I)].
      * rewrite set_rows_id. split; [reflexivity | apply (ext_inv_skip _ _ _ _ _ I)].
  - split; [exists []; reflexivity|]. intros E k v Hin. rewrite <- (SAME E). apply In_aget; assumption.
Qed.

Lemma gen_extend_matrix_eq (same : bool) (self other : matrix) :
  NoDup (keys (m_rows other)) -> (same = true -> other = self) ->
  gen_extend_matrix same self other = as_blk self (extend_matrix self other).
Proof.
  intros ND SAME. unfold gen_extend_matrix, extend_matrix. rewrite ns_test.
  destruct (negb (same_ns self other)); [reflexivity|].
  unfold py_dict_keys.
  rewrite (loop_rows (ext_inv same (m_rows other)) _
             (fun rs p => match aget (fst p) rs with
                          | Some r => aput (fst p) (r ++ snd p) rs
                          | None => aput (fst p) (snd p) rs
                          end)).
  - reflexivity.
  - intros [k v] rest s I. cbn [fst snd].
    unfold py_dict_contains, py_dict_get, py_dict_set, py_seq_new, ahas.
    rewrite (sfx_get _ _ _ _ ND (proj1 I)).
    destruct (aget k (m_rows s)) as [r|] eqn:G; cbn [negb].
    + rewrite gen_extend_eq.
      assert (X : (if same then r else v) = v).
      { destruct same; [|reflexivity]. destruct I as [_ I]. specialize (I eq_refl k v (or_introl eq_refl)). congruence. }
      split; [repeat f_equal; exact X | apply (ext_inv_step _ _ _ _ _ _ _ ND I)].
    + split; [reflexivity | apply (ext_inv_step _ _ _ _ _ _ _ ND I)].
  - split; [exists []; reflexivity|]. intros E k v Hin. rewrite <- (SAME E). apply In_aget; assumption.
Qed.

End G.
