(* C11, wave 8: non-vacuity examples (the histories are the fixed wave-8 cases of py/dv/c11.py - wave8_cases() -,
   which the harness replays on the library on every run; regenerate when those change) *)
From Coq Require Import List Bool Arith ZArith.
From DV Require Import Model.PyPrims Model.C11Model Model.C11W7Model Model.C11W8Model Proofs.C11Final Proofs.C11W7 Proofs.C11W8.
Import ListNotations.
Open Scope nat_scope.

(* label pool A B C a b c = 0..5; str.lower on it *)
Definition w8_lower : lbl -> lbl := tbl_lower [(0, 3); (1, 4); (2, 5); (3, 3); (4, 4); (5, 5)].

Definition w8_history0 : list op8 :=
  [(Op7 (Base (NewNs false))); (Op7 (Base (NewNs false))); (Op7 (Base (NewNs true))); (Op7 (Base (NewTaxon 0 0))); (Op7 (Base (NewTaxon 0 1))); (Op7 (Base (NewTaxon 1 3))); (Op7 (Base (NewTaxon 1 2))); (Op7 (Base (NewTaxon 2 0))); (Op7 (Base (NewTaxon 2 3))); (Op7 (Base (NewList 0))); (Op7 (Base (NewList 1))); (Op7 (Base (NewList 2))); (Op7 (Base (MkTree 0 [0; 1]))); (Op7 (Base (MkTree 1 [2; 3]))); (Op7 (Base (MkTree 2 [4; 5]))); (Op7 (Base (MkTree 2 [5; 4; 4]))); (Op7 (Base (Append 0 1 SAdd))); (Op7 (Base (Append 0 2 SAdd))); (Op7 (Base (NewNs false))); (Op7 (Base (NewTaxon 3 3))); (Op7 (Base (NewTaxon 3 2))); (Op7 (Base (NewTaxon 3 1))); (Op7 (Base (NewList 3))); (Op7 (Base (NewTreeIn 3 None [6; 7; 8]))); (Op7 (Base (MkTree 3 [7; 6]))); (Op7 (Base (Append 0 5 (SMigrate true)))); (Op7 (Base (Extend 0 (SrcList 3)))); (Op7 (Base (IAdd 0 (SrcList 3)))); (Op7 (Base (SetSlice 0 (Some 1%Z) (Some 2%Z) (SrcList 3)))); (Op7 (Base (AddOp 0 (SrcList 3))))].

Definition w8_history1 : list op8 :=
  [(Op7 (Base (NewNs false))); (Op7 (Base (NewNs false))); (Op7 (Base (NewNs true))); (Op7 (Base (NewTaxon 0 0))); (Op7 (Base (NewTaxon 0 1))); (Op7 (Base (NewTaxon 1 3))); (Op7 (Base (NewTaxon 1 2))); (Op7 (Base (NewTaxon 2 0))); (Op7 (Base (NewTaxon 2 3))); (Op7 (Base (NewList 0))); (Op7 (Base (NewList 1))); (Op7 (Base (NewList 2))); (Op7 (Base (MkTree 0 [0; 1]))); (Op7 (Base (MkTree 1 [2; 3]))); (Op7 (Base (MkTree 2 [4; 5]))); (Op7 (Base (MkTree 2 [5; 4; 4]))); (Op7 (Base (Append 0 1 SAdd))); (Op7 (Base (Append 0 2 SAdd))); (Op7 (Base (NewNs false))); (Op7 (Base (NewTaxon 3 3))); (Op7 (Base (NewTaxon 3 2))); (Op7 (Base (NewTaxon 3 1))); (Op7 (Base (NewList 3))); (Op7 (Base (NewTreeIn 3 None [6; 7; 8]))); (Op7 (Base (NewTreeIn 3 None [6; 7; 8]))); (Op7 (Base (AddOp 0 (SrcList 3)))); (Op7 (Base (MkTree 3 [8; 6]))); (Op7 (Base (Insert 0 0%Z 10 (SMigrate true)))); (Op7 (Base (MkTree 3 [6]))); (Op7 (Base (SetItem 0 (-1)%Z 11))); (Op7 (Base (MigrateList 3 0 true))); (Op7 (Base (ReconstructList 0 true)))].

Definition w8_history2 : list op8 :=
  [(Op7 (Base (NewNs false))); (Op7 (Base (NewNs false))); (Op7 (Base (NewNs true))); (Op7 (Base (NewTaxon 0 0))); (Op7 (Base (NewTaxon 0 1))); (Op7 (Base (NewTaxon 1 3))); (Op7 (Base (NewTaxon 1 2))); (Op7 (Base (NewTaxon 2 0))); (Op7 (Base (NewTaxon 2 3))); (Op7 (Base (NewList 0))); (Op7 (Base (NewList 1))); (Op7 (Base (NewList 2))); (Op7 (Base (MkTree 0 [0; 1]))); (Op7 (Base (MkTree 1 [2; 3]))); (Op7 (Base (MkTree 2 [4; 5]))); (Op7 (Base (MkTree 2 [5; 4; 4]))); (Op7 (Base (Append 0 1 SBogus))); (Op7 (Base (Append 0 1 (SMigrate true)))); (BadKw (Base (Insert 0 0%Z 2 (SMigrate true)))); (Op7 (Base (Insert 0 0%Z 2 (SMigrate true)))); (BadKw (Base (Append 0 3 SAdd))); (BadKw (Base (MigrateTree 0 1 true))); (Op7 (Base (MigrateTree 0 1 true))); (BadKw (Base (Append 1 0 (SMigrate true)))); (BadKw (Base (ReconstructList 0 true))); (BadKw (Base (MigrateList 0 2 false))); (Op7 (Base (NewTreeIn 0 (Some 1) [0]))); (Op7 (Base (NewTreeIn 0 (Some 0) [0]))); (Op7 (Base (ArrayAdd 2 0))); (Op7 (Base (Remove 2 0))); (Op7 (Base (Pop 2 0%Z)))].

Definition w8_history3 : list op8 :=
  [(Op7 (Base (NewNs false))); (Op7 (Base (NewNs false))); (Op7 (Base (NewNs true))); (Op7 (Base (NewTaxon 0 0))); (Op7 (Base (NewTaxon 0 1))); (Op7 (Base (NewTaxon 1 3))); (Op7 (Base (NewTaxon 1 2))); (Op7 (Base (NewTaxon 2 0))); (Op7 (Base (NewTaxon 2 3))); (Op7 (Base (NewList 0))); (Op7 (Base (NewList 1))); (Op7 (Base (NewList 2))); (Op7 (Base (MkTree 0 [0; 1]))); (Op7 (Base (MkTree 1 [2; 3]))); (Op7 (Base (MkTree 2 [4; 5]))); (Op7 (Base (MkTree 2 [5; 4; 4]))); (Op7 (Base (NewMat 0))); (Op7 (Base (NewSeq 0 2))); (Op7 (Base (NewSeq 0 0))); (Op7 (Base (NewSeq 0 0))); (BadKw (Base (MigrateMat 0 1 true))); (BadKw (Base (ReconstructMat 0 true))); (Op7 (Base (MigrateMat 0 1 true))); (Op7 (Base NewDs)); (Op7 (Base (Attach 0 1))); (Op7 (Base (DsAdd 0 (ObjMat 0)))); (Op7 (Base (DsNewList 0 (Some 0)))); (Op7 (Base (DsNewList 0 (Some 1)))); (Op7 (Base (DsReadFasta 0 (Some 2) [0; 1]))); (Op7 (Base (DsReadFasta 0 None [0; 1]))); (BadKw (Base (Unify 0 None true))); (Op7 (Base (Unify 0 None true))); (Op7 (NewMemo [])); (BadKw (AppendM 0 1 (SMigrate true) 0)); (Op7 (AppendM 0 1 (SMigrate true) 0)); (BadKw (InsertM 0 0%Z 2 SBogus 0)); (BadKw (MigrateTreeM 2 0 true 0)); (BadKw (ReconstructListM 0 true 0))].

(* histories 0, 1: two trees ADDED to list 0 (its namespace then holds a, A and a again), then migrate- and
   clone-style imports of trees carrying those labels; histories 2, 3: refused calls and corrected retries.
   All four keep to the usage discipline; the refused steps are there. *)
Definition n_refused (ops : list op8) : nat := length (filter (fun r => is_err (fst r)) (run8 w8_lower x_init ops)).

Lemma w8_hist_ok_l :
  hist_ok8 w8_lower x_init w8_history0 = true /\ hist_ok8 w8_lower x_init w8_history1 = true
  /\ hist_ok8 w8_lower x_init w8_history2 = true /\ hist_ok8 w8_lower x_init w8_history3 = true
  /\ n_refused w8_history2 = 9 /\ n_refused w8_history3 = 11
  /\ length (members (x_st (run_state8 w8_lower x_init w8_history0)) 0) = 6.
Proof. vm_compute. repeat split. Qed.

(* the hypotheses of refused_changes_nothing / badkw_append_refused hold somewhere: after 16 steps of history 2,
   list0.append(tree1, taxon_import_strategy='bogus') is in the class and ends in an exception; after 18 steps
   tree 2 is valid, under namespace 2, and list 0 under namespace 0 *)
Lemma w8_refused_example_l :
  let x := run_state8 w8_lower x_init (firstn 16 w8_history2) in
  let o := Op7 (Base (Append 0 1 SBogus)) in
  refusal_class o = true /\ is_err (snd (step8 w8_lower x o)) = true /\ nth_error w8_history2 16 = Some o.
Proof. vm_compute. repeat split. Qed.

Lemma w8_badkw_example_l :
  let x := run_state8 w8_lower x_init (firstn 18 w8_history2) in
  valid_list (x_st x) 0 = true /\ valid_tree (x_st x) 2 = true
  /\ t_ns (gettree (x_st x) 2) = 2 /\ l_ns (getlist (x_st x) 0) = 0
  /\ nth_error w8_history2 18 = Some (BadKw (Base (Insert 0 0%Z 2 (SMigrate true)))).
Proof. vm_compute. repeat split. Qed.

(* ---- first matching member (Proofs/C11W8First.v) ----
   after the two ADDs of history 0 namespace 0 (case-insensitive) holds A B a C A a = taxa 0 1 2 3 4 5: the label
   a (3) matches taxa 0, 2, 4, 5.  The clone route (clone_memo over the members 6 7 8 = a C B of namespace 3) and
   the migrate route (recon_refs of a tree carrying them) both take taxon 0 for a; the hypotheses of the two
   theorems hold in that state.  The readers' symbol table (read_refs: NexusTaxonSymbolMapper, later members
   overwrite earlier ones) takes the LAST one, taxon 5. *)
Definition w8_dup_state : state := x_st (run_state8 w8_lower x_init (firstn 22 w8_history0)).

Lemma w8_first_match_example_l :
  members w8_dup_state 0 = [0; 1; 2; 3; 4; 5] /\ members w8_dup_state 3 = [6; 7; 8]
  /\ map (label w8_dup_state) [0; 1; 2; 3; 4; 5; 6; 7; 8] = [0; 1; 3; 2; 0; 3; 3; 2; 1]
  /\ forallb (fun x => Nat.ltb x (length (s_lab w8_dup_state))) (members w8_dup_state 0 ++ members w8_dup_state 3) = true
  /\ snd (clone_memo w8_lower w8_dup_state 0 (members w8_dup_state 3) []) = [(8, 1); (7, 3); (6, 0)]
  /\ snd (fst (recon_refs w8_lower w8_dup_state 0 true [7; 6; 8; 7] [])) = [3; 0; 1; 3]
  /\ first_match w8_lower w8_dup_state 0 false 3 = Some 0
  /\ snd (fst (read_refs w8_lower w8_dup_state 0 false [3] [])) = [5].
Proof. vm_compute. repeat split. Qed.
