(* C13 (wave 3, translator tie): a theorem of the hand model carried over to the compiled code - the
   reader loop and the iterator loop AS COMPILED FROM THE SOURCE deliver the same trees. *)
From Coq Require Import ZArith List Bool Lia.
From DV Require Import Model.PyPrims Model.C13Model Model.C13GenPrims Gen.Routes Proofs.C13GenStmts
  Proofs.C13GenReader Proofs.C13GenYielder Proofs.C13GenNewick Proofs.C13Full.
Import ListNotations.

Section S.
Variable T : Type.
Variables lower upper : str -> str.
Variable parse_tree : mapper -> tz -> res (option T * mapper * tz).
Variable set_label : T -> option str -> T.
Variable add_comments : T -> list str -> T.

(* the iterator equalities without the auxiliary ymap *)
Lemma G_yield_from_trees_block : forall (c : nscfg) (et : bool) (fuel : nat) (k : core) (g : regs) (tls : list (tlval T)) (reg : list nat),
  let Y := y_trees_block T lower upper parse_tree set_label add_comments true c et fuel k g in
  g_yield_from_trees_block T lower upper parse_tree set_label add_comments c et fuel (mkRs k g tls reg)
  = (fst Y, match snd Y with
            | Ok (k', g') => Ok (tt, mkRs k' g' tls reg)
            | Err e => Err e
            | OutOfFuel => OutOfFuel
            end).
Proof.
  intros. subst Y. rewrite g_yield_from_trees_block_eq. unfold ymap, rmap.
  destruct (y_trees_block _ _ _ _ _ _ _ _ _ _ _ _) as [out [[k' g']| |]]; reflexivity.
Qed.

Lemma G_yield_items_from_stream : forall (c : nscfg) (et : bool) (fuel : nat) (k : core) (g : regs) (tls : list (tlval T)) (reg : list nat),
  let Y := y_items_from_stream T lower upper parse_tree set_label add_comments true c et fuel k g in
  g_yield_items_from_stream T lower upper parse_tree set_label add_comments c et fuel (mkRs k g tls reg) tt
  = (fst Y, match snd Y with
            | Ok (k', g') => Ok (tt, mkRs k' g' tls reg)
            | Err e => Err e
            | OutOfFuel => OutOfFuel
            end).
Proof.
  intros. subst Y. rewrite g_yield_items_from_stream_eq. unfold ymap, rmap.
  destruct (y_items_from_stream _ _ _ _ _ _ _ _ _ _ _ _) as [out [[k' g']| |]]; reflexivity.
Qed.

Lemma G_newick_yield : forall (fuel : nat) (k : core) (g : regs) (tls : list (tlval T)) (reg : list nat),
  let Y := newick_yield_loop T parse_tree fuel (new_mapper lower (ns_taxa_at k O) false) (k_z k) in
  g_newick_yield_items_from_stream T lower parse_tree fuel (mkRs k g tls reg) tt
  = (fst Y, match snd Y with
            | Ok (m', z') => Ok (tt, mkRs (after_tree k O m' z') g tls reg)
            | Err e => Err e
            | OutOfFuel => OutOfFuel
            end).
Proof.
  intros. subst Y. rewrite g_newick_yield_eq. unfold ymap, rmap.
  destruct (newick_yield_loop _ _ _ _ _) as [out [[m' z']| |]]; reflexivity.
Qed.

Lemma G_newick_tree_iter : forall (fuel : nat) (k : core) (g : regs) (tls : list (tlval T)) (reg : list nat)
                                  (ns : nat) (m : mapper) (tb : nat),
  snd (g_newick_tree_iter T lower parse_tree fuel (mkRs k g tls reg) tt (Some (ns, m)) (Some tb))
  = (do r <- newick_read_loop T parse_tree fuel m (k_z k) [] ;;
     let '(ts, m', z') := r in
     Ok (tt, Some (ns, m'),
         mkRs (after_tree k ns m' z') g (fold_left (fun a t => tl_append T a tb t) ts tls) reg)).
Proof. exact (g_newick_tree_iter_eq T lower parse_tree). Qed.

Hypothesis H_consumes : forall m z ot m' z',
  parse_tree m z = Ok (ot, m', z') -> exists pre, z_toks z = pre ++ z_toks z'.
Hypothesis H_upper : forall s, upper (upper s) = upper s.

Lemma G_loops_agree : forall (nc : nscfg) (tlf : tl_factory) (ns0 : list str) (d : doc),
  let Y := g_yield_items_from_stream T lower upper parse_tree set_label add_comments nc false (doc_fuel d)
             (mkRs (core_init nc ns0 d) (regs_init nc) [] []) tt in
  let R := g_parse_nexus_stream T lower upper parse_tree set_label add_comments nc tlf false (doc_fuel d)
             (nexus_init T (mkCfg nc tlf) ns0 d) tt in
  match snd Y with
  | Ok (_, sy) =>
    exists s, R = Ok (tt, s) /\ r_k s = r_k sy /\ r_g s = r_g sy
              /\ match tlf with
                 | TLFixed => rs_list0 T s = fst Y
                 | TLNew => concat (rs_blocks T s) = fst Y
                 end
  | Err e => R = Err e
  | OutOfFuel => R = OutOfFuel
  end.
Proof.
  intros nc tlf ns0 d Y R.
  pose proof (F_nexus_loops_agree T lower upper parse_tree set_label add_comments true H_consumes H_upper nc tlf ns0 d) as F.
  cbv zeta in F. subst Y R.
  rewrite g_yield_items_from_stream_eq, g_parse_nexus_stream_eq.
  unfold nexus_read in F. cbn [c_ns c_tlfac] in F.
  destruct (y_items_from_stream T lower upper parse_tree set_label add_comments true nc false (doc_fuel d)
              (core_init nc ns0 d) (regs_init nc)) as [out [[k' g']| |]]; cbn [snd fst ymap rmap] in *.
  - destruct F as [s [F1 [F2 [F3 F4]]]]. exists s. rewrite F1. cbn [bind r_k r_g]. repeat split; assumption.
  - rewrite F. reflexivity.
  - rewrite F. reflexivity.
Qed.

End S.
