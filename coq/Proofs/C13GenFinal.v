(* C13 (wave 3, translator tie): a theorem of the hand model carried over to the compiled code - the
   reader loop and the iterator loop AS COMPILED FROM THE SOURCE deliver the same trees. *)
From Coq Require Import ZArith List Bool Lia.
From DV Require Import Model.PyPrims Model.C13Model Model.C13GenPrims Gen.Routes Proofs.C13GenStmts
  Proofs.C13GenWf Proofs.C13GenReader Proofs.C13GenYielder Proofs.C13GenNewick Proofs.C13GenGlue Proofs.C13GenEntry Proofs.C13Full.
Import ListNotations.

Section S.
Variable T : Type.
Variables lower upper : str -> str.
Variable parse_tree : mapper -> tz -> res (option T * mapper * tz).
Variable set_label : T -> option str -> T.
Variable add_comments : T -> list str -> T.

(* the iterator equalities without the auxiliary ymap *)
Lemma G_yield_from_trees_block : forall (c : nscfg) (et : bool) (fuel : nat) (k : core) (g : regs) (tls : list (tlval T)) (reg : list nat),
  wfs c k g ->
  let Y := y_trees_block T lower upper parse_tree set_label add_comments true c et fuel k g in
  g_yield_from_trees_block T lower upper parse_tree set_label add_comments c et fuel (mkRs k g tls reg)
  = (fst Y, match snd Y with
            | Ok (k', g') => Ok (tt, mkRs k' g' tls reg)
            | Err e => Err e
            | OutOfFuel => OutOfFuel
            end).
Proof.
  intros c et fuel k g tls reg WF Y. subst Y. rewrite g_yield_from_trees_block_eq by exact WF. unfold ymap, rmap.
  destruct (y_trees_block _ _ _ _ _ _ _ _ _ _ _ _) as [out [[k' g']| |]]; reflexivity.
Qed.

Lemma G_yield_items_from_stream : forall (c : nscfg) (et : bool) (fuel : nat) (k : core) (g : regs) (tls : list (tlval T)) (reg : list nat),
  wfs c k g ->
  let Y := y_items_from_stream T lower upper parse_tree set_label add_comments true c et fuel k g in
  g_yield_items_from_stream T lower upper parse_tree set_label add_comments c et fuel (mkRs k g tls reg) tt
  = (fst Y, match snd Y with
            | Ok (k', g') => Ok (tt, mkRs k' g' tls reg)
            | Err e => Err e
            | OutOfFuel => OutOfFuel
            end).
Proof.
  intros c et fuel k g tls reg WF Y. subst Y. rewrite g_yield_items_from_stream_eq by exact WF. unfold ymap, rmap.
  destruct (y_items_from_stream _ _ _ _ _ _ _ _ _ _ _ _) as [out [[k' g']| |]]; reflexivity.
Qed.

Lemma G_newick_yield : forall (fuel : nat) (k : core) (g : regs) (tls : list (tlval T)) (reg : list nat),
  let Y := newick_yield_loop T parse_tree fuel (new_mapper lower (ns_taxa_at k O) false) (k_z k) in
  g_newick_yield_items_from_stream T lower parse_tree fuel (mkRs k g tls reg) tt
  = (fst Y, match snd Y with
            | Ok (m', z') => Ok (tt, mkRs (after_tree k O m' z') g tls reg)
            | Err e => Err e
            | OutOfFuel => OutOfFuel
            end).
Proof.
  intros. subst Y. rewrite g_newick_yield_eq. unfold ymap, rmap.
  destruct (newick_yield_loop _ _ _ _ _) as [out [[m' z']| |]]; reflexivity.
Qed.

Lemma G_newick_tree_iter : forall (fuel : nat) (k : core) (g : regs) (tls : list (tlval T)) (reg : list nat)
                                  (ns : nat) (m : mapper) (tb : nat),
  snd (g_newick_tree_iter T lower parse_tree fuel (mkRs k g tls reg) tt (Some (ns, m)) (Some tb))
  = (do r <- newick_read_loop T parse_tree fuel m (k_z k) [] ;;
     let '(ts, m', z') := r in
     Ok (tt, Some (ns, m'),
         mkRs (after_tree k ns m' z') g (fold_left (fun a t => tl_append T a tb t) ts tls) reg)).
Proof. exact (g_newick_tree_iter_eq T lower parse_tree). Qed.

(* ---- TreeArray.read on the compiled iterators ---- *)
(* the iterator object Tree.yield_from_files([one file], schema, taxon_namespace=ns) returns: the compiled
   _yield_items_from_stream of the schema's iterator class on a fresh state over the document *)
Definition yielder_of {X : Type} (a : yres T X) : yielder_t T :=
  (fst a, match snd a with Ok _ => Ok tt | Err e => Err e | OutOfFuel => OutOfFuel end).
Definition yield_cfg : nscfg := mkNsCfg true (FacFixed false).
Definition route_yielder (sch : schema) (ns0 : list str) (d : doc) : yielder_t T :=
  let s0 := mkRs (core_init yield_cfg ns0 d) (regs_init yield_cfg) [] [] in
  match sch with
  | Nexus => yielder_of (g_yield_items_from_stream T lower upper parse_tree set_label add_comments yield_cfg false (doc_fuel d) s0 tt)
  | Newick => yielder_of (g_newick_yield_items_from_stream T lower parse_tree (doc_fuel d) s0 tt)
  end.

Lemma G_treearray_read : forall (sch : schema) (k : Z) (ns0 : list str) (d : doc),
  let A := treearray_read T lower upper parse_tree set_label add_comments true sch k ns0 d in
  g_treearray_read_from_files T (doc_fuel d) tt (route_yielder sch ns0 d) k []
  = match snd A with
    | Ok _ => Ok (tt, fst A, tt)
    | Err e => Err e
    | OutOfFuel => OutOfFuel
    end.
Proof.
  intros sch k ns0 d A. subst A. rewrite g_treearray_read_eq. unfold treearray_read, yield_from_files, route_yielder.
  destruct sch.
  - rewrite g_newick_yield_eq. unfold core_init, yield_cfg. cbn [has_ns0 c_fac ns_taxa_at k_nss nth k_z].
    destruct (newick_yield_loop T parse_tree (doc_fuel d) (new_mapper lower ns0 false) (doc_tz d)) as [out [[m z]| |]];
      reflexivity.
  - rewrite g_yield_items_from_stream_eq by (apply (nexus_init_wf T yield_cfg (mkCfg yield_cfg TLNew) ns0 d eq_refl)).
    unfold cfg_yield, yield_cfg. cbn [c_ns].
    destruct (y_items_from_stream T lower upper parse_tree set_label add_comments true (mkNsCfg true (FacFixed false)) false (doc_fuel d)
                (core_init (mkNsCfg true (FacFixed false)) ns0 d) (regs_init (mkNsCfg true (FacFixed false)))) as [out [[k' g']| |]];
      reflexivity.
Qed.

Hypothesis H_consumes : forall m z ot m' z',
  parse_tree m z = Ok (ot, m', z') -> exists pre, z_toks z = pre ++ z_toks z'.
Hypothesis H_upper : forall s, upper (upper s) = upper s.

Lemma G_loops_agree : forall (nc : nscfg) (tlf : tl_factory) (ns0 : list str) (d : doc),
  let Y := g_yield_items_from_stream T lower upper parse_tree set_label add_comments nc false (doc_fuel d)
             (mkRs (core_init nc ns0 d) (regs_init nc) [] []) tt in
  let R := g_parse_nexus_stream T lower upper parse_tree set_label add_comments nc tlf false (doc_fuel d)
             (nexus_init T (mkCfg nc tlf) ns0 d) tt in
  match snd Y with
  | Ok (_, sy) =>
    exists s, R = Ok (tt, s) /\ r_k s = r_k sy /\ r_g s = r_g sy
              /\ match tlf with
                 | TLFixed => rs_list0 T s = fst Y
                 | TLNew => concat (rs_blocks T s) = fst Y
                 end
  | Err e => R = Err e
  | OutOfFuel => R = OutOfFuel
  end.
Proof.
  intros nc tlf ns0 d Y R.
  pose proof (F_nexus_loops_agree T lower upper parse_tree set_label add_comments true H_consumes H_upper nc tlf ns0 d) as F.
  cbv zeta in F. subst Y R.
  pose proof (nexus_init_wf T nc (mkCfg nc tlf) ns0 d eq_refl) as WI.
  rewrite g_yield_items_from_stream_eq by exact WI.
  rewrite g_parse_nexus_stream_eq by exact WI.
  unfold nexus_read in F. cbn [c_ns c_tlfac] in F.
  destruct (y_items_from_stream T lower upper parse_tree set_label add_comments true nc false (doc_fuel d)
              (core_init nc ns0 d) (regs_init nc)) as [out [[k' g']| |]]; cbn [snd fst ymap rmap] in *.
  - destruct F as [s [F1 [F2 [F3 F4]]]]. exists s. rewrite F1. cbn [bind r_k r_g]. repeat split; assumption.
  - rewrite F. reflexivity.
  - rewrite F. reflexivity.
Qed.

(* routes_agree_nexus_full of Props/C13.v on the compiled code alone: TreeList.read (compiled entry point, compiled
   read_tree_lists / _read / reader loops) delivers what the compiled iterator delivers, with the same error *)
Lemma G_routes_agree : forall (ns0 : list str) (d : doc) (tl0 : list T),
  let Y := g_yield_items_from_stream T lower upper parse_tree set_label add_comments yield_cfg false (doc_fuel d)
             (mkRs (core_init yield_cfg ns0 d) (regs_init yield_cfg) [] []) tt in
  g_treelist_parse_and_create_from_stream T (doc_fuel d) tt
    (route_reader_ns T lower upper parse_tree set_label add_comments Nexus ns0) d None None tl0
  = match snd Y with
    | Ok _ => Ok (tl0 ++ fst Y, tt)
    | Err e => Err e
    | OutOfFuel => OutOfFuel
    end.
Proof.
  intros ns0 d tl0 Y. subst Y. rewrite g_treelist_read_eq.
  rewrite (F_routes_agree_nexus T lower upper parse_tree set_label add_comments true H_consumes H_upper ns0 d).
  rewrite g_yield_items_from_stream_eq by (apply (nexus_init_wf T yield_cfg (mkCfg yield_cfg TLNew) ns0 d eq_refl)).
  unfold yield_from_files, cfg_yield, yield_cfg. cbn [c_ns].
  destruct (y_items_from_stream T lower upper parse_tree set_label add_comments true (mkNsCfg true (FacFixed false)) false (doc_fuel d)
              (core_init (mkNsCfg true (FacFixed false)) ns0 d) (regs_init (mkNsCfg true (FacFixed false)))) as [out [[k' g']| |]];
    reflexivity.
Qed.

End S.
