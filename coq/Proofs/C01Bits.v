(* C01, bit level: the functions of Gen/BitFns.v (regenerated from utility/bitprocessing.py and the
   static methods of Bipartition on every run) meet their set-theoretic specifications.

   Set meaning of a mask m : the set of i >= 0 with Z.testbit m i = true.  Python ints are
   unbounded two's complement, so are Coq's Z: negative masks (infinite sets) are covered. *)
From Coq Require Import ZArith List Bool Lia ZifyBool.
From DV Require Import Model.PyPrims Gen.BitFns.
Open Scope Z_scope.

(* ------------------------------------------------------------------------------------------ *)
(* set vocabulary on masks                                                                     *)

Definition mem (m i : Z) : Prop := Z.testbit m i = true.
Definition msubset (a b : Z) : Prop := forall i, 0 <= i -> mem a i -> mem b i.
Definition mdisjoint (a b : Z) : Prop := forall i, 0 <= i -> mem a i -> mem b i -> False.
(* at most one element *)
Definition at_most_one (m : Z) : Prop :=
  forall i j, 0 <= i -> 0 <= j -> mem m i -> mem m j -> i = j.
(* k is the least element of m *)
Definition lowest (m k : Z) : Prop :=
  0 <= k /\ mem m k /\ forall j, 0 <= j < k -> Z.testbit m j = false.

Lemma eq_bits a b : a = b <-> forall i, 0 <= i -> Z.testbit a i = Z.testbit b i.
Proof. split; [intros -> i _; reflexivity | apply Z.bits_inj']. Qed.

Lemma eq0_bits a : a = 0 <-> forall i, 0 <= i -> Z.testbit a i = false.
Proof.
  rewrite eq_bits. split; intros H i Hi; specialize (H i Hi).
  - rewrite H. apply Z.bits_0.
  - rewrite H. symmetry. apply Z.bits_0.
Qed.

Lemma msubset_land a b : Z.land a b = a <-> msubset a b.
Proof.
  rewrite eq_bits. unfold msubset, mem. split; intros H i Hi; specialize (H i Hi).
  - rewrite Z.land_spec in H. intro E. rewrite E in H. simpl in H. exact H.
  - rewrite Z.land_spec. destruct (Z.testbit a i) eqn:E; [rewrite H; reflexivity | reflexivity].
Qed.

Lemma mdisjoint_land a b : Z.land a b = 0 <-> mdisjoint a b.
Proof.
  rewrite eq0_bits. unfold mdisjoint, mem. split; intros H i Hi.
  - specialize (H i Hi). rewrite Z.land_spec in H. intros E1 E2. rewrite E1, E2 in H. discriminate.
  - rewrite Z.land_spec. destruct (Z.testbit a i) eqn:E1, (Z.testbit b i) eqn:E2; try reflexivity.
    exfalso. exact (H i Hi E1 E2).
Qed.

Lemma lowest_unique m k k' : lowest m k -> lowest m k' -> k = k'.
Proof.
  intros (H0 & H1 & H2) (H0' & H1' & H2'). unfold mem in *.
  destruct (Z.lt_trichotomy k k') as [L | [E | L]]; [| exact E |].
  - rewrite (H2' k) in H1 by lia. discriminate.
  - rewrite (H2 k') in H1' by lia. discriminate.
Qed.

(* ------------------------------------------------------------------------------------------ *)
(* least_significant_set_bit                                                                   *)

Lemma tb_double_succ a i : 0 <= i -> Z.testbit (2 * a) (Z.succ i) = Z.testbit a i.
Proof. intro Hi. apply Z.testbit_even_succ. exact Hi. Qed.

Lemma lsb_odd m : py_least_significant_set_bit (2 * m + 1) = 1.
Proof.
  unfold py_least_significant_set_bit. cbv zeta.
  replace (2 * m + 1 - 1) with (2 * m) by lia.
  apply Z.bits_inj'. intros i Hi.
  rewrite Z.lxor_spec, Z.land_spec.
  destruct (Z.eq_dec i 0) as [-> | Hn].
  - rewrite Z.testbit_odd_0, Z.testbit_even_0. reflexivity.
  - replace i with (Z.succ (i - 1)) by lia.
    rewrite Z.testbit_odd_succ, Z.testbit_even_succ by lia.
    assert (T1 : Z.testbit 1 (Z.succ (i - 1)) = false).
    { change 1 with (2 ^ 0). rewrite Z.pow2_bits_eqb by lia. apply Z.eqb_neq. lia. }
    rewrite T1.
    destruct (Z.testbit m (i - 1)); reflexivity.
Qed.

Lemma lsb_even m : py_least_significant_set_bit (2 * m) = 2 * py_least_significant_set_bit m.
Proof.
  unfold py_least_significant_set_bit. cbv zeta.
  replace (2 * m - 1) with (2 * (m - 1) + 1) by lia.
  apply Z.bits_inj'. intros i Hi.
  destruct (Z.eq_dec i 0) as [-> | Hn].
  - rewrite Z.lxor_spec, Z.land_spec, !Z.testbit_even_0, Z.testbit_odd_0. reflexivity.
  - replace i with (Z.succ (i - 1)) by lia.
    rewrite Z.testbit_even_succ by lia.
    rewrite !Z.lxor_spec, !Z.land_spec.
    rewrite Z.testbit_odd_succ, Z.testbit_even_succ by lia. reflexivity.
Qed.

Lemma lsb_pow2_fuel : forall (f : nat) (n : Z), Z.abs n < 2 ^ Z.of_nat f -> n <> 0 ->
  exists k, lowest n k /\ py_least_significant_set_bit n = 2 ^ k.
Proof.
  induction f as [|f IH]; intros n Hb Hn.
  - simpl in Hb. lia.
  - destruct (Z.odd n) eqn:Eo.
    + exists 0. assert (E : n = 2 * Z.div2 n + 1) by (rewrite (Z.div2_odd n) at 1; rewrite Eo; reflexivity).
      split.
      * split; [lia|]. split; [| intros j Hj; lia].
        unfold mem. rewrite Z.bit0_odd. exact Eo.
      * rewrite E. apply lsb_odd.
    + assert (E : n = 2 * Z.div2 n) by (rewrite (Z.div2_odd n) at 1; rewrite Eo; simpl; lia).
      set (m := Z.div2 n) in *.
      assert (Hm : m <> 0) by lia.
      assert (Hbm : Z.abs m < 2 ^ Z.of_nat f).
      { rewrite Nat2Z.inj_succ, Z.pow_succ_r in Hb by lia. lia. }
      destruct (IH m Hbm Hm) as (k & (Hk0 & Hk1 & Hk2) & Hk).
      exists (Z.succ k). split.
      * split; [lia|]. split.
        -- unfold mem. rewrite E. rewrite tb_double_succ by lia. exact Hk1.
        -- intros j Hj. rewrite E.
           destruct (Z.eq_dec j 0) as [-> | Hj0]; [apply Z.testbit_even_0|].
           replace j with (Z.succ (j - 1)) by lia. rewrite tb_double_succ by lia.
           apply Hk2. lia.
      * rewrite E, lsb_even, Hk, Z.pow_succ_r by lia. reflexivity.
Qed.

(* lsb_spec: for n <> 0 (negative n included) the result is the single lowest set bit of n *)
Lemma lsb_pow2 n : n <> 0 ->
  exists k, lowest n k /\ py_least_significant_set_bit n = 2 ^ k.
Proof.
  intro Hn. apply (lsb_pow2_fuel (S (Z.to_nat (Z.log2 (Z.abs n)))) n); [| exact Hn].
  rewrite Nat2Z.inj_succ, Z2Nat.id by apply Z.log2_nonneg.
  apply Z.log2_spec. lia.
Qed.

Lemma lsb_zero : py_least_significant_set_bit 0 = 0.
Proof. reflexivity. Qed.

Lemma lsb_testbit n i : 0 <= i ->
  Z.testbit (py_least_significant_set_bit n) i = true <->
  (Z.testbit n i = true /\ forall j, 0 <= j < i -> Z.testbit n j = false).
Proof.
  intro Hi. destruct (Z.eq_dec n 0) as [-> | Hn].
  - rewrite lsb_zero, Z.bits_0. split; [discriminate | intros [H _]; discriminate].
  - destruct (lsb_pow2 n Hn) as (k & Hlow & E). rewrite E.
    rewrite Z.pow2_bits_eqb by (destruct Hlow; lia).
    split.
    + intro H. apply Z.eqb_eq in H. subst i. destruct Hlow as (_ & H1 & H2). split; assumption.
    + intros [H1 H2]. apply Z.eqb_eq.
      apply (lowest_unique n); [exact Hlow |]. split; [exact Hi|]. split; assumption.
Qed.

Lemma lsb_subset n : Z.land (py_least_significant_set_bit n) n = py_least_significant_set_bit n.
Proof.
  apply msubset_land. intros i Hi H. apply (lsb_testbit n i Hi) in H. exact (proj1 H).
Qed.

(* ------------------------------------------------------------------------------------------ *)
(* "x & (x - 1) == 0"  <->  at most one element                                                *)

Lemma pow2_at_most_one k : 0 <= k -> at_most_one (2 ^ k).
Proof.
  intros Hk i j Hi Hj. unfold mem. rewrite !Z.pow2_bits_eqb by lia.
  intros E1 E2. apply Z.eqb_eq in E1, E2. lia.
Qed.

Lemma at_most_one_cases m : at_most_one m <-> (m = 0 \/ exists k, 0 <= k /\ m = 2 ^ k).
Proof.
  split.
  - intro H. destruct (Z.eq_dec m 0) as [-> | Hn]; [left; reflexivity | right].
    destruct (lsb_pow2 m Hn) as (k & (Hk0 & Hk1 & Hk2) & _). exists k. split; [exact Hk0|].
    apply Z.bits_inj'. intros i Hi. rewrite Z.pow2_bits_eqb by lia.
    destruct (Z.testbit m i) eqn:E.
    + symmetry. apply Z.eqb_eq. apply (H k i Hk0 Hi Hk1 E).
    + symmetry. apply Z.eqb_neq. intro. subst i. unfold mem in Hk1. congruence.
  - intros [-> | (k & Hk & ->)].
    + intros i j _ _ H. unfold mem in H. rewrite Z.bits_0 in H. discriminate.
    + apply pow2_at_most_one. exact Hk.
Qed.

Lemma clear_lowest_eq0 x : Z.land (Z.sub x 1) x = 0 <-> at_most_one x.
Proof.
  rewrite at_most_one_cases.
  destruct (Z.eq_dec x 0) as [-> | Hn].
  - split; [left; reflexivity | reflexivity].
  - destruct (lsb_pow2 x Hn) as (k & (Hk0 & Hk1 & Hk2) & E).
    unfold py_least_significant_set_bit in E. cbv zeta in E.
    rewrite (Z.land_comm (x - 1) x).
    split.
    + intro H0. right. exists k. split; [exact Hk0|].
      rewrite H0 in E. rewrite Z.lxor_0_l in E. exact E.
    + intros [-> | (k' & Hk' & ->)]; [congruence|].
      assert (Z.lxor (Z.land (2 ^ k') (2 ^ k' - 1)) (2 ^ k') = 2 ^ k) by exact E.
      assert (K : k = k').
      { apply (lowest_unique (2 ^ k')); [split; [exact Hk0 | split; assumption] |].
        split; [exact Hk'|]. split.
        - unfold mem. rewrite Z.pow2_bits_eqb by lia. apply Z.eqb_refl.
        - intros j Hj. rewrite Z.pow2_bits_eqb by lia. apply Z.eqb_neq. lia. }
      subst k'. apply (f_equal (fun z => Z.lxor z (2 ^ k))) in H.
      rewrite Z.lxor_assoc, Z.lxor_nilpotent, Z.lxor_0_r in H. exact H.
Qed.

(* popcount view, for non-negative masks (finite sets) *)
Lemma pos_popcount_pos p : 0 < pos_popcount p.
Proof. induction p; cbn [pos_popcount]; lia. Qed.

Lemma pos_popcount_1 p : pos_popcount p = 1 <-> exists k : nat, Zpos p = 2 ^ Z.of_nat k.
Proof.
  induction p as [p IH | p IH |].
  - cbn [pos_popcount]. pose proof (pos_popcount_pos p). split; [lia|].
    intros [k E]. destruct k as [|k].
    + simpl in E. lia.
    + rewrite Nat2Z.inj_succ, Z.pow_succ_r in E by lia. lia.
  - cbn [pos_popcount]. rewrite IH. split; intros [k E].
    + exists (S k). rewrite Nat2Z.inj_succ, Z.pow_succ_r by lia. lia.
    + destruct k as [|k]; [simpl in E; lia|].
      exists k. rewrite Nat2Z.inj_succ, Z.pow_succ_r in E by lia. lia.
  - simpl. split; [intros _; exists O; reflexivity | reflexivity].
Qed.

Lemma popcount_le1 x : 0 <= x -> (py_popcount x <= 1 <-> at_most_one x).
Proof.
  intro Hx. rewrite at_most_one_cases. destruct x as [|p|p]; [| | lia].
  - simpl. split; [left; reflexivity | lia].
  - simpl. pose proof (pos_popcount_pos p). split.
    + intro H1. right. assert (E : pos_popcount p = 1) by lia.
      apply pos_popcount_1 in E. destruct E as [k E]. exists (Z.of_nat k). split; [lia | exact E].
    + intros [E | (k & Hk & E)]; [discriminate|].
      assert (pos_popcount p = 1); [| lia].
      apply pos_popcount_1. exists (Z.to_nat k). rewrite Z2Nat.id by lia. exact E.
Qed.

(* ------------------------------------------------------------------------------------------ *)
(* normalize_bitmask                                                                           *)

Lemma land_pow2_neq0 b k : 0 <= k -> negb (Z.eqb (Z.land b (2 ^ k)) 0) = Z.testbit b k.
Proof.
  intro Hk. destruct (Z.testbit b k) eqn:E.
  - apply negb_true_iff, Z.eqb_neq. intro H0.
    assert (Z.testbit (Z.land b (2 ^ k)) k = false) by (rewrite H0; apply Z.bits_0).
    rewrite Z.land_spec, E, Z.pow2_bits_true in H by lia. discriminate.
  - apply negb_false_iff, Z.eqb_eq. apply eq0_bits. intros i Hi.
    rewrite Z.land_spec, Z.pow2_bits_eqb by lia.
    destruct (Z.eqb_spec k i) as [-> | Hne]; [rewrite E; reflexivity | apply andb_false_r].
Qed.

(* normalize_spec: with lowest_relevant_bit = 2^k the result is (fill minus mask) when k is in the
   mask and (mask meet fill) otherwise *)
Lemma normalize_eq b f k : 0 <= k ->
  py_normalize_bitmask b f (2 ^ k) =
  if Z.testbit b k then Z.land (Z.lnot b) f else Z.land b f.
Proof. intro Hk. unfold py_normalize_bitmask. rewrite land_pow2_neq0 by exact Hk. reflexivity. Qed.

Lemma normalize_testbit b f k i : 0 <= k -> 0 <= i ->
  Z.testbit (py_normalize_bitmask b f (2 ^ k)) i =
  (if Z.testbit b k then negb (Z.testbit b i) else Z.testbit b i) && Z.testbit f i.
Proof.
  intros Hk Hi. rewrite normalize_eq by exact Hk.
  destruct (Z.testbit b k); rewrite Z.land_spec, ?Z.lnot_spec by lia; reflexivity.
Qed.

Lemma normalize_low_clear b f k : 0 <= k ->
  Z.testbit (py_normalize_bitmask b f (2 ^ k)) k = false.
Proof.
  intro Hk. rewrite normalize_testbit by lia.
  destruct (Z.testbit b k) eqn:E; rewrite ?E; reflexivity.
Qed.

Lemma normalize_subset_fill b f k : 0 <= k ->
  Z.land (py_normalize_bitmask b f (2 ^ k)) f = py_normalize_bitmask b f (2 ^ k).
Proof.
  intro Hk. apply msubset_land. intros i Hi. unfold mem. rewrite normalize_testbit by lia.
  intro H. apply andb_true_iff in H. exact (proj2 H).
Qed.

(* the two sides of a split of `fill` have the same normal form *)
Lemma normalize_complement b f k : 0 <= k -> Z.testbit f k = true ->
  py_normalize_bitmask (Z.land (Z.lnot b) f) f (2 ^ k) = py_normalize_bitmask b f (2 ^ k).
Proof.
  intros Hk Hf. apply Z.bits_inj'. intros i Hi. rewrite !normalize_testbit by lia.
  rewrite !Z.land_spec, !Z.lnot_spec, Hf by lia.
  destruct (Z.testbit b k), (Z.testbit b i), (Z.testbit f i); reflexivity.
Qed.

Lemma normalize_idem b f k : 0 <= k ->
  py_normalize_bitmask (py_normalize_bitmask b f (2 ^ k)) f (2 ^ k) = py_normalize_bitmask b f (2 ^ k).
Proof.
  intro Hk. set (r := py_normalize_bitmask b f (2 ^ k)).
  rewrite (normalize_eq r f k Hk). unfold r at 1. rewrite normalize_low_clear by exact Hk.
  apply normalize_subset_fill. exact Hk.
Qed.

(* ------------------------------------------------------------------------------------------ *)
(* is_trivial_bitmask / is_trivial_leafset                                                     *)

Lemma is_trivial_spec_l b f :
  py_is_trivial_bitmask b f = true <->
  (b = 0 \/ b = f \/ at_most_one (Z.land b f) \/ at_most_one (Z.land (Z.lnot b) f)).
Proof.
  unfold py_is_trivial_bitmask. cbv zeta.
  rewrite <- !clear_lowest_eq0.
  destruct (Z.eqb_spec b 0) as [E0 | N0]; simpl.
  { split; [intros _; left; exact E0 | reflexivity]. }
  destruct (Z.eqb_spec b f) as [E1 | N1]; simpl.
  { split; [intros _; right; left; exact E1 | reflexivity]. }
  destruct (Z.eqb_spec (Z.land (Z.land b f - 1) (Z.land b f)) 0) as [E2 | N2].
  { split; [intros _; right; right; left; exact E2 | reflexivity]. }
  destruct (Z.eqb_spec (Z.land (Z.land (Z.lnot b) f - 1) (Z.land (Z.lnot b) f)) 0) as [E3 | N3].
  { split; [intros _; right; right; right; exact E3 | reflexivity]. }
  split; [discriminate | intros [H | [H | [H | H]]]; contradiction].
Qed.

(* the first two tests of the code are subsumed: on the masked sets the predicate is exactly
   |A| <= 1 or |fill \ A| <= 1 *)
Lemma is_trivial_sets b f :
  py_is_trivial_bitmask b f = true <->
  (at_most_one (Z.land b f) \/ at_most_one (Z.land (Z.lnot b) f)).
Proof.
  rewrite is_trivial_spec_l. split.
  - intros [-> | [-> | [H | H]]]; [left | right | left; exact H | right; exact H].
    + rewrite Z.land_0_l. apply at_most_one_cases. left. reflexivity.
    + replace (Z.land (Z.lnot f) f) with 0.
      * apply at_most_one_cases. left. reflexivity.
      * symmetry. apply eq0_bits. intros i Hi. rewrite Z.land_spec, Z.lnot_spec by lia.
        destruct (Z.testbit f i); reflexivity.
  - intros [H | H]; [right; right; left; exact H | right; right; right; exact H].
Qed.

Lemma is_trivial_leafset_spec_l x :
  py_is_trivial_leafset x = true <-> exists k, 0 <= k /\ Z.abs x = 2 ^ k.
Proof.
  unfold py_is_trivial_leafset, py_num_set_bits. rewrite Z.eqb_eq.
  destruct x as [|p|p]; simpl.
  - split; [discriminate | intros (k & Hk & E)]. pose proof (Z.pow_pos_nonneg 2 k). lia.
  - rewrite pos_popcount_1. split; [intros [k E]; exists (Z.of_nat k); split; [lia | exact E] |].
    intros (k & Hk & E). exists (Z.to_nat k). rewrite Z2Nat.id by lia. exact E.
  - rewrite pos_popcount_1. split; [intros [k E]; exists (Z.of_nat k); split; [lia | exact E] |].
    intros (k & Hk & E). exists (Z.to_nat k). rewrite Z2Nat.id by lia. exact E.
Qed.

(* ------------------------------------------------------------------------------------------ *)
(* is_compatible_bitmasks                                                                      *)

(* exactly what the four tests of the code decide, for fill <> 0, on A = m1 & fill, B = m2 & fill:
   the fourth test is equivalent to the third, the union case is never tested *)
Lemma is_compatible_exact m1 m2 f : f <> 0 ->
  let A := Z.land f m1 in let B := Z.land f m2 in
  py_is_compatible_bitmasks m1 m2 f = true <->
  (mdisjoint A B \/ msubset A B \/ msubset B A).
Proof.
  intros Hf A B. unfold py_is_compatible_bitmasks.
  destruct (Z.eqb_spec f 0) as [E | _]; [contradiction|]. cbn [negb]. cbv zeta.
  fold A B.
  assert (T1 : Z.land A B = 0 <-> mdisjoint A B) by apply mdisjoint_land.
  assert (T2 : Z.land A (Z.lxor A B) = 0 <-> msubset A B).
  { rewrite <- msubset_land. rewrite eq0_bits, eq_bits.
    split; intros H i Hi; specialize (H i Hi); rewrite ?Z.land_spec, ?Z.lxor_spec in *;
      destruct (Z.testbit A i), (Z.testbit B i); simpl in *; congruence. }
  assert (AF : forall i, 0 <= i -> Z.testbit A i = true -> Z.testbit f i = true).
  { intros i Hi. unfold A. rewrite Z.land_spec. intro H. apply andb_true_iff in H. exact (proj1 H). }
  assert (BF : forall i, 0 <= i -> Z.testbit B i = true -> Z.testbit f i = true).
  { intros i Hi. unfold B. rewrite Z.land_spec. intro H. apply andb_true_iff in H. exact (proj1 H). }
  assert (T3 : Z.land (Z.lxor f A) B = 0 <-> msubset B A).
  { rewrite <- msubset_land. rewrite eq0_bits, eq_bits.
    split; intros H i Hi; specialize (H i Hi); specialize (AF i Hi); specialize (BF i Hi);
      rewrite ?Z.land_spec, ?Z.lxor_spec in *;
      destruct (Z.testbit A i), (Z.testbit B i), (Z.testbit f i); simpl in *;
      try congruence; try (specialize (AF eq_refl)); try (specialize (BF eq_refl)); congruence. }
  assert (T4 : Z.land (Z.lxor f A) (Z.lxor A B) = 0 <-> msubset B A).
  { rewrite <- msubset_land. rewrite eq0_bits, eq_bits.
    split; intros H i Hi; specialize (H i Hi); specialize (AF i Hi); specialize (BF i Hi);
      rewrite ?Z.land_spec, ?Z.lxor_spec in *;
      destruct (Z.testbit A i), (Z.testbit B i), (Z.testbit f i); simpl in *;
      try congruence; try (specialize (AF eq_refl)); try (specialize (BF eq_refl)); congruence. }
  (* robust against removal of the duplicated test: decide every `0 == ...` test, then propositional *)
  assert (T1' : 0 = Z.land A B <-> mdisjoint A B) by (rewrite <- T1; split; intro; congruence).
  assert (T2' : 0 = Z.land A (Z.lxor A B) <-> msubset A B) by (rewrite <- T2; split; intro; congruence).
  assert (T3' : 0 = Z.land (Z.lxor f A) B <-> msubset B A) by (rewrite <- T3; split; intro; congruence).
  assert (T4' : 0 = Z.land (Z.lxor f A) (Z.lxor A B) <-> msubset B A) by (rewrite <- T4; split; intro; congruence).
  clear T1 T2 T3 T4.
  repeat match goal with
         | |- context [Z.eqb 0 ?e] => destruct (Z.eqb_spec 0 e)
         end;
    (split; [ intro HH; try discriminate HH; tauto | intro HH; try reflexivity; exfalso; tauto ]).
Qed.

(* set-theoretic compatibility of two splits A | fill\A and B | fill\B of the taxon set `fill` *)
Definition split_compatible (A B f : Z) : Prop :=
  mdisjoint A B \/ msubset A B \/ msubset B A \/ Z.lor A B = f.

(* is_compatible_spec: when both masks avoid one common element k of fill (both normalised against
   the same lowest relevant bit: what Bipartition objects of one tree guarantee) the union case is
   impossible and the translated predicate is exactly set-theoretic compatibility *)
Lemma is_compatible_normalised m1 m2 f k : 0 <= k ->
  Z.testbit f k = true -> Z.testbit m1 k = false -> Z.testbit m2 k = false ->
  (py_is_compatible_bitmasks m1 m2 f = true <-> split_compatible (Z.land f m1) (Z.land f m2) f).
Proof.
  intros Hk Hf H1 H2.
  assert (Hf0 : f <> 0) by (intro E; rewrite E, Z.bits_0 in Hf; discriminate).
  rewrite (is_compatible_exact m1 m2 f Hf0). unfold split_compatible.
  split.
  - intros [H | [H | H]]; [left | right; left | right; right; left]; exact H.
  - intros [H | [H | [H | H]]]; [left; exact H | right; left; exact H | right; right; exact H |].
    exfalso. apply (f_equal (fun z => Z.testbit z k)) in H.
    rewrite Z.lor_spec, !Z.land_spec, H1, H2, Hf in H. discriminate.
Qed.

(* rooted reading: clades A, B of one rooted tree are compatible iff disjoint or nested; this is
   what the code tests for arbitrary (un-normalised) masks *)
Definition clade_compatible (A B : Z) : Prop := mdisjoint A B \/ msubset A B \/ msubset B A.

Lemma is_compatible_rooted m1 m2 f : f <> 0 ->
  (py_is_compatible_bitmasks m1 m2 f = true <-> clade_compatible (Z.land f m1) (Z.land f m2)).
Proof. intro Hf. apply (is_compatible_exact m1 m2 f Hf). Qed.

(* The union case is NOT decided by the code: un-normalised arguments that describe compatible
   splits (A u B = fill) are reported incompatible.  fill=1111, m1=0110, m2=1101: the split
   1101|0010 is the split 0010|1101 and 0010 is nested in 0110. *)
Lemma is_compatible_raw_refuted_l :
  exists m1 m2 f, f <> 0 /\ Z.land f m1 = m1 /\ Z.land f m2 = m2 /\
    split_compatible (Z.land f m1) (Z.land f m2) f /\
    py_is_compatible_bitmasks m1 m2 f = false /\
    (* ... although the same two splits, written from their other sides, are accepted *)
    py_is_compatible_bitmasks m1 (Z.land (Z.lnot m2) f) f = true.
Proof.
  exists 6, 13, 15. split; [discriminate|]. split; [reflexivity|]. split; [reflexivity|].
  split; [right; right; right; reflexivity|]. split; reflexivity.
Qed.

(* fill = 0 ("no tree leafset known"): no masking, and only `disjoint or m1 subset m2` is tested *)
Lemma is_compatible_fill0 m1 m2 :
  py_is_compatible_bitmasks m1 m2 0 = true <-> (mdisjoint m1 m2 \/ msubset m1 m2).
Proof.
  unfold py_is_compatible_bitmasks. change (negb (Z.eqb 0 0)) with false. cbv iota zeta beta.
  rewrite !Z.lxor_0_l.
  assert (T1 : Z.land m1 m2 = 0 <-> mdisjoint m1 m2) by apply mdisjoint_land.
  assert (T2 : Z.land m1 (Z.lxor m1 m2) = 0 <-> msubset m1 m2).
  { rewrite <- msubset_land. rewrite eq0_bits, eq_bits.
    split; intros H i Hi; specialize (H i Hi); rewrite ?Z.land_spec, ?Z.lxor_spec in *;
      destruct (Z.testbit m1 i), (Z.testbit m2 i); simpl in *; congruence. }
  destruct (Z.eqb_spec 0 (Z.land m1 m2)) as [E1 | N1].
  { split; [intros _; left; apply T1; symmetry; exact E1 | reflexivity]. }
  destruct (Z.eqb_spec 0 (Z.land m1 (Z.lxor m1 m2))) as [E2 | N2].
  { split; [intros _; right; apply T2; symmetry; exact E2 | reflexivity]. }
  split; [discriminate|]. intros [H | H]; exfalso.
  - apply N1. symmetry. apply T1. exact H.
  - apply N2. symmetry. apply T2. exact H.
Qed.

Lemma is_compatible_fill0_refuted_l :
  exists m1 m2, msubset m2 m1 /\ py_is_compatible_bitmasks m1 m2 0 = false
                /\ py_is_compatible_bitmasks m2 m1 0 = true.
Proof.
  exists 3, 1. split; [| split; reflexivity].
  apply msubset_land. reflexivity.
Qed.
