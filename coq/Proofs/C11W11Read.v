(* C11, wave 11: the two read theorems of Proofs/C11W9Read.v for the DataSet.read operations of the model:
   DsReadTrees (DataSet.read of a Newick / NEXUS tree source) and DsReadFasta (DataSet.read of a FASTA source).
   In a namespace without duplicate labels the read keeps it so, and in a closed state every tree (every matrix) under
   that namespace after the read - in particular the ones the read has made - is resolved. *)
From Coq Require Import List Bool Arith ZArith Lia.
From DV Require Import Model.PyPrims Model.C11Model Model.C11W7Model Model.C11W8Model
  Proofs.C11Base Proofs.C11Inv Proofs.C11Ops Proofs.C11Step Proofs.C11Step2 Proofs.C11Unify
  Proofs.C11W9First Proofs.C11W9Step Proofs.C11W9Wf Proofs.C11W9Hist Proofs.C11W9Read Proofs.C11Final
  Proofs.C11W8Examples Proofs.C11W9Examples Proofs.C11W11Mat.
Import ListNotations.
Open Scope nat_scope.

(* the namespace choice of DataSet.read: the tables of taxa and members are as before; the state itself is as before
   unless the data set is un-attached and no namespace is given (then a new, empty namespace is made) *)
Lemma ds_read_ns_tables : forall st d nsarg s1 n,
  ds_read_ns st d nsarg = Some (s1, n) -> s_lab s1 = s_lab st /\ s_mem s1 = s_mem st /\ s_nns st <= s_nns s1.
Proof.
  intros st d nsarg s1 n H. unfold ds_read_ns in H. destruct (d_att (getds st d)) as [a|]; destruct nsarg as [n0|].
  - destruct (Nat.eqb a n0); [|discriminate]. injection H as <- _. repeat split. lia.
  - injection H as <- _. repeat split. lia.
  - injection H as <- _. repeat split. lia.
  - unfold alloc_ns in H. cbv beta iota zeta in H. injection H as <- _. repeat split. cbn. lia.
Qed.

Lemma ds_read_ns_unchanged : forall st d nsarg s1 n,
  ds_read_ns st d nsarg = Some (s1, n) -> d_att (getds st d) <> None \/ nsarg <> None -> s1 = st.
Proof.
  intros st d nsarg s1 n H A. unfold ds_read_ns in H. destruct (d_att (getds st d)) as [a|]; destruct nsarg as [n0|].
  - destruct (Nat.eqb a n0); [|discriminate]. injection H as <- _. reflexivity.
  - injection H as <- _. reflexivity.
  - injection H as <- _. reflexivity.
  - destruct A as [A|A]; exfalso; apply A; reflexivity.
Qed.

Section WithLower.
Variable lower : lbl -> lbl.

(* DataSet.read of a tree source into a namespace without duplicate labels keeps it so; s1 is the state after the
   namespace choice (ds_read_ns_unchanged: s1 = st when the data set is attached or a namespace is given) *)
Theorem ds_read_keeps_uniq_l : forall st d sc cskw nsarg trees s1 n,
  valid_ds st d && valid_nsopt st nsarg = true -> ds_read_ns st d nsarg = Some (s1, n) ->
  wf_ns n s1 -> uniq lower s1 n ->
  uniq lower (fst (step lower st (DsReadTrees d sc cskw nsarg trees))) n.
Proof.
  intros st d sc cskw nsarg trees s1 n V P W U. cbn [step]. rewrite V, P. unfold alloc_list. cbv beta iota zeta.
  match goal with |- context [ds_add_list ?s ?dd ?ll] => set (s3 := ds_add_list s dd ll) in * end.
  assert (U3 : uniq lower s3 n) by (eapply uniq_same; [| | |exact U]; reflexivity).
  assert (W3 : wf_ns n s3) by (eapply wf_ns_same; [| |exact W]; reflexivity).
  assert (C3 : ns_cs s3 n = ns_cs s1 n) by reflexivity.
  assert (E3 : l_ns (getlist s3 (length (s_lists s1))) = n).
  { unfold getlist. change (s_lists s3) with (s_lists s1 ++ [mkTL n []]). rewrite app_nth2 by lia. rewrite Nat.sub_diag. reflexivity. }
  destruct sc.
  - destruct (Bool.eqb cskw (ns_cs s3 n)) eqn:E; [|exact U3]. apply Bool.eqb_prop in E. subst cskw.
    pose proof (uniq_read_trees lower n trees s3 _ E3 U3 W3) as [K _].
    destruct (read_trees lower s3 (length (s_lists s1)) (ns_cs s3 n) trees) as [s4 ok]. exact K.
  - destruct (Bool.eqb cskw (ns_cs s1 n)) eqn:E; [|exact U]. apply Bool.eqb_prop in E. subst cskw.
    destruct trees as [|t0 r]; [exact U|]. rewrite <- C3.
    pose proof (uniq_read_trees lower n (t0 :: r) s3 _ E3 U3 W3) as [K _].
    destruct (read_trees lower s3 (length (s_lists s1)) (ns_cs s3 n) (t0 :: r)) as [s4 ok]. exact K.
Qed.

Lemma ds_read_nns : forall st d sc cskw nsarg trees s1 n,
  valid_ds st d && valid_nsopt st nsarg = true -> ds_read_ns st d nsarg = Some (s1, n) ->
  s_nns s1 <= s_nns (fst (step lower st (DsReadTrees d sc cskw nsarg trees))).
Proof.
  intros st d sc cskw nsarg trees s1 n V P. cbn [step]. rewrite V, P. unfold alloc_list. cbv beta iota zeta.
  match goal with |- context [ds_add_list ?s ?dd ?ll] => set (s3 := ds_add_list s dd ll) in * end.
  assert (N3 : s_nns s1 <= s_nns s3) by (cbn; lia).
  destruct sc.
  - destruct (Bool.eqb cskw (ns_cs s3 n)); [|exact N3].
    pose proof (G_read_trees lower cskw trees s3 (length (s_lists s1))) as [_ [_ [A _]]].
    destruct (read_trees lower s3 (length (s_lists s1)) cskw trees) as [s4 ok]. cbn [fst] in *. lia.
  - destruct (Bool.eqb cskw (ns_cs s1 n)); [|cbn [fst]; lia]. destruct trees as [|t0 r]; [cbn [fst]; lia|].
    pose proof (G_read_trees lower cskw (t0 :: r) s3 (length (s_lists s1))) as [_ [_ [A _]]].
    destruct (read_trees lower s3 (length (s_lists s1)) cskw (t0 :: r)) as [s4 ok]. cbn [fst] in *. lia.
Qed.

(* together: in a closed state, after DataSet.read of a tree source into a namespace without duplicate labels EVERY
   tree under that namespace - in particular the trees the read has made - is resolved *)
Theorem ds_read_without_duplicates_resolved_l : forall st d sc cskw nsarg trees s1 n tr,
  Closed st -> mem_wf st -> valid_ds st d && valid_nsopt st nsarg = true -> ds_read_ns st d nsarg = Some (s1, n) ->
  uniq lower s1 n ->
  n < s_nns s1 ->
  let st' := fst (step lower st (DsReadTrees d sc cskw nsarg trees)) in
  tr < length (s_trees st') -> t_ns (gettree st' tr) = n -> canon lower st' tr.
Proof.
  intros st d sc cskw nsarg trees s1 n tr C Mw V P U Vn1 st' Vt En.
  assert (Vn : n < s_nns st') by (pose proof (ds_read_nns st d sc cskw nsarg trees s1 n V P) as K; fold st' in K; lia).
  destruct (ds_read_ns_tables _ _ _ _ _ P) as [EL [EM _]].
  assert (W : wf_ns n s1) by (eapply wf_ns_same; [exact EL | exact EM | apply Mw]).
  pose proof (ds_read_keeps_uniq_l st d sc cskw nsarg trees s1 n V P W U) as U'. fold st' in U'.
  pose proof (step_DsReadTrees lower st d sc cskw nsarg trees C) as C'. fold st' in C'.
  apply uniq_closed_canon_l; [exact Vt | rewrite En; exact Vn | rewrite En; exact U'|].
  apply Closed_NoX in C'. apply (closed_tree_ok _ _ _ tr C').
Qed.

(* ---- FASTA: the rows are looked up with require_taxon ---- *)
Lemma getmat_set_same : forall st i M, i < length (s_mats st) -> getmat (set_mat st i M) i = M.
Proof.
  intros. apply getmat_some. cbn [set_mat s_mats]. destruct (nth_error (s_mats st) i) eqn:E.
  - eapply nth_error_upd_same. exact E.
  - apply nth_error_None in E. lia.
Qed.

Lemma uniq_read_rows : forall n labels st m,
  m < length (s_mats st) -> m_ns (getmat st m) = n -> uniq lower st n -> wf_ns n st ->
  uniq lower (fst (read_rows lower st m labels)) n /\ wf_ns n (fst (read_rows lower st m labels)).
Proof.
  intros n labels. induction labels as [|l r IH]; intros st m Vm En U W; cbn [read_rows]; [split; assumption|].
  rewrite En. unfold require_taxon. destruct (first_match lower st n (ns_cs st n) l) as [t|] eqn:E.
  - destruct (memb t (m_rows (getmat st m))); cbn [fst]; [split; assumption|]. apply IH.
    + cbn [set_mat s_mats]. rewrite upd_length. exact Vm.
    + rewrite getmat_set_same by exact Vm. reflexivity.
    + eapply uniq_same; [| | |exact U]; reflexivity.
    + eapply wf_ns_same; [| |exact W]; reflexivity.
  - destruct (new_taxon st n l) as [s1 t] eqn:Q. destruct (uniq_new_taxon lower _ _ _ _ _ Q U W E) as [U1 W1].
    assert (EMt : s_mats s1 = s_mats st) by (unfold new_taxon, alloc_taxon in Q; injection Q as <- _; reflexivity).
    assert (Vm1 : m < length (s_mats s1)) by (rewrite EMt; exact Vm).
    destruct (memb t (m_rows (getmat s1 m))); cbn [fst]; [split; assumption|]. apply IH.
    + cbn [set_mat s_mats]. rewrite upd_length. exact Vm1.
    + rewrite getmat_set_same by exact Vm1. reflexivity.
    + eapply uniq_same; [| | |exact U1]; reflexivity.
    + eapply wf_ns_same; [| |exact W1]; reflexivity.
Qed.

Theorem ds_readfasta_keeps_uniq_l : forall st d nsarg rows s1 n,
  valid_ds st d && valid_nsopt st nsarg = true -> ds_read_ns st d nsarg = Some (s1, n) ->
  wf_ns n s1 -> uniq lower s1 n ->
  uniq lower (fst (step lower st (DsReadFasta d nsarg rows))) n.
Proof.
  intros st d nsarg rows s1 n V P W U. cbn [step]. rewrite V, P. unfold alloc_mat. cbv beta iota zeta.
  match goal with |- context [ds_add_mat ?s ?dd ?ll] => set (s3 := ds_add_mat s dd ll) in * end.
  assert (U3 : uniq lower s3 n) by (eapply uniq_same; [| | |exact U]; reflexivity).
  assert (W3 : wf_ns n s3) by (eapply wf_ns_same; [| |exact W]; reflexivity).
  assert (L3 : s_mats s3 = s_mats s1 ++ [mkMat n []]) by reflexivity.
  assert (V3 : length (s_mats s1) < length (s_mats s3)) by (rewrite L3, app_length; cbn [length]; lia).
  assert (E3 : m_ns (getmat s3 (length (s_mats s1))) = n).
  { unfold getmat. rewrite L3. rewrite app_nth2 by lia. rewrite Nat.sub_diag. reflexivity. }
  pose proof (uniq_read_rows n rows s3 _ V3 E3 U3 W3) as [K _].
  destruct (read_rows lower s3 (length (s_mats s1)) rows) as [s4 ok]. exact K.
Qed.

(* under a namespace without duplicate labels every matrix whose row taxa are members is resolved *)
Theorem uniq_closed_canon_mat_l : forall st m,
  m < length (s_mats st) -> m_ns (getmat st m) < s_nns st -> uniq lower st (m_ns (getmat st m)) ->
  (forall y, In y (m_rows (getmat st m)) -> In y (members st (m_ns (getmat st m)))) -> canon_mat lower st m.
Proof.
  intros st m V Vn U M. split; [exact V|]. split; [exact Vn|]. intros y Hy. apply uniq_member_first; [exact U | apply M, Hy].
Qed.

Lemma ds_readfasta_nns : forall st d nsarg rows s1 n,
  valid_ds st d && valid_nsopt st nsarg = true -> ds_read_ns st d nsarg = Some (s1, n) ->
  s_nns s1 <= s_nns (fst (step lower st (DsReadFasta d nsarg rows))).
Proof.
  intros st d nsarg rows s1 n V P. cbn [step]. rewrite V, P. unfold alloc_mat. cbv beta iota zeta.
  match goal with |- context [ds_add_mat ?s ?dd ?ll] => set (s3 := ds_add_mat s dd ll) in * end.
  assert (N3 : s_nns s1 <= s_nns s3) by (cbn; lia).
  pose proof (G_read_rows lower S0 rows s3 (length (s_mats s1))) as [_ [_ [A _]]].
  destruct (read_rows lower s3 (length (s_mats s1)) rows) as [s4 ok]. cbn [fst] in *. lia.
Qed.

Theorem ds_readfasta_without_duplicates_resolved_l : forall st d nsarg rows s1 n m,
  Closed st -> mem_wf st -> valid_ds st d && valid_nsopt st nsarg = true -> ds_read_ns st d nsarg = Some (s1, n) ->
  uniq lower s1 n ->
  n < s_nns s1 ->
  let st' := fst (step lower st (DsReadFasta d nsarg rows)) in
  m < length (s_mats st') -> m_ns (getmat st' m) = n -> canon_mat lower st' m.
Proof.
  intros st d nsarg rows s1 n m C Mw V P U Vn1 st' Vm En.
  assert (Vn : n < s_nns st') by (pose proof (ds_readfasta_nns st d nsarg rows s1 n V P) as K; fold st' in K; lia).
  destruct (ds_read_ns_tables _ _ _ _ _ P) as [EL [EM _]].
  assert (W : wf_ns n s1) by (eapply wf_ns_same; [exact EL | exact EM | apply Mw]).
  pose proof (ds_readfasta_keeps_uniq_l st d nsarg rows s1 n V P W U) as U'. fold st' in U'.
  pose proof (step_DsReadFasta lower st d nsarg rows C) as C'. fold st' in C'.
  apply uniq_closed_canon_mat_l; [exact Vm | rewrite En; exact Vn | rewrite En; exact U'|].
  apply Closed_NoX in C'. apply (closed_mat_ok _ _ _ m C').
Qed.

End WithLower.
