(* C01, encoding level: Model/C01Model.v `encode` against its specification. *)
From Coq Require Import ZArith List Bool Lia ZifyBool Permutation.
From DV Require Import Model.PyPrims Model.Tree Gen.BitFns Model.C01Model Proofs.C01Bits.
Import ListNotations.
Open Scope Z_scope.

(* ------------------------------------------------------------------------------------------ *)
(* specification vocabulary                                                                    *)

(* the bit of a leaf: 2^(accession index of its taxon), nothing for a taxon-less leaf *)
Definition leaf_mask (acc : Z -> Z) (x : option Z) : Z :=
  match x with Some tx => taxon_bitmask acc tx | None => 0 end.

(* union of the bits of a list of leaf taxa *)
Definition mask_of (acc : Z -> Z) (l : list (option Z)) : Z :=
  fold_right (fun x m => Z.lor (leaf_mask acc x) m) 0 l.

(* clade mask of a subtree: the bits of the taxa on its leaves (Tree.leaf_taxa: naive recursion) *)
Definition cmask (acc : Z -> Z) (t : tree) : Z := mask_of acc (leaf_taxa t).

(* suppress_unifurcations: a node with exactly one child is replaced by that child, whose edge
   takes up the node's length; everything else is kept (ids, taxa, labels, child order) *)
Fixpoint suppress (t : tree) : tree :=
  match t with
  | T i x l e ks =>
    match map suppress ks with
    | [c] => set_len (merge_len e (t_len c)) c
    | ks' => T i x l e ks'
    end
  end.

Fixpoint unif_free (t : tree) : bool :=
  match t with
  | T _ _ _ _ ks => negb (Nat.eqb (length ks) 1) && forallb unif_free ks
  end.

(* the step before the traversal: collapse of the basal bifurcation of a tree that is not rooted *)
Definition pre_collapse (rooted : option bool) (t : tree) : tree * option bool :=
  if negb (is_true rooted) && (nkids t =? 2) then
    (fst (collapse_basal t), if snd (collapse_basal t) then Some false else rooted)
  else (t, rooted).

Definition entries_of (acc : Z -> Z) (t : tree) : list (Z * Z) :=
  map (fun n => (t_id n, cmask acc n)) (postorder t).

(* ------------------------------------------------------------------------------------------ *)
(* masks                                                                                       *)

Lemma mask_of_app acc l1 l2 : mask_of acc (l1 ++ l2) = Z.lor (mask_of acc l1) (mask_of acc l2).
Proof.
  induction l1 as [|x r IH]; simpl.
  - reflexivity.
  - rewrite IH, Z.lor_assoc. reflexivity.
Qed.

Lemma fold_left_lor l a : fold_left Z.lor l a = Z.lor a (fold_right Z.lor 0 l).
Proof.
  revert a. induction l as [|x r IH]; intro a; simpl.
  - rewrite Z.lor_0_r. reflexivity.
  - rewrite IH, Z.lor_assoc. reflexivity.
Qed.

Lemma mask_of_flat_map acc (f : tree -> list (option Z)) ks :
  mask_of acc (flat_map f ks) = fold_right Z.lor 0 (map (fun k => mask_of acc (f k)) ks).
Proof.
  induction ks as [|k r IH]; simpl; [reflexivity|]. rewrite mask_of_app, IH. reflexivity.
Qed.

Lemma taxon_bitmask_pow2 acc x : 0 <= acc x -> taxon_bitmask acc x = 2 ^ acc x.
Proof. intro H. unfold taxon_bitmask. apply Z.shiftl_1_l. Qed.

(* leafset_mask_exact at the level of masks: bit i is set iff i is the accession index of one of
   the listed leaf taxa *)
Lemma mask_of_testbit acc l i :
  (forall x, In (Some x) l -> 0 <= acc x) -> 0 <= i ->
  (Z.testbit (mask_of acc l) i = true <-> exists x, In (Some x) l /\ acc x = i).
Proof.
  intros Hacc Hi. induction l as [|y r IH].
  - simpl. rewrite Z.bits_0. split; [discriminate | intros (x & [] & _)].
  - cbn [mask_of fold_right]. fold (mask_of acc r). rewrite Z.lor_spec, orb_true_iff.
    assert (IH' := IH (fun x Hx => Hacc x (or_intror Hx))). clear IH.
    destruct y as [tx|]; cbn [leaf_mask].
    + rewrite taxon_bitmask_pow2 by (apply Hacc; left; reflexivity).
      rewrite Z.pow2_bits_eqb by (apply Hacc; left; reflexivity).
      rewrite IH'. split.
      * intros [E | (x & Hx & E)].
        -- apply Z.eqb_eq in E. exists tx. split; [left; reflexivity | exact E].
        -- exists x. split; [right; exact Hx | exact E].
      * intros (x & [Hx | Hx] & E).
        -- inversion Hx; subst. left. apply Z.eqb_refl.
        -- right. exists x. split; assumption.
    + rewrite Z.bits_0, IH'. split.
      * intros [E | (x & Hx & E)]; [discriminate|]. exists x. split; [right; exact Hx | exact E].
      * intros (x & [Hx | Hx] & E); [discriminate|]. right. exists x. split; assumption.
Qed.

Lemma mask_of_nonneg acc l : (forall x, In (Some x) l -> 0 <= acc x) -> 0 <= mask_of acc l.
Proof.
  intro Hacc. induction l as [|y r IH]; [simpl; lia|].
  cbn [mask_of fold_right]. fold (mask_of acc r). apply Z.lor_nonneg. split.
  - destruct y as [tx|]; cbn [leaf_mask]; [| lia].
    rewrite taxon_bitmask_pow2 by (apply Hacc; left; reflexivity).
    apply Z.pow_nonneg. lia.
  - apply IH. intros x Hx. apply Hacc. right. exact Hx.
Qed.

Lemma mask_of_incl acc l1 l2 : incl l1 l2 -> msubset (mask_of acc l1) (mask_of acc l2).
Proof.
  intro Hin. induction l1 as [|y r IH].
  - intros i Hi H. unfold mem in H. simpl in H. rewrite Z.bits_0 in H. discriminate.
  - intros i Hi. unfold mem. cbn [mask_of fold_right]. fold (mask_of acc r).
    rewrite Z.lor_spec, orb_true_iff. intros [H | H].
    + assert (Hy : In y l2) by (apply Hin; left; reflexivity).
      clear - Hy H. induction l2 as [|z q IHq]; [destruct Hy|].
      cbn [mask_of fold_right]. fold (mask_of acc q). rewrite Z.lor_spec, orb_true_iff.
      destruct Hy as [-> | Hy]; [left; exact H | right; apply IHq; exact Hy].
    + apply IH; [| exact Hi | exact H]. intros z Hz. apply Hin. right. exact Hz.
Qed.

(* ------------------------------------------------------------------------------------------ *)
(* structure                                                                                   *)

Lemma leaf_taxa_set_len e t : leaf_taxa (set_len e t) = leaf_taxa t.
Proof. destruct t as [i x l e0 ks]. reflexivity. Qed.

Lemma t_id_set_len e t : t_id (set_len e t) = t_id t.
Proof. destruct t. reflexivity. Qed.

Lemma leaf_taxa_node i x l e k ks :
  leaf_taxa (T i x l e (k :: ks)) = flat_map leaf_taxa (k :: ks).
Proof. reflexivity. Qed.

Lemma leaf_taxa_suppress t : leaf_taxa (suppress t) = leaf_taxa t.
Proof.
  induction t as [i x l e ks IH] using tree_ind'.
  assert (M : flat_map leaf_taxa (map suppress ks) = flat_map leaf_taxa ks).
  { induction IH as [|k r Hk Hr IHr]; [reflexivity|]. simpl. rewrite Hk, IHr. reflexivity. }
  destruct ks as [|k1 [|k2 r]].
  - reflexivity.
  - cbn [suppress map]. rewrite leaf_taxa_set_len.
    simpl in M. rewrite !app_nil_r in M. rewrite M. simpl. rewrite app_nil_r. reflexivity.
  - cbn [suppress map]. cbn [map] in M. rewrite !leaf_taxa_node. exact M.
Qed.

Lemma cmask_suppress acc t : cmask acc (suppress t) = cmask acc t.
Proof. unfold cmask. rewrite leaf_taxa_suppress. reflexivity. Qed.

Lemma cmask_set_len acc e t : cmask acc (set_len e t) = cmask acc t.
Proof. unfold cmask. rewrite leaf_taxa_set_len. reflexivity. Qed.

Lemma postorder_unfold i x l e ks :
  postorder (T i x l e ks) = flat_map postorder ks ++ [T i x l e ks].
Proof. reflexivity. Qed.

Lemma entries_of_node acc i x l e ks :
  entries_of acc (T i x l e ks) =
  concat (map (entries_of acc) ks) ++ [(i, cmask acc (T i x l e ks))].
Proof.
  unfold entries_of. rewrite postorder_unfold, map_app. f_equal.
  induction ks as [|k r IH]; [reflexivity|]. simpl. rewrite map_app, IH. reflexivity.
Qed.

Lemma entries_of_set_len acc e t : entries_of acc (set_len e t) = entries_of acc t.
Proof.
  destruct t as [i x l e0 ks]. cbn [set_len]. rewrite !entries_of_node. reflexivity.
Qed.

Lemma entries_of_last acc t : last (entries_of acc t) (0, 0) = (t_id t, cmask acc t).
Proof. destruct t as [i x l e ks]. rewrite entries_of_node. apply last_last. Qed.

Lemma cmask_node acc i x l e k ks :
  cmask acc (T i x l e (k :: ks)) = fold_right Z.lor 0 (map (cmask acc) (k :: ks)).
Proof. unfold cmask. rewrite leaf_taxa_node. apply mask_of_flat_map. Qed.

(* the post-order pass computes: the unifurcation-free tree, the clade mask, and one entry
   (node id, clade mask) per node of the resulting tree in post-order *)
Lemma enc_node_spec acc t :
  enc_node acc t = (suppress t, cmask acc t, entries_of acc (suppress t)).
Proof.
  induction t as [i x l e ks IH] using tree_ind'.
  assert (M : map (enc_node acc) ks =
              map (fun k => (suppress k, cmask acc k, entries_of acc (suppress k))) ks).
  { induction IH as [|k r Hk Hr IHr]; [reflexivity|]. simpl. rewrite Hk, IHr. reflexivity. }
  cbn [enc_node]. rewrite M. clear M IH.
  destruct ks as [|k1 [|k2 r]].
  - cbn [map suppress enc_visit]. unfold cmask. cbn [leaf_taxa mask_of fold_right leaf_mask].
    rewrite entries_of_node. cbn [map concat app]. unfold cmask. cbn [leaf_taxa mask_of fold_right].
    rewrite Z.lor_0_r. reflexivity.
  - cbn [map suppress concat snd fst enc_visit]. rewrite app_nil_r, entries_of_set_len.
    f_equal. f_equal. unfold cmask. rewrite leaf_taxa_node. simpl. rewrite app_nil_r. reflexivity.
  - set (ks := k1 :: k2 :: r).
    set (F := fun k => (suppress k, cmask acc k, entries_of acc (suppress k))).
    assert (S2 : suppress (T i x l e ks) = T i x l e (map suppress ks)) by reflexivity.
    rewrite S2.
    assert (V : enc_visit acc i x l e (map F ks) =
                (T i x l e (map (fun r0 => fst (fst r0)) (map F ks)),
                 fold_left Z.lor (map (fun r0 => snd (fst r0)) (map F ks)) 0,
                 concat (map snd (map F ks)) ++
                   [(i, fold_left Z.lor (map (fun r0 => snd (fst r0)) (map F ks)) 0)])) by reflexivity.
    rewrite V. clear V.
    assert (C : fold_left Z.lor (map (fun r0 : tree * Z * list (Z * Z) => snd (fst r0)) (map F ks)) 0
                = cmask acc (T i x l e ks)).
    { rewrite fold_left_lor, Z.lor_0_l, map_map. unfold F. cbn [fst snd].
      unfold ks. rewrite cmask_node. reflexivity. }
    rewrite C. rewrite !map_map. unfold F. cbn [fst snd].
    rewrite entries_of_node.
    assert (C2 : cmask acc (T i x l e (map suppress ks)) = cmask acc (T i x l e ks)).
    { unfold ks. cbn [map]. rewrite !cmask_node. rewrite <- (map_cons suppress k2 r), <- (map_cons suppress k1 (k2 :: r)).
      rewrite map_map. f_equal. apply map_ext. intro k. apply cmask_suppress. }
    rewrite C2, (map_map suppress (entries_of acc)). reflexivity.
Qed.

Lemma leaf_taxa_collapse_basal t : leaf_taxa (fst (collapse_basal t)) = leaf_taxa t.
Proof.
  destruct t as [i x l e ks]. destruct ks as [|c0 [|c1 [|c2 r]]]; try reflexivity.
  cbn [collapse_basal].
  destruct (2 <=? nkids c1) eqn:E1.
  - cbn [fst]. rewrite !leaf_taxa_node. cbn [flat_map]. rewrite leaf_taxa_set_len, app_nil_r.
    f_equal. destruct c1 as [i1 x1 l1 e1 k1]. unfold nkids in E1. cbn [t_kids] in *.
    destruct k1 as [|a b]; [simpl in E1; lia|]. reflexivity.
  - destruct (2 <=? nkids c0) eqn:E0; [| reflexivity].
    cbn [fst]. destruct c0 as [i0 x0 l0 e0 k0]. unfold nkids in E0. cbn [t_kids] in *.
    destruct k0 as [|a b]; [simpl in E0; lia|].
    rewrite <- app_comm_cons. rewrite !leaf_taxa_node. cbn [flat_map]. rewrite flat_map_app. cbn [flat_map].
    rewrite leaf_taxa_set_len, !app_nil_r, leaf_taxa_node. cbn [flat_map]. rewrite app_assoc. reflexivity.
Qed.

Lemma leaf_taxa_pre_collapse rooted t : leaf_taxa (fst (pre_collapse rooted t)) = leaf_taxa t.
Proof.
  unfold pre_collapse. destruct (negb (is_true rooted) && (nkids t =? 2)); [| reflexivity].
  apply leaf_taxa_collapse_basal.
Qed.

(* ------------------------------------------------------------------------------------------ *)
(* encode = specification                                                                      *)

Definition spec_edges (acc : Z -> Z) (rooted : option bool) (S : Z) (t : tree) : list (Z * (Z * Z)) :=
  map (fun n => (t_id n, (cmask acc n, compile_split rooted S (cmask acc n)))) (postorder t).

Lemma encode_spec acc rooted t :
  encode acc rooted t =
  let t1 := fst (pre_collapse rooted t) in
  let rooted1 := snd (pre_collapse rooted t) in
  let t2 := suppress t1 in
  mkEnc t2 rooted1 (spec_edges acc rooted1 (cmask acc t) t2) (map snd (spec_edges acc rooted1 (cmask acc t) t2)).
Proof.
  unfold encode, pre_collapse.
  destruct (negb (is_true rooted) && (nkids t =? 2)) eqn:E.
  - destruct (collapse_basal t) as [t' ch] eqn:EC. cbn [fst snd]. cbv zeta.
    rewrite enc_node_spec. rewrite entries_of_last. cbn [snd].
    rewrite cmask_suppress.
    assert (L : cmask acc t' = cmask acc t).
    { unfold cmask. rewrite <- (leaf_taxa_collapse_basal t), EC. reflexivity. }
    rewrite L. unfold spec_edges, entries_of. rewrite !map_map. cbn [fst snd]. reflexivity.
  - cbn [fst snd]. cbv zeta. rewrite enc_node_spec, entries_of_last. cbn [snd].
    rewrite cmask_suppress. unfold spec_edges, entries_of. rewrite !map_map. cbn [fst snd]. reflexivity.
Qed.

(* ------------------------------------------------------------------------------------------ *)
(* unifurcation freedom, idempotence                                                           *)

Lemma unif_free_set_len e t : unif_free (set_len e t) = unif_free t.
Proof. destruct t. reflexivity. Qed.

Lemma suppress_unif_free t : unif_free (suppress t) = true.
Proof.
  induction t as [i x l e ks IH] using tree_ind'.
  assert (M : forallb unif_free (map suppress ks) = true).
  { induction IH as [|k r Hk Hr IHr]; [reflexivity|]. simpl. rewrite Hk, IHr. reflexivity. }
  destruct ks as [|k1 [|k2 r]].
  - reflexivity.
  - cbn [suppress map]. rewrite unif_free_set_len. inversion IH; subst. assumption.
  - change (suppress (T i x l e (k1 :: k2 :: r))) with (T i x l e (map suppress (k1 :: k2 :: r))).
    cbn [unif_free]. rewrite M. rewrite map_length. reflexivity.
Qed.

Lemma suppress_id t : unif_free t = true -> suppress t = t.
Proof.
  induction t as [i x l e ks IH] using tree_ind'. cbn [unif_free]. intro H.
  apply andb_true_iff in H. destruct H as [H1 H2].
  assert (M : map suppress ks = ks).
  { clear H1. induction IH as [|k r Hk Hr IHr]; [reflexivity|].
    simpl in H2. apply andb_true_iff in H2. destruct H2 as [A B].
    simpl. rewrite Hk, IHr by assumption. reflexivity. }
  cbn [suppress]. rewrite M. destruct ks as [|k1 [|k2 r]]; try reflexivity.
  simpl in H1. discriminate.
Qed.

Lemma suppress_idem t : suppress (suppress t) = suppress t.
Proof. apply suppress_id, suppress_unif_free. Qed.

Lemma collapse_basal_unif_free t :
  unif_free t = true -> unif_free (fst (collapse_basal t)) = true.
Proof.
  destruct t as [i x l e ks]. destruct ks as [|c0 [|c1 [|c2 r]]]; try (intro H; exact H).
  cbn [collapse_basal unif_free length forallb]. intro H.
  apply andb_true_iff in H. destruct H as [_ H]. apply andb_true_iff in H. destruct H as [H0 H].
  apply andb_true_iff in H. destruct H as [H1 _].
  destruct c0 as [i0 x0 l0 e0 k0], c1 as [i1 x1 l1 e1 k1]. unfold nkids. cbn [t_kids t_len set_len].
  cbn [unif_free] in H0, H1. apply andb_true_iff in H0, H1. destruct H0 as [A0 B0], H1 as [A1 B1].
  destruct (2 <=? Z.of_nat (length k1)) eqn:E1.
  - cbn [fst unif_free length forallb]. rewrite A0, B0, B1. cbn [andb].
    destruct k1 as [|a [|b q]]; simpl in E1; try lia. reflexivity.
  - destruct (2 <=? Z.of_nat (length k0)) eqn:E0.
    + cbn [fst unif_free]. rewrite forallb_app. cbn [forallb unif_free]. rewrite A1, B0, B1. cbn [andb].
      rewrite app_length. destruct k0 as [|a [|b q]]; simpl in E0; try lia. simpl. reflexivity.
    + cbn [fst unif_free length forallb]. cbn [unif_free]. rewrite A0, A1, B0, B1. reflexivity.
Qed.

(* after a collapse the root has at least three children: no second collapse *)
Lemma collapse_basal_nkids t : snd (collapse_basal t) = true -> unif_free t = true ->
  3 <= nkids (fst (collapse_basal t)).
Proof.
  destruct t as [i x l e ks]. destruct ks as [|c0 [|c1 [|c2 r]]]; try discriminate.
  cbn [collapse_basal]. unfold nkids.
  destruct (2 <=? Z.of_nat (length (t_kids c1))) eqn:E1.
  - intros _ _. cbn [fst t_kids length]. lia.
  - destruct (2 <=? Z.of_nat (length (t_kids c0))) eqn:E0; [| discriminate].
    intros _ _. cbn [fst t_kids]. rewrite app_length. simpl. lia.
Qed.

Lemma nkids_suppress_unif_free t : unif_free t = true -> nkids (suppress t) = nkids t.
Proof. intro H. rewrite suppress_id by exact H. reflexivity. Qed.

(* ------------------------------------------------------------------------------------------ *)
(* theorems about encode                                                                       *)

Lemma Forall2_map_self {A B} (P : A -> B -> Prop) (f : A -> B) (l : list A) :
  (forall a, In a l -> P a (f a)) -> Forall2 P l (map f l).
Proof.
  induction l as [|a r IH]; intro H; simpl; constructor.
  - apply H. left. reflexivity.
  - apply IH. intros b Hb. apply H. right. exact Hb.
Qed.

Lemma postorder_leaf_taxa_incl t n : In n (postorder t) -> incl (leaf_taxa n) (leaf_taxa t).
Proof.
  induction t as [i x l e ks IH] using tree_ind'. rewrite postorder_unfold. intro H.
  apply in_app_or in H. destruct H as [H | [<- | []]]; [| apply incl_refl].
  apply in_flat_map in H. destruct H as (k & Hk & Hn).
  rewrite Forall_forall in IH. specialize (IH k Hk Hn).
  destruct ks as [|k0 r]; [destruct Hk|]. rewrite leaf_taxa_node.
  intros y Hy. apply in_flat_map. exists k. split; [exact Hk | apply IH; exact Hy].
Qed.

Lemma postorder_cmask_subset acc t n : In n (postorder t) -> msubset (cmask acc n) (cmask acc t).
Proof. intro H. apply mask_of_incl, postorder_leaf_taxa_incl, H. Qed.

Lemma leaf_taxa_result acc rooted t : leaf_taxa (r_tree (encode acc rooted t)) = leaf_taxa t.
Proof. rewrite encode_spec. cbn [r_tree]. rewrite leaf_taxa_suppress. apply leaf_taxa_pre_collapse. Qed.

Lemma leafset_mask_exact_l acc rooted t :
  (forall x, In (Some x) (leaf_taxa t) -> 0 <= acc x) ->
  Forall2 (fun n e =>
             fst e = t_id n /\
             forall i, 0 <= i ->
               (Z.testbit (fst (snd e)) i = true <-> exists x, In (Some x) (leaf_taxa n) /\ acc x = i))
          (postorder (r_tree (encode acc rooted t))) (r_edges (encode acc rooted t))
  /\ r_enc (encode acc rooted t) = map snd (r_edges (encode acc rooted t)).
Proof.
  intro Hacc. pose proof (leaf_taxa_result acc rooted t) as LT. revert LT.
  rewrite encode_spec. cbv zeta. cbn [r_tree r_edges r_enc]. intro LT. split; [| reflexivity].
  unfold spec_edges. apply Forall2_map_self. intros n Hn. cbn [fst snd]. split; [reflexivity|].
  intros i Hi. apply mask_of_testbit; [| exact Hi].
  intros x Hx. apply Hacc. rewrite <- LT. apply (postorder_leaf_taxa_incl _ n Hn). exact Hx.
Qed.

Lemma msubset_0 a : msubset a 0 -> a = 0.
Proof.
  intro H. apply eq0_bits. intros i Hi. destruct (Z.testbit a i) eqn:E; [| reflexivity].
  specialize (H i Hi E). unfold mem in H. rewrite Z.bits_0 in H. discriminate.
Qed.

Lemma pre_collapse_rooted rooted t : is_true rooted = true -> pre_collapse rooted t = (t, rooted).
Proof. intro H. unfold pre_collapse. rewrite H. reflexivity. Qed.

Lemma pre_collapse_unrooted rooted t : is_true rooted = false -> is_true (snd (pre_collapse rooted t)) = false.
Proof.
  intro H. unfold pre_collapse. destruct (negb (is_true rooted) && (nkids t =? 2)); cbn [snd]; [| exact H].
  destruct (snd (collapse_basal t)); [reflexivity | exact H].
Qed.

Lemma split_mask_rooted_l acc rooted t : is_true rooted = true ->
  Forall (fun e => snd (snd e) = fst (snd e)) (r_edges (encode acc rooted t))
  /\ r_rooted (encode acc rooted t) = rooted.
Proof.
  intro HR. rewrite encode_spec. cbv zeta. rewrite (pre_collapse_rooted rooted t HR). cbn [fst snd r_edges r_rooted].
  split; [| reflexivity]. unfold spec_edges. apply Forall_forall. intros e He.
  apply in_map_iff in He. destruct He as (n & <- & Hn). cbn [fst snd].
  unfold compile_split. rewrite HR.
  destruct (Z.eqb_spec (cmask acc t) 0) as [E0 | _]; [| reflexivity].
  symmetry. apply msubset_0. rewrite <- E0, <- (cmask_suppress acc t). apply postorder_cmask_subset. exact Hn.
Qed.

Lemma split_mask_unrooted_l acc rooted t : is_true rooted = false ->
  let S := cmask acc t in
  (S = 0 -> Forall (fun e => snd (snd e) = 0) (r_edges (encode acc rooted t))) /\
  (forall low, 0 <= low -> Z.testbit S low = true -> (forall j, 0 <= j < low -> Z.testbit S j = false) ->
     Forall (fun e =>
               let ls := fst (snd e) in
               let sp := snd (snd e) in
               sp = (if Z.testbit ls low then Z.land (Z.lnot ls) S else ls) /\
               Z.testbit sp low = false /\
               Z.land sp S = sp)
            (r_edges (encode acc rooted t))).
Proof.
  intros HR S. rewrite encode_spec. cbv zeta. cbn [r_edges].
  pose proof (pre_collapse_unrooted rooted t HR) as HR1.
  set (rooted1 := snd (pre_collapse rooted t)) in *.
  set (t1 := fst (pre_collapse rooted t)).
  assert (LS : forall n, In n (postorder (suppress t1)) -> msubset (cmask acc n) S).
  { intros n Hn. unfold S. replace (cmask acc t) with (cmask acc (suppress t1)).
    - apply postorder_cmask_subset. exact Hn.
    - rewrite cmask_suppress. unfold cmask, t1. rewrite leaf_taxa_pre_collapse. reflexivity. }
  split.
  - intro S0. apply Forall_forall. intros e He. unfold spec_edges in He.
    apply in_map_iff in He. destruct He as (n & <- & Hn). cbn [fst snd].
    unfold compile_split. fold S. rewrite S0. reflexivity.
  - intros low Hlow Hbit Hmin. apply Forall_forall. intros e He. unfold spec_edges in He.
    apply in_map_iff in He. destruct He as (n & <- & Hn). cbn [fst snd]. cbv zeta.
    unfold compile_split. fold S. rewrite HR1.
    assert (SN : S <> 0) by (intro E; rewrite E, Z.bits_0 in Hbit; discriminate).
    destruct (Z.eqb_spec S 0) as [E | _]; [contradiction|].
    destruct (lsb_pow2 S SN) as (k & Hk & EL).
    assert (K : k = low).
    { apply (lowest_unique S); [exact Hk|]. split; [exact Hlow|]. split; [exact Hbit | exact Hmin]. }
    subst k. rewrite EL.
    split; [| split].
    + rewrite normalize_eq by exact Hlow. destruct (Z.testbit (cmask acc n) low); [reflexivity|].
      apply msubset_land. apply LS. exact Hn.
    + apply normalize_low_clear. exact Hlow.
    + apply normalize_subset_fill. exact Hlow.
Qed.

Lemma encode_structure_l acc rooted t :
  let r := encode acc rooted t in
  let basal := negb (is_true rooted) && (nkids t =? 2) in
  r_tree r = suppress (if basal then fst (collapse_basal t) else t) /\
  r_rooted r = (if basal && snd (collapse_basal t) then Some false else rooted) /\
  leaf_taxa (r_tree r) = leaf_taxa t /\
  unif_free (r_tree r) = true.
Proof.
  cbv zeta. split; [| split; [| split]].
  - rewrite encode_spec. cbv zeta. cbn [r_tree]. unfold pre_collapse.
    destruct (negb (is_true rooted) && (nkids t =? 2)); reflexivity.
  - rewrite encode_spec. cbv zeta. cbn [r_rooted]. unfold pre_collapse.
    destruct (negb (is_true rooted) && (nkids t =? 2)); reflexivity.
  - apply leaf_taxa_result.
  - rewrite encode_spec. cbv zeta. cbn [r_tree]. apply suppress_unif_free.
Qed.

Lemma collapse_basal_false t : snd (collapse_basal t) = false -> fst (collapse_basal t) = t.
Proof.
  destruct t as [i x l e ks]. destruct ks as [|c0 [|c1 [|c2 r]]]; try reflexivity.
  cbn [collapse_basal]. destruct (2 <=? nkids c1); [discriminate|].
  destruct (2 <=? nkids c0); [discriminate | reflexivity].
Qed.

Lemma pre_collapse_idem rooted t : unif_free t = true ->
  pre_collapse (snd (pre_collapse rooted t)) (fst (pre_collapse rooted t)) = pre_collapse rooted t.
Proof.
  intro U. unfold pre_collapse.
  destruct (negb (is_true rooted) && (nkids t =? 2)) eqn:B.
  - cbn [fst snd]. destruct (snd (collapse_basal t)) eqn:C.
    + pose proof (collapse_basal_nkids t C U) as N.
      replace (nkids (fst (collapse_basal t)) =? 2) with false by lia.
      rewrite andb_false_r. reflexivity.
    + rewrite (collapse_basal_false t C). rewrite B, C.
      rewrite (collapse_basal_false t C). reflexivity.
  - cbn [fst snd]. rewrite B. reflexivity.
Qed.

Lemma pre_collapse_unif_free rooted t : unif_free t = true -> unif_free (fst (pre_collapse rooted t)) = true.
Proof.
  intro U. unfold pre_collapse. destruct (negb (is_true rooted) && (nkids t =? 2)); [| exact U].
  apply collapse_basal_unif_free. exact U.
Qed.

Lemma encode_idempotent_partial_l acc rooted t :
  is_true rooted = true \/ unif_free t = true ->
  encode acc (r_rooted (encode acc rooted t)) (r_tree (encode acc rooted t)) = encode acc rooted t.
Proof.
  intros [HR | U].
  - rewrite (encode_spec acc rooted t). cbv zeta. rewrite (pre_collapse_rooted rooted t HR).
    cbn [fst snd r_tree r_rooted]. rewrite encode_spec. cbv zeta.
    rewrite (pre_collapse_rooted rooted _ HR). cbn [fst snd].
    rewrite suppress_idem, cmask_suppress. reflexivity.
  - rewrite (encode_spec acc rooted t). cbv zeta. cbn [r_tree r_rooted].
    pose proof (pre_collapse_unif_free rooted t U) as U1.
    rewrite (suppress_id _ U1). rewrite encode_spec. cbv zeta.
    rewrite (pre_collapse_idem rooted t U). rewrite (suppress_id _ U1).
    replace (cmask acc (fst (pre_collapse rooted t))) with (cmask acc t); [reflexivity|].
    unfold cmask. rewrite leaf_taxa_pre_collapse. reflexivity.
Qed.

(* unrestricted idempotence fails: a unifurcation at or just below the seed of an unrooted tree
   hides a basal bifurcation from the collapse, the on-the-fly suppression then exposes it, and
   only a second call collapses it.   [&U] (A,((B,C)))  ->  (A,(B,C))  ->  (A,B,C) *)
Definition idem_witness : tree :=
  T 0 None None None
    [T 1 (Some 0) None None [];
     T 2 None None None [T 3 None None None [T 4 (Some 1) None None []; T 5 (Some 2) None None []]]].

Lemma encode_idempotent_refuted_l :
  exists acc rooted t,
    let r := encode acc rooted t in
    r_tree (encode acc (r_rooted r) (r_tree r)) <> r_tree r /\
    map snd (r_enc (encode acc (r_rooted r) (r_tree r))) <> map snd (r_enc r).
Proof.
  exists (fun x => x), (Some false), idem_witness. cbv zeta. split; vm_compute; discriminate.
Qed.

(* ... but the second call reaches a fixed point *)
Lemma encode_twice_stable_l acc rooted t :
  let r1 := encode acc rooted t in
  let r2 := encode acc (r_rooted r1) (r_tree r1) in
  encode acc (r_rooted r2) (r_tree r2) = r2.
Proof.
  cbv zeta. apply encode_idempotent_partial_l. right.
  rewrite (encode_spec acc rooted t). cbv zeta. cbn [r_tree]. apply suppress_unif_free.
Qed.

(* whatever the structure does, the SET of split masks is already final after the first call *)
Definition set_eq (l1 l2 : list Z) : Prop := forall m, In m l1 <-> In m l2.
